(* Proofs/BVMut.v — C07 part b: every construction / mutation of the BitVector model preserves
   well-formedness and equals the plain-list specification; rejected operations leave the
   vector unchanged. *)
From Sucds Require Import Base.Res Spec.WordSpec Spec.BitSpec Model.BitVector
  Proofs.ResLemmas Proofs.BVAbs Proofs.BVMutLemmas.
From Coq Require Import ZArith ZifyN ZifyBool ZifyNat Lia.
Ltac Zify.zify_post_hook ::= Z.div_mod_to_equations.
Open Scope N_scope.

(* facts of a well-formed vector in the shape the proofs below consume *)
Lemma wf_facts bv : wf bv ->
  lenN (bv_words bv) = (bv_len bv + 63) / 64 /\
  Forall (fun w => w < W) (bv_words bv) /\
  lenN (bits_of bv) = bv_len bv /\
  (forall i, nth (N.to_nat i) (bits_of bv) false = N.testbit (nthN (bv_words bv) (i / 64) 0) (i mod 64)) /\
  (forall i, bv_len bv <= i -> N.testbit (nthN (bv_words bv) (i / 64) 0) (i mod 64) = false).
Proof.
  intro H. pose proof (bits_of_length bv H) as HL.
  split; [apply H | split; [apply H | split; [exact HL | split]]].
  - intro i. symmetry. apply (wbit_bits_of bv i H).
  - intros i Hi. destruct H as [_ [_ Hz]]. apply (Hz i Hi).
Qed.

Theorem push_bit_spec c bv b : wf bv -> bv_len bv + 1 < 2 ^ 56 ->
  exists bv', push_bit c bv b = Ok bv' /\ wf bv' /\ bits_of bv' = bits_of bv ++ [b].
Proof.
  intros Hwf Hcap. destruct (wf_facts bv Hwf) as [Hlen [Hall [HL [Hnth Hz]]]].
  destruct bv as [ws len]. cbn [bv_words bv_len] in *.
  assert (Hcap' : len + 1 < 72057594037927936) by exact Hcap. clear Hcap.
  unfold push_bit, WORD_LEN. cbn [bv_words bv_len].
  rewrite add_ok by (unfold W; lia).
  destruct (N.eqb_spec (len mod 64) 0) as [Hp|Hp]; cbn [bind].
  - eexists. split; [reflexivity|]. apply rep_intro.
    + rewrite lenN_app. change (lenN [b2n b]) with 1. lia.
    + apply Forall_snoc; [exact Hall | apply b2n_lt_W].
    + rewrite lenN_app, HL. reflexivity.
    + intro i. unfold wbit. rewrite nthN_snoc_spec, HL, Hnth.
      destruct (N.ltb_spec i len) as [Hi|Hi].
      * rewrite nthN_app_l by lia. reflexivity.
      * destruct (N.eqb_spec i len) as [->|Hne]; cbn [andb].
        -- replace (len / 64) with (lenN ws) by lia. rewrite nthN_last, tb_b2n, Hp. destruct b; reflexivity.
        -- destruct (N.eq_dec (i / 64) (lenN ws)) as [E|E].
           ++ rewrite E, nthN_last, tb_b2n.
              destruct (N.eqb_spec (i mod 64) 0) as [E0|E0]; [lia | destruct b; reflexivity].
           ++ rewrite nthN_oob by (rewrite lenN_app; change (lenN [b2n b]) with 1; lia). apply tb_zero.
  - rewrite assert_ok by (destruct (N.eqb_spec (lenN ws) 0) as [E|E]; [lia | reflexivity]).
    cbn [bind]. rewrite shl_ok' by lia. cbn [bind].
    eexists. split; [reflexivity|]. apply rep_intro.
    + rewrite lenN_upd_last. lia.
    + apply Forall_upd_last; [exact Hall|]. intros x Hx. apply lor_lt_W; [exact Hx | apply land_ones64_lt].
    + rewrite lenN_app, HL. reflexivity.
    + intro i. unfold wbit. rewrite nthN_snoc_spec, HL, Hnth.
      rewrite nthN_upd_last by lia.
      pose proof (Hz i) as Hzi.
      destruct (N.eqb_spec (i / 64) (lenN ws - 1)) as [E|E].
      * rewrite N.lor_spec, N.land_spec, tb_shiftl, tb_ones, tb_b2n.
        destruct (N.ltb_spec i len) as [Hi|Hi].
        -- destruct (N.leb_spec (len mod 64) (i mod 64)) as [H1|H1]; [lia|].
           cbn [andb]. rewrite orb_false_r. reflexivity.
        -- rewrite Hzi by lia. cbn [orb].
           destruct (N.leb_spec (len mod 64) (i mod 64)) as [H1|H1]; [|lia].
           destruct (N.ltb_spec (i mod 64) 64) as [H2|H2]; [|lia].
           destruct (N.eqb_spec (i mod 64 - len mod 64) 0) as [H3|H3];
           destruct (N.eqb_spec i len) as [H4|H4]; try lia; destruct b; reflexivity.
      * destruct (N.ltb_spec i len) as [Hi|Hi]; [reflexivity|].
        destruct (N.eqb_spec i len) as [H4|H4]; [lia|]. cbn [andb]. apply Hzi. lia.
Qed.

(* the common postcondition of an operation o applied to the model value bv *)
Definition op_post (bv : bitvec) (o : bvop) (r : res (bitvec * bool)) : Prop :=
  exists bv' ok, r = Ok (bv', ok) /\ wf bv' /\
    bits_of bv' = fst (apply_op (bits_of bv) o) /\
    ok = snd (apply_op (bits_of bv) o) /\
    (ok = false -> bv' = bv).

Lemma op_post_reject bv o : wf bv -> apply_op (bits_of bv) o = (bits_of bv, false) -> op_post bv o (Ok (bv, false)).
Proof.
  intros Hwf E. exists bv, false. rewrite E. cbn [fst snd].
  split; [reflexivity|]. split; [exact Hwf|]. split; [reflexivity|]. split; reflexivity.
Qed.

Lemma op_post_accept bv o ws n l : apply_op (bits_of bv) o = (l, true) ->
  wf {| bv_words := ws; bv_len := n |} /\ bits_of {| bv_words := ws; bv_len := n |} = l ->
  op_post bv o (Ok ({| bv_words := ws; bv_len := n |}, true)).
Proof.
  intros E [Hwf Hb]. eexists _, true. rewrite E. cbn [fst snd].
  split; [reflexivity|]. split; [exact Hwf|]. split; [exact Hb|]. split; [reflexivity | discriminate].
Qed.

Ltac split_cmp :=
  repeat (match goal with
  | |- context [N.ltb ?a ?b] => destruct (N.ltb_spec a b)
  | |- context [N.leb ?a ?b] => destruct (N.leb_spec a b)
  | |- context [N.eqb ?a ?b] => destruct (N.eqb_spec a b)
  end; try (exfalso; lia)).

Theorem set_bit_spec c bv pos b : wf bv -> op_post bv (OSetBit pos b) (set_bit c bv pos b).
Proof.
  intros Hwf. destruct (wf_facts bv Hwf) as [Hlen [Hall [HL [Hnth Hz]]]].
  unfold set_bit, WORD_LEN.
  destruct (N.leb_spec (bv_len bv) pos) as [Hp|Hp].
  - apply op_post_reject; [exact Hwf|]. cbn [apply_op]. rewrite HL.
    destruct (N.ltb_spec pos (bv_len bv)); [lia | reflexivity].
  - destruct bv as [ws len]. cbn [bv_words bv_len] in *.
    rewrite idx_ok by lia. cbn [bind]. rewrite !shl_ok' by lia. cbn [bind].
    eapply op_post_accept.
    { cbn [apply_op]. rewrite HL. destruct (N.ltb_spec pos len); [reflexivity | lia]. }
    apply rep_intro.
    + rewrite lenN_setN. exact Hlen.
    + apply Forall_setN; [exact Hall|]. apply lor_lt_W; [|apply land_ones64_lt].
      apply land_lt_W_l. apply Forall_nthN; [exact Hall | reflexivity].
    + rewrite lenN_overwrite; [symmetry; exact HL | change (lenN [b]) with 1; lia].
    + intro i. unfold wbit. rewrite nthN_overwrite_one_spec by lia. rewrite Hnth.
      rewrite nthN_setN by lia.
      destruct (N.eqb_spec (i / 64) (pos / 64)) as [E|E].
      * rewrite <- E.
        rewrite N.lor_spec, !N.land_spec, tb_not64, N.land_spec, !tb_shiftl, tb_ones, tb_one, tb_b2n.
        split_cmp; cbn [andb orb xorb]; destruct b;
          rewrite ?andb_true_r, ?andb_false_r, ?orb_true_r, ?orb_false_r; reflexivity.
      * destruct (N.eqb_spec i pos) as [->|Hne]; [lia | reflexivity].
Qed.

Ltac bsimp := cbn [andb orb xorb negb]; rewrite ?andb_true_r, ?andb_false_r, ?orb_true_r, ?orb_false_r.

Theorem push_bits_spec c bv bits len : wf bv ->
  lenN (fst (apply_op (bits_of bv) (OPushBits bits len))) < 2 ^ 56 ->
  op_post bv (OPushBits bits len) (push_bits c bv bits len).
Proof.
  intros Hwf Hcap. destruct (wf_facts bv Hwf) as [Hlen [Hall [HL [Hnth Hz]]]].
  unfold push_bits, WORD_LEN. cbn [apply_op] in Hcap.
  destruct (N.ltb_spec 64 len) as [Hl|Hl].
  { apply op_post_reject; [exact Hwf|]. cbn [apply_op].
    destruct (N.leb_spec len 64); [lia | reflexivity]. }
  assert (Eop : apply_op (bits_of bv) (OPushBits bits len) = (bits_of bv ++ low_bits (N.to_nat len) bits, true)).
  { cbn [apply_op]. destruct (N.leb_spec len 64); [reflexivity | lia]. }
  destruct (N.leb_spec len 64) as [_|Hx]; [|lia]. cbn [fst] in Hcap.
  rewrite lenN_app, lenN_low_bits, HL in Hcap.
  destruct bv as [ws n]. cbn [bv_words bv_len] in *.
  assert (Hcap' : n + len < 72057594037927936) by exact Hcap. clear Hcap.
  destruct (N.eqb_spec len 0) as [Hl0|Hl0].
  { eapply op_post_accept; [exact Eop|]. split; [exact Hwf|].
    rewrite Hl0. cbn [N.to_nat low_bits]. rewrite app_nil_r. reflexivity. }
  rewrite len_mask_ok by exact Hl. cbn [bind].
  rewrite add_ok by (unfold W; lia).
  destruct (N.eqb_spec (n mod 64) 0) as [Hp|Hp]; cbn [bind].
  - eapply op_post_accept; [exact Eop|]. apply rep_intro.
    + rewrite lenN_app. change (lenN [N.land bits (N.ones len)]) with 1. lia.
    + apply Forall_snoc; [exact Hall|]. apply land_lt_W_r.
      rewrite W_eq, N.ones_equiv.
      assert (2 ^ len <= 2 ^ 64) by (apply N.pow_le_mono_r; [discriminate | exact Hl]). lia.
    + rewrite lenN_app, lenN_low_bits, HL. reflexivity.
    + intro i. unfold wbit. rewrite nthN_app_low_spec, HL, Hnth, nthN_snoc.
      pose proof (Hz i) as Hzi.
      destruct (N.ltb_spec i n) as [Hi|Hi].
      * destruct (N.ltb_spec (i / 64) (lenN ws)); [reflexivity | lia].
      * destruct (N.ltb_spec (i / 64) (lenN ws)); [lia|].
        destruct (N.eqb_spec (i / 64) (lenN ws)) as [E|E].
        -- rewrite N.land_spec, tb_ones. replace (i - n) with (i mod 64) by lia. apply andb_comm.
        -- rewrite tb_zero. destruct (N.ltb_spec (i - n) len); [lia | reflexivity].
  - rewrite assert_ok by (destruct (N.eqb_spec (lenN ws) 0) as [E|E]; [lia | reflexivity]).
    cbn [bind]. rewrite shl_ok' by lia. cbn [bind].
    rewrite sub_ok by lia. cbn [bind].
    set (t := N.land (N.shiftl (N.land bits (N.ones len)) (n mod 64)) (N.ones 64)).
    assert (Hall1 : Forall (fun w => w < W) (upd_last (fun w => N.lor w t) ws)).
    { apply Forall_upd_last; [exact Hall|]. intros x Hx. apply lor_lt_W; [exact Hx | apply land_ones64_lt]. }
    destruct (N.ltb_spec (64 - n mod 64) len) as [Hr|Hr].
    + rewrite shr_ok' by lia. cbn [bind].
      eapply op_post_accept; [exact Eop|]. apply rep_intro.
      * rewrite lenN_app, lenN_upd_last. change (lenN [_]) with 1. lia.
      * apply Forall_snoc; [exact Hall1|]. apply shiftr_lt_W. apply land_lt_W_r.
        rewrite W_eq, N.ones_equiv.
        assert (2 ^ len <= 2 ^ 64) by (apply N.pow_le_mono_r; [discriminate | exact Hl]). lia.
      * rewrite lenN_app, lenN_low_bits, HL. reflexivity.
      * intro i. unfold wbit. rewrite nthN_app_low_spec, HL, Hnth, nthN_snoc, lenN_upd_last.
        rewrite nthN_upd_last by lia. pose proof (Hz i) as Hzi.
        destruct (N.ltb_spec (i / 64) (lenN ws)) as [Hj|Hj].
        -- destruct (N.eqb_spec (i / 64) (lenN ws - 1)) as [E|E].
           ++ unfold t. rewrite N.lor_spec, !N.land_spec, tb_shiftl, !tb_ones, N.land_spec, tb_ones.
              destruct (N.leb_spec (n mod 64) (i mod 64)) as [H1|H1].
              ** rewrite Hzi by lia. replace (i mod 64 - n mod 64) with (i - n) by lia.
                 split_cmp; bsimp; reflexivity.
              ** split_cmp; bsimp; reflexivity.
           ++ destruct (N.ltb_spec i n); [reflexivity | lia].
        -- destruct (N.ltb_spec i n); [lia|].
           destruct (N.eqb_spec (i / 64) (lenN ws)) as [E|E].
           ++ rewrite tb_shiftr, N.land_spec, tb_ones.
              replace (i mod 64 + (64 - n mod 64)) with (i - n) by lia. apply andb_comm.
           ++ rewrite tb_zero. destruct (N.ltb_spec (i - n) len); [lia | reflexivity].
    + eapply op_post_accept; [exact Eop|]. apply rep_intro.
      * rewrite lenN_upd_last. lia.
      * exact Hall1.
      * rewrite lenN_app, lenN_low_bits, HL. reflexivity.
      * intro i. unfold wbit. rewrite nthN_app_low_spec, HL, Hnth.
        rewrite nthN_upd_last by lia. pose proof (Hz i) as Hzi.
        destruct (N.eqb_spec (i / 64) (lenN ws - 1)) as [E|E].
        -- unfold t. rewrite N.lor_spec, !N.land_spec, tb_shiftl, !tb_ones, N.land_spec, tb_ones.
           destruct (N.leb_spec (n mod 64) (i mod 64)) as [H1|H1].
           ++ rewrite Hzi by lia. replace (i mod 64 - n mod 64) with (i - n) by lia.
              split_cmp; bsimp; reflexivity.
           ++ split_cmp; bsimp; reflexivity.
        -- destruct (N.ltb_spec i n); [reflexivity|]. rewrite Hzi by lia.
           destruct (N.ltb_spec (i - n) len); [lia | reflexivity].
Qed.

Definition field_lo (w bits len piw : N) : N :=
  N.lor (N.land w (not64 (N.land (N.shiftl (N.ones len) piw) (N.ones 64))))
        (N.land (N.shiftl (N.land bits (N.ones len)) piw) (N.ones 64)).

Lemma field_lo_lt_W w bits len piw : w < W -> field_lo w bits len piw < W.
Proof. intro H. unfold field_lo. apply lor_lt_W; [apply land_lt_W_l; exact H | apply land_ones64_lt]. Qed.

Lemma tb_field_lo w bits len pos i : i / 64 = pos / 64 ->
  N.testbit (field_lo w bits len (pos mod 64)) (i mod 64) =
  if (pos <=? i) && (i <? pos + len) then N.testbit bits (i - pos) else N.testbit w (i mod 64).
Proof.
  intro E. unfold field_lo.
  rewrite N.lor_spec, !N.land_spec, tb_not64, N.land_spec, !tb_shiftl, !tb_ones, N.land_spec, tb_ones.
  destruct (N.leb_spec (pos mod 64) (i mod 64)) as [H1|H1].
  - replace (i mod 64 - pos mod 64) with (i - pos) by lia.
    split_cmp; bsimp; reflexivity.
  - split_cmp; bsimp; reflexivity.
Qed.

Theorem set_bits_spec c bv pos bits len : wf bv -> bv_len bv < 2 ^ 56 ->
  op_post bv (OSetBits pos bits len) (set_bits c bv pos bits len).
Proof.
  intros Hwf Hcap. destruct (wf_facts bv Hwf) as [Hlen [Hall [HL [Hnth Hz]]]].
  unfold set_bits, WORD_LEN.
  destruct (N.ltb_spec 64 len) as [Hl|Hl].
  { apply op_post_reject; [exact Hwf|]. cbn [apply_op].
    destruct (N.leb_spec len 64); [lia | reflexivity]. }
  destruct (N.ltb_spec (bv_len bv) (pos + len)) as [Hpl|Hpl].
  { apply op_post_reject; [exact Hwf|]. cbn [apply_op]. rewrite HL.
    destruct (N.leb_spec (pos + len) (bv_len bv)); [lia | rewrite andb_false_r; reflexivity]. }
  assert (Eop : apply_op (bits_of bv) (OSetBits pos bits len) =
                (overwrite (bits_of bv) (N.to_nat pos) (low_bits (N.to_nat len) bits), true)).
  { cbn [apply_op]. rewrite HL. destruct (N.leb_spec len 64); [|lia].
    destruct (N.leb_spec (pos + len) (bv_len bv)); [reflexivity | lia]. }
  destruct bv as [ws n]. cbn [bv_words bv_len] in *.
  assert (Hcap' : n < 72057594037927936) by exact Hcap. clear Hcap.
  destruct (N.eqb_spec len 0) as [Hl0|Hl0].
  { eapply op_post_accept; [exact Eop|]. split; [exact Hwf|].
    rewrite Hl0. cbn [N.to_nat low_bits]. rewrite overwrite_nil. reflexivity. }
  rewrite len_mask_ok by exact Hl. cbn [bind].
  rewrite idx_ok by lia. cbn [bind]. rewrite !shl_ok' by lia. cbn [bind].
  rewrite sub_ok by lia. cbn [bind].
  assert (HLs : n = lenN (overwrite (bits_of {| bv_words := ws; bv_len := n |}) (N.to_nat pos) (low_bits (N.to_nat len) bits))).
  { rewrite lenN_overwrite; [symmetry; exact HL | rewrite lenN_low_bits; lia]. }
  fold (field_lo (nthN ws (pos / 64) 0) bits len (pos mod 64)).
  set (w0 := field_lo (nthN ws (pos / 64) 0) bits len (pos mod 64)).
  assert (Hw0 : w0 < W).
  { apply field_lo_lt_W. apply Forall_nthN; [exact Hall | reflexivity]. }
  assert (Htb0 : forall i, i / 64 = pos / 64 ->
            N.testbit w0 (i mod 64) =
            if (pos <=? i) && (i <? pos + len) then N.testbit bits (i - pos)
            else N.testbit (nthN ws (i / 64) 0) (i mod 64)).
  { intros i E. unfold w0. rewrite E. apply tb_field_lo. exact E. }
  clearbody w0.
  destruct (N.ltb_spec (64 - pos mod 64) len) as [Hs|Hs].
  - rewrite add_ok by (unfold W; lia). cbn [bind].
    rewrite idx_ok by (rewrite lenN_setN; lia). cbn [bind].
    rewrite !shr_ok' by lia. cbn [bind].
    rewrite nthN_setN by lia.
    destruct (N.eqb_spec (pos / 64 + 1) (pos / 64)) as [Ebad|_]; [lia|].
    eapply op_post_accept; [exact Eop|]. apply rep_intro.
    + rewrite !lenN_setN. exact Hlen.
    + apply Forall_setN; [apply Forall_setN; [exact Hall | exact Hw0]|].
      apply lor_lt_W.
      * apply land_lt_W_l. apply Forall_nthN; [exact Hall | reflexivity].
      * apply shiftr_lt_W. apply land_lt_W_r. apply ones_lt_W. exact Hl.
    + exact HLs.
    + intro i. unfold wbit. rewrite nthN_overwrite_low_spec by lia. rewrite Hnth.
      rewrite !nthN_setN by (rewrite ?lenN_setN; lia).
      destruct (N.eqb_spec (i / 64) (pos / 64 + 1)) as [E1|E1].
      * rewrite <- E1.
        rewrite N.lor_spec, N.land_spec, tb_not64, !tb_shiftr, N.land_spec, !tb_ones.
        replace (i mod 64 + (64 - pos mod 64)) with (i - pos) by lia.
        split_cmp; bsimp; reflexivity.
      * destruct (N.eqb_spec (i / 64) (pos / 64)) as [E|E].
        -- apply Htb0. exact E.
        -- split_cmp; bsimp; reflexivity.
  - eapply op_post_accept; [exact Eop|]. apply rep_intro.
    + rewrite lenN_setN. exact Hlen.
    + apply Forall_setN; [exact Hall | exact Hw0].
    + exact HLs.
    + intro i. unfold wbit. rewrite nthN_overwrite_low_spec by lia. rewrite Hnth.
      rewrite nthN_setN by lia.
      destruct (N.eqb_spec (i / 64) (pos / 64)) as [E|E].
      * apply Htb0. exact E.
      * split_cmp; bsimp; reflexivity.
Qed.

Theorem from_bit_spec c b len : len < 2 ^ 56 ->
  exists bv', from_bit c b len = Ok bv' /\ wf bv' /\ bits_of bv' = repeat b (N.to_nat len).
Proof.
  intro Hcap. assert (Hcap' : len < 72057594037927936) by exact Hcap. clear Hcap.
  unfold from_bit, WORD_LEN. rewrite words_for_ok by (unfold W; lia). cbn [bind].
  set (word := if b then MASK64 else 0).
  assert (Hword : word < W) by (destruct b; reflexivity).
  assert (Htw : forall k, N.testbit word k = b && (k <? 64)).
  { intro k. unfold word. destruct b; [apply tb_MASK64 | apply tb_zero]. }
  clearbody word.
  destruct (N.eqb_spec (len mod 64) 0) as [Hs|Hs]; cbn [negb].
  - eexists. split; [reflexivity|]. apply rep_intro.
    + apply lenN_repeatN.
    + apply Forall_repeat. exact Hword.
    + symmetry. apply lenN_repeatN.
    + intro i. unfold wbit. rewrite nthN_repeat_spec, nthN_repeat.
      destruct (N.ltb_spec (i / 64) ((len + 63) / 64)) as [H|H].
      * rewrite Htw. split_cmp; bsimp; reflexivity.
      * rewrite tb_zero. split_cmp; bsimp; reflexivity.
  - rewrite shl_ok_small; [| lia | rewrite N.mul_1_l, W_eq; apply N.pow_lt_mono_r; [reflexivity | lia]].
    cbn [bind]. rewrite N.mul_1_l.
    assert (Hnz : 2 ^ (len mod 64) <> 0) by (apply N.pow_nonzero; discriminate).
    rewrite sub_ok by lia. cbn [bind].
    replace (2 ^ (len mod 64) - 1) with (N.ones (len mod 64)) by (rewrite N.ones_equiv; lia).
    rewrite assert_ok by (rewrite lenN_repeatN; destruct (N.eqb_spec ((len + 63) / 64) 0); [lia | reflexivity]).
    cbn [bind]. eexists. split; [reflexivity|]. apply rep_intro.
    + rewrite lenN_upd_last. apply lenN_repeatN.
    + apply Forall_upd_last; [apply Forall_repeat; exact Hword|].
      intros x Hx. apply land_lt_W_l. exact Hx.
    + symmetry. apply lenN_repeatN.
    + intro i. unfold wbit. rewrite nthN_repeat_spec.
      rewrite nthN_upd_last by (rewrite lenN_repeatN; lia).
      rewrite lenN_repeatN, nthN_repeat.
      destruct (N.eqb_spec (i / 64) ((len + 63) / 64 - 1)) as [E|E].
      * destruct (N.ltb_spec (i / 64) ((len + 63) / 64)) as [H|H]; [|lia].
        rewrite N.land_spec, Htw, tb_ones. split_cmp; bsimp; reflexivity.
      * destruct (N.ltb_spec (i / 64) ((len + 63) / 64)) as [H|H].
        -- rewrite Htw. split_cmp; bsimp; reflexivity.
        -- rewrite tb_zero. split_cmp; bsimp; reflexivity.
Qed.

Lemma wf_empty : wf bv_empty.
Proof.
  split; [reflexivity | split; [constructor|]]. intros i _. apply wbit_oob. unfold bv_empty. cbn [bv_words]. change (lenN (@nil N)) with 0. lia.
Qed.
Lemma bits_of_empty : bits_of bv_empty = [].
Proof. reflexivity. Qed.

Theorem extend_spec c bv l : wf bv -> bv_len bv + lenN l < 2 ^ 56 ->
  exists bv', extend c bv l = Ok bv' /\ wf bv' /\ bits_of bv' = bits_of bv ++ l.
Proof.
  unfold extend. revert bv. induction l as [|x l IH]; intros bv Hwf Hcap.
  - exists bv. split; [reflexivity|]. split; [exact Hwf|]. rewrite app_nil_r. reflexivity.
  - rewrite lenN_cons in Hcap.
    assert (Hc1 : bv_len bv + 1 < 2 ^ 56) by (change (2 ^ 56) with 72057594037927936 in *; lia).
    destruct (push_bit_spec c bv x Hwf Hc1) as [bv1 [E1 [Hwf1 Hb1]]].
    cbn [fold_res]. rewrite E1. cbn [bind].
    assert (Hl1 : bv_len bv1 = bv_len bv + 1).
    { rewrite <- (bits_of_length bv1 Hwf1), Hb1, lenN_app, (bits_of_length bv Hwf). reflexivity. }
    destruct (IH bv1 Hwf1) as [bv2 [E2 [Hwf2 Hb2]]].
    { rewrite Hl1. change (2 ^ 56) with 72057594037927936 in *. lia. }
    exists bv2. split; [exact E2|]. split; [exact Hwf2|].
    rewrite Hb2, Hb1, <- app_assoc. reflexivity.
Qed.

Theorem from_bits_spec c l : lenN l < 2 ^ 56 ->
  exists bv', from_bits c l = Ok bv' /\ wf bv' /\ bits_of bv' = l.
Proof.
  intro Hcap. destruct (extend_spec c bv_empty l wf_empty) as [bv' [E [Hwf Hb]]].
  - exact Hcap.
  - exists bv'. split; [exact E|]. split; [exact Hwf|]. rewrite Hb. reflexivity.
Qed.

Print Assumptions push_bit_spec.
Print Assumptions set_bit_spec.
Print Assumptions push_bits_spec.
Print Assumptions set_bits_spec.
Print Assumptions from_bit_spec.
Print Assumptions extend_spec.
Print Assumptions from_bits_spec.
