(* Proofs/IterGeneric.v — property C17, the index-based iterators (BitVector::Iter,
   CompactVector, DacsByte, DacsOpt, PrefixSummedEliasFano, WaveletMatrix): all have the shape
     next(pos)      = if pos < len then (pos + 1, Some (access pos)) else (pos, None)
     size_hint(pos) = (len - pos, Some (len - pos)).
   The generic theorem `index_iter_ok` turns the one-step characterisation into the full stream
   semantics; `index_iter_from_access` derives the one-step characterisation from an access
   theorem, so that a structure is covered by one `apply`.  Instantiated here for BitVector. *)
From Sucds Require Import Base.Res Spec.BitSpec Model.BitVector Proofs.ResLemmas Proofs.BVAbs Proofs.BVReads.
From Coq Require Import ZArith ZifyN ZifyBool ZifyNat Lia.
Ltac Zify.zify_post_hook ::= Z.div_mod_to_equations.
Open Scope N_scope.

(* pos, pos+1, ..., pos+m-1 *)
Fixpoint nrange (pos : N) (m : nat) : list N :=
  match m with O => [] | S k => pos :: nrange (pos + 1) k end.

Lemma nrange_seq : forall m pos, nrange pos m = map N.of_nat (seq (N.to_nat pos) m).
Proof.
  induction m as [|m IH]; intro pos; [reflexivity|].
  cbn [nrange seq map]. rewrite IH. f_equal; [lia|]. f_equal. f_equal. lia.
Qed.
Lemma nrange_nseq n : nrange 0 (N.to_nat n) = nseq n.
Proof. rewrite nrange_seq, nseq_unfold. reflexivity. Qed.
Lemma nrange_length : forall m pos, length (nrange pos m) = m.
Proof. induction m as [|m IH]; intro pos; cbn [nrange length]; [reflexivity | rewrite IH; reflexivity]. Qed.
Lemma nrange_In : forall m pos x, In x (nrange pos m) -> pos <= x < pos + N.of_nat m.
Proof.
  induction m as [|m IH]; intros pos x H; [destruct H|].
  cbn [nrange] in H. destruct H as [<-|H]; [lia|]. apply IH in H. lia.
Qed.

Section Generic.
Context {A : Type}.
Variables (acc : N -> option A) (len : N).

(* one call of next() / size_hint() *)
Definition gstep (pos : N) : N * option A :=
  if pos <? len then (pos + 1, acc pos) else (pos, None).
Definition ghint (pos : N) : N * N := (len - pos, len - pos).

(* n calls of next(), collecting the results: pure and in the result monad *)
Fixpoint grun (n : nat) (pos : N) : N * list (option A) :=
  match n with
  | O => (pos, [])
  | S m => let s := grun m (fst (gstep pos)) in (fst s, snd (gstep pos) :: snd s)
  end.
Fixpoint mrun (next : N -> res (N * option A)) (n : nat) (pos : N) : res (N * list (option A)) :=
  match n with
  | O => Ok (pos, [])
  | S m => r <- next pos ;; s <- mrun next m (fst r) ;; Ok (fst s, snd r :: snd s)
  end.

Lemma gstep_le pos : pos <= len -> fst (gstep pos) <= len.
Proof. intro H. unfold gstep. destruct (N.ltb_spec pos len) as [H'|H']; cbn [fst]; lia. Qed.

(* the stream from any position: the remaining elements in order, then None forever;
   the position never exceeds len *)
Lemma grun_from : forall n pos, pos <= len ->
  grun n pos = (N.min (pos + N.of_nat n) len,
                map acc (nrange pos (Nat.min n (N.to_nat (len - pos))))
                ++ repeat None (n - N.to_nat (len - pos))).
Proof.
  induction n as [|n IH]; intros pos Hp.
  - cbn [grun Nat.min nrange map app Nat.sub repeat]. f_equal. lia.
  - cbn [grun]. rewrite IH by (apply gstep_le, Hp). unfold gstep.
    destruct (N.ltb_spec pos len) as [H|H]; cbn [fst snd].
    + f_equal; [lia|].
      replace (Nat.min (S n) (N.to_nat (len - pos))) with (S (Nat.min n (N.to_nat (len - (pos + 1))))) by lia.
      cbn [nrange map app]. f_equal. f_equal. f_equal. lia.
    + f_equal; [lia|].
      replace (N.to_nat (len - pos)) with 0%nat by lia.
      rewrite !Nat.min_0_r. cbn [nrange map app]. rewrite !Nat.sub_0_r. reflexivity.
Qed.

Lemma mrun_grun next : (forall pos, pos <= len -> next pos = Ok (gstep pos)) ->
  forall n pos, pos <= len -> mrun next n pos = Ok (grun n pos).
Proof.
  intro Hn. induction n as [|n IH]; intros pos Hp; [reflexivity|].
  cbn [mrun grun]. rewrite Hn by exact Hp. cbn [bind].
  rewrite IH by (apply gstep_le, Hp). reflexivity.
Qed.

(* the full contract of an index-based iterator *)
Definition iter_ok (next : N -> res (N * option A)) (hint : N -> res (N * N)) : Prop :=
  forall j : nat,
    let pj := N.min (N.of_nat j) len in
    (* j calls from the start: the first min(j, len) elements, then None's *)
    mrun next j 0 = Ok (pj, map acc (nseq pj) ++ repeat None (j - N.to_nat len)) /\
    (* the position never exceeds len *)
    pj <= len /\
    (* the size hint after j calls is exact: both bounds are len - pos ... *)
    hint pj = Ok (len - pj, len - pj) /\
    (* ... and exactly that many elements are still to come, followed by None forever *)
    forall n : nat,
      mrun next n pj = Ok (N.min (pj + N.of_nat n) len,
                           map acc (nrange pj (Nat.min n (N.to_nat (len - pj))))
                           ++ repeat None (n - N.to_nat (len - pj))).

Theorem index_iter_ok next hint :
  len < 2 ^ 56 ->
  (forall pos, pos < W -> next pos = Ok (gstep pos)) ->
  (forall pos, pos <= len -> hint pos = Ok (len - pos, len - pos)) ->
  iter_ok next hint.
Proof.
  intros Hlen Hnext Hhint j. cbv zeta.
  assert (Hn' : forall pos, pos <= len -> next pos = Ok (gstep pos)).
  { intros pos Hp. apply Hnext. change (2 ^ 56) with 72057594037927936 in Hlen. unfold W. lia. }
  assert (Hpj : N.min (N.of_nat j) len <= len) by lia.
  split; [|split; [exact Hpj|]; split; [apply Hhint; exact Hpj|]].
  - rewrite (mrun_grun next Hn') by lia. rewrite grun_from by lia.
    rewrite N.sub_0_r, N.add_0_l, <- nrange_nseq.
    replace (N.to_nat (N.min (N.of_nat j) len)) with (Nat.min j (N.to_nat len)) by lia. reflexivity.
  - intro n. rewrite (mrun_grun next Hn') by exact Hpj. rewrite grun_from by exact Hpj. reflexivity.
Qed.

(* when every element in range exists, the hint counts the Some's still to come *)
Definition is_some (x : option A) : bool := match x with Some _ => true | None => false end.

Lemma filter_is_some_map l : (forall x, In x l -> acc x <> None) ->
  length (filter is_some (map acc l)) = length l.
Proof.
  induction l as [|x l IH]; intro H; [reflexivity|]. cbn [map filter].
  destruct (acc x) eqn:E; [|exfalso; apply (H x); [left; reflexivity | exact E]].
  cbn [is_some length]. rewrite IH; [reflexivity|]. intros y Hy. apply H. right. exact Hy.
Qed.
Lemma filter_is_some_repeat n : filter is_some (repeat None n) = [].
Proof. induction n as [|n IH]; [reflexivity | cbn [repeat filter is_some]; exact IH]. Qed.

Theorem hint_counts_remaining :
  (forall i, i < len -> acc i <> None) ->
  forall n pos, pos <= len -> len - pos <= N.of_nat n ->
  lenN (filter is_some (snd (grun n pos))) = fst (ghint pos).
Proof.
  intros Hacc n pos Hp Hn. rewrite grun_from by exact Hp. cbn [snd ghint fst].
  rewrite filter_app, filter_is_some_repeat, app_nil_r. unfold lenN.
  rewrite filter_is_some_map.
  - rewrite nrange_length. lia.
  - intros x Hx. apply nrange_In in Hx. apply Hacc. lia.
Qed.
End Generic.

(* ---------- from an access theorem to the iterator contract, in one `apply` ---------- *)

(* the common body of the `next` functions of the index-based iterators *)
Definition index_next {A} (c : cfg) (access : N -> res (option A)) (len pos : N) : res (N * option A) :=
  if pos <? len then
    x <- access pos ;; x <- unwrap x ;; p <- add c pos 1 ;; Ok (p, Some x)
  else Ok (pos, None).

Lemma index_next_step {A} c (access : N -> res (option A)) (spec : N -> option A) len pos :
  len < 2 ^ 56 ->
  (pos < len -> access pos = Ok (spec pos)) -> (pos < len -> spec pos <> None) ->
  index_next c access len pos = Ok (gstep spec len pos).
Proof.
  intros Hlen Ha Hs. unfold index_next, gstep.
  destruct (N.ltb_spec pos len) as [H|H]; [|reflexivity].
  rewrite Ha by exact H. cbn [bind].
  destruct (spec pos) as [x|] eqn:E; [|exfalso; apply (Hs H); reflexivity].
  cbn [unwrap bind]. change (2 ^ 56) with 72057594037927936 in Hlen.
  rewrite add_ok by (unfold W; lia). reflexivity.
Qed.

Lemma size_hint_ok c len pos : pos <= len -> iter_size_hint c len pos = Ok (len - pos, len - pos).
Proof. intro H. unfold iter_size_hint. rewrite sub_ok by exact H. reflexivity. Qed.

Theorem index_iter_from_access {A} c (access : N -> res (option A)) (spec : N -> option A) len :
  len < 2 ^ 56 ->
  (forall pos, pos < len -> access pos = Ok (spec pos)) ->
  (forall pos, pos < len -> spec pos <> None) ->
  iter_ok spec len (index_next c access len) (iter_size_hint c len).
Proof.
  intros Hlen Ha Hs. apply index_iter_ok.
  - exact Hlen.
  - intros pos _. apply index_next_step; [exact Hlen | apply Ha | apply Hs].
  - intros pos Hp. apply size_hint_ok, Hp.
Qed.

(* ---------- BitVector::Iter ---------- *)

Lemma bv_iter_next_shape c bv pos :
  BitVector.iter_next c bv pos = index_next c (BitVector.get_bit c bv) (bv_len bv) pos.
Proof. reflexivity. Qed.

Theorem bv_iter_ok c bv : wf bv -> cap_ok bv ->
  iter_ok (BitSpec.access (bits_of bv)) (bv_len bv)
          (BitVector.iter_next c bv) (BitVector.iter_size_hint c (bv_len bv)).
Proof.
  intros Hwf Hcap. apply index_iter_ok.
  - exact Hcap.
  - intros pos Hp. apply iter_next_spec; assumption.
  - intros pos Hp. apply size_hint_ok, Hp.
Qed.

(* the same through the access theorem, as other structures will do it *)
Theorem bv_iter_ok' c bv : wf bv -> cap_ok bv ->
  iter_ok (BitSpec.access (bits_of bv)) (bv_len bv)
          (index_next c (BitVector.get_bit c bv) (bv_len bv)) (BitVector.iter_size_hint c (bv_len bv)).
Proof.
  intros Hwf Hcap. apply index_iter_from_access.
  - exact Hcap.
  - intros pos Hp. apply get_bit_spec; [exact Hwf | exact Hcap |].
    unfold cap_ok in Hcap. change (2 ^ 56) with 72057594037927936 in Hcap. unfold W. lia.
  - intros pos Hp. unfold BitSpec.access. rewrite bits_of_length by exact Hwf.
    destruct (N.ltb_spec pos (bv_len bv)) as [_|Hx]; [|lia].
    rewrite bits_of_nth_error by assumption. discriminate.
Qed.

(* all bits, in order: n >= len calls of next() return exactly the bits of the vector *)
Corollary bv_iter_all c bv n : wf bv -> cap_ok bv -> bv_len bv <= N.of_nat n ->
  mrun (BitVector.iter_next c bv) n 0
  = Ok (bv_len bv, map Some (bits_of bv) ++ repeat None (n - N.to_nat (bv_len bv))).
Proof.
  intros Hwf Hcap Hn. destruct (bv_iter_ok c bv Hwf Hcap n) as [E _]. rewrite E.
  replace (N.min (N.of_nat n) (bv_len bv)) with (bv_len bv) by lia.
  f_equal. f_equal. f_equal.
  pose proof (bits_of_length_nat bv Hwf) as Hl.
  apply nth_ext with (d := None) (d' := None).
  - rewrite !map_length. rewrite ?nseq_unfold. rewrite map_length, seq_length. lia.
  - intros i Hi. rewrite map_length in Hi. rewrite ?nseq_unfold in Hi. rewrite map_length, seq_length in Hi.
    rewrite (nth_indep _ None (BitSpec.access (bits_of bv) 0)) by (rewrite map_length; rewrite ?nseq_unfold; rewrite map_length, seq_length; exact Hi).
    rewrite map_nth. rewrite ?nseq_unfold. rewrite (nth_indep _ 0 (N.of_nat 0)) by (rewrite map_length, seq_length; exact Hi).
    rewrite map_nth, seq_nth by exact Hi. cbn [Nat.add].
    unfold BitSpec.access. rewrite bits_of_length by exact Hwf.
    destruct (N.ltb_spec (N.of_nat i) (bv_len bv)) as [_|Hx]; [|lia].
    rewrite Nat2N.id.
    rewrite (nth_indep _ None (Some false)) by (rewrite map_length; lia).
    rewrite map_nth. apply nth_error_nth'. lia.
Qed.
