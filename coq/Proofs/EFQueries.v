(* Proofs/EFQueries.v — property C04: the queries of an Elias-Fano value that represents the
   non-decreasing list xs with universe u (`ef_rep e xs u`) equal the sorted-multiset
   specification of Spec/SeqSpec.v, in every build configuration, for every argument. *)
From Sucds Require Import Base.Res Spec.WordSpec Spec.BitSpec Spec.SeqSpec
  Model.BitVector Model.DArray Model.EliasFano
  Proofs.ResLemmas Proofs.BVAbs Proofs.WordLemmas Proofs.BVReads Proofs.BVReads2
  Proofs.BVMutLemmas Proofs.IndexSpecs Proofs.EFRep.
From Coq Require Import ZArith ZifyN ZifyBool ZifyNat Lia.
Ltac Zify.zify_post_hook ::= Z.div_mod_to_equations.
Open Scope N_scope.

Lemma nth_opt_in xs k : k < lenN xs -> nth_opt xs k = Some (nthN xs k 0).
Proof.
  intro H. unfold nth_opt. destruct (N.ltb_spec k (lenN xs)) as [_|?]; [|lia].
  apply nth_error_nthN. exact H.
Qed.
Lemma nth_opt_out xs k : lenN xs <= k -> nth_opt xs k = None.
Proof. intro H. unfold nth_opt. destruct (N.ltb_spec k (lenN xs)) as [?|_]; [lia | reflexivity]. Qed.

Section Queries.
Variables (e : eliasfano) (xs : list N) (u : N).
Hypothesis R : ef_rep e xs u.

Lemma x_lt_W k : k < lenN xs -> nthN xs k 0 < W.
Proof. intro H. pose proof (rep_x_lt e xs u R k H). pose proof (rep_u_lt e xs u R). lia. Qed.

Lemma len_lt_W : lenN xs < W.
Proof.
  pose proof (rep_hlen _ _ _ R) as HL. revert HL. generalize (u / 2 ^ ef_low_len e). intros dv HL.
  pose proof (rep_hcap _ _ _ R) as Hc. unfold cap_ok in Hc.
  change (2 ^ 56) with 72057594037927936 in Hc. unfold W. lia.
Qed.

(* the high part (x >> l) << l is computed without overflow *)
Lemma hi_shl c k : k < lenN xs ->
  shl c (nthN xs k 0 / 2 ^ ef_low_len e) (ef_low_len e) = Ok (nthN xs k 0 / 2 ^ ef_low_len e * 2 ^ ef_low_len e).
Proof.
  intro Hk. apply shl_ok_small; [exact (rep_l_lt _ _ _ R)|].
  pose proof (x_lt_W k Hk) as Hx. pose proof (split_pow2 (nthN xs k 0) (ef_low_len e)) as Hs.
  revert Hs. generalize (nthN xs k 0 / 2 ^ ef_low_len e * 2 ^ ef_low_len e).
  generalize (nthN xs k 0 mod 2 ^ ef_low_len e). intros a b Hs. lia.
Qed.

Theorem ef_select_spec c k : ef_select c e k = Ok (SeqSpec.ef_select xs k).
Proof.
  unfold ef_select, SeqSpec.ef_select. rewrite (rep_len _ _ _ R).
  destruct (N.leb_spec (lenN xs) k) as [Hk|Hk]; [rewrite nth_opt_out by exact Hk; reflexivity|].
  rewrite (rep_select1 _ _ _ R c k Hk). cbn [bind unwrap].
  rewrite sub_ok by hlia. cbn [bind]. rewrite N.add_sub.
  rewrite (hi_shl c k Hk). cbn [bind]. rewrite (rep_low_at _ _ _ R c k Hk). cbn [bind].
  rewrite lor_add_low by apply mod_pow2_lt. rewrite <- split_pow2.
  rewrite nth_opt_in by exact Hk. reflexivity.
Qed.

Lemma h_mono_le i j : i <= j -> j < lenN xs ->
  nthN xs i 0 / 2 ^ ef_low_len e + i <= nthN xs j 0 / 2 ^ ef_low_len e + j.
Proof.
  intros Hij Hj. destruct (N.eq_dec i j) as [->|Hne]; [hlia|].
  pose proof (rep_h_mono _ _ _ R i j ltac:(hlia) Hj). hlia.
Qed.

Theorem ef_delta_spec c k : ef_delta c e k = Ok (SeqSpec.ef_delta xs k).
Proof.
  unfold ef_delta, SeqSpec.ef_delta. rewrite (rep_len _ _ _ R).
  destruct (N.leb_spec (lenN xs) k) as [Hk|Hk]; [rewrite nth_opt_out by exact Hk; reflexivity|].
  rewrite (rep_select1 _ _ _ R c k Hk). cbn [bind unwrap].
  rewrite (rep_low_at _ _ _ R c k Hk). cbn [bind].
  rewrite (nth_opt_in xs k Hk).
  destruct (N.eqb_spec k 0) as [Hk0|Hk0]; cbn [negb].
  - rewrite sub_ok by hlia. cbn [bind]. rewrite N.add_sub.
    rewrite (hi_shl c k Hk). cbn [bind].
    rewrite lor_add_low by apply mod_pow2_lt. rewrite <- split_pow2. reflexivity.
  - assert (Hk1 : k - 1 < lenN xs) by hlia.
    set (l := ef_low_len e).
    set (hk := nthN xs k 0 / 2 ^ l + k).
    set (hp := nthN xs (k - 1) 0 / 2 ^ l + (k - 1)).
    assert (Hlt : hp < hk) by (apply (rep_h_mono _ _ _ R (k - 1) k); hlia).
    assert (Hhk : hk < bv_len (da_bv (ef_high e))) by (apply (rep_h_lt _ _ _ R k Hk)).
    pose proof (rep_hcap _ _ _ R) as Hcap.
    assert (HhkW : hk < W).
    { unfold cap_ok in Hcap. change (2 ^ 56) with 72057594037927936 in Hcap. unfold W. hlia. }
    rewrite sub_ok by hlia. cbn [bind].
    rewrite predecessor1_spec; [| exact (rep_hwf _ _ _ R) | exact Hcap | hlia].
    rewrite (pred_intro true _ (hk - 1) hp).
    + cbn [bind unwrap]. rewrite sub_ok by hlia. cbn [bind]. rewrite sub_ok by hlia. cbn [bind].
      pose proof (rep_x_mono _ _ _ R (k - 1) k ltac:(hlia) Hk) as Hmono.
      pose proof (div_pow2_mono _ _ l Hmono) as Hq.
      pose proof (x_lt_W k Hk) as HxW.
      pose proof (split_pow2 (nthN xs k 0) l) as Sk.
      pose proof (split_pow2 (nthN xs (k - 1) 0) l) as Sp.
      pose proof (mod_pow2_lt (nthN xs k 0) l) as Mk.
      pose proof (mod_pow2_lt (nthN xs (k - 1) 0) l) as Mp.
      replace (hk - hp - 1) with (nthN xs k 0 / 2 ^ l - nthN xs (k - 1) 0 / 2 ^ l) by (unfold hk, hp; hlia).
      rewrite (nth_opt_in xs (k - 1) Hk1).
      pose proof (rep_low_at _ _ _ R c (k - 1) Hk1) as Elow. fold l in Elow.
      revert Hq Sk Sp Mk Mp Elow.
      generalize (nthN xs k 0 / 2 ^ l) (nthN xs (k - 1) 0 / 2 ^ l)
                 (nthN xs k 0 mod 2 ^ l) (nthN xs (k - 1) 0 mod 2 ^ l).
      intros qk qp rk rp Hq Sk Sp Mk Mp Elow.
      assert (Hd : (qk - qp) * 2 ^ l = qk * 2 ^ l - qp * 2 ^ l) by apply N.mul_sub_distr_r.
      assert (Hm : qp * 2 ^ l <= qk * 2 ^ l) by (apply N.mul_le_mono_r; exact Hq).
      rewrite shl_ok_small; [| exact (rep_l_lt _ _ _ R) | lia]. cbn [bind].
      rewrite add_ok by lia. cbn [bind]. rewrite sub_ok by lia. cbn [bind].
      rewrite Elow. cbn [bind].
      rewrite sub_ok by lia. cbn [bind]. do 2 f_equal. lia.
    + hlia.
    + rewrite (rep_Blen _ _ _ R). hlia.
    + apply (rep_hbit _ _ _ R). exists (k - 1). split; [exact Hk1 | reflexivity].
    + intros j Hj Hbit. apply (rep_hbit _ _ _ R) in Hbit. destruct Hbit as [i [Hi Ei]]. fold l in Ei.
      destruct (N.le_gt_cases i (k - 1)) as [Hle|Hgt].
      * pose proof (h_mono_le i (k - 1) Hle Hk1) as G. fold l in G. fold hp in G. hlia.
      * pose proof (h_mono_le k i ltac:(hlia) Hi) as G. fold l in G. fold hk in G. hlia.
Qed.

(* ---------- rank ---------- *)

Lemma div_lt_le a b l : a < b -> a / 2 ^ l <= b / 2 ^ l.
Proof. intro H. apply div_pow2_mono. lia. Qed.

Section Rank.
Variable p : N.
Hypothesis Hp : p < u.
Hypothesis Hs0 : da_s0 (ef_high e) <> None.
Notation l := (ef_low_len e).
Notation hr := (p / 2 ^ ef_low_len e).
Notation B := (bits_of (da_bv (ef_high e))).
Let cnt := lenN (filter (fun y => y / 2 ^ l <=? hr) xs).
Let res := lenN (filter (fun y => y <? p) xs).
Let z := hr + cnt.

Lemma cnt_le : cnt <= lenN xs. Proof. apply lenN_filter_le. Qed.
Lemma res_le : res <= lenN xs. Proof. apply lenN_filter_le. Qed.

Lemma bucket_idx j : j < lenN xs -> (nthN xs j 0 / 2 ^ l <=? hr) = (j <? cnt).
Proof.
  intro Hj. apply (nondec_filter_idx (fun y => y / 2 ^ l <=? hr)) with (lo := 0); [| exact (rep_sorted _ _ _ R) | exact Hj].
  intros a b Hab Hb. apply N.leb_le in Hb. apply N.leb_le. pose proof (div_pow2_mono a b l Hab). hlia.
Qed.
Lemma less_idx j : j < lenN xs -> (nthN xs j 0 <? p) = (j <? res).
Proof.
  intro Hj. apply (nondec_filter_idx (fun y => y <? p)) with (lo := 0); [| exact (rep_sorted _ _ _ R) | exact Hj].
  intros a b Hab Hb. apply N.ltb_lt in Hb. apply N.ltb_lt. hlia.
Qed.

Lemma bucket_lo j : j < cnt -> nthN xs j 0 / 2 ^ l <= hr.
Proof.
  intro Hj. pose proof cnt_le. pose proof (bucket_idx j ltac:(hlia)) as E.
  destruct (N.ltb_spec j cnt); [|hlia]. apply N.leb_le. exact E.
Qed.
Lemma bucket_hi j : cnt <= j -> j < lenN xs -> hr < nthN xs j 0 / 2 ^ l.
Proof.
  intros Hj Hjl. pose proof (bucket_idx j Hjl) as E.
  destruct (N.ltb_spec j cnt); [hlia|]. apply N.leb_gt. exact E.
Qed.
Lemma less_lo j : j < res -> nthN xs j 0 < p.
Proof.
  intro Hj. pose proof res_le. pose proof (less_idx j ltac:(hlia)) as E.
  destruct (N.ltb_spec j res); [|hlia]. apply N.ltb_lt. exact E.
Qed.
Lemma less_hi j : res <= j -> j < lenN xs -> p <= nthN xs j 0.
Proof.
  intros Hj Hjl. pose proof (less_idx j Hjl) as E.
  destruct (N.ltb_spec j res); [hlia|]. apply N.ltb_ge. exact E.
Qed.

Lemma res_le_cnt : res <= cnt.
Proof.
  destruct (N.le_gt_cases res cnt) as [H|H]; [exact H|]. exfalso.
  pose proof res_le. pose proof (less_lo cnt H) as H1. pose proof (bucket_hi cnt (N.le_refl _) ltac:(hlia)) as H2.
  pose proof (div_lt_le _ _ l H1). hlia.
Qed.

Lemma same_bucket j : res <= j -> j < cnt -> nthN xs j 0 / 2 ^ l = hr.
Proof.
  intros H1 H2. pose proof cnt_le. pose proof (bucket_lo j H2). pose proof (less_hi j H1 ltac:(hlia)) as H3.
  pose proof (div_pow2_mono _ _ l H3). hlia.
Qed.

Lemma h_below j : j < cnt -> nthN xs j 0 / 2 ^ l + j < z.
Proof. intro Hj. pose proof (bucket_lo j Hj). unfold z. hlia. Qed.
Lemma h_above j : cnt <= j -> j < lenN xs -> z < nthN xs j 0 / 2 ^ l + j.
Proof. intros Hj Hjl. pose proof (bucket_hi j Hj Hjl). unfold z. hlia. Qed.

Lemma z_lt_len : z < bv_len (da_bv (ef_high e)).
Proof.
  pose proof (rep_hlen _ _ _ R) as HL. pose proof cnt_le. pose proof (div_lt_le _ _ l Hp). unfold z. hlia.
Qed.

Lemma z_lt_W : z < W.
Proof.
  pose proof z_lt_len. pose proof (rep_hcap _ _ _ R) as Hc. unfold cap_ok in Hc.
  change (2 ^ 56) with 72057594037927936 in Hc. unfold W. hlia.
Qed.

Lemma z_zero : nth_error B (N.to_nat z) = Some false.
Proof.
  destruct (nth_error B (N.to_nat z)) as [b|] eqn:E.
  - destruct b; [exfalso | reflexivity]. apply (rep_hbit _ _ _ R) in E. destruct E as [j [Hj Ej]].
    destruct (N.lt_ge_cases j cnt) as [H|H].
    + pose proof (h_below j H). hlia.
    + pose proof (h_above j H Hj). hlia.
  - exfalso. apply nth_error_None in E. pose proof z_lt_len. pose proof (rep_Blen _ _ _ R) as HB.
    unfold lenN in HB. hlia.
Qed.

Lemma count_true_z : count true (firstn (N.to_nat z) B) = cnt.
Proof.
  pose proof z_lt_len as Hz. pose proof (rep_Blen _ _ _ R) as HB.
  rewrite count_firstn_positions by hlia. rewrite (rep_hpos _ _ _ R).
  set (H := hpos_from l xs 0). set (c' := lenN (filter (fun q => q <? z) H)).
  assert (Hidx : forall j, j < lenN xs -> (nthN xs j 0 / 2 ^ l + j <? z) = (j <? c')).
  { intros j Hj.
    pose proof (nondec_filter_idx (fun q => q <? z)) as G.
    specialize (G ltac:(intros a b Hab Hb; apply N.ltb_lt in Hb; apply N.ltb_lt; hlia)).
    specialize (G H _ (incr_nondec _ _ (hpos_incr l xs 0 0 (rep_sorted _ _ _ R))) j).
    unfold H in G at 1. rewrite hpos_from_len in G. specialize (G Hj).
    unfold H in G at 1. rewrite hpos_from_nth in G by exact Hj. rewrite N.add_0_r in G. exact G. }
  assert (Hc' : c' <= lenN xs).
  { unfold c'. pose proof (lenN_filter_le (fun q => q <? z) H) as G. unfold H in G at 2.
    rewrite hpos_from_len in G. exact G. }
  pose proof cnt_le as Hc.
  destruct (N.lt_trichotomy c' cnt) as [Hlt|[Heq|Hgt]]; [exfalso | exact Heq | exfalso].
  - pose proof (Hidx c' ltac:(hlia)) as G. pose proof (h_below c' Hlt) as G'.
    destruct (N.ltb_spec c' c'); [hlia|]. apply N.ltb_ge in G. hlia.
  - pose proof (Hidx cnt ltac:(hlia)) as G. pose proof (h_above cnt (N.le_refl _) ltac:(hlia)) as G'.
    destruct (N.ltb_spec cnt c'); [|hlia]. apply N.ltb_lt in G. hlia.
Qed.

Lemma select0_z c : da_select0 c (ef_high e) hr = Ok (Some z).
Proof.
  destruct (rep_da _ _ _ R c) as [_ [_ [_ [_ [_ [Hsel _]]]]]].
  assert (HhrW : hr < W).
  { pose proof z_lt_W. unfold z in *. hlia. }
  rewrite (Hsel Hs0 hr HhrW). do 2 f_equal.
  pose proof (select_intro false B z z_zero) as G.
  pose proof (count_true_false (firstn (N.to_nat z) B)) as Hsum. rewrite count_true_z in Hsum.
  rewrite lenN_firstn in Hsum. pose proof z_lt_len. pose proof (rep_Blen _ _ _ R) as HB.
  replace (count false (firstn (N.to_nat z) B)) with hr in G by (unfold z in *; hlia).
  exact G.
Qed.

Lemma access_in c i : i < bv_len (da_bv (ef_high e)) ->
  da_access c (ef_high e) i = Ok (nth_error B (N.to_nat i)).
Proof.
  intro Hi. destruct (rep_da _ _ _ R c) as [_ [_ [_ [Hacc _]]]].
  assert (HiW : i < W).
  { pose proof (rep_hcap _ _ _ R) as Hc. unfold cap_ok in Hc.
    change (2 ^ 56) with 72057594037927936 in Hc. unfold W. hlia. }
  rewrite (Hacc i HiW). unfold BitSpec.access. rewrite (rep_Blen _ _ _ R).
  destruct (N.ltb_spec i (bv_len (da_bv (ef_high e)))); [reflexivity | hlia].
Qed.

Lemma step_back c r : res < r -> r <= cnt ->
  rank_step c e (p mod 2 ^ l) (r, hr + r) = Ok (inl (r - 1, hr + (r - 1))).
Proof.
  intros H1 H2. unfold rank_step. pose proof cnt_le as Hc. pose proof z_lt_len as Hz. unfold z in Hz.
  destruct (N.ltb_spec 0 (hr + r)) as [_|?]; [|hlia].
  rewrite sub_ok by hlia. cbn [bind].
  pose proof (same_bucket (r - 1) ltac:(hlia) ltac:(hlia)) as Hq.
  rewrite access_in by hlia.
  assert (Hbit : nth_error B (N.to_nat (hr + r - 1)) = Some true).
  { apply (rep_hbit _ _ _ R). exists (r - 1). split; [hlia|]. rewrite Hq. hlia. }
  rewrite Hbit. cbn [bind unwrap]. rewrite sub_ok by hlia. cbn [bind].
  rewrite (rep_low_at _ _ _ R c (r - 1)) by hlia. cbn [bind].
  pose proof (less_hi (r - 1) ltac:(hlia) ltac:(hlia)) as Hge.
  pose proof (split_pow2 (nthN xs (r - 1) 0) l) as Sx. rewrite Hq in Sx.
  pose proof (split_pow2 p l) as Sp.
  destruct (N.leb_spec (p mod 2 ^ l) (nthN xs (r - 1) 0 mod 2 ^ l)) as [_|Hlt]; [|exfalso; hlia].
  do 3 f_equal. hlia.
Qed.

Lemma step_exit c : rank_step c e (p mod 2 ^ l) (res, hr + res) = Ok (inr res).
Proof.
  unfold rank_step. pose proof cnt_le as Hc. pose proof res_le_cnt as Hrc. pose proof z_lt_len as Hz. unfold z in Hz.
  destruct (N.ltb_spec 0 (hr + res)) as [Hpos|_]; [|reflexivity].
  rewrite sub_ok by hlia. cbn [bind]. rewrite access_in by hlia.
  destruct (nth_error B (N.to_nat (hr + res - 1))) as [b|] eqn:E.
  2:{ exfalso. apply nth_error_None in E. pose proof (rep_Blen _ _ _ R) as HB. unfold lenN in HB. hlia. }
  cbn [bind unwrap]. destruct b; [|reflexivity].
  apply (rep_hbit _ _ _ R) in E. destruct E as [j [Hj Ej]].
  assert (Hjr : j < res).
  { destruct (N.lt_ge_cases j res) as [H|H]; [exact H|]. exfalso.
    pose proof (less_hi j H Hj) as G. pose proof (div_pow2_mono _ _ l G). hlia. }
  pose proof (less_lo j Hjr) as Hlt. pose proof (div_lt_le _ _ l Hlt) as Hq.
  assert (Ej' : j = res - 1) by hlia. subst j.
  assert (Hq' : nthN xs (res - 1) 0 / 2 ^ l = hr) by hlia.
  rewrite sub_ok by hlia. cbn [bind]. rewrite (rep_low_at _ _ _ R c (res - 1) Hj). cbn [bind].
  pose proof (split_pow2 (nthN xs (res - 1) 0) l) as Sx. rewrite Hq' in Sx.
  pose proof (split_pow2 p l) as Sp.
  destruct (N.leb_spec (p mod 2 ^ l) (nthN xs (res - 1) 0 mod 2 ^ l)) as [Hle|_]; [exfalso; hlia | reflexivity].
Qed.

Lemma rank_loop c : forall n r, res <= r -> r <= cnt -> (N.to_nat (r - res) < n)%nat ->
  iter_fuel n (rank_step c e (p mod 2 ^ l)) (r, hr + r) = Ok res.
Proof.
  induction n as [|n IH]; intros r H1 H2 Hn; [hlia|]. cbn [iter_fuel].
  destruct (N.eq_dec r res) as [->|Hne].
  - rewrite step_exit. reflexivity.
  - rewrite step_back by hlia. cbn [bind]. apply IH; hlia.
Qed.

Lemma ef_rank_in c : ef_rank c e p = Ok (Some res).
Proof.
  unfold ef_rank. rewrite (rep_univ _ _ _ R).
  destruct (N.ltb_spec u p) as [?|_]; [hlia|]. destruct (N.eqb_spec u p) as [?|_]; [hlia|].
  pose proof (rep_l_lt _ _ _ R) as Hl.
  rewrite shr_ok by exact Hl. cbn [bind]. rewrite select0_z. cbn [bind unwrap].
  rewrite sub_ok by (unfold z; hlia). cbn [bind].
  replace (z - hr) with cnt by (unfold z; hlia).
  rewrite shl1_ok by exact Hl. cbn [bind]. pose proof (pow2_pos l). rewrite sub_ok by hlia. cbn [bind].
  rewrite land_low_mask. unfold z. rewrite rank_loop; [reflexivity | apply res_le_cnt | hlia | hlia].
Qed.

End Rank.

Theorem ef_rank_spec c p : da_s0 (ef_high e) <> None -> ef_rank c e p = Ok (SeqSpec.ef_rank xs u p).
Proof.
  intro Hs0. unfold SeqSpec.ef_rank. destruct (N.leb_spec p u) as [Hle|Hgt].
  - destruct (N.eq_dec p u) as [->|Hne].
    + unfold ef_rank. rewrite (rep_univ _ _ _ R). rewrite N.ltb_irrefl, N.eqb_refl.
      rewrite (rep_len _ _ _ R). rewrite filter_all_true; [reflexivity|].
      pose proof (rep_bound _ _ _ R) as HB. rewrite Forall_forall in HB.
      intros y Hy. apply N.ltb_lt. apply HB. exact Hy.
    + apply ef_rank_in; [lia | exact Hs0].
  - unfold ef_rank. rewrite (rep_univ _ _ _ R). destruct (N.ltb_spec u p); [reflexivity | lia].
Qed.

(* ---------- predecessor / successor ---------- *)

Theorem ef_predecessor_spec c p : da_s0 (ef_high e) <> None ->
  ef_predecessor c e p = Ok (SeqSpec.ef_pred xs u p).
Proof.
  intro Hs0. unfold ef_predecessor, SeqSpec.ef_pred. rewrite (rep_univ _ _ _ R).
  destruct (N.leb_spec u p) as [H|H]; destruct (N.ltb_spec p u) as [H'|H']; try lia; [reflexivity|].
  pose proof (rep_u_lt _ _ _ R) as Hu.
  rewrite add_ok by lia. cbn [bind]. rewrite (ef_rank_spec c (p + 1) Hs0). unfold SeqSpec.ef_rank.
  destruct (N.leb_spec (p + 1) u) as [_|?]; [|lia]. cbn [bind unwrap].
  rewrite (filter_ext (fun x => x <? p + 1) (fun x => x <=? p)).
  2:{ intro y. destruct (N.ltb_spec y (p + 1)); destruct (N.leb_spec y p); try lia; reflexivity. }
  set (f := fun x => x <=? p). set (r := lenN (filter f xs)).
  assert (Hmono : forall a b, a <= b -> f b = true -> f a = true).
  { unfold f. intros a b Hab Hb. apply N.leb_le in Hb. apply N.leb_le. lia. }
  destruct (nondec_filter_firstn f Hmono xs 0 (rep_sorted _ _ _ R)) as [E _]. fold r in E.
  pose proof (lenN_filter_le f xs) as Hr. fold r in Hr.
  destruct (N.ltb_spec 0 r) as [Hpos|Hz].
  - rewrite sub_ok by lia. cbn [bind]. rewrite ef_select_spec. unfold SeqSpec.ef_select.
    rewrite nth_opt_in by lia. cbn [bind unwrap]. rewrite E.
    rewrite last_opt_firstn by (unfold lenN in Hr; lia).
    replace (N.to_nat r - 1)%nat with (N.to_nat (r - 1)) by lia.
    rewrite (nth_error_nthN xs (r - 1) 0) by lia. reflexivity.
  - rewrite E. replace r with 0 by lia. reflexivity.
Qed.

Theorem ef_successor_spec c p : da_s0 (ef_high e) <> None ->
  ef_successor c e p = Ok (SeqSpec.ef_succ xs u p).
Proof.
  intro Hs0. unfold ef_successor, SeqSpec.ef_succ. rewrite (rep_univ _ _ _ R).
  destruct (N.leb_spec u p) as [H|H]; destruct (N.ltb_spec p u) as [H'|H']; try lia; [reflexivity|].
  rewrite (ef_rank_spec c p Hs0). unfold SeqSpec.ef_rank.
  destruct (N.leb_spec p u) as [_|?]; [|lia]. cbn [bind unwrap].
  rewrite (filter_ext (fun x => p <=? x) (fun x => negb (x <? p))).
  2:{ intro y. destruct (N.ltb_spec y p); destruct (N.leb_spec p y); try lia; reflexivity. }
  set (f := fun x => x <? p). set (r := lenN (filter f xs)).
  assert (Hmono : forall a b, a <= b -> f b = true -> f a = true).
  { unfold f. intros a b Hab Hb. apply N.ltb_lt in Hb. apply N.ltb_lt. lia. }
  destruct (nondec_filter_firstn f Hmono xs 0 (rep_sorted _ _ _ R)) as [_ E]. fold r in E.
  rewrite (rep_len _ _ _ R). change (filter (fun x => negb (x <? p)) xs) with (filter (fun x => negb (f x)) xs).
  rewrite E, hd_error_skipn.
  destruct (N.ltb_spec r (lenN xs)) as [Hlt|Hge].
  - rewrite ef_select_spec. unfold SeqSpec.ef_select. rewrite nth_opt_in by exact Hlt. cbn [bind unwrap].
    rewrite (nth_error_nthN xs r 0) by exact Hlt. reflexivity.
  - rewrite nth_error_oobN by exact Hge. reflexivity.
Qed.

End Queries.

Print Assumptions ef_select_spec.
Print Assumptions ef_delta_spec.
Print Assumptions ef_rank_spec.
Print Assumptions ef_predecessor_spec.
Print Assumptions ef_successor_spec.

