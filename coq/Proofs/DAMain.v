(* Proofs/DAMain.v — property C02: the DArray select index and the DArray wrapper
   (src/bit_vectors/darray/inner.rs, darray.rs) answer like the plain bit sequence for every
   argument of usize, for every well-formed bit vector within capacity, in every build
   configuration; the built value does not depend on the configuration. *)
From Sucds Require Import Base.Res Spec.WordSpec Spec.BitSpec Model.BitVector Model.Rank9 Model.DArray
  Proofs.ResLemmas Proofs.BVAbs Proofs.WordLemmas Proofs.BVReads Proofs.BVReads2 Proofs.BVMut
  Proofs.BVHistory Proofs.IndexSpecs Proofs.DABuild Proofs.DASelect.
From Coq Require Import ZArith ZifyN ZifyBool ZifyNat Lia.
Ltac Zify.zify_post_hook ::= Z.div_mod_to_equations.
Open Scope N_scope.

(* ---------- the index ---------- *)

Theorem da_index_correct : forall bv v, wf bv -> cap_ok bv ->
  exists d, (forall c, da_build c bv v = Ok d) /\ d_over_one d = v /\
            d_num_positions d = BitSpec.count v (bits_of bv) /\
            (forall c k, k < W -> da_select c d bv k = Ok (BitSpec.select v (bits_of bv) k)).
Proof.
  intros bv v Hwf Hcap. destruct (da_build_ok bv v Hwf Hcap) as (Hb & Hok & Hv).
  exists (da_pure v (positions v (bits_of bv))).
  split; [exact Hb|]. split; [exact Hv|]. split.
  - destruct Hok as [Hn _]. rewrite Hn. apply positions_from_len.
  - intros c k Hk. apply (da_select_ok c _ bv v k); assumption.
Qed.

(* ---------- the wrapper ---------- *)

(* what da_correct needs of the four components *)
Definition parts_ok (bv : bitvec) (s1 : daindex) (s0 : option daindex) (r9 : option r9index) : Prop :=
  wf bv /\ cap_ok bv /\
  d_num_positions s1 = BitSpec.count true (bits_of bv) /\
  (forall c k, k < W -> da_select c s1 bv k = Ok (BitSpec.select true (bits_of bv) k)) /\
  (forall x, s0 = Some x -> forall c k, k < W -> da_select c x bv k = Ok (BitSpec.select false (bits_of bv) k)) /\
  (forall r, r9 = Some r -> forall c i, i < W ->
     Rank9.rank1 c r bv i = Ok (BitSpec.rank true (bits_of bv) i) /\
     Rank9.rank0 c r bv i = Ok (BitSpec.rank false (bits_of bv) i)).

Lemma parts_ok_correct bv s1 s0 r9 : parts_ok bv s1 s0 r9 ->
  forall c, da_correct c {| da_bv := bv; da_s1 := s1; da_s0 := s0; da_r9 := r9 |}.
Proof.
  intros (Hwf & Hcap & Hn & H1 & H0 & Hr) c. unfold da_correct.
  cbn [da_bv]. cbv zeta.
  split; [exact Hwf|]. split; [exact Hn|]. split.
  { unfold da_num_zeros, da_num_bits, da_num_ones. cbn [da_bv da_s1]. rewrite Hn.
    pose proof (count_true_false (bits_of bv)) as Hc. rewrite (bits_of_length bv Hwf) in Hc.
    rewrite sub_ok by lia. f_equal. lia. }
  split.
  { intros i Hi. unfold da_access, BitVector.access. cbn [da_bv]. apply get_bit_spec; assumption. }
  split.
  { intros k Hk. unfold da_select1. cbn [da_bv da_s1]. apply H1, Hk. }
  split.
  { intros Hs k Hk. unfold da_select0. cbn [da_bv da_s0] in *.
    destruct s0 as [x|]; [|congruence]. cbn [unwrap bind]. apply (H0 x eq_refl), Hk. }
  { intros Hs i Hi. unfold da_rank1, da_rank0. cbn [da_bv da_r9] in *.
    destruct r9 as [r|]; [|congruence]. cbn [unwrap bind]. apply (Hr r eq_refl), Hi. }
Qed.

Lemma correct_parts_ok d : (forall c, da_correct c d) -> cap_ok (da_bv d) ->
  parts_ok (da_bv d) (da_s1 d) (da_s0 d) (da_r9 d).
Proof.
  intros H Hcap. pose (c0 := {| dbg := true; intr := false |}).
  destruct (H c0) as (Hwf & Hn & _).
  split; [exact Hwf|]. split; [exact Hcap|]. split; [exact Hn|]. split; [|split].
  - intros c k Hk. destruct (H c) as (_ & _ & _ & _ & H1 & _). apply H1, Hk.
  - intros x Ex c k Hk. destruct (H c) as (_ & _ & _ & _ & _ & H0 & _).
    assert (Hne : da_s0 d <> None) by (rewrite Ex; discriminate).
    specialize (H0 Hne k Hk). unfold da_select0 in H0. rewrite Ex in H0. exact H0.
  - intros r Er c i Hi. destruct (H c) as (_ & _ & _ & _ & _ & _ & Hr).
    assert (Hne : da_r9 d <> None) by (rewrite Er; discriminate).
    specialize (Hr Hne i Hi). unfold da_rank1, da_rank0 in Hr. rewrite Er in Hr. exact Hr.
Qed.

Lemma darray_eta d : d = {| da_bv := da_bv d; da_s1 := da_s1 d; da_s0 := da_s0 d; da_r9 := da_r9 d |}.
Proof. destruct d; reflexivity. Qed.

Theorem da_new_correct bv : wf bv -> cap_ok bv ->
  exists d, (forall c, da_new c bv = Ok d) /\ da_bv d = bv /\ da_s0 d = None /\ da_r9 d = None /\
            (forall c, da_correct c d).
Proof.
  intros Hwf Hcap. destruct (da_index_correct bv true Hwf Hcap) as (s1 & Hb & _ & Hn & Hs).
  exists {| da_bv := bv; da_s1 := s1; da_s0 := None; da_r9 := None |}.
  split; [intro c; unfold da_new; rewrite Hb; reflexivity|].
  do 3 (split; [reflexivity|]).
  apply parts_ok_correct. refine (conj Hwf (conj Hcap (conj Hn (conj Hs (conj _ _))))); intros; discriminate.
Qed.

Theorem da_from_bits_correct bits : lenN bits < 2 ^ 56 ->
  exists d, (forall c, da_from_bits c bits = Ok d) /\ bits_of (da_bv d) = bits /\
            da_s0 d = None /\ da_r9 d = None /\ (forall c, da_correct c d).
Proof.
  intro Hlen. pose (c0 := {| dbg := true; intr := false |}).
  destruct (from_bits_spec c0 bits Hlen) as (bv & E0 & Hwf & Hb).
  assert (Hcap : cap_ok bv).
  { unfold cap_ok. rewrite <- (bits_of_length bv Hwf), Hb. exact Hlen. }
  destruct (da_new_correct bv Hwf Hcap) as (d & Hd & Hbv & Hs0 & Hr9 & Hc).
  exists d. split.
  - intro c. unfold da_from_bits.
    destruct (from_bits_spec c bits Hlen) as (bv' & E & Hwf' & Hb').
    assert (bv' = bv) by (apply canonical; [exact Hwf' | exact Hwf | rewrite Hb, Hb'; reflexivity]).
    subst bv'. rewrite E. cbn [bind]. apply Hd.
  - rewrite Hbv. auto.
Qed.

Theorem da_enable_select0_correct d : (forall c, da_correct c d) -> cap_ok (da_bv d) ->
  exists d', (forall c, da_enable_select0 c d = Ok d') /\
             da_bv d' = da_bv d /\ da_s1 d' = da_s1 d /\ da_r9 d' = da_r9 d /\ da_s0 d' <> None /\
             (forall c, da_correct c d').
Proof.
  intros H Hcap. destruct (correct_parts_ok d H Hcap) as (Hwf & _ & Hn & H1 & _ & Hr).
  destruct (da_index_correct (da_bv d) false Hwf Hcap) as (s0 & Hb & _ & _ & Hs).
  exists {| da_bv := da_bv d; da_s1 := da_s1 d; da_s0 := Some s0; da_r9 := da_r9 d |}.
  split; [intro c; unfold da_enable_select0; rewrite Hb; reflexivity|].
  do 3 (split; [reflexivity|]). split; [discriminate|].
  apply parts_ok_correct. refine (conj Hwf (conj Hcap (conj Hn (conj H1 (conj _ Hr))))).
  intros x Ex. injection Ex as <-. exact Hs.
Qed.

Section WithRank.
  (* proved in the Rank9 development (property C03); taken as a premise here *)
  Hypothesis r9rank_ok : forall bv, wf bv -> cap_ok bv -> exists r,
    (forall c, Rank9.build_rank c bv = Ok r) /\
    (forall c i, i < W -> Rank9.rank1 c r bv i = Ok (BitSpec.rank true (bits_of bv) i) /\
                          Rank9.rank0 c r bv i = Ok (BitSpec.rank false (bits_of bv) i)).

  Theorem da_enable_rank_correct d : (forall c, da_correct c d) -> cap_ok (da_bv d) ->
    exists d', (forall c, da_enable_rank c d = Ok d') /\
               da_bv d' = da_bv d /\ da_s1 d' = da_s1 d /\ da_s0 d' = da_s0 d /\ da_r9 d' <> None /\
               (forall c, da_correct c d').
  Proof.
    intros H Hcap. destruct (correct_parts_ok d H Hcap) as (Hwf & _ & Hn & H1 & H0 & _).
    destruct (r9rank_ok (da_bv d) Hwf Hcap) as (r & Hb & Hr).
    exists {| da_bv := da_bv d; da_s1 := da_s1 d; da_s0 := da_s0 d; da_r9 := Some r |}.
    split; [intro c; unfold da_enable_rank; rewrite Hb; reflexivity|].
    do 3 (split; [reflexivity|]). split; [discriminate|].
    apply parts_ok_correct. refine (conj Hwf (conj Hcap (conj Hn (conj H1 (conj H0 _))))).
    intros x Ex. injection Ex as <-. exact Hr.
  Qed.

  Theorem da_build_cfg_correct bv wr ws0 : wf bv -> cap_ok bv ->
    exists d, (forall c, da_build_cfg c bv wr ws0 = Ok d) /\ da_bv d = bv /\
              (da_s0 d <> None <-> ws0 = true) /\ (da_r9 d <> None <-> wr = true) /\
              (forall c, da_correct c d).
  Proof.
    intros Hwf Hcap.
    destruct (da_new_correct bv Hwf Hcap) as (d1 & E1 & Hbv1 & Hs01 & Hr91 & Hc1).
    assert (Hcap1 : cap_ok (da_bv d1)) by (rewrite Hbv1; exact Hcap).
    (* optional rank *)
    assert (S2 : exists d2, (forall c, (if wr then da_enable_rank c d1 else Ok d1) = Ok d2) /\
                   da_bv d2 = bv /\ da_s0 d2 = None /\ (da_r9 d2 <> None <-> wr = true) /\
                   (forall c, da_correct c d2)).
    { destruct wr.
      - destruct (da_enable_rank_correct d1 Hc1 Hcap1) as (d2 & E2 & Hbv2 & _ & Hs02 & Hr92 & Hc2).
        exists d2. split; [exact E2|]. split; [congruence|]. split; [congruence|].
        split; [tauto | exact Hc2].
      - exists d1. split; [reflexivity|]. split; [exact Hbv1|]. split; [exact Hs01|].
        split; [|exact Hc1]. rewrite Hr91. split; [congruence | discriminate]. }
    destruct S2 as (d2 & E2 & Hbv2 & Hs02 & Hr92 & Hc2).
    assert (Hcap2 : cap_ok (da_bv d2)) by (rewrite Hbv2; exact Hcap).
    destruct ws0.
    - destruct (da_enable_select0_correct d2 Hc2 Hcap2) as (d3 & E3 & Hbv3 & _ & Hr93 & Hs03 & Hc3).
      exists d3. split.
      + intro c. unfold da_build_cfg. rewrite E1. cbn [bind]. rewrite E2. cbn [bind]. apply E3.
      + split; [congruence|]. split; [tauto|]. split; [rewrite Hr93; exact Hr92 | exact Hc3].
    - exists d2. split.
      + intro c. unfold da_build_cfg. rewrite E1. cbn [bind]. rewrite E2. reflexivity.
      + split; [exact Hbv2|]. split; [|split; [exact Hr92 | exact Hc2]].
        rewrite Hs02. split; [congruence | discriminate].
  Qed.
End WithRank.

Print Assumptions da_index_correct.
Print Assumptions da_new_correct.
Print Assumptions da_from_bits_correct.
Print Assumptions da_enable_select0_correct.
Print Assumptions da_enable_rank_correct.
Print Assumptions da_build_cfg_correct.
