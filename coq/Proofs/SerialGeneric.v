(* Proofs/SerialGeneric.v — generic theorems about the type-directed codec of Spec/FormatSpec.v
   (properties C08 / C13): round trip, byte accounting, strict prefixes fail, concatenation. *)
From Sucds Require Import Base.Res Spec.FormatSpec.
From Coq Require Import ZArith ZifyN ZifyBool ZifyNat Lia.
Ltac Zify.zify_post_hook ::= Z.div_mod_to_equations.
Open Scope N_scope.

(* ------------------------------------------------------------------------------------------ *)
(* induction principle for the nested `list ty`                                                  *)
(* ------------------------------------------------------------------------------------------ *)
Fixpoint ty_ind' (P : ty -> Prop)
  (HU8 : P TU8) (HU16 : P TU16) (HU64 : P TU64) (HI64 : P TI64) (HBool : P TBool)
  (HVec : forall t, P t -> P (TVec t)) (HOpt : forall t, P t -> P (TOpt t))
  (HStruct : forall fs, Forall P fs -> P (TStruct fs)) (t : ty) {struct t} : P t :=
  match t with
  | TU8 => HU8 | TU16 => HU16 | TU64 => HU64 | TI64 => HI64 | TBool => HBool
  | TVec t' => HVec t' (ty_ind' P HU8 HU16 HU64 HI64 HBool HVec HOpt HStruct t')
  | TOpt t' => HOpt t' (ty_ind' P HU8 HU16 HU64 HI64 HBool HVec HOpt HStruct t')
  | TStruct fs =>
      HStruct fs ((fix go (fs : list ty) : Forall P fs :=
                     match fs with
                     | [] => Forall_nil P
                     | f :: fs' =>
                         Forall_cons f (ty_ind' P HU8 HU16 HU64 HI64 HBool HVec HOpt HStruct f) (go fs')
                     end) fs)
  end.

(* ------------------------------------------------------------------------------------------ *)
(* the inner fixpoints of FormatSpec, named                                                      *)
(* ------------------------------------------------------------------------------------------ *)
Fixpoint ser_fields (fs : list ty) (l : list val) : list N :=
  match fs, l with
  | f :: fs', x :: l' => ser f x ++ ser_fields fs' l'
  | _, _ => []
  end.
Fixpoint size_fields (fs : list ty) (l : list val) : N :=
  match fs, l with
  | f :: fs', x :: l' => size f x + size_fields fs' l'
  | _, _ => 0
  end.
Fixpoint wf_fields (fs : list ty) (l : list val) : bool :=
  match fs, l with
  | [], [] => true
  | f :: fs', x :: l' => wf_val f x && wf_fields fs' l'
  | _, _ => false
  end.
Fixpoint deser_fields (fs : list ty) (bs : list N) (acc : list val) : option (val * list N) :=
  match fs with
  | [] => Some (VStruct (rev_append acc []), bs)
  | f :: fs' => match deser f bs with
                | None => None
                | Some (v, bs') => deser_fields fs' bs' (v :: acc)
                end
  end.
Definition deser_loop (t' : ty) :=
  fix loop (fuel : nat) (cnt : N) (bs : list N) (acc : list val) : option (val * list N) :=
    if cnt =? 0 then Some (VVec (rev_append acc []), bs) else
    match fuel with
    | O => None
    | S f => match deser t' bs with
             | None => None
             | Some (v, bs') => loop f (cnt - 1) bs' (v :: acc)
             end
    end.
Lemma deser_loop_eq t' fuel cnt bs acc :
  deser_loop t' fuel cnt bs acc =
  if cnt =? 0 then Some (VVec (rev_append acc []), bs) else
  match fuel with
  | O => None
  | S f => match deser t' bs with
           | None => None
           | Some (v, bs') => deser_loop t' f (cnt - 1) bs' (v :: acc)
           end
  end.
Proof. destruct fuel; reflexivity. Qed.

Lemma ser_struct fs l : ser (TStruct fs) (VStruct l) = ser_fields fs l.
Proof. reflexivity. Qed.
Lemma size_struct fs l : size (TStruct fs) (VStruct l) = size_fields fs l.
Proof. reflexivity. Qed.
Lemma wf_struct fs l : wf_val (TStruct fs) (VStruct l) = wf_fields fs l.
Proof. reflexivity. Qed.
Lemma deser_struct fs bs : deser (TStruct fs) bs = deser_fields fs bs [].
Proof. reflexivity. Qed.
Lemma deser_vec t' bs :
  deser (TVec t') bs =
  match read_le 8 bs with
  | None => None
  | Some (n, r) => deser_loop t' (S (length r)) n r []
  end.
Proof. reflexivity. Qed.
Lemma deser_opt t' bs :
  deser (TOpt t') bs =
  match read_le 1 bs with
  | None => None
  | Some (n, r) =>
      if n =? 0 then Some (VOpt None, r)
      else match deser t' r with Some (v, r') => Some (VOpt (Some v), r') | None => None end
  end.
Proof. reflexivity. Qed.
Lemma ser_vec t' l : ser (TVec t') (VVec l) = le_bytes 8 (lenN l) ++ flat_map (ser t') l.
Proof. reflexivity. Qed.
Lemma wf_vec t' l : wf_val (TVec t') (VVec l) = (lenN l <? W) && forallb (wf_val t') l.
Proof. reflexivity. Qed.
Lemma size_vec t' l :
  size (TVec t') (VVec l) =
  match fixed_size t' with
  | Some m => 8 + m * lenN l
  | None => 8 + fold_left (fun acc x => acc + size t' x) l 0
  end.
Proof. reflexivity. Qed.
Lemma vec_ok_vec t' : vec_ok (TVec t') = (1 <=? min_size t') && vec_ok t'.
Proof. reflexivity. Qed.
Lemma vec_ok_struct fs : vec_ok (TStruct fs) = forallb vec_ok fs.
Proof. reflexivity. Qed.

(* ------------------------------------------------------------------------------------------ *)
(* lists                                                                                         *)
(* ------------------------------------------------------------------------------------------ *)
Lemma lenN_app {A} (a b : list A) : lenN (a ++ b) = lenN a + lenN b.
Proof. unfold lenN. rewrite app_length. lia. Qed.
Lemma lenN_cons {A} (x : A) l : lenN (x :: l) = 1 + lenN l.
Proof. unfold lenN. cbn [length]. lia. Qed.
Lemma lenN_nil {A} : lenN (@nil A) = 0.
Proof. reflexivity. Qed.

Lemma firstn_app_exact {A} (h r : list A) : firstn (length h) (h ++ r) = h.
Proof. induction h as [|x h IH]; cbn [length firstn app]; [reflexivity | now rewrite IH]. Qed.
Lemma skipn_app_exact {A} (h r : list A) : skipn (length h) (h ++ r) = r.
Proof. induction h as [|x h IH]; cbn [length skipn app]; [reflexivity | exact IH]. Qed.

(* a cut through h ++ r either falls inside h or consumes h entirely *)
Lemma firstn_app_lt {A} n (h r : list A) : (n < length h)%nat -> firstn n (h ++ r) = firstn n h.
Proof.
  intro H. rewrite firstn_app. replace (n - length h)%nat with O by lia.
  cbn [firstn]. apply app_nil_r.
Qed.
Lemma firstn_app_ge {A} n (h r : list A) :
  (length h <= n)%nat -> firstn n (h ++ r) = h ++ firstn (n - length h) r.
Proof. intro H. rewrite firstn_app. now rewrite firstn_all2 by exact H. Qed.

(* ------------------------------------------------------------------------------------------ *)
(* little-endian primitives                                                                      *)
(* ------------------------------------------------------------------------------------------ *)
Lemma le_bytes_length k n : length (le_bytes k n) = k.
Proof. revert n. induction k as [|k IH]; intro n; cbn [le_bytes length]; [reflexivity | now rewrite IH]. Qed.

Lemma land_255 n : N.land n 255 = n mod 256.
Proof. change 255 with (N.ones 8). rewrite N.land_ones. reflexivity. Qed.

Lemma le_val_le_bytes k n : le_val (le_bytes k n) = n mod 2 ^ (8 * N.of_nat k).
Proof.
  revert n. induction k as [|k IH]; intro n; cbn [le_bytes le_val].
  - change (2 ^ (8 * N.of_nat 0)) with 1. now rewrite N.mod_1_r.
  - rewrite IH, land_255, N.shiftr_div_pow2. change (2 ^ 8) with 256.
    replace (8 * N.of_nat (S k)) with (8 + 8 * N.of_nat k) by lia.
    rewrite N.pow_add_r. change (2 ^ 8) with 256.
    rewrite N.mod_mul_r; [reflexivity | discriminate | apply N.pow_nonzero; discriminate].
Qed.

Lemma le_val_le_bytes_small k n : n < 2 ^ (8 * N.of_nat k) -> le_val (le_bytes k n) = n.
Proof. intro H. rewrite le_val_le_bytes. apply N.mod_small, H. Qed.

Lemma le_bytes_bytes k n : Forall (fun b => b < 256) (le_bytes k n).
Proof.
  revert n. induction k as [|k IH]; intro n; cbn [le_bytes]; constructor.
  - rewrite land_255. apply N.mod_lt. discriminate.
  - apply IH.
Qed.

Lemma read_le_app k h rest : length h = k -> read_le k (h ++ rest) = Some (le_val h, rest).
Proof.
  intro H. subst k. unfold read_le. cbv zeta.
  rewrite firstn_app_exact, skipn_app_exact, Nat.eqb_refl. reflexivity.
Qed.
Lemma read_le_short k bs : (length bs < k)%nat -> read_le k bs = None.
Proof.
  intro H. unfold read_le. cbv zeta. rewrite firstn_length.
  destruct (Nat.eqb_spec (Nat.min k (length bs)) k) as [E|E]; [lia | reflexivity].
Qed.
Lemma read_le_le_bytes k n rest :
  n < 2 ^ (8 * N.of_nat k) -> read_le k (le_bytes k n ++ rest) = Some (n, rest).
Proof.
  intro H. rewrite read_le_app by apply le_bytes_length.
  now rewrite le_val_le_bytes_small.
Qed.
Lemma read_le_prefix k n m : (m < k)%nat -> read_le k (firstn m (le_bytes k n)) = None.
Proof.
  intro H. apply read_le_short. rewrite firstn_length, le_bytes_length. lia.
Qed.

Lemma i64_round z :
  (-9223372036854775808 <= z < 9223372036854775808)%Z -> n_to_i64 (i64_to_n z) = z.
Proof.
  intro H. unfold n_to_i64, i64_to_n.
  destruct (N.ltb_spec (Z.to_N (z mod 18446744073709551616)) 9223372036854775808) as [L|L]; lia.
Qed.
Lemma i64_to_n_lt z : i64_to_n z < 2 ^ (8 * N.of_nat 8).
Proof.
  change (2 ^ (8 * N.of_nat 8)) with 18446744073709551616. unfold i64_to_n. lia.
Qed.

(* ------------------------------------------------------------------------------------------ *)
(* primitives: one lemma per theorem, shared by all five primitive types                         *)
(* ------------------------------------------------------------------------------------------ *)
Definition is_prim (t : ty) : bool :=
  match t with TU8 | TU16 | TU64 | TI64 | TBool => true | _ => false end.

Lemma W_pow : W = 2 ^ (8 * N.of_nat 8).
Proof. reflexivity. Qed.

Lemma prim_ser_deser t v rest :
  is_prim t = true -> wf_val t v = true -> deser t (ser t v ++ rest) = Some (v, rest).
Proof.
  intros Hp Hw. destruct t; try discriminate Hp; destruct v; try discriminate Hw;
    cbn [wf_val] in Hw; cbn [ser deser].
  - rewrite read_le_le_bytes; [reflexivity | change (2 ^ (8 * N.of_nat 1)) with 256; lia].
  - rewrite read_le_le_bytes; [reflexivity | change (2 ^ (8 * N.of_nat 2)) with 65536; lia].
  - rewrite read_le_le_bytes; [reflexivity | rewrite <- W_pow; lia].
  - rewrite read_le_le_bytes by apply i64_to_n_lt. rewrite i64_round by lia. reflexivity.
  - rewrite (read_le_app 1 [b2n b] rest eq_refl). destruct b; reflexivity.
Qed.

Lemma prim_length t v :
  is_prim t = true -> wf_val t v = true -> lenN (ser t v) = size t v.
Proof.
  intros Hp Hw. destruct t; try discriminate Hp; destruct v; try discriminate Hw; reflexivity.
Qed.

Lemma prim_prefix t v n :
  is_prim t = true -> wf_val t v = true -> (n < length (ser t v))%nat ->
  deser t (firstn n (ser t v)) = None.
Proof.
  intros Hp Hw Hn. destruct t; try discriminate Hp; destruct v; try discriminate Hw;
    cbn [ser] in *; try rewrite le_bytes_length in Hn; cbn [deser].
  1-4: now rewrite read_le_prefix by exact Hn.
  cbn [length] in Hn. replace n with O by lia. reflexivity.
Qed.

Lemma fixed_size_prim t m : fixed_size t = Some m -> is_prim t = true.
Proof. destruct t; cbn; intro H; try reflexivity; discriminate H. Qed.

Lemma fixed_size_ser t m v :
  fixed_size t = Some m -> wf_val t v = true -> lenN (ser t v) = m.
Proof.
  intros Hf Hw. destruct t; try discriminate Hf; destruct v; try discriminate Hw;
    cbn [fixed_size] in Hf; injection Hf as <-; reflexivity.
Qed.

(* ------------------------------------------------------------------------------------------ *)
(* all bytes are below 256 (no hypothesis)                                                        *)
(* ------------------------------------------------------------------------------------------ *)
Lemma Forall_flat_map {A B} (P : B -> Prop) (f : A -> list B) l :
  (forall x, Forall P (f x)) -> Forall P (flat_map f l).
Proof.
  intro H. induction l as [|x l IH]; cbn [flat_map]; [constructor|].
  apply Forall_app. split; [apply H | exact IH].
Qed.

Theorem ser_bytes : forall t v, Forall (fun b => b < 256) (ser t v).
Proof.
  induction t as [ | | | | | t' IH | t' IH | fs IH] using ty_ind'; intro v;
    destruct v as [n|z|b|l|o|l];
    try (cbn [ser]; apply le_bytes_bytes); try (cbn [ser]; apply Forall_nil).
  - cbn [ser]. constructor; [destruct b; reflexivity | constructor].
  - rewrite ser_vec. apply Forall_app. split; [apply le_bytes_bytes|].
    apply Forall_flat_map. exact IH.
  - destruct o as [x|]; cbn [ser]; repeat constructor. apply IH.
  - rewrite ser_struct.
    revert l. induction IH as [|f fs Hf _ IHfs]; intro l; destruct l as [|x l];
      cbn [ser_fields]; try apply Forall_nil.
    apply Forall_app. split; [apply Hf | apply IHfs].
Qed.

(* ------------------------------------------------------------------------------------------ *)
(* length = size_in_bytes                                                                         *)
(* ------------------------------------------------------------------------------------------ *)
Lemma fold_left_size_acc (g : val -> N) l a :
  fold_left (fun acc x => acc + g x) l a = a + fold_left (fun acc x => acc + g x) l 0.
Proof.
  revert a. induction l as [|x l IH]; intro a; cbn [fold_left]; [lia|].
  rewrite IH, (IH (0 + g x)). lia.
Qed.

Lemma flat_map_len_fixed t' m l :
  (forall x, wf_val t' x = true -> lenN (ser t' x) = m) ->
  forallb (wf_val t') l = true -> lenN (flat_map (ser t') l) = m * lenN l.
Proof.
  intros H. induction l as [|x l IH]; cbn [flat_map forallb]; intro Hw.
  - rewrite (@lenN_nil N), (@lenN_nil val). lia.
  - apply andb_true_iff in Hw. destruct Hw as [Hx Hl].
    rewrite lenN_app, lenN_cons, H, IH by assumption. lia.
Qed.

Lemma flat_map_len_fold t' l :
  (forall x, wf_val t' x = true -> lenN (ser t' x) = size t' x) ->
  forallb (wf_val t') l = true ->
  lenN (flat_map (ser t') l) = fold_left (fun acc x => acc + size t' x) l 0.
Proof.
  intros H. induction l as [|x l IH]; cbn [flat_map forallb fold_left]; intro Hw.
  - reflexivity.
  - apply andb_true_iff in Hw. destruct Hw as [Hx Hl].
    rewrite lenN_app, H, IH by assumption. rewrite (fold_left_size_acc _ l (0 + _)). lia.
Qed.

Lemma le_bytes_lenN k n : lenN (le_bytes k n) = N.of_nat k.
Proof. unfold lenN. now rewrite le_bytes_length. Qed.

Theorem ser_length : forall t v, wf_val t v = true -> lenN (ser t v) = size t v.
Proof.
  induction t as [ | | | | | t' IH | t' IH | fs IH] using ty_ind'; intros v Hw;
    try (apply prim_length; [reflexivity | exact Hw]).
  - destruct v as [n|z|b|l|o|l]; try discriminate Hw.
    rewrite wf_vec in Hw. apply andb_true_iff in Hw. destruct Hw as [_ Hl].
    rewrite ser_vec, size_vec, lenN_app, le_bytes_lenN. change (N.of_nat 8) with 8.
    destruct (fixed_size t') as [m|] eqn:Ef.
    + rewrite (flat_map_len_fixed t' m); [reflexivity | | exact Hl].
      intros x Hx. now apply fixed_size_ser.
    + rewrite flat_map_len_fold; [reflexivity | exact IH | exact Hl].
  - destruct v as [n|z|b|l|o|l]; try discriminate Hw. destruct o as [x|].
    + cbn [ser size wf_val] in *. rewrite lenN_cons, IH by exact Hw. lia.
    + reflexivity.
  - destruct v as [n|z|b|l'|o|l]; try discriminate Hw.
    rewrite wf_struct in Hw. rewrite ser_struct, size_struct.
    revert l Hw. induction IH as [|f fs Hf _ IHfs]; intros l Hw; destruct l as [|x l];
      cbn [ser_fields size_fields wf_fields] in *; try reflexivity; try discriminate Hw.
    apply andb_true_iff in Hw. destruct Hw as [Hx Hl].
    rewrite lenN_app, Hf, IHfs by assumption. reflexivity.
Qed.

(* every well-formed value occupies at least min_size bytes *)
Lemma min_size_le : forall t v, wf_val t v = true -> min_size t <= lenN (ser t v).
Proof.
  induction t as [ | | | | | t' IH | t' IH | fs IH] using ty_ind'; intros v Hw;
    destruct v as [n|z|b|l|o|l]; try discriminate Hw;
    try (cbn [ser min_size]; rewrite le_bytes_lenN; lia).
  - cbn [ser min_size]. rewrite lenN_cons. lia.
  - rewrite ser_vec, lenN_app, le_bytes_lenN. cbn [min_size]. lia.
  - destruct o as [x|]; cbn [ser min_size]; rewrite lenN_cons; lia.
  - rewrite wf_struct in Hw. rewrite ser_struct. cbn [min_size].
    revert l Hw. induction IH as [|f fs Hf _ IHfs]; intros l Hw; destruct l as [|x l];
      cbn [ser_fields wf_fields fold_right] in *; try discriminate Hw.
    + rewrite (@lenN_nil N). lia.
    + apply andb_true_iff in Hw. destruct Hw as [Hx Hl].
      rewrite lenN_app. specialize (Hf x Hx). specialize (IHfs l Hl). lia.
Qed.

(* ------------------------------------------------------------------------------------------ *)
(* round trip                                                                                     *)
(* ------------------------------------------------------------------------------------------ *)
Lemma rev_append_nil {A} (l : list A) : rev_append l [] = rev l.
Proof. rewrite rev_append_rev. apply app_nil_r. Qed.

(* the Vec element loop reads back a run of elements, given enough fuel *)
Lemma deser_loop_ok t' :
  (forall v rest, wf_val t' v = true -> deser t' (ser t' v ++ rest) = Some (v, rest)) ->
  forall l fuel acc rest,
    forallb (wf_val t') l = true -> lenN l < W -> (length l <= fuel)%nat ->
    deser_loop t' fuel (lenN l) (flat_map (ser t') l ++ rest) acc
    = Some (VVec (rev acc ++ l), rest).
Proof.
  intros H. induction l as [|x l IH]; intros fuel acc rest Hw HW Hf; rewrite deser_loop_eq.
  - cbn [flat_map app]. change (lenN (@nil val) =? 0) with true. cbv iota.
    rewrite rev_append_nil, app_nil_r. reflexivity.
  - cbn [forallb] in Hw. apply andb_true_iff in Hw. destruct Hw as [Hx Hl].
    rewrite lenN_cons in *. destruct (N.eqb_spec (1 + lenN l) 0) as [E|_]; [lia|].
    destruct fuel as [|fuel]; [cbn [length] in Hf; lia|].
    cbn [flat_map]. rewrite <- app_assoc, H by exact Hx.
    replace (1 + lenN l - 1) with (lenN l) by lia.
    rewrite IH; [ | exact Hl | lia | cbn [length] in Hf; lia].
    cbn [rev]. rewrite <- app_assoc. reflexivity.
Qed.

Lemma flat_map_length_ge t' l :
  1 <= min_size t' -> forallb (wf_val t') l = true ->
  (length l <= length (flat_map (ser t') l))%nat.
Proof.
  intro Hm. induction l as [|x l IH]; cbn [flat_map forallb length]; intro Hw; [lia|].
  apply andb_true_iff in Hw. destruct Hw as [Hx Hl].
  rewrite app_length. pose proof (min_size_le t' x Hx) as Hx'. unfold lenN in Hx'.
  specialize (IH Hl). lia.
Qed.

Lemma deser_fields_ok fs :
  Forall (fun t => forall v rest, vec_ok t = true -> wf_val t v = true ->
                                  deser t (ser t v ++ rest) = Some (v, rest)) fs ->
  forall l acc rest,
    forallb vec_ok fs = true -> wf_fields fs l = true ->
    deser_fields fs (ser_fields fs l ++ rest) acc = Some (VStruct (rev acc ++ l), rest).
Proof.
  induction 1 as [|f fs Hf _ IHfs]; intros l acc rest Hv Hw; destruct l as [|x l];
    cbn [wf_fields] in Hw; try discriminate Hw; cbn [deser_fields ser_fields].
  - rewrite rev_append_nil, app_nil_r. reflexivity.
  - cbn [forallb] in Hv. apply andb_true_iff in Hv. destruct Hv as [Hvf Hvfs].
    apply andb_true_iff in Hw. destruct Hw as [Hx Hl].
    rewrite <- app_assoc, Hf by assumption. rewrite IHfs by assumption.
    cbn [rev]. rewrite <- app_assoc. reflexivity.
Qed.

Theorem ser_deser : forall t v rest,
  vec_ok t = true -> wf_val t v = true -> deser t (ser t v ++ rest) = Some (v, rest).
Proof.
  induction t as [ | | | | | t' IH | t' IH | fs IH] using ty_ind'; intros v rest Hv Hw;
    try (apply prim_ser_deser; [reflexivity | exact Hw]).
  - destruct v as [n|z|b|l|o|l]; try discriminate Hw.
    rewrite wf_vec in Hw. apply andb_true_iff in Hw. destruct Hw as [HW Hl].
    rewrite vec_ok_vec in Hv. apply andb_true_iff in Hv. destruct Hv as [Hm Hv].
    rewrite ser_vec, deser_vec, <- app_assoc.
    rewrite read_le_le_bytes by (rewrite <- W_pow; lia).
    rewrite deser_loop_ok; [reflexivity | | exact Hl | lia | ].
    + intros x r Hx. now apply IH.
    + rewrite app_length. pose proof (flat_map_length_ge t' l ltac:(lia) Hl). lia.
  - destruct v as [n|z|b|l|o|l]; try discriminate Hw. rewrite deser_opt.
    destruct o as [x|]; cbn [ser wf_val vec_ok] in *.
    + change ((1 :: ser t' x) ++ rest) with ([1] ++ ser t' x ++ rest).
      rewrite (read_le_app 1 [1] (ser t' x ++ rest) eq_refl).
      change (le_val [1] =? 0) with false. cbv iota. now rewrite IH.
    + rewrite (read_le_app 1 [0] rest eq_refl). reflexivity.
  - destruct v as [n|z|b|l'|o|l]; try discriminate Hw.
    rewrite wf_struct in Hw. rewrite vec_ok_struct in Hv.
    rewrite ser_struct, deser_struct. now rewrite (deser_fields_ok fs IH l [] rest).
Qed.

Corollary ser_deser_nil t v :
  vec_ok t = true -> wf_val t v = true -> deser t (ser t v) = Some (v, []).
Proof. intros Hv Hw. rewrite <- (app_nil_r (ser t v)). now apply ser_deser. Qed.

(* values written back to back are read back in order *)
Corollary ser_concat t1 v1 t2 v2 rest :
  vec_ok t1 = true -> wf_val t1 v1 = true -> vec_ok t2 = true -> wf_val t2 v2 = true ->
  deser t1 (ser t1 v1 ++ ser t2 v2 ++ rest) = Some (v1, ser t2 v2 ++ rest) /\
  deser t2 (ser t2 v2 ++ rest) = Some (v2, rest).
Proof. intros. split; now apply ser_deser. Qed.

(* ------------------------------------------------------------------------------------------ *)
(* a strict prefix fails                                                                          *)
(* ------------------------------------------------------------------------------------------ *)
Lemma deser_loop_prefix t' :
  (forall v rest, wf_val t' v = true -> deser t' (ser t' v ++ rest) = Some (v, rest)) ->
  (forall v n, wf_val t' v = true -> (n < length (ser t' v))%nat ->
               deser t' (firstn n (ser t' v)) = None) ->
  forall l fuel acc n,
    forallb (wf_val t') l = true -> lenN l < W ->
    (n < length (flat_map (ser t') l))%nat ->
    deser_loop t' fuel (lenN l) (firstn n (flat_map (ser t') l)) acc = None.
Proof.
  intros Hok Hpre. induction l as [|x l IH]; intros fuel acc n Hw HW Hn; cbn [flat_map] in *.
  - cbn [length] in Hn. lia.
  - cbn [forallb] in Hw. apply andb_true_iff in Hw. destruct Hw as [Hx Hl].
    rewrite deser_loop_eq. rewrite lenN_cons in *.
    destruct (N.eqb_spec (1 + lenN l) 0) as [E|_]; [lia|].
    destruct fuel as [|fuel]; [reflexivity|].
    rewrite app_length in Hn.
    destruct (Nat.ltb_spec n (length (ser t' x))) as [Lt|Ge].
    + rewrite firstn_app_lt by exact Lt. now rewrite Hpre.
    + rewrite firstn_app_ge by exact Ge. rewrite Hok by exact Hx.
      replace (1 + lenN l - 1) with (lenN l) by lia.
      apply IH; [exact Hl | lia | lia].
Qed.

Lemma deser_fields_prefix fs :
  Forall (fun t => forall v n, vec_ok t = true -> wf_val t v = true ->
                               (n < length (ser t v))%nat ->
                               deser t (firstn n (ser t v)) = None) fs ->
  forall l acc n,
    forallb vec_ok fs = true -> wf_fields fs l = true ->
    (n < length (ser_fields fs l))%nat ->
    deser_fields fs (firstn n (ser_fields fs l)) acc = None.
Proof.
  induction 1 as [|f fs Hf _ IHfs]; intros l acc n Hv Hw Hn; destruct l as [|x l];
    cbn [wf_fields] in Hw; try discriminate Hw; cbn [ser_fields] in *.
  - cbn [length] in Hn. lia.
  - cbn [forallb] in Hv. apply andb_true_iff in Hv. destruct Hv as [Hvf Hvfs].
    apply andb_true_iff in Hw. destruct Hw as [Hx Hl].
    cbn [deser_fields]. rewrite app_length in Hn.
    destruct (Nat.ltb_spec n (length (ser f x))) as [Lt|Ge].
    + rewrite firstn_app_lt by exact Lt. now rewrite Hf.
    + rewrite firstn_app_ge by exact Ge. rewrite ser_deser by assumption.
      apply IHfs; [exact Hvfs | exact Hl | lia].
Qed.

Theorem deser_prefix : forall t v n,
  vec_ok t = true -> wf_val t v = true -> (n < length (ser t v))%nat ->
  deser t (firstn n (ser t v)) = None.
Proof.
  induction t as [ | | | | | t' IH | t' IH | fs IH] using ty_ind'; intros v n Hv Hw Hn;
    try (apply prim_prefix; [reflexivity | exact Hw | exact Hn]).
  - destruct v as [k|z|b|l|o|l]; try discriminate Hw.
    rewrite wf_vec in Hw. apply andb_true_iff in Hw. destruct Hw as [HW Hl].
    rewrite vec_ok_vec in Hv. apply andb_true_iff in Hv. destruct Hv as [Hm Hv].
    rewrite ser_vec in *. rewrite deser_vec. rewrite app_length, le_bytes_length in Hn.
    destruct (Nat.ltb_spec n 8) as [Lt|Ge].
    + rewrite read_le_short; [reflexivity|].
      rewrite firstn_length, app_length, le_bytes_length. lia.
    + rewrite firstn_app_ge by (rewrite le_bytes_length; exact Ge). rewrite le_bytes_length.
      rewrite read_le_le_bytes by (rewrite <- W_pow; lia).
      apply deser_loop_prefix; [ | | exact Hl | lia | lia].
      * intros x r Hx. now apply ser_deser.
      * intros x m Hx Hm'. now apply IH.
  - destruct v as [k|z|b|l|o|l]; try discriminate Hw. rewrite deser_opt.
    destruct o as [x|]; cbn [ser wf_val vec_ok length] in *.
    + destruct n as [|n]; [reflexivity|]. cbn [firstn].
      change (1 :: firstn n (ser t' x)) with ([1] ++ firstn n (ser t' x)).
      rewrite (read_le_app 1 [1] (firstn n (ser t' x)) eq_refl).
      change (le_val [1] =? 0) with false. cbv iota. rewrite IH; [reflexivity | exact Hv | exact Hw | lia].
    + replace n with O by lia. reflexivity.
  - destruct v as [k|z|b|l'|o|l]; try discriminate Hw.
    rewrite wf_struct in Hw. rewrite vec_ok_struct in Hv. rewrite ser_struct in *.
    rewrite deser_struct. now apply deser_fields_prefix.
Qed.

(* the same statement on an arbitrary strict prefix `p` of the serialized bytes *)
Corollary deser_strict_prefix t v p q :
  vec_ok t = true -> wf_val t v = true -> ser t v = p ++ q -> q <> [] -> deser t p = None.
Proof.
  intros Hv Hw E Hq. assert (Hp : p = firstn (length p) (ser t v)).
  { rewrite E. now rewrite firstn_app_exact. }
  rewrite Hp. apply deser_prefix; [exact Hv | exact Hw|].
  rewrite E, app_length. destruct q; [congruence | cbn [length]; lia].
Qed.

(* ------------------------------------------------------------------------------------------ *)
(* accumulator-free view of the struct reader (used by SerialIO / SerialImpls)                    *)
(* ------------------------------------------------------------------------------------------ *)
Fixpoint deser_list (fs : list ty) (bs : list N) : option (list val * list N) :=
  match fs with
  | [] => Some ([], bs)
  | f :: fs' => match deser f bs with
                | None => None
                | Some (v, bs') => match deser_list fs' bs' with
                                   | None => None
                                   | Some (vs, r) => Some (v :: vs, r)
                                   end
                end
  end.

Lemma deser_fields_list fs : forall bs acc,
  deser_fields fs bs acc =
  match deser_list fs bs with
  | None => None
  | Some (vs, r) => Some (VStruct (rev acc ++ vs), r)
  end.
Proof.
  induction fs as [|f fs IH]; intros bs acc; cbn [deser_fields deser_list].
  - now rewrite rev_append_nil, app_nil_r.
  - destruct (deser f bs) as [[v bs']|]; [|reflexivity]. rewrite IH.
    destruct (deser_list fs bs') as [[vs r]|]; [|reflexivity].
    cbn [rev]. now rewrite <- app_assoc.
Qed.

Lemma deser_struct_list fs bs :
  deser (TStruct fs) bs =
  match deser_list fs bs with None => None | Some (vs, r) => Some (VStruct vs, r) end.
Proof. rewrite deser_struct, deser_fields_list. reflexivity. Qed.

Lemma deser_list_length fs : forall bs vs r,
  deser_list fs bs = Some (vs, r) -> length vs = length fs.
Proof.
  induction fs as [|f fs IH]; intros bs vs r H; cbn [deser_list] in H.
  - now injection H as <- _.
  - destruct (deser f bs) as [[v bs']|]; [|discriminate H].
    destruct (deser_list fs bs') as [[vs' r']|] eqn:E; [|discriminate H].
    injection H as <- _. cbn [length]. f_equal. eapply IH, E.
Qed.

(* sanity checks of the statements on a small nested value *)
Example ser_ex_ty : ty := TStruct [TVec (TOpt TU16); TOpt (TVec TBool); TI64].
Example ser_ex_val : val :=
  VStruct [VVec [VOpt (Some (VNum 513)); VOpt None; VOpt (Some (VNum 7))];
           VOpt (Some (VVec [VBool true; VBool false])); VInt (-2)].
Example ex_roundtrip : deser ser_ex_ty (ser ser_ex_ty ser_ex_val ++ [9; 9]) = Some (ser_ex_val, [9; 9]).
Proof. vm_compute. reflexivity. Qed.
Example ex_prefixes :
  forallb (fun n => match deser ser_ex_ty (firstn n (ser ser_ex_ty ser_ex_val)) with None => true | _ => false end)
          (seq 0 (length (ser ser_ex_ty ser_ex_val))) = true.
Proof. vm_compute. reflexivity. Qed.
Example ex_size : lenN (ser ser_ex_ty ser_ex_val) = size ser_ex_ty ser_ex_val.
Proof. vm_compute. reflexivity. Qed.

(* vec_ok is needed for the round trip as stated: with a zero-sized element type the fuel
   `S (length r)` of the Vec loop in Spec/FormatSpec.v does not cover the element count (no such
   type occurs in the crate: every generated ty_X satisfies vec_ok, see SerialImpls.v) *)
Example vec_ok_needed :
  wf_val (TVec (TStruct [])) (VVec [VStruct []; VStruct []]) = true /\
  deser (TVec (TStruct [])) (ser (TVec (TStruct [])) (VVec [VStruct []; VStruct []])) = None.
Proof. vm_compute. split; reflexivity. Qed.

Print Assumptions ser_deser.
Print Assumptions ser_length.
Print Assumptions deser_prefix.
Print Assumptions ser_concat.
Print Assumptions ser_bytes.
