(* Proofs/SizeEF.v — property C19 for Elias-Fano (and the SArray / PrefixSummedEliasFano wrappers).
   A builder of capacity m over the universe u has low width l = floor(lg(u/m)) (0 when u < m) and
   a high bit vector of m + 2 + (u >> l) <= 3m + 1 bits.  The built value stores the n pushed
   values in n*l low bits and the high bits in a DArray (select1 index; + select0 index after
   enable_rank), so with the DArray bound of Proofs/SizeDA.v
        B = 8 * size_in_bytes() <= n*l + 7m + 8192      (11m with the rank index).
   For a completely filled builder (m = n; this is what EliasFano::from_bits, SArray and
   PrefixSummedEliasFano always build) this is the documented n*floor(lg(u/n)) + 7n + 8192.
   The formula in n alone is FALSE for a partially filled builder (n < m): see the witness
   `ef_partial_witness` at the end of the file. *)
From Sucds Require Import Base.Res Spec.WordSpec Spec.BitSpec Spec.SeqSpec Spec.FormatSpec gen.SerialGen
  Model.BitVector Model.Rank9 Model.DArray Model.EliasFano Model.SArray Model.Psef Model.Serial
  Proofs.ResLemmas Proofs.BVAbs Proofs.BVReads Proofs.BVReads2 Proofs.BVMut Proofs.BVHistory
  Proofs.DABuild Proofs.EFRep Proofs.EFBuilder
  Proofs.SizeForms Proofs.SizeBV Proofs.SizeR9 Proofs.SizeDA.
From Coq Require Import ZArith ZifyN ZifyBool ZifyNat Lia.
Ltac Zify.zify_post_hook ::= Z.div_mod_to_equations.
Open Scope N_scope.

(* ---------- the value built from a builder ---------- *)

Definition ef_spec (b : efbuilder) (rank : bool) : eliasfano :=
  {| ef_high := da_spec (b_high b) false rank; ef_low := b_low b;
     ef_low_len := b_low_len b; ef_universe := b_universe b |}.

Lemma da_from_bits_eq c bv : wf bv -> cap_ok bv -> da_from_bits c (bits_of bv) = Ok (da_spec bv false false).
Proof.
  intros Hwf Hcap. unfold da_from_bits.
  destruct (from_bits_spec c (bits_of bv)) as [bv' [E [Hwf' Hb]]].
  { rewrite (bits_of_length bv Hwf). exact Hcap. }
  assert (bv' = bv) by (apply canonical; assumption). subst bv'.
  rewrite E. cbn [bind]. unfold da_new.
  destruct (da_build_ok bv true Hwf Hcap) as [E1 _]. rewrite E1. reflexivity.
Qed.

Lemma efb_build_eq c b : wf (b_high b) -> cap_ok (b_high b) -> efb_build c b = Ok (ef_spec b false).
Proof.
  intros Hwf Hcap. unfold efb_build. rewrite (bv_bits_ok c _ Hwf Hcap). cbn [bind].
  rewrite (da_from_bits_eq c _ Hwf Hcap). reflexivity.
Qed.

Lemma ef_enable_rank_eq c b : wf (b_high b) -> cap_ok (b_high b) ->
  ef_enable_rank c (ef_spec b false) = Ok (ef_spec b true).
Proof.
  intros Hwf Hcap. unfold ef_enable_rank, ef_spec, da_enable_select0. cbn [ef_high ef_low ef_low_len ef_universe].
  unfold da_spec at 1. cbn [da_bv].
  destruct (da_build_ok (b_high b) false Hwf Hcap) as [E0 _]. rewrite E0. reflexivity.
Qed.

(* ---------- the length of the high bit vector ---------- *)

Lemma high_quot_lt u m : 1 <= m -> u / 2 ^ low_len_of u m < 2 * m.
Proof.
  intro Hm. destruct (N.lt_ge_cases u m) as [Hlt|Hge].
  - rewrite (low_len_small u m Hlt). change (2 ^ 0) with 1. rewrite N.div_1_r. lia.
  - destruct (low_len_bounds u m Hm Hge) as [_ Hub]. set (l := low_len_of u m) in *.
    apply N.div_lt_upper_bound; [apply N.pow_nonzero; lia|].
    rewrite N.add_1_r, N.pow_succ_r' in Hub.
    assert (Hu : u < m * (2 * 2 ^ l)).
    { pose proof (N.div_mod u m ltac:(lia)) as Hdm. pose proof (N.mod_lt u m ltac:(lia)) as Hr.
      assert (m * (u / m + 1) <= m * (2 * 2 ^ l)) by (apply N.mul_le_mono_l; lia). lia. }
    lia.
Qed.

(* ---------- the bound for a builder of capacity m holding n = lenN acc values ---------- *)

Section Bound.
Variables (u m : N) (b : efbuilder) (acc : list N).
Hypothesis Hm : 1 <= m.
Hypothesis Hcap1 : m + 2 + u / 2 ^ low_len_of u m < 2 ^ 56.
Hypothesis I : efb_inv b acc u m.

Lemma efb_high_wf : wf (b_high b). Proof. exact (bi_hwf _ _ _ _ I). Qed.
Lemma efb_high_cap : cap_ok (b_high b).
Proof. unfold cap_ok. rewrite (bi_hlen _ _ _ _ I). exact Hcap1. Qed.

Lemma efb_high_len_le : bv_len (b_high b) <= 3 * m + 1.
Proof. rewrite (bi_hlen _ _ _ _ I). pose proof (high_quot_lt u m Hm). lia. Qed.

Lemma efb_low_len_eq : bv_len (b_low b) = lenN acc * low_len_of u m.
Proof.
  rewrite <- (bits_of_length _ (bi_lwf _ _ _ _ I)), (bi_lows _ _ _ _ I). apply lows_len.
Qed.

Lemma ef_bits_sharp rank :
  100 * (8 * sz_ef (ef_spec b rank))
  <= 100 * (lenN acc * low_len_of u m) + (606 + 306 * b2n rank) * m + 183000.
Proof.
  unfold sz_ef, ef_spec. cbn [ef_high ef_low].
  pose proof (da_bits_sharp (b_high b) false rank efb_high_wf efb_high_cap) as HD.
  pose proof efb_high_len_le as HH.
  pose proof (bitvec_bits_exact (b_low b) (bi_lwf _ _ _ _ I)) as HL. rewrite efb_low_len_eq in HL.
  pose proof (round64_lt (lenN acc * low_len_of u m)) as HR.
  set (nl := lenN acc * low_len_of u m) in *. set (H := bv_len (b_high b)) in *.
  set (D := sz_darray (da_spec (b_high b) false rank)) in *.
  destruct rank; cbn [b2n] in *; lia.
Qed.

Theorem size_eliasfano_capacity rank :
  8 * size ty_EliasFano (v_ef (ef_spec b rank))
  <= lenN acc * low_len_of u m + (if rank then 11 else 7) * m + 8192.
Proof.
  rewrite size_ef. pose proof (ef_bits_sharp rank) as H.
  set (nl := lenN acc * low_len_of u m) in *. destruct rank; cbn [b2n] in *; lia.
Qed.

(* the built values, in every configuration *)
Lemma efb_build_spec c : efb_build c b = Ok (ef_spec b false).
Proof. apply efb_build_eq; [exact efb_high_wf | exact efb_high_cap]. Qed.
Lemma ef_enable_rank_spec c : ef_enable_rank c (ef_spec b false) = Ok (ef_spec b true).
Proof. apply ef_enable_rank_eq; [exact efb_high_wf | exact efb_high_cap]. Qed.

Lemma ef_spec_low_len rank : ef_low_len (ef_spec b rank) = low_len_of u m.
Proof. exact (bi_ll _ _ _ _ I). Qed.
End Bound.

(* ---------- completely filled builder: the documented formula in n ---------- *)

Theorem size_eliasfano_full u n b xs rank : 1 <= n -> n + 2 + u / 2 ^ low_len_of u n < 2 ^ 56 ->
  efb_inv b xs u n -> lenN xs = n ->
  let e := ef_spec b rank in
  (forall c, (e0 <- efb_build c b ;; if rank then ef_enable_rank c e0 else Ok e0) = Ok e) /\
  ef_low_len e = low_len_of u n /\
  8 * size ty_EliasFano (v_ef e)
  <= n * ef_low_len e + (match da_s0 (ef_high e) with Some _ => 11 | None => 7 end) * n + 8192.
Proof.
  intros Hn Hcap I Hlen e. split; [|split].
  - intro c. rewrite (efb_build_spec u n b xs Hcap I c). cbn [bind]. destruct rank; [|reflexivity].
    apply (ef_enable_rank_spec u n b xs Hcap I).
  - apply (ef_spec_low_len u n b xs I).
  - pose proof (size_eliasfano_capacity u n b xs Hn Hcap I rank) as H. subst e.
    rewrite (ef_spec_low_len u n b xs I). rewrite Hlen in H.
    unfold ef_spec at 2. unfold da_spec. cbn [ef_high da_s0]. destruct rank; exact H.
Qed.

(* the wrappers add 17 bytes + the Option tag (SArray), nothing (PrefixSummedEliasFano) *)
Lemma size_sarray_some s e : sa_ef s = Some e ->
  8 * size ty_SArray (v_sarray s) = 8 * size ty_EliasFano (v_ef e) + 144.
Proof. intro H. rewrite size_sarray, size_ef. unfold sz_sarray. rewrite H. cbn [sz_opt]. lia. Qed.
Lemma size_sarray_none s : sa_ef s = None -> 8 * size ty_SArray (v_sarray s) = 144.
Proof. intro H. rewrite size_sarray. unfold sz_sarray. rewrite H. reflexivity. Qed.
Lemma size_psef_ef p : size ty_PrefixSummedEliasFano (v_psef p) = size ty_EliasFano (v_ef (ps_ef p)).
Proof. rewrite size_psef, size_ef. reflexivity. Qed.

(* SArray over u bits with n ones whose Elias-Fano part is the value of a completely filled
   builder: B <= n floor(lg(u/n)) + 7n + 8192 (11n with rank); all-zero vectors: 144 bits *)
Theorem size_sarray_full u n b xs s : 1 <= n -> n + 2 + u / 2 ^ low_len_of u n < 2 ^ 56 ->
  efb_inv b xs u n -> lenN xs = n ->
  sa_ef s = Some (ef_spec b (sa_has_rank s)) ->
  8 * size ty_SArray (v_sarray s)
  <= n * low_len_of u n + (if sa_has_rank s then 11 else 7) * n + 8192.
Proof.
  intros Hn Hcap I Hlen Hs. rewrite (size_sarray_some s _ Hs), size_ef.
  pose proof (ef_bits_sharp u n b xs Hn Hcap I (sa_has_rank s)) as H. rewrite Hlen in H.
  set (nl := n * low_len_of u n) in *. destruct (sa_has_rank s); cbn [b2n] in *; lia.
Qed.

Theorem size_psef_full u n b xs p : 1 <= n -> n + 2 + u / 2 ^ low_len_of u n < 2 ^ 56 ->
  efb_inv b xs u n -> lenN xs = n -> ps_ef p = ef_spec b false ->
  8 * size ty_PrefixSummedEliasFano (v_psef p) <= n * low_len_of u n + 7 * n + 8192.
Proof.
  intros Hn Hcap I Hlen Hp. rewrite size_psef_ef, Hp.
  pose proof (size_eliasfano_capacity u n b xs Hn Hcap I false) as H. rewrite Hlen in H. exact H.
Qed.

(* ---------- the formula in n alone fails for a partially filled builder ---------- *)

(* builder of capacity m = 4000 over u = 16000, nothing pushed (n = 0), then build:
   8 * size_in_bytes() = 8728 > 0 * low_len + 7 * 0 + 8192.  (With the capacity m in place of n
   the bound is 7 * 4000 + 8192, as proved above.) *)
Definition ef_partial_witness : option (N * N * N) :=
  let c0 := {| dbg := true; intr := false |} in
  match efb_new c0 16000 4000 with
  | Ok (Some b) =>
      match efb_build c0 b with
      | Ok e => Some (8 * size ty_EliasFano (v_ef e), ef_len e,
                      ef_len e * ef_low_len e + 7 * ef_len e + 8192)
      | Panic => None
      end
  | _ => None
  end.
Lemma ef_partial_witness_eq : ef_partial_witness = Some (8728, 0, 8192).
Proof. vm_compute. reflexivity. Qed.

Print Assumptions size_eliasfano_capacity.
Print Assumptions size_eliasfano_full.
Print Assumptions size_sarray_full.
Print Assumptions size_psef_full.
