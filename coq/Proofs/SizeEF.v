(* Proofs/SizeEF.v — property C19 for Elias-Fano (and the SArray / PrefixSummedEliasFano wrappers).
   A builder of capacity m over the universe u has low width l = floor(lg(u/m)) (0 when u < m) and
   a high bit vector of m + 2 + (u >> l) <= 3m + 1 bits.  The built value stores the n pushed
   values in n*l low bits and the high bits in a DArray (select1 index; + select0 index after
   enable_rank), so with the DArray bound of Proofs/SizeDA.v
        B = 8 * size_in_bytes() <= n*l + 7m + 8192      (11m with the rank index).
   For a completely filled builder (m = n; this is what EliasFano::from_bits, SArray and
   PrefixSummedEliasFano always build) this is the documented n*floor(lg(u/n)) + 7n + 8192.
   The formula in n alone is FALSE for a partially filled builder (n < m): see the witness
   `ef_partial_witness` at the end of the file.
   Also here, because they need the construction lemmas of other developments (Proofs/SALemmas.v,
   PSMain.v, DacsByteMain.v, DacsOptMain.v): the bounds for the values returned by
   EliasFano::from_bits, SArray::from_bits (+ enable_rank), PrefixSummedEliasFano::from_slice,
   DacsByte / DacsOpt::from_slice and WaveletMatrix<Rank9Sel>::new. *)
From Sucds Require Import Base.Res Spec.WordSpec Spec.BitSpec Spec.SeqSpec Spec.DacSpec Spec.FormatSpec gen.SerialGen
  Model.BitVector Model.Rank9 Model.DArray Model.EliasFano Model.SArray Model.Psef
  Model.CompactVector Model.Dacs Model.Wavelet Model.Serial
  Proofs.ResLemmas Proofs.BVAbs Proofs.BVReads Proofs.BVReads2 Proofs.BVMut Proofs.BVHistory
  Proofs.WordLemmas Proofs.R9Rank Proofs.R9Hints Proofs.DABuild Proofs.EFRep Proofs.EFBuilder Proofs.SALemmas Proofs.PSMain
  Proofs.R9Main Proofs.CVRep Proofs.DacsLevels Proofs.DacsByteMain Proofs.DacsOptMain
  Proofs.SizeForms Proofs.SizeBV Proofs.SizeR9 Proofs.SizeDA.
From Sucds Require Proofs.DP_Walk.
From Coq Require Import ZArith ZifyN ZifyBool ZifyNat Lia.
Ltac Zify.zify_post_hook ::= Z.div_mod_to_equations.
Open Scope N_scope.

(* ---------- the value built from a builder ---------- *)

Definition ef_spec (b : efbuilder) (rank : bool) : eliasfano :=
  {| ef_high := da_spec (b_high b) false rank; ef_low := b_low b;
     ef_low_len := b_low_len b; ef_universe := b_universe b |}.

Lemma da_from_bits_eq c bv : wf bv -> cap_ok bv -> da_from_bits c (bits_of bv) = Ok (da_spec bv false false).
Proof.
  intros Hwf Hcap. unfold da_from_bits.
  destruct (from_bits_spec c (bits_of bv)) as [bv' [E [Hwf' Hb]]].
  { rewrite (bits_of_length bv Hwf). exact Hcap. }
  assert (bv' = bv) by (apply canonical; assumption). subst bv'.
  rewrite E. cbn [bind]. unfold da_new.
  destruct (da_build_ok bv true Hwf Hcap) as [E1 _]. rewrite E1. reflexivity.
Qed.

Lemma efb_build_eq c b : wf (b_high b) -> cap_ok (b_high b) -> efb_build c b = Ok (ef_spec b false).
Proof.
  intros Hwf Hcap. unfold efb_build. rewrite (bv_bits_ok c _ Hwf Hcap). cbn [bind].
  rewrite (da_from_bits_eq c _ Hwf Hcap). reflexivity.
Qed.

Lemma ef_enable_rank_eq c b : wf (b_high b) -> cap_ok (b_high b) ->
  ef_enable_rank c (ef_spec b false) = Ok (ef_spec b true).
Proof.
  intros Hwf Hcap. unfold ef_enable_rank, ef_spec, da_enable_select0. cbn [ef_high ef_low ef_low_len ef_universe].
  unfold da_spec at 1. cbn [da_bv].
  destruct (da_build_ok (b_high b) false Hwf Hcap) as [E0 _]. rewrite E0. reflexivity.
Qed.

(* ---------- the length of the high bit vector ---------- *)

Lemma high_quot_lt u m : 1 <= m -> u / 2 ^ low_len_of u m < 2 * m.
Proof.
  intro Hm. destruct (N.lt_ge_cases u m) as [Hlt|Hge].
  - rewrite (low_len_small u m Hlt). change (2 ^ 0) with 1. rewrite N.div_1_r. lia.
  - destruct (low_len_bounds u m Hm Hge) as [_ Hub]. set (l := low_len_of u m) in *.
    apply N.div_lt_upper_bound; [apply N.pow_nonzero; lia|].
    rewrite N.add_1_r, N.pow_succ_r' in Hub.
    assert (Hu : u < m * (2 * 2 ^ l)).
    { pose proof (N.div_mod u m ltac:(lia)) as Hdm. pose proof (N.mod_lt u m ltac:(lia)) as Hr.
      assert (m * (u / m + 1) <= m * (2 * 2 ^ l)) by (apply N.mul_le_mono_l; lia). lia. }
    lia.
Qed.

(* ---------- the bound for a builder of capacity m holding n = lenN acc values ---------- *)

Section Bound.
Variables (u m : N) (b : efbuilder) (acc : list N).
Hypothesis Hm : 1 <= m.
Hypothesis Hcap1 : m + 2 + u / 2 ^ low_len_of u m < 2 ^ 56.
Hypothesis I : efb_inv b acc u m.

Lemma efb_high_wf : wf (b_high b). Proof. exact (bi_hwf _ _ _ _ I). Qed.
Lemma efb_high_cap : cap_ok (b_high b).
Proof. unfold cap_ok. rewrite (bi_hlen _ _ _ _ I). exact Hcap1. Qed.

Lemma efb_high_len_le : bv_len (b_high b) <= 3 * m + 1.
Proof. rewrite (bi_hlen _ _ _ _ I). pose proof (high_quot_lt u m Hm). lia. Qed.

Lemma efb_low_len_eq : bv_len (b_low b) = lenN acc * low_len_of u m.
Proof.
  rewrite <- (bits_of_length _ (bi_lwf _ _ _ _ I)), (bi_lows _ _ _ _ I). apply lows_len.
Qed.

Lemma ef_bits_sharp rank :
  100 * (8 * sz_ef (ef_spec b rank))
  <= 100 * (lenN acc * low_len_of u m) + (606 + 306 * b2n rank) * m + 183000.
Proof.
  unfold sz_ef, ef_spec. cbn [ef_high ef_low].
  pose proof (da_bits_sharp (b_high b) false rank efb_high_wf efb_high_cap) as HD.
  pose proof efb_high_len_le as HH.
  pose proof (bitvec_bits_exact (b_low b) (bi_lwf _ _ _ _ I)) as HL. rewrite efb_low_len_eq in HL.
  pose proof (round64_lt (lenN acc * low_len_of u m)) as HR.
  set (nl := lenN acc * low_len_of u m) in *. set (H := bv_len (b_high b)) in *.
  set (D := sz_darray (da_spec (b_high b) false rank)) in *.
  destruct rank; cbn [b2n] in *; lia.
Qed.

Theorem size_eliasfano_capacity rank :
  8 * size ty_EliasFano (v_ef (ef_spec b rank))
  <= lenN acc * low_len_of u m + (if rank then 11 else 7) * m + 8192.
Proof.
  rewrite size_ef. pose proof (ef_bits_sharp rank) as H.
  set (nl := lenN acc * low_len_of u m) in *. destruct rank; cbn [b2n] in *; lia.
Qed.

(* the built values, in every configuration *)
Lemma efb_build_spec c : efb_build c b = Ok (ef_spec b false).
Proof. apply efb_build_eq; [exact efb_high_wf | exact efb_high_cap]. Qed.
Lemma ef_enable_rank_spec c : ef_enable_rank c (ef_spec b false) = Ok (ef_spec b true).
Proof. apply ef_enable_rank_eq; [exact efb_high_wf | exact efb_high_cap]. Qed.

Lemma ef_spec_low_len rank : ef_low_len (ef_spec b rank) = low_len_of u m.
Proof. exact (bi_ll _ _ _ _ I). Qed.
End Bound.

(* ---------- completely filled builder: the documented formula in n ---------- *)

Theorem size_eliasfano_full u n b xs rank : 1 <= n -> n + 2 + u / 2 ^ low_len_of u n < 2 ^ 56 ->
  efb_inv b xs u n -> lenN xs = n ->
  let e := ef_spec b rank in
  (forall c, (e0 <- efb_build c b ;; if rank then ef_enable_rank c e0 else Ok e0) = Ok e) /\
  ef_low_len e = low_len_of u n /\
  8 * size ty_EliasFano (v_ef e)
  <= n * ef_low_len e + (match da_s0 (ef_high e) with Some _ => 11 | None => 7 end) * n + 8192.
Proof.
  intros Hn Hcap I Hlen e. split; [|split].
  - intro c. rewrite (efb_build_spec u n b xs Hcap I c). cbn [bind]. destruct rank; [|reflexivity].
    apply (ef_enable_rank_spec u n b xs Hcap I).
  - apply (ef_spec_low_len u n b xs I).
  - pose proof (size_eliasfano_capacity u n b xs Hn Hcap I rank) as H. subst e.
    rewrite (ef_spec_low_len u n b xs I). rewrite Hlen in H.
    unfold ef_spec at 2. unfold da_spec. cbn [ef_high da_s0]. destruct rank; exact H.
Qed.

(* the same for any fill level, with the capacity recovered from the length of the high vector
   (the form evaluated by the driver: Extract/Dispatch.v `bound_ok`, case DEF) *)
Theorem size_eliasfano_driver u m b acc rank : 1 <= m -> m + 2 + u / 2 ^ low_len_of u m < 2 ^ 56 ->
  efb_inv b acc u m ->
  let e := ef_spec b rank in
  let cap := da_num_bits (ef_high e) - 2 - N.shiftr u (ef_low_len e) in
  cap = m /\
  8 * size ty_EliasFano (v_ef e)
  <= lenN acc * ef_low_len e + (match da_s0 (ef_high e) with Some _ => 11 | None => 7 end) * cap + 8192.
Proof.
  intros Hm Hcap I e cap.
  assert (Ec : cap = m).
  { unfold cap, e, ef_spec, da_spec, da_num_bits. cbn [ef_high ef_low_len da_bv].
    rewrite (bi_hlen _ _ _ _ I), (bi_ll _ _ _ _ I), N.shiftr_div_pow2.
    generalize (u / 2 ^ low_len_of u m). intro q. lia. }
  split; [exact Ec|]. rewrite Ec. subst e.
  pose proof (size_eliasfano_capacity u m b acc Hm Hcap I rank) as H.
  rewrite (ef_spec_low_len u m b acc I). unfold ef_spec at 2. unfold da_spec. cbn [ef_high da_s0].
  destruct rank; exact H.
Qed.

(* the wrappers add 17 bytes + the Option tag (SArray), nothing (PrefixSummedEliasFano) *)
Lemma size_sarray_some s e : sa_ef s = Some e ->
  8 * size ty_SArray (v_sarray s) = 8 * size ty_EliasFano (v_ef e) + 144.
Proof. intro H. rewrite size_sarray, size_ef. unfold sz_sarray. rewrite H. cbn [sz_opt]. lia. Qed.
Lemma size_sarray_none s : sa_ef s = None -> 8 * size ty_SArray (v_sarray s) = 144.
Proof. intro H. rewrite size_sarray. unfold sz_sarray. rewrite H. reflexivity. Qed.
Lemma size_psef_ef p : size ty_PrefixSummedEliasFano (v_psef p) = size ty_EliasFano (v_ef (ps_ef p)).
Proof. rewrite size_psef, size_ef. reflexivity. Qed.

(* SArray over u bits with n ones whose Elias-Fano part is the value of a completely filled
   builder: B <= n floor(lg(u/n)) + 7n + 8192 (11n with rank); all-zero vectors: 144 bits *)
Theorem size_sarray_full u n b xs s : 1 <= n -> n + 2 + u / 2 ^ low_len_of u n < 2 ^ 56 ->
  efb_inv b xs u n -> lenN xs = n ->
  sa_ef s = Some (ef_spec b (sa_has_rank s)) ->
  8 * size ty_SArray (v_sarray s)
  <= n * low_len_of u n + (if sa_has_rank s then 11 else 7) * n + 8192.
Proof.
  intros Hn Hcap I Hlen Hs. rewrite (size_sarray_some s _ Hs), size_ef.
  pose proof (ef_bits_sharp u n b xs Hn Hcap I (sa_has_rank s)) as H. rewrite Hlen in H.
  set (nl := n * low_len_of u n) in *. destruct (sa_has_rank s); cbn [b2n] in *; lia.
Qed.

Theorem size_psef_full u n b xs p : 1 <= n -> n + 2 + u / 2 ^ low_len_of u n < 2 ^ 56 ->
  efb_inv b xs u n -> lenN xs = n -> ps_ef p = ef_spec b false ->
  8 * size ty_PrefixSummedEliasFano (v_psef p) <= n * low_len_of u n + 7 * n + 8192.
Proof.
  intros Hn Hcap I Hlen Hp. rewrite size_psef_ef, Hp.
  pose proof (size_eliasfano_capacity u n b xs Hn Hcap I false) as H. rewrite Hlen in H. exact H.
Qed.

(* ---------- EliasFano::from_bits: the builder is filled completely ---------- *)

Lemma popfold_ok c : forall ws a, Forall (fun w => w < W) ws -> a + 64 * lenN ws < W ->
  fold_res (fun acc w => add c acc (popcN w)) ws a = Ok (a + popsum ws).
Proof.
  induction ws as [|w ws IH]; intros a Hall Hb.
  - cbn [fold_res popsum fold_right]. rewrite N.add_0_r. reflexivity.
  - inversion Hall as [|w' ws' Hw Hws]; subst. rewrite lenN_cons in Hb.
    pose proof (popcN_le_64 w Hw) as Hp.
    cbn [fold_res]. rewrite add_ok by lia. cbn [bind]. rewrite IH by (try assumption; lia).
    cbn [popsum fold_right]. fold (popsum ws). f_equal. lia.
Qed.

Section FromBits.
Variables (bv : bitvec) (u m : N).
Hypothesis Hwf : wf bv.
Hypothesis Hcap : cap_ok bv.
Hypothesis Eu : u = bv_len bv.
Hypothesis Em : m = count true (bits_of bv).
Hypothesis Hm : 1 <= m.
Hypothesis Hcap1 : m + 2 + u / 2 ^ low_len_of u m < 2 ^ 56.
Hypothesis Hcap2 : m * low_len_of u m < 2 ^ 56.
Notation B := (bits_of bv).

Lemma fb_u_lt : u < W.
Proof. pose proof (cap_W bv Hcap). unfold W. lia. Qed.

Definition fb_step (c : cfg) (b : efbuilder) (i : N) : res efbuilder :=
  x <- BitVector.access c bv i ;; x <- unwrap x ;;
  if x : bool then (r <- efb_push c b i ;; _ <- assert_ (snd r) ;; Ok (fst r)) else Ok b.

Lemma fb_step_inv c b k b' : (k < length B)%nat ->
  efb_inv b (positions true (firstn k B)) u m ->
  fb_step c b (N.of_nat k) = Ok b' ->
  efb_inv b' (positions true (firstn (S k) B)) u m.
Proof.
  intros Hk I E. pose proof (bits_of_length bv Hwf) as HL. pose proof (cap_W bv Hcap) as HcW.
  assert (Hpos : positions true (firstn (S k) B)
                 = positions true (firstn k B) ++ (if nth k B false then [N.of_nat k] else [])).
  { rewrite (firstn_snoc false) by exact Hk. unfold positions. rewrite positions_from_app.
    f_equal. rewrite N.add_0_l, lenN_firstn. cbn [positions_from].
    replace (N.min (N.of_nat k) (lenN B)) with (N.of_nat k) by (unfold lenN; lia).
    destruct (nth k B false); reflexivity. }
  unfold fb_step, BitVector.access in E.
  rewrite get_bit_spec in E by (try assumption; unfold W, lenN in *; lia). cbn [bind] in E.
  unfold BitSpec.access in E.
  destruct (N.ltb_spec (N.of_nat k) (lenN B)) as [_|H]; [|unfold lenN in H; lia].
  rewrite Nat2N.id, (nth_error_nth' _ false Hk) in E. cbn [unwrap bind] in E.
  rewrite Hpos. destruct (nth k B false).
  - destruct (efb_push_spec u m fb_u_lt Hm Hcap1 Hcap2 c b _ (N.of_nat k) I) as [b1 [E1 [I1 _]]].
    rewrite E1 in E. cbn [bind snd fst spec_apply] in E, I1.
    destruct (efb_accepts u m (positions true (firstn k B)) (N.of_nat k)); cbn [snd fst assert_ bind] in E, I1.
    + injection E as <-. exact I1.
    + discriminate.
  - injection E as <-. rewrite app_nil_r. exact I.
Qed.

Lemma fb_fold_inv c b0 : efb_inv b0 [] u m -> forall k b', (k <= length B)%nat ->
  fold_res (fb_step c) (nseq (N.of_nat k)) b0 = Ok b' ->
  efb_inv b' (positions true (firstn k B)) u m.
Proof.
  intros I0. induction k as [|k IH]; intros b' Hk E.
  - change (nseq (N.of_nat 0)) with (@nil N) in E. cbn [fold_res] in E. injection E as <-. exact I0.
  - rewrite nseq_succ, fold_res_app in E. apply bind_inv in E. destruct E as [b1 [E1 E2]].
    cbn [fold_res] in E2. apply bind_inv in E2. destruct E2 as [b2 [E2 E3]]. injection E3 as <-.
    apply (fb_step_inv c b1 k b2); [lia | apply IH; [lia | exact E1] | exact E2].
Qed.

Theorem ef_from_bits_shape c e : ef_from_bits c bv = Ok (Some e) ->
  exists b, efb_inv b (positions true B) u m /\ lenN (positions true B) = m /\ e = ef_spec b false.
Proof.
  intro E. unfold ef_from_bits in E. pose proof (bits_of_length bv Hwf) as HL.
  pose proof (cap_W bv Hcap) as HcW. pose proof (wf_nwords bv Hwf) as Hn.
  destruct (N.eqb_spec (bv_len bv) 0) as [?|_]; [discriminate|].
  rewrite popfold_ok in E by (try apply wf_all; try assumption; unfold W; lia).
  cbn [bind] in E. rewrite N.add_0_l, <- (count_true_bits_of bv Hwf), <- Em, <- Eu in E.
  destruct (N.eqb_spec m 0) as [?|_]; [lia|].
  destruct (efb_new_ok u m fb_u_lt Hm Hcap1 Hcap2 c) as [b0 [E0 I0]].
  rewrite E0 in E. cbn [bind unwrap] in E.
  apply bind_inv in E. destruct E as [b [E1 E2]].
  change (fold_res (fb_step c) (nseq u) b0 = Ok b) in E1.
  assert (I : efb_inv b (positions true B) u m).
  { replace u with (N.of_nat (length B)) in E1 by (unfold lenN in HL; lia).
    pose proof (fb_fold_inv c b0 I0 (length B) b ltac:(lia) E1) as H.
    rewrite firstn_all in H. exact H. }
  exists b. split; [exact I|]. split.
  - unfold positions. rewrite positions_from_len. symmetry. exact Em.
  - rewrite (efb_build_spec u m b _ Hcap1 I c) in E2. cbn [bind] in E2. injection E2 as <-. reflexivity.
Qed.

Theorem size_ef_from_bits c e : ef_from_bits c bv = Ok (Some e) ->
  ef_low_len e = low_len_of u m /\
  8 * size ty_EliasFano (v_ef e) <= m * ef_low_len e + 7 * m + 8192.
Proof.
  intro E. destruct (ef_from_bits_shape c e E) as [b [I [Hl ->]]].
  split; [apply (ef_spec_low_len u m b _ I)|].
  rewrite (ef_spec_low_len u m b _ I).
  pose proof (size_eliasfano_capacity u m b _ Hm Hcap1 I false) as H. rewrite Hl in H. exact H.
Qed.
End FromBits.

(* ---------- capacity side conditions from a small universe ---------- *)

Lemma ef_caps_small u m : 1 <= m -> m <= u -> u + 1 < 2 ^ 55 ->
  m + 2 + u / 2 ^ low_len_of u m < 2 ^ 56 /\ m * low_len_of u m < 2 ^ 56.
Proof. intros Hm Hmu Hu. exact (ef_cap_small u m Hm Hmu Hu). Qed.

(* ---------- SArray::from_bits (+ enable_rank): the constructor fills the builder ---------- *)

Definition sa_build_model (c : cfg) (bv : bitvec) (with_rank : bool) : res sarray :=
  s0 <- sa_from_bv c bv ;; if with_rank then sa_enable_rank c s0 else Ok s0.

Theorem size_sarray_built c bv with_rank s : wf bv -> cap_ok bv ->
  (1 <= count true (bits_of bv) -> ef_cap (bv_len bv) (count true (bits_of bv))) ->
  sa_build_model c bv with_rank = Ok s ->
  let n := count true (bits_of bv) in
  sa_has_rank s = with_rank /\
  8 * size ty_SArray (v_sarray s)
  <= n * low_len_of (bv_len bv) n + (if sa_has_rank s then 11 else 7) * n + 8192.
Proof.
  intros Hwf Hcap Hsc E n. unfold sa_build_model, sa_from_bv in E. cbv zeta in E.
  rewrite (sa_popcount_ok c bv Hwf Hcap) in E. cbn [bind] in E. fold n in E.
  destruct (N.eqb_spec n 0) as [Hz|Hnz]; cbn [negb bind] in E.
  - assert (Hs : sa_ef s = None /\ sa_has_rank s = with_rank).
    { destruct with_rank; [unfold sa_enable_rank in E; cbn [sa_ef bind sa_num_bits sa_num_ones] in E|];
        injection E as <-; split; reflexivity. }
    destruct Hs as [Hs Hr]. split; [exact Hr|]. rewrite (size_sarray_none s Hs). lia.
  - assert (Hm : 1 <= n) by lia. destruct (Hsc Hm) as [Hcap1 Hcap2]. fold n in Hcap1, Hcap2.
    set (u := bv_len bv) in *.
    assert (Hu : u < W) by (pose proof (cap_W bv Hcap); unfold u, W; lia).
    destruct (efb_new_ok u n Hu Hm Hcap1 Hcap2 c) as [b0 [E0 I0]].
    destruct (push_ones_all bv u n Hwf Hcap eq_refl eq_refl Hu Hm Hcap1 Hcap2 c b0 I0) as [b [Ep I]].
    rewrite E0 in E. cbn [bind unwrap] in E. rewrite Ep in E. cbn [bind] in E.
    rewrite (efb_build_spec u n b _ Hcap1 I c) in E. cbn [bind] in E.
    assert (Hl : lenN (positions true (bits_of bv)) = n) by (unfold positions; apply positions_from_len).
    destruct with_rank.
    + unfold sa_enable_rank in E. cbn [sa_ef sa_num_bits sa_num_ones bind] in E.
      rewrite (ef_enable_rank_spec u n b _ Hcap1 I c) in E. cbn [bind] in E. injection E as <-.
      split; [reflexivity|].
      apply (size_sarray_full u n b _ _ Hm Hcap1 I Hl). reflexivity.
    + injection E as <-. split; [reflexivity|].
      apply (size_sarray_full u n b _ _ Hm Hcap1 I Hl). reflexivity.
Qed.

(* ---------- PrefixSummedEliasFano::from_slice ---------- *)

Lemma ps_from_slice_eq c vals : vals <> [] ->
  sum_list vals + 1 < W -> ef_cap (sum_list vals + 1) (lenN vals) ->
  exists b, efb_inv b (psums 0 vals) (sum_list vals + 1) (lenN vals) /\
            ps_from_slice c vals = Ok (Some {| ps_ef := ef_spec b false |}).
Proof.
  intros Hne Hsum [Hcap1 Hcap2]. set (u := sum_list vals + 1) in *. set (m := lenN vals) in *.
  assert (Hm : 1 <= m).
  { unfold m. destruct vals; [contradiction|]. rewrite lenN_cons. lia. }
  destruct (efb_new_ok u m Hsum Hm Hcap1 Hcap2 c) as [b0 [E0 I0]].
  destruct (ps_fold_ok u m Hsum Hm Hcap1 Hcap2 c vals b0 0 [] I0) as [b [Ef I]].
  { unfold last_or. cbn [last_opt]. lia. }
  { rewrite lenN_nil. fold m. lia. }
  { fold (sum_list vals). unfold u. lia. }
  cbn [app] in I. exists b. split; [exact I|].
  unfold ps_from_slice. destruct vals as [|v0 vr]; [contradiction|].
  rewrite fold_sum_ok by (fold (sum_list (v0 :: vr)); lia). cbn [bind].
  fold (sum_list (v0 :: vr)). rewrite add_ok by exact Hsum. cbn [bind].
  fold u. fold m. rewrite E0. cbn [bind].
  change (fold_res _ (v0 :: vr) (b0, 0, true)) with (fold_res (ps_step c) (v0 :: vr) (b0, 0, true)).
  rewrite Ef. cbn [bind negb]. rewrite (efb_build_spec u m b _ Hcap1 I c). reflexivity.
Qed.

Theorem size_psef_built c vals p :
  sum_list vals + 1 < W -> ef_cap (sum_list vals + 1) (lenN vals) ->
  ps_from_slice c vals = Ok (Some p) ->
  ef_low_len (ps_ef p) = low_len_of (sum_list vals + 1) (lenN vals) /\
  8 * size ty_PrefixSummedEliasFano (v_psef p)
  <= lenN vals * ef_low_len (ps_ef p) + 7 * lenN vals + 8192.
Proof.
  intros Hsum Hc E.
  assert (Hne : vals <> []) by (intro Hv; rewrite Hv in E; discriminate).
  assert (Hm : 1 <= lenN vals) by (destruct vals; [contradiction | rewrite lenN_cons; lia]).
  destruct (ps_from_slice_eq c vals Hne Hsum Hc) as [b [I Eq]]. destruct Hc as [Hcap1 Hcap2].
  rewrite Eq in E. injection E as <-. cbn [ps_ef].
  rewrite (ef_spec_low_len _ _ b _ I). split; [reflexivity|].
  apply (size_psef_full _ _ b (psums 0 vals) _ Hm Hcap1 I); [apply psums_len | reflexivity].
Qed.

(* ---------- DACs: the constructors build levels of the shape assumed in Proofs/SizeR9.v ---------- *)

Lemma fl_rel_plain flags ls : Forall2 fl_rel flags ls -> Forall r9_plain flags /\ length flags = length ls.
Proof.
  induction 1 as [|r l flags ls Hr Hrest [IH1 IH2]]; [split; [constructor | reflexivity]|].
  split; [|cbn [length]; rewrite IH2; reflexivity].
  constructor; [|exact IH1]. destruct Hr as [E [Hwf _]]. split; [exact E | exact Hwf].
Qed.

Theorem size_dacsbyte_built c vals d : Forall (fun x => x < W) vals -> lenN vals < 2 ^ 50 ->
  db_from_slice c vals = Ok d ->
  let levels := combine (db_data d) (map Some (db_flags d) ++ [None]) in
  let tot := fold_left (fun acc (lv : list N * option r9sel) =>
               let chunk := 8 * lenN (fst lv) in
               let flag := match snd lv with Some f => r9_num_bits f | None => 0 end in
               acc + 132 * (chunk + flag) + 204800) levels 0 in
  100 * (8 * size ty_DacsByte (v_dacsbyte d)) <= tot + 12800.
Proof.
  intros HW Hlen E. destruct (db_from_slice_rep c vals HW Hlen) as [d' [E' [Hd Hf]]].
  rewrite E' in E. injection E as <-.
  destruct (fl_rel_plain _ _ Hf) as [Hp Hl].
  apply size_dacsbyte_levels; [exact Hp|].
  rewrite Hd, Hl, lv_chunks_length, lv_flags_length.
  pose proof (byte_levels_range vals HW) as Hr. unfold byte_ws. rewrite repeat_length. lia.
Qed.

Lemma cv_rep_all data chunks : Forall2 cv_rep data chunks ->
  Forall (fun v => exists xs, cv_inv v xs) data /\ length data = length chunks.
Proof.
  induction 1 as [|v xs data chunks Hv Hrest [IH1 IH2]]; [split; [constructor | reflexivity]|].
  split; [|cbn [length]; rewrite IH2; reflexivity].
  constructor; [|exact IH1]. exists xs. apply cv_rep_inv in Hv. exact (proj1 Hv).
Qed.

Theorem size_dacsopt_built c vals mlo d : Forall (fun x => x < W) vals -> lenN vals < 2 ^ 50 ->
  do_from_slice c vals mlo = Ok (Some d) ->
  let levels := combine (do_data d) (map Some (do_flags d) ++ [None]) in
  let tot := fold_left (fun acc (lv : compvec * option r9sel) =>
               let chunk := cv_len (fst lv) * cv_width (fst lv) in
               let flag := match snd lv with Some f => r9_num_bits f | None => 0 end in
               acc + 132 * (chunk + flag) + 204800) levels 0 in
  100 * (8 * size ty_DacsOpt (v_dacsopt d)) <= tot + 12800.
Proof.
  intros HW Hlen E.
  assert (Hml : 1 <= ml_of mlo <= 64).
  { destruct (andb (1 <=? ml_of mlo) (ml_of mlo <=? 64)) eqn:Eb.
    - apply andb_true_iff in Eb. destruct Eb as [E1 E2]. apply N.leb_le in E1. apply N.leb_le in E2. lia.
    - rewrite (do_from_slice_reject c vals mlo Eb) in E. discriminate. }
  destruct vals as [|v0 vr].
  - rewrite (do_from_slice_nil c mlo Hml) in E. injection E as <-.
    apply size_dacsopt_levels; cbn [do_default do_data do_flags].
    + constructor; [|constructor]. exists []. exact cv_inv_default.
    + constructor.
    + reflexivity.
  - set (vals := v0 :: vr) in *. assert (Hne : vals <> []) by discriminate.
    destruct (do_from_slice_rep c vals mlo Hne HW Hlen Hml) as [d' [E' [Hd [Hw Hf]]]].
    rewrite E' in E. injection E as <-.
    destruct (fl_rel_plain _ _ Hf) as [Hp Hl]. destruct (cv_rep_all _ _ Hd) as [Hc Hl'].
    apply size_dacsopt_levels; [exact Hc | exact Hp|].
    rewrite Hl, Hl', lv_chunks_length, lv_flags_length.
    assert (Hlen56 : lenN vals < 2 ^ 56).
    { change (2 ^ 50) with 1125899906842624 in Hlen. change (2 ^ 56) with 72057594037927936. lia. }
    pose proof (compute_opt_widths_value c vals (ml_of mlo) Hne ltac:(lia) ltac:(lia) HW Hlen56) as EV.
    destruct (DP_Walk.compute_opt_widths_optimal c vals (ml_of mlo) Hne ltac:(lia) ltac:(lia) HW Hlen56)
      as [ws [Ew [Adm _]]].
    rewrite EV in Ew. injection Ew as <-.
    apply admissible_unfold in Adm. destruct Adm as [[L1 _] _]. unfold lenN in L1. lia.
Qed.

(* ---------- WaveletMatrix<Rank9Sel>::new: every layer is a full Rank9Sel over n bits ---------- *)

Lemma push_bit_shape c bv b bv' : wf bv -> bv_len bv + 1 < 2 ^ 56 -> push_bit c bv b = Ok bv' ->
  wf bv' /\ bv_len bv' = bv_len bv + 1.
Proof.
  intros Hwf Hcap E. destruct (push_bit_spec c bv b Hwf Hcap) as [bv1 [E1 [Hwf1 Hb]]].
  rewrite E1 in E. injection E as <-. split; [exact Hwf1|].
  rewrite <- (bits_of_length bv1 Hwf1), Hb, lenN_app, (bits_of_length bv Hwf). reflexivity.
Qed.

Lemma wm_filter_shape c w sh nz no bv val st : wf bv -> bv_len bv + 1 < 2 ^ 56 ->
  wm_filter c w sh (nz, no, bv) val = Ok st ->
  wf (snd st) /\ bv_len (snd st) = bv_len bv + 1 /\
  lenN (fst (fst st)) + lenN (snd (fst st)) = lenN nz + lenN no + 1.
Proof.
  intros Hwf Hcap E. unfold wm_filter in E.
  apply bind_inv in E. destruct E as [t [_ E]].
  apply bind_inv in E. destruct E as [bv' [Ep E]].
  destruct (push_bit_shape c bv _ bv' Hwf Hcap Ep) as [Hwf' Hl'].
  apply bind_inv in E. destruct E as [f [_ E]].
  apply bind_inv in E. destruct E as [_ [_ E]].
  destruct (N.land t 1 =? 1); injection E as <-; cbn [fst snd]; rewrite ?lenN_app, ?lenN_single;
    (split; [exact Hwf' | split; [exact Hl' | lia]]).
Qed.

Lemma wm_filter_fold_shape c w sh : forall l nz no bv st, wf bv -> bv_len bv + lenN l < 2 ^ 56 ->
  fold_res (wm_filter c w sh) l (nz, no, bv) = Ok st ->
  wf (snd st) /\ bv_len (snd st) = bv_len bv + lenN l /\
  lenN (fst (fst st)) + lenN (snd (fst st)) = lenN nz + lenN no + lenN l.
Proof.
  induction l as [|x l IH]; intros nz no bv st Hwf Hcap E.
  - cbn [fold_res] in E. injection E as <-. cbn [fst snd]. rewrite lenN_nil.
    split; [exact Hwf | split; lia].
  - rewrite lenN_cons in *. cbn [fold_res] in E. apply bind_inv in E. destruct E as [[[nz1 no1] bv1] [E1 E2]].
    destruct (wm_filter_shape c w sh nz no bv x _ Hwf ltac:(lia) E1) as [W1 [L1 C1]]. cbn [fst snd] in *.
    destruct (IH nz1 no1 bv1 st W1 ltac:(lia) E2) as [W2 [L2 C2]].
    split; [exact W2 | split; lia].
Qed.

Definition wm_layer_ok (n : N) (b : backing) : Prop := exists x, b = BRank9 x /\ r9_full n x.

Lemma wm_layers_shape c w n : n < 2 ^ 56 -> forall fuel depth zeros ones layers R,
  lenN zeros + lenN ones = n -> Forall (wm_layer_ok n) layers ->
  wm_layers_build c KRank9 w fuel depth zeros ones layers = Ok R ->
  Forall (wm_layer_ok n) R /\ lenN R = lenN layers + N.of_nat fuel.
Proof.
  intro Hn. induction fuel as [|fuel IH]; intros depth zeros ones layers R Hlen HL E.
  - cbn [wm_layers_build] in E. injection E as <-. split; [exact HL | lia].
  - cbn [wm_layers_build] in E.
    apply bind_inv in E. destruct E as [t [_ E]]. apply bind_inv in E. destruct E as [sh [_ E]].
    apply bind_inv in E. destruct E as [[[nz1 no1] bv1] [E1 E]].
    apply bind_inv in E. destruct E as [[[nz no] bv] [E2 E]].
    destruct (wm_filter_fold_shape c w sh zeros [] [] bv_empty _ wf_empty
                ltac:(change (bv_len bv_empty) with 0; lia) E1) as [W1 [L1 C1]].
    cbn [fst snd] in W1, L1, C1. change (bv_len bv_empty) with 0 in L1. change (lenN (@nil N)) with 0 in C1.
    destruct (wm_filter_fold_shape c w sh ones nz1 no1 bv1 _ W1 ltac:(lia) E2) as [W2 [L2 C2]].
    cbn [fst snd] in W2, L2, C2.
    apply bind_inv in E. destruct E as [l [Eb E]].
    assert (Hcap : cap_ok bv) by (unfold cap_ok; lia).
    unfold b_build in Eb. rewrite (r9_build_ok c bv true true W2 Hcap) in Eb. cbn [bind] in Eb.
    injection Eb as <-.
    destruct (IH (depth + 1) nz no (layers ++ [BRank9 (r9_spec bv true true)]) R) as [F1 F2].
    + lia.
    + apply Forall_app. split; [exact HL|]. constructor; [|constructor].
      exists (r9_spec bv true true). split; [reflexivity|].
      split; [reflexivity | split; [exact W2 | cbn [r9_spec r9_bv]; lia]].
    + exact E.
    + split; [exact F1|]. rewrite F2, lenN_app, lenN_single. lia.
Qed.

Lemma wm_layers_unmap n R : Forall (wm_layer_ok n) R ->
  exists layers, R = map BRank9 layers /\ Forall (r9_full n) layers.
Proof.
  induction 1 as [|b R [x [-> Hx]] _ [layers [-> Hl]]].
  - exists []. split; [reflexivity | constructor].
  - exists (x :: layers). split; [reflexivity | constructor; assumption].
Qed.

Theorem size_wavelet_r9_built c xs wm : lenN xs < 2 ^ 56 -> wm_new c KRank9 xs = Ok (Some wm) ->
  100 * (8 * size ty_WaveletMatrix_Rank9Sel (v_wavelet wm))
  <= wm_alph_width wm * (132 * lenN xs + 204800) + 12800.
Proof.
  intros Hn E. unfold wm_new in E. destruct xs as [|x0 xr]; [discriminate|].
  set (xs := x0 :: xr) in *.
  apply bind_inv in E. destruct E as [a [_ E]]. apply bind_inv in E. destruct E as [w [_ E]].
  apply bind_inv in E. destruct E as [R [ER E]]. injection E as <-.
  destruct (wm_layers_shape c w (lenN xs) Hn (N.to_nat w) 0 xs [] [] R) as [F1 F2].
  - rewrite lenN_nil. lia.
  - constructor.
  - exact ER.
  - destruct (wm_layers_unmap _ R F1) as [layers [-> Hl]].
    unfold wm_alph_width. cbn [wm_layers]. rewrite lenN_map.
    apply size_wavelet_r9_layers. exact Hl.
Qed.

(* ---------- the formula in n alone fails for a partially filled builder ---------- *)

(* builder of capacity m = 4000 over u = 16000, nothing pushed (n = 0), then build:
   8 * size_in_bytes() = 8728 > 0 * low_len + 7 * 0 + 8192.  (With the capacity m in place of n
   the bound is 7 * 4000 + 8192, as proved above.) *)
Definition ef_partial_witness : option (N * N * N) :=
  let c0 := {| dbg := true; intr := false |} in
  match efb_new c0 16000 4000 with
  | Ok (Some b) =>
      match efb_build c0 b with
      | Ok e => Some (8 * size ty_EliasFano (v_ef e), ef_len e,
                      ef_len e * ef_low_len e + 7 * ef_len e + 8192)
      | Panic => None
      end
  | _ => None
  end.
Lemma ef_partial_witness_eq : ef_partial_witness = Some (8728, 0, 8192).
Proof. vm_compute. reflexivity. Qed.

Print Assumptions size_eliasfano_capacity.
Print Assumptions size_eliasfano_full.
Print Assumptions size_eliasfano_driver.
Print Assumptions size_sarray_full.
Print Assumptions size_psef_full.
Print Assumptions ef_from_bits_shape.
Print Assumptions size_ef_from_bits.
Print Assumptions size_sarray_built.
Print Assumptions size_psef_built.
Print Assumptions size_dacsbyte_built.
Print Assumptions size_dacsopt_built.
Print Assumptions size_wavelet_r9_built.
