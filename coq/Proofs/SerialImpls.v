(* Proofs/SerialImpls.v — reflection over the generated descriptions of every hand-written
   `impl Serializable` (gen/SerialGen.v): a boolean checker `check_impl`, the meaning of a
   description (`impl_ser`, `impl_deser`, `impl_size`), the soundness of the checker with respect
   to the generic codec of Spec/FormatSpec.v, and well-formedness of the model values. *)
From Sucds Require Import Base.Res Spec.FormatSpec gen.SerialGen Proofs.SerialGeneric.
From Sucds Require Import Model.BitVector Model.Rank9 Model.DArray Model.EliasFano Model.SArray
  Model.CompactVector Model.Dacs Model.Psef Model.Wavelet Model.Serial.
From Coq Require Import String.
From Coq Require Import ZArith ZifyN ZifyBool ZifyNat Lia.
Ltac Zify.zify_post_hook ::= Z.div_mod_to_equations.
Open Scope N_scope.


(* ------------------------------------------------------------------------------------------ *)
(* decidable equality on ty                                                                       *)
(* ------------------------------------------------------------------------------------------ *)
Fixpoint ty_eqb (a b : ty) {struct a} : bool :=
  match a, b with
  | TU8, TU8 | TU16, TU16 | TU64, TU64 | TI64, TI64 | TBool, TBool => true
  | TVec a', TVec b' => ty_eqb a' b'
  | TOpt a', TOpt b' => ty_eqb a' b'
  | TStruct fa, TStruct fb =>
      (fix go (fa fb : list ty) : bool :=
         match fa, fb with
         | [], [] => true
         | x :: fa', y :: fb' => ty_eqb x y && go fa' fb'
         | _, _ => false
         end) fa fb
  | _, _ => false
  end.

Lemma ty_eqb_eq : forall a b, ty_eqb a b = true -> a = b.
Proof.
  induction a as [ | | | | | a' IH | a' IH | fa IH] using ty_ind'; intros b H;
    destruct b as [ | | | | | b' | b' | fb]; try discriminate H; try reflexivity.
  - cbn [ty_eqb] in H. f_equal. now apply IH.
  - cbn [ty_eqb] in H. f_equal. now apply IH.
  - f_equal. cbn [ty_eqb] in H. revert fb H.
    induction IH as [|x fa Hx _ IHfa]; intros fb H; destruct fb as [|y fb];
      try discriminate H; try reflexivity.
    apply andb_true_iff in H. destruct H as [H1 H2]. f_equal; [now apply Hx | now apply IHfa].
Qed.

(* ------------------------------------------------------------------------------------------ *)
(* the checker                                                                                    *)
(* ------------------------------------------------------------------------------------------ *)
Definition str_mem (s : string) (l : list string) : bool := existsb (String.eqb s) l.
Fixpoint str_nodup (l : list string) : bool :=
  match l with [] => true | x :: r => negb (str_mem x r) && str_nodup r end.
Fixpoint list_eqb {A} (e : A -> A -> bool) (a b : list A) : bool :=
  match a, b with
  | [], [] => true
  | x :: a', y :: b' => e x y && list_eqb e a' b'
  | _, _ => false
  end.
Definition field_eqb (a b : string * ty) : bool :=
  String.eqb (fst a) (fst b) && ty_eqb (snd a) (snd b).

(* cancel one field by name *)
Fixpoint remove_name (f : string) (rem : list (string * ty)) : option (list (string * ty)) :=
  match rem with
  | [] => None
  | (n, t) :: r => if String.eqb f n then Some r
                   else option_map (cons (n, t)) (remove_name f r)
  end.
(* cancel exactly k fields of the primitive type t (the first k of that type) *)
Fixpoint remove_prim (t : ty) (k : N) (rem : list (string * ty)) : option (list (string * ty)) :=
  match rem with
  | [] => if k =? 0 then Some [] else None
  | (n, t') :: r =>
      if negb (k =? 0) && ty_eqb t t' then remove_prim t (k - 1) r
      else option_map (cons (n, t')) (remove_prim t k r)
  end.
(* every size term cancels fields that are still uncovered; nothing may be left at the end, so
   every field is accounted for exactly once and no term is superfluous or duplicated *)
Fixpoint consume (terms : list size_term) (rem : list (string * ty)) : bool :=
  match terms with
  | [] => match rem with [] => true | _ => false end
  | SzField f :: ts =>
      match remove_name f rem with Some r => consume ts r | None => false end
  | SzPrim t k :: ts =>
      is_prim t && match remove_prim t k rem with Some r => consume ts r | None => false end
  end.

Definition check_impl (d : impl_desc) : bool :=
  let names := map fst (d_fields d) in
  str_nodup names
  && list_eqb String.eqb (d_ser d) names
  && list_eqb field_eqb (d_deser d) (d_fields d)
  && str_nodup (d_ctor d)
  && forallb (fun n => str_mem n (d_ctor d)) names
  && forallb (fun n => str_mem n names) (d_ctor d)
  && consume (d_size d) (d_fields d).

(* ------------------------------------------------------------------------------------------ *)
(* the meaning of a description                                                                   *)
(* ------------------------------------------------------------------------------------------ *)
Definition env := list ((string * ty) * val).
Fixpoint lookup (name : string) (e : env) : option (ty * val) :=
  match e with
  | [] => None
  | ((n, t), v) :: r => if String.eqb name n then Some (t, v) else lookup name r
  end.

(* serialize_into: the fields `self.f` in the order they are written *)
Definition ser_of (o : option (ty * val)) : list N :=
  match o with Some (t, v) => ser t v | None => [] end.
Definition impl_ser (d : impl_desc) (fields : list val) : list N :=
  flat_map (fun n => ser_of (lookup n (combine (d_fields d) fields))) (d_ser d).

(* size_in_bytes: the sum of the additive terms *)
Definition size_of_opt (o : option (ty * val)) : N :=
  match o with Some (t, v) => size t v | None => 0 end.
Definition term_size (e : env) (s : size_term) : N :=
  match s with
  | SzField f => size_of_opt (lookup f e)
  | SzPrim t k => match fixed_size t with Some m => k * m | None => 0 end
  end.
Definition impl_size (d : impl_desc) (fields : list val) : N :=
  fold_right (fun s acc => term_size (combine (d_fields d) fields) s + acc) 0 (d_size d).

(* deserialize_from: `let name = Type::deserialize_from(&mut reader)?;` in sequence, then
   `Self { .. }`, which assigns by name: the struct is rebuilt in declaration order *)
Fixpoint read_seq (rs : list (string * ty)) (bs : list N) : option (env * list N) :=
  match rs with
  | [] => Some ([], bs)
  | (n, t) :: rs' =>
      match deser t bs with
      | None => None
      | Some (v, bs') => match read_seq rs' bs' with
                         | None => None
                         | Some (e, r) => Some (((n, t), v) :: e, r)
                         end
      end
  end.
Fixpoint build (names ctor : list string) (binds : env) : option (list val) :=
  match names with
  | [] => Some []
  | n :: r =>
      if str_mem n ctor then
        match lookup n binds with
        | Some (_, v) => match build r ctor binds with Some vs => Some (v :: vs) | None => None end
        | None => None
        end
      else None
  end.
Definition impl_deser (d : impl_desc) (bs : list N) : option (val * list N) :=
  match read_seq (d_deser d) bs with
  | None => None
  | Some (binds, r) =>
      match build (map fst (d_fields d)) (d_ctor d) binds with
      | Some vs => Some (VStruct vs, r)
      | None => None
      end
  end.

(* ------------------------------------------------------------------------------------------ *)
(* boolean reflection lemmas                                                                      *)
(* ------------------------------------------------------------------------------------------ *)
Lemma list_eqb_eq {A} (e : A -> A -> bool) :
  (forall x y, e x y = true -> x = y) -> forall a b, list_eqb e a b = true -> a = b.
Proof.
  intro He. induction a as [|x a IH]; intros b H; destruct b as [|y b];
    try discriminate H; try reflexivity.
  cbn [list_eqb] in H. apply andb_true_iff in H. destruct H as [H1 H2].
  f_equal; [now apply He | now apply IH].
Qed.
Lemma str_eqb_eq x y : String.eqb x y = true -> x = y.
Proof. apply String.eqb_eq. Qed.
Lemma field_eqb_eq a b : field_eqb a b = true -> a = b.
Proof.
  destruct a as [n t], b as [n' t']. unfold field_eqb. cbn [fst snd]. intro H.
  apply andb_true_iff in H. destruct H as [H1 H2].
  apply String.eqb_eq in H1. apply ty_eqb_eq in H2. congruence.
Qed.
Lemma str_mem_false_neq n l n' : str_mem n l = false -> In n' l -> String.eqb n' n = false.
Proof.
  unfold str_mem. intros H Hin. destruct (String.eqb_spec n' n) as [->|Hne]; [|reflexivity].
  assert (existsb (String.eqb n) l = true) as E; [|congruence].
  apply existsb_exists. exists n. split; [exact Hin | apply String.eqb_refl].
Qed.

(* looking up the declared names in `combine fs l` returns the fields in order *)
Lemma lookup_names : forall (fs : list (string * ty)) (l : list val),
  str_nodup (map fst fs) = true -> List.length l = List.length fs ->
  map (fun n => lookup n (combine fs l)) (map fst fs) = map Some (combine (map snd fs) l).
Proof.
  induction fs as [|[n t] fs IH]; intros l Hnd Hlen; destruct l as [|v l];
    try discriminate Hlen; [reflexivity|].
  cbn [map fst snd combine str_nodup] in *. apply andb_true_iff in Hnd.
  destruct Hnd as [Hn Hnd]. apply negb_true_iff in Hn.
  cbn [lookup]. rewrite String.eqb_refl. f_equal.
  rewrite <- IH by (try exact Hnd; cbn [List.length] in Hlen; lia).
  apply map_ext_in. intros n' Hin. cbn [lookup].
  now rewrite (str_mem_false_neq n (map fst fs) n' Hn Hin).
Qed.

Lemma flat_map_via_map {A B C} (g : A -> B) (h : B -> list C) l :
  flat_map (fun x => h (g x)) l = flat_map h (map g l).
Proof. induction l as [|x l IH]; cbn [flat_map map]; [reflexivity | now rewrite IH]. Qed.

Lemma ser_of_fields : forall tys l,
  List.length l = List.length tys ->
  flat_map ser_of (map Some (combine tys l)) = ser_fields tys l.
Proof.
  induction tys as [|t tys IH]; intros l H; destruct l as [|v l]; try discriminate H;
    [reflexivity|].
  cbn [combine map flat_map ser_fields ser_of]. rewrite IH; [reflexivity|].
  cbn [List.length] in H. lia.
Qed.

(* ------------------------------------------------------------------------------------------ *)
(* soundness of the checker                                                                       *)
(* ------------------------------------------------------------------------------------------ *)
Lemma check_impl_parts d :
  check_impl d = true ->
  str_nodup (map fst (d_fields d)) = true /\
  d_ser d = map fst (d_fields d) /\
  d_deser d = d_fields d /\
  forallb (fun n => str_mem n (d_ctor d)) (map fst (d_fields d)) = true /\
  consume (d_size d) (d_fields d) = true.
Proof.
  unfold check_impl. cbv zeta. intro H.
  repeat (apply andb_true_iff in H; destruct H as [H ?H]).
  repeat split; try assumption.
  - eapply list_eqb_eq; [exact str_eqb_eq | eassumption].
  - eapply list_eqb_eq; [exact field_eqb_eq | eassumption].
Qed.

Theorem impl_ser_ok d l :
  check_impl d = true -> List.length l = List.length (d_fields d) ->
  impl_ser d l = ser (TStruct (map snd (d_fields d))) (VStruct l).
Proof.
  intros Hc Hlen. destruct (check_impl_parts d Hc) as (Hnd & Hser & _).
  unfold impl_ser. rewrite Hser, ser_struct.
  rewrite (flat_map_via_map (fun n => lookup n (combine (d_fields d) l)) ser_of).
  rewrite lookup_names by assumption.
  apply ser_of_fields. now rewrite map_length.
Qed.

(* --- deserialize --- *)
Lemma read_seq_list : forall fs bs,
  read_seq fs bs =
  match deser_list (map snd fs) bs with
  | None => None
  | Some (vs, r) => Some (combine fs vs, r)
  end.
Proof.
  induction fs as [|[n t] fs IH]; intro bs; cbn [read_seq map snd deser_list]; [reflexivity|].
  destruct (deser t bs) as [[v bs']|]; [|reflexivity]. rewrite IH.
  destruct (deser_list (map snd fs) bs') as [[vs r]|]; reflexivity.
Qed.

Lemma build_ok ctor binds : forall names vs,
  forallb (fun n => str_mem n ctor) names = true ->
  map (fun n => lookup n binds) names = map Some vs ->
  build names ctor binds = Some (map snd vs).
Proof.
  induction names as [|n names IH]; intros vs Hm Hl; destruct vs as [|[t v] vs];
    try discriminate Hl; [reflexivity|].
  cbn [forallb] in Hm. apply andb_true_iff in Hm. destruct Hm as [Hn Hm].
  cbn [map] in Hl. injection Hl as Hl1 Hl2.
  cbn [build]. rewrite Hn, Hl1, (IH vs Hm Hl2). reflexivity.
Qed.

Lemma map_snd_combine {A B} : forall (a : list A) (b : list B),
  List.length b = List.length a -> map snd (combine a b) = b.
Proof.
  induction a as [|x a IH]; intros b H; destruct b as [|y b]; try discriminate H;
    [reflexivity|].
  cbn [combine map snd]. f_equal. apply IH. cbn [List.length] in H. lia.
Qed.

Theorem impl_deser_ok d bs :
  check_impl d = true ->
  impl_deser d bs = deser (TStruct (map snd (d_fields d))) bs.
Proof.
  intros Hc. destruct (check_impl_parts d Hc) as (Hnd & _ & Hde & Hct & _).
  unfold impl_deser. rewrite Hde, read_seq_list, deser_struct_list.
  destruct (deser_list (map snd (d_fields d)) bs) as [[vs r]|] eqn:E; [|reflexivity].
  pose proof (deser_list_length _ _ _ _ E) as Hlen. rewrite map_length in Hlen.
  rewrite (build_ok (d_ctor d) (combine (d_fields d) vs) (map fst (d_fields d))
             (combine (map snd (d_fields d)) vs) Hct).
  - rewrite map_snd_combine by now rewrite map_length. reflexivity.
  - now apply lookup_names.
Qed.

(* --- size --- *)
Section Size.
  Variable e : env.

  Definition szsum (rem : list (string * ty)) : N :=
    fold_right (fun f acc => size_of_opt (lookup (fst f) e) + acc) 0 rem.
  (* the uncovered fields are fields of the environment, with their declared types *)
  Definition consistent (rem : list (string * ty)) : Prop :=
    Forall (fun f => exists v, lookup (fst f) e = Some (snd f, v)) rem.

  Lemma remove_name_sum f : forall rem rem',
    remove_name f rem = Some rem' ->
    szsum rem = size_of_opt (lookup f e) + szsum rem' /\ (consistent rem -> consistent rem').
  Proof.
    induction rem as [|[n t] rem IH]; intros rem' H; cbn [remove_name] in H; [discriminate H|].
    destruct (String.eqb_spec f n) as [->|Hne].
    - injection H as <-. split; [reflexivity|]. intro Hc. now inversion Hc.
    - destruct (remove_name f rem) as [r|]; [|discriminate H]. injection H as <-.
      destruct (IH r eq_refl) as [IH1 IH2]. split.
      + cbn [szsum fold_right fst] in *. fold (szsum rem). fold (szsum r). rewrite IH1. lia.
      + intro Hc. inversion Hc as [|x y Hx Hy]; subst. constructor; [exact Hx | now apply IH2].
  Qed.

  Lemma fixed_size_any t m v : fixed_size t = Some m -> size t v = m.
  Proof. destruct t; intro H; try discriminate H; injection H as <-; reflexivity. Qed.

  Lemma remove_prim_sum t m : fixed_size t = Some m -> forall rem k rem',
    consistent rem -> remove_prim t k rem = Some rem' ->
    szsum rem = k * m + szsum rem' /\ consistent rem'.
  Proof.
    intro Hf. induction rem as [|[n t'] rem IH]; intros k rem' Hc H; cbn [remove_prim] in H.
    - destruct (N.eqb_spec k 0) as [->|Hk]; [|discriminate H]. injection H as <-.
      split; [reflexivity | constructor].
    - inversion Hc as [|x y Hx Hy]; subst. cbn [fst snd] in Hx. destruct Hx as [v Hv].
      destruct (negb (k =? 0) && ty_eqb t t') eqn:Eb.
      + apply andb_true_iff in Eb. destruct Eb as [Hk Et]. apply ty_eqb_eq in Et. subst t'.
        apply negb_true_iff in Hk. apply N.eqb_neq in Hk.
        destruct (IH (k - 1) rem' Hy H) as [IH1 IH2]. split; [|exact IH2].
        cbn [szsum fold_right fst]. fold (szsum rem). rewrite IH1, Hv.
        cbn [size_of_opt]. rewrite (fixed_size_any t m v Hf). nia.
      + destruct (remove_prim t k rem) as [r|] eqn:Er; [|discriminate H]. injection H as <-.
        destruct (IH k r Hy Er) as [IH1 IH2]. split.
        * cbn [szsum fold_right fst]. fold (szsum rem). fold (szsum r). rewrite IH1. lia.
        * constructor; [cbn [fst snd]; now exists v | exact IH2].
  Qed.

  Lemma consume_sum : forall terms rem,
    consistent rem -> consume terms rem = true ->
    fold_right (fun s acc => term_size e s + acc) 0 terms = szsum rem.
  Proof.
    induction terms as [|s terms IH]; intros rem Hc H; cbn [consume] in H.
    - destruct rem; [reflexivity | discriminate H].
    - destruct s as [f|t k]; cbn [fold_right term_size].
      + destruct (remove_name f rem) as [r|] eqn:Er; [|discriminate H].
        destruct (remove_name_sum f rem r Er) as [E1 E2].
        rewrite (IH r (E2 Hc) H), E1. reflexivity.
      + apply andb_true_iff in H. destruct H as [Hp H].
        destruct (remove_prim t k rem) as [r|] eqn:Er; [|discriminate H].
        destruct (fixed_size t) as [m|] eqn:Ef; [|destruct t; discriminate].
        destruct (remove_prim_sum t m Ef rem k r Hc Er) as [E1 E2].
        rewrite (IH r E2 H), E1. reflexivity.
  Qed.
End Size.

Lemma size_of_fields : forall tys l,
  List.length l = List.length tys ->
  fold_right (fun o acc => size_of_opt o + acc) 0 (map Some (combine tys l)) = size_fields tys l.
Proof.
  induction tys as [|t tys IH]; intros l H; destruct l as [|v l]; try discriminate H;
    [reflexivity|].
  cbn [combine map fold_right size_fields size_of_opt]. rewrite IH; [reflexivity|].
  cbn [List.length] in H. lia.
Qed.

Lemma fold_right_via_map {A B} (g : A -> B) (h : B -> N) l :
  fold_right (fun x acc => h (g x) + acc) 0 l = fold_right (fun o acc => h o + acc) 0 (map g l).
Proof. induction l as [|x l IH]; cbn [fold_right map]; [reflexivity | now rewrite IH]. Qed.

Lemma lookup_consistent : forall (fs : list (string * ty)) (l : list val),
  str_nodup (map fst fs) = true -> List.length l = List.length fs ->
  consistent (combine fs l) fs.
Proof.
  intros fs l Hnd Hlen. pose proof (lookup_names fs l Hnd Hlen) as H.
  clear Hnd. unfold consistent. revert H. generalize (combine fs l) as e. revert l Hlen.
  induction fs as [|[n t] fs IH]; intros l Hlen e H; [constructor|].
  destruct l as [|v l]; [discriminate Hlen|].
  cbn [map fst snd combine] in H. injection H as H1 H2. constructor.
  - cbn [fst snd]. now exists v.
  - apply (IH l); [cbn [List.length] in Hlen; lia | exact H2].
Qed.

Theorem impl_size_ok d l :
  check_impl d = true -> List.length l = List.length (d_fields d) ->
  impl_size d l = size (TStruct (map snd (d_fields d))) (VStruct l).
Proof.
  intros Hc Hlen. destruct (check_impl_parts d Hc) as (Hnd & _ & _ & _ & Hcons).
  unfold impl_size. rewrite size_struct.
  rewrite (consume_sum _ (d_size d) (d_fields d)); [ | now apply lookup_consistent | exact Hcons].
  unfold szsum.
  rewrite (fold_right_via_map (fun f => lookup (fst f) (combine (d_fields d) l)) size_of_opt).
  rewrite <- (map_map fst (fun n => lookup n (combine (d_fields d) l))).
  rewrite lookup_names by assumption. apply size_of_fields. now rewrite map_length.
Qed.

(* ------------------------------------------------------------------------------------------ *)
(* the generated descriptions pass                                                                *)
(* ------------------------------------------------------------------------------------------ *)
Theorem all_impls_ok : forallb check_impl all_impls = true.
Proof. vm_compute. reflexivity. Qed.

Theorem generic_facts_ok : forallb (fun b => b) generic_facts = true.
Proof. vm_compute. reflexivity. Qed.

(* the derived ty_X is the struct of the declared field types, for every impl *)
Definition impl_tys : list (ty * impl_desc) :=
  [(ty_BitVector, impl_BitVector); (ty_Rank9SelIndex, impl_Rank9SelIndex);
   (ty_Rank9Sel, impl_Rank9Sel); (ty_DArrayIndex, impl_DArrayIndex); (ty_DArray, impl_DArray);
   (ty_EliasFano, impl_EliasFano); (ty_SArray, impl_SArray);
   (ty_CompactVector, impl_CompactVector); (ty_DacsByte, impl_DacsByte);
   (ty_DacsOpt, impl_DacsOpt); (ty_PrefixSummedEliasFano, impl_PrefixSummedEliasFano);
   (ty_WaveletMatrix_Rank9Sel, impl_WaveletMatrix_Rank9Sel);
   (ty_WaveletMatrix_DArray, impl_WaveletMatrix_DArray);
   (ty_WaveletMatrix_BitVector, impl_WaveletMatrix_BitVector)].

Theorem impl_tys_cover : map snd impl_tys = all_impls.
Proof. reflexivity. Qed.
Theorem impl_tys_ok :
  forallb (fun p => ty_eqb (fst p) (TStruct (map snd (d_fields (snd p))))) impl_tys = true.
Proof. vm_compute. reflexivity. Qed.
Theorem impl_tys_vec_ok : forallb (fun p => vec_ok (fst p)) impl_tys = true.
Proof. vm_compute. reflexivity. Qed.

(* consequences for every generated impl: the hand-written code is the generic struct codec *)
Corollary impl_in_all d : In d all_impls -> check_impl d = true.
Proof. intro H. exact (proj1 (forallb_forall check_impl all_impls) all_impls_ok d H). Qed.

Corollary all_impls_codec d : In d all_impls ->
  let t := TStruct (map snd (d_fields d)) in
  (forall l, List.length l = List.length (d_fields d) -> impl_ser d l = ser t (VStruct l)) /\
  (forall bs, impl_deser d bs = deser t bs) /\
  (forall l, List.length l = List.length (d_fields d) -> impl_size d l = size t (VStruct l)).
Proof.
  intros H t. pose proof (impl_in_all d H) as Hc. repeat split; intros.
  - now apply impl_ser_ok.
  - now apply impl_deser_ok.
  - now apply impl_size_ok.
Qed.


(* the checker is not vacuous: it rejects a swapped write order, a missing, a duplicated and a
   superfluous size term, and a read of the wrong type *)
Example check_rejects_swapped_ser :
  check_impl {| d_name := d_name impl_BitVector; d_fields := d_fields impl_BitVector;
                d_ser := ["len"; "words"]%string; d_deser := d_deser impl_BitVector;
                d_ctor := d_ctor impl_BitVector; d_size := d_size impl_BitVector |} = false.
Proof. vm_compute. reflexivity. Qed.
Example check_rejects_missing_size :
  check_impl {| d_name := d_name impl_BitVector; d_fields := d_fields impl_BitVector;
                d_ser := d_ser impl_BitVector; d_deser := d_deser impl_BitVector;
                d_ctor := d_ctor impl_BitVector; d_size := [SzField "words"%string] |} = false.
Proof. vm_compute. reflexivity. Qed.
Example check_rejects_duplicate_size :
  check_impl {| d_name := d_name impl_BitVector; d_fields := d_fields impl_BitVector;
                d_ser := d_ser impl_BitVector; d_deser := d_deser impl_BitVector;
                d_ctor := d_ctor impl_BitVector;
                d_size := [SzField "words"; SzField "words"; SzPrim TU64 1]%string |} = false.
Proof. vm_compute. reflexivity. Qed.
Example check_rejects_extra_prim :
  check_impl {| d_name := d_name impl_BitVector; d_fields := d_fields impl_BitVector;
                d_ser := d_ser impl_BitVector; d_deser := d_deser impl_BitVector;
                d_ctor := d_ctor impl_BitVector;
                d_size := [SzField "words"%string; SzPrim TU64 2] |} = false.
Proof. vm_compute. reflexivity. Qed.
Example check_rejects_wrong_read_type :
  check_impl {| d_name := d_name impl_BitVector; d_fields := d_fields impl_BitVector;
                d_ser := d_ser impl_BitVector;
                d_deser := [("words", TVec TU64); ("len", TU16)]%string;
                d_ctor := d_ctor impl_BitVector; d_size := d_size impl_BitVector |} = false.
Proof. vm_compute. reflexivity. Qed.

(* ------------------------------------------------------------------------------------------ *)
(* vec_ok for every generated type                                                                *)
(* ------------------------------------------------------------------------------------------ *)
Lemma vec_ok_BitVector : vec_ok ty_BitVector = true. Proof. vm_compute. reflexivity. Qed.
Lemma vec_ok_Rank9SelIndex : vec_ok ty_Rank9SelIndex = true. Proof. vm_compute. reflexivity. Qed.
Lemma vec_ok_Rank9Sel : vec_ok ty_Rank9Sel = true. Proof. vm_compute. reflexivity. Qed.
Lemma vec_ok_DArrayIndex : vec_ok ty_DArrayIndex = true. Proof. vm_compute. reflexivity. Qed.
Lemma vec_ok_DArray : vec_ok ty_DArray = true. Proof. vm_compute. reflexivity. Qed.
Lemma vec_ok_EliasFano : vec_ok ty_EliasFano = true. Proof. vm_compute. reflexivity. Qed.
Lemma vec_ok_SArray : vec_ok ty_SArray = true. Proof. vm_compute. reflexivity. Qed.
Lemma vec_ok_CompactVector : vec_ok ty_CompactVector = true. Proof. vm_compute. reflexivity. Qed.
Lemma vec_ok_DacsByte : vec_ok ty_DacsByte = true. Proof. vm_compute. reflexivity. Qed.
Lemma vec_ok_DacsOpt : vec_ok ty_DacsOpt = true. Proof. vm_compute. reflexivity. Qed.
Lemma vec_ok_PrefixSummedEliasFano : vec_ok ty_PrefixSummedEliasFano = true.
Proof. vm_compute. reflexivity. Qed.
Lemma vec_ok_WaveletMatrix_Rank9Sel : vec_ok ty_WaveletMatrix_Rank9Sel = true.
Proof. vm_compute. reflexivity. Qed.
Lemma vec_ok_WaveletMatrix_DArray : vec_ok ty_WaveletMatrix_DArray = true.
Proof. vm_compute. reflexivity. Qed.
Lemma vec_ok_WaveletMatrix_BitVector : vec_ok ty_WaveletMatrix_BitVector = true.
Proof. vm_compute. reflexivity. Qed.

(* ------------------------------------------------------------------------------------------ *)
(* well-formedness of the model values: `wf_val ty_X (v_X x)` as an explicit boolean condition    *)
(* on the numbers stored in x (all below W, lengths below W, u16/u8/isize payloads in range)       *)
(* ------------------------------------------------------------------------------------------ *)
Lemma forallb_map' {A B} (p : B -> bool) (f : A -> B) l :
  forallb p (map f l) = forallb (fun x => p (f x)) l.
Proof. induction l as [|x l IH]; cbn [map forallb]; [reflexivity | now rewrite IH]. Qed.
Lemma forallb_ext' {A} (p q : A -> bool) l : (forall x, p x = q x) -> forallb p l = forallb q l.
Proof. intro H. induction l as [|x l IH]; cbn [forallb]; [reflexivity | now rewrite H, IH]. Qed.
Lemma lenN_map {A B} (f : A -> B) l : lenN (map f l) = lenN l.
Proof. unfold lenN. now rewrite map_length. Qed.

Definition vec_by {A} (p : A -> bool) (l : list A) : bool := (lenN l <? W) && forallb p l.
Definition opt_by {A} (p : A -> bool) (o : option A) : bool :=
  match o with Some x => p x | None => true end.

Lemma wf_vec_map {A} t (f : A -> val) (p : A -> bool) l :
  (forall x, wf_val t (f x) = p x) -> wf_val (TVec t) (VVec (map f l)) = vec_by p l.
Proof.
  intro H. rewrite wf_vec, lenN_map, forallb_map'. unfold vec_by. f_equal.
  now apply forallb_ext'.
Qed.
Lemma wf_opt_map {A} t (f : A -> val) (p : A -> bool) o :
  (forall x, wf_val t (f x) = p x) -> wf_val (TOpt t) (VOpt (option_map f o)) = opt_by p o.
Proof. intro H. destruct o as [x|]; cbn [option_map wf_val opt_by]; [apply H | reflexivity]. Qed.

Definition u64_ok (n : N) : bool := n <? W.
Definition u16_ok (n : N) : bool := n <? 65536.
Definition u8_ok (n : N) : bool := n <? 256.
Definition i64_ok (z : Z) : bool := ((-9223372036854775808 <=? z) && (z <? 9223372036854775808))%Z.
Definition nums_ok : list N -> bool := vec_by u64_ok.

Lemma wf_v_nums l : wf_val (TVec TU64) (v_nums l) = nums_ok l.
Proof. apply wf_vec_map. reflexivity. Qed.
Lemma wf_v_optnums o : wf_val (TOpt (TVec TU64)) (v_optnums o) = opt_by nums_ok o.
Proof. apply wf_opt_map. exact wf_v_nums. Qed.

Definition bitvec_ok (b : bitvec) : bool := nums_ok (bv_words b) && u64_ok (bv_len b).
Definition r9index_ok (r : r9index) : bool :=
  u64_ok (r_len r) && (nums_ok (r_brp r) && (opt_by nums_ok (r_h1 r) && opt_by nums_ok (r_h0 r))).
Definition r9sel_ok (x : r9sel) : bool := bitvec_ok (r9_bv x) && r9index_ok (r9_rs x).
Definition compvec_ok (v : compvec) : bool :=
  bitvec_ok (cv_chunks v) && (u64_ok (cv_len v) && u64_ok (cv_width v)).
Definition daindex_ok (d : daindex) : bool :=
  vec_by i64_ok (d_block_inv d) && (vec_by u16_ok (d_sub_inv d) &&
  (nums_ok (d_overflow d) && u64_ok (d_num_positions d))).
Definition darray_ok (d : darray) : bool :=
  bitvec_ok (da_bv d) && (daindex_ok (da_s1 d) &&
  (opt_by daindex_ok (da_s0 d) && opt_by r9index_ok (da_r9 d))).
Definition ef_ok (e : eliasfano) : bool :=
  darray_ok (ef_high e) && (bitvec_ok (ef_low e) && (u64_ok (ef_low_len e) && u64_ok (ef_universe e))).
Definition sarray_ok (s : sarray) : bool :=
  opt_by ef_ok (sa_ef s) && (u64_ok (sa_num_bits s) && u64_ok (sa_num_ones s)).
Definition dacsbyte_ok (d : dacsbyte) : bool :=
  vec_by (vec_by u8_ok) (db_data d) && vec_by r9sel_ok (db_flags d).
Definition dacsopt_ok (d : dacsopt) : bool :=
  vec_by compvec_ok (do_data d) && vec_by r9sel_ok (do_flags d).
Definition psef_ok (p : psef) : bool := ef_ok (ps_ef p).

Ltac wf_struct_tac :=
  rewrite wf_struct; cbn [wf_fields]; rewrite ?andb_true_r.

Theorem wf_bitvec b : wf_val ty_BitVector (v_bitvec b) = bitvec_ok b.
Proof. unfold ty_BitVector, v_bitvec. wf_struct_tac. now rewrite wf_v_nums. Qed.

Theorem wf_r9index r : wf_val ty_Rank9SelIndex (v_r9index r) = r9index_ok r.
Proof.
  unfold ty_Rank9SelIndex, v_r9index. wf_struct_tac. now rewrite wf_v_nums, !wf_v_optnums.
Qed.

Theorem wf_r9sel x : wf_val ty_Rank9Sel (v_r9sel x) = r9sel_ok x.
Proof. unfold ty_Rank9Sel at 1, v_r9sel. wf_struct_tac. now rewrite wf_bitvec, wf_r9index. Qed.

Theorem wf_compvec v : wf_val ty_CompactVector (v_compvec v) = compvec_ok v.
Proof. unfold ty_CompactVector at 1, v_compvec. wf_struct_tac. now rewrite wf_bitvec. Qed.

Theorem wf_daindex d : wf_val ty_DArrayIndex (v_daindex d) = daindex_ok d.
Proof.
  unfold ty_DArrayIndex, v_daindex. wf_struct_tac.
  rewrite (wf_vec_map TI64 VInt i64_ok) by reflexivity.
  unfold v_nums at 1. rewrite (wf_vec_map TU16 VNum u16_ok) by reflexivity.
  now rewrite wf_v_nums.
Qed.

Theorem wf_darray d : wf_val ty_DArray (v_darray d) = darray_ok d.
Proof.
  unfold ty_DArray at 1, v_darray. wf_struct_tac.
  rewrite wf_bitvec, wf_daindex.
  rewrite (wf_opt_map ty_DArrayIndex v_daindex daindex_ok) by exact wf_daindex.
  now rewrite (wf_opt_map ty_Rank9SelIndex v_r9index r9index_ok) by exact wf_r9index.
Qed.

Theorem wf_ef e : wf_val ty_EliasFano (v_ef e) = ef_ok e.
Proof. unfold ty_EliasFano at 1, v_ef. wf_struct_tac. now rewrite wf_darray, wf_bitvec. Qed.

Theorem wf_sarray s : wf_val ty_SArray (v_sarray s) = sarray_ok s.
Proof.
  unfold ty_SArray at 1, v_sarray. wf_struct_tac.
  now rewrite (wf_opt_map ty_EliasFano v_ef ef_ok) by exact wf_ef.
Qed.

Theorem wf_dacsbyte d : wf_val ty_DacsByte (v_dacsbyte d) = dacsbyte_ok d.
Proof.
  unfold ty_DacsByte at 1, v_dacsbyte. wf_struct_tac.
  rewrite (wf_vec_map (TVec TU8) v_nums (vec_by u8_ok)).
  - now rewrite (wf_vec_map ty_Rank9Sel v_r9sel r9sel_ok) by exact wf_r9sel.
  - intro l. apply wf_vec_map. reflexivity.
Qed.

Theorem wf_dacsopt d : wf_val ty_DacsOpt (v_dacsopt d) = dacsopt_ok d.
Proof.
  unfold ty_DacsOpt at 1, v_dacsopt. wf_struct_tac.
  rewrite (wf_vec_map ty_CompactVector v_compvec compvec_ok) by exact wf_compvec.
  now rewrite (wf_vec_map ty_Rank9Sel v_r9sel r9sel_ok) by exact wf_r9sel.
Qed.

Theorem wf_psef p : wf_val ty_PrefixSummedEliasFano (v_psef p) = psef_ok p.
Proof. unfold ty_PrefixSummedEliasFano at 1, v_psef. wf_struct_tac. now rewrite wf_ef. Qed.

(* WaveletMatrix<B>: all layers must be of the backing type B *)
Definition as_r9 (b : backing) : bool := match b with BRank9 x => r9sel_ok x | _ => false end.
Definition as_da (b : backing) : bool := match b with BDArray x => darray_ok x | _ => false end.
Definition as_bv (b : backing) : bool := match b with BBitVec x => bitvec_ok x | _ => false end.

Definition wavelet_ok (p : backing -> bool) (w : wavelet) : bool :=
  vec_by p (wm_layers w) && u64_ok (wm_alph_size w).

Theorem wf_wavelet_r9 w :
  forallb (fun b => match b with BRank9 _ => true | _ => false end) (wm_layers w) = true ->
  wf_val ty_WaveletMatrix_Rank9Sel (v_wavelet w) = wavelet_ok as_r9 w.
Proof.
  intro Hk. unfold ty_WaveletMatrix_Rank9Sel, v_wavelet, wavelet_ok. wf_struct_tac. f_equal.
  rewrite wf_vec, lenN_map, forallb_map'. unfold vec_by. f_equal.
  induction (wm_layers w) as [|b l IH]; [reflexivity|].
  cbn [forallb] in *. apply andb_true_iff in Hk. destruct Hk as [Hb Hl].
  rewrite (IH Hl). f_equal. destruct b; try discriminate Hb. apply wf_r9sel.
Qed.
Theorem wf_wavelet_da w :
  forallb (fun b => match b with BDArray _ => true | _ => false end) (wm_layers w) = true ->
  wf_val ty_WaveletMatrix_DArray (v_wavelet w) = wavelet_ok as_da w.
Proof.
  intro Hk. unfold ty_WaveletMatrix_DArray, v_wavelet, wavelet_ok. wf_struct_tac. f_equal.
  rewrite wf_vec, lenN_map, forallb_map'. unfold vec_by. f_equal.
  induction (wm_layers w) as [|b l IH]; [reflexivity|].
  cbn [forallb] in *. apply andb_true_iff in Hk. destruct Hk as [Hb Hl].
  rewrite (IH Hl). f_equal. destruct b; try discriminate Hb. apply wf_darray.
Qed.
Theorem wf_wavelet_bv w :
  forallb (fun b => match b with BBitVec _ => true | _ => false end) (wm_layers w) = true ->
  wf_val ty_WaveletMatrix_BitVector (v_wavelet w) = wavelet_ok as_bv w.
Proof.
  intro Hk. unfold ty_WaveletMatrix_BitVector, v_wavelet, wavelet_ok. wf_struct_tac. f_equal.
  rewrite wf_vec, lenN_map, forallb_map'. unfold vec_by. f_equal.
  induction (wm_layers w) as [|b l IH]; [reflexivity|].
  cbn [forallb] in *. apply andb_true_iff in Hk. destruct Hk as [Hb Hl].
  rewrite (IH Hl). f_equal. destruct b; try discriminate Hb. apply wf_bitvec.
Qed.

(* Prop-level readings of the main conditions *)
Lemma nums_ok_iff l : nums_ok l = true <-> lenN l < W /\ Forall (fun w => w < W) l.
Proof.
  unfold nums_ok, vec_by, u64_ok. rewrite andb_true_iff, N.ltb_lt, forallb_forall, Forall_forall.
  split; intros [H1 H2]; split; try exact H1; intros x Hx; apply N.ltb_lt; now apply H2.
Qed.

Theorem wf_bitvec_intro b :
  Forall (fun w => w < W) (bv_words b) -> lenN (bv_words b) < W -> bv_len b < W ->
  wf_val ty_BitVector (v_bitvec b) = true.
Proof.
  intros Hw Hl Hn. rewrite wf_bitvec. unfold bitvec_ok. apply andb_true_iff. split.
  - apply nums_ok_iff. now split.
  - now apply N.ltb_lt.
Qed.

Definition opt_nums_P (o : option (list N)) : Prop :=
  match o with Some l => lenN l < W /\ Forall (fun w => w < W) l | None => True end.
Lemma opt_nums_iff o : opt_by nums_ok o = true <-> opt_nums_P o.
Proof. destruct o as [l|]; cbn [opt_by opt_nums_P]; [apply nums_ok_iff | tauto]. Qed.

Theorem wf_r9index_intro r :
  r_len r < W -> lenN (r_brp r) < W -> Forall (fun w => w < W) (r_brp r) ->
  opt_nums_P (r_h1 r) -> opt_nums_P (r_h0 r) ->
  wf_val ty_Rank9SelIndex (v_r9index r) = true.
Proof.
  intros H1 H2 H3 H4 H5. rewrite wf_r9index. unfold r9index_ok.
  assert (E1 : u64_ok (r_len r) = true) by now apply N.ltb_lt.
  assert (E2 : nums_ok (r_brp r) = true) by (apply nums_ok_iff; now split).
  apply opt_nums_iff in H4, H5. now rewrite E1, E2, H4, H5.
Qed.

Theorem wf_r9sel_intro x :
  wf_val ty_BitVector (v_bitvec (r9_bv x)) = true ->
  wf_val ty_Rank9SelIndex (v_r9index (r9_rs x)) = true ->
  wf_val ty_Rank9Sel (v_r9sel x) = true.
Proof.
  intros H1 H2. rewrite wf_r9sel. unfold r9sel_ok. rewrite <- wf_bitvec, <- wf_r9index.
  now rewrite H1, H2.
Qed.

Theorem wf_compvec_intro v :
  wf_val ty_BitVector (v_bitvec (cv_chunks v)) = true -> cv_len v < W -> cv_width v < W ->
  wf_val ty_CompactVector (v_compvec v) = true.
Proof.
  intros H1 H2 H3. rewrite wf_compvec. unfold compvec_ok, u64_ok. rewrite <- wf_bitvec, H1.
  apply N.ltb_lt in H2, H3. now rewrite H2, H3.
Qed.

(* the whole chain for one structure: hand-written impl = generic codec, and it round-trips *)
Corollary bitvec_roundtrip b rest :
  bitvec_ok b = true ->
  impl_deser impl_BitVector
    (impl_ser impl_BitVector [v_nums (bv_words b); VNum (bv_len b)] ++ rest)
  = Some (v_bitvec b, rest).
Proof.
  intro H. rewrite impl_deser_ok, impl_ser_ok by (vm_compute; reflexivity).
  apply (ser_deser ty_BitVector (v_bitvec b) rest vec_ok_BitVector). now rewrite wf_bitvec.
Qed.

Print Assumptions all_impls_codec.
Print Assumptions all_impls_ok.
Print Assumptions generic_facts_ok.
Print Assumptions wf_wavelet_r9.
Print Assumptions wf_dacsopt.
Print Assumptions wf_sarray.
Print Assumptions bitvec_roundtrip.
