(* Proofs/SizeBV.v — property C19 for the plain structures: a BitVector of u bits and a
   CompactVector of len integers of width w occupy, in bits (B = 8 * size_in_bytes()),
   at most the payload rounded up to a multiple of 64, plus 256.  The exact values are
   round64 u + 128 and round64 (len * w) + 256. *)
From Sucds Require Import Base.Res Spec.FormatSpec gen.SerialGen Model.BitVector Model.CompactVector
  Model.Serial Proofs.ResLemmas Proofs.BVAbs Proofs.BVReads Proofs.CVRep Proofs.SizeForms.
From Coq Require Import ZArith ZifyN ZifyBool ZifyNat Lia.
Ltac Zify.zify_post_hook ::= Z.div_mod_to_equations.
Open Scope N_scope.

(* the payload rounded up to whole words (same definition as Extract/Dispatch.v `round64`) *)
Definition round64 (b : N) : N := ((b + 63) / 64) * 64.

Lemma round64_ge b : b <= round64 b.
Proof. unfold round64. lia. Qed.
Lemma round64_lt b : round64 b < b + 64.
Proof. unfold round64. lia. Qed.

(* exact size *)
Lemma bitvec_bits_exact bv : wf bv -> 8 * sz_bitvec bv = round64 (bv_len bv) + 128.
Proof. intro H. unfold sz_bitvec, round64. rewrite (wf_nwords bv H). lia. Qed.

Theorem size_bitvector_bound bv : wf bv ->
  8 * size ty_BitVector (v_bitvec bv) <= round64 (bv_len bv) + 256.
Proof. intro H. rewrite size_bitvec, (bitvec_bits_exact bv H). lia. Qed.

Lemma compvec_bits_exact v xs : cv_inv v xs ->
  8 * sz_compvec v = round64 (cv_len v * cv_width v) + 256.
Proof.
  intro H. pose proof (cv_inv_bvlen v xs H) as Hl. destruct H as (Hwf & Hlen & _).
  unfold sz_compvec. rewrite N.mul_add_distr_l, (bitvec_bits_exact _ Hwf), Hl, Hlen. lia.
Qed.

Theorem size_compactvector_bound v xs : cv_inv v xs ->
  8 * size ty_CompactVector (v_compvec v) <= round64 (cv_len v * cv_width v) + 256.
Proof. intro H. rewrite size_compvec, (compvec_bits_exact v xs H). lia. Qed.

Print Assumptions size_bitvector_bound.
Print Assumptions size_compactvector_bound.
