(* Proofs/DP_Walk.v — the monadic model of DacsOpt::compute_opt_widths computes the pure tables
   of DP_Opt.v without panicking, the reconstruction walk yields exactly num_levels widths, and
   the result is admissible and of minimum cost (C18; the no-panic / level-limit part of C10). *)
From Sucds Require Import Base.Res Spec.WordSpec Spec.DacSpec Model.CompactVector Model.Dacs
  Proofs.ResLemmas Proofs.DP_Hist Proofs.DP_Opt.
From Coq Require Import ZArith ZifyN ZifyBool ZifyNat Lia.
Ltac Zify.zify_post_hook ::= Z.div_mod_to_equations.
Open Scope N_scope.

(* The part of compute_opt_widths after the histogram and its debug assertions. *)
Definition cow_tail (c : cfg) (num_bits max_levels : N) (nums : list N) : res (list N) :=
  col0 <- fold_res (fun acc j => d <- sub c num_bits j ;; nj <- idx 0 nums j ;; s <- mul c d nj ;;
                                 Ok (fst acc ++ [s], snd acc ++ [d])) (nseq num_bits) ([], []) ;;
  ml1 <- sub c max_levels 1 ;;
  tabs <- dp_columns c (N.to_nat ml1) num_bits nums [fst col0 ++ [0]] [snd col0 ++ [0]] ;;
  let cols_s := fst tabs in
  let cols_b := snd tabs in
  first <- idx [] cols_s 0 ;; best0 <- idx 0 first 0 ;;
  mi <- fold_res (fun (bm : N * N) r => col <- idx [] cols_s r ;; v <- idx 0 col 0 ;;
                    if v <? fst bm then Ok (v, r) else Ok bm)
          (map (fun r => r + 1) (nseq ml1)) (best0, 0) ;;
  num_levels <- add c (snd mi) 1 ;;
  w <- walk_widths c 66 num_bits num_levels cols_b 0 0 (repeat 0 (N.to_nat num_levels)) ;;
  let '(j, r, widths) := w in
  _ <- assert_ (j =? num_bits) ;;
  _ <- assert_ (r =? num_levels) ;;
  s <- fold_res (fun a x => add c a x) widths 0 ;;
  _ <- assert_ (s =? num_bits) ;;
  Ok widths.

Lemma cow_unfold c vals max_levels :
  compute_opt_widths c vals max_levels =
  (_ <- assert_ (negb (lenN vals =? 0)) ;;
   _ <- assert_ (negb (max_levels =? 0)) ;;
   num_bits <- needed_bits c (max_list vals) ;;
   nums <- nums_ints c num_bits vals ;;
   n0 <- idx 0 nums 0 ;;
   _ <- dassert c (n0 =? lenN vals) ;;
   nl <- unwrap (last_opt nums) ;;
   _ <- dassert c (nl =? 0) ;;
   cow_tail c num_bits (N.min max_levels num_bits) nums).
Proof. reflexivity. Qed.

Lemma lenN_map_seq {A} (g : nat -> A) m : lenN (map g (seq 0 m)) = N.of_nat m.
Proof. unfold lenN. rewrite map_length, seq_length. reflexivity. Qed.

Lemma nthN_map_seq {A} (g : nat -> A) m r d :
  (N.to_nat r < m)%nat -> nthN (map g (seq 0 m)) r d = g (N.to_nat r).
Proof.
  intro H. unfold nthN. rewrite nth_indep with (d' := g 0%nat) by (rewrite map_length, seq_length; lia).
  rewrite map_nth, seq_nth by lia. reflexivity.
Qed.

Lemma fold_add_ok c ws : forall a, a + sum_list ws < W ->
  fold_res (fun a x => add c a x) ws a = Ok (a + sum_list ws).
Proof.
  induction ws as [|w ws IH]; intros a H.
  - rewrite sum_list_nil, N.add_0_r. reflexivity.
  - rewrite sum_list_cons in *. cbn [fold_res]. rewrite add_ok by lia. cbn [bind].
    rewrite IH by lia. f_equal. lia.
Qed.

Lemma chain_sum B ws : forall j, chain B j ws -> j + sum_list ws = B.
Proof.
  induction ws as [|w ws IH]; intros j C; cbn [chain] in C.
  - rewrite sum_list_nil. lia.
  - destruct C as [_ C]. apply IH in C. rewrite sum_list_cons. lia.
Qed.

Lemma chain_len B ws : forall j, chain B j ws -> j + lenN ws <= B.
Proof.
  induction ws as [|w ws IH]; intros j C; cbn [chain] in C.
  - rewrite lenN_nil. lia.
  - destruct C as [Hw C]. apply IH in C. rewrite lenN_cons. lia.
Qed.

Lemma chain_pos B ws : forall j, chain B j ws -> forallb (fun w => 1 <=? w) ws = true.
Proof.
  induction ws as [|w ws IH]; intros j C; cbn [chain] in C; [reflexivity|].
  destruct C as [Hw C]. cbn [forallb]. rewrite (IH _ C). apply N.leb_le in Hw. rewrite Hw. reflexivity.
Qed.

Lemma chain_of B ws : forall j, forallb (fun w => 1 <=? w) ws = true -> j + sum_list ws = B -> chain B j ws.
Proof.
  induction ws as [|w ws IH]; intros j P S.
  - rewrite sum_list_nil in S. cbn [chain]. lia.
  - cbn [forallb] in P. apply andb_true_iff in P. destruct P as [P1 P2]. apply N.leb_le in P1.
    rewrite sum_list_cons in S. cbn [chain]. split; [exact P1|]. apply IH; [exact P2 | lia].
Qed.

Section Model.
Variable c : cfg.
Variable h : N -> N.
Variable B n : N.
Variable nums : list N.
Hypothesis HB : B <= 64.
Hypothesis HB1 : 1 <= B.
Hypothesis Hn : n < 2 ^ 56.
Hypothesis hn : forall j, h j <= n.
Hypothesis hpos : forall j, j < B -> 1 <= h j.
Hypothesis Lnums : lenN nums = B + 1.
Hypothesis Hnums : forall j, j <= B -> nthN nums j 0 = h j.

Definition col_s (r : nat) : list N := map (fun j => fst (tab h B r j)) (nseq B) ++ [0].
Definition col_b (r : nat) : list N := map (fun j => snd (tab h B r j)) (nseq B) ++ [0].

Lemma lenN_col_s r : lenN (col_s r) = B + 1.
Proof. unfold col_s. rewrite lenN_app, lenN_map, lenN_nseq. reflexivity. Qed.
Lemma lenN_col_b r : lenN (col_b r) = B + 1.
Proof. unfold col_b. rewrite lenN_app, lenN_map, lenN_nseq. reflexivity. Qed.

Lemma nthN_col_s r j : j <= B -> nthN (col_s r) j 0 = fst (tab h B r j).
Proof.
  intro Hj. unfold col_s. destruct (N.eq_dec j B) as [->|Hne].
  - rewrite nthN_app_r by (rewrite lenN_map, lenN_nseq; lia).
    rewrite lenN_map, lenN_nseq, N.sub_diag, tab_B. reflexivity.
  - rewrite nthN_app_l by (rewrite lenN_map, lenN_nseq; lia).
    apply (nthN_map_nseq (fun j => fst (tab h B r j))). lia.
Qed.
Lemma nthN_col_b r j : j <= B -> nthN (col_b r) j 0 = snd (tab h B r j).
Proof.
  intro Hj. unfold col_b. destruct (N.eq_dec j B) as [->|Hne].
  - rewrite nthN_app_r by (rewrite lenN_map, lenN_nseq; lia).
    rewrite lenN_map, lenN_nseq, N.sub_diag, tab_B. reflexivity.
  - rewrite nthN_app_l by (rewrite lenN_map, lenN_nseq; lia).
    apply (nthN_map_nseq (fun j => snd (tab h B r j))). lia.
Qed.

Lemma W130 : 130 * n < W.
Proof. unfold W. assert (2 ^ 56 = 72057594037927936) by reflexivity. lia. Qed.

Lemma tabb_range k j : j < B -> 1 <= snd (tab h B k j) <= B - j.
Proof.
  intro Hj. destruct k as [|k].
  - cbn [tab snd]. lia.
  - apply (tab_step h B n HB Hn hn hpos k j Hj).
Qed.

(* ---------------- tables ---------------- *)

Lemma dp_cell_ok r j : j < B -> dp_cell c B nums (col_s r) j = Ok (tab h B (S r) j).
Proof.
  intro Hj. unfold dp_cell.
  rewrite idx_ok by lia. cbn [bind]. rewrite sub_ok by lia. cbn [bind].
  rewrite Hnums by lia. rewrite tab_S by exact Hj. unfold cell.
  apply fold_res_pure. intros sb b Hb. apply In_map_succ_nseq in Hb.
  pose proof W130 as HW.
  pose proof (cand_bound h B n HB Hn hn hpos r j b ltac:(lia)) as Hc.
  assert (Hm : (b + 1) * h j <= 65 * n) by (apply N.mul_le_mono; [lia | apply hn]).
  rewrite add_ok by (unfold W; lia). cbn [bind].
  rewrite mul_ok by lia. cbn [bind].
  rewrite add_ok by (unfold W; lia). cbn [bind].
  rewrite idx_ok by (rewrite lenN_col_s; lia). cbn [bind].
  rewrite nthN_col_s by lia.
  rewrite add_ok by lia. cbn [bind].
  unfold cell_step.
  destruct ((b + 1) * h j + fst (tab h B r (j + b)) <=? fst sb); reflexivity.
Qed.

Lemma dp_column_ok r : dp_column c B nums (col_s r) = Ok (col_s (S r), col_b (S r)).
Proof.
  unfold dp_column.
  rewrite (fold_res_snoc_map (fun j => dp_cell c B nums (col_s r) j) (tab h B (S r)))
    by (intros j Hj; apply dp_cell_ok; apply In_nseq; exact Hj).
  cbn [bind app]. rewrite !map_map. reflexivity.
Qed.

Lemma dp_columns_ok m : forall k,
  dp_columns c m B nums (map col_s (seq 0 (S k))) (map col_b (seq 0 (S k))) =
  Ok (map col_s (seq 0 (S k + m)), map col_b (seq 0 (S k + m))).
Proof.
  induction m as [|m IH]; intro k.
  - cbn [dp_columns]. rewrite Nat.add_0_r. reflexivity.
  - cbn [dp_columns].
    assert (E : last_opt (map col_s (seq 0 (S k))) = Some (col_s k)).
    { rewrite seq_S, map_app. cbn [map Nat.add]. apply last_opt_snoc. }
    rewrite E. cbn [unwrap bind]. rewrite dp_column_ok. cbn [bind fst snd].
    replace (map col_s (seq 0 (S k)) ++ [col_s (S k)]) with (map col_s (seq 0 (S (S k))))
      by (rewrite (seq_S (S k) 0), map_app; reflexivity).
    replace (map col_b (seq 0 (S k)) ++ [col_b (S k)]) with (map col_b (seq 0 (S (S k))))
      by (rewrite (seq_S (S k) 0), map_app; reflexivity).
    rewrite IH. replace (S (S k) + m)%nat with (S k + S m)%nat by lia. reflexivity.
Qed.

Lemma col0_fold l : forall acc, (forall j, In j l -> j < B) ->
  fold_res (fun acc j => d <- sub c B j ;; nj <- idx 0 nums j ;; s <- mul c d nj ;;
                         Ok (fst acc ++ [s], snd acc ++ [d])) l acc =
  Ok (fst acc ++ map (fun j => fst (tab h B 0 j)) l, snd acc ++ map (fun j => snd (tab h B 0 j)) l).
Proof.
  induction l as [|j l IH]; intros acc Hl.
  - cbn [fold_res map]. rewrite !app_nil_r. destruct acc; reflexivity.
  - pose proof (Hl j (or_introl eq_refl)) as Hj. cbn [fold_res].
    rewrite sub_ok by lia. cbn [bind]. rewrite idx_ok by lia. cbn [bind].
    rewrite Hnums by lia.
    assert (Hm : (B - j) * h j <= 64 * n) by (apply N.mul_le_mono; [lia | apply hn]).
    pose proof W130. rewrite mul_ok by lia. cbn [bind].
    rewrite IH by (intros j' Hj'; apply Hl; right; exact Hj').
    cbn [fst snd map tab]. rewrite <- !app_assoc. reflexivity.
Qed.

(* ---------------- level choice ---------------- *)

Definition TT (r : N) : N := fst (tab h B (N.to_nat r) 0).

Lemma lev_fold m ml1 : (N.to_nat ml1 <= m)%nat ->
  fold_res (fun (bm : N * N) r => col <- idx [] (map col_s (seq 0 (S m))) r ;; v <- idx 0 col 0 ;;
              if v <? fst bm then Ok (v, r) else Ok bm)
           (map (fun r => r + 1) (nseq ml1)) (TT 0, 0) = Ok (minlev TT ml1).
Proof.
  intro Hm. unfold minlev. apply fold_res_pure. intros bm r Hr. apply In_map_succ_nseq in Hr.
  rewrite idx_ok by (rewrite lenN_map_seq; lia). cbn [bind].
  rewrite nthN_map_seq by lia.
  rewrite idx_ok by (rewrite lenN_col_s; lia). cbn [bind].
  rewrite nthN_col_s by lia. unfold lev_step. fold (TT r).
  destruct (TT r <? fst bm); reflexivity.
Qed.

(* ---------------- the walk ---------------- *)

Section Walk.
Variable L : N.
Variable cols_b : list (list N).
Hypothesis HL : L <= 64.
Hypothesis Hcols : forall k, N.of_nat k < L -> idx [] cols_b (N.of_nat k) = Ok (col_b k).

Lemma walk_done fuel r widths :
  walk_widths c (S fuel) B L cols_b B r widths = Ok (B, r, widths).
Proof. cbn [walk_widths]. rewrite N.ltb_irrefl. reflexivity. Qed.

Lemma walk_step f j r pre rest k :
  j < B -> lenN pre = r -> r + N.of_nat k + 1 = L ->
  walk_widths c (S f) B L cols_b j r (pre ++ 0 :: rest) =
  walk_widths c f B L cols_b (j + snd (tab h B k j)) (r + 1) (pre ++ snd (tab h B k j) :: rest).
Proof.
  intros Hj Hp Hr. pose proof (tabb_range k j Hj) as Hw.
  cbn [walk_widths]. rewrite (proj2 (N.ltb_lt _ _) Hj).
  rewrite assert_ok by (apply N.ltb_lt; rewrite lenN_app, lenN_cons; lia). cbn [bind].
  rewrite sub_ok by lia. cbn [bind]. rewrite sub_ok by lia. cbn [bind].
  replace (L - r - 1) with (N.of_nat k) by lia.
  rewrite Hcols by lia. cbn [bind].
  rewrite idx_ok by (rewrite lenN_col_b; lia). cbn [bind].
  rewrite nthN_col_b by lia.
  rewrite add_ok by (unfold W; lia). cbn [bind].
  rewrite add_ok by (unfold W; lia). cbn [bind].
  rewrite setN_app_cons by exact Hp. reflexivity.
Qed.

Lemma walk_ok k : forall f j r pre,
  (S k < f)%nat -> j <= B -> lenN pre = r -> r + N.of_nat k + 1 = L ->
  walk_widths c f B L cols_b j r (pre ++ repeat 0 (S k)) =
  Ok (B, r + lenN (wchain h B k j),
      pre ++ wchain h B k j ++ repeat 0 (S k - length (wchain h B k j))).
Proof.
  induction k as [|k IH]; intros f j r pre Hf Hj Hp Hr; (destruct f as [|f]; [lia|]).
  - destruct (N.eq_dec j B) as [->|Hne].
    + rewrite walk_done, wchain_B. change (lenN (@nil N)) with 0. rewrite N.add_0_r. reflexivity.
    + cbn [repeat]. rewrite (walk_step f j r pre [] 0%nat) by (assumption || lia).
      rewrite wchain_lt by lia.
      replace (j + snd (tab h B 0 j)) with B by (cbn [tab snd]; lia).
      destruct f as [|f]; [lia|]. rewrite walk_done.
      rewrite lenN_cons. change (lenN (@nil N)) with 0. rewrite N.add_0_l.
      cbn [length Nat.sub repeat app]. reflexivity.
  - destruct (N.eq_dec j B) as [->|Hne].
    + rewrite walk_done, wchain_B. change (lenN (@nil N)) with 0. rewrite N.add_0_r. reflexivity.
    + pose proof (tabb_range (S k) j ltac:(lia)) as Hw.
      change (repeat 0 (S (S k))) with (0 :: repeat 0 (S k)).
      rewrite (walk_step f j r pre (repeat 0 (S k)) (S k)) by (assumption || lia).
      rewrite wchain_lt by lia.
      set (w := snd (tab h B (S k) j)) in *.
      replace (pre ++ w :: repeat 0 (S k)) with ((pre ++ [w]) ++ repeat 0 (S k))
        by (rewrite <- app_assoc; reflexivity).
      rewrite IH; [| lia | lia | rewrite lenN_app, Hp; reflexivity | lia].
      rewrite lenN_cons, <- app_assoc. cbn [app length].
      replace (r + 1 + lenN (wchain h B k (j + w))) with (r + (lenN (wchain h B k (j + w)) + 1)) by lia.
      reflexivity.
Qed.
End Walk.

(* ---------------- assembly ---------------- *)

Theorem cow_tail_ok ML : 1 <= ML -> ML <= B ->
  exists ws, cow_tail c B ML nums = Ok ws /\ chain B 0 ws /\ 1 <= lenN ws <= ML /\
    forall ws', chain B 0 ws' -> 1 <= lenN ws' <= ML -> hcost h 0 ws <= hcost h 0 ws'.
Proof.
  intros HM1 HMB. unfold cow_tail.
  rewrite (col0_fold (nseq B) ([], [])) by (intros j Hj; apply In_nseq; exact Hj).
  cbn [bind fst snd app].
  rewrite sub_ok by exact HM1. cbn [bind].
  set (ml1 := ML - 1). set (m := N.to_nat ml1).
  change (dp_columns c m B nums [map (fun j => fst (tab h B 0 j)) (nseq B) ++ [0]]
                                [map (fun i => snd (tab h B 0 i)) (nseq B) ++ [0]])
    with (dp_columns c m B nums (map col_s (seq 0 1)) (map col_b (seq 0 1))).
  rewrite dp_columns_ok. cbn [bind fst snd]. change (1 + m)%nat with (S m).
  rewrite idx_ok by (rewrite lenN_map_seq; lia). cbn [bind].
  rewrite nthN_map_seq by (change (N.to_nat 0) with 0%nat; lia). change (N.to_nat 0) with 0%nat.
  rewrite idx_ok by (rewrite lenN_col_s; lia). cbn [bind].
  rewrite nthN_col_s by lia. change (fst (tab h B 0 0)) with (TT 0).
  rewrite lev_fold by (unfold m; lia). cbn [bind].
  destruct (minlev_spec TT ml1) as [M1 [M2 M3]].
  set (rsN := snd (minlev TT ml1)) in *. set (rs := N.to_nat rsN).
  rewrite add_ok by (unfold W; lia). cbn [bind].
  (* the pure optimality theorem *)
  assert (Hmin : forall r, (r <= m)%nat -> fst (tab h B rs 0) <= fst (tab h B r 0)).
  { intros r Hr. specialize (M3 (N.of_nat r) ltac:(unfold m in Hr; lia)).
    unfold TT in M2, M3. rewrite Nat2N.id in M3. fold rs in M2. rewrite <- M2. exact M3. }
  destruct (dp_pure_optimal h B n HB Hn hn hpos m rs HB1 ltac:(unfold rs, m; lia) Hmin)
    as [C [Len Opt]].
  set (ws := wchain h B rs 0) in *.
  (* the walk *)
  replace (N.to_nat (rsN + 1)) with (S rs) by (unfold rs; lia).
  change (repeat 0 (S rs)) with ([] ++ repeat 0 (S rs)).
  rewrite (walk_ok (rsN + 1) (map col_b (seq 0 (S m))) ltac:(lia)
             ltac:(intros k Hk; rewrite idx_ok by (rewrite lenN_map_seq; unfold m; lia);
                   rewrite nthN_map_seq by (unfold m; lia); rewrite Nat2N.id; reflexivity)
             rs 66%nat 0 0 []) by (first [reflexivity | unfold rs; lia]).
  fold ws. rewrite Len, Nat.sub_diag. cbn [repeat app]. rewrite app_nil_r. cbn [bind].
  assert (LenN : lenN ws = rsN + 1) by (unfold lenN; rewrite Len; unfold rs; lia).
  rewrite assert_ok by (apply N.eqb_refl). cbn [bind].
  rewrite assert_ok by (apply N.eqb_eq; lia). cbn [bind].
  pose proof (chain_sum B ws 0 C) as Sum.
  rewrite fold_add_ok by (unfold W; lia). cbn [bind].
  rewrite assert_ok by (apply N.eqb_eq; lia). cbn [bind].
  exists ws. split; [reflexivity|]. split; [exact C|]. split; [unfold ml1 in M1; lia|].
  intros ws' C' L'. apply Opt; [exact C'|]. unfold lenN in L'. unfold m, ml1. lia.
Qed.

End Model.

(* ------------------------------------------------------------------ *)
(* the theorem about compute_opt_widths                                 *)

Lemma hcost_reach vals ws : forall o, hcost (reach vals) o ws = cost_from vals o ws.
Proof.
  induction ws as [|w rest IH]; intro o; [reflexivity|].
  destruct rest as [|w' rest]; [reflexivity|].
  change (hcost (reach vals) o (w :: w' :: rest))
    with ((w + 1) * reach vals o + hcost (reach vals) (o + w) (w' :: rest)).
  change (cost_from vals o (w :: w' :: rest))
    with ((w + 1) * reach vals o + cost_from vals (o + w) (w' :: rest)).
  rewrite IH. reflexivity.
Qed.

Theorem compute_opt_widths_optimal : forall c vals ml,
  vals <> [] -> 1 <= ml -> ml <= 64 -> Forall (fun x => x < W) vals -> lenN vals < 2 ^ 56 ->
  exists ws, compute_opt_widths c vals ml = Ok ws /\
             admissible vals ws ml = true /\
             (forall ws', admissible vals ws' ml = true -> cost vals ws <= cost vals ws').
Proof.
  intros c vals ml Hne Hml1 Hml64 HW Hlen.
  set (B := bitlen (max_list vals)).
  pose proof (max_list_lt_W vals HW) as HmW.
  pose proof (bitlen_pos (max_list vals)) as HB1. fold B in HB1.
  pose proof (bitlen_le_64 _ HmW) as HB. fold B in HB.
  assert (Hv : forall x, In x vals -> x < W /\ bitlen x <= B).
  { intros x Hx. split; [rewrite Forall_forall in HW; apply HW, Hx|].
    apply bitlen_mono, max_list_ge, Hx. }
  assert (hpos : forall j, j < B -> 1 <= reach vals j).
  { intros j Hj. apply (reach_pos vals (max_list vals) j); [apply max_list_in, Hne | exact Hj]. }
  destruct (nums_ints_ok c B HB vals Hv Hlen) as [nums [En [Ln Nn]]].
  rewrite cow_unfold.
  rewrite assert_ok.
  2:{ apply negb_true_iff, N.eqb_neq. destruct vals; [congruence|]. rewrite lenN_cons. lia. }
  cbn [bind].
  rewrite assert_ok by (apply negb_true_iff, N.eqb_neq; lia). cbn [bind].
  rewrite needed_bits_ok by exact HmW. cbn [bind]. fold B.
  rewrite En. cbn [bind].
  rewrite idx_ok by lia. cbn [bind].
  rewrite Nn by lia. rewrite reach_0.
  rewrite dassert_ok by apply N.eqb_refl. cbn [bind].
  rewrite (last_opt_nthN nums B 0 Ln). cbn [unwrap bind].
  rewrite Nn by lia. rewrite (reach_top vals B) by (intros x Hx; apply Hv, Hx).
  rewrite dassert_ok by reflexivity. cbn [bind].
  destruct (cow_tail_ok c (reach vals) B (lenN vals) nums HB HB1 Hlen (reach_le vals) hpos Ln Nn
              (N.min ml B) ltac:(lia) ltac:(lia)) as [ws [E [C [L Opt]]]].
  exists ws. split; [exact E|].
  pose proof (chain_sum B ws 0 C) as Sum.
  split.
  - unfold admissible. fold B.
    rewrite (chain_pos B ws 0 C).
    rewrite (proj2 (N.leb_le _ _)) by lia. rewrite (proj2 (N.leb_le _ _)) by lia.
    rewrite (proj2 (N.eqb_eq _ _)) by lia. reflexivity.
  - intros ws' A. unfold admissible in A. fold B in A.
    apply andb_true_iff in A. destruct A as [A A4]. apply andb_true_iff in A. destruct A as [A A3].
    apply andb_true_iff in A. destruct A as [A1 A2].
    apply N.leb_le in A1. apply N.leb_le in A2. apply N.eqb_eq in A4.
    assert (C' : chain B 0 ws') by (apply chain_of; [exact A3 | lia]).
    pose proof (chain_len B ws' 0 C') as L'.
    unfold cost. rewrite <- !hcost_reach. apply Opt; [exact C' | lia].
Qed.
