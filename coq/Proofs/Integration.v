(* Proofs/Integration.v — discharge of the cross-layer premises.
   Several developments were proved under explicit premises about the layer below them:
     - DArray::enable_rank / build_cfg (Proofs/DAMain.v) under `r9rank_ok` (the Rank9 rank index);
     - Elias-Fano build / enable_rank (Proofs/EFBuilder.v) under DA_FROM_BITS_OK and
       DA_ENABLE_SELECT0_OK (the DArray layer);
     - the wavelet matrix (Proofs/WMBuild.v, WMQueries.v, WMQuantile.v, WMIntersect.v) under
       `b_build_ok` (the three backings).
   All of these premises are theorems of the lower layers; this file proves them in exactly the
   forms expected and derives the closed versions of every premise-carrying theorem. *)
From Sucds Require Import Base.Res Spec.WordSpec Spec.BitSpec Spec.SeqSpec Spec.DacSpec
  Model.BitVector Model.Rank9 Model.DArray Model.EliasFano Model.Wavelet
  Proofs.ResLemmas Proofs.BVAbs Proofs.BVReads Proofs.BVReads2 Proofs.IndexSpecs
  Proofs.R9Build Proofs.R9Rank Proofs.R9Main Proofs.DAMain
  Proofs.EFRep Proofs.EFQueries Proofs.EFBuilder
  Proofs.WMLists Proofs.WMBuild Proofs.WMQueries Proofs.WMQuantile Proofs.WMIntersect.
From Coq Require Import ZArith ZifyN ZifyBool ZifyNat Lia.
Ltac Zify.zify_post_hook ::= Z.div_mod_to_equations.
Open Scope N_scope.

(* ---------- 1. Rank9 rank index => the DArray premise ---------- *)

Theorem r9rank_ok_holds : forall bv, wf bv -> cap_ok bv -> exists r,
  (forall c, Rank9.build_rank c bv = Ok r) /\
  (forall c i, i < W -> Rank9.rank1 c r bv i = Ok (BitSpec.rank true (bits_of bv) i) /\
                        Rank9.rank0 c r bv i = Ok (BitSpec.rank false (bits_of bv) i)).
Proof.
  intros bv Hwf Hcap. exists (r9_base bv). split.
  - intro c. destruct bv as [ws len]. unfold r9_base. cbn [bv_words bv_len].
    apply build_rank_ok.
    + apply (wf_all _ Hwf).
    + apply (wf_cap_nwords _ Hwf Hcap).
  - assert (Hok : r9_ok bv (r9_base bv)) by (split; reflexivity).
    intros c i Hi. split.
    + apply r9_rank1_ok; assumption.
    + apply r9_rank0_ok; assumption.
Qed.

(* ---------- 2. closed DArray wrapper theorems ---------- *)

Theorem da_enable_rank_closed : forall d, (forall c, da_correct c d) -> cap_ok (da_bv d) ->
  exists d', (forall c, da_enable_rank c d = Ok d') /\
             da_bv d' = da_bv d /\ da_s1 d' = da_s1 d /\ da_s0 d' = da_s0 d /\ da_r9 d' <> None /\
             (forall c, da_correct c d').
Proof. exact (da_enable_rank_correct r9rank_ok_holds). Qed.

Theorem da_build_cfg_closed : forall bv wr ws0, wf bv -> cap_ok bv ->
  exists d, (forall c, da_build_cfg c bv wr ws0 = Ok d) /\ da_bv d = bv /\
            (da_s0 d <> None <-> ws0 = true) /\ (da_r9 d <> None <-> wr = true) /\
            (forall c, da_correct c d).
Proof. exact (da_build_cfg_correct r9rank_ok_holds). Qed.

(* ---------- 3. the two Elias-Fano premises ---------- *)

Theorem da_from_bits_ok_holds : DA_FROM_BITS_OK.
Proof. exact da_from_bits_correct. Qed.

Theorem da_enable_select0_ok_holds : DA_ENABLE_SELECT0_OK.
Proof.
  intros d H Hcap.
  destruct (da_enable_select0_correct d H Hcap) as (d' & E & Hbv & _ & Hr9 & Hs0 & Hc).
  exists d'. exact (conj E (conj Hbv (conj Hs0 (conj Hr9 Hc)))).
Qed.

(* ---------- 4. the wavelet premise: all three backings ---------- *)

Lemma backing_r9 x : (forall c, r9_correct c x) ->
  forall c, backing_correct c (BRank9 x) (bits_of (r9_bv x)).
Proof.
  intros H c. destruct (H c) as (Hwf & Ho & Hz & Hr & Hs). cbv zeta in *.
  unfold backing_correct. split; [|split; [|split]].
  - cbn [b_num_bits]. unfold r9_num_bits. symmetry. apply bits_of_length, Hwf.
  - unfold b_num_zeros. cbn [b_num_ones b_num_bits].
    unfold r9_num_zeros in Hz. exact Hz.
  - intros i Hi. cbn [b_access b_rank1 b_rank0]. apply Hr, Hi.
  - intros k Hk. cbn [b_select1 b_select0]. apply Hs, Hk.
Qed.

Lemma backing_da d : (forall c, da_correct c d) -> da_s0 d <> None -> da_r9 d <> None ->
  forall c, backing_correct c (BDArray d) (bits_of (da_bv d)).
Proof.
  intros H Hs0 Hr9 c. destruct (H c) as (Hwf & Ho & Hz & Ha & H1 & H0 & Hr). cbv zeta in *.
  unfold backing_correct. split; [|split; [|split]].
  - cbn [b_num_bits]. unfold da_num_bits. symmetry. apply bits_of_length, Hwf.
  - unfold b_num_zeros. cbn [b_num_ones b_num_bits bind].
    unfold da_num_zeros in Hz. exact Hz.
  - intros i Hi. cbn [b_access b_rank1 b_rank0].
    destruct (Hr Hr9 i Hi) as [R1 R0]. split; [apply Ha, Hi | split; assumption].
  - intros k Hk. cbn [b_select1 b_select0]. split; [apply H1, Hk | apply (H0 Hs0), Hk].
Qed.

Lemma backing_bv bv : wf bv -> cap_ok bv -> forall c, backing_correct c (BBitVec bv) (bits_of bv).
Proof.
  intros Hwf Hcap c. unfold backing_correct. split; [|split; [|split]].
  - cbn [b_num_bits]. symmetry. apply bits_of_length, Hwf.
  - unfold b_num_zeros. cbn [b_num_ones b_num_bits].
    rewrite num_ones_spec by assumption. cbn [bind].
    pose proof (count_true_false (bits_of bv)) as Hc. rewrite (bits_of_length bv Hwf) in Hc.
    rewrite sub_ok by lia. f_equal. lia.
  - intros i Hi. cbn [b_access b_rank1 b_rank0]. split; [|split].
    + unfold BitVector.access. apply get_bit_spec; assumption.
    + apply rank1_spec; assumption.
    + apply rank0_spec; assumption.
  - intros k Hk. cbn [b_select1 b_select0]. split.
    + apply select1_spec; assumption.
    + apply select0_spec; assumption.
Qed.

Theorem b_build_ok_holds : forall k bv, wf bv -> cap_ok bv ->
  exists b, (forall c, b_build c k bv = Ok b) /\ (forall c, backing_correct c b (bits_of bv)).
Proof.
  intros k bv Hwf Hcap. destruct k.
  - destruct (r9_build_correct bv true true Hwf Hcap) as (x & E & Hbv & Hc).
    exists (BRank9 x). split.
    + intro c. unfold b_build. rewrite E. reflexivity.
    + rewrite <- Hbv. apply backing_r9, Hc.
  - destruct (da_build_cfg_closed bv true true Hwf Hcap) as (d & E & Hbv & Hs0 & Hr9 & Hc).
    exists (BDArray d). split.
    + intro c. unfold b_build. rewrite E. reflexivity.
    + rewrite <- Hbv. apply backing_da; [exact Hc | apply Hs0; reflexivity | apply Hr9; reflexivity].
  - exists (BBitVec bv). split.
    + intro c. reflexivity.
    + apply backing_bv; assumption.
Qed.

(* ---------- 5. closed corollaries ---------- *)

(* Elias-Fano builder / construction (Props/C16.v, Props/C04.v) *)

Theorem efb_build_ok_closed : forall u m b acc, u < W -> 1 <= m ->
  m + 2 + u / 2 ^ low_len_of u m < 2 ^ 56 -> m * low_len_of u m < 2 ^ 56 ->
  efb_inv b acc u m ->
  exists e, (forall c, efb_build c b = Ok e) /\ ef_rep e acc u /\
            da_bv (ef_high e) = b_high b /\ ef_low e = b_low b.
Proof. exact (efb_build_ok da_from_bits_ok_holds). Qed.

Theorem ef_enable_rank_ok_closed : forall e xs u, ef_rep e xs u ->
  exists e', (forall c, ef_enable_rank c e = Ok e') /\ ef_rep e' xs u /\ da_s0 (ef_high e') <> None.
Proof. exact (ef_enable_rank_ok da_enable_select0_ok_holds). Qed.

Theorem efb_build_history_closed : forall u m ops, u < W -> 1 <= m ->
  m + 2 + u / 2 ^ low_len_of u m < 2 ^ 56 -> m * low_len_of u m < 2 ^ 56 ->
  let acc := fst (spec_run u m [] ops) in
  exists e, ef_rep e acc u /\
    (forall c, exists b0 b, efb_new c u m = Ok (Some b0) /\
       model_run c b0 ops = Ok (b, snd (spec_run u m [] ops)) /\
       efb_inv b acc u m /\ efb_build c b = Ok e) /\
    ef_len e = lenN acc /\ ef_universe e = u /\
    (forall c k, ef_select c e k = Ok (SeqSpec.ef_select acc k)).
Proof. exact (efb_build_history da_from_bits_ok_holds). Qed.

Theorem ef_build_sorted_closed : forall u m xs, u < W -> 1 <= m -> lenN xs <= m ->
  m + 2 + u / 2 ^ low_len_of u m < 2 ^ 56 -> m * low_len_of u m < 2 ^ 56 ->
  nondec xs -> Forall (fun x => x < u) xs ->
  exists e e', ef_rep e xs u /\ ef_rep e' xs u /\ da_s0 (ef_high e') <> None /\
    forall c, exists b0 b, efb_new c u m = Ok (Some b0) /\ efb_extend c b0 xs = Ok (b, true) /\
                           efb_build c b = Ok e /\ ef_enable_rank c e = Ok e'.
Proof. exact (ef_build_sorted da_from_bits_ok_holds da_enable_select0_ok_holds). Qed.

(* wavelet matrix (Props/C05.v, Props/C06.v) *)

Theorem wm_new_closed : forall k s,
  s <> [] /\ max_list s + 1 < W /\ lenN s < 2 ^ 50 ->
  exists wm, (forall c, wm_new c k s = Ok (Some wm)) /\ wm_len wm = lenN s /\
             wm_alph_size wm = max_list s + 1 /\ wm_alph_width wm = bitlen (max_list s + 1).
Proof. exact (wm_new_spec b_build_ok_holds). Qed.

Theorem wm_access_closed : forall c0 k s wm,
  s <> [] /\ max_list s + 1 < W /\ lenN s < 2 ^ 50 -> wm_new c0 k s = Ok (Some wm) ->
  forall c i, i < W -> wm_access c wm i = Ok (SeqSpec.nth_opt s i).
Proof. exact (wm_access_spec b_build_ok_holds). Qed.

Theorem wm_rank_range_closed : forall c0 k s wm,
  s <> [] /\ max_list s + 1 < W /\ lenN s < 2 ^ 50 -> wm_new c0 k s = Ok (Some wm) ->
  forall c a b v, a < W -> b < W -> v < W ->
  wm_rank_range c wm a b v = Ok (SeqSpec.wm_rank_range s a b v).
Proof. exact (wm_rank_range_spec b_build_ok_holds). Qed.

Theorem wm_rank_closed : forall c0 k s wm,
  s <> [] /\ max_list s + 1 < W /\ lenN s < 2 ^ 50 -> wm_new c0 k s = Ok (Some wm) ->
  forall c i v, i < W -> v < W -> wm_rank c wm i v = Ok (SeqSpec.wm_rank_range s 0 i v).
Proof. exact (wm_rank_spec b_build_ok_holds). Qed.

Theorem wm_select_closed : forall c0 k s wm,
  s <> [] /\ max_list s + 1 < W /\ lenN s < 2 ^ 50 -> wm_new c0 k s = Ok (Some wm) ->
  forall c j v, j < W -> v < W -> wm_select c wm j v = Ok (SeqSpec.wm_select s j v).
Proof. exact (wm_select_spec b_build_ok_holds). Qed.

Theorem wm_quantile_closed : forall c0 k s wm,
  s <> [] /\ max_list s + 1 < W /\ lenN s < 2 ^ 50 -> wm_new c0 k s = Ok (Some wm) ->
  forall c a b j, a < W -> b < W -> j < W ->
  wm_quantile c wm a b j = Ok (SeqSpec.wm_quantile s a b j).
Proof. exact (wm_quantile_spec b_build_ok_holds). Qed.

Theorem wm_intersect_closed : forall c0 k s wm,
  s <> [] /\ max_list s + 1 < W /\ lenN s < 2 ^ 50 -> wm_new c0 k s = Ok (Some wm) ->
  forall c rs j, wm_intersect c wm rs j = Ok (SeqSpec.wm_intersect s rs j).
Proof. exact (wm_intersect_spec b_build_ok_holds). Qed.

Print Assumptions r9rank_ok_holds.
Print Assumptions da_enable_rank_closed.
Print Assumptions da_build_cfg_closed.
Print Assumptions da_from_bits_ok_holds.
Print Assumptions da_enable_select0_ok_holds.
Print Assumptions b_build_ok_holds.
Print Assumptions efb_build_ok_closed.
Print Assumptions ef_enable_rank_ok_closed.
Print Assumptions efb_build_history_closed.
Print Assumptions ef_build_sorted_closed.
Print Assumptions wm_new_closed.
Print Assumptions wm_access_closed.
Print Assumptions wm_rank_range_closed.
Print Assumptions wm_rank_closed.
Print Assumptions wm_select_closed.
Print Assumptions wm_quantile_closed.
Print Assumptions wm_intersect_closed.
