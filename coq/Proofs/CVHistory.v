(* Proofs/CVHistory.v — C09: the model run of a whole history of CompactVector constructors and
   mutators equals the run of the plain-list rules (`cv_history_spec`), the reads after a history
   (`cv_history_reads`), and canonicity across histories (`cv_history_canonical`). *)
From Sucds Require Import Base.Res Spec.WordSpec Spec.BitSpec Spec.SeqSpec Spec.DacSpec
  Model.BitVector Model.CompactVector
  Proofs.ResLemmas Proofs.BVAbs Proofs.BVMutLemmas Proofs.CVRep Proofs.CVOps.
From Coq Require Import ZArith ZifyN ZifyBool ZifyNat Lia.
Ltac Zify.zify_post_hook ::= Z.div_mod_to_equations.
Open Scope N_scope.

Inductive cvop :=
  | CNew (w : N)
  | CWithCapacity (capa w : N)
  | CFromInt (val len w : N)
  | CFromSlice (l : list N)
  | CPush (x : N)
  | CSet (pos x : N)
  | CExtend (l : list N).

(* ---------- the rules of the property on plain lists ---------- *)
(* None: no vector has been constructed yet; Some (width, contents) *)
Definition cvstate := option (N * list N).

(* new state and whether the call is accepted (Ok) or rejected (Err).  A rejected constructor
   yields no vector (the previous one, if any, is still the current one); a rejected push_int /
   set_int leaves the contents unchanged; extend appends the longest prefix of fitting items and
   is accepted iff all items fit.  from_slice(&[]) is the default vector: width 0, no items
   (on width 0 only the value 0 fits, 0 < 2^0). *)
Definition apply_cvop_spec (s : cvstate) (o : cvop) : cvstate * bool :=
  match o with
  | CNew w | CWithCapacity _ w => if wok w then (Some (w, []), true) else (s, false)
  | CFromInt val len w =>
      if wok w && fitsb w val then (Some (w, repeat val (N.to_nat len)), true) else (s, false)
  | CFromSlice l => (Some (match l with [] => 0 | _ => bitlen (max_list l) end, l), true)
  | CPush x =>
      match s with
      | None => (None, false)
      | Some (w, xs) => if fitsb w x then (Some (w, xs ++ [x]), true) else (s, false)
      end
  | CSet pos x =>
      match s with
      | None => (None, false)
      | Some (w, xs) =>
          if (pos <? lenN xs) && fitsb w x then (Some (w, setN xs pos x), true) else (s, false)
      end
  | CExtend l =>
      match s with
      | None => (None, false)
      | Some (w, xs) => (Some (w, xs ++ fit_prefix w l), forallb (fitsb w) l)
      end
  end.

Fixpoint run_cvops (s : cvstate) (ops : list cvop) : cvstate * list bool :=
  match ops with
  | [] => (s, [])
  | o :: r => let '(s', ok) := apply_cvop_spec s o in
              let '(s'', oks) := run_cvops s' r in (s'', ok :: oks)
  end.

(* ---------- the model side ---------- *)
Definition ctor_result (ov : option compvec) (r : option compvec) : option compvec * bool :=
  match r with Some v => (Some v, true) | None => (ov, false) end.

Definition apply_cvop_model (c : cfg) (ov : option compvec) (o : cvop) : res (option compvec * bool) :=
  match o with
  | CNew w => Ok (ctor_result ov (cv_new w))
  | CWithCapacity capa w => r <- cv_with_capacity c capa w ;; Ok (ctor_result ov r)
  | CFromInt val len w => r <- cv_from_int c val len w ;; Ok (ctor_result ov r)
  | CFromSlice l => r <- cv_from_slice c l ;; Ok (ctor_result ov r)
  | CPush x =>
      match ov with None => Ok (None, false)
      | Some v => r <- cv_push_int c v x ;; Ok (Some (fst r), snd r) end
  | CSet pos x =>
      match ov with None => Ok (None, false)
      | Some v => r <- cv_set_int c v pos x ;; Ok (Some (fst r), snd r) end
  | CExtend l =>
      match ov with None => Ok (None, false)
      | Some v => r <- cv_extend c v l ;; Ok (Some (fst r), snd r) end
  end.

Fixpoint run_cv_model (c : cfg) (ov : option compvec) (ops : list cvop)
  : res (option compvec * list bool) :=
  match ops with
  | [] => Ok (ov, [])
  | o :: r =>
      x <- apply_cvop_model c ov o ;;
      y <- run_cv_model c (fst x) r ;;
      Ok (fst y, snd x :: snd y)
  end.

(* ---------- the relation between the two ---------- *)
Definition st_rel (ov : option compvec) (s : cvstate) : Prop :=
  match ov, s with
  | None, None => True
  | Some v, Some (w, xs) => cv_width v = w /\ cv_inv v xs
  | _, _ => False
  end.

(* side conditions: every numeric operand is a usize value; with_capacity's product capa * width
   is representable; and the state AFTER the operation satisfies the capacity bound *)
Definition cvop_operands_ok (o : cvop) : Prop :=
  match o with
  | CNew w => w < W
  | CWithCapacity capa w => capa < W /\ w < W /\ (wok w = true -> capa * w + 64 < W)
  | CFromInt val len w => val < W /\ len < W /\ w < W
  | CFromSlice l => Forall (fun x => x < W) l
  | CPush x => x < W
  | CSet pos x => pos < W /\ x < W
  | CExtend l => Forall (fun x => x < W) l
  end.
Definition st_cap (s : cvstate) : Prop :=
  match s with None => True | Some (w, xs) => cv_cap w (lenN xs) end.
Definition cvop_ok (s : cvstate) (o : cvop) : Prop :=
  cvop_operands_ok o /\ st_cap (fst (apply_cvop_spec s o)).
Fixpoint cvops_ok (s : cvstate) (ops : list cvop) : Prop :=
  match ops with
  | [] => True
  | o :: r => cvop_ok s o /\ cvops_ok (fst (apply_cvop_spec s o)) r
  end.

Definition is_extend (o : cvop) : bool := match o with CExtend _ => true | _ => false end.

(* for the widths a constructor accepts, the capacity bound is the one of cv_rep's lemmas *)
Lemma st_cap_rep w xs : 1 <= w -> (st_cap (Some (w, xs)) <-> lenN xs * w < 2 ^ 56).
Proof.
  intro Hw. cbn [st_cap]. split; [intros [H _]; exact H | apply cv_cap_of_rep; exact Hw].
Qed.

(* ---------- (1) one operation ---------- *)
Theorem apply_cvop_model_spec c ov s o : st_rel ov s -> cvop_ok s o ->
  exists ov', apply_cvop_model c ov o = Ok (ov', snd (apply_cvop_spec s o)) /\
    st_rel ov' (fst (apply_cvop_spec s o)) /\
    (snd (apply_cvop_spec s o) = false -> is_extend o = false -> ov' = ov).
Proof.
  intros Hrel [Hops Hcap].
  destruct o as [w | capa w | val len w | l | x | pos x | l];
    cbn [apply_cvop_model apply_cvop_spec cvop_operands_ok is_extend] in *.
  - (* new *)
    pose proof (cv_new_spec w) as H. destruct (wok w) eqn:Ew; cbn [fst snd] in *.
    + destruct H as [v [-> [Hrep Hwv]]]. apply cv_rep_inv in Hrep. cbn [ctor_result].
      exists (Some v). split; [reflexivity|]. split; [|discriminate]. split; [exact Hwv | apply Hrep].
    + rewrite H. cbn [ctor_result]. exists ov. auto.
  - (* with_capacity *)
    destruct Hops as [_ [_ Hmul]]. rewrite cv_with_capacity_spec by exact Hmul. cbn [bind].
    pose proof (cv_new_spec w) as H. destruct (wok w) eqn:Ew; cbn [fst snd] in *.
    + destruct H as [v [-> [Hrep Hwv]]]. apply cv_rep_inv in Hrep. cbn [ctor_result].
      exists (Some v). split; [reflexivity|]. split; [|discriminate]. split; [exact Hwv | apply Hrep].
    + rewrite H. cbn [ctor_result]. exists ov. auto.
  - (* from_int *)
    destruct Hops as [Hval [Hlen Hw]].
    pose proof (cv_from_int_spec c val len w Hval Hlen) as H.
    destruct (wok w && fitsb w val) eqn:E; cbn [fst snd] in *.
    + destruct H as [v [-> [Hrep Hwv]]].
      { intros _. cbn [st_cap] in Hcap. destruct Hcap as [Hc _]. rewrite lenN_repeatN in Hc. exact Hc. }
      apply cv_rep_inv in Hrep. cbn [bind ctor_result].
      exists (Some v). split; [reflexivity|]. split; [|discriminate]. split; [exact Hwv | apply Hrep].
    + rewrite H by discriminate. cbn [bind ctor_result]. exists ov. auto.
  - (* from_slice *)
    cbn [fst snd] in *. destruct l as [|y l'].
    + rewrite cv_from_slice_nil. cbn [bind ctor_result]. exists (Some cv_default).
      split; [reflexivity|]. split; [|discriminate]. split; [reflexivity | exact cv_inv_default].
    + set (l := y :: l') in *.
      destruct (cv_from_slice_spec c l ltac:(discriminate) Hops) as [v [-> [Hrep Hwv]]].
      { apply Hcap. }
      apply cv_rep_inv in Hrep. cbn [bind ctor_result].
      exists (Some v). split; [reflexivity|]. split; [|discriminate]. split; [exact Hwv | apply Hrep].
  - (* push_int *)
    destruct ov as [v|], s as [[w xs]|]; cbn [st_rel] in Hrel; try contradiction.
    2:{ exists None. cbn [fst snd st_rel]. auto. }
    destruct Hrel as [Ew Hinv]. subst w.
    destruct (cv_push_int_inv c v xs x Hinv Hops) as [v' [E [Ew' H]]].
    { intro Hf. rewrite Hf in Hcap. cbn [fst st_cap] in Hcap. rewrite lenN_app in Hcap. exact Hcap. }
    rewrite E. cbn [bind fst snd].
    destruct (fitsb (cv_width v) x); cbn [fst snd st_rel].
    + exists (Some v'). split; [reflexivity|]. split; [|discriminate]. split; assumption.
    + subst v'. exists (Some v). cbn [st_rel]. auto.
  - (* set_int *)
    destruct ov as [v|], s as [[w xs]|]; cbn [st_rel] in Hrel; try contradiction.
    2:{ exists None. cbn [fst snd st_rel]. auto. }
    destruct Hrel as [Ew Hinv]. subst w. destruct Hops as [Hpos Hx].
    destruct (cv_set_int_inv c v xs pos x Hinv Hpos Hx) as [v' [E [Ew' H]]].
    { destruct ((pos <? lenN xs) && fitsb (cv_width v) x); cbn [fst st_cap] in Hcap;
        [rewrite lenN_setN in Hcap|]; exact Hcap. }
    rewrite E. cbn [bind fst snd].
    destruct ((pos <? lenN xs) && fitsb (cv_width v) x); cbn [fst snd st_rel].
    + exists (Some v'). split; [reflexivity|]. split; [|discriminate]. split; assumption.
    + subst v'. exists (Some v). cbn [st_rel]. auto.
  - (* extend *)
    destruct ov as [v|], s as [[w xs]|]; cbn [st_rel] in Hrel; try contradiction.
    2:{ exists None. cbn [fst snd st_rel]. auto. }
    destruct Hrel as [Ew Hinv]. subst w. cbn [fst snd st_cap] in *.
    destruct (cv_extend_inv c v l xs Hinv Hops) as [v' [E [Ew' H]]].
    { rewrite lenN_app in Hcap. exact Hcap. }
    rewrite E. cbn [bind fst snd]. exists (Some v'). cbn [st_rel].
    split; [reflexivity|]. split; [split; assumption | discriminate].
Qed.

(* ---------- (3) histories, from any related pair of states ---------- *)
Lemma run_cv_model_spec c ops : forall ov s, st_rel ov s -> cvops_ok s ops ->
  exists ov', run_cv_model c ov ops = Ok (ov', snd (run_cvops s ops)) /\
    st_rel ov' (fst (run_cvops s ops)).
Proof.
  induction ops as [|o r IH]; intros ov s Hrel Hok.
  - exists ov. cbn [run_cv_model run_cvops fst snd]. auto.
  - destruct Hok as [Ho Hr].
    destruct (apply_cvop_model_spec c ov s o Hrel Ho) as [ov1 [E [Hrel1 _]]].
    cbn [run_cv_model run_cvops]. rewrite E. cbn [bind fst snd].
    destruct (apply_cvop_spec s o) as [s1 ok1]. cbn [fst snd] in *.
    destruct (IH ov1 s1 Hrel1 Hr) as [ov2 [E2 Hrel2]].
    rewrite E2. cbn [bind fst snd].
    destruct (run_cvops s1 r) as [s2 oks]. cbn [fst snd] in *.
    exists ov2. auto.
Qed.

Theorem cv_history_spec c ops : cvops_ok None ops ->
  exists ov, run_cv_model c None ops = Ok (ov, snd (run_cvops None ops)) /\
    st_rel ov (fst (run_cvops None ops)).
Proof. intro H. apply (run_cv_model_spec c ops None None I H). Qed.

(* the capacity bound holds in the final state *)
Lemma run_cvops_cap ops : forall s, st_cap s -> cvops_ok s ops -> st_cap (fst (run_cvops s ops)).
Proof.
  induction ops as [|o r IH]; intros s Hs Hok; [exact Hs|].
  destruct Hok as [[_ Hc] Hr]. cbn [run_cvops].
  destruct (apply_cvop_spec s o) as [s1 ok1]. cbn [fst] in *.
  specialize (IH s1 Hc Hr). destruct (run_cvops s1 r) as [s2 oks]. exact IH.
Qed.

(* reads after a history: the final vector answers like the final list *)
Theorem cv_history_reads c ops w xs : cvops_ok None ops ->
  fst (run_cvops None ops) = Some (w, xs) ->
  exists v, run_cv_model c None ops = Ok (Some v, snd (run_cvops None ops)) /\
    cv_width v = w /\ cv_len v = lenN xs /\
    (forall pos, pos < W -> cv_get_int c v pos = Ok (nth_opt xs pos)) /\
    (forall pos, pos < W -> cv_iter_next c v pos =
       Ok (if pos <? lenN xs then (pos + 1, nth_opt xs pos) else (pos, None))) /\
    cv_to_list c v = Ok xs.
Proof.
  intros Hok Efin. destruct (cv_history_spec c ops Hok) as [ov [E Hrel]].
  pose proof (run_cvops_cap ops None I Hok) as Hcap. rewrite Efin in Hrel, Hcap.
  destruct ov as [v|]; cbn [st_rel st_cap] in *; [|contradiction].
  destruct Hrel as [Ew Hinv]. subst w. exists v. split; [exact E|]. split; [reflexivity|].
  split; [apply Hinv|]. split; [|split].
  - apply cv_get_int_inv; assumption.
  - apply cv_iter_next_inv; assumption.
  - apply cv_to_list_inv; assumption.
Qed.

(* (4) two histories (possibly under different build configurations) ending in the same width
   and contents produce the same model value *)
Theorem cv_history_canonical c1 c2 ops1 ops2 : cvops_ok None ops1 -> cvops_ok None ops2 ->
  fst (run_cvops None ops1) = fst (run_cvops None ops2) ->
  exists ov, run_cv_model c1 None ops1 = Ok (ov, snd (run_cvops None ops1)) /\
             run_cv_model c2 None ops2 = Ok (ov, snd (run_cvops None ops2)).
Proof.
  intros H1 H2 E.
  destruct (cv_history_spec c1 ops1 H1) as [o1 [E1 R1]].
  destruct (cv_history_spec c2 ops2 H2) as [o2 [E2 R2]].
  rewrite <- E in R2. exists o1. split; [exact E1|]. rewrite E2. f_equal. f_equal.
  destruct (fst (run_cvops None ops1)) as [[w xs]|]; destruct o1 as [a|], o2 as [b|];
    cbn [st_rel] in *; try contradiction; [|reflexivity].
  destruct R1 as [Ea Ha], R2 as [Eb Hb]. f_equal. symmetry.
  apply (cv_inv_canonical a b xs Ha Hb). congruence.
Qed.

(* ---------- a boolean checker for the side conditions (used by the concrete examples) ---------- *)
Definition cvop_operands_okb (o : cvop) : bool :=
  match o with
  | CNew w => w <? W
  | CWithCapacity capa w => (capa <? W) && (w <? W) && implb (wok w) (capa * w + 64 <? W)
  | CFromInt val len w => (val <? W) && (len <? W) && (w <? W)
  | CFromSlice l => forallb (fun x => x <? W) l
  | CPush x => x <? W
  | CSet pos x => (pos <? W) && (x <? W)
  | CExtend l => forallb (fun x => x <? W) l
  end.
Definition st_capb (s : cvstate) : bool :=
  match s with None => true | Some (w, xs) => (lenN xs * w <? 2 ^ 56) && (lenN xs <? W) end.
Fixpoint cvops_okb (s : cvstate) (ops : list cvop) : bool :=
  match ops with
  | [] => true
  | o :: r => cvop_operands_okb o && st_capb (fst (apply_cvop_spec s o))
              && cvops_okb (fst (apply_cvop_spec s o)) r
  end.

Lemma forallb_lt_W l : forallb (fun x => x <? W) l = true -> Forall (fun x => x < W) l.
Proof.
  intro H. apply Forall_forall. intros x Hx. rewrite forallb_forall in H.
  apply N.ltb_lt. apply H. exact Hx.
Qed.

Lemma cvop_operands_okb_sound o : cvop_operands_okb o = true -> cvop_operands_ok o.
Proof.
  destruct o as [w | capa w | val len w | l | x | pos x | l];
    cbn [cvop_operands_okb cvop_operands_ok]; intro H.
  - apply N.ltb_lt. exact H.
  - apply andb_prop in H. destruct H as [H H3]. apply andb_prop in H. destruct H as [H1 H2].
    apply N.ltb_lt in H1, H2. split; [exact H1|]. split; [exact H2|].
    intro Hw. rewrite Hw in H3. cbn [implb] in H3. apply N.ltb_lt. exact H3.
  - apply andb_prop in H. destruct H as [H H3]. apply andb_prop in H. destruct H as [H1 H2].
    apply N.ltb_lt in H1, H2, H3. auto.
  - apply forallb_lt_W. exact H.
  - apply N.ltb_lt. exact H.
  - apply andb_prop in H. destruct H as [H1 H2]. apply N.ltb_lt in H1, H2. auto.
  - apply forallb_lt_W. exact H.
Qed.

Lemma st_capb_sound s : st_capb s = true -> st_cap s.
Proof.
  destruct s as [[w xs]|]; cbn [st_capb st_cap]; intro H; [|exact I].
  apply andb_prop in H. destruct H as [H1 H2]. apply N.ltb_lt in H1, H2. split; assumption.
Qed.

Lemma cvops_okb_sound ops : forall s, cvops_okb s ops = true -> cvops_ok s ops.
Proof.
  induction ops as [|o r IH]; intros s H; [exact I|].
  cbn [cvops_okb] in H. apply andb_prop in H. destruct H as [H H3].
  apply andb_prop in H. destruct H as [H1 H2].
  cbn [cvops_ok]. split; [split|].
  - apply cvop_operands_okb_sound. exact H1.
  - apply st_capb_sound. exact H2.
  - apply IH. exact H3.
Qed.

(* ---------- concrete sanity checks (both profiles) ---------- *)
Definition cfg_dev := {| dbg := true; intr := false |}.
Definition cfg_rel := {| dbg := false; intr := true |}.

Definition listN_eqb (a b : list N) : bool :=
  (lenN a =? lenN b) && forallb (fun p => fst p =? snd p) (combine a b).
Definition optN_eqb (a b : option N) : bool :=
  match a, b with Some x, Some y => x =? y | None, None => true | _, _ => false end.
Definition probes : list N := [0; 1; 2; 3; 4; 5; 6; 7; 8; 9; 2 ^ 58; 2 ^ 63; W - 1].
(* the model run succeeds, accepts/rejects like the spec, and the final vector has the spec's
   width, length, contents and get_int answers (also at positions with pos * width >= 2^64) *)
Definition cv_history_check (c : cfg) (ops : list cvop) : bool :=
  match run_cv_model c None ops, run_cvops None ops with
  | Ok (Some v, oks), (Some (w, xs), oks') =>
      (cv_width v =? w) && (cv_len v =? lenN xs) &&
      forallb (fun p => Bool.eqb (fst p) (snd p)) (combine oks oks') && (lenN oks =? lenN oks') &&
      match cv_to_list c v with Ok l => listN_eqb l xs | Panic => false end &&
      forallb (fun pos => match cv_get_int c v pos with
                          | Ok r => optN_eqb r (nth_opt xs pos) | Panic => false end) probes
  | Ok (None, oks), (None, oks') => listN_eqb (map b2n oks) (map b2n oks')
  | _, _ => false
  end.

Definition cvh1 := [CPush 3; CNew 0; CNew 65; CNew 7; CPush 127; CPush 128; CPush 0; CSet 1 5; CSet 2 5;
  CSet 0 128; CSet (2 ^ 62) 1; CExtend [1; 2; 128; 3]; CExtend [9; 10]; CSet 4 100].
Definition cvh2 := [CWithCapacity 10 64; CPush (W - 1); CPush 0; CPush (2 ^ 63); CSet 1 (W - 1);
  CExtend [5; W - 2]; CSet 5 0; CSet (W - 1) 0].
Definition cvh3 := [CFromInt 1 5 1; CPush 2; CPush 1; CSet 0 0; CFromInt 2 3 1; CFromInt 1 3 65;
  CExtend [1; 0; 1; 2; 1]].
Definition cvh4 := [CFromSlice [2 ^ 63 - 1; 5; 2 ^ 62]; CPush (2 ^ 63); CPush (2 ^ 63 - 1);
  CSet 1 (2 ^ 63 - 1); CSet 3 (2 ^ 63)].
Definition cvh5 := [CFromSlice [7; 2]; CFromSlice []; CPush 1; CPush 0; CSet 0 0; CSet 0 1; CExtend [0; 0; 1; 0];
  CWithCapacity (2 ^ 62) 65; CWithCapacity 3 63; CPush (2 ^ 63); CPush (2 ^ 63 - 1)].
Definition cvh6 := [CFromSlice [W - 1; 0]; CFromInt (W - 1) 3 64; CFromInt 8 3 3; CFromInt 7 3 3; CSet 2 1].
Definition cvh7 := [CPush 1; CSet 0 0; CExtend [1]; CNew 70].

Definition all_cvh := [cvh1; cvh2; cvh3; cvh4; cvh5; cvh6; cvh7].
Example cv_history_checks :
  forallb (fun h => cv_history_check cfg_dev h && cv_history_check cfg_rel h) all_cvh = true.
Proof. vm_compute. reflexivity. Qed.

(* the concrete histories satisfy the hypotheses of the theorems *)
Example cv_histories_ok : Forall (cvops_ok None) all_cvh.
Proof.
  unfold all_cvh.
  repeat (apply Forall_cons; [apply cvops_okb_sound; vm_compute; reflexivity|]). apply Forall_nil.
Qed.

Print Assumptions apply_cvop_model_spec.
Print Assumptions cv_history_spec.
Print Assumptions cv_history_reads.
Print Assumptions cv_history_canonical.
