(* Proofs/WordLemmas.v — facts about single 64-bit words: popcN against `count` over word_bits,
   popcN of shifted/masked words, select_in_word_spec against BitSpec.select on word_bits,
   lsb_spec/msb_spec characterised by testbit, and testbit of the shifted/masked words the
   BitVector model computes. *)
From Sucds Require Import Base.Res Spec.WordSpec Spec.BitSpec Proofs.ResLemmas.
From Coq Require Import ZArith ZifyN ZifyBool ZifyNat Lia.
Ltac Zify.zify_post_hook ::= Z.div_mod_to_equations.
Open Scope N_scope.

(* ---------- testbit helpers ---------- *)

Lemma testbit_high x n j : x < 2 ^ n -> n <= j -> N.testbit x j = false.
Proof.
  intros Hx Hj. destruct (N.eq_dec x 0) as [->|Hz]; [apply N.bits_0|].
  apply N.bits_above_log2.
  assert (N.log2 x < n) by (apply N.log2_lt_pow2; lia). lia.
Qed.

Lemma testbit_W_high x j : x < W -> 64 <= j -> N.testbit x j = false.
Proof. rewrite W_eq. apply testbit_high. Qed.

Lemma testbit_not64 w i : i < 64 -> N.testbit (not64 w) i = negb (N.testbit w i).
Proof.
  intro H. unfold not64. rewrite MASK64_eq, N.lxor_spec, N.ones_spec_low by exact H.
  apply xorb_true_r.
Qed.

Lemma testbit_div_pow2 w s i : N.testbit (w / 2 ^ s) i = N.testbit w (i + s).
Proof. rewrite <- N.shiftr_div_pow2, N.shiftr_spec'. reflexivity. Qed.

Lemma testbit_mod_pow2 w n i : N.testbit (w mod 2 ^ n) i = (i <? n) && N.testbit w i.
Proof.
  destruct (N.ltb_spec i n) as [H|H].
  - rewrite N.mod_pow2_bits_low by exact H. reflexivity.
  - rewrite N.mod_pow2_bits_high by exact H. reflexivity.
Qed.

Lemma testbit_mul_pow2 w s i : N.testbit (w * 2 ^ s) i = (s <=? i) && N.testbit w (i - s).
Proof.
  rewrite <- N.shiftl_mul_pow2.
  destruct (N.leb_spec s i) as [H|H].
  - rewrite N.shiftl_spec_high' by exact H. reflexivity.
  - rewrite N.shiftl_spec_low by exact H. reflexivity.
Qed.

Lemma testbit_shl64 w s i :
  N.testbit ((w * 2 ^ s) mod W) i = (i <? 64) && ((s <=? i) && N.testbit w (i - s)).
Proof. rewrite W_eq, testbit_mod_pow2, testbit_mul_pow2. reflexivity. Qed.

Lemma testbit_pow2_pred n i : N.testbit (2 ^ n - 1) i = (i <? n).
Proof.
  replace (2 ^ n - 1) with (N.ones n) by (rewrite N.ones_equiv; lia).
  destruct (N.ltb_spec i n) as [H|H].
  - apply N.ones_spec_low, H.
  - apply N.ones_spec_high, H.
Qed.

Lemma testbit_MASK64 i : N.testbit MASK64 i = (i <? 64).
Proof. change MASK64 with (2 ^ 64 - 1). apply testbit_pow2_pred. Qed.

Lemma land1_testbit t : (N.land t 1 =? 1) = N.testbit t 0.
Proof.
  change 1 with (N.ones 1) at 1. rewrite N.land_ones. change (2 ^ 1) with 2.
  rewrite <- N.bit0_mod. destruct (N.testbit t 0); reflexivity.
Qed.

Lemma mod2_odd w : w mod 2 = b2n (N.odd w).
Proof.
  rewrite <- N.bit0_mod, N.bit0_odd. destruct (N.odd w); reflexivity.
Qed.

(* ---------- popcN ---------- *)

Lemma popcN_double a : popcN (2 * a) = popcN a.
Proof. destruct a; reflexivity. Qed.

Lemma popcN_succ_double a : popcN (2 * a + 1) = popcN a + 1.
Proof.
  destruct a as [|p]; [reflexivity|].
  change (2 * N.pos p + 1) with (N.pos p~1). cbn [popcN popcP]. lia.
Qed.

Lemma popcN_bit b a : popcN (b2n b + 2 * a) = b2n b + popcN a.
Proof.
  destruct b; cbn [b2n].
  - replace (1 + 2 * a) with (2 * a + 1) by lia. rewrite popcN_succ_double. lia.
  - rewrite !N.add_0_l. apply popcN_double.
Qed.

Lemma popcN_mul_pow2 a s : popcN (a * 2 ^ s) = popcN a.
Proof.
  induction s as [|s IH] using N.peano_ind.
  - rewrite N.pow_0_r, N.mul_1_r. reflexivity.
  - rewrite N.pow_succ_r'. replace (a * (2 * 2 ^ s)) with (2 * (a * 2 ^ s)) by lia.
    rewrite popcN_double. exact IH.
Qed.

Lemma count_true_cons x l : count true (x :: l) = b2n x + count true l.
Proof. cbn [count]. destruct x; reflexivity. Qed.

Lemma count_bits_n n w : count true (bits_n n w) = popcN (w mod 2 ^ N.of_nat n).
Proof.
  revert w. induction n as [|n IH]; intro w.
  - cbn [bits_n count]. change (N.of_nat 0) with 0. rewrite N.pow_0_r, N.mod_1_r. reflexivity.
  - cbn [bits_n]. rewrite count_true_cons, IH. rewrite Nat2N.inj_succ, N.pow_succ_r'.
    rewrite N.mod_mul_r by (try apply N.pow_nonzero; lia).
    rewrite N.div2_div, mod2_odd. symmetry. apply popcN_bit.
Qed.

Lemma count_word_bits w : w < W -> count true (word_bits w) = popcN w.
Proof.
  intro H. unfold word_bits. rewrite count_bits_n.
  change (2 ^ N.of_nat 64) with W. rewrite N.mod_small by exact H. reflexivity.
Qed.

Lemma firstn_bits_n r : forall n w, (r <= n)%nat -> firstn r (bits_n n w) = bits_n r w.
Proof.
  induction r as [|r IH]; intros n w H; [reflexivity|].
  destruct n as [|n]; [lia|]. cbn [bits_n firstn]. rewrite IH by lia. reflexivity.
Qed.

Lemma count_firstn_word_bits w r :
  r <= 64 -> count true (firstn (N.to_nat r) (word_bits w)) = popcN (w mod 2 ^ r).
Proof.
  intro H. unfold word_bits. rewrite firstn_bits_n by lia. rewrite count_bits_n.
  rewrite N2Nat.id. reflexivity.
Qed.

(* the `w << (64 - left)` trick of rank1 *)
Lemma popcN_shl_low w r : r <= 64 -> popcN ((w * 2 ^ (64 - r)) mod W) = popcN (w mod 2 ^ r).
Proof.
  intro H. rewrite W_eq.
  replace (2 ^ 64) with (2 ^ r * 2 ^ (64 - r)) by (rewrite <- N.pow_add_r; f_equal; lia).
  rewrite N.mul_mod_distr_r by (apply N.pow_nonzero; lia).
  apply popcN_mul_pow2.
Qed.

Lemma popcN_le_64 w : w < W -> popcN w <= 64.
Proof.
  intro H. rewrite <- count_word_bits by exact H.
  assert (G : forall l, count true l <= lenN l).
  { induction l as [|x l IH]; [cbn; unfold lenN; cbn; lia|].
    rewrite count_true_cons, lenN_cons. destruct x; cbn [b2n]; lia. }
  specialize (G (word_bits w)). unfold lenN in G.
  assert (L : length (word_bits w) = 64%nat).
  { unfold word_bits. clear. generalize 64%nat. intro n. revert w.
    induction n as [|n IH]; intro w; cbn [bits_n length]; [reflexivity|rewrite IH; reflexivity]. }
  rewrite L in G. lia.
Qed.

(* ---------- word_bits pointwise, complement ---------- *)

Lemma bits_n_len n w : length (bits_n n w) = n.
Proof. revert w. induction n as [|n IH]; intro w; cbn [bits_n length]; [reflexivity | rewrite IH; reflexivity]. Qed.

Lemma bits_n_nth' n w i d : (i < n)%nat -> nth i (bits_n n w) d = N.testbit w (N.of_nat i).
Proof.
  revert w i. induction n as [|n IH]; intros w i Hi; [lia|].
  cbn [bits_n]. destruct i as [|i].
  - cbn [nth]. symmetry. apply N.bit0_odd.
  - cbn [nth]. rewrite IH by lia. rewrite N.div2_spec, N.shiftr_spec'. f_equal. lia.
Qed.

Lemma word_bits_not64 w : word_bits (not64 w) = map negb (word_bits w).
Proof.
  unfold word_bits. apply nth_ext with (d := false) (d' := negb false).
  - rewrite map_length, !bits_n_len. reflexivity.
  - intros i Hi. rewrite bits_n_len in Hi. rewrite map_nth.
    rewrite !bits_n_nth' by exact Hi. apply testbit_not64. lia.
Qed.

Lemma count_false_map_negb l : count false l = count true (map negb l).
Proof.
  induction l as [|x l IH]; [reflexivity|]. cbn [map count]. rewrite IH. destruct x; reflexivity.
Qed.

Lemma positions_from_false_map_negb l o :
  positions_from false l o = positions_from true (map negb l) o.
Proof.
  revert o. induction l as [|x l IH]; intro o; [reflexivity|].
  cbn [map positions_from]. rewrite IH. destruct x; reflexivity.
Qed.

Lemma count_false_word_bits w : w < W -> count false (word_bits w) = popcN (not64 w).
Proof.
  intro H. rewrite count_false_map_negb, <- word_bits_not64.
  apply count_word_bits, not64_lt, H.
Qed.

(* ---------- select_in_word_spec ---------- *)

Lemma positions_from_bits_n_zero n o : positions_from true (bits_n n 0) o = [].
Proof.
  revert o. induction n as [|n IH]; intro o; [reflexivity|].
  cbn [bits_n]. change (N.odd 0) with false. change (N.div2 0) with 0.
  cbn [positions_from Bool.eqb]. apply IH.
Qed.

Lemma nth_error_nil_N {A} k : nth_error (@nil A) k = None.
Proof. destruct k; reflexivity. Qed.

Lemma selP_spec n : forall p k o, N.pos p < 2 ^ N.of_nat n ->
  selP p k o = nth_error (positions_from true (bits_n n (N.pos p)) o) (N.to_nat k).
Proof.
  induction n as [|n IH]; intros p k o H.
  - change (N.of_nat 0) with 0 in H. rewrite N.pow_0_r in H. lia.
  - rewrite Nat2N.inj_succ, N.pow_succ_r' in H.
    cbn [bits_n]. destruct p as [p|p|].
    + change (N.odd (N.pos p~1)) with true. change (N.div2 (N.pos p~1)) with (N.pos p).
      cbn [positions_from Bool.eqb selP].
      destruct (N.eqb_spec k 0) as [->|Hk].
      * reflexivity.
      * replace (N.to_nat k) with (S (N.to_nat (k - 1))) by lia. cbn [nth_error].
        apply IH. lia.
    + change (N.odd (N.pos p~0)) with false. change (N.div2 (N.pos p~0)) with (N.pos p).
      cbn [positions_from Bool.eqb selP]. apply IH. lia.
    + change (N.odd 1) with true. change (N.div2 1) with 0.
      cbn [positions_from Bool.eqb selP]. rewrite positions_from_bits_n_zero.
      destruct (N.eqb_spec k 0) as [->|Hk].
      * reflexivity.
      * replace (N.to_nat k) with (S (N.to_nat (k - 1))) by lia. cbn [nth_error].
        symmetry. apply nth_error_nil_N.
Qed.

Lemma select_nth_error v l k : select v l k = nth_error (positions v l) (N.to_nat k).
Proof.
  unfold select. cbv zeta. destruct (N.ltb_spec k (lenN (positions v l))) as [H|H]; [reflexivity|].
  symmetry. apply nth_error_None. unfold lenN in H. lia.
Qed.

Lemma select_in_word_select w k : w < W -> select_in_word_spec w k = select true (word_bits w) k.
Proof.
  intro H. rewrite select_nth_error. unfold positions, word_bits.
  destruct w as [|p].
  - rewrite positions_from_bits_n_zero, nth_error_nil_N. reflexivity.
  - cbn [select_in_word_spec]. apply selP_spec. exact H.
Qed.

(* ---------- lsb_spec / msb_spec ---------- *)

Lemma ctzP_spec p : N.testbit (N.pos p) (ctzP p) = true /\
                    forall j, j < ctzP p -> N.testbit (N.pos p) j = false.
Proof.
  induction p as [p IH|p IH|].
  - cbn [ctzP]. split; [reflexivity | intros j Hj; lia].
  - cbn [ctzP]. destruct IH as [IH1 IH2]. change (N.pos p~0) with (2 * N.pos p). split.
    + rewrite N.testbit_even_succ by lia. exact IH1.
    + intros j Hj. destruct (N.eq_dec j 0) as [->|Hz].
      * apply N.testbit_even_0.
      * replace j with (N.succ (N.pred j)) by lia.
        rewrite N.testbit_even_succ by lia. apply IH2. lia.
  - cbn [ctzP]. split; [reflexivity | intros j Hj; lia].
Qed.

Lemma lsb_spec_Some x r : lsb_spec x = Some r ->
  N.testbit x r = true /\ forall j, j < r -> N.testbit x j = false.
Proof.
  unfold lsb_spec. destruct (N.eqb_spec x 0) as [|Hz]; [discriminate|].
  intro E. injection E as <-. destruct x as [|p]; [lia|]. apply ctzP_spec.
Qed.
Lemma lsb_spec_None x : lsb_spec x = None -> x = 0.
Proof. unfold lsb_spec. destruct (N.eqb_spec x 0) as [|Hz]; [auto | discriminate]. Qed.

Lemma msb_spec_Some x r : msb_spec x = Some r ->
  N.testbit x r = true /\ forall j, r < j -> N.testbit x j = false.
Proof.
  unfold msb_spec. destruct (N.eqb_spec x 0) as [|Hz]; [discriminate|].
  intro E. injection E as <-. split.
  - apply N.bit_log2, Hz.
  - intros j Hj. apply N.bits_above_log2, Hj.
Qed.
Lemma msb_spec_None x : msb_spec x = None -> x = 0.
Proof. unfold msb_spec. destruct (N.eqb_spec x 0) as [|Hz]; [auto | discriminate]. Qed.

Lemma testbit_true_lt64 x r : x < W -> N.testbit x r = true -> r < 64.
Proof.
  intros Hx Hr. destruct (N.lt_ge_cases r 64) as [H|H]; [exact H|].
  rewrite (testbit_W_high x r Hx H) in Hr. discriminate.
Qed.
