(* Proofs/DacsOptMain.v — property C10: DacsOpt is lossless.
   from_slice rejects max_levels outside 1..=64, and otherwise never panics (usize values, fewer
   than 2^50 of them): the widths chosen by the dynamic program (Proofs/DP_Walk.v) are admissible
   (positive, summing to bitlen(max), between 1 and min(max_levels,64) of them) and of minimum
   cost; the value built stores the pure level decomposition of Proofs/DacsLevels.v in
   CompactVectors / Rank9Sel flag indexes; len, num_levels, widths, access (every index in usize)
   and the iterator agree with the plain list.  The value is the same in every configuration. *)
From Sucds Require Import Base.Res Spec.BitSpec Spec.SeqSpec Spec.DacSpec
  Model.BitVector Model.Rank9 Model.CompactVector Model.Dacs
  Proofs.ResLemmas Proofs.BVAbs Proofs.BVMutLemmas Proofs.BVMut Proofs.BVHistory
  Proofs.IndexSpecs Proofs.R9Main Proofs.CVRep Proofs.CVOps
  Proofs.DP_Hist Proofs.DP_Opt Proofs.DP_Walk Proofs.IterGeneric Proofs.DacsLevels.
From Coq Require Import ZArith ZifyN ZifyBool ZifyNat Lia.
Ltac Zify.zify_post_hook ::= Z.div_mod_to_equations.
Open Scope N_scope.

(* the representation *)
Definition do_rep (d : dacsopt) (ws vals : list N) : Prop :=
  Forall2 cv_rep (do_data d) (lv_chunks ws vals) /\ map cv_width (do_data d) = ws /\
  Forall2 fl_rel (do_flags d) (lv_flags ws vals).

Lemma cv_list_unique : forall a b ls,
  Forall2 cv_rep a ls -> Forall2 cv_rep b ls -> map cv_width a = map cv_width b -> a = b.
Proof.
  induction a as [|x a IH]; intros b ls Ha Hb Hw.
  - inversion Ha; subst. inversion Hb; subst. reflexivity.
  - inversion Ha as [|? l ? ls' Hx Ha']; subst. inversion Hb as [|y ? b' ? Hy Hb']; subst.
    cbn [map] in Hw. injection Hw as Hw1 Hw2.
    f_equal; [eapply cv_rep_canonical; eassumption | eapply IH; eassumption].
Qed.

Lemma do_rep_unique d d' ws vals : do_rep d ws vals -> do_rep d' ws vals -> d = d'.
Proof.
  intros [D [Wd F]] [D' [Wd' F']]. destruct d as [dd df], d' as [dd' df']. cbn [do_data do_flags] in *.
  f_equal; [eapply cv_list_unique; try eassumption; congruence | eapply fl_rel_unique; eassumption].
Qed.

Lemma pow2_lt_W w : w < 64 -> 2 ^ w < W.
Proof. intro H. rewrite W_eq. apply N.pow_lt_mono_r; [reflexivity | exact H]. Qed.

Lemma cap50 n w : n <= 2 ^ 50 -> w <= 63 -> n * w < 2 ^ 56.
Proof.
  intros Hn Hw. assert (n * w <= 2 ^ 50 * 63) by (apply N.mul_le_mono; assumption).
  change (2 ^ 50) with 1125899906842624 in *. change (2 ^ 56) with 72057594037927936. lia.
Qed.
Lemma cap50' n w : n < 2 ^ 50 -> w <= 64 -> n * w < 2 ^ 56.
Proof.
  intros Hn Hw. assert (n * w <= (2 ^ 50 - 1) * 64) by (apply N.mul_le_mono; lia).
  change (2 ^ 50) with 1125899906842624 in *. change (2 ^ 56) with 72057594037927936. lia.
Qed.

(* ------------------------------------------------------------------ *)
(* build: one value through the levels                                  *)

Lemma do_push_unfold c width rest nlev j x data flags :
  do_push_levels c (width :: rest) nlev j x data flags =
  (t <- shl c 1 width ;; mask <- sub c t 1 ;;
   _ <- assert_ (j <? lenN data) ;;
   r <- cv_push_int c (nthN data j cv_default) (N.land x mask) ;;
   _ <- assert_ (snd r) ;;
   let data := setN data j (fst r) in
   x <- shr c x width ;;
   nl1 <- sub c nlev 1 ;;
   if j =? nl1 then (_ <- assert_ (x =? 0) ;; Ok (data, flags))
   else
     _ <- assert_ (j <? lenN flags) ;;
     fj <- push_bit c (nthN flags j bv_empty) (negb (x =? 0)) ;;
     let flags := setN flags j fj in
     if x =? 0 then Ok (data, flags)
     else do_push_levels c rest nlev (j + 1) x data flags).
Proof. reflexivity. Qed.

Lemma do_push_ok c : forall ws nl j x xs dpre cvs fpre bvs,
  ws <> [] -> nl = j + lenN ws -> lenN dpre = j -> lenN fpre = j ->
  Forall (fun w => 1 <= w <= 63) ws ->
  Forall2 cv_rep cvs (lv_chunks ws xs) -> map cv_width cvs = ws ->
  Forall2 bv_rel bvs (lv_flags ws xs) ->
  x < 2 ^ sum_list ws -> lenN xs < 2 ^ 50 ->
  exists cvs' bvs',
    do_push_levels c ws nl j x (dpre ++ cvs) (fpre ++ bvs) = Ok (dpre ++ cvs', fpre ++ bvs') /\
    Forall2 cv_rep cvs' (lv_chunks ws (xs ++ [x])) /\ map cv_width cvs' = ws /\
    Forall2 bv_rel bvs' (lv_flags ws (xs ++ [x])).
Proof.
  induction ws as [|w rest IH]; intros nl j x xs dpre cvs fpre bvs Hne Hnl Hd Hfl Hws HC HWd HR Hx Hlen;
    [congruence|].
  rewrite do_push_unfold.
  inversion Hws as [|w_ r_ Hw Hrest]; subst w_ r_.
  rewrite lv_chunks_cons in HC. inversion HC as [|cv l0 cvs0 ls0 Hcv HC']; subst cvs l0 ls0.
  cbn [map] in HWd. injection HWd as Ew HWd'.
  rewrite lenN_cons in *. rewrite sum_list_cons in Hx.
  pose proof (pow2_lt_W w ltac:(lia)) as HpW.
  pose proof (N.pow_nonzero 2 w ltac:(discriminate)) as Hpnz.
  rewrite shl_ok_small by (rewrite ?N.mul_1_l; first [lia | exact HpW]). cbn [bind].
  rewrite N.mul_1_l. rewrite sub_ok by lia. cbn [bind].
  replace (2 ^ w - 1) with (N.ones w) by (rewrite N.ones_equiv; lia).
  rewrite land_ones_lo.
  rewrite assert_ok by (apply N.ltb_lt, lenN_app_cons_gt; exact Hd). cbn [bind].
  rewrite (nthN_app_mid dpre _ _ j cv_default Hd).
  pose proof (lo_lt w x) as Hlo.
  destruct (cv_push_int_spec c cv (map (lo w) xs) (lo w x) Hcv ltac:(lia)) as [cv' [ok [E [Eok [Ew' [Hok _]]]]]].
  { intros _. rewrite lenN_map, Ew. apply cap50; lia. }
  assert (Eok' : ok = true) by (rewrite Eok, Ew; apply N.ltb_lt; exact Hlo).
  specialize (Hok Eok'). rewrite Eok' in E. clear Eok.
  replace (map (lo w) xs ++ [lo w x]) with (map (lo w) (xs ++ [x])) in Hok by (rewrite map_app; reflexivity).
  rewrite E. cbn [bind fst snd assert_]. cbv zeta.
  rewrite (setN_app_cons dpre _ _ j _ Hd).
  rewrite shr_ok by lia. cbn [bind]. fold (hi w x).
  rewrite sub_ok by lia. cbn [bind].
  destruct rest as [|w' rest].
  - (* last level *)
    change (lenN (@nil N)) with 0 in *.
    rewrite (proj2 (N.eqb_eq j (nl - 1))) by lia.
    rewrite sum_list_nil, N.add_0_r in Hx.
    assert (H0 : hi w x = 0) by (apply hi_small; exact Hx).
    rewrite H0. change (0 =? 0) with true. cbn [assert_ bind lv_chunks].
    cbn [lv_chunks] in HC'. inversion HC'. subst cvs0.
    exists [cv'], bvs. split; [reflexivity|].
    split; [constructor; [exact Hok | constructor]|]. split; [cbn [map]; rewrite Ew', Ew; reflexivity|].
    exact HR.
  - rewrite lenN_cons in *.
    rewrite (proj2 (N.eqb_neq j (nl - 1))) by lia.
    rewrite lv_flags_cons in HR.
    inversion HR as [|bv l0 brest ls0 Hbv HR']; subst bvs l0 ls0.
    rewrite assert_ok by (apply N.ltb_lt, lenN_app_cons_gt; exact Hfl). cbn [bind].
    destruct (push_flag_step c fpre bv brest (lv_flag w xs) (nz (hi w x)) j Hfl Hbv) as [bv' [E2 [Hbv' Es]]].
    { rewrite lenN_lv_flag. change (2 ^ 50) with 1125899906842624 in Hlen.
      change (2 ^ 56) with 72057594037927936. lia. }
    fold (nz (hi w x)). rewrite E2. cbn [bind]. rewrite Es.
    rewrite (lv_chunks_cons w (w' :: rest) (xs ++ [x])).
    rewrite (lv_flags_cons w w' rest (xs ++ [x])), lv_next_snoc.
    rewrite <- lv_flag_snoc in Hbv'.
    destruct (N.eqb_spec (hi w x) 0) as [H0|H0].
    + exists (cv' :: cvs0), (bv' :: brest). split; [reflexivity|].
      split; [constructor; [exact Hok | exact HC']|].
      split; [cbn [map]; rewrite Ew', Ew, HWd'; reflexivity|].
      constructor; [exact Hbv' | exact HR'].
    + rewrite (app_snoc_cons dpre), (app_snoc_cons fpre).
      destruct (IH nl (j + 1) (hi w x) (lv_next w xs) (dpre ++ [cv']) cvs0 (fpre ++ [bv']) brest)
        as [cvs1 [bvs1 [E3 [HC1 [HW1 HR1]]]]].
      * discriminate.
      * rewrite ?lenN_cons. lia.
      * rewrite lenN_app. change (lenN [cv']) with 1. lia.
      * rewrite lenN_app. change (lenN [bv']) with 1. lia.
      * exact Hrest.
      * exact HC'.
      * exact HWd'.
      * exact HR'.
      * apply hi_lt. exact Hx.
      * pose proof (lenN_lv_next w xs). lia.
      * rewrite E3. exists (cv' :: cvs1), (bv' :: bvs1). split.
        -- rewrite <- !app_assoc. reflexivity.
        -- split; [constructor; [exact Hok | exact HC1]|].
           split; [cbn [map]; rewrite Ew', Ew, HW1; reflexivity|].
           constructor; [exact Hbv' | exact HR1].
Qed.

(* all values *)
Lemma do_fold_ok c ws : forall l pre cvs bvs,
  ws <> [] -> Forall (fun w => 1 <= w <= 63) ws ->
  Forall (fun x => x < 2 ^ sum_list ws) l -> lenN pre + lenN l < 2 ^ 50 ->
  Forall2 cv_rep cvs (lv_chunks ws pre) -> map cv_width cvs = ws ->
  Forall2 bv_rel bvs (lv_flags ws pre) ->
  exists cvs' bvs',
    fold_res (fun df x => do_push_levels c ws (lenN ws) 0 x (fst df) (snd df)) l (cvs, bvs)
    = Ok (cvs', bvs') /\
    Forall2 cv_rep cvs' (lv_chunks ws (pre ++ l)) /\ map cv_width cvs' = ws /\
    Forall2 bv_rel bvs' (lv_flags ws (pre ++ l)).
Proof.
  induction l as [|x l IH]; intros pre cvs bvs Hne Hws Hall Hlen HC HW HR.
  - exists cvs, bvs. rewrite app_nil_r. auto.
  - inversion Hall as [|x_ l_ Hx Hall']; subst x_ l_. rewrite lenN_cons in Hlen.
    cbn [fold_res fst snd].
    destruct (do_push_ok c ws (lenN ws) 0 x pre [] cvs [] bvs Hne ltac:(lia) eq_refl eq_refl Hws HC HW HR Hx
                ltac:(lia)) as [cvs1 [bvs1 [E1 [HC1 [HW1 HR1]]]]].
    cbn [app] in E1. rewrite E1. cbn [bind].
    destruct (IH (pre ++ [x]) cvs1 bvs1 Hne Hws Hall') as [cvs2 [bvs2 [E2 [HC2 [HW2 HR2]]]]]; try assumption.
    + rewrite lenN_app. change (lenN [x]) with 1. lia.
    + rewrite <- app_assoc in HC2, HR2. exists cvs2, bvs2. auto.
Qed.

(* ------------------------------------------------------------------ *)
(* build                                                                *)

Definition cv_mk (w : N) : compvec := {| cv_chunks := bv_empty; cv_len := 0; cv_width := w |}.

Lemma cv_new_mk w : 1 <= w <= 64 -> cv_new w = Some (cv_mk w).
Proof.
  intro H. unfold cv_new, width_ok.
  rewrite (proj2 (N.leb_le 1 w)) by lia. rewrite (proj2 (N.leb_le w 64)) by lia. reflexivity.
Qed.
Lemma cv_mk_rep w : 1 <= w <= 64 -> cv_rep (cv_mk w) [].
Proof. intro H. apply cv_rep_inv. split; [apply cv_inv_new; lia | cbn [cv_mk cv_width]; lia]. Qed.

Lemma widths_le_63 ws : Forall (fun w => 1 <= w) ws -> sum_list ws <= 64 -> 2 <= lenN ws ->
  Forall (fun w => 1 <= w <= 63) ws.
Proof.
  intros Hpos Hsum Hlen.
  assert (G : forall l, Forall (fun w => 1 <= w) l ->
                        lenN l <= sum_list l /\ forall w, In w l -> w + lenN l <= sum_list l + 1).
  { induction l as [|a l IH]; intro H.
    - split; [rewrite sum_list_nil; change (lenN (@nil N)) with 0; lia | intros w []].
    - inversion H as [|? ? Ha Hl]; subst. destruct (IH Hl) as [I1 I2].
      rewrite sum_list_cons, lenN_cons. split; [lia|].
      intros w [<-|Hw]; [lia | specialize (I2 w Hw); lia]. }
  destruct (G ws Hpos) as [_ G2]. apply Forall_forall. intros w Hw.
  rewrite Forall_forall in Hpos. specialize (Hpos w Hw). specialize (G2 w Hw). lia.
Qed.

Theorem do_build_rep c vals ws :
  vals <> [] -> ws <> [] -> Forall (fun w => 1 <= w) ws -> sum_list ws <= 64 ->
  Forall (fun x => x < 2 ^ sum_list ws) vals -> lenN vals < 2 ^ 50 ->
  exists d, do_build c vals ws = Ok d /\ do_rep d ws vals.
Proof.
  intros Hvne Hwne Hpos Hsum Hall Hlen. unfold do_build.
  rewrite assert_ok.
  2:{ apply negb_true_iff, N.eqb_neq. destruct vals; [congruence | rewrite lenN_cons; lia]. }
  cbn [bind].
  rewrite assert_ok.
  2:{ apply negb_true_iff, N.eqb_neq. destruct ws; [congruence | rewrite lenN_cons; lia]. }
  cbn [bind].
  destruct (N.eqb_spec (lenN ws) 1) as [E1|E1].
  - (* a single level *)
    destruct ws as [|w0 [|w1 r]]; [congruence | | rewrite !lenN_cons in E1; lia].
    rewrite sum_list_cons, sum_list_nil, N.add_0_r in *.
    inversion Hpos as [|w_ r_ Hw0 _]; subst w_ r_.
    rewrite idx_ok by (rewrite lenN_cons; lia). cbn [bind].
    change (nthN [w0] 0 0) with w0.
    rewrite cv_with_capacity_spec.
    2:{ intros _. pose proof (cap50' (lenN vals) w0 Hlen Hsum) as Hc.
        change (2 ^ 56) with 72057594037927936 in Hc. unfold W. lia. }
    cbn [bind]. rewrite cv_new_mk by lia. cbn [unwrap bind].
    pose proof (cv_mk_rep w0 ltac:(lia)) as Hmk. apply cv_rep_inv in Hmk. destruct Hmk as [Hinv _].
    destruct (cv_push_all_inv c vals (cv_mk w0) [] Hinv) as [v' [E [Ew Hinv']]].
    + exact Hall.
    + cbn [cv_mk cv_width]. change (lenN (@nil N)) with 0. rewrite N.add_0_l.
      apply cv_cap_of_rep; [lia | apply cap50'; assumption].
    + rewrite E. cbn [bind]. eexists. split; [reflexivity|].
      cbn [app cv_mk cv_width] in *. split; [|split].
      * cbn [do_data lv_chunks]. constructor; [|constructor].
        rewrite map_lo_small by exact Hall. apply cv_rep_inv. split; [exact Hinv' | lia].
      * cbn [do_data map]. rewrite Ew. reflexivity.
      * constructor.
  - assert (Hl2 : 2 <= lenN ws).
    { destruct ws as [|w0 [|w1 r]]; [congruence | change (lenN [w0]) with 1 in E1; lia | rewrite !lenN_cons; lia]. }
    pose proof (widths_le_63 ws Hpos Hsum Hl2) as Hws.
    rewrite (fold_res_snoc_map (fun w => unwrap (cv_new w)) cv_mk).
    2:{ intros w Hw. rewrite Forall_forall in Hws. specialize (Hws w Hw). rewrite cv_new_mk by lia. reflexivity. }
    cbn [bind app]. rewrite sub_ok by lia. cbn [bind].
    destruct (do_fold_ok c ws vals [] (map cv_mk ws) (repeat bv_empty (N.to_nat (lenN ws - 1))) Hwne Hws Hall)
      as [cvs [bvs [E [HC [HW HR]]]]].
    + change (lenN (@nil N)) with 0. lia.
    + rewrite lv_chunks_nil. clear -Hws. induction ws as [|w ws IH]; cbn [map length repeat]; constructor.
      * inversion Hws; subst. apply cv_mk_rep. lia.
      * apply IH. inversion Hws; assumption.
    + rewrite map_map. cbn [cv_mk cv_width]. apply map_id.
    + rewrite lv_flags_nil. replace (N.to_nat (lenN ws - 1)) with (length ws - 1)%nat by (unfold lenN; lia).
      apply Forall2_repeat, bv_rel_empty.
    + cbn [app] in E, HC, HR. rewrite E. cbn [bind fst snd].
      destruct (r9_new_all c bvs (lv_flags ws vals) [] HR) as [E2 HF].
      { eapply Forall_impl; [|apply lv_flags_lens]. cbn beta. intros l Hl.
        change (2 ^ 50) with 1125899906842624 in Hlen. change (2 ^ 56) with 72057594037927936. lia. }
      rewrite E2. cbn [bind app]. eexists. split; [reflexivity|]. split; [exact HC | split; [exact HW | exact HF]].
Qed.

(* ------------------------------------------------------------------ *)
(* access                                                               *)

Lemma do_access_unfold c f d j pos x width :
  do_access_loop c (S f) d j pos x width =
  (lv <- idx cv_default (do_data d) j ;;
   b <- cv_access c lv pos ;; b <- unwrap b ;;
   t <- shl c b width ;;
   let x := N.lor x t in
   nl1 <- sub c (do_num_levels d) 1 ;;
   if j =? nl1 then Ok x else
   fl <- idx {| r9_bv := bv_empty; r9_rs := {| r_len := 0; r_brp := []; r_h1 := None; r_h0 := None |} |}
           (do_flags d) j ;;
   a <- r9_access c fl pos ;; a <- unwrap a ;;
   if negb a then Ok x else
   p <- r9_rank1 c fl pos ;; p <- unwrap p ;;
   w <- add c width (cv_width lv) ;;
   do_access_loop c f d (j + 1) p x w).
Proof. reflexivity. Qed.

Lemma do_access_loop_ok c d : forall ws fuel j pos x0 off xs dpre cvs fpre fls,
  ws <> [] -> (length ws <= fuel)%nat ->
  do_data d = dpre ++ cvs -> Forall2 cv_rep cvs (lv_chunks ws xs) -> map cv_width cvs = ws ->
  do_flags d = fpre ++ fls -> Forall2 fl_rel fls (lv_flags ws xs) ->
  lenN dpre = j -> lenN fpre = j -> off + sum_list ws <= 64 ->
  Forall (fun w => 1 <= w) ws ->
  Forall (fun x => x < 2 ^ sum_list ws) xs -> lenN xs < 2 ^ 50 -> pos < lenN xs ->
  do_access_loop c fuel d j pos x0 off = Ok (N.lor x0 (N.shiftl (nthN xs pos 0) off)).
Proof.
  induction ws as [|w rest IH];
    intros fuel j pos x0 off xs dpre cvs fpre fls Hne Hf HD HC HWd HF HR Hd Hfl Hoff Hpos1 Hall Hlen Hpos;
    [congruence|].
  destruct fuel as [|f]; [cbn [length] in Hf; lia|].
  rewrite do_access_unfold.
  inversion Hpos1 as [|w_ r_ Hw Hrest]; subst w_ r_.
  rewrite lv_chunks_cons in HC. inversion HC as [|cv l0 cvs0 ls0 Hcv HC']; subst cvs l0 ls0.
  cbn [map] in HWd. injection HWd as Ew HWd'.
  assert (Hnl : do_num_levels d = j + lenN (w :: rest)).
  { unfold do_num_levels. rewrite HD, lenN_app, Hd. f_equal.
    rewrite <- HWd', <- Ew. change (cv_width cv :: map cv_width cvs0) with (map cv_width (cv :: cvs0)).
    rewrite lenN_map. reflexivity. }
  rewrite Hnl, HD, HF. rewrite lenN_cons, sum_list_cons in *.
  rewrite idx_ok by (apply lenN_app_cons_gt; exact Hd). cbn [bind].
  rewrite (nthN_app_mid dpre _ _ j cv_default Hd).
  assert (Hw64 : cv_width cv <= 64) by (destruct Hcv as [_ [_ [[_ H64] _]]]; exact H64).
  assert (HposW : pos < W).
  { change (2 ^ 50) with 1125899906842624 in Hlen. unfold W. lia. }
  rewrite (cv_access_spec c cv (map (lo w) xs) Hcv) by (first [exact HposW | rewrite lenN_map; apply cap50'; assumption]).
  cbn [bind]. rewrite nth_opt_nthN by (rewrite lenN_map; exact Hpos). cbn [unwrap bind].
  rewrite (nthN_map0 (lo w) xs pos (lo_0 w)).
  set (x := nthN xs pos 0).
  assert (Hx : x < 2 ^ (w + sum_list rest)).
  { rewrite Forall_forall in Hall. apply Hall. unfold x, nthN. apply nth_In. unfold lenN in Hpos. lia. }
  rewrite (shl_chunk c (lo w x) w off) by (first [apply lo_lt | lia]). cbn [bind]. cbv zeta.
  rewrite sub_ok by lia. cbn [bind].
  destruct rest as [|w' rest].
  - change (lenN (@nil N)) with 0. rewrite (proj2 (N.eqb_eq j (j + (0 + 1) - 1))) by lia.
    rewrite sum_list_nil, N.add_0_r in Hx. rewrite lo_small by exact Hx. reflexivity.
  - rewrite lenN_cons. rewrite (proj2 (N.eqb_neq j (j + (lenN rest + 1 + 1) - 1))) by lia.
    rewrite lv_flags_cons in HR.
    inversion HR as [|fl l0 frest ls0 Hfl0 HR']; subst fls l0 ls0.
    rewrite idx_ok by (apply lenN_app_cons_gt; exact Hfl). cbn [bind].
    rewrite (nthN_app_mid fpre _ _ j _ Hfl).
    assert (Hlen56 : lenN xs < 2 ^ 56).
    { change (2 ^ 50) with 1125899906842624 in Hlen. change (2 ^ 56) with 72057594037927936. lia. }
    destruct (fl_read_level c fl w xs pos Hfl0 Hlen56 Hpos) as [EA ER].
    rewrite EA. cbn [bind unwrap]. fold x.
    destruct (nz (hi w x)) eqn:Enz; cbn [negb].
    + rewrite ER. cbn [bind unwrap].
      destruct (lv_step w xs pos Hpos Enz) as [Hp' Hn']. cbv zeta in Hp', Hn'.
      set (p' := BitSpec.count true (firstn (N.to_nat pos) (lv_flag w xs))) in *.
      rewrite add_ok by (unfold W; lia). cbn [bind]. rewrite Ew.
      rewrite (IH f (j + 1) p' _ (off + w) (lv_next w xs) (dpre ++ [cv]) cvs0 (fpre ++ [fl]) frest).
      * rewrite Hn'. fold x. f_equal. apply lor_step.
      * discriminate.
      * cbn [length] in Hf. cbn [length]. lia.
      * rewrite HD, <- app_assoc. reflexivity.
      * exact HC'.
      * exact HWd'.
      * rewrite HF, <- app_assoc. reflexivity.
      * exact HR'.
      * rewrite lenN_app. change (lenN [cv]) with 1. lia.
      * rewrite lenN_app. change (lenN [fl]) with 1. lia.
      * lia.
      * exact Hrest.
      * apply lv_next_bound. exact Hall.
      * pose proof (lenN_lv_next w xs). lia.
      * exact Hp'.
    + unfold nz in Enz. apply negb_false_iff, N.eqb_eq in Enz.
      rewrite (hi_zero_lo w x Enz). reflexivity.
Qed.

(* ------------------------------------------------------------------ *)
(* the queries of a represented value                                   *)

Section Queries.
Variables (d : dacsopt) (vals ws : list N).
Hypothesis Hne : ws <> [].
Hypothesis Hpos : Forall (fun w => 1 <= w) ws.
Hypothesis Hsum : sum_list ws <= 64.
Hypothesis Hrep : do_rep d ws vals.
Hypothesis Hall : Forall (fun x => x < 2 ^ sum_list ws) vals.
Hypothesis Hlen : lenN vals < 2 ^ 50.

Lemma do_len_ok c : do_len c d = Ok (lenN vals).
Proof.
  destruct Hrep as [D _]. destruct ws as [|w r]; [congruence|].
  rewrite lv_chunks_cons in D. inversion D as [|cv l0 cvs0 ls0 Hcv _ E]; subst l0 ls0.
  unfold do_len. rewrite <- E. rewrite idx_ok by (rewrite lenN_cons; lia). cbn [bind].
  change (nthN (cv :: cvs0) 0 cv_default) with cv.
  destruct Hcv as [_ [Hl _]]. rewrite Hl, lenN_map. reflexivity.
Qed.

Lemma do_num_levels_ok : do_num_levels d = lenN ws.
Proof.
  destruct Hrep as [_ [Wd _]]. unfold do_num_levels. rewrite <- Wd, lenN_map. reflexivity.
Qed.

Lemma do_widths_ok : do_widths d = ws.
Proof. destruct Hrep as [_ [Wd _]]. exact Wd. Qed.

Lemma do_access_ok c i : i < W -> do_access c d i = Ok (nth_opt vals i).
Proof.
  intro Hi. unfold do_access. rewrite do_len_ok. cbn [bind].
  destruct (N.leb_spec (lenN vals) i) as [Hge|Hlt].
  - rewrite nth_opt_oob by exact Hge. reflexivity.
  - rewrite nth_opt_nthN by exact Hlt. rewrite do_num_levels_ok.
    destruct Hrep as [D [Wd F]].
    rewrite (do_access_loop_ok c d ws (N.to_nat (lenN ws)) 0 i 0 0 vals [] (do_data d) [] (do_flags d));
      try first [reflexivity | assumption | lia].
    + cbn [bind]. rewrite N.lor_0_l, N.shiftl_0_r. reflexivity.
    + unfold lenN. lia.
Qed.

Lemma do_iter_next_ok c pos : pos < W ->
  do_iter_next c d pos = Ok (gstep (nth_opt vals) (lenN vals) pos).
Proof.
  intro Hp. unfold do_iter_next. rewrite do_len_ok. cbn [bind].
  change (if pos <? lenN vals
          then a <- do_access c d pos ;; x <- unwrap a ;; p <- add c pos 1 ;; Ok (p, Some x)
          else Ok (pos, None))
    with (index_next c (do_access c d) (lenN vals) pos).
  apply index_next_step.
  - change (2 ^ 50) with 1125899906842624 in Hlen. change (2 ^ 56) with 72057594037927936. lia.
  - intros _. apply do_access_ok, Hp.
  - intro H. rewrite nth_opt_nthN by exact H. discriminate.
Qed.

Lemma do_iter_ok c :
  iter_ok (nth_opt vals) (lenN vals) (do_iter_next c d) (iter_size_hint c (lenN vals)).
Proof.
  apply index_iter_ok.
  - change (2 ^ 50) with 1125899906842624 in Hlen. change (2 ^ 56) with 72057594037927936. lia.
  - intros pos Hp. apply do_iter_next_ok, Hp.
  - intros pos Hp. apply size_hint_ok, Hp.
Qed.
End Queries.

(* ------------------------------------------------------------------ *)
(* the widths do not depend on the configuration                        *)
(* (Proofs/DP_Walk.v proves existence of an optimal admissible result per configuration; here the
   same computation is followed once more with the explicit witness, a function of the pure tables) *)

Lemma list_nthN_ext (a b : list N) B (h : N -> N) :
  lenN a = B + 1 -> lenN b = B + 1 ->
  (forall j, j <= B -> nthN a j 0 = h j) -> (forall j, j <= B -> nthN b j 0 = h j) -> a = b.
Proof.
  intros La Lb Ha Hb. apply (nth_ext a b 0 0).
  - unfold lenN in *. lia.
  - intros k Hk. specialize (Ha (N.of_nat k) ltac:(unfold lenN in La; lia)).
    specialize (Hb (N.of_nat k) ltac:(unfold lenN in La; lia)).
    unfold nthN in Ha, Hb. rewrite Nat2N.id in Ha, Hb. congruence.
Qed.

Section TailValue.
Variable c : cfg.
Variable h : N -> N.
Variable B n : N.
Variable nums : list N.
Hypothesis HB : B <= 64.
Hypothesis HB1 : 1 <= B.
Hypothesis Hn : n < 2 ^ 56.
Hypothesis hn : forall j, h j <= n.
Hypothesis hpos : forall j, j < B -> 1 <= h j.
Hypothesis Lnums : lenN nums = B + 1.
Hypothesis Hnums : forall j, j <= B -> nthN nums j 0 = h j.

Lemma cow_tail_value ML : 1 <= ML -> ML <= B ->
  cow_tail c B ML nums = Ok (wchain h B (N.to_nat (snd (minlev (TT h B) (ML - 1)))) 0).
Proof.
  intros HM1 HMB. unfold cow_tail.
  rewrite (col0_fold c h B n nums HB HB1 Hn hn hpos Lnums Hnums (nseq B) ([], []))
    by (intros j Hj; apply In_nseq; exact Hj).
  cbn [bind fst snd app].
  rewrite sub_ok by exact HM1. cbn [bind].
  set (ml1 := ML - 1). set (m := N.to_nat ml1).
  change (dp_columns c m B nums [map (fun j => fst (tab h B 0 j)) (nseq B) ++ [0]]
                                [map (fun i => snd (tab h B 0 i)) (nseq B) ++ [0]])
    with (dp_columns c m B nums (map (col_s h B) (seq 0 1)) (map (col_b h B) (seq 0 1))).
  rewrite (dp_columns_ok c h B n nums HB HB1 Hn hn hpos Lnums Hnums). cbn [bind fst snd].
  change (1 + m)%nat with (S m).
  rewrite idx_ok by (rewrite lenN_map_seq; lia). cbn [bind].
  rewrite nthN_map_seq by (change (N.to_nat 0) with 0%nat; lia). change (N.to_nat 0) with 0%nat.
  rewrite idx_ok by (rewrite lenN_col_s; lia). cbn [bind].
  rewrite (nthN_col_s h B n nums HB HB1 Hn hn hpos Lnums Hnums) by lia.
  change (fst (tab h B 0 0)) with (TT h B 0).
  rewrite (lev_fold h B n nums HB HB1 Hn hn hpos Lnums Hnums) by (unfold m; lia). cbn [bind].
  destruct (minlev_spec (TT h B) ml1) as [M1 [M2 M3]].
  set (rsN := snd (minlev (TT h B) ml1)) in *. set (rs := N.to_nat rsN).
  rewrite add_ok by (unfold W; lia). cbn [bind].
  assert (Hmin : forall r, (r <= m)%nat -> fst (tab h B rs 0) <= fst (tab h B r 0)).
  { intros r Hr. specialize (M3 (N.of_nat r) ltac:(unfold m in Hr; lia)).
    unfold TT in M2, M3. rewrite Nat2N.id in M3. fold rs in M2. rewrite <- M2. exact M3. }
  destruct (dp_pure_optimal h B n HB Hn hn hpos m rs HB1 ltac:(unfold rs, m; lia) Hmin)
    as [C [Len Opt]].
  set (ws := wchain h B rs 0) in *.
  replace (N.to_nat (rsN + 1)) with (S rs) by (unfold rs; lia).
  change (repeat 0 (S rs)) with ([] ++ repeat 0 (S rs)).
  rewrite (walk_ok c h B n nums HB HB1 Hn hn hpos Lnums Hnums
             (rsN + 1) (map (col_b h B) (seq 0 (S m))) ltac:(lia)
             ltac:(intros k Hk; rewrite idx_ok by (rewrite lenN_map_seq; unfold m; lia);
                   rewrite nthN_map_seq by (unfold m; lia); rewrite Nat2N.id; reflexivity)
             rs 66%nat 0 0 []) by (first [reflexivity | unfold rs; lia]).
  fold ws. rewrite Len, Nat.sub_diag. cbn [repeat app]. rewrite app_nil_r. cbn [bind].
  assert (LenN : lenN ws = rsN + 1) by (unfold lenN; rewrite Len; unfold rs; lia).
  rewrite assert_ok by (apply N.eqb_refl). cbn [bind].
  rewrite assert_ok by (apply N.eqb_eq; lia). cbn [bind].
  pose proof (chain_sum B ws 0 C) as Sum.
  rewrite fold_add_ok by (unfold W; lia). cbn [bind].
  rewrite assert_ok by (apply N.eqb_eq; lia). cbn [bind].
  reflexivity.
Qed.
End TailValue.

(* the widths as a function of the input alone *)
Definition opt_widths (vals : list N) (ml : N) : list N :=
  let B := bitlen (max_list vals) in
  wchain (reach vals) B (N.to_nat (snd (minlev (TT (reach vals) B) (N.min ml B - 1)))) 0.

Theorem compute_opt_widths_value : forall c vals ml,
  vals <> [] -> 1 <= ml -> ml <= 64 -> Forall (fun x => x < W) vals -> lenN vals < 2 ^ 56 ->
  compute_opt_widths c vals ml = Ok (opt_widths vals ml).
Proof.
  intros c vals ml Hne Hml1 Hml64 HW Hlen. unfold opt_widths. cbv zeta.
  set (B := bitlen (max_list vals)).
  pose proof (DP_Hist.max_list_lt_W vals HW) as HmW.
  pose proof (bitlen_pos (max_list vals)) as HB1. fold B in HB1.
  pose proof (bitlen_le_64 _ HmW) as HB. fold B in HB.
  assert (Hv : forall x, In x vals -> x < W /\ bitlen x <= B).
  { intros x Hx. split; [rewrite Forall_forall in HW; apply HW, Hx|].
    apply bitlen_mono, max_list_ge, Hx. }
  assert (hpos : forall j, j < B -> 1 <= reach vals j).
  { intros j Hj. apply (reach_pos vals (max_list vals) j); [apply max_list_in, Hne | exact Hj]. }
  destruct (nums_ints_ok c B HB vals Hv Hlen) as [nums [En [Ln Nn]]].
  rewrite cow_unfold.
  rewrite assert_ok.
  2:{ apply negb_true_iff, N.eqb_neq. destruct vals; [congruence|]. rewrite lenN_cons. lia. }
  cbn [bind].
  rewrite assert_ok by (apply negb_true_iff, N.eqb_neq; lia). cbn [bind].
  rewrite DP_Hist.needed_bits_ok by exact HmW. cbn [bind]. fold B.
  rewrite En. cbn [bind].
  rewrite idx_ok by lia. cbn [bind].
  rewrite Nn by lia. rewrite reach_0.
  rewrite dassert_ok by apply N.eqb_refl. cbn [bind].
  rewrite (last_opt_nthN nums B 0 Ln). cbn [unwrap bind].
  rewrite Nn by lia. rewrite (reach_top vals B) by (intros x Hx; apply Hv, Hx).
  rewrite dassert_ok by reflexivity. cbn [bind].
  apply (cow_tail_value c (reach vals) B (lenN vals) nums HB HB1 Hlen (reach_le vals) hpos Ln Nn
           (N.min ml B) ltac:(lia) ltac:(lia)).
Qed.

(* ------------------------------------------------------------------ *)
(* from_slice and C10                                                   *)

Definition ml_of (mlo : option N) : N := match mlo with Some m => m | None => 64 end.

Lemma admissible_unfold vals ws L : admissible vals ws L = true <->
  1 <= lenN ws <= L /\ Forall (fun w => 1 <= w) ws /\ sum_list ws = bitlen (max_list vals).
Proof.
  unfold admissible. rewrite !andb_true_iff, !N.leb_le, N.eqb_eq, forallb_forall, Forall_forall.
  split.
  - intros [[[H1 H2] H3] H4]. split; [lia|]. split; [|exact H4]. intros w Hw. apply N.leb_le, H3, Hw.
  - intros [[H1 H2] [H3 H4]]. split; [split; [split; assumption|]|exact H4].
    intros w Hw. apply N.leb_le, H3, Hw.
Qed.

Theorem do_from_slice_reject c vals mlo :
  (1 <=? ml_of mlo) && (ml_of mlo <=? 64) = false -> do_from_slice c vals mlo = Ok None.
Proof.
  intro H. unfold do_from_slice. cbv zeta.
  change (match mlo with Some m => m | None => 64 end) with (ml_of mlo). rewrite H. reflexivity.
Qed.

Theorem do_from_slice_nil c mlo : 1 <= ml_of mlo <= 64 -> do_from_slice c [] mlo = Ok (Some do_default).
Proof.
  intro H. unfold do_from_slice. cbv zeta.
  change (match mlo with Some m => m | None => 64 end) with (ml_of mlo).
  rewrite (proj2 (N.leb_le 1 (ml_of mlo))) by lia. rewrite (proj2 (N.leb_le (ml_of mlo) 64)) by lia.
  reflexivity.
Qed.

Theorem do_from_slice_rep c vals mlo :
  vals <> [] -> Forall (fun x => x < W) vals -> lenN vals < 2 ^ 50 -> 1 <= ml_of mlo <= 64 ->
  exists d, do_from_slice c vals mlo = Ok (Some d) /\ do_rep d (opt_widths vals (ml_of mlo)) vals.
Proof.
  intros Hne HW Hlen Hml.
  assert (Hlen56 : lenN vals < 2 ^ 56).
  { change (2 ^ 50) with 1125899906842624 in Hlen. change (2 ^ 56) with 72057594037927936. lia. }
  pose proof (compute_opt_widths_value c vals (ml_of mlo) Hne ltac:(lia) ltac:(lia) HW Hlen56) as EV.
  destruct (compute_opt_widths_optimal c vals (ml_of mlo) Hne ltac:(lia) ltac:(lia) HW Hlen56)
    as [ws [E [Adm _]]].
  rewrite EV in E. injection E as <-.
  apply admissible_unfold in Adm. destruct Adm as [[L1 L2] [Hpos Hsum]].
  pose proof (bitlen_le_64 _ (DP_Hist.max_list_lt_W vals HW)) as HB.
  destruct (do_build_rep c vals (opt_widths vals (ml_of mlo))) as [d [Eb Hrep]]; try assumption.
  - intro E0. rewrite E0 in L1. change (lenN (@nil N)) with 0 in L1. lia.
  - lia.
  - rewrite Hsum. apply vals_lt_pow. lia.
  - exists d. split; [|exact Hrep].
    unfold do_from_slice. cbv zeta.
    change (match mlo with Some m => m | None => 64 end) with (ml_of mlo).
    rewrite (proj2 (N.leb_le 1 (ml_of mlo))) by lia. rewrite (proj2 (N.leb_le (ml_of mlo) 64)) by lia.
    cbn [andb negb]. destruct vals as [|v vs]; [congruence|].
    rewrite EV. cbn [bind]. rewrite Eb. reflexivity.
Qed.

(* the empty input: the default value with one (empty, width 0) level *)
Lemma do_default_len c : do_len c do_default = Ok 0.
Proof. reflexivity. Qed.
Lemma do_default_access c i : do_access c do_default i = Ok None.
Proof. unfold do_access. rewrite do_default_len. cbn [bind]. rewrite (proj2 (N.leb_le 0 i)) by lia. reflexivity. Qed.
Lemma do_default_iter_next c pos : do_iter_next c do_default pos = Ok (pos, None).
Proof.
  unfold do_iter_next. rewrite do_default_len. cbn [bind].
  destruct (N.ltb_spec pos 0) as [H|H]; [lia | reflexivity].
Qed.

Theorem dacsopt_lossless : forall vals mlo,
  Forall (fun x => x < W) vals -> lenN vals < 2 ^ 50 -> 1 <= ml_of mlo <= 64 ->
  exists d,
    (forall c, do_from_slice c vals mlo = Ok (Some d)) /\
    (forall c, do_len c d = Ok (lenN vals)) /\
    1 <= do_num_levels d <= N.min (ml_of mlo) 64 /\
    (vals = [] -> d = do_default) /\
    (vals <> [] ->
       (forall c, compute_opt_widths c vals (ml_of mlo) = Ok (do_widths d)) /\
       admissible vals (do_widths d) (ml_of mlo) = true /\
       (forall ws', admissible vals ws' (ml_of mlo) = true -> cost vals (do_widths d) <= cost vals ws')) /\
    (forall c i, i < W -> do_access c d i = Ok (nth_opt vals i)) /\
    (forall c pos, pos < W ->
       do_iter_next c d pos = Ok (if pos <? lenN vals then (pos + 1, nth_opt vals pos) else (pos, None))) /\
    (forall c, iter_ok (nth_opt vals) (lenN vals) (do_iter_next c d) (iter_size_hint c (lenN vals))).
Proof.
  intros vals mlo HW Hlen Hml.
  destruct vals as [|v vs].
  { exists do_default. split; [intro c; apply do_from_slice_nil; exact Hml|].
    split; [intro c; reflexivity|]. split; [change (do_num_levels do_default) with 1; lia|].
    split; [reflexivity|]. split; [congruence|].
    assert (Hnext : forall c pos, do_iter_next c do_default pos
                      = Ok (if pos <? lenN (@nil N) then (pos + 1, nth_opt [] pos) else (pos, None))).
    { intros c pos. rewrite do_default_iter_next.
      destruct (N.ltb_spec pos (lenN (@nil N))) as [H|H]; [change (lenN (@nil N)) with 0 in H; lia | reflexivity]. }
    split; [intros c i _; rewrite do_default_access, nth_opt_oob by (change (lenN (@nil N)) with 0; lia);
            reflexivity|].
    split; [intros c pos _; apply Hnext|].
    intro c. apply index_iter_ok.
    - reflexivity.
    - intros pos _. apply Hnext.
    - intros pos Hp. apply size_hint_ok, Hp. }
  set (vals := v :: vs) in *. assert (Hne : vals <> []) by discriminate.
  set (ws := opt_widths vals (ml_of mlo)).
  assert (Hlen56 : lenN vals < 2 ^ 56).
  { change (2 ^ 50) with 1125899906842624 in Hlen. change (2 ^ 56) with 72057594037927936. lia. }
  set (c0 := {| dbg := true; intr := true |}).
  pose proof (compute_opt_widths_value c0 vals (ml_of mlo) Hne ltac:(lia) ltac:(lia) HW Hlen56) as EV.
  destruct (compute_opt_widths_optimal c0 vals (ml_of mlo) Hne ltac:(lia) ltac:(lia) HW Hlen56)
    as [ws0 [E [Adm Opt]]].
  rewrite EV in E. injection E as <-. fold ws in Adm, Opt.
  pose proof Adm as Adm'. apply admissible_unfold in Adm'. destruct Adm' as [[L1 L2] [Hpos Hsum]].
  pose proof (bitlen_le_64 _ (DP_Hist.max_list_lt_W vals HW)) as HB.
  assert (Hwne : ws <> []).
  { intro E0. rewrite E0 in L1. change (lenN (@nil N)) with 0 in L1. lia. }
  assert (Hs64 : sum_list ws <= 64) by lia.
  assert (Hall : Forall (fun x => x < 2 ^ sum_list ws) vals) by (rewrite Hsum; apply vals_lt_pow; lia).
  destruct (do_from_slice_rep c0 vals mlo Hne HW Hlen Hml) as [d [E0 Hrep]]. fold ws in Hrep.
  exists d. split; [|split; [|split; [|split; [|split; [|split; [|split]]]]]].
  - intro c. destruct (do_from_slice_rep c vals mlo Hne HW Hlen Hml) as [d' [E' Hrep']].
    rewrite E'. do 2 f_equal. eapply do_rep_unique; eassumption.
  - intro c. eapply do_len_ok; eassumption.
  - rewrite (do_num_levels_ok d vals ws Hrep). lia.
  - intro H. congruence.
  - intros _. rewrite (do_widths_ok d vals ws Hrep). split; [|split; assumption].
    intro c. apply compute_opt_widths_value; try assumption; lia.
  - intros c i Hi. eapply do_access_ok; eassumption.
  - intros c pos Hp. eapply do_iter_next_ok; eassumption.
  - intro c. eapply do_iter_ok; eassumption.
Qed.

(* ------------------------------------------------------------------ *)
(* a decidable check of the C10 statement on a concrete input, for the examples of Props/C10.v *)
Definition do_probes : list N := [0; 1; 2; 3; 4; 5; 6; 100; 18446744073709551615].
Definition do_opt_eqb (a b : option N) : bool :=
  match a, b with Some x, Some y => x =? y | None, None => true | _, _ => false end.
Definition do_check (c : cfg) (vals : list N) (mlo : option N) : bool :=
  forallb (fun x => x <? W) vals && (lenN vals <? 2 ^ 50) &&
  match do_from_slice c vals mlo with
  | Panic => false
  | Ok None => negb ((1 <=? ml_of mlo) && (ml_of mlo <=? 64))
  | Ok (Some d) =>
    (1 <=? ml_of mlo) && (ml_of mlo <=? 64) &&
    (match do_len c d with Ok n => n =? lenN vals | Panic => false end) &&
    (1 <=? do_num_levels d) && (do_num_levels d <=? N.min (ml_of mlo) 64) &&
    (match vals with [] => true | _ => admissible vals (do_widths d) (ml_of mlo) end) &&
    forallb (fun i => match do_access c d i with Ok r => do_opt_eqb r (nth_opt vals i) | Panic => false end)
            do_probes
  end.

(* Prop-level forms for Props/C10.v *)
Theorem do_from_slice_reject' c vals m : ~ (1 <= m <= 64) -> do_from_slice c vals (Some m) = Ok None.
Proof.
  intro H. apply do_from_slice_reject. cbn [ml_of].
  destruct (N.leb_spec 1 m); destruct (N.leb_spec m 64); cbn [andb]; try reflexivity. lia.
Qed.

Corollary dacsopt_widths : forall c vals mlo d,
  vals <> [] -> Forall (fun x => x < W) vals -> lenN vals < 2 ^ 50 -> 1 <= ml_of mlo <= 64 ->
  do_from_slice c vals mlo = Ok (Some d) ->
  do_num_levels d = lenN (do_widths d) /\
  1 <= lenN (do_widths d) <= N.min (ml_of mlo) 64 /\
  Forall (fun w => 1 <= w) (do_widths d) /\
  sum_list (do_widths d) = bitlen (max_list vals).
Proof.
  intros c vals mlo d Hne HW Hlen Hml E.
  destruct (dacsopt_lossless vals mlo HW Hlen Hml) as [d0 [E0 [_ [_ [_ [HA _]]]]]].
  rewrite E0 in E. injection E as <-.
  destruct (HA Hne) as [_ [Adm _]]. apply admissible_unfold in Adm. destruct Adm as [L [P S]].
  split; [unfold do_num_levels, do_widths; rewrite lenN_map; reflexivity|].
  split; [lia|]. split; assumption.
Qed.
