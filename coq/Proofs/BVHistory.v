(* Proofs/BVHistory.v — C07 part b: the model run of a whole mutation history equals the
   plain-list run (`history_spec`), and a well-formed model value is determined by the list it
   denotes (`canonical`); hence two histories with the same final list give equal model values. *)
From Sucds Require Import Base.Res Spec.WordSpec Spec.BitSpec Model.BitVector
  Proofs.ResLemmas Proofs.BVAbs Proofs.BVMutLemmas Proofs.BVMut.
From Coq Require Import ZArith ZifyN ZifyBool ZifyNat Lia.
Ltac Zify.zify_post_hook ::= Z.div_mod_to_equations.
Open Scope N_scope.

(* the model side of one operation / of a history *)
Definition apply_model (c : cfg) (bv : bitvec) (o : bvop) : res (bitvec * bool) :=
  match o with
  | OFromBit b len => r <- from_bit c b len ;; Ok (r, true)
  | OFromBits l => r <- from_bits c l ;; Ok (r, true)
  | OPushBit b => r <- push_bit c bv b ;; Ok (r, true)
  | OPushBits bits len => push_bits c bv bits len
  | OSetBit pos b => set_bit c bv pos b
  | OSetBits pos bits len => set_bits c bv pos bits len
  | OExtend l => r <- extend c bv l ;; Ok (r, true)
  end.

Fixpoint run_model (c : cfg) (bv : bitvec) (ops : list bvop) : res (bitvec * list bool) :=
  match ops with
  | [] => Ok (bv, [])
  | o :: r =>
      x <- apply_model c bv o ;;
      y <- run_model c (fst x) r ;;
      Ok (fst y, snd x :: snd y)
  end.

(* side conditions: numeric operands are usize values, and the list AFTER the operation is
   shorter than 2^56 (the capacity hypothesis of DESIGN.md section 3.3) *)
Definition operands_ok (o : bvop) : Prop :=
  match o with
  | OFromBit _ len => len < W
  | OPushBits bits len => bits < W /\ len < W
  | OSetBit pos _ => pos < W
  | OSetBits pos bits len => pos < W /\ bits < W /\ len < W
  | OFromBits _ | OPushBit _ | OExtend _ => True
  end.
Definition op_ok (s : list bool) (o : bvop) : Prop :=
  operands_ok o /\ lenN (fst (apply_op s o)) < 2 ^ 56.
Fixpoint ops_ok (s : list bool) (ops : list bvop) : Prop :=
  match ops with
  | [] => True
  | o :: r => op_ok s o /\ ops_ok (fst (apply_op s o)) r
  end.

Lemma op_post_ctor bv o (r : res bitvec) l :
  apply_op (bits_of bv) o = (l, true) ->
  (exists bv', r = Ok bv' /\ wf bv' /\ bits_of bv' = l) ->
  op_post bv o (x <- r ;; Ok (x, true)).
Proof.
  intros E [bv' [-> [Hwf Hb]]]. cbn [bind]. exists bv', true. rewrite E. cbn [fst snd].
  split; [reflexivity|]. split; [exact Hwf|]. split; [exact Hb|]. split; [reflexivity | discriminate].
Qed.

(* (1) combined per-operation theorem *)
Theorem apply_model_spec c bv o : wf bv -> op_ok (bits_of bv) o ->
  exists bv' ok, apply_model c bv o = Ok (bv', ok) /\ wf bv' /\
    bits_of bv' = fst (apply_op (bits_of bv) o) /\
    ok = snd (apply_op (bits_of bv) o) /\
    (ok = false -> bv' = bv).
Proof.
  intros Hwf [_ Hcap]. change (op_post bv o (apply_model c bv o)).
  pose proof (bits_of_length bv Hwf) as HL.
  destruct o as [b len | l | b | bits len | pos b | pos bits len | l]; cbn [apply_model].
  - eapply op_post_ctor; [reflexivity|]. apply from_bit_spec.
    cbn [apply_op fst] in Hcap. rewrite lenN_repeatN in Hcap. exact Hcap.
  - eapply op_post_ctor; [reflexivity|]. apply from_bits_spec. exact Hcap.
  - eapply op_post_ctor; [reflexivity|]. apply push_bit_spec; [exact Hwf|].
    cbn [apply_op fst] in Hcap. rewrite lenN_app, HL in Hcap. exact Hcap.
  - apply push_bits_spec; assumption.
  - apply set_bit_spec. exact Hwf.
  - apply set_bits_spec; [exact Hwf|].
    cbn [apply_op] in Hcap. rewrite HL in Hcap.
    destruct ((len <=? 64) && (pos + len <=? bv_len bv)) eqn:E; cbn [fst] in Hcap.
    + apply andb_prop in E. destruct E as [E1 E2]. apply N.leb_le in E1, E2.
      rewrite lenN_overwrite, HL in Hcap; [exact Hcap | rewrite lenN_low_bits, HL; exact E2].
    + rewrite HL in Hcap. exact Hcap.
  - eapply op_post_ctor; [reflexivity|]. apply extend_spec; [exact Hwf|].
    cbn [apply_op fst] in Hcap. rewrite lenN_app, HL in Hcap. exact Hcap.
Qed.

(* (2) histories, from any well-formed start state *)
Lemma run_model_spec c ops : forall bv, wf bv -> ops_ok (bits_of bv) ops ->
  exists bv', run_model c bv ops = Ok (bv', snd (run_ops (bits_of bv) ops)) /\
    wf bv' /\ bits_of bv' = fst (run_ops (bits_of bv) ops).
Proof.
  induction ops as [|o r IH]; intros bv Hwf Hok.
  - exists bv. cbn [run_model run_ops fst snd]. auto.
  - destruct Hok as [Ho Hr].
    destruct (apply_model_spec c bv o Hwf Ho) as [bv1 [ok [E [Hwf1 [Hb1 [Hk _]]]]]].
    cbn [run_model run_ops]. rewrite E. cbn [bind fst snd].
    destruct (apply_op (bits_of bv) o) as [s1 ok1] eqn:Eop. cbn [fst snd] in *. subst ok1.
    rewrite <- Hb1 in Hr. destruct (IH bv1 Hwf1 Hr) as [bv2 [E2 [Hwf2 Hb2]]].
    rewrite E2. cbn [bind fst snd]. rewrite Hb1 in Hb2, E2 |- *.
    destruct (run_ops s1 r) as [s2 oks]. cbn [fst snd] in *.
    exists bv2. auto.
Qed.

Theorem history_spec c ops : ops_ok [] ops ->
  exists bv, run_model c bv_empty ops = Ok (bv, snd (run_ops [] ops)) /\
    wf bv /\ bits_of bv = fst (run_ops [] ops).
Proof. intro H. apply (run_model_spec c ops bv_empty wf_empty). exact H. Qed.

(* (3) canonicity *)
Theorem canonical a b : wf a -> wf b -> bits_of a = bits_of b -> a = b.
Proof.
  intros Ha Hb E.
  destruct (wf_facts a Ha) as [Hla [Hfa [HLa [Hna _]]]].
  destruct (wf_facts b Hb) as [Hlb [Hfb [HLb [Hnb _]]]].
  destruct a as [wa na], b as [wb nb]. cbn [bv_words bv_len] in *.
  assert (En : na = nb) by (rewrite <- HLa, <- HLb, E; reflexivity). subst nb.
  f_equal. rewrite <- Hlb in Hla.
  apply (nth_ext _ _ 0 0); [unfold lenN in Hla; lia|].
  intros k Hk. clear Hk. replace k with (N.to_nat (N.of_nat k)) by lia.
  generalize (N.of_nat k). clear k. intro q.
  change (nthN wa q 0 = nthN wb q 0).
  apply N.bits_inj. intro j.
  destruct (N.lt_ge_cases j 64) as [Hj|Hj].
  - pose proof (Hna (64 * q + j)) as H1. pose proof (Hnb (64 * q + j)) as H2.
    rewrite E, H2 in H1.
    replace ((64 * q + j) / 64) with q in H1 by lia.
    replace ((64 * q + j) mod 64) with j in H1 by lia.
    symmetry. exact H1.
  - rewrite !tb_W; try exact Hj; try reflexivity.
    + apply (Forall_nthN (fun w => w < W) wb q 0 Hfb). reflexivity.
    + apply (Forall_nthN (fun w => w < W) wa q 0 Hfa). reflexivity.
Qed.

(* two histories (possibly under different build configurations) that denote the same list
   produce the same model value *)
Corollary history_canonical c1 c2 ops1 ops2 : ops_ok [] ops1 -> ops_ok [] ops2 ->
  fst (run_ops [] ops1) = fst (run_ops [] ops2) ->
  exists bv, run_model c1 bv_empty ops1 = Ok (bv, snd (run_ops [] ops1)) /\
             run_model c2 bv_empty ops2 = Ok (bv, snd (run_ops [] ops2)) /\
             wf bv /\ bits_of bv = fst (run_ops [] ops1).
Proof.
  intros H1 H2 E.
  destruct (history_spec c1 ops1 H1) as [b1 [E1 [W1 B1]]].
  destruct (history_spec c2 ops2 H2) as [b2 [E2 [W2 B2]]].
  assert (b1 = b2) by (apply canonical; [exact W1 | exact W2 | rewrite B1, B2; exact E]). subst b2.
  exists b1. auto.
Qed.

(* concrete sanity checks of the statements (both profiles): masking of garbage above the chunk
   length, chunk lengths 0 / 64 / 65, chunks straddling two words, pos + len = length,
   pos + len >= 2^64, from_bit with len 0 / 64 / 128 / 130 *)
Definition list_beq (a b : list bool) : bool :=
  (lenN a =? lenN b) && forallb (fun p => Bool.eqb (fst p) (snd p)) (combine a b).
Definition wf_check (bv : bitvec) : bool :=
  (lenN (bv_words bv) =? (bv_len bv + 63) / 64) && forallb (fun w => w <? W) (bv_words bv)
  && forallb (fun i => negb (wbit (bv_words bv) i)) (map (fun k => bv_len bv + k) (nseq 130)).
Definition history_check (c : cfg) (ops : list bvop) : bool :=
  match run_model c bv_empty ops with
  | Ok (bv, oks) => wf_check bv && list_beq (bits_of bv) (fst (run_ops [] ops))
                    && list_beq oks (snd (run_ops [] ops))
  | Panic => false
  end.
Definition cfg_dev := {| dbg := true; intr := false |}.
Definition cfg_rel := {| dbg := false; intr := true |}.
Definition hist1 := [OFromBit true 61; OPushBits MASK64 7; OSetBits 60 (MASK64 - 5) 9; OSetBits 59 0 9;
  OSetBits 60 0 9; OPushBits 12345 64; OPushBits 5 65; OPushBits 5 0; OSetBit 131 false;
  OSetBit 132 true; OSetBit 63 false; OSetBit 64 false].
Definition hist2 := [OFromBit true 130; OSetBits 100 (MASK64 - 1) 30; OSetBits 101 0 30;
  OSetBits (W - 1) 3 1; OSetBits 0 77 64; OSetBits 60 MASK64 64; OSetBits 66 MASK64 64;
  OSetBits 67 MASK64 64; OExtend [true; false; true]; OPushBit true].
Definition hist3 := [OFromBit true 128; OPushBits 3 64; OFromBit true 0; OPushBits 7 2;
  OFromBits [true; true; false]; OFromBit false 64; OPushBits MASK64 64; OSetBits 64 1 64;
  OSetBits 1 MASK64 64; OFromBit true 64; OPushBit true].
Example history_checks :
  forallb (fun h => history_check cfg_dev h && history_check cfg_rel h) [hist1; hist2; hist3] = true.
Proof. vm_compute. reflexivity. Qed.

Print Assumptions apply_model_spec.
Print Assumptions history_spec.
Print Assumptions canonical.
Print Assumptions history_canonical.
