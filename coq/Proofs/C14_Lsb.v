(* Proofs/C14_Lsb.v — bit_position on powers of two (de Bruijn lookup) and lsb (part of C14). *)
From Sucds Require Import Base.Res Spec.WordSpec gen.BroadwordGen Proofs.ResLemmas Proofs.C14_Bits
  Proofs.C14_Popcount.
From Coq Require Import ZArith ZifyN ZifyBool ZifyNat Lia.
Ltac Zify.zify_post_hook ::= Z.div_mod_to_equations.
Open Scope N_scope.

(* ---- de Bruijn lookup on the 64 powers of two ---- *)
Definition db_check (t : N) : bool :=
  let i := wmul DEBRUIJN64 (2 ^ t) / 2 ^ 58 in
  (i <? lenN DEBRUIJN64_MAPPING) && (nthN DEBRUIJN64_MAPPING i 0 =? t).

Lemma db_check_all : forall t, t < 64 -> db_check t = true.
Proof. apply (forall_lt_pow2_sound 6). vm_compute. reflexivity. Qed.

Lemma pow2_lt_W t : t < 64 -> 2 ^ t < W.
Proof. intro H. rewrite W_eq. apply N.pow_lt_mono_r; lia. Qed.

Lemma bit_position_pow2 c t : t < 64 -> bit_position c (2 ^ t) = Ok t.
Proof.
  intro Ht. unfold bit_position.
  rewrite popcount_correct by (apply pow2_lt_W, Ht). cbn [bind].
  rewrite popcN_pow2. rewrite dassert_ok by reflexivity. cbn [bind].
  rewrite shr_ok by lia. cbn [bind].
  pose proof (db_check_all t Ht) as C. unfold db_check in C. cbv zeta in C.
  apply andb_prop in C. destruct C as [C1 C2]. apply N.ltb_lt in C1. apply N.eqb_eq in C2.
  rewrite idx_ok by exact C1. cbn [bind]. rewrite C2. reflexivity.
Qed.

(* ---- x & -x ---- *)
Lemma land_neg_pow2 p : forall n, N.pos p < 2 ^ N.of_nat n ->
  N.land (N.pos p) (2 ^ N.of_nat n - N.pos p) = 2 ^ ctzP p.
Proof.
  induction p as [q IH|q IH|]; intros n Hn.
  - (* 2q+1 *)
    destruct n as [|n]; [change (2 ^ N.of_nat 0) with 1 in Hn; lia|].
    rewrite Nat2N.inj_succ, N.pow_succ_r' in *. set (P := 2 ^ N.of_nat n) in *.
    change (N.pos q~1) with (1 + 2 ^ 1 * N.pos q) in *.
    change (2 ^ 1) with 2 in Hn.
    replace (2 * P - (1 + 2 ^ 1 * N.pos q)) with (1 + 2 ^ 1 * (P - 1 - N.pos q)) by (change (2 ^ 1) with 2; lia).
    rewrite land_split by (change (2 ^ 1) with 2; lia).
    assert (Hq : N.log2 (N.pos q) < N.of_nat n) by (apply N.log2_lt_pow2; fold P; lia).
    replace (P - 1 - N.pos q) with (N.lnot (N.pos q) (N.of_nat n)).
    + rewrite N.land_lnot_diag_low by exact Hq. reflexivity.
    + rewrite N.lnot_sub_low by exact Hq. rewrite N.ones_equiv. fold P. lia.
  - (* 2q *)
    destruct n as [|n]; [change (2 ^ N.of_nat 0) with 1 in Hn; lia|].
    rewrite Nat2N.inj_succ, N.pow_succ_r' in *. set (P := 2 ^ N.of_nat n) in *.
    change (N.pos q~0) with (0 + 2 ^ 1 * N.pos q) in *.
    change (2 ^ 1) with 2 in Hn.
    replace (2 * P - (0 + 2 ^ 1 * N.pos q)) with (0 + 2 ^ 1 * (P - N.pos q)) by (change (2 ^ 1) with 2; lia).
    rewrite land_split by (change (2 ^ 1) with 2; lia).
    unfold P. rewrite IH by (fold P; lia).
    cbn [ctzP]. rewrite N.pow_succ_r'. change (2 ^ 1) with 2. change (N.land 0 0) with 0. lia.
  - destruct n as [|n]; [change (2 ^ N.of_nat 0) with 1 in Hn; lia|].
    rewrite Nat2N.inj_succ, N.pow_succ_r' in *. set (P := 2 ^ N.of_nat n) in *.
    assert (0 < P) by apply pw_pos.
    change 1 with (1 + 2 ^ 1 * 0) at 1.
    replace (2 * P - 1) with (1 + 2 ^ 1 * (P - 1)) by (change (2 ^ 1) with 2; lia).
    rewrite land_split by (change (2 ^ 1) with 2; lia).
    rewrite N.land_0_l. reflexivity.
Qed.

Lemma wmul_neg x : 0 < x -> x < W -> wmul MASK64 x = W - x.
Proof. intros H0 H. rewrite wmul_spec. unfold MASK64, W in *. lia. Qed.

Lemma ctz64_lt x : 0 < x -> x < W -> ctz64 x < 64.
Proof.
  intros H0 H. destruct x as [|p]; [lia|]. cbn [ctz64].
  pose proof (land_neg_pow2 p 64 H) as E.
  assert (L : N.land (N.pos p) (2 ^ N.of_nat 64 - N.pos p) < 2 ^ 64).
  { apply land_lt; [exact H|]. change (2 ^ N.of_nat 64) with W. unfold W. lia. }
  rewrite E in L. apply N.pow_lt_mono_r_iff in L; lia.
Qed.

Theorem lsb_correct : forall c x, x < W -> lsb c x = Ok (lsb_spec x).
Proof.
  intros c x Hx. unfold lsb, lsb_spec. destruct (intr c).
  - unfold intrinsics_bsf64. destruct (x =? 0); reflexivity.
  - destruct (N.eqb_spec x 0) as [->|Hz]; [reflexivity|].
    rewrite wmul_neg by lia.
    destruct x as [|p]; [lia|].
    pose proof (land_neg_pow2 p 64 Hx) as E. change (2 ^ N.of_nat 64) with W in E. rewrite E.
    cbn [ctz64]. rewrite bit_position_pow2.
    + reflexivity.
    + apply (ctz64_lt (N.pos p)); [lia | exact Hx].
Qed.
