(* Proofs/WMBuild.v — structure of WaveletMatrix::new: the layers are correct backings for the bit
   lists of the successive stable partitions of the sequence. *)
From Sucds Require Import Base.Res Spec.WordSpec Spec.BitSpec Spec.SeqSpec Spec.DacSpec
  Model.BitVector Model.Rank9 Model.DArray Model.CompactVector Model.Wavelet
  Proofs.ResLemmas Proofs.BVAbs Proofs.WordLemmas Proofs.BVMut Proofs.BVHistory Proofs.IndexSpecs Proofs.WMLists.
From Coq Require Import ZArith ZifyN ZifyBool ZifyNat Lia.
Ltac Zify.zify_post_hook ::= Z.div_mod_to_equations.
Open Scope N_scope.

(* n remaining layers over the level sequence xs: layer for bit n-1, then the partition *)
Fixpoint layers_ok (n : nat) (xs : list N) (ls : list backing) : Prop :=
  match n, ls with
  | O, [] => True
  | Datatypes.S m, l :: r =>
      (forall c, backing_correct c l (map (tb (N.of_nat m)) xs)) /\ layers_ok m (part (N.of_nat m) xs) r
  | _, _ => False
  end.

Definition wm_ok (wm : wavelet) (s : list N) : Prop :=
  wm_alph_size wm = max_list s + 1 /\
  layers_ok (N.to_nat (bitlen (max_list s + 1))) s (wm_layers wm).

Lemma layers_ok_len n : forall xs ls, layers_ok n xs ls -> lenN ls = N.of_nat n.
Proof.
  induction n as [|n IH]; intros xs ls H; destruct ls as [|l r]; cbn [layers_ok] in H; try contradiction.
  - reflexivity.
  - destruct H as [_ H]. rewrite lenN_cons, (IH _ _ H). lia.
Qed.

Lemma testbit_shr_land v m : (N.land (v / 2 ^ m) 1 =? 1) = N.testbit v m.
Proof. rewrite land1_testbit, testbit_div_pow2. f_equal. Qed.

Lemma fits_ok c w x : 1 <= w -> w <= 64 -> x < 2 ^ w -> fits c w x = Ok true.
Proof.
  intros H1 H2 Hx. unfold fits. destruct (N.eqb_spec w 64) as [E|E]; cbn [negb]; [reflexivity|].
  rewrite shr_ok by lia. cbn [bind]. rewrite N.div_small by exact Hx. reflexivity.
Qed.

Lemma max_list_ge_aux l : forall a x, (x <= a \/ In x l) -> x <= fold_left N.max l a.
Proof.
  induction l as [|y l IH]; intros a x H; cbn [fold_left].
  - destruct H as [H|[]]. exact H.
  - apply IH. destruct H as [H|[H|H]]; [left; lia | left; lia | right; exact H].
Qed.
Lemma max_list_ge l x : In x l -> x <= max_list l.
Proof. intro H. apply max_list_ge_aux. right. exact H. Qed.

Lemma Forall_part (P : N -> Prop) m xs : Forall P xs -> Forall P (part m xs).
Proof.
  intro H. unfold part. apply Forall_app. rewrite !Forall_forall in *.
  split; intros x Hx; apply filter_In in Hx; apply H, Hx.
Qed.

Lemma bitlen_bounds a : 0 < a -> a < W -> 1 <= bitlen a /\ bitlen a <= 64 /\ a < 2 ^ bitlen a.
Proof.
  intros H0 HW. unfold bitlen. destruct (N.eqb_spec a 0) as [E|E]; [lia|].
  assert (N.log2 a < 64).
  { apply N.log2_lt_pow2; [lia | exact HW]. }
  split; [lia|]. split; [lia|]. rewrite N.add_1_r. apply N.log2_spec. lia.
Qed.

Section Build.
Variable k : bkind.
Hypothesis b_build_ok : forall k bv, wf bv -> cap_ok bv ->
  exists b, (forall c, b_build c k bv = Ok b) /\ (forall c, backing_correct c b (bits_of bv)).

Lemma filter_fold c w m : 1 <= w -> w <= 64 -> m < 64 ->
  forall l nz0 no0 bv, Forall (fun x => x < 2 ^ w) l -> wf bv -> bv_len bv + lenN l < 2 ^ 56 ->
  exists bv', fold_res (wm_filter c w m) l (nz0, no0, bv)
              = Ok (nz0 ++ filter (ntb m) l, no0 ++ filter (tb m) l, bv') /\
              wf bv' /\ bits_of bv' = bits_of bv ++ map (tb m) l.
Proof.
  intros Hw1 Hw2 Hm. induction l as [|x l IH]; intros nz0 no0 bv Hall Hwf Hcap.
  - exists bv. cbn [fold_res filter map]. rewrite !app_nil_r. auto.
  - inversion Hall as [|x' l' Hx Hall']; subst. rewrite lenN_cons in Hcap.
    pose proof (bits_of_length bv Hwf) as HL.
    destruct (push_bit_spec c bv (tb m x) Hwf) as [bv1 [E1 [W1 B1]]]; [lia|].
    assert (L1 : bv_len bv1 = bv_len bv + 1).
    { rewrite <- (bits_of_length bv1 W1), B1, lenN_app, HL. reflexivity. }
    destruct (IH (if tb m x then nz0 else nz0 ++ [x]) (if tb m x then no0 ++ [x] else no0) bv1 Hall' W1)
      as [bv' [E' [W' B']]]; [lia|].
    exists bv'. split; [|split; [exact W'|]].
    + cbn [fold_res]. unfold wm_filter at 1. rewrite shr_ok by exact Hm. cbn [bind].
      rewrite testbit_shr_land. fold (tb m x). rewrite E1. cbn [bind].
      rewrite fits_ok by assumption. cbn [bind assert_].
      cbn [filter]. replace (ntb m x) with (negb (tb m x)) by reflexivity.
      revert E'. destruct (tb m x) eqn:Eb; intro E'; cbn [negb bind]; rewrite E'; rewrite <- ?app_assoc; reflexivity.
    + rewrite B', B1. cbn [map]. rewrite <- app_assoc. reflexivity.
Qed.

Lemma layers_build_ok w : 1 <= w -> w <= 64 ->
  forall fuel depth zeros ones layers,
    N.of_nat fuel + depth = w ->
    Forall (fun x => x < 2 ^ w) (zeros ++ ones) -> lenN (zeros ++ ones) < 2 ^ 50 ->
    exists L, layers_ok fuel (zeros ++ ones) L /\
      forall c, wm_layers_build c k w fuel depth zeros ones layers = Ok (layers ++ L).
Proof.
  intros Hw1 Hw2. induction fuel as [|m IH]; intros depth zeros ones layers Hd Hall Hlen.
  - exists []. split; [exact I|]. intro c. cbn [wm_layers_build]. rewrite app_nil_r. reflexivity.
  - set (sh := N.of_nat m).
    assert (Hsh : sh < 64) by lia.
    apply Forall_app in Hall. destruct Hall as [Hz Ho]. rewrite lenN_app in Hlen.
    assert (Hstep : forall c, exists bv,
      (st <- fold_res (wm_filter c w sh) zeros ([], [], bv_empty) ;; fold_res (wm_filter c w sh) ones st)
      = Ok (filter (ntb sh) (zeros ++ ones), filter (tb sh) (zeros ++ ones), bv) /\
      wf bv /\ bits_of bv = map (tb sh) (zeros ++ ones)).
    { intro c.
      destruct (filter_fold c w sh Hw1 Hw2 Hsh zeros [] [] bv_empty Hz wf_empty) as [bv1 [E1 [W1 B1]]].
      { change (bv_len bv_empty) with 0. assert (2 ^ 50 < 2 ^ 56) by (vm_compute; reflexivity). lia. }
      pose proof (bits_of_length bv1 W1) as L1. rewrite B1, bits_of_empty, lenN_app, lenN_map in L1.
      change (lenN (@nil bool)) with 0 in L1.
      destruct (filter_fold c w sh Hw1 Hw2 Hsh ones (filter (ntb sh) zeros) (filter (tb sh) zeros) bv1 Ho W1)
        as [bv2 [E2 [W2 B2]]].
      { assert (2 ^ 50 < 2 ^ 56) by (vm_compute; reflexivity). lia. }
      exists bv2. rewrite E1. cbn [bind app]. rewrite E2. rewrite !filter_app.
      split; [reflexivity|]. split; [exact W2|]. rewrite B2, B1, bits_of_empty, map_app. reflexivity. }
    destruct (Hstep {| dbg := true; intr := false |}) as [bv0 [_ [W0 B0]]].
    assert (Hcap0 : cap_ok bv0).
    { unfold cap_ok. rewrite <- (bits_of_length bv0 W0), B0, lenN_map, lenN_app.
      assert (2 ^ 50 < 2 ^ 56) by (vm_compute; reflexivity). lia. }
    destruct (b_build_ok k bv0 W0 Hcap0) as [b [Eb Cb]].
    destruct (IH (depth + 1) (filter (ntb sh) (zeros ++ ones)) (filter (tb sh) (zeros ++ ones)) (layers ++ [b]))
      as [L' [HL' EL']].
    { lia. }
    { apply (Forall_part _ sh). apply Forall_app. split; assumption. }
    { fold (part sh (zeros ++ ones)). rewrite lenN_part, lenN_app. exact Hlen. }
    exists (b :: L'). split.
    + cbn [layers_ok]. fold sh. split; [|exact HL'].
      intro c. rewrite <- B0. apply Cb.
    + intro c. cbn [wm_layers_build].
      rewrite sub_ok by lia. cbn [bind]. rewrite sub_ok by lia. cbn [bind].
      replace (w - depth - 1) with sh by lia.
      destruct (Hstep c) as [bv [E [Wb Bb]]].
      assert (bv = bv0) by (apply canonical; [exact Wb | exact W0 | rewrite Bb, B0; reflexivity]). subst bv.
      apply bind_inv in E. destruct E as [st1 [E1 E2]].
      rewrite E1. cbn [bind]. rewrite E2. cbn [bind]. rewrite Eb. cbn [bind].
      rewrite EL', <- app_assoc. reflexivity.
Qed.

Theorem wm_new_ok s : s <> [] -> max_list s + 1 < W -> lenN s < 2 ^ 50 ->
  exists wm, (forall c, wm_new c k s = Ok (Some wm)) /\ wm_ok wm s.
Proof.
  intros Hne Hmax Hlen.
  set (a := max_list s + 1). set (w := bitlen a).
  destruct (bitlen_bounds a) as [Hw1 [Hw2 Ha]]; [unfold a; lia | exact Hmax |]. fold w in Hw1, Hw2, Ha.
  destruct (layers_build_ok w Hw1 Hw2 (N.to_nat w) 0 s [] []) as [L [HL EL]].
  { lia. }
  { rewrite app_nil_r. apply Forall_forall. intros x Hx. pose proof (max_list_ge s x Hx). unfold a in Ha. lia. }
  { rewrite app_nil_r. exact Hlen. }
  rewrite app_nil_r in HL.
  exists {| wm_layers := L; wm_alph_size := a |}. split.
  - intro c. unfold wm_new. destruct s as [|x s']; [congruence|].
    fold (max_list (x :: s')). fold a. unfold a at 1. rewrite add_ok by exact Hmax. cbn [bind]. fold a.
    unfold needed_bits, msb_spec. destruct (N.eqb_spec a 0) as [E|E]; [unfold a in E; lia|].
    rewrite add_ok by (unfold w, bitlen in Hw2; destruct (N.eqb_spec a 0); unfold W; lia). cbn [bind].
    replace (N.log2 a + 1) with w by (unfold w, bitlen; destruct (N.eqb_spec a 0); [contradiction | reflexivity]).
    rewrite EL. reflexivity.
  - split; [reflexivity | exact HL].
Qed.

Lemma wm_new_nil c : wm_new c k [] = Ok None.
Proof. reflexivity. Qed.
End Build.

(* facts of a built matrix used by the query proofs *)
Lemma wm_ok_width wm s : wm_ok wm s -> wm_alph_width wm = bitlen (max_list s + 1).
Proof. intros [_ H]. unfold wm_alph_width. rewrite (layers_ok_len _ _ _ H). lia. Qed.
Lemma wm_ok_len wm s : max_list s + 1 < W -> wm_ok wm s -> wm_len wm = lenN s.
Proof.
  intros Hmax [_ H]. destruct (bitlen_bounds (max_list s + 1)) as [Hw1 _]; [lia | exact Hmax |].
  unfold wm_len. destruct (N.to_nat (bitlen (max_list s + 1))) as [|m] eqn:E; [lia|].
  destruct (wm_layers wm) as [|l r]; cbn [layers_ok] in H; [contradiction|].
  destruct H as [Hc _]. destruct (Hc {| dbg := true; intr := false |}) as [Hn _].
  rewrite Hn, lenN_map. reflexivity.
Qed.
