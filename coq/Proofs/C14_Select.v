(* Proofs/C14_Select.v — select_in_word equals the position of the k-th set bit (part of C14). *)
From Sucds Require Import Base.Res Spec.WordSpec gen.BroadwordGen Proofs.ResLemmas Proofs.C14_Bits
  Proofs.C14_Popcount.
From Coq Require Import ZArith ZifyN ZifyBool ZifyNat Lia.
Ltac Zify.zify_post_hook ::= Z.div_mod_to_equations.
Open Scope N_scope.

(* ---- the specification along the byte decomposition ---- *)
Fixpoint sel_list (l : list N) (k pos : N) : option N :=
  match l with
  | [] => None
  | b :: r => if k <? popcN b then selN b k pos else sel_list r (k - popcN b) (pos + 8)
  end.

Lemma selN_pack8 l : forall k pos, lanes8 l -> selN (pack8 l) k pos = sel_list l k pos.
Proof.
  induction l as [|a l IH]; intros k pos H; [reflexivity|].
  apply lanes_cons in H. destruct H as [Ha Hl]. cbn [pack sel_list].
  pose proof (selN_split 8 a (pack8 l) k pos Ha) as E. change (N.of_nat 8) with 8 in E.
  rewrite E, IH by exact Hl. reflexivity.
Qed.

Lemma sel_list_nth : forall j l k pos, (j < length l)%nat ->
  sumN (firstn j (map popcN l)) <= k -> k < sumN (firstn (S j) (map popcN l)) ->
  sel_list l k pos = selN (nth j l 0) (k - sumN (firstn j (map popcN l))) (pos + 8 * N.of_nat j).
Proof.
  induction j as [|j IH]; intros l k pos Hj H1 H2.
  - destruct l as [|b r]; [cbn [length] in Hj; lia|].
    cbn [map firstn sumN sel_list nth] in *.
    destruct (N.ltb_spec k (popcN b)); [|lia].
    f_equal; lia.
  - destruct l as [|b r]; [cbn [length] in Hj; lia|].
    cbn [length] in Hj. cbn [map firstn sumN] in H1, H2.
    cbn [map firstn sumN sel_list nth].
    destruct (N.ltb_spec k (popcN b)); [lia|].
    rewrite (IH r (k - popcN b) (pos + 8)) by (cbn [map firstn sumN]; lia).
    f_equal; lia.
Qed.

Lemma find_lane : forall (cs : list N) k, k < sumN cs ->
  exists j, (j < length cs)%nat /\ sumN (firstn j cs) <= k /\ k < sumN (firstn (S j) cs).
Proof.
  induction cs as [|c0 cs IH]; intros k Hk; [cbn [sumN] in Hk; lia|].
  cbn [sumN] in Hk. destruct (N.lt_ge_cases k c0) as [Hlt|Hge].
  - exists 0%nat. cbn [length firstn sumN]. lia.
  - destruct (IH (k - c0)) as [j [Hj [H1 H2]]]; [lia|].
    exists (S j). cbn [length firstn sumN] in *. lia.
Qed.

Lemma selN_none n : forall a k pos, a < 2 ^ N.of_nat n -> popcN a <= k -> selN a k pos = None.
Proof.
  induction n as [|n IH]; intros a k pos Ha Hk.
  - change (2 ^ N.of_nat 0) with 1 in Ha. replace a with 0 by lia. reflexivity.
  - rewrite Nat2N.inj_succ, N.pow_succ_r' in *.
    destruct (N.even a) eqn:Ev.
    + apply N.even_spec in Ev. destruct Ev as [a' ->]. rewrite selN_double. rewrite popcN_double in Hk.
      apply IH; lia.
    + assert (Od : N.odd a = true) by (rewrite <- N.negb_even, Ev; reflexivity).
      apply N.odd_spec in Od. destruct Od as [a' ->]. rewrite selN_succ_double.
      rewrite popcN_succ_double in Hk.
      destruct (N.eqb_spec k 0); [lia|]. apply IH; lia.
Qed.

(* ---- the lookup table, checked on all 2048 indices ---- *)
Definition sib_check (i : N) : bool :=
  let b := i mod 256 in let r := i / 256 in
  if r <? popcN b then
    match selN b r 0 with
    | Some v => (nthN SELECT_IN_BYTE i 0 =? v) && (v <? 8)
    | None => false
    end
  else true.

Lemma sib_check_all : forall i, i < 2048 -> sib_check i = true.
Proof. apply (forall_lt_pow2_sound 11). vm_compute. reflexivity. Qed.

Lemma select_in_byte_ok b r : b < 256 -> r < popcN b ->
  exists v, selN b r 0 = Some v /\ nthN SELECT_IN_BYTE (b + 256 * r) 0 = v /\ v < 8.
Proof.
  intros Hb Hr. pose proof (popcN_byte_le b Hb) as Hp.
  assert (Hi : b + 256 * r < 2048) by lia.
  pose proof (sib_check_all _ Hi) as C. unfold sib_check in C. cbv zeta in C.
  replace ((b + 256 * r) mod 256) with b in C by lia.
  replace ((b + 256 * r) / 256) with r in C by lia.
  destruct (N.ltb_spec r (popcN b)); [|lia].
  destruct (selN b r 0) as [v|]; [|discriminate].
  apply andb_prop in C. destruct C as [C1 C2]. apply N.eqb_eq in C1. apply N.ltb_lt in C2.
  exists v. auto.
Qed.

(* ---- select_in_word cut into prefix / place / tail (checked by reflexivity) ---- *)
Definition sel_place (c : cfg) (geq_k_step_8 : N) : res N :=
  if intr c then (t6 <- popcount c geq_k_step_8 ;;
  t7 <- mul c t6 8 ;;
  Ok t7) else (t8 <- shr c geq_k_step_8 7 ;;
  t9 <- shr c (wmul t8 ONES_STEP_8) 53 ;;
  Ok (N.land t9 (not64 7))).

Definition sel_tail (c : cfg) (x k byte_sums place : N) : res (option N) :=
  t10 <- shl c byte_sums 8 ;;
  t11 <- shr c t10 place ;;
  t12 <- sub c k (N.land t11 255) ;;
  let byte_rank := t12 in
  t13 <- shr c x place ;;
  t14 <- shl c byte_rank 8 ;;
  t15 <- idx 0 SELECT_IN_BYTE (N.lor (N.land t13 255) t14) ;;
  t16 <- add c place t15 ;;
  let sel := t16 in
  Ok (Some sel).

Lemma select_in_word_unfold c x k :
  select_in_word c x k =
  (t1 <- popcount c x ;;
   if (N.leb t1 k) then (Ok None) else (
   t2 <- byte_counts c x ;;
   t3 <- mul c k ONES_STEP_8 ;;
   t4 <- sub c (N.lor t3 MSBS_STEP_8) (wmul ONES_STEP_8 t2) ;;
   place <- sel_place c (N.land t4 MSBS_STEP_8) ;;
   sel_tail c x k (wmul ONES_STEP_8 t2) place)).
Proof. reflexivity. Qed.

(* ---- the tail: extracting lane j of the prefix sums and of x ---- *)
Lemma mod_div_mod X a b n : b + n <= a ->
  ((X mod 2 ^ a) / 2 ^ b) mod 2 ^ n = (X / 2 ^ b) mod 2 ^ n.
Proof.
  intro H. apply N.bits_inj. intro i.
  destruct (N.lt_ge_cases i n) as [Hi|Hi].
  - rewrite !N.mod_pow2_bits_low by exact Hi. rewrite !N.div_pow2_bits.
    rewrite N.mod_pow2_bits_low by lia. reflexivity.
  - rewrite !N.mod_pow2_bits_high by exact Hi. reflexivity.
Qed.

Lemma sel_tail_ok c l S j k v :
  lanes8 l -> length l = 8%nat -> lanes8 S -> (j < 8)%nat ->
  nth j (0 :: S) 0 <= k ->
  selN (nth j l 0) (k - nth j (0 :: S) 0) 0 = Some v ->
  k - nth j (0 :: S) 0 < popcN (nth j l 0) ->
  sel_tail c (pack8 l) k (pack8 S) (8 * N.of_nat j) = Ok (Some (8 * N.of_nat j + v)).
Proof.
  intros Hl Hn HS Hj Hle Hsel Hr.
  set (bj := nth j l 0) in *. set (sp := nth j (0 :: S) 0) in *.
  assert (Hbj : bj < 256).
  { pose proof (pack_nth 8 l j Hl) as E. fold bj in E. rewrite <- E. apply N.mod_lt. discriminate. }
  pose proof (popcN_byte_le bj Hbj) as Hpb.
  destruct (select_in_byte_ok bj (k - sp) Hbj Hr) as [v' [Hv1 [Hv2 Hv3]]].
  rewrite Hsel in Hv1. injection Hv1 as <-.
  unfold sel_tail.
  rewrite shl_ok by lia. cbn [bind].
  rewrite shr_ok by lia. cbn [bind].
  change 255 with (N.ones 8). rewrite !N.land_ones.
  assert (E1 : ((pack8 S * 2 ^ 8) mod W / 2 ^ (8 * N.of_nat j)) mod 2 ^ 8 = sp).
  { rewrite W_eq, mod_div_mod by lia.
    replace (pack8 S * 2 ^ 8) with (pack8 (0 :: S)) by (cbn [pack]; lia).
    apply pack_nth. apply lanes_cons. split; [apply pw_pos | exact HS]. }
  rewrite E1. rewrite sub_ok by exact Hle. cbn [bind].
  rewrite shr_ok by lia. cbn [bind].
  rewrite N.land_ones, (pack_nth 8 l j Hl). fold bj.
  rewrite shl_ok_small by (try lia; change (2 ^ 8) with 256; unfold W; lia). cbn [bind].
  replace ((k - sp) * 2 ^ 8) with (2 ^ 8 * (k - sp)) by lia.
  rewrite lor_disjoint by exact Hbj. change (2 ^ 8) with 256.
  rewrite idx_ok by (change (lenN SELECT_IN_BYTE) with 2048; lia). cbn [bind].
  rewrite Hv2. rewrite add_ok by (unfold W; lia). reflexivity.
Qed.

(* ---- the prefix: byte prefix sums compared lane-wise with k ---- *)
Definition geq_check (v : N) : bool := N.land v 128 =? (if 128 <=? v then 128 else 0).
Lemma geq_check_all : forall v, v < 256 -> geq_check v = true.
Proof. apply (forall_lt_pow2_sound 8). vm_compute. reflexivity. Qed.

Lemma lor_128 k : k < 128 -> N.lor k 128 = k + 128.
Proof. intro H. change 128 with (2 ^ 7 * 1). apply lor_disjoint. exact H. Qed.

Lemma geq_lane k s : k < 128 -> s <= 128 -> N.land (k + 128 - s) 128 = if s <=? k then 128 else 0.
Proof.
  intros Hk Hs. assert (Hv : k + 128 - s < 256) by lia.
  pose proof (geq_check_all _ Hv) as C. unfold geq_check in C. apply N.eqb_eq in C. rewrite C.
  destruct (N.leb_spec 128 (k + 128 - s)); destruct (N.leb_spec s k); try lia; reflexivity.
Qed.

Definition geq_of (k s : N) : N := if s <=? k then 128 else 0.

Lemma select_prefix c b0 b1 b2 b3 b4 b5 b6 b7 k :
  lanes8 [b0; b1; b2; b3; b4; b5; b6; b7] ->
  k < popcN b0 + popcN b1 + popcN b2 + popcN b3 + popcN b4 + popcN b5 + popcN b6 + popcN b7 ->
  select_in_word c (pack8 [b0; b1; b2; b3; b4; b5; b6; b7]) k =
  (place <- sel_place c (pack8 (map (geq_of k)
      (psums8 (popcN b0) (popcN b1) (popcN b2) (popcN b3) (popcN b4) (popcN b5) (popcN b6) (popcN b7)))) ;;
   sel_tail c (pack8 [b0; b1; b2; b3; b4; b5; b6; b7]) k
     (pack8 (psums8 (popcN b0) (popcN b1) (popcN b2) (popcN b3) (popcN b4) (popcN b5) (popcN b6) (popcN b7)))
     place).
Proof.
  intros Hl Hk.
  assert (HW : pack8 [b0; b1; b2; b3; b4; b5; b6; b7] < W) by (apply pack8_lt_W; [exact Hl | reflexivity]).
  pose proof Hl as Hl'.
  repeat (apply lanes_cons in Hl'; destruct Hl' as [? Hl']). change (2 ^ 8) with 256 in *.
  pose proof (popcN_byte_le b0). pose proof (popcN_byte_le b1). pose proof (popcN_byte_le b2).
  pose proof (popcN_byte_le b3). pose proof (popcN_byte_le b4). pose proof (popcN_byte_le b5).
  pose proof (popcN_byte_le b6). pose proof (popcN_byte_le b7).
  rewrite select_in_word_unfold.
  rewrite popcount_correct by exact HW. cbn [bind].
  rewrite popcN_pack8 by exact Hl. cbn [map sumN].
  destruct (N.leb_spec (popcN b0 + (popcN b1 + (popcN b2 + (popcN b3 + (popcN b4 + (popcN b5 + (popcN b6 + (popcN b7 + 0)))))))) k); [lia|].
  rewrite byte_counts_pack by (try exact Hl; reflexivity). cbn [bind map].
  rewrite wmul_ones_pack by lia.
  set (c0 := popcN b0) in *. set (c1 := popcN b1) in *. set (c2 := popcN b2) in *. set (c3 := popcN b3) in *.
  set (c4 := popcN b4) in *. set (c5 := popcN b5) in *. set (c6 := popcN b6) in *. set (c7 := popcN b7) in *.
  rewrite mul_ok by (unfold ONES_STEP_8, W; lia). cbn [bind].
  replace (k * ONES_STEP_8) with (pack8 (repeat k 8))
    by (unfold ONES_STEP_8; cbn [pack repeat]; change (2 ^ 8) with 256; lia).
  change MSBS_STEP_8 with (pack8 (repeat 128 8)).
  rewrite lor_pack by (try reflexivity; apply lanes_repeat; change (2 ^ 8) with 256; lia).
  cbn [repeat zip]. rewrite lor_128 by lia.
  assert (F : Forall2 N.le (psums8 c0 c1 c2 c3 c4 c5 c6 c7)
                [k + 128; k + 128; k + 128; k + 128; k + 128; k + 128; k + 128; k + 128]).
  { unfold psums8. repeat constructor; lia. }
  rewrite sub_ok by (apply pack_le, F). cbn [bind].
  rewrite sub_pack by exact F. unfold psums8 at 1. cbn [zip].
  rewrite land_pack.
  2:{ repeat (apply lanes_cons; split); try (change (2 ^ 8) with 256; lia). constructor. }
  2:{ repeat (apply lanes_cons; split); try (change (2 ^ 8) with 256; lia). constructor. }
  2:{ reflexivity. }
  cbn [zip]. rewrite !geq_lane by lia.
  reflexivity.
Qed.

(* ---- place = 8 * (number of prefix sums <= k), in both variants ---- *)
Lemma place_ok c c0 c1 c2 c3 c4 c5 c6 c7 k j : (j < 8)%nat ->
  sumN (firstn j [c0; c1; c2; c3; c4; c5; c6; c7]) <= k ->
  k < sumN (firstn (S j) [c0; c1; c2; c3; c4; c5; c6; c7]) ->
  sel_place c (pack8 (map (geq_of k) (psums8 c0 c1 c2 c3 c4 c5 c6 c7))) = Ok (8 * N.of_nat j).
Proof.
  intros Hj H1 H2.
  do 8 (destruct j as [|j];
    [ cbn [firstn sumN] in H1, H2; unfold psums8, geq_of; cbn [map];
      repeat match goal with |- context [N.leb ?a k] => destruct (N.leb_spec a k); try lia end;
      destruct c as [[|] [|]]; vm_compute; reflexivity |]).
  lia.
Qed.

Lemma nth_psums c0 c1 c2 c3 c4 c5 c6 c7 j : (j < 8)%nat ->
  nth j (0 :: psums8 c0 c1 c2 c3 c4 c5 c6 c7) 0 = sumN (firstn j [c0; c1; c2; c3; c4; c5; c6; c7]).
Proof.
  intro Hj. unfold psums8.
  do 8 (destruct j as [|j]; [cbn [nth firstn sumN]; lia|]). lia.
Qed.

Theorem select_in_word_correct : forall c x k, x < W -> k < W ->
  select_in_word c x k = Ok (select_in_word_spec x k).
Proof.
  intros c x k Hx Hk. rewrite select_in_word_spec_selN.
  destruct (N.le_gt_cases (popcN x) k) as [Hge|Hlt].
  - rewrite select_in_word_unfold. rewrite popcount_correct by exact Hx. cbn [bind].
    destruct (N.leb_spec (popcN x) k); [|lia].
    rewrite (selN_none 64 x k 0 Hx Hge). reflexivity.
  - rewrite <- (pack8_bytes8 x Hx) in *.
    pose proof (bytes8_lanes x) as Hl.
    destruct (list8 (bytes8 x) (bytes8_length x)) as (b0 & b1 & b2 & b3 & b4 & b5 & b6 & b7 & E).
    rewrite E in *. clear E.
    rewrite popcN_pack8 in Hlt by exact Hl.
    destruct (find_lane _ k Hlt) as [j [Hj [H1 H2]]].
    cbn [map length] in Hj, H1, H2.
    rewrite select_prefix by (try exact Hl; cbn [map sumN] in Hlt; lia).
    rewrite (place_ok c _ _ _ _ _ _ _ _ k j Hj H1 H2). cbn [bind].
    pose proof Hl as Hl'.
    repeat (apply lanes_cons in Hl'; destruct Hl' as [? Hl']). change (2 ^ 8) with 256 in *.
    pose proof (popcN_byte_le b0). pose proof (popcN_byte_le b1). pose proof (popcN_byte_le b2).
    pose proof (popcN_byte_le b3). pose proof (popcN_byte_le b4). pose proof (popcN_byte_le b5).
    pose proof (popcN_byte_le b6). pose proof (popcN_byte_le b7).
    set (l := [b0; b1; b2; b3; b4; b5; b6; b7]) in *.
    set (cs := [popcN b0; popcN b1; popcN b2; popcN b3; popcN b4; popcN b5; popcN b6; popcN b7]) in *.
    assert (Ecs : cs = map popcN l) by reflexivity.
    assert (Hbj : nth j l 0 < 256).
    { pose proof (pack_nth 8 l j Hl) as E. rewrite <- E. apply N.mod_lt. discriminate. }
    assert (Hr : k - sumN (firstn j cs) < popcN (nth j l 0)).
    { assert (Es : sumN (firstn (S j) cs) = sumN (firstn j cs) + popcN (nth j l 0)).
      { subst cs l. do 8 (destruct j as [|j]; [cbn [firstn sumN nth]; lia|]). lia. }
      lia. }
    destruct (select_in_byte_ok _ _ Hbj Hr) as [v [Hv1 [_ Hv3]]].
    rewrite (sel_tail_ok c l _ j k v).
    + rewrite selN_pack8 by exact Hl.
      rewrite (sel_list_nth j l k 0) by (try rewrite <- Ecs; try assumption; subst l; cbn [length]; lia).
      rewrite <- Ecs.
      rewrite (selN_shift 8 (nth j l 0)) by exact Hbj. rewrite Hv1. do 2 f_equal; try lia.
    + exact Hl.
    + reflexivity.
    + unfold psums8. repeat (apply lanes_cons; split); try (change (2 ^ 8) with 256; lia). constructor.
    + exact Hj.
    + rewrite nth_psums by exact Hj. exact H1.
    + rewrite nth_psums by exact Hj. exact Hv1.
    + rewrite nth_psums by exact Hj. exact Hr.
Qed.
