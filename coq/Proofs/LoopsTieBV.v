(* Proofs/LoopsTieBV.v — every function of gen/LoopsGen.v (functions WITH LOOPS of bit_vector.rs and
   bit_vector/unary.rs, regenerated from the Rust source on every run by tools/translate.py, section "functions
   with loops") is equal to the hand-written model function, for every configuration and every argument, under
   the record-range hypotheses stated in each lemma (`lenN (bv_words bv) < W`, i.e. the word vector has fewer than
   2^64 elements; for the unary iterator also fewer than 2^58 words and a cursor below 2^64 - 64).  The models
   scan by structural recursion over "the words after / below the current block"; the Rust code, and hence the
   generated code, by index arithmetic inside `loopN W` -- each tie is an induction relating the two, which also
   shows that the bound of 2^64 iterations is never reached.
   A change to one of these Rust functions changes the generated definition and re-opens exactly one of the
   lemmas below, by name (DESIGN.md section 5.1). *)
From Sucds Require Import Base.Res Base.Loops Spec.WordSpec Model.BitVector Model.Unary gen.ConstsGen gen.MethodsGen
  gen.LoopsGen Proofs.ResLemmas Proofs.MethodsTie Proofs.LoopsLib.
From Coq Require Import ZArith ZifyN ZifyBool ZifyNat Lia.
Open Scope N_scope.
Ltac Zify.zify_post_hook ::= Z.div_mod_to_equations.

Ltac lnorm :=
  cbn [bind fst snd negb andb orb bv_words bv_len it_bv it_pos ui_bv ui_pos ui_buf u_pos u_buf] in *.
Ltac lstep :=
  match goal with
  | |- ?x = ?x => reflexivity
  | |- context [bind ?m _] => scrut m
  | |- context [if ?b then _ else _] => atom b
  | |- context [match ?o with Some _ => _ | None => _ end] => destruct o eqn:?
  end; lnorm.
Ltac lsteps := lnorm; repeat lstep.
Ltac getters := unfold bit_vector_num_bits, bit_vector_len, bit_vector_num_words, bit_vector_words in *.

Definition winv (inv : bool) (w : N) : N := if inv then not64 w else w.

(* ---------------------------------------------------------------------------------------------
   constructors without loops that the loop functions call
   --------------------------------------------------------------------------------------------- *)
Lemma tie_bit_vector_new : forall c, bit_vector_new c = Ok bv_empty.
Proof. reflexivity. Qed.

Lemma tie_bit_vector_from_bit : forall c bit len, bit_vector_from_bit c bit len = BitVector.from_bit c bit len.
Proof.
  intros. unfold bit_vector_from_bit, from_bit. rewrite tie_bit_vector_words_for. consts. lsteps.
Qed.

(* ---------------------------------------------------------------------------------------------
   for_each(push_bit): from_bits, extend
   --------------------------------------------------------------------------------------------- *)
Lemma push_fold_ext c l s :
  fold_res (fun this b => this <- bit_vector_push_bit c this b ;; Ok this) l s = fold_res (push_bit c) l s.
Proof. apply fold_res_ext. intros. rewrite tie_bit_vector_push_bit. apply bind_ret. Qed.

Lemma tie_bit_vector_from_bits : forall c bits, bit_vector_from_bits c bits = BitVector.from_bits c bits.
Proof.
  intros. unfold bit_vector_from_bits, from_bits. rewrite tie_bit_vector_new. cbn [bind].
  rewrite push_fold_ext. apply bind_ret.
Qed.

Lemma tie_bit_vector_extend : forall c bv bits, bit_vector_extend c bv bits = BitVector.extend c bv bits.
Proof. intros. unfold bit_vector_extend, extend. rewrite push_fold_ext. apply bind_ret. Qed.

(* ---------------------------------------------------------------------------------------------
   rank1: `for &w in &self.words[..wpos]`
   --------------------------------------------------------------------------------------------- *)
Lemma tie_bit_vector_rank1 : forall c bv pos, bit_vector_rank1 c bv pos = BitVector.rank1 c bv pos.
Proof.
  intros. unfold bit_vector_rank1, rank1. getters. consts. lnorm.
  destruct (bv_len bv <? pos); [reflexivity|].
  destruct (assert_ (pos / 64 <=? lenN (bv_words bv))); lnorm; [|reflexivity].
  rewrite (fold_res_ext _ (fun r w => add c r (popcN w))) by (intros; apply bind_ret).
  lsteps.
Qed.

(* ---------------------------------------------------------------------------------------------
   select1 / select0: `while wpos < self.words.len()` with `break`
   --------------------------------------------------------------------------------------------- *)
Definition sel_step (c : cfg) (inv : bool) (words : list N) (k : N) (s : N * N) : res (N * N + N * N) :=
  let '(cu, wp) := s in
  if wp <? lenN words then
    w <- idx 0 words wp ;;
    t <- add c cu (popcN (winv inv w)) ;;
    if k <? t then Ok (inr (cu, wp))
    else (wp' <- add c wp 1 ;; cu' <- add c cu (popcN (winv inv w)) ;; Ok (inl (cu', wp')))
  else Ok (inr (cu, wp)).

(* the loop against the structural scan, for every continuation that cannot tell the two apart *)
Lemma select_loop {T} c inv words k (K : N * N -> res T) (KM : option (N * N * N) -> res T) :
  lenN words < W ->
  (forall cu, K (cu, lenN words) = KM None) ->
  (forall cu wp, wp < lenN words -> K (cu, wp) = KM (Some (wp, cu, winv inv (nthN words wp 0)))) ->
  forall rest pre cur n, words = pre ++ rest -> lenN rest < n ->
  bind (loopN n (sel_step c inv words k) (cur, lenN pre)) K = bind (select_scan c inv rest k (lenN pre) cur) KM.
Proof.
  intros HW HK0 HK1. induction rest as [|w r IH]; intros pre cur n Hw Hn.
  - rewrite app_nil_r in Hw. subst pre. rewrite loopN_step by lia. unfold sel_step at 1.
    rewrite N.ltb_irrefl. cbn [bind select_scan]. apply HK0.
  - rewrite lenN_cons in Hn. rewrite loopN_step by lia. unfold sel_step at 1.
    assert (Hlt : lenN pre < lenN words) by (subst words; rewrite lenN_app, lenN_cons; lia).
    destruct (N.ltb_spec (lenN pre) (lenN words)) as [_|]; [|lia].
    assert (Hidx : idx 0 words (lenN pre) = Ok w) by (subst words; apply idx_app_mid).
    assert (Hnth : nthN words (lenN pre) 0 = w) by (subst words; apply nthN_app_mid).
    rewrite Hidx. cbn [bind select_scan]. fold (winv inv w).
    destruct (add c cur (popcN (winv inv w))) as [t|] eqn:Et; cbn [bind]; [|reflexivity].
    destruct (k <? t).
    + cbn [bind]. rewrite HK1 by exact Hlt. now rewrite Hnth.
    + rewrite add_ok by lia. cbn [bind].
      replace (lenN pre + 1) with (lenN (pre ++ [w])) by apply lenN_snoc.
      apply IH; [now rewrite <- app_cons_assoc | lia].
Qed.

Lemma tie_bit_vector_select1 : forall c bv k, lenN (bv_words bv) < W ->
  bit_vector_select1 c bv k = BitVector.select1 c bv k.
Proof.
  intros c bv k HW. unfold bit_vector_select1, select1. consts. lnorm.
  rewrite (loopN_ext _ _ (sel_step c false (bv_words bv) k)) by (intros [cu wp]; reflexivity).
  apply (select_loop c false (bv_words bv) k _ _ HW) with (pre := []) (rest := bv_words bv); [| |reflexivity|lia].
  - intros cu. lnorm. now rewrite N.eqb_refl.
  - intros cu wp Hwp. lnorm. destruct (N.eqb_spec wp (lenN (bv_words bv))) as [E|_]; [lia|].
    rewrite idx_ok by exact Hwp. cbn [winv]. lsteps.
Qed.

Lemma tie_bit_vector_select0 : forall c bv k, lenN (bv_words bv) < W ->
  bit_vector_select0 c bv k = BitVector.select0 c bv k.
Proof.
  intros c bv k HW. unfold bit_vector_select0, select0. getters. consts. lnorm.
  rewrite (loopN_ext _ _ (sel_step c true (bv_words bv) k)) by (intros [cu wp]; reflexivity).
  apply (select_loop c true (bv_words bv) k _ _ HW) with (pre := []) (rest := bv_words bv); [| |reflexivity|lia].
  - intros cu. lnorm. now rewrite N.eqb_refl.
  - intros cu wp Hwp. lnorm. destruct (N.eqb_spec wp (lenN (bv_words bv))) as [E|_]; [lia|].
    rewrite idx_ok by exact Hwp. cbn [winv]. lsteps.
Qed.

(* ---------------------------------------------------------------------------------------------
   successor1 / successor0: `loop` left only by `return`, forward scan
   --------------------------------------------------------------------------------------------- *)
Definition succ_step (c : cfg) (inv : bool) (len : N) (words : list N) (s : N * N) : res (N * N + option N) :=
  let '(block, word) := s in
  match lsb_spec word with
  | Some ret => t <- mul c block 64 ;; t <- add c t ret ;; Ok (inr (if t <? len then Some t else None))
  | None =>
      b <- add c block 1 ;;
      if b =? lenN words then Ok (inr None)
      else (w <- idx 0 words b ;; Ok (inl (b, winv inv w)))
  end.

Lemma succ_loop c inv len words : lenN words < W ->
  forall after pre block word n, words = pre ++ after -> lenN pre = block + 1 -> lenN after < n ->
  loopN n (succ_step c inv len words) (block, word) = succ_scan c inv len after block word.
Proof.
  intros HW. induction after as [|w r IH]; intros pre block word n Hw Hp Hn.
  - rewrite app_nil_r in Hw. subst pre. rewrite loopN_step by lia. unfold succ_step at 1. cbn [succ_scan]. unfold WORD_LEN.
    destruct (lsb_spec word) as [ret|].
    + destruct (mul c block 64) as [t|]; cbn [bind]; [|reflexivity].
      destruct (add c t ret) as [t'|]; cbn [bind]; reflexivity.
    + rewrite add_ok by lia. cbn [bind]. rewrite <- Hp, N.eqb_refl. reflexivity.
  - rewrite lenN_cons in Hn. rewrite loopN_step by lia. unfold succ_step at 1. cbn [succ_scan]. unfold WORD_LEN.
    destruct (lsb_spec word) as [ret|].
    + destruct (mul c block 64) as [t|]; cbn [bind]; [|reflexivity].
      destruct (add c t ret) as [t'|]; cbn [bind]; reflexivity.
    + assert (Hlt : lenN pre < lenN words) by (subst words; rewrite lenN_app, lenN_cons; lia).
      rewrite add_ok by lia. cbn [bind]. rewrite <- Hp.
      destruct (N.eqb_spec (lenN pre) (lenN words)) as [E|_]; [lia|].
      replace (idx 0 words (lenN pre)) with (Ok w) by (subst words; symmetry; apply idx_app_mid).
      cbn [bind]. fold (winv inv w).
      apply IH with (pre := pre ++ [w]); [now rewrite <- app_cons_assoc | now rewrite lenN_snoc | lia].
Qed.

Lemma successor_tie c inv bv pos word : lenN (bv_words bv) < W -> pos / 64 < lenN (bv_words bv) ->
  loopN W (succ_step c inv (bv_len bv) (bv_words bv)) (pos / 64, word) =
  succ_scan c inv (bv_len bv) (skipn (S (N.to_nat (pos / 64))) (bv_words bv)) (pos / 64) word.
Proof.
  intros HW Hb. destruct (split_after (bv_words bv) (pos / 64) Hb) as [Hs Hl].
  apply (succ_loop c inv (bv_len bv) (bv_words bv) HW) with (pre := firstn (S (N.to_nat (pos / 64))) (bv_words bv));
    [exact Hs | exact Hl |].
  eapply N.le_lt_trans; [apply lenN_skipn_le | exact HW].
Qed.

(* a successful `self.words[block]` bounds `block` *)
Lemma idx_Ok_lt {A} (d : A) l i v : idx d l i = Ok v -> i < lenN l.
Proof. unfold idx. destruct (N.ltb_spec i (lenN l)); [auto|discriminate]. Qed.

Lemma tie_bit_vector_successor1 : forall c bv pos, lenN (bv_words bv) < W ->
  bit_vector_successor1 c bv pos = BitVector.successor1 c bv pos.
Proof.
  intros c bv pos HW. unfold bit_vector_successor1, successor1, successor. getters. consts. lnorm.
  destruct (bv_len bv <=? pos); [reflexivity|].
  destruct (idx 0 (bv_words bv) (pos / 64)) as [w|] eqn:Ew; lnorm; [|reflexivity].
  destruct (shr c w (pos mod 64)) as [t|]; lnorm; [|reflexivity].
  destruct (shl c t (pos mod 64)) as [word|]; lnorm; [|reflexivity].
  rewrite <- (successor_tie c false bv pos word HW (idx_Ok_lt _ _ _ _ Ew)).
  apply loopN_ext. intros [block wd]. unfold succ_step. cbn [winv]. lsteps.
Qed.

Lemma tie_bit_vector_successor0 : forall c bv pos, lenN (bv_words bv) < W ->
  bit_vector_successor0 c bv pos = BitVector.successor0 c bv pos.
Proof.
  intros c bv pos HW. unfold bit_vector_successor0, successor0, successor. getters. consts. lnorm.
  destruct (bv_len bv <=? pos); [reflexivity|].
  destruct (idx 0 (bv_words bv) (pos / 64)) as [w|] eqn:Ew; lnorm; [|reflexivity].
  destruct (shr c (not64 w) (pos mod 64)) as [t|]; lnorm; [|reflexivity].
  destruct (shl c t (pos mod 64)) as [word|]; lnorm; [|reflexivity].
  rewrite <- (successor_tie c true bv pos word HW (idx_Ok_lt _ _ _ _ Ew)).
  apply loopN_ext. intros [block wd]. unfold succ_step. cbn [winv]. lsteps.
Qed.

(* ---------------------------------------------------------------------------------------------
   predecessor1 / predecessor0: `loop` left only by `return`, backward scan
   --------------------------------------------------------------------------------------------- *)
Definition pred_step (c : cfg) (inv : bool) (words : list N) (s : N * N) : res (N * N + option N) :=
  let '(block, word) := s in
  match msb_spec word with
  | Some ret => t <- mul c block 64 ;; t <- add c t ret ;; Ok (inr (Some t))
  | None =>
      if block =? 0 then Ok (inr None)
      else (b <- sub c block 1 ;; w <- idx 0 words b ;; Ok (inl (b, winv inv w)))
  end.

Lemma pred_loop c inv words : forall block, block <= lenN words -> forall word n, block < n ->
  loopN n (pred_step c inv words) (block, word) =
  pred_scan c inv (rev (firstn (N.to_nat block) words)) block word.
Proof.
  induction block as [|b IH] using N.peano_ind; intros Hb word n Hn.
  - rewrite loopN_step by lia. unfold pred_step at 1. rewrite firstn_0_rev. cbn [pred_scan]. unfold WORD_LEN.
    destruct (msb_spec word) as [ret|]; [|reflexivity].
    destruct (mul c 0 64) as [t|]; cbn [bind]; [|reflexivity].
    destruct (add c t ret) as [t'|]; cbn [bind]; reflexivity.
  - rewrite loopN_step by lia. unfold pred_step at 1.
    rewrite (rev_firstn_succ words b 0) by lia. cbn [pred_scan]. unfold WORD_LEN.
    destruct (msb_spec word) as [ret|].
    + destruct (mul c (N.succ b) 64) as [t|]; cbn [bind]; [|reflexivity].
      destruct (add c t ret) as [t'|]; cbn [bind]; reflexivity.
    + destruct (N.eqb_spec (N.succ b) 0) as [E|_]; [lia|].
      rewrite sub_ok by lia. cbn [bind]. replace (N.succ b - 1) with b by lia.
      rewrite idx_ok by lia. cbn [bind]. fold (winv inv (nthN words b 0)).
      apply IH; lia.
Qed.

Lemma tie_bit_vector_predecessor1 : forall c bv pos, lenN (bv_words bv) < W ->
  bit_vector_predecessor1 c bv pos = BitVector.predecessor1 c bv pos.
Proof.
  intros c bv pos HW. unfold bit_vector_predecessor1, predecessor1, predecessor. getters. consts. lnorm.
  destruct (bv_len bv <=? pos); [reflexivity|].
  destruct (sub c 64 (pos mod 64)) as [s|]; lnorm; [|reflexivity].
  destruct (sub c s 1) as [shift|]; lnorm; [|reflexivity].
  destruct (idx 0 (bv_words bv) (pos / 64)) as [w|] eqn:Ew; lnorm; [|reflexivity].
  destruct (shl c w shift) as [t|]; lnorm; [|reflexivity].
  destruct (shr c t shift) as [word|]; lnorm; [|reflexivity].
  apply idx_Ok_lt in Ew.
  rewrite <- (pred_loop c false (bv_words bv) (pos / 64)) with (n := W) by lia.
  apply loopN_ext. intros [block wd]. unfold pred_step. cbn [winv]. lsteps.
Qed.

Lemma tie_bit_vector_predecessor0 : forall c bv pos, lenN (bv_words bv) < W ->
  bit_vector_predecessor0 c bv pos = BitVector.predecessor0 c bv pos.
Proof.
  intros c bv pos HW. unfold bit_vector_predecessor0, predecessor0, predecessor. getters. consts. lnorm.
  destruct (bv_len bv <=? pos); [reflexivity|].
  destruct (sub c 64 (pos mod 64)) as [s|]; lnorm; [|reflexivity].
  destruct (sub c s 1) as [shift|]; lnorm; [|reflexivity].
  destruct (idx 0 (bv_words bv) (pos / 64)) as [w|] eqn:Ew; lnorm; [|reflexivity].
  destruct (shl c (not64 w) shift) as [t|]; lnorm; [|reflexivity].
  destruct (shr c t shift) as [word|]; lnorm; [|reflexivity].
  apply idx_Ok_lt in Ew.
  rewrite <- (pred_loop c true (bv_words bv) (pos / 64)) with (n := W) by lia.
  apply loopN_ext. intros [block wd]. unfold pred_step. cbn [winv]. lsteps.
Qed.

(* ---------------------------------------------------------------------------------------------
   Iter { bv, pos }: the model passes `bv` separately and returns the new position
   --------------------------------------------------------------------------------------------- *)
Lemma tie_bit_vector_iter_new : forall c bv, bit_vector_iter_new c bv = Ok {| it_bv := bv; it_pos := 0 |}.
Proof. reflexivity. Qed.

Lemma tie_bit_vector_iter_next : forall c it,
  bit_vector_iter_next c it =
  ('(p, x) <- BitVector.iter_next c (it_bv it) (it_pos it) ;; Ok ({| it_bv := it_bv it; it_pos := p |}, x)).
Proof.
  intros c [bv pos]. unfold bit_vector_iter_next, iter_next. rewrite tie_bit_vector_access. unfold access. getters.
  lsteps.
Qed.

Lemma tie_bit_vector_iter_size_hint : forall c it,
  bit_vector_iter_size_hint c it =
  ('(a, b) <- BitVector.iter_size_hint c (bv_len (it_bv it)) (it_pos it) ;; Ok (a, Some b)).
Proof. intros c [bv pos]. unfold bit_vector_iter_size_hint, iter_size_hint. getters. lsteps. Qed.

(* ---------------------------------------------------------------------------------------------
   UnaryIter { bv, pos, buf }: the model passes `bv` separately and keeps uiter { u_pos; u_buf }
   --------------------------------------------------------------------------------------------- *)
Definition to_u (it : unaryiter) : uiter := {| u_pos := ui_pos it; u_buf := ui_buf it |}.
Definition of_u (bv : bitvec) (u : uiter) : unaryiter := {| ui_bv := bv; ui_pos := u_pos u; ui_buf := u_buf u |}.
Definition lift_u (bv : bitvec) (m : res (uiter * option N)) : res (unaryiter * option N) :=
  '(u, r) <- m ;; Ok (of_u bv u, r).

Lemma tie_unary_iter_new : forall c bv pos, unary_iter_new c bv pos = Ok (of_u bv (unary_new bv pos)).
Proof.
  intros. unfold unary_iter_new, unary_new, of_u. getters. consts. lnorm.
  rewrite wshl_u32. destruct (pos / 64 <? lenN (bv_words bv)); reflexivity.
Qed.

Lemma tie_unary_iter_position : forall c it, unary_iter_position c it = Ok (Unary.position (to_u it)).
Proof. reflexivity. Qed.

(* where the cursor stands relative to the words already consumed (`pre`) *)
Definition cursor_ok (words pre after : list N) (pos : N) : Prop :=
  lenN pre = pos / 64 + 1 \/ (after = [] /\ lenN words <= pos / 64 + 1).

Lemma cursor_start words pos :
  let after := if pos / 64 <? lenN words then skipn (S (N.to_nat (pos / 64))) words else [] in
  exists pre, words = pre ++ after /\ cursor_ok words pre after pos /\ lenN after <= lenN words.
Proof.
  cbv zeta. destruct (N.ltb_spec (pos / 64) (lenN words)) as [H|H].
  - destruct (split_after words (pos / 64) H) as [Hs Hl].
    exists (firstn (S (N.to_nat (pos / 64))) words). split; [exact Hs|]. split; [left; exact Hl|].
    apply lenN_skipn_le.
  - exists words. split; [now rewrite app_nil_r|]. split; [right; split; [reflexivity|lia]|].
    rewrite lenN_nil. lia.
Qed.

(* skip1 / skip0: `loop` with `break` and `return None` *)
Definition skip_step {T} (c : cfg) (inv : bool) (words : list N) (k : N) (vnone : T) (s : N * N * N)
  : res (N * N * N + (N * N * N + T)) :=
  let '(buf, pos, skipped) := s in
  t <- add c skipped (popcN buf) ;;
  if k <? t then Ok (inr (inl (buf, pos, skipped))) else
  sk <- add c skipped (popcN buf) ;;
  p <- add c pos 64 ;;
  if lenN words <=? p / 64 then Ok (inr (inr vnone)) else
  w <- idx 0 words (p / 64) ;; Ok (inl (winv inv w, p, sk)).

Lemma skip_loop {T} c inv words k (vnone : T) (K : N * N * N -> res T) (KM : option (N * N * N) -> res T) :
  lenN words < 2 ^ 58 ->
  KM None = Ok vnone ->
  (forall b p s, K (b, p, s) = KM (Some (s, b, p))) ->
  forall after pre buf pos skipped n,
  words = pre ++ after -> cursor_ok words pre after pos -> pos + 64 < W -> lenN after < n ->
  bind (loopN n (skip_step c inv words k vnone) (buf, pos, skipped))
       (fun t => match t with inr v => Ok v | inl s => K s end)
  = bind (skip_scan c inv after k skipped buf pos) KM.
Proof.
  intros HW HK0 HK1. induction after as [|x r IH]; intros pre buf pos skipped n Hw Hc Hp Hn.
  - rewrite loopN_step by lia. unfold skip_step at 1. cbn [skip_scan]. unfold WORD_LEN.
    destruct (add c skipped (popcN buf)) as [t|] eqn:Et; cbn [bind]; [|reflexivity].
    destruct (k <? t); cbn [bind]; [apply HK1|].
    rewrite add_ok by exact Hp. cbn [bind].
    assert (Hle : lenN words <= (pos + 64) / 64).
    { destruct Hc as [Hc|[_ Hc]]; [rewrite app_nil_r in Hw; subst pre|]; lia. }
    destruct (N.leb_spec (lenN words) ((pos + 64) / 64)) as [_|]; [|lia].
    cbn [bind]. now rewrite HK0.
  - rewrite lenN_cons in Hn. rewrite loopN_step by lia. unfold skip_step at 1. cbn [skip_scan]. unfold WORD_LEN.
    destruct (add c skipped (popcN buf)) as [t|] eqn:Et; cbn [bind]; [|reflexivity].
    destruct (k <? t); cbn [bind]; [apply HK1|].
    rewrite add_ok by exact Hp. cbn [bind].
    destruct Hc as [Hc|[Hc _]]; [|discriminate].
    assert (Hlt : lenN pre < lenN words) by (subst words; rewrite lenN_app, lenN_cons; lia).
    assert (Hq : (pos + 64) / 64 = lenN pre) by lia.
    rewrite Hq. destruct (N.leb_spec (lenN words) (lenN pre)) as [|_]; [lia|].
    replace (idx 0 words (lenN pre)) with (Ok x) by (subst words; symmetry; apply idx_app_mid).
    cbn [bind]. fold (winv inv x).
    apply IH with (pre := pre ++ [x]); [now rewrite <- app_cons_assoc | left; rewrite lenN_snoc; lia | | lia].
    unfold W. change (2 ^ 58) with 288230376151711744 in HW. lia.
Qed.

Lemma tie_unary_iter_skip1 : forall c it k,
  lenN (bv_words (ui_bv it)) < 2 ^ 58 -> ui_pos it + 64 < W ->
  unary_iter_skip1 c it k = lift_u (ui_bv it) (Unary.skip1 c (ui_bv it) (to_u it) k).
Proof.
  intros c [bv pos buf] k HW Hp. unfold unary_iter_skip1, skip1, lift_u, words_after, to_u. getters. consts. lnorm.
  destruct (cursor_start (bv_words bv) pos) as (pre & Hs & Hc & Hl).
  rewrite bind_assoc.
  rewrite (loopN_ext _ _ (skip_step c false (bv_words bv) k ({| ui_bv := bv; ui_pos := pos; ui_buf := buf |}, None)))
    by (intros [[b p] s]; reflexivity).
  apply (skip_loop c false (bv_words bv) k) with (pre := pre); auto.
  - intros b p s. lnorm. rewrite sub_64_1. change (64 - 1) with 63. unfold of_u.
    lsteps; rewrite ?wshl_u32; reflexivity.
  - change (2 ^ 58) with 288230376151711744 in HW. unfold W. lia.
Qed.

Lemma tie_unary_iter_skip0 : forall c it k,
  lenN (bv_words (ui_bv it)) < 2 ^ 58 -> ui_pos it + 64 < W ->
  unary_iter_skip0 c it k = lift_u (ui_bv it) (Unary.skip0 c (ui_bv it) (to_u it) k).
Proof.
  intros c [bv pos buf] k HW Hp. unfold unary_iter_skip0, skip0, lift_u, words_after, to_u. getters. consts. lnorm.
  destruct (cursor_start (bv_words bv) pos) as (pre & Hs & Hc & Hl).
  rewrite bind_assoc. rewrite wshl_u32.
  rewrite (loopN_ext _ _ (skip_step c true (bv_words bv) k ({| ui_bv := bv; ui_pos := pos; ui_buf := buf |}, None)))
    by (intros [[b p] s]; reflexivity).
  apply (skip_loop c true (bv_words bv) k) with (pre := pre); auto.
  - intros b p s. lnorm. rewrite sub_64_1. change (64 - 1) with 63. unfold of_u.
    lsteps; first [reflexivity | rewrite ?wshl_u32; reflexivity | exfalso; lia].
  - change (2 ^ 58) with 288230376151711744 in HW. unfold W. lia.
Qed.

(* Iterator::next: `while buf == 0` with `return None`; `self.pos` is part of the loop state *)
Definition next_step (c : cfg) (s : N * unaryiter)
  : res (N * unaryiter + (N * unaryiter + unaryiter * option N)) :=
  let '(buf, self) := s in
  if buf =? 0 then
    p <- add c (ui_pos self) 64 ;;
    let self' := {| ui_bv := ui_bv self; ui_pos := p; ui_buf := ui_buf self |} in
    if lenN (bv_words (ui_bv self)) <=? p / 64 then Ok (inr (inr (self', None))) else
    w <- idx 0 (bv_words (ui_bv self)) (p / 64) ;; Ok (inl (w, self'))
  else Ok (inr (inl (buf, self))).

Lemma next_loop c bv b0 (K : N * unaryiter -> res (unaryiter * option N))
    (KM : N * option N -> res (unaryiter * option N)) :
  let mk p := {| ui_bv := bv; ui_pos := p; ui_buf := b0 |} in
  lenN (bv_words bv) < 2 ^ 58 ->
  (forall p, KM (p, None) = Ok (mk p, None)) ->
  (forall p buf, K (buf, mk p) = KM (p, Some buf)) ->
  forall after pre buf pos n,
  bv_words bv = pre ++ after -> cursor_ok (bv_words bv) pre after pos -> pos + 64 < W -> lenN after < n ->
  bind (loopN n (next_step c) (buf, mk pos)) (fun t => match t with inr v => Ok v | inl s => K s end)
  = bind (next_scan c after buf pos) KM.
Proof.
  intros mk HW HK0 HK1. induction after as [|x r IH]; intros pre buf pos n Hw Hc Hp Hn.
  - rewrite loopN_step by lia. unfold next_step at 1. cbn [next_scan ui_pos ui_bv ui_buf mk]. unfold WORD_LEN.
    destruct (buf =? 0); cbn [bind]; [|apply HK1].
    rewrite add_ok by exact Hp. cbn [bind].
    assert (Hle : lenN (bv_words bv) <= (pos + 64) / 64).
    { destruct Hc as [Hc|[_ Hc]]; [rewrite app_nil_r in Hw; rewrite Hw|]; lia. }
    destruct (N.leb_spec (lenN (bv_words bv)) ((pos + 64) / 64)) as [_|]; [|lia].
    cbn [bind]. now rewrite HK0.
  - rewrite lenN_cons in Hn. rewrite loopN_step by lia. unfold next_step at 1.
    cbn [next_scan ui_pos ui_bv ui_buf mk]. unfold WORD_LEN.
    destruct (buf =? 0); cbn [bind]; [|apply HK1].
    rewrite add_ok by exact Hp. cbn [bind].
    destruct Hc as [Hc|[Hc _]]; [|discriminate].
    assert (Hlt : lenN pre < lenN (bv_words bv)) by (rewrite Hw, lenN_app, lenN_cons; lia).
    assert (Hq : (pos + 64) / 64 = lenN pre) by lia.
    rewrite Hq. destruct (N.leb_spec (lenN (bv_words bv)) (lenN pre)) as [|_]; [lia|].
    replace (idx 0 (bv_words bv) (lenN pre)) with (Ok x) by (rewrite Hw; symmetry; apply idx_app_mid).
    cbn [bind].
    apply IH with (pre := pre ++ [x]); [now rewrite <- app_cons_assoc | left; rewrite lenN_snoc; lia | | lia].
    unfold W. change (2 ^ 58) with 288230376151711744 in HW. lia.
Qed.

Lemma tie_unary_iter_next : forall c it,
  lenN (bv_words (ui_bv it)) < 2 ^ 58 -> ui_pos it + 64 < W ->
  unary_iter_next c it = lift_u (ui_bv it) (Unary.unary_next c (ui_bv it) (to_u it)).
Proof.
  intros c [bv pos buf] HW Hp. unfold unary_iter_next, unary_next, lift_u, words_after, to_u. getters. consts. lnorm.
  destruct (cursor_start (bv_words bv) pos) as (pre & Hs & Hc & Hl).
  rewrite bind_assoc.
  rewrite (loopN_ext _ _ (next_step c)) by (intros [b [bv' p' b']]; reflexivity).
  apply (next_loop c bv buf) with (pre := pre); auto.
  - intros p b. lnorm. rewrite sub_64_1. change (64 - 1) with 63. unfold of_u. lsteps.
  - change (2 ^ 58) with 288230376151711744 in HW. unfold W. lia.
Qed.

(* ---------------------------------------------------------------------------------------------
   all ties
   --------------------------------------------------------------------------------------------- *)
Theorem loops_tie_bv_all :
  (forall c, bit_vector_new c = Ok bv_empty) /\
  (forall c bit len, bit_vector_from_bit c bit len = BitVector.from_bit c bit len) /\
  (forall c bits, bit_vector_from_bits c bits = BitVector.from_bits c bits) /\
  (forall c bv bits, bit_vector_extend c bv bits = BitVector.extend c bv bits) /\
  (forall c bv pos, bit_vector_rank1 c bv pos = BitVector.rank1 c bv pos) /\
  (forall c bv k, lenN (bv_words bv) < W -> bit_vector_select1 c bv k = BitVector.select1 c bv k) /\
  (forall c bv k, lenN (bv_words bv) < W -> bit_vector_select0 c bv k = BitVector.select0 c bv k) /\
  (forall c bv pos, lenN (bv_words bv) < W -> bit_vector_predecessor1 c bv pos = BitVector.predecessor1 c bv pos) /\
  (forall c bv pos, lenN (bv_words bv) < W -> bit_vector_predecessor0 c bv pos = BitVector.predecessor0 c bv pos) /\
  (forall c bv pos, lenN (bv_words bv) < W -> bit_vector_successor1 c bv pos = BitVector.successor1 c bv pos) /\
  (forall c bv pos, lenN (bv_words bv) < W -> bit_vector_successor0 c bv pos = BitVector.successor0 c bv pos) /\
  (forall c bv, bit_vector_iter_new c bv = Ok {| it_bv := bv; it_pos := 0 |}) /\
  (forall c it, bit_vector_iter_next c it =
     ('(p, x) <- BitVector.iter_next c (it_bv it) (it_pos it) ;; Ok ({| it_bv := it_bv it; it_pos := p |}, x))) /\
  (forall c it, bit_vector_iter_size_hint c it =
     ('(a, b) <- BitVector.iter_size_hint c (bv_len (it_bv it)) (it_pos it) ;; Ok (a, Some b))) /\
  (forall c bv pos, unary_iter_new c bv pos = Ok (of_u bv (unary_new bv pos))) /\
  (forall c it, unary_iter_position c it = Ok (Unary.position (to_u it))) /\
  (forall c it k, lenN (bv_words (ui_bv it)) < 2 ^ 58 -> ui_pos it + 64 < W ->
     unary_iter_skip1 c it k = lift_u (ui_bv it) (Unary.skip1 c (ui_bv it) (to_u it) k)) /\
  (forall c it k, lenN (bv_words (ui_bv it)) < 2 ^ 58 -> ui_pos it + 64 < W ->
     unary_iter_skip0 c it k = lift_u (ui_bv it) (Unary.skip0 c (ui_bv it) (to_u it) k)) /\
  (forall c it, lenN (bv_words (ui_bv it)) < 2 ^ 58 -> ui_pos it + 64 < W ->
     unary_iter_next c it = lift_u (ui_bv it) (Unary.unary_next c (ui_bv it) (to_u it))).
Proof.
  exact
  (conj tie_bit_vector_new
  (conj tie_bit_vector_from_bit
  (conj tie_bit_vector_from_bits
  (conj tie_bit_vector_extend
  (conj tie_bit_vector_rank1
  (conj tie_bit_vector_select1
  (conj tie_bit_vector_select0
  (conj tie_bit_vector_predecessor1
  (conj tie_bit_vector_predecessor0
  (conj tie_bit_vector_successor1
  (conj tie_bit_vector_successor0
  (conj tie_bit_vector_iter_new
  (conj tie_bit_vector_iter_next
  (conj tie_bit_vector_iter_size_hint
  (conj tie_unary_iter_new
  (conj tie_unary_iter_position
  (conj tie_unary_iter_skip1
  (conj tie_unary_iter_skip0
  tie_unary_iter_next)))))))))))))))))).
Qed.

Print Assumptions loops_tie_bv_all.

(* non-vacuity of the side conditions, and the loops run inside the kernel: a 130-bit vector in a dev and a
   release configuration (select in the third word, successor across an empty word, unary iterator over two words) *)
Example loops_tie_bv_example :
  let bv := {| bv_words := [5; 0; 2]; bv_len := 130 |} in
  let it := {| ui_bv := bv; ui_pos := 1; ui_buf := 4 |} in
  lenN (bv_words bv) < 2 ^ 58 /\ ui_pos it + 64 < W /\
  forall c, In c [ {| dbg := true; intr := false |}; {| dbg := false; intr := true |} ] ->
    bit_vector_select1 c bv 2 = Ok (Some 129) /\ bit_vector_successor1 c bv 3 = Ok (Some 129) /\
    bit_vector_predecessor0 c bv 128 = Ok (Some 128) /\ bit_vector_rank1 c bv 130 = Ok (Some 3) /\
    unary_iter_skip1 c it 1 = Ok ({| ui_bv := bv; ui_pos := 129; ui_buf := 2 |}, Some 129) /\
    unary_iter_next c it = Ok ({| ui_bv := bv; ui_pos := 2; ui_buf := 0 |}, Some 2).
Proof.
  cbv zeta. split; [vm_compute; reflexivity|]. split; [vm_compute; reflexivity|].
  intros c [<-|[<-|[]]]; vm_compute; repeat split; reflexivity.
Qed.
