(* Proofs/SAMain.v — property C03: SArray (Model/SArray.v) answers every query like the plain
   bit sequence, including the vector without ones and the empty vector.
   `sa_rep s b` is the representation invariant; the query theorems need nothing else.  The
   construction theorem (from_bits [+ enable_rank]) takes the two DArray premises of
   Proofs/EFBuilder.v explicitly. *)
From Sucds Require Import Base.Res Spec.WordSpec Spec.BitSpec Spec.SeqSpec
  Model.BitVector Model.Unary Model.DArray Model.EliasFano Model.SArray
  Proofs.ResLemmas Proofs.BVAbs Proofs.WordLemmas Proofs.BVReads Proofs.BVReads2
  Proofs.IndexSpecs Proofs.EFRep Proofs.EFQueries Proofs.EFIter Proofs.EFBuilder Proofs.UnaryIter
  Proofs.SALemmas.
From Coq Require Import ZArith ZifyN ZifyBool ZifyNat Lia.
Ltac Zify.zify_post_hook ::= Z.div_mod_to_equations.
Open Scope N_scope.

(* ---------- the representation invariant ---------- *)

Definition sa_rep (s : sarray) (b : list bool) : Prop :=
  sa_num_bits s = lenN b /\ sa_num_ones s = count true b /\
  match sa_ef s with
  | None => count true b = 0
  | Some e => ef_rep e (positions true b) (lenN b) /\
              (sa_has_rank s = true -> da_s0 (ef_high e) <> None)
  end.

(* ---------- queries ---------- *)

Section Queries.
Variables (s : sarray) (b : list bool).
Hypothesis R : sa_rep s b.

Lemma sa_rep_len : sa_num_bits s = lenN b. Proof. exact (proj1 R). Qed.
Lemma sa_rep_ones : sa_num_ones s = count true b. Proof. exact (proj1 (proj2 R)). Qed.

Theorem sa_access_spec c i : sa_access c s i = Ok (BitSpec.access b i).
Proof.
  destruct R as [Hlen [_ Hef]]. unfold sa_access. rewrite Hlen.
  destruct (N.leb_spec (lenN b) i) as [H|H].
  - unfold BitSpec.access. destruct (N.ltb_spec i (lenN b)) as [?|_]; [lia | reflexivity].
  - destruct (sa_ef s) as [e|].
    + destruct Hef as [Re _].
      destruct (ef_binsearch_spec e _ _ Re c i) as [r [E Hok]]. rewrite E. cbn [bind].
      rewrite (binsearch_access b i r H Hok). reflexivity.
    + rewrite (access_of_count0 b i Hef H). reflexivity.
Qed.

Theorem sa_select1_spec c k : sa_select1 c s k = Ok (BitSpec.select true b k).
Proof.
  destruct R as [_ [_ Hef]]. unfold sa_select1. rewrite <- bridge_select.
  destruct (sa_ef s) as [e|].
  - destruct Hef as [Re _]. apply (ef_select_spec e _ _ Re).
  - rewrite (positions_nil_of_count b Hef). unfold SeqSpec.ef_select.
    rewrite nth_opt_out by (rewrite lenN_nil; lia). reflexivity.
Qed.

Hypothesis Hrank : sa_has_rank s = true.

Theorem sa_rank1_spec c p : sa_rank1 c s p = Ok (BitSpec.rank true b p).
Proof.
  destruct R as [Hlen [_ Hef]]. unfold sa_rank1. rewrite Hrank, Hlen. cbn [assert_ bind].
  destruct (sa_ef s) as [e|].
  - destruct Hef as [Re Hs0]. rewrite <- bridge_rank.
    destruct (N.ltb_spec (lenN b) p) as [H|H].
    + unfold SeqSpec.ef_rank. destruct (N.leb_spec p (lenN b)) as [?|_]; [lia | reflexivity].
    + apply (ef_rank_spec e _ _ Re). exact (Hs0 Hrank).
  - rewrite (rank_of_count0 b p Hef).
    destruct (N.ltb_spec (lenN b) p) as [H|H]; destruct (N.leb_spec p (lenN b)) as [H'|H'];
      try reflexivity; lia.
Qed.

Theorem sa_rank0_spec c p : sa_rank0 c s p = Ok (BitSpec.rank false b p).
Proof.
  unfold sa_rank0. rewrite sa_rank1_spec. cbn [bind].
  destruct (BitSpec.rank true b p) as [r|] eqn:E.
  - destruct (rank_false_true b p r E) as [Hle E0]. rewrite sub_ok by exact Hle. cbn [bind].
    rewrite E0. reflexivity.
  - rewrite (rank_true_None b p E). reflexivity.
Qed.

Theorem sa_predecessor1_spec c p : sa_predecessor1 c s p = Ok (BitSpec.pred true b p).
Proof.
  destruct R as [_ [_ Hef]]. unfold sa_predecessor1. rewrite Hrank. cbn [assert_ bind].
  rewrite <- bridge_pred. destruct (sa_ef s) as [e|].
  - destruct Hef as [Re Hs0]. apply (ef_predecessor_spec e _ _ Re). exact (Hs0 Hrank).
  - unfold SeqSpec.ef_pred. rewrite (positions_nil_of_count b Hef). cbn [filter last_opt].
    destruct (p <? lenN b); reflexivity.
Qed.

Theorem sa_successor1_spec c p : sa_successor1 c s p = Ok (BitSpec.succ true b p).
Proof.
  destruct R as [_ [_ Hef]]. unfold sa_successor1. rewrite Hrank. cbn [assert_ bind].
  rewrite <- bridge_succ. destruct (sa_ef s) as [e|].
  - destruct Hef as [Re Hs0]. apply (ef_successor_spec e _ _ Re). exact (Hs0 Hrank).
  - unfold SeqSpec.ef_succ. rewrite (positions_nil_of_count b Hef). cbn [filter hd_error].
    destruct (p <? lenN b); reflexivity.
Qed.

End Queries.

(* without enable_rank the rank-based queries panic (the `expect` of the Rust code), whatever
   the argument *)
Lemma sa_rank1_no_index c s p : sa_has_rank s = false -> sa_rank1 c s p = Panic.
Proof. intro H. unfold sa_rank1. rewrite H. reflexivity. Qed.
Lemma sa_rank0_no_index c s p : sa_has_rank s = false -> sa_rank0 c s p = Panic.
Proof. intro H. unfold sa_rank0. rewrite sa_rank1_no_index by exact H. reflexivity. Qed.
Lemma sa_predecessor1_no_index c s p : sa_has_rank s = false -> sa_predecessor1 c s p = Panic.
Proof. intro H. unfold sa_predecessor1. rewrite H. reflexivity. Qed.
Lemma sa_successor1_no_index c s p : sa_has_rank s = false -> sa_successor1 c s p = Panic.
Proof. intro H. unfold sa_successor1. rewrite H. reflexivity. Qed.

(* ---------- construction ---------- *)

(* capacity of the Elias-Fano layer (needed only when the vector has a one) *)
Definition sa_cap (bv : bitvec) : Prop :=
  1 <= count true (bits_of bv) -> ef_cap (bv_len bv) (count true (bits_of bv)).

(* it holds for every vector shorter than 2^55 - 1 bits *)
Lemma sa_cap_small bv : wf bv -> bv_len bv + 1 < 2 ^ 55 -> sa_cap bv.
Proof.
  intros Hwf Hlen Hm. apply ef_cap_small; [exact Hm | | exact Hlen].
  pose proof (count_le_len true (bits_of bv)) as H. rewrite bits_of_length in H by exact Hwf. exact H.
Qed.

(* from_bits followed (or not) by enable_rank *)
Definition sa_build (c : cfg) (bv : bitvec) (with_rank : bool) : res sarray :=
  s0 <- sa_from_bv c bv ;; if with_rank then sa_enable_rank c s0 else Ok s0.

Section Build.
Hypothesis da_from_bits_ok : DA_FROM_BITS_OK.
Hypothesis da_enable_select0_ok : DA_ENABLE_SELECT0_OK.

Theorem sa_from_bv_ok bv : wf bv -> cap_ok bv -> sa_cap bv ->
  exists s, (forall c, sa_from_bv c bv = Ok s) /\ sa_rep s (bits_of bv) /\ sa_has_rank s = false.
Proof.
  intros Hwf Hcap Hsc. set (B := bits_of bv). set (m := count true B). set (u := bv_len bv).
  pose proof (bits_of_length bv Hwf) as HBlen. fold B in HBlen.
  destruct (N.eq_dec m 0) as [Hm0|Hm0].
  - exists {| sa_ef := None; sa_num_bits := u; sa_num_ones := m; sa_has_rank := false |}.
    split; [|split; [|reflexivity]].
    + intro c. unfold sa_from_bv. cbv zeta. rewrite (sa_popcount_ok c bv Hwf Hcap). cbn [bind].
      fold B. fold m. rewrite Hm0. change (negb (0 =? 0)) with false. cbv iota. reflexivity.
    + unfold sa_rep. cbn [sa_ef sa_num_bits sa_num_ones]. rewrite HBlen.
      split; [reflexivity | split; [reflexivity | exact Hm0]].
  - assert (Hm : 1 <= m) by lia.
    destruct (Hsc Hm) as [Hcap1 Hcap2]. fold B in Hcap1, Hcap2. fold m in Hcap1, Hcap2. fold u in Hcap1, Hcap2.
    assert (Hu : u < W).
    { pose proof (cap_W bv Hcap) as Hc. unfold u, W. lia. }
    assert (Hc : forall c, exists b0 b, efb_new c u m = Ok (Some b0) /\
               push_ones c (S (S (N.to_nat m))) bv (unary_new bv 0) b0 = Ok b /\
               efb_inv b (positions true B) u m).
    { intro c. destruct (efb_new_ok u m Hu Hm Hcap1 Hcap2 c) as [b0 [E0 I0]].
      destruct (push_ones_all bv u m Hwf Hcap eq_refl eq_refl Hu Hm Hcap1 Hcap2 c b0 I0) as [b [E I]].
      exists b0, b. split; [exact E0 | split; [exact E | exact I]]. }
    destruct (Hc {| dbg := true; intr := false |}) as [_ [b [_ [_ I]]]].
    destruct (efb_build_ok da_from_bits_ok u m b _ Hu Hm Hcap1 Hcap2 I) as [e [Eb [Re _]]].
    exists {| sa_ef := Some e; sa_num_bits := u; sa_num_ones := m; sa_has_rank := false |}.
    split; [|split; [|reflexivity]].
    + intro c. destruct (Hc c) as [b0' [b' [E0' [E' I']]]].
      pose proof (efb_inv_unique b b' _ u m I I') as ->.
      unfold sa_from_bv. cbv zeta. rewrite (sa_popcount_ok c bv Hwf Hcap). cbn [bind].
      fold B. fold m. fold u.
      destruct (N.eqb_spec m 0) as [?|_]; [lia|]. cbn [negb].
      rewrite E0'. cbn [bind unwrap]. rewrite E'. cbn [bind]. rewrite Eb. cbn [bind]. reflexivity.
    + unfold sa_rep. cbn [sa_ef sa_num_bits sa_num_ones sa_has_rank]. rewrite HBlen.
      split; [reflexivity | split; [reflexivity|]]. split; [exact Re | discriminate].
Qed.

Theorem sa_enable_rank_ok s b : sa_rep s b ->
  exists s', (forall c, sa_enable_rank c s = Ok s') /\ sa_rep s' b /\ sa_has_rank s' = true.
Proof.
  intros [Hlen [Hones Hef]]. unfold sa_enable_rank. destruct (sa_ef s) as [e|].
  - destruct Hef as [Re _].
    destruct (ef_enable_rank_ok da_enable_select0_ok e _ _ Re) as [e' [Er [Re' Hs0]]].
    eexists. split; [intro c; rewrite Er; cbn [bind]; reflexivity|].
    split; [|reflexivity]. unfold sa_rep. cbn [sa_ef sa_num_bits sa_num_ones sa_has_rank].
    split; [exact Hlen | split; [exact Hones|]]. split; [exact Re' | intros _; exact Hs0].
  - eexists. split; [intro c; cbn [bind]; reflexivity|].
    split; [|reflexivity]. unfold sa_rep. cbn [sa_ef sa_num_bits sa_num_ones sa_has_rank].
    split; [exact Hlen | split; [exact Hones | exact Hef]].
Qed.

Theorem sa_build_ok bv with_rank : wf bv -> cap_ok bv -> sa_cap bv ->
  exists s, (forall c, sa_build c bv with_rank = Ok s) /\ sa_rep s (bits_of bv) /\
            sa_has_rank s = with_rank.
Proof.
  intros Hwf Hcap Hsc. destruct (sa_from_bv_ok bv Hwf Hcap Hsc) as [s0 [E0 [R0 Hr0]]].
  unfold sa_build. destruct with_rank.
  - destruct (sa_enable_rank_ok s0 _ R0) as [s1 [E1 [R1 Hr1]]].
    exists s1. split; [|split; [exact R1 | exact Hr1]].
    intro c. rewrite E0. cbn [bind]. apply E1.
  - exists s0. split; [|split; [exact R0 | exact Hr0]].
    intro c. rewrite E0. reflexivity.
Qed.

(* C03, end to end *)
Theorem sa_correct bv with_rank : wf bv -> cap_ok bv -> sa_cap bv ->
  let b := bits_of bv in
  exists s, (forall c, sa_build c bv with_rank = Ok s) /\
    sa_num_bits s = bv_len bv /\ sa_num_ones s = count true b /\
    (forall c i, sa_access c s i = Ok (BitSpec.access b i)) /\
    (forall c k, sa_select1 c s k = Ok (BitSpec.select true b k)) /\
    (with_rank = true -> forall c p,
       sa_rank1 c s p = Ok (BitSpec.rank true b p) /\
       sa_rank0 c s p = Ok (BitSpec.rank false b p) /\
       sa_predecessor1 c s p = Ok (BitSpec.pred true b p) /\
       sa_successor1 c s p = Ok (BitSpec.succ true b p)).
Proof.
  intros Hwf Hcap Hsc b. destruct (sa_build_ok bv with_rank Hwf Hcap Hsc) as [s [E [R Hr]]].
  fold b in R. exists s. split; [exact E|].
  split; [rewrite (sa_rep_len s b R); apply bits_of_length, Hwf|].
  split; [exact (sa_rep_ones s b R)|].
  split; [intros c i; apply (sa_access_spec s b R)|].
  split; [intros c k; apply (sa_select1_spec s b R)|].
  intros Hw c p. rewrite Hw in Hr.
  split; [apply (sa_rank1_spec s b R Hr)|].
  split; [apply (sa_rank0_spec s b R Hr)|].
  split; [apply (sa_predecessor1_spec s b R Hr) | apply (sa_successor1_spec s b R Hr)].
Qed.

(* the same for every vector shorter than 2^55 - 1 bits: no capacity premise left *)
Corollary sa_correct_small bv with_rank : wf bv -> bv_len bv + 1 < 2 ^ 55 ->
  let b := bits_of bv in
  exists s, (forall c, sa_build c bv with_rank = Ok s) /\
    sa_num_bits s = bv_len bv /\ sa_num_ones s = count true b /\
    (forall c i, sa_access c s i = Ok (BitSpec.access b i)) /\
    (forall c k, sa_select1 c s k = Ok (BitSpec.select true b k)) /\
    (with_rank = true -> forall c p,
       sa_rank1 c s p = Ok (BitSpec.rank true b p) /\
       sa_rank0 c s p = Ok (BitSpec.rank false b p) /\
       sa_predecessor1 c s p = Ok (BitSpec.pred true b p) /\
       sa_successor1 c s p = Ok (BitSpec.succ true b p)).
Proof.
  intros Hwf Hlen. apply sa_correct; [exact Hwf | | apply sa_cap_small; assumption].
  unfold cap_ok. change (2 ^ 55) with 36028797018963968 in Hlen.
  change (2 ^ 56) with 72057594037927936. lia.
Qed.

End Build.

Print Assumptions sa_access_spec.
Print Assumptions sa_select1_spec.
Print Assumptions sa_rank1_spec.
Print Assumptions sa_rank0_spec.
Print Assumptions sa_predecessor1_spec.
Print Assumptions sa_successor1_spec.
Print Assumptions sa_cap_small.
Print Assumptions sa_from_bv_ok.
Print Assumptions sa_enable_rank_ok.
Print Assumptions sa_correct.
Print Assumptions sa_correct_small.
