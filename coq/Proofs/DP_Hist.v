(* Proofs/DP_Hist.v — list utilities, facts about bitlen / max_list / reach, and the
   characterisation of `nums_ints` (the histogram of DacsOpt::compute_opt_widths):
   nums_ints c B vals = Ok h with lenN h = B+1 and h[j] = reach vals j. *)
From Sucds Require Import Base.Res Spec.WordSpec Spec.DacSpec Model.CompactVector Model.Dacs
  Proofs.ResLemmas.
From Coq Require Import ZArith ZifyN ZifyBool ZifyNat Lia.
Ltac Zify.zify_post_hook ::= Z.div_mod_to_equations.
Open Scope N_scope.

(* ------------------------------------------------------------------ *)
(* nseq, nthN, setN                                                     *)

Lemma nseq_0 : nseq 0 = [].
Proof. reflexivity. Qed.

Lemma nseq_succ n : nseq (n + 1) = nseq n ++ [n].
Proof.
  rewrite ?nseq_unfold. replace (N.to_nat (n + 1)) with (S (N.to_nat n)) by lia.
  rewrite seq_S, map_app. cbn [map Nat.add]. rewrite N2Nat.id. reflexivity.
Qed.

Lemma In_nseq x n : In x (nseq n) <-> x < n.
Proof.
  rewrite ?nseq_unfold. rewrite in_map_iff. split.
  - intros [y [E H]]. apply in_seq in H. lia.
  - intro H. exists (N.to_nat x). split; [lia | apply in_seq; lia].
Qed.

Lemma lenN_nseq n : lenN (nseq n) = n.
Proof. unfold lenN. rewrite ?nseq_unfold. rewrite map_length, seq_length. lia. Qed.

Lemma nthN_nseq n i d : i < n -> nthN (nseq n) i d = i.
Proof.
  intro H. unfold nthN. rewrite ?nseq_unfold.
  rewrite nth_indep with (d' := N.of_nat 0%nat) by (rewrite map_length, seq_length; lia).
  rewrite map_nth, seq_nth by lia. lia.
Qed.

Lemma nthN_map_nseq {A} (g : N -> A) n i d : i < n -> nthN (map g (nseq n)) i d = g i.
Proof.
  intro H. unfold nthN.
  rewrite nth_indep with (d' := g 0).
  - rewrite map_nth. fold (nthN (nseq n) i 0). rewrite nthN_nseq by exact H. reflexivity.
  - rewrite map_length. pose proof (lenN_nseq n) as L. unfold lenN in L. lia.
Qed.

Lemma In_map_succ_nseq b n : In b (map (fun i => i + 1) (nseq n)) <-> 1 <= b <= n.
Proof.
  rewrite in_map_iff. split.
  - intros [y [E H]]. apply In_nseq in H. lia.
  - intro H. exists (b - 1). split; [lia | apply In_nseq; lia].
Qed.

Lemma set_nth_length {A} n (l : list A) x : length (set_nth n l x) = length l.
Proof.
  revert n. induction l as [|y l IH]; intro n; [destruct n; reflexivity|].
  destruct n; cbn [set_nth length]; [reflexivity | rewrite IH; reflexivity].
Qed.

Lemma nth_set_nth {A} n (l : list A) x k d :
  (n < length l)%nat -> nth k (set_nth n l x) d = if Nat.eqb k n then x else nth k l d.
Proof.
  revert n k. induction l as [|y l IH]; intros n k H; cbn [length] in H; [lia|].
  destruct n, k; cbn [set_nth nth Nat.eqb]; try reflexivity.
  apply IH. lia.
Qed.

Lemma lenN_setN {A} (l : list A) i x : lenN (setN l i x) = lenN l.
Proof. unfold lenN, setN. rewrite set_nth_length. reflexivity. Qed.

Lemma nthN_setN {A} (l : list A) i x k d :
  i < lenN l -> nthN (setN l i x) k d = if k =? i then x else nthN l k d.
Proof.
  unfold lenN, nthN, setN. intro H. rewrite nth_set_nth by lia.
  destruct (Nat.eqb_spec (N.to_nat k) (N.to_nat i)), (N.eqb_spec k i); try reflexivity; lia.
Qed.

Lemma nthN_repeat {A} (x : A) n i : nthN (repeat x n) i x = x.
Proof.
  unfold nthN. generalize (N.to_nat i) as k. induction n as [|n IH]; intro k; destruct k; cbn [repeat nth]; auto.
Qed.

Lemma setN_app_cons {A} (pre : list A) y rest r w :
  lenN pre = r -> setN (pre ++ y :: rest) r w = pre ++ w :: rest.
Proof.
  unfold lenN, setN. intro H. replace (N.to_nat r) with (length pre) by lia. clear H.
  induction pre as [|p pre IH]; cbn [app set_nth length]; [reflexivity | rewrite IH; reflexivity].
Qed.

Lemma last_opt_snoc {A} (l : list A) x : last_opt (l ++ [x]) = Some x.
Proof.
  induction l as [|y l IH]; [reflexivity|].
  cbn [app last_opt]. destruct (l ++ [x]) eqn:E.
  - destruct l; discriminate.
  - exact IH.
Qed.

Lemma last_opt_nthN {A} (l : list A) n d : lenN l = n + 1 -> last_opt l = Some (nthN l n d).
Proof.
  intro H. destruct (exists_last (l := l)) as [l' [x E]].
  - intro E. subst l. unfold lenN in H. cbn in H. lia.
  - subst l. rewrite last_opt_snoc. rewrite lenN_app in H. unfold lenN at 2 in H. cbn [length] in H.
    rewrite nthN_app_r by lia. replace (n - lenN l') with 0 by lia. reflexivity.
Qed.

(* ------------------------------------------------------------------ *)
(* generic folds                                                        *)

Lemma fold_res_pure {S A} (f : S -> A -> res S) (g : S -> A -> S) l :
  (forall s x, In x l -> f s x = Ok (g s x)) -> forall s, fold_res f l s = Ok (fold_left g l s).
Proof.
  induction l as [|x l IH]; intros H s; [reflexivity|].
  cbn [fold_res fold_left]. rewrite H by (left; reflexivity). cbn [bind].
  apply IH. intros s' y Hy. apply H. right. exact Hy.
Qed.

Lemma fold_res_snoc_map {A B} (f : A -> res B) (g : A -> B) l :
  (forall x, In x l -> f x = Ok (g x)) ->
  forall acc, fold_res (fun acc x => y <- f x ;; Ok (acc ++ [y])) l acc = Ok (acc ++ map g l).
Proof.
  induction l as [|x l IH]; intros H acc.
  - cbn [fold_res map]. rewrite app_nil_r. reflexivity.
  - cbn [fold_res map]. rewrite H by (left; reflexivity). cbn [bind].
    rewrite IH by (intros y Hy; apply H; right; exact Hy).
    rewrite <- app_assoc. reflexivity.
Qed.

(* ------------------------------------------------------------------ *)
(* bitlen, needed_bits, max_list                                        *)

Lemma bitlen_pos x : 1 <= bitlen x.
Proof. unfold bitlen. destruct (N.eqb_spec x 0); lia. Qed.

Lemma bitlen_le_64 x : x < W -> bitlen x <= 64.
Proof.
  intro H. unfold bitlen. destruct (N.eqb_spec x 0) as [E|E]; [lia|].
  assert (N.log2 x < 64); [|lia].
  apply N.log2_lt_pow2; [lia | exact H].
Qed.

Lemma bitlen_mono x y : x <= y -> bitlen x <= bitlen y.
Proof.
  intro H. unfold bitlen. destruct (N.eqb_spec x 0), (N.eqb_spec y 0); try lia.
  pose proof (N.log2_le_mono x y H). lia.
Qed.

Lemma needed_bits_ok c x : x < W -> needed_bits c x = Ok (bitlen x).
Proof.
  intro H. pose proof (bitlen_le_64 x H) as Hb. unfold needed_bits, msb_spec, bitlen in *.
  destruct (N.eqb_spec x 0); [reflexivity|].
  apply add_ok. unfold W. lia.
Qed.

Lemma fold_max_ge l : forall a, a <= fold_left N.max l a /\ forall x, In x l -> x <= fold_left N.max l a.
Proof.
  induction l as [|y l IH]; intro a; cbn [fold_left].
  - split; [lia | intros x []].
  - destruct (IH (N.max a y)) as [H1 H2]. split; [lia|].
    intros x [->|Hx]; [lia | apply H2, Hx].
Qed.

Lemma fold_max_in l : forall a, fold_left N.max l a = a \/ In (fold_left N.max l a) l.
Proof.
  induction l as [|y l IH]; intro a; cbn [fold_left]; [left; reflexivity|].
  destruct (IH (N.max a y)) as [H|H].
  - rewrite H. destruct (N.max_spec a y) as [[_ E]|[_ E]]; rewrite E; [right; left; reflexivity | left; reflexivity].
  - right. right. exact H.
Qed.

Lemma max_list_ge vals x : In x vals -> x <= max_list vals.
Proof. intro H. apply (fold_max_ge vals 0), H. Qed.

Lemma max_list_in vals : vals <> [] -> In (max_list vals) vals.
Proof.
  destruct vals as [|x l]; [congruence|]. intros _. unfold max_list. cbn [fold_left].
  replace (N.max 0 x) with x by lia.
  destruct (fold_max_in l x) as [H|H]; [rewrite H; left; reflexivity | right; exact H].
Qed.

Lemma max_list_lt_W vals : Forall (fun x => x < W) vals -> max_list vals < W.
Proof.
  intro H. destruct vals as [|x l].
  - unfold max_list, W. cbn [fold_left]. lia.
  - rewrite Forall_forall in H. apply H. apply max_list_in. discriminate.
Qed.

(* ------------------------------------------------------------------ *)
(* reach and the per-bit-length counts                                  *)

Definition cntb (vals : list N) (i : N) : N := lenN (filter (fun x => bitlen x =? i + 1) vals).

Lemma cntb_nil i : cntb [] i = 0. Proof. reflexivity. Qed.
Lemma cntb_cons x l i : cntb (x :: l) i = (if bitlen x =? i + 1 then 1 else 0) + cntb l i.
Proof.
  unfold cntb. cbn [filter]. destruct (bitlen x =? i + 1); [rewrite lenN_cons; lia | lia].
Qed.
Lemma reach_nil j : reach [] j = 0. Proof. reflexivity. Qed.
Lemma reach_cons x l j : reach (x :: l) j = (if j <? bitlen x then 1 else 0) + reach l j.
Proof.
  unfold reach. cbn [filter]. destruct (j <? bitlen x); [rewrite lenN_cons; lia | lia].
Qed.

Lemma reach_le vals j : reach vals j <= lenN vals.
Proof.
  induction vals as [|x l IH]; [rewrite reach_nil; unfold lenN; cbn; lia|].
  rewrite reach_cons, lenN_cons. destruct (j <? bitlen x); lia.
Qed.

Lemma cntb_le vals j : cntb vals j <= lenN vals.
Proof.
  induction vals as [|x l IH]; [rewrite cntb_nil; unfold lenN; cbn; lia|].
  rewrite cntb_cons, lenN_cons. destruct (bitlen x =? j + 1); lia.
Qed.

Lemma reach_split vals j : reach vals j = cntb vals j + reach vals (j + 1).
Proof.
  induction vals as [|x l IH]; [reflexivity|].
  rewrite !reach_cons, cntb_cons, IH.
  destruct (N.ltb_spec j (bitlen x)), (N.eqb_spec (bitlen x) (j + 1)), (N.ltb_spec (j + 1) (bitlen x)); lia.
Qed.

Lemma reach_top vals B : (forall x, In x vals -> bitlen x <= B) -> reach vals B = 0.
Proof.
  induction vals as [|x l IH]; intro H; [reflexivity|].
  rewrite reach_cons, IH by (intros y Hy; apply H; right; exact Hy).
  pose proof (H x (or_introl eq_refl)). destruct (N.ltb_spec B (bitlen x)); lia.
Qed.

Lemma cntb_top vals B : (forall x, In x vals -> bitlen x <= B) -> cntb vals B = 0.
Proof.
  induction vals as [|x l IH]; intro H; [reflexivity|].
  rewrite cntb_cons, IH by (intros y Hy; apply H; right; exact Hy).
  pose proof (H x (or_introl eq_refl)). destruct (N.eqb_spec (bitlen x) (B + 1)); lia.
Qed.

Lemma reach_pos vals m j : In m vals -> j < bitlen m -> 1 <= reach vals j.
Proof.
  induction vals as [|x l IH]; intros Hin Hj; [destruct Hin|].
  rewrite reach_cons. destruct Hin as [->|Hin].
  - destruct (N.ltb_spec j (bitlen m)); lia.
  - specialize (IH Hin Hj). lia.
Qed.

Lemma reach_0 vals : reach vals 0 = lenN vals.
Proof.
  induction vals as [|x l IH]; [reflexivity|].
  rewrite reach_cons, lenN_cons, IH. pose proof (bitlen_pos x).
  destruct (N.ltb_spec 0 (bitlen x)); lia.
Qed.

(* ------------------------------------------------------------------ *)
(* nums_ints                                                            *)

Section Hist.
Variable c : cfg.
Variable B : N.
Hypothesis HB : B <= 64.

Definition hist_step (h : list N) (x : N) : res (list N) :=
  nb <- needed_bits c x ;; i <- sub c nb 1 ;;
  v <- idx 0 h i ;; v1 <- add c v 1 ;; Ok (setN h i v1).

Lemma hist_fold vals : forall hst,
  lenN hst = B + 1 ->
  (forall x, In x vals -> x < W /\ bitlen x <= B) ->
  (forall i, i <= B -> nthN hst i 0 + lenN vals < W) ->
  exists hst', fold_res hist_step vals hst = Ok hst' /\ lenN hst' = B + 1 /\
               forall i, i <= B -> nthN hst' i 0 = nthN hst i 0 + cntb vals i.
Proof.
  induction vals as [|x l IH]; intros hst HL Hv Hb.
  - exists hst. split; [reflexivity|]. split; [exact HL|]. intros i Hi. rewrite cntb_nil. lia.
  - destruct (Hv x (or_introl eq_refl)) as [HxW Hxb].
    pose proof (bitlen_pos x) as Hp.
    cbn [fold_res]. unfold hist_step at 1.
    rewrite needed_bits_ok by exact HxW. cbn [bind].
    rewrite sub_ok by exact Hp. cbn [bind].
    rewrite idx_ok by lia. cbn [bind].
    pose proof (Hb (bitlen x - 1) ltac:(lia)) as Hb1. rewrite lenN_cons in Hb1.
    rewrite add_ok by lia. cbn [bind].
    destruct (IH (setN hst (bitlen x - 1) (nthN hst (bitlen x - 1) 0 + 1))) as [hst' [E [L' N']]].
    + rewrite lenN_setN. exact HL.
    + intros y Hy. apply Hv. right. exact Hy.
    + intros i Hi. rewrite nthN_setN by lia. specialize (Hb i Hi). rewrite lenN_cons in Hb.
      destruct (N.eqb_spec i (bitlen x - 1)) as [->|]; lia.
    + exists hst'. split; [exact E|]. split; [exact L'|].
      intros i Hi. rewrite N' by exact Hi. rewrite nthN_setN by lia. rewrite cntb_cons.
      destruct (N.eqb_spec i (bitlen x - 1)) as [E1|E1], (N.eqb_spec (bitlen x) (i + 1)) as [E2|E2]; try lia.
      subst i. lia.
Qed.

Definition suf_step (h : list N) (j : N) : res (list N) :=
  a <- idx 0 h j ;; j1 <- add c j 1 ;; b <- idx 0 h j1 ;; s <- add c a b ;; Ok (setN h j s).

Lemma suf_fold vals :
  lenN vals < 2 ^ 56 ->
  forall k, k <= B -> forall hst,
  lenN hst = B + 1 ->
  (forall i, k <= i -> i <= B -> nthN hst i 0 = reach vals i) ->
  (forall i, i < k -> nthN hst i 0 = cntb vals i) ->
  exists hst', fold_res suf_step (rev (nseq k)) hst = Ok hst' /\ lenN hst' = B + 1 /\
               forall i, i <= B -> nthN hst' i 0 = reach vals i.
Proof.
  intro Hn. intro k. induction k as [|k IH] using N.peano_ind; intros Hk hst HL Hhi Hlo.
  - exists hst. split; [reflexivity|]. split; [exact HL|]. intros i Hi. apply Hhi; lia.
  - rewrite <- N.add_1_r in *. rewrite nseq_succ, rev_app_distr. cbn [rev app fold_res].
    unfold suf_step at 1.
    rewrite idx_ok by lia. cbn [bind].
    rewrite add_ok by (unfold W; lia). cbn [bind].
    rewrite idx_ok by lia. cbn [bind].
    rewrite (Hlo k) by lia. rewrite (Hhi (k + 1)) by lia.
    pose proof (reach_le vals k) as Hr.
    pose proof (reach_split vals k) as Hs.
    assert (HW : 2 ^ 56 < W) by (unfold W; reflexivity).
    rewrite add_ok by lia. cbn [bind].
    rewrite <- Hs.
    apply IH.
    + lia.
    + rewrite lenN_setN. exact HL.
    + intros i H1 H2. rewrite nthN_setN by lia.
      destruct (N.eqb_spec i k) as [->|]; [reflexivity | apply Hhi; lia].
    + intros i H1. rewrite nthN_setN by lia.
      destruct (N.eqb_spec i k) as [->|]; [lia | apply Hlo; lia].
Qed.

Lemma nums_ints_ok vals :
  (forall x, In x vals -> x < W /\ bitlen x <= B) ->
  lenN vals < 2 ^ 56 ->
  exists h, nums_ints c B vals = Ok h /\ lenN h = B + 1 /\
            forall j, j <= B -> nthN h j 0 = reach vals j.
Proof.
  intros Hv Hn. unfold nums_ints.
  rewrite add_ok by (unfold W; lia). cbn [bind].
  assert (HW : 2 ^ 56 < W) by (unfold W; reflexivity).
  destruct (hist_fold vals (repeat 0 (N.to_nat (B + 1)))) as [h1 [E1 [L1 N1]]].
  - rewrite lenN_repeat. lia.
  - exact Hv.
  - intros i Hi. rewrite nthN_repeat. lia.
  - fold hist_step. rewrite E1. cbn [bind]. fold suf_step.
    apply (suf_fold vals Hn B (N.le_refl B) h1 L1).
    + intros i H1 H2. assert (i = B) by lia. subst i.
      rewrite N1 by lia. rewrite nthN_repeat.
      rewrite cntb_top, reach_top; [reflexivity | |]; intros x Hx; apply Hv, Hx.
    + intros i Hi. rewrite N1 by lia. rewrite nthN_repeat. lia.
Qed.
End Hist.
