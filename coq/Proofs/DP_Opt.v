(* Proofs/DP_Opt.v — a pure (non-monadic) description of the DP tables of
   DacsOpt::compute_opt_widths and the combinatorial optimality argument.

   tab r j = (dp_s[j][r], dp_b[j][r]).  Semantics: dp_s[j][r] is the minimum over chains ws
   (positive widths summing to B - j, at most r+1 parts) of `tc r j ws`, the cost the table
   charges to the chain: a chain with exactly r+1 parts is charged its true cost, a shorter one
   is charged one extra flag term h(offset of its last level) >= 1. *)
From Sucds Require Import Base.Res Spec.DacSpec Proofs.ResLemmas Proofs.DP_Hist.
From Coq Require Import ZArith ZifyN ZifyBool ZifyNat Lia.
Ltac Zify.zify_post_hook ::= Z.div_mod_to_equations.
Open Scope N_scope.

Lemma fold_add_acc l : forall a, fold_left N.add l a = a + fold_left N.add l 0.
Proof.
  induction l as [|x l IH]; intro a; cbn [fold_left]; [lia|].
  rewrite (IH (a + x)), (IH (0 + x)). lia.
Qed.
Lemma sum_list_nil : sum_list [] = 0. Proof. reflexivity. Qed.
Lemma sum_list_cons w l : sum_list (w :: l) = w + sum_list l.
Proof. unfold sum_list. cbn [fold_left]. rewrite fold_add_acc. lia. Qed.

(* ------------------------------------------------------------------ *)
(* the inner minimisation (ties to the largest b)                       *)

Definition cell_step (f : N -> N) (sb : N * N) (b : N) : N * N :=
  if f b <=? fst sb then (f b, b) else sb.
Definition cell (f : N -> N) (bmax : N) : N * N :=
  fold_left (cell_step f) (map (fun b => b + 1) (nseq bmax)) (MASK64, 0).

Lemma cell_0 f : cell f 0 = (MASK64, 0).
Proof. reflexivity. Qed.
Lemma cell_succ f k : cell f (k + 1) = cell_step f (cell f k) (k + 1).
Proof. unfold cell. rewrite nseq_succ, map_app, fold_left_app. reflexivity. Qed.

Lemma cell_le f k : forall b, 1 <= b <= k -> fst (cell f k) <= f b.
Proof.
  induction k as [|k IH] using N.peano_ind; intros b Hb; [lia|].
  rewrite <- N.add_1_r in *. rewrite cell_succ. unfold cell_step.
  destruct (N.leb_spec (f (k + 1)) (fst (cell f k))) as [H|H]; cbn [fst].
  - destruct (N.eq_dec b (k + 1)) as [->|Hne]; [lia|].
    specialize (IH b ltac:(lia)). lia.
  - destruct (N.eq_dec b (k + 1)) as [->|Hne]; [lia | apply IH; lia].
Qed.

Lemma cell_arg f : f 1 <= MASK64 -> forall k,
  1 <= snd (cell f (k + 1)) <= k + 1 /\ fst (cell f (k + 1)) = f (snd (cell f (k + 1))).
Proof.
  intros H1 k. induction k as [|k IH] using N.peano_ind.
  - rewrite cell_succ, cell_0. change (0 + 1) with 1. unfold cell_step. cbn [fst].
    destruct (N.leb_spec (f 1) MASK64); [cbn [fst snd]; lia | lia].
  - rewrite <- N.add_1_r in *. rewrite cell_succ. unfold cell_step.
    destruct (N.leb_spec (f (k + 1 + 1)) (fst (cell f (k + 1)))); cbn [fst snd]; [lia|].
    destruct IH as [IH1 IH2]. split; [lia | exact IH2].
Qed.

(* ------------------------------------------------------------------ *)
(* choice of the number of levels (first minimal column)                *)

Definition lev_step (T : N -> N) (bm : N * N) (r : N) : N * N :=
  if T r <? fst bm then (T r, r) else bm.
Definition minlev (T : N -> N) (m : N) : N * N :=
  fold_left (lev_step T) (map (fun r => r + 1) (nseq m)) (T 0, 0).

Lemma minlev_succ T m : minlev T (m + 1) = lev_step T (minlev T m) (m + 1).
Proof. unfold minlev. rewrite nseq_succ, map_app, fold_left_app. reflexivity. Qed.

Lemma minlev_spec T m :
  snd (minlev T m) <= m /\ fst (minlev T m) = T (snd (minlev T m)) /\
  forall r, r <= m -> fst (minlev T m) <= T r.
Proof.
  induction m as [|m IH] using N.peano_ind.
  - unfold minlev. rewrite nseq_0. cbn [map fold_left fst snd].
    split; [lia|]. split; [reflexivity|]. intros r Hr. assert (r = 0) by lia. subst r. lia.
  - rewrite <- N.add_1_r in *. rewrite minlev_succ. unfold lev_step.
    destruct IH as [I1 [I2 I3]].
    destruct (N.ltb_spec (T (m + 1)) (fst (minlev T m))) as [H|H]; cbn [fst snd].
    + split; [lia|]. split; [reflexivity|]. intros r Hr.
      destruct (N.eq_dec r (m + 1)) as [->|Hne]; [lia|]. specialize (I3 r ltac:(lia)). lia.
    + split; [lia|]. split; [exact I2|]. intros r Hr.
      destruct (N.eq_dec r (m + 1)) as [->|Hne]; [lia | apply I3; lia].
Qed.

(* ------------------------------------------------------------------ *)
(* the tables                                                           *)

Section DP.
Variable h : N -> N.
Variable B n : N.
Hypothesis HB : B <= 64.
Hypothesis Hn : n < 2 ^ 56.
Hypothesis hn : forall j, h j <= n.
Hypothesis hpos : forall j, j < B -> 1 <= h j.

Fixpoint tab (r : nat) (j : N) : N * N :=
  match r with
  | O => ((B - j) * h j, B - j)
  | S r' => if j <? B
            then cell (fun b => (b + 1) * h j + fst (tab r' (j + b))) (B - j)
            else (0, 0)
  end.

Lemma tab_B r : tab r B = (0, 0).
Proof.
  destruct r; cbn [tab].
  - rewrite N.sub_diag, N.mul_0_l. reflexivity.
  - rewrite N.ltb_irrefl. reflexivity.
Qed.

Lemma tab_S r j : j < B ->
  tab (S r) j = cell (fun b => (b + 1) * h j + fst (tab r (j + b))) (B - j).
Proof. intro H. cbn [tab]. apply N.ltb_lt in H. rewrite H. reflexivity. Qed.

Lemma tab_bound r : forall j, fst (tab r j) <= 65 * n.
Proof.
  induction r as [|r IH]; intro j.
  - cbn [tab fst]. transitivity (64 * n); [|lia]. apply N.mul_le_mono; [lia | apply hn].
  - destruct (N.ltb_spec j B) as [H|H].
    + rewrite tab_S by exact H.
      etransitivity; [apply (cell_le _ (B - j) (B - j)); lia|].
      cbv beta. replace (j + (B - j)) with B by lia. rewrite tab_B. cbn [fst].
      rewrite N.add_0_r. apply N.mul_le_mono; [lia | apply hn].
    + cbn [tab]. apply N.ltb_ge in H. rewrite H. cbn [fst]. lia.
Qed.

Lemma cand_bound r j b : b <= 64 -> (b + 1) * h j + fst (tab r (j + b)) <= 130 * n.
Proof.
  intro Hb. pose proof (tab_bound r (j + b)).
  assert ((b + 1) * h j <= 65 * n) by (apply N.mul_le_mono; [lia | apply hn]). lia.
Qed.

Lemma n130 : 130 * n <= MASK64.
Proof. unfold MASK64. assert (2 ^ 56 = 72057594037927936) by reflexivity. lia. Qed.

(* characterisation of a cell of column r+1 *)
Lemma tab_step r j : j < B ->
  1 <= snd (tab (S r) j) <= B - j /\
  fst (tab (S r) j) = (snd (tab (S r) j) + 1) * h j + fst (tab r (j + snd (tab (S r) j))) /\
  forall b, 1 <= b <= B - j -> fst (tab (S r) j) <= (b + 1) * h j + fst (tab r (j + b)).
Proof.
  intro H. rewrite tab_S by exact H.
  set (f := fun b => (b + 1) * h j + fst (tab r (j + b))).
  assert (F1 : f 1 <= MASK64).
  { unfold f. pose proof (cand_bound r j 1 ltac:(lia)). pose proof n130. lia. }
  pose proof (cell_arg f F1 (B - j - 1)) as A.
  replace (B - j - 1 + 1) with (B - j) in A by lia.
  destruct A as [A1 A2]. split; [exact A1|]. split; [exact A2|].
  intros b Hb. apply (cell_le f (B - j) b Hb).
Qed.

(* ------------------------------------------------------------------ *)
(* chains and their costs                                               *)

(* ws is a list of positive widths leading from offset j to B *)
Fixpoint chain (j : N) (ws : list N) : Prop :=
  match ws with
  | [] => j = B
  | w :: rest => 1 <= w /\ chain (j + w) rest
  end.

(* cost_from of the spec, over h *)
Fixpoint hcost (o : N) (ws : list N) : N :=
  match ws with
  | [] => 0
  | w :: r => match r with
              | [] => w * h o
              | _ => (w + 1) * h o + hcost (o + w) r
              end
  end.

(* what column r of the table charges for the chain ws *)
Fixpoint tc (r : nat) (j : N) (ws : list N) : N :=
  match ws with
  | [] => 0
  | w :: rest => match r with
                 | O => w * h j
                 | S r' => (w + 1) * h j + tc r' (j + w) rest
                 end
  end.

Lemma chain_le ws : forall j, chain j ws -> j <= B.
Proof.
  induction ws as [|w rest IH]; intros j H; cbn [chain] in H; [lia|].
  destruct H as [_ H]. apply IH in H. lia.
Qed.

Lemma tc_exact r : forall j ws, length ws = S r -> tc r j ws = hcost j ws.
Proof.
  induction r as [|r IH]; intros j ws L.
  - destruct ws as [|w [|w' rest]]; try discriminate. reflexivity.
  - destruct ws as [|w [|w' rest]]; try discriminate.
    change (tc (S r) j (w :: w' :: rest)) with ((w + 1) * h j + tc r (j + w) (w' :: rest)).
    change (hcost j (w :: w' :: rest)) with ((w + 1) * h j + hcost (j + w) (w' :: rest)).
    rewrite (IH (j + w) (w' :: rest)) by (cbn [length] in *; lia).
    reflexivity.
Qed.

Lemma tc_short r : forall j ws, chain j ws -> ws <> [] -> (length ws <= r)%nat ->
  hcost j ws + 1 <= tc r j ws.
Proof.
  induction r as [|r IH]; intros j ws C Hne L.
  - destruct ws; [congruence | cbn [length] in L; lia].
  - destruct ws as [|w [|w' rest]]; [congruence| |].
    + cbn [tc hcost chain] in *. destruct C as [Hw C]. pose proof (hpos j ltac:(lia)). lia.
    + cbn [chain] in C. destruct C as [Hw C].
      specialize (IH (j + w) (w' :: rest) C ltac:(discriminate) ltac:(cbn [length] in *; lia)).
      change (tc (S r) j (w :: w' :: rest)) with ((w + 1) * h j + tc r (j + w) (w' :: rest)).
      change (hcost j (w :: w' :: rest)) with ((w + 1) * h j + hcost (j + w) (w' :: rest)).
      lia.
Qed.

Lemma tab_le_tc r : forall j ws, chain j ws -> (length ws <= S r)%nat -> j < B ->
  fst (tab r j) <= tc r j ws.
Proof.
  induction r as [|r IH]; intros j ws C L Hj.
  - destruct ws as [|w [|w' rest]]; cbn [chain length] in *; [lia | | lia].
    destruct C as [Hw C]. cbn [tab fst tc]. replace (B - j) with w by lia. lia.
  - destruct ws as [|w rest]; cbn [chain] in C; [lia|].
    destruct C as [Hw C]. pose proof (chain_le rest (j + w) C) as Hle.
    destruct (tab_step r j Hj) as [_ [_ M]].
    specialize (M w ltac:(lia)). cbn [tc].
    destruct (N.eq_dec (j + w) B) as [E|E].
    + rewrite E in *. rewrite tab_B in M. cbn [fst] in M. lia.
    + specialize (IH (j + w) rest C ltac:(cbn [length] in L; lia) ltac:(lia)). lia.
Qed.

(* ------------------------------------------------------------------ *)
(* the reconstruction walk                                              *)

Fixpoint wchain (k : nat) (j : N) : list N :=
  if j <? B then
    snd (tab k j) :: match k with O => [] | S k' => wchain k' (j + snd (tab k j)) end
  else [].

Lemma wchain_B k : wchain k B = [].
Proof. destruct k; cbn [wchain]; rewrite N.ltb_irrefl; reflexivity. Qed.

Lemma wchain_lt k j : j < B ->
  wchain k j = snd (tab k j) :: match k with O => [] | S k' => wchain k' (j + snd (tab k j)) end.
Proof. intro H. apply N.ltb_lt in H. destruct k; cbn [wchain]; rewrite H; reflexivity. Qed.

Lemma wchain_spec k : forall j, j <= B ->
  chain j (wchain k j) /\ (length (wchain k j) <= S k)%nat /\ tc k j (wchain k j) = fst (tab k j).
Proof.
  induction k as [|k IH]; intros j Hj.
  - destruct (N.eq_dec j B) as [->|Hne].
    + rewrite wchain_B, tab_B. cbn [chain length tc fst]. split; [reflexivity|]. split; [lia | reflexivity].
    + rewrite wchain_lt by lia. cbn [tab fst snd chain length tc].
      split; [lia|]. split; [lia | reflexivity].
  - destruct (N.eq_dec j B) as [->|Hne].
    + rewrite wchain_B, tab_B. cbn [chain length tc fst]. split; [reflexivity|]. split; [lia | reflexivity].
    + rewrite wchain_lt by lia.
      destruct (tab_step k j ltac:(lia)) as [Hb [Hs _]].
      set (b := snd (tab (S k) j)) in *.
      destruct (IH (j + b) ltac:(lia)) as [C [L T]].
      cbn [chain length tc]. split; [split; [lia | exact C]|]. split; [lia|].
      rewrite T, Hs. reflexivity.
Qed.

(* ------------------------------------------------------------------ *)
(* optimality of the pure algorithm                                     *)

Theorem dp_pure_optimal (R rs : nat) :
  1 <= B -> (rs <= R)%nat ->
  (forall r, (r <= R)%nat -> fst (tab rs 0) <= fst (tab r 0)) ->
  let ws := wchain rs 0 in
  chain 0 ws /\ length ws = S rs /\
  forall ws', chain 0 ws' -> (1 <= length ws' <= S R)%nat -> hcost 0 ws <= hcost 0 ws'.
Proof.
  intros HB1 HrR Hmin ws.
  destruct (wchain_spec rs 0 ltac:(lia)) as [C [L T]]. fold ws in C, L, T.
  assert (Hne : ws <> []).
  { unfold ws. rewrite wchain_lt by lia. discriminate. }
  assert (Len : length ws = S rs).
  { destruct (Nat.eq_dec (length ws) (S rs)) as [E|E]; [exact E | exfalso].
    destruct (length ws) as [|k] eqn:EL; [destruct ws; [congruence | discriminate]|].
    assert (Hk : (k < rs)%nat) by lia.
    pose proof (tc_short rs 0 ws C Hne ltac:(lia)) as H1.
    pose proof (tab_le_tc k 0 ws C ltac:(lia) ltac:(lia)) as H2.
    rewrite (tc_exact k 0 ws EL) in H2.
    specialize (Hmin k ltac:(lia)). lia. }
  split; [exact C|]. split; [exact Len|].
  intros ws' C' L'.
  rewrite <- (tc_exact rs 0 ws Len), T.
  destruct (length ws') as [|k'] eqn:EL; [lia|].
  rewrite <- (tc_exact k' 0 ws' EL).
  etransitivity; [apply (Hmin k'); lia|].
  apply tab_le_tc; [exact C' | lia | lia].
Qed.

End DP.
