(* Proofs/SerialIO.v — the std I/O loops under short, interrupted and failing reads/writes
   (property C13).  A reader is (data, schedule): every `read` call consumes one schedule entry,
   0 = Err(Interrupted), k > 0 = at most k bytes are transferred; with the schedule exhausted
   reads are unrestricted.  `read_exact` / `write_all` are the documented loops of
   std::io::Read::read_exact and std::io::Write::write_all, run with explicit fuel; the result
   `IoFuel` (loop did not terminate within the fuel) is shown never to occur. *)
From Sucds Require Import Base.Res Spec.FormatSpec Proofs.SerialGeneric.
From Coq Require Import ZArith ZifyN ZifyBool ZifyNat Lia.
Ltac Zify.zify_post_hook ::= Z.div_mod_to_equations.
Open Scope N_scope.

Inductive io (A : Type) : Type := IoOk (a : A) | IoErr | IoFuel.
Arguments IoOk {A} a.
Arguments IoErr {A}.
Arguments IoFuel {A}.

(* ------------------------------------------------------------------------------------------ *)
(* list facts                                                                                     *)
(* ------------------------------------------------------------------------------------------ *)
Lemma skipn_skipn' {A} : forall a b (l : list A), skipn a (skipn b l) = skipn (b + a) l.
Proof.
  intros a b. revert a. induction b as [|b IH]; intros a l; [reflexivity|].
  destruct l as [|x l]; cbn [skipn Nat.add]; [now destruct a | apply IH].
Qed.
Lemma firstn_split {A} : forall m n (l : list A),
  (m <= n)%nat -> firstn n l = firstn m l ++ firstn (n - m) (skipn m l).
Proof.
  induction m as [|m IH]; intros n l H; cbn [firstn skipn app].
  - now rewrite Nat.sub_0_r.
  - destruct n as [|n]; [lia|]. destruct l as [|x l]; cbn [firstn skipn app Nat.sub].
    + now destruct (n - m)%nat.
    + f_equal. apply IH. lia.
Qed.

(* ------------------------------------------------------------------------------------------ *)
(* readers                                                                                        *)
(* ------------------------------------------------------------------------------------------ *)
Definition reader := (list N * list N)%type.          (* remaining data, remaining schedule *)

Inductive ev := EvIntr | EvGot (got : list N).

(* one call of Read::read on a buffer of `want` > 0 bytes *)
Definition read1 (want : nat) (r : reader) : ev * reader :=
  let '(data, sched) := r in
  match sched with
  | [] => (EvGot (firstn want data), (skipn want data, []))
  | k :: s =>
      if k =? 0 then (EvIntr, (data, s))
      else let m := Nat.min (N.to_nat k) want in (EvGot (firstn m data), (skipn m data, s))
  end.

(* while !buf.is_empty() { match read(buf) { Ok(0) => break (UnexpectedEof), Ok(n) => advance,
                                            Err(Interrupted) => retry } } *)
Fixpoint read_exact_fuel (fuel : nat) (want : nat) (acc : list N) (r : reader)
  : io (list N * reader) :=
  match want with
  | O => IoOk (acc, r)
  | S _ =>
      match fuel with
      | O => IoFuel
      | S f =>
          match read1 want r with
          | (EvIntr, r') => read_exact_fuel f want acc r'
          | (EvGot got, r') =>
              if (length got =? 0)%nat then IoErr
              else read_exact_fuel f (want - length got) (acc ++ got) r'
          end
      end
  end.

Lemma read_exact_fuel_0 fuel acc r : read_exact_fuel fuel 0 acc r = IoOk (acc, r).
Proof. destruct fuel; reflexivity. Qed.

Definition read_exact (n : nat) (r : reader) : io (list N * reader) :=
  read_exact_fuel (length (snd r) + 2) n [] r.

Definition rx_spec (res : io (list N * reader)) (want : nat) (acc data : list N) : Prop :=
  ((want <= length data)%nat ->
   exists s', res = IoOk (acc ++ firstn want data, (skipn want data, s'))) /\
  ((length data < want)%nat -> res = IoErr).

(* a successful partial read of 1 <= m <= want bytes reduces the problem to the rest *)
Lemma rx_step m want acc data res :
  (1 <= m <= want)%nat ->
  rx_spec res (want - length (firstn m data)) (acc ++ firstn m data) (skipn m data) ->
  rx_spec res want acc data.
Proof.
  intros Hm [H1 H2]. rewrite firstn_length, skipn_length in *. split.
  - intro Hle. destruct H1 as [s' E]; [lia|]. exists s'. rewrite E.
    rewrite Nat.min_l by lia. rewrite <- app_assoc, <- firstn_split by lia.
    rewrite skipn_skipn'. replace (m + (want - m))%nat with want by lia. reflexivity.
  - intro Hlt. apply H2. lia.
Qed.

Lemma read_exact_eof fuel want acc :
  (1 <= fuel)%nat -> (1 <= want)%nat -> read_exact_fuel fuel want acc ([], []) = IoErr.
Proof.
  intros Hf Hw. destruct want as [|w]; [lia|]. destruct fuel as [|f]; [lia|]. reflexivity.
Qed.

Lemma read_exact_nil fuel want acc data :
  (2 <= fuel)%nat -> rx_spec (read_exact_fuel fuel want acc (data, [])) want acc data.
Proof.
  intro Hf. destruct want as [|w].
  - split; [|cbn [length]; lia]. intros _. exists []. rewrite read_exact_fuel_0.
    cbn [firstn skipn]. now rewrite app_nil_r.
  - destruct fuel as [|f]; [lia|]. cbn [read_exact_fuel read1].
    destruct (Nat.eqb_spec (length (firstn (S w) data)) 0) as [E|E].
    + rewrite firstn_length in E. split; [lia | reflexivity].
    + apply (rx_step (S w)); [lia|]. rewrite firstn_length in *.
      destruct (Nat.leb_spec (S w) (length data)) as [Hle|Hgt].
      * rewrite Nat.min_l by lia. rewrite Nat.sub_diag, read_exact_fuel_0. split; [|lia].
        intros _. exists []. cbn [firstn skipn]. now rewrite app_nil_r.
      * rewrite skipn_all2 by lia. rewrite read_exact_eof by lia.
        split; [cbn [length]; lia | reflexivity].
Qed.

Lemma read_exact_fuel_spec : forall sched fuel want acc data,
  (length sched + 2 <= fuel)%nat ->
  rx_spec (read_exact_fuel fuel want acc (data, sched)) want acc data.
Proof.
  induction sched as [|k s IH]; intros fuel want acc data Hf.
  - apply read_exact_nil. cbn [length] in Hf. lia.
  - cbn [length] in Hf. destruct want as [|w].
    + split; [|cbn [length]; lia]. intros _. exists (k :: s).
      rewrite read_exact_fuel_0. cbn [firstn skipn]. now rewrite app_nil_r.
    + destruct fuel as [|f]; [lia|]. cbn [read_exact_fuel read1].
      destruct (N.eqb_spec k 0) as [Hk|Hk].
      * apply IH. lia.
      * cbv zeta. set (m := Nat.min (N.to_nat k) (S w)).
        destruct (Nat.eqb_spec (length (firstn m data)) 0) as [E|E].
        -- rewrite firstn_length in E. split; [lia | reflexivity].
        -- apply (rx_step m); [lia|]. apply IH. lia.
Qed.

(* schedule independence of read_exact: for EVERY finite schedule the loop terminates, returns
   exactly the next n bytes and leaves exactly the rest, or fails iff fewer than n are available *)
Theorem read_exact_sched : forall sched data n,
  ((n <= length data)%nat ->
   exists sched', read_exact n (data, sched) = IoOk (firstn n data, (skipn n data, sched'))) /\
  ((length data < n)%nat -> read_exact n (data, sched) = IoErr).
Proof.
  intros sched data n. unfold read_exact. cbn [snd].
  exact (read_exact_fuel_spec sched _ n [] data (Nat.le_refl _)).
Qed.

(* ------------------------------------------------------------------------------------------ *)
(* the codec over a scheduled reader                                                              *)
(* ------------------------------------------------------------------------------------------ *)
Definition read_le_s (k : nat) (r : reader) : io (N * reader) :=
  match read_exact k r with
  | IoOk (bytes, r') => IoOk (le_val bytes, r')
  | IoErr => IoErr
  | IoFuel => IoFuel
  end.

(* `deser` with read_le replaced by read_exact on the scheduled reader *)
Fixpoint deser_sched (t : ty) (r : reader) {struct t} : io (val * reader) :=
  match t with
  | TU8 => match read_le_s 1 r with IoOk (n, r') => IoOk (VNum n, r') | IoErr => IoErr | IoFuel => IoFuel end
  | TU16 => match read_le_s 2 r with IoOk (n, r') => IoOk (VNum n, r') | IoErr => IoErr | IoFuel => IoFuel end
  | TU64 => match read_le_s 8 r with IoOk (n, r') => IoOk (VNum n, r') | IoErr => IoErr | IoFuel => IoFuel end
  | TI64 => match read_le_s 8 r with IoOk (n, r') => IoOk (VInt (n_to_i64 n), r') | IoErr => IoErr | IoFuel => IoFuel end
  | TBool => match read_le_s 1 r with IoOk (n, r') => IoOk (VBool (negb (n =? 0)), r') | IoErr => IoErr | IoFuel => IoFuel end
  | TVec t' =>
      match read_le_s 8 r with
      | IoErr => IoErr
      | IoFuel => IoFuel
      | IoOk (n, r') =>
          (fix loop (fuel : nat) (cnt : N) (r : reader) (acc : list val) : io (val * reader) :=
             if cnt =? 0 then IoOk (VVec (rev_append acc []), r) else
             match fuel with
             | O => IoErr
             | S f => match deser_sched t' r with
                      | IoOk (v, r1) => loop f (cnt - 1) r1 (v :: acc)
                      | IoErr => IoErr
                      | IoFuel => IoFuel
                      end
             end) (S (length (fst r'))) n r' []
      end
  | TOpt t' =>
      match read_le_s 1 r with
      | IoErr => IoErr
      | IoFuel => IoFuel
      | IoOk (n, r') =>
          if n =? 0 then IoOk (VOpt None, r')
          else match deser_sched t' r' with
               | IoOk (v, r1) => IoOk (VOpt (Some v), r1)
               | IoErr => IoErr
               | IoFuel => IoFuel
               end
      end
  | TStruct fs =>
      (fix go (fs : list ty) (r : reader) (acc : list val) : io (val * reader) :=
         match fs with
         | [] => IoOk (VStruct (rev_append acc []), r)
         | f :: fs' => match deser_sched f r with
                       | IoOk (v, r1) => go fs' r1 (v :: acc)
                       | IoErr => IoErr
                       | IoFuel => IoFuel
                       end
         end) fs r []
  end.

Definition loop_s (t' : ty) :=
  fix loop (fuel : nat) (cnt : N) (r : reader) (acc : list val) : io (val * reader) :=
    if cnt =? 0 then IoOk (VVec (rev_append acc []), r) else
    match fuel with
    | O => IoErr
    | S f => match deser_sched t' r with
             | IoOk (v, r1) => loop f (cnt - 1) r1 (v :: acc)
             | IoErr => IoErr
             | IoFuel => IoFuel
             end
    end.
Fixpoint fields_s (fs : list ty) (r : reader) (acc : list val) : io (val * reader) :=
  match fs with
  | [] => IoOk (VStruct (rev_append acc []), r)
  | f :: fs' => match deser_sched f r with
                | IoOk (v, r1) => fields_s fs' r1 (v :: acc)
                | IoErr => IoErr
                | IoFuel => IoFuel
                end
  end.
Lemma deser_sched_vec t' r :
  deser_sched (TVec t') r =
  match read_le_s 8 r with
  | IoErr => IoErr
  | IoFuel => IoFuel
  | IoOk (n, r') => loop_s t' (S (length (fst r'))) n r' []
  end.
Proof. reflexivity. Qed.
Lemma deser_sched_struct fs r : deser_sched (TStruct fs) r = fields_s fs r [].
Proof. reflexivity. Qed.

(* equal up to the remaining schedule; in particular never IoFuel *)
Definition agrees {A} (m : io (A * reader)) (o : option (A * list N)) : Prop :=
  match m, o with
  | IoOk (a, (d, _)), Some (a', d') => a = a' /\ d = d'
  | IoErr, None => True
  | _, _ => False
  end.

Lemma read_le_s_agrees k data sched : agrees (read_le_s k (data, sched)) (read_le k data).
Proof.
  unfold read_le_s, read_le. cbv zeta. rewrite firstn_length.
  destruct (read_exact_sched sched data k) as [H1 H2].
  destruct (Nat.eqb_spec (Nat.min k (length data)) k) as [E|E].
  - destruct H1 as [s' ->]; [lia|]. cbn [agrees]. now split.
  - rewrite H2 by lia. exact I.
Qed.

Ltac prim_case k data sched :=
  pose proof (read_le_s_agrees k data sched) as H;
  destruct (read_le_s k (data, sched)) as [[n [d s]]| |];
  destruct (read_le k data) as [[n' d']|]; cbn [agrees] in H; try contradiction;
  [destruct H as [-> ->]; cbn [agrees]; now split | exact I].

Theorem deser_sched_agrees : forall t data sched,
  agrees (deser_sched t (data, sched)) (deser t data).
Proof.
  induction t as [ | | | | | t' IH | t' IH | fs IH] using ty_ind'; intros data sched.
  - cbn [deser_sched deser]. prim_case 1%nat data sched.
  - cbn [deser_sched deser]. prim_case 2%nat data sched.
  - cbn [deser_sched deser]. prim_case 8%nat data sched.
  - cbn [deser_sched deser]. prim_case 8%nat data sched.
  - cbn [deser_sched deser]. prim_case 1%nat data sched.
  - rewrite deser_sched_vec, deser_vec.
    pose proof (read_le_s_agrees 8 data sched) as H.
    destruct (read_le_s 8 (data, sched)) as [[n [d s]]| |];
      destruct (read_le 8 data) as [[n' d']|]; cbn [agrees] in H; try contradiction;
      [|exact I].
    destruct H as [-> ->]. cbn [fst].
    generalize (S (length d')) as fuel. generalize (@nil val) as acc.
    intros acc fuel. revert n' d' s acc.
    induction fuel as [|fuel IHf]; intros cnt d s acc; rewrite deser_loop_eq;
      cbn [loop_s]; destruct (cnt =? 0); try (cbn [agrees]; now split); try exact I.
    specialize (IH d s).
    destruct (deser_sched t' (d, s)) as [[v [d1 s1]]| |];
      destruct (deser t' d) as [[v' d1']|]; cbn [agrees] in IH; try contradiction;
      [|exact I].
    destruct IH as [-> ->]. apply IHf.
  - cbn [deser_sched]. rewrite deser_opt.
    pose proof (read_le_s_agrees 1 data sched) as H.
    destruct (read_le_s 1 (data, sched)) as [[n [d s]]| |];
      destruct (read_le 1 data) as [[n' d']|]; cbn [agrees] in H; try contradiction;
      [|exact I].
    destruct H as [-> ->]. destruct (n' =? 0); [cbn [agrees]; now split|].
    specialize (IH d' s).
    destruct (deser_sched t' (d', s)) as [[v [d1 s1]]| |];
      destruct (deser t' d') as [[v' d1']|]; cbn [agrees] in IH; try contradiction;
      [|exact I].
    destruct IH as [-> ->]. cbn [agrees]. now split.
  - rewrite deser_sched_struct, deser_struct. generalize (@nil val) as acc.
    revert data sched. induction IH as [|f fs Hf _ IHfs]; intros data sched acc;
      cbn [fields_s deser_fields]; [cbn [agrees]; now split|].
    specialize (Hf data sched).
    destruct (deser_sched f (data, sched)) as [[v [d1 s1]]| |];
      destruct (deser f data) as [[v' d1']|]; cbn [agrees] in Hf; try contradiction;
      [|exact I].
    destruct Hf as [-> ->]. apply IHfs.
Qed.

(* readable corollaries *)
Corollary deser_sched_ok t data sched v rest :
  deser t data = Some (v, rest) ->
  exists sched', deser_sched t (data, sched) = IoOk (v, (rest, sched')).
Proof.
  intro E. pose proof (deser_sched_agrees t data sched) as H. rewrite E in H.
  destruct (deser_sched t (data, sched)) as [[v' [d s]]| |]; cbn [agrees] in H; try contradiction.
  destruct H as [-> ->]. now exists s.
Qed.
Corollary deser_sched_err t data sched :
  deser t data = None -> deser_sched t (data, sched) = IoErr.
Proof.
  intro E. pose proof (deser_sched_agrees t data sched) as H. rewrite E in H.
  destruct (deser_sched t (data, sched)) as [[v' [d s]]| |]; cbn [agrees] in H;
    try contradiction; reflexivity.
Qed.

(* round trip and truncation under every schedule *)
Corollary ser_deser_sched t v rest sched :
  vec_ok t = true -> wf_val t v = true ->
  exists sched', deser_sched t (ser t v ++ rest, sched) = IoOk (v, (rest, sched')).
Proof. intros Hv Hw. apply deser_sched_ok. now apply ser_deser. Qed.
Corollary deser_prefix_sched t v n sched :
  vec_ok t = true -> wf_val t v = true -> (n < length (ser t v))%nat ->
  deser_sched t (firstn n (ser t v), sched) = IoErr.
Proof. intros Hv Hw Hn. apply deser_sched_err. now apply deser_prefix. Qed.

(* ------------------------------------------------------------------------------------------ *)
(* writers                                                                                        *)
(* ------------------------------------------------------------------------------------------ *)
(* while !buf.is_empty() { match write(buf) { Ok(n) => buf = &buf[n..], Err(Interrupted) => retry } }
   over a schedule of accepted chunk sizes (0 = Interrupted); state = (output so far, schedule) *)
Fixpoint write_all_fuel (fuel : nat) (out sched buf : list N) : io (list N * list N) :=
  match buf with
  | [] => IoOk (out, sched)
  | _ :: _ =>
      match fuel with
      | O => IoFuel
      | S f =>
          match sched with
          | [] => write_all_fuel f (out ++ buf) [] []
          | k :: s =>
              if k =? 0 then write_all_fuel f out s buf
              else let n := Nat.min (N.to_nat k) (length buf) in
                   write_all_fuel f (out ++ firstn n buf) s (skipn n buf)
          end
      end
  end.
Lemma write_all_fuel_nil fuel out sched : write_all_fuel fuel out sched [] = IoOk (out, sched).
Proof. destruct fuel; reflexivity. Qed.
Definition write_all (out sched buf : list N) : io (list N * list N) :=
  write_all_fuel (length sched + 1) out sched buf.

Lemma write_all_fuel_spec : forall sched fuel out buf,
  (length sched + 1 <= fuel)%nat ->
  exists sched', write_all_fuel fuel out sched buf = IoOk (out ++ buf, sched').
Proof.
  induction sched as [|k s IH]; intros fuel out buf Hf; cbn [length] in Hf.
  - destruct buf as [|b buf]; [exists []; rewrite write_all_fuel_nil; now rewrite app_nil_r|].
    destruct fuel as [|f]; [lia|]. exists []. cbn [write_all_fuel].
    now rewrite write_all_fuel_nil.
  - destruct buf as [|b buf]; [exists (k :: s); rewrite write_all_fuel_nil; now rewrite app_nil_r|].
    destruct fuel as [|f]; [lia|]. cbn [write_all_fuel].
    destruct (k =? 0).
    + apply IH. lia.
    + cbv zeta. set (n := Nat.min (N.to_nat k) (length (b :: buf))).
      destruct (IH f (out ++ firstn n (b :: buf)) (skipn n (b :: buf))) as [s' E]; [lia|].
      exists s'. rewrite E, <- app_assoc, firstn_skipn. reflexivity.
Qed.

Theorem write_all_sched : forall sched out buf,
  exists sched', write_all out sched buf = IoOk (out ++ buf, sched').
Proof. intros. apply write_all_fuel_spec. lia. Qed.

(* a writer that accepts at most `budget` bytes in total and then fails (a non-Interrupted
   error); state = (bytes written so far, remaining budget) *)
Fixpoint write_all_budget_fuel (fuel : nat) (budget : N) (written buf : list N)
  : io (list N * N) :=
  match buf with
  | [] => IoOk (written, budget)
  | _ :: _ =>
      match fuel with
      | O => IoFuel
      | S f =>
          if budget =? 0 then IoErr
          else let n := Nat.min (N.to_nat budget) (length buf) in
               write_all_budget_fuel f (budget - N.of_nat n) (written ++ firstn n buf) (skipn n buf)
      end
  end.
Lemma write_all_budget_fuel_nil fuel budget written :
  write_all_budget_fuel fuel budget written [] = IoOk (written, budget).
Proof. destruct fuel; reflexivity. Qed.
Definition write_all_budget (budget : N) (written buf : list N) : io (list N * N) :=
  write_all_budget_fuel (S (S (length buf))) budget written buf.

Lemma write_all_budget_fuel_spec fuel budget written buf :
  (2 <= fuel)%nat ->
  write_all_budget_fuel fuel budget written buf =
  if lenN buf <=? budget then IoOk (written ++ buf, budget - lenN buf) else IoErr.
Proof.
  intro Hf. destruct buf as [|b buf].
  - rewrite write_all_budget_fuel_nil. change (lenN (@nil N)) with 0.
    destruct (N.leb_spec 0 budget) as [_|H]; [|lia]. now rewrite app_nil_r, N.sub_0_r.
  - destruct fuel as [|f]; [lia|]. cbn [write_all_budget_fuel].
    destruct (N.eqb_spec budget 0) as [Hb|Hb].
    + subst budget. destruct (N.leb_spec (lenN (b :: buf)) 0) as [H|H]; [|reflexivity].
      rewrite lenN_cons in H. lia.
    + cbv zeta. set (n := Nat.min (N.to_nat budget) (length (b :: buf))).
      destruct (N.leb_spec (lenN (b :: buf)) budget) as [H|H]; unfold lenN in H.
      * assert (En : n = length (b :: buf)) by (subst n; lia). rewrite En.
        rewrite skipn_all, firstn_all, write_all_budget_fuel_nil. reflexivity.
      * assert (En : n = N.to_nat budget) by (subst n; lia). rewrite En.
        destruct (skipn (N.to_nat budget) (b :: buf)) as [|c rest] eqn:Es.
        -- pose proof (skipn_length (N.to_nat budget) (b :: buf)) as Hl. rewrite Es in Hl.
           cbn [length] in *. lia.
        -- destruct f as [|f']; [lia|]. cbn [write_all_budget_fuel].
           replace (budget - N.of_nat (N.to_nat budget)) with 0 by lia. reflexivity.
Qed.

Theorem write_all_budget_spec budget written buf :
  write_all_budget budget written buf =
  if lenN buf <=? budget then IoOk (written ++ buf, budget - lenN buf) else IoErr.
Proof. apply write_all_budget_fuel_spec. lia. Qed.

Corollary write_all_budget_err budget written buf :
  write_all_budget budget written buf = IoErr <-> budget < lenN buf.
Proof.
  rewrite write_all_budget_spec. destruct (N.leb_spec (lenN buf) budget) as [H|H];
    split; intro E; try discriminate E; try lia; reflexivity.
Qed.

(* ------------------------------------------------------------------------------------------ *)
(* `ser` reaches the stream only through write_all: one call per primitive                        *)
(* ------------------------------------------------------------------------------------------ *)
Fixpoint ser_chunks (t : ty) (v : val) {struct t} : list (list N) :=
  match t, v with
  | TU8, VNum n => [le_bytes 1 n]
  | TU16, VNum n => [le_bytes 2 n]
  | TU64, VNum n => [le_bytes 8 n]
  | TI64, VInt z => [le_bytes 8 (i64_to_n z)]
  | TBool, VBool b => [[b2n b]]
  | TVec t', VVec l => le_bytes 8 (lenN l) :: flat_map (ser_chunks t') l
  | TOpt t', VOpt None => [[0]]
  | TOpt t', VOpt (Some x) => [1] :: ser_chunks t' x
  | TStruct fs, VStruct l =>
      (fix go (fs : list ty) (l : list val) : list (list N) :=
         match fs, l with
         | f :: fs', x :: l' => ser_chunks f x ++ go fs' l'
         | _, _ => []
         end) fs l
  | _, _ => []
  end.
Fixpoint chunks_fields (fs : list ty) (l : list val) : list (list N) :=
  match fs, l with
  | f :: fs', x :: l' => ser_chunks f x ++ chunks_fields fs' l'
  | _, _ => []
  end.
Lemma ser_chunks_struct fs l : ser_chunks (TStruct fs) (VStruct l) = chunks_fields fs l.
Proof. reflexivity. Qed.

Lemma concat_flat_map {A B} (f : A -> list (list B)) (g : A -> list B) l :
  (forall x, concat (f x) = g x) -> concat (flat_map f l) = flat_map g l.
Proof.
  intro H. induction l as [|x l IH]; cbn [flat_map concat]; [reflexivity|].
  now rewrite concat_app, H, IH.
Qed.

Theorem ser_chunks_concat : forall t v, concat (ser_chunks t v) = ser t v.
Proof.
  induction t as [ | | | | | t' IH | t' IH | fs IH] using ty_ind'; intro v;
    destruct v as [n|z|b|l|o|l]; try reflexivity;
    try (cbn [ser_chunks ser concat]; now rewrite app_nil_r).
  - rewrite ser_vec. cbn [ser_chunks concat]. fold (ser_chunks t'). f_equal.
    now apply concat_flat_map.
  - destruct o as [x|]; cbn [ser_chunks ser concat]; [|reflexivity].
    rewrite IH. reflexivity.
  - rewrite ser_chunks_struct, ser_struct. revert l.
    induction IH as [|f fs Hf _ IHfs]; intro l; destruct l as [|x l];
      cbn [chunks_fields ser_fields concat]; try reflexivity.
    now rewrite concat_app, Hf, IHfs.
Qed.

(* a sequence of write_all calls, the first error aborts (`?`) *)
Fixpoint write_chunks_budget (budget : N) (written : list N) (cs : list (list N))
  : io (list N * N) :=
  match cs with
  | [] => IoOk (written, budget)
  | c :: cs' => match write_all_budget budget written c with
                | IoOk (w, b) => write_chunks_budget b w cs'
                | IoErr => IoErr
                | IoFuel => IoFuel
                end
  end.
Fixpoint write_chunks (out sched : list N) (cs : list (list N)) : io (list N * list N) :=
  match cs with
  | [] => IoOk (out, sched)
  | c :: cs' => match write_all out sched c with
                | IoOk (o, s) => write_chunks o s cs'
                | IoErr => IoErr
                | IoFuel => IoFuel
                end
  end.

Lemma write_chunks_budget_spec : forall cs budget written,
  write_chunks_budget budget written cs =
  if lenN (concat cs) <=? budget then IoOk (written ++ concat cs, budget - lenN (concat cs))
  else IoErr.
Proof.
  induction cs as [|c cs IH]; intros budget written; cbn [write_chunks_budget concat].
  - change (lenN (@nil N)) with 0. destruct (N.leb_spec 0 budget) as [_|H]; [|lia].
    now rewrite app_nil_r, N.sub_0_r.
  - rewrite write_all_budget_spec, lenN_app.
    destruct (N.leb_spec (lenN c) budget) as [Hc|Hc].
    + rewrite IH.
      destruct (N.leb_spec (lenN (concat cs)) (budget - lenN c)) as [H1|H1];
        destruct (N.leb_spec (lenN c + lenN (concat cs)) budget) as [H2|H2]; try lia;
        [|reflexivity].
      rewrite <- app_assoc. do 2 f_equal. lia.
    + destruct (N.leb_spec (lenN c + lenN (concat cs)) budget) as [H2|H2]; [lia | reflexivity].
Qed.

Lemma write_chunks_spec : forall cs out sched,
  exists sched', write_chunks out sched cs = IoOk (out ++ concat cs, sched').
Proof.
  induction cs as [|c cs IH]; intros out sched; cbn [write_chunks concat].
  - exists sched. now rewrite app_nil_r.
  - destruct (write_all_sched sched out c) as [s1 ->].
    destruct (IH (out ++ c) s1) as [s2 ->]. exists s2. now rewrite <- app_assoc.
Qed.

Definition ser_into_budget (t : ty) (v : val) (budget : N) : io (list N * N) :=
  write_chunks_budget budget [] (ser_chunks t v).
Definition ser_into_sched (t : ty) (v : val) (sched : list N) : io (list N * list N) :=
  write_chunks [] sched (ser_chunks t v).

(* serialize_into on a writer with a byte budget fails iff the budget is below size_in_bytes;
   otherwise exactly the bytes of `ser` are written and the budget decreases by the size *)
Theorem ser_into_budget_spec t v budget :
  wf_val t v = true ->
  ser_into_budget t v budget =
  if size t v <=? budget then IoOk (ser t v, budget - size t v) else IoErr.
Proof.
  intro Hw. unfold ser_into_budget.
  rewrite write_chunks_budget_spec, ser_chunks_concat, ser_length by exact Hw. reflexivity.
Qed.
Theorem ser_into_budget_err t v budget :
  wf_val t v = true -> (ser_into_budget t v budget = IoErr <-> budget < size t v).
Proof.
  intro Hw. rewrite ser_into_budget_spec by exact Hw.
  destruct (N.leb_spec (size t v) budget) as [H|H]; split; intro E;
    try discriminate E; try lia; reflexivity.
Qed.

(* serialize_into on a writer that accepts arbitrary short chunks and interrupts arbitrarily
   writes exactly the bytes of `ser`, for every schedule *)
Theorem ser_into_sched_spec t v sched :
  exists sched', ser_into_sched t v sched = IoOk (ser t v, sched').
Proof.
  unfold ser_into_sched. destruct (write_chunks_spec (ser_chunks t v) [] sched) as [s' E].
  exists s'. now rewrite E, ser_chunks_concat.
Qed.

(* sanity: a hostile schedule on a nested value *)
Example ex_sched :
  deser_sched ser_ex_ty (ser ser_ex_ty ser_ex_val ++ [7], [0; 1; 0; 0; 3; 1; 1; 0; 200; 2; 0; 1; 1; 1; 1; 1; 1])
  = IoOk (ser_ex_val, ([7], [])).
Proof. vm_compute. reflexivity. Qed.

Print Assumptions read_exact_sched.
Print Assumptions deser_sched_agrees.
Print Assumptions write_all_sched.
Print Assumptions write_all_budget_spec.
Print Assumptions ser_into_budget_err.
Print Assumptions ser_into_sched_spec.
