(* Proofs/R9Main.v — property C01, assembly: Rank9Sel built from any well-formed bit vector (with
   or without either hint table, in every build configuration) is one configuration-independent
   value that answers access / rank1 / rank0 / select1 / select0 / num_ones / num_zeros exactly
   like the plain bit sequence, for every argument of usize. *)
From Sucds Require Import Base.Res Spec.WordSpec Spec.BitSpec Model.BitVector Model.Rank9
  Proofs.ResLemmas Proofs.BVAbs Proofs.WordLemmas Proofs.BVReads Proofs.BVReads2
  Proofs.BVMut Proofs.BVHistory Proofs.IndexSpecs Proofs.R9Build Proofs.R9Rank Proofs.R9Hints Proofs.R9Select.
From Coq Require Import ZArith ZifyN ZifyBool ZifyNat Lia.
Ltac Zify.zify_post_hook ::= Z.div_mod_to_equations.
Open Scope N_scope.

(* the value built, as a function of the bit vector and the two flags only *)
Definition r9_index_spec (bv : bitvec) (h1 h0 : bool) : r9index :=
  {| r_len := bv_len bv; r_brp := brp_spec (bv_words bv);
     r_h1 := if h1 then Some (hints_spec false (bv_words bv)) else None;
     r_h0 := if h0 then Some (hints_spec true (bv_words bv)) else None |}.
Definition r9_spec (bv : bitvec) (h1 h0 : bool) : r9sel :=
  {| r9_bv := bv; r9_rs := r9_index_spec bv h1 h0 |}.

Lemma r9_build_ok c bv h1 h0 : wf bv -> cap_ok bv -> r9_build c bv h1 h0 = Ok (r9_spec bv h1 h0).
Proof.
  intros Hwf Hcap. unfold r9_build. rewrite r9_new_ok by assumption. cbn [bind].
  pose proof (wf_all bv Hwf) as Hall. pose proof (wf_cap_nwords bv Hwf Hcap) as Hlen.
  assert (E1 : (if h1 then r9_select1_hints c {| r9_bv := bv; r9_rs := r9_base bv |}
                else Ok {| r9_bv := bv; r9_rs := r9_base bv |})
               = Ok (r9_spec bv h1 false)).
  { destruct h1; [|reflexivity]. unfold r9_select1_hints, select1_hints. cbn [r9_rs r9_bv].
    rewrite (build_hints_ok (bv_words bv) (r9_base bv) Hall Hlen eq_refl). reflexivity. }
  rewrite E1. cbn [bind]. destruct h0; [|reflexivity].
  unfold r9_select0_hints, select0_hints. cbn [r9_rs r9_bv r9_spec].
  rewrite (build_hints_ok (bv_words bv) (r9_index_spec bv h1 false) Hall Hlen eq_refl). reflexivity.
Qed.

Lemma r9_spec_ok bv h1 h0 : r9_ok bv (r9_index_spec bv h1 h0).
Proof. split; reflexivity. Qed.

Theorem r9_spec_correct c bv h1 h0 : wf bv -> cap_ok bv -> r9_correct c (r9_spec bv h1 h0).
Proof.
  intros Hwf Hcap.
  destruct (r9_rank_part_ok c (r9_spec bv h1 h0) Hwf Hcap (r9_spec_ok bv h1 h0)) as [P1 [P2 [P3 P4]]].
  unfold r9_correct. cbv zeta. split; [exact P1|]. split; [exact P2|]. split; [exact P3|].
  split; [exact P4|]. intros k Hk. split.
  - unfold r9_select1, select1. cbn [r9_spec r9_bv r9_rs].
    apply (select_gen_ok bv _ Hwf Hcap (r9_spec_ok bv h1 h0) c false k Hk).
    cbn [r9_index_spec r_h1]. destruct h1; [right | left]; reflexivity.
  - unfold r9_select0, select0. cbn [r9_spec r9_bv r9_rs].
    apply (select_gen_ok bv _ Hwf Hcap (r9_spec_ok bv h1 h0) c true k Hk).
    cbn [r9_index_spec r_h0]. destruct h0; [right | left]; reflexivity.
Qed.

(* the partial statement: build + access / rank / counts *)
Theorem r9_rank_correct : forall bv h1 h0, wf bv -> cap_ok bv ->
  exists x, (forall c, r9_build c bv h1 h0 = Ok x) /\ r9_bv x = bv /\ (forall c, r9_rank_part c x).
Proof.
  intros bv h1 h0 Hwf Hcap. exists (r9_spec bv h1 h0). split; [|split].
  - intro c. apply r9_build_ok; assumption.
  - reflexivity.
  - intro c. apply r9_rank_part_ok; [exact Hwf | exact Hcap | apply r9_spec_ok].
Qed.

Theorem r9_build_correct : forall bv h1 h0, wf bv -> cap_ok bv ->
  exists x, (forall c, r9_build c bv h1 h0 = Ok x) /\ r9_bv x = bv /\ (forall c, r9_correct c x).
Proof.
  intros bv h1 h0 Hwf Hcap. exists (r9_spec bv h1 h0). split; [|split].
  - intro c. apply r9_build_ok; assumption.
  - reflexivity.
  - intro c. apply r9_spec_correct; assumption.
Qed.

(* hints never change an answer: all four configurations give the same results on every query *)
Corollary r9_hints_irrelevant c bv h1 h0 h1' h0' k : wf bv -> cap_ok bv -> k < W ->
  r9_select1 c (r9_spec bv h1 h0) k = r9_select1 c (r9_spec bv h1' h0') k /\
  r9_select0 c (r9_spec bv h1 h0) k = r9_select0 c (r9_spec bv h1' h0') k.
Proof.
  intros Hwf Hcap Hk.
  destruct (r9_spec_correct c bv h1 h0 Hwf Hcap) as [_ [_ [_ [_ S1]]]].
  destruct (r9_spec_correct c bv h1' h0' Hwf Hcap) as [_ [_ [_ [_ S2]]]].
  destruct (S1 k Hk) as [A1 A0]. destruct (S2 k Hk) as [B1 B0].
  cbn [r9_spec r9_bv] in *. rewrite A1, A0, B1, B0. split; reflexivity.
Qed.

(* from a plain list of bits: BitVector::from_bits then the builder; one value for all configurations *)
Theorem r9_from_bits_correct : forall l h1 h0, lenN l < 2 ^ 56 ->
  exists x, (forall c, (bv <- from_bits c l ;; r9_build c bv h1 h0) = Ok x) /\
            bits_of (r9_bv x) = l /\ r9_num_bits x = lenN l /\ (forall c, r9_correct c x).
Proof.
  intros l h1 h0 Hl.
  destruct (from_bits_spec {| dbg := true; intr := true |} l Hl) as [bv [E0 [Hwf Hb]]].
  assert (Hcap : cap_ok bv).
  { unfold cap_ok. rewrite <- (bits_of_length bv Hwf), Hb. exact Hl. }
  exists (r9_spec bv h1 h0). split; [|split; [|split]].
  - intro c. destruct (from_bits_spec c l Hl) as [bv' [E' [Hwf' Hb']]].
    assert (bv' = bv) by (apply canonical; [exact Hwf' | exact Hwf | rewrite Hb', Hb; reflexivity]).
    subst bv'. rewrite E'. cbn [bind]. apply r9_build_ok; assumption.
  - exact Hb.
  - unfold r9_num_bits. cbn [r9_spec r9_bv]. rewrite <- (bits_of_length bv Hwf), Hb. reflexivity.
  - intro c. apply r9_spec_correct; assumption.
Qed.

(* ---------- a decidable sufficient test for wf, and example data for Props/C01.v ---------- *)

Definition wf_b (bv : bitvec) : bool :=
  (lenN (bv_words bv) =? (bv_len bv + 63) / 64) &&
  forallb (fun w => w <? W) (bv_words bv) &&
  ((bv_len bv mod 64 =? 0) ||
   (nthN (bv_words bv) (lenN (bv_words bv) - 1) 0 <? 2 ^ (bv_len bv mod 64))).

Lemma wf_b_sound bv : wf_b bv = true -> wf bv.
Proof.
  unfold wf_b. intro H. apply andb_true_iff in H. destruct H as [H H3].
  apply andb_true_iff in H. destruct H as [H1 H2]. apply N.eqb_eq in H1.
  split; [exact H1|]. split.
  - apply Forall_forall. intros w Hw. rewrite forallb_forall in H2. apply N.ltb_lt, H2, Hw.
  - intros i Hi. destruct (N.lt_ge_cases i (64 * lenN (bv_words bv))) as [Hlt|Hge].
    + apply orb_true_iff in H3. destruct H3 as [H3|H3].
      * apply N.eqb_eq in H3. lia.
      * apply N.ltb_lt in H3. unfold wbit.
        replace (i / 64) with (lenN (bv_words bv) - 1) by lia.
        apply (testbit_high _ _ _ H3). lia.
    + apply wbit_oob, Hge.
Qed.

(* a pseudo-random 2700-bit string: 6 blocks (partial last block), more than 1024 ones and
   more than 1024 zeros, so both hint tables have two entries *)
Fixpoint r9_ex_gen (n : nat) (s : N) : list bool :=
  match n with
  | O => []
  | S m => xorb (N.testbit s 9) (N.testbit s 17)
           :: r9_ex_gen m ((s * 1103515245 + 12345) mod 2147483648)
  end.
Definition r9_ex_bits : list bool := r9_ex_gen 2700 42.
Definition r9_ex_cfg : cfg := {| dbg := true; intr := false |}.

Print Assumptions r9_from_bits_correct.
Print Assumptions wf_b_sound.
Print Assumptions r9_build_correct.
Print Assumptions r9_rank_correct.
Print Assumptions r9_hints_irrelevant.
