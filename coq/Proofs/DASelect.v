(* Proofs/DASelect.v — property C02, query half: `da_select` on an index satisfying the lookup
   invariant `index_ok` of DABuild.v returns `BitSpec.select` for every argument of usize. *)
From Sucds Require Import Base.Res Spec.WordSpec Spec.BitSpec Model.BitVector Model.Rank9 Model.DArray
  Proofs.ResLemmas Proofs.BVAbs Proofs.WordLemmas Proofs.BVReads Proofs.BVReads2 Proofs.DABuild.
From Coq Require Import ZArith ZifyN ZifyBool ZifyNat Lia.
Ltac Zify.zify_post_hook ::= Z.div_mod_to_equations.
Open Scope N_scope.

(* ---------- the popcount scan ---------- *)

Lemma lenN_word_bits w : lenN (word_bits w) = 64.
Proof. unfold lenN. rewrite word_bits_length. reflexivity. Qed.

Lemma da_scan_spec c inv : forall after rem wi word t,
  word < W -> Forall (fun w => w < W) after -> wi + lenN after + 1 < W -> rem < W ->
  selF true (word_bits word ++ flat_bits (map (adj inv) after)) (64 * wi) rem = Some t ->
  exists rem' wi' word' p, da_scan c inv after rem wi word = Ok (rem', wi', word') /\
    select_in_word_spec word' rem' = Some p /\ 64 * wi' + p = t.
Proof.
  induction after as [|x after IH]; intros rem wi word t Hw Hall Hb Hrem Hsel;
    rewrite selF_app, count_word_bits, lenN_word_bits in Hsel by exact Hw; cbn [da_scan]; cbv zeta;
    destruct (N.ltb_spec rem (popcN word)) as [Hlt|Hge].
  - rewrite selF_shift, <- select_selF, <- select_in_word_select in Hsel by exact Hw.
    destruct (select_in_word_spec word rem) as [p|] eqn:E; [|discriminate].
    cbn [option_map] in Hsel. injection Hsel as Hsel. exists rem, wi, word, p. auto.
  - change (map (adj inv) []) with (@nil N) in Hsel. change (flat_bits []) with (@nil bool) in Hsel.
    unfold selF in Hsel. cbn [positions_from] in Hsel. rewrite nth_error_nil_N in Hsel. discriminate.
  - rewrite selF_shift, <- select_selF, <- select_in_word_select in Hsel by exact Hw.
    destruct (select_in_word_spec word rem) as [p|] eqn:E; [|discriminate].
    cbn [option_map] in Hsel. injection Hsel as Hsel. exists rem, wi, word, p. auto.
  - rewrite sub_ok by exact Hge. cbn [bind]. rewrite lenN_cons in Hb.
    rewrite add_ok by lia. cbn [bind].
    inversion Hall as [|x' a' Hx Ha]; subst.
    cbn [map] in Hsel. rewrite flat_bits_cons in Hsel. fold (adj inv x).
    replace (64 * wi + 64) with (64 * (wi + 1)) in Hsel by lia.
    apply (IH (rem - popcN word) (wi + 1) (adj inv x) t); try assumption; try lia.
    apply adj_lt, Hx.
Qed.

(* ---------- list facts ---------- *)

Lemma filter_ge_nil s L : (forall p, In p L -> p < s) -> filter (fun p => s <=? p) L = [].
Proof.
  induction L as [|x L IH]; intro H; [reflexivity|].
  cbn [filter]. destruct (N.leb_spec s x) as [Hle|Hgt].
  - specialize (H x (or_introl eq_refl)). lia.
  - apply IH. intros p Hp. apply H. right. exact Hp.
Qed.

Lemma filter_ge_all s L : (forall p, In p L -> s <= p) -> filter (fun p => s <=? p) L = L.
Proof.
  induction L as [|x L IH]; intro H; [reflexivity|].
  cbn [filter]. destruct (N.leb_spec s x) as [Hle|Hgt].
  - f_equal. apply IH. intros p Hp. apply H. right. exact Hp.
  - specialize (H x (or_introl eq_refl)). lia.
Qed.

Lemma nthN_cons_succ (x : N) L i : nthN (x :: L) (i + 1) 0 = nthN L i 0.
Proof. unfold nthN. replace (N.to_nat (i + 1)) with (S (N.to_nat i)) by lia. reflexivity. Qed.

Lemma incr_cons_inv x L : incr (x :: L) -> incr L /\ forall p, In p L -> x < p.
Proof.
  intro H. split.
  - intros i j Hij Hj. specialize (H (i + 1) (j + 1)). rewrite !nthN_cons_succ, lenN_cons in H.
    apply H; lia.
  - intros p Hp. apply In_nthN in Hp. destruct Hp as [j [Hj <-]].
    specialize (H 0 (j + 1)). rewrite nthN_cons_succ, lenN_cons in H. apply H; lia.
Qed.

Lemma filter_ge_skipn : forall L k0, incr L -> (k0 < length L)%nat ->
  filter (fun p => nth k0 L 0 <=? p) L = skipn k0 L.
Proof.
  induction L as [|x L IH]; intros k0 Hinc Hk; [cbn [length] in Hk; lia|].
  destruct (incr_cons_inv x L Hinc) as [HincL Hx]. destruct k0 as [|k0].
  - cbn [nth skipn filter]. rewrite N.leb_refl. f_equal. apply filter_ge_all.
    intros p Hp. apply N.lt_le_incl, Hx, Hp.
  - cbn [nth skipn filter]. cbn [length] in Hk.
    assert (Hin : In (nth k0 L 0) L) by (apply nth_In; lia).
    apply Hx in Hin. destruct (N.leb_spec (nth k0 L 0) x) as [Hle|_]; [lia|].
    apply IH; [exact HincL | lia].
Qed.

Lemma nth_error_skipn {A} (l : list A) : forall a b, nth_error (skipn a l) b = nth_error l (a + b).
Proof.
  induction l as [|x l IH]; intros a b.
  - rewrite skipn_nil. destruct b, (a + _)%nat; reflexivity.
  - destruct a as [|a]; [reflexivity|]. cbn [skipn]. apply IH.
Qed.

Lemma select_nthN v l k : k < lenN (positions v l) ->
  select v l k = Some (nthN (positions v l) k 0).
Proof.
  intro H. rewrite select_nth_error. unfold nthN. apply nth_error_nth'. unfold lenN in H. lia.
Qed.

(* ---------- the masked first word ---------- *)

Lemma word_bits_mask X sh : sh < 64 ->
  word_bits (N.land X ((MASK64 * 2 ^ sh) mod W))
  = repeat false (N.to_nat sh) ++ skipn (N.to_nat sh) (word_bits X).
Proof.
  intro Hsh. apply nth_ext with (d := false) (d' := false).
  - rewrite app_length, repeat_length, skipn_length, !word_bits_length. lia.
  - intros i Hi. rewrite word_bits_length in Hi. rewrite word_bits_nth by exact Hi.
    rewrite N.land_spec, testbit_shl64, testbit_MASK64.
    destruct (Nat.ltb_spec i (N.to_nat sh)) as [Hlt|Hge].
    + rewrite app_nth1 by (rewrite repeat_length; exact Hlt). rewrite nth_repeat.
      destruct (N.leb_spec sh (N.of_nat i)) as [H|H]; [lia|].
      rewrite Bool.andb_false_r. apply Bool.andb_false_r.
    + rewrite app_nth2 by (rewrite repeat_length; exact Hge). rewrite repeat_length, nth_skipn_add.
      replace (N.to_nat sh + (i - N.to_nat sh))%nat with i by lia.
      rewrite word_bits_nth by exact Hi.
      destruct (N.leb_spec sh (N.of_nat i)) as [H|H]; [|lia].
      destruct (N.ltb_spec (N.of_nat i) 64) as [H1|H1]; [|lia].
      destruct (N.ltb_spec (N.of_nat i - sh) 64) as [H2|H2]; [|lia].
      cbn [andb]. apply Bool.andb_true_r.
Qed.

Lemma flat_bits_app l1 l2 : flat_bits (l1 ++ l2) = flat_bits l1 ++ flat_bits l2.
Proof. unfold flat_bits. apply flat_map_app. Qed.

Lemma lenN_flat_bits ws : lenN (flat_bits ws) = 64 * lenN ws.
Proof. unfold lenN. rewrite flat_bits_length. lia. Qed.

Lemma list_split3 (A : list N) n : (n < length A)%nat ->
  A = firstn n A ++ nth n A 0 :: skipn (S n) A.
Proof.
  revert n. induction A as [|x A IH]; intros n H; [cbn [length] in H; lia|].
  destruct n as [|n]; [reflexivity|]. cbn [firstn nth skipn app]. f_equal.
  apply IH. cbn [length] in H. lia.
Qed.

(* the set bits at or after position 64 wi + sh are those of the masked word wi followed by
   the later words *)
Lemma scan_positions A wi sh : wi < lenN A -> sh < 64 ->
  filter (fun p => 64 * wi + sh <=? p) (positions_from true (flat_bits A) 0)
  = positions_from true
      (word_bits (N.land (nthN A wi 0) ((MASK64 * 2 ^ sh) mod W)) ++ flat_bits (skipn (S (N.to_nat wi)) A))
      (64 * wi).
Proof.
  intros Hwi Hsh. unfold lenN in Hwi.
  rewrite (list_split3 A (N.to_nat wi)) at 1 by lia. fold (nthN A wi 0).
  set (X := nthN A wi 0). set (R := skipn (S (N.to_nat wi)) A).
  rewrite flat_bits_app, flat_bits_cons.
  rewrite <- (firstn_skipn (N.to_nat sh) (word_bits X)) at 1.
  rewrite !positions_from_app, !filter_app.
  assert (L1 : lenN (flat_bits (firstn (N.to_nat wi) A)) = 64 * wi).
  { rewrite lenN_flat_bits, lenN_firstn. unfold lenN. lia. }
  assert (L2 : lenN (firstn (N.to_nat sh) (word_bits X)) = sh).
  { rewrite lenN_firstn, lenN_word_bits. lia. }
  assert (L3 : lenN (skipn (N.to_nat sh) (word_bits X)) = 64 - sh).
  { rewrite lenN_skipn, lenN_word_bits. lia. }
  rewrite ?lenN_app, L1, L2, L3, N.add_0_l.
  rewrite (filter_ge_nil _ (positions_from true (flat_bits (firstn (N.to_nat wi) A)) 0)),
          (filter_ge_nil _ (positions_from true (firstn (N.to_nat sh) (word_bits X)) _)),
          (filter_ge_all _ (positions_from true (skipn (N.to_nat sh) (word_bits X)) _)),
          (filter_ge_all _ (positions_from true (flat_bits R) _)).
  - cbn [app]. rewrite word_bits_mask by exact Hsh.
    rewrite !positions_from_app. rewrite (positions_from_none true (repeat false (N.to_nat sh))).
    + cbn [app]. rewrite lenN_app, lenN_repeat, N2Nat.id, L3. reflexivity.
    + intros x Hx. apply repeat_spec in Hx. subst x. discriminate.
  - intros p Hp. apply positions_from_range in Hp. lia.
  - intros p Hp. apply positions_from_range in Hp. lia.
  - intros p Hp. apply positions_from_range in Hp. rewrite L2 in Hp. lia.
  - intros p Hp. apply positions_from_range in Hp. rewrite L1 in Hp. lia.
Qed.

(* ---------- the adjusted word list ---------- *)

Lemma positions_adj inv : forall ws o,
  positions_from true (flat_bits (map (adj inv) ws)) o = positions_from (negb inv) (flat_bits ws) o.
Proof.
  induction ws as [|w ws IH]; intro o; [reflexivity|].
  cbn [map]. rewrite !flat_bits_cons, !positions_from_app, IH, !lenN_word_bits. f_equal.
  destruct inv; cbn [negb adj]; [|reflexivity].
  rewrite positions_from_false_map_negb, <- word_bits_not64. reflexivity.
Qed.

Lemma nthN_map_adj inv ws i : i < lenN ws -> nthN (map (adj inv) ws) i 0 = adj inv (nthN ws i 0).
Proof.
  intro H. unfold nthN, lenN in *.
  rewrite (nth_indep _ 0 (adj inv 0)) by (rewrite map_length; lia). apply map_nth.
Qed.

Lemma land_lt_W a b : a < W -> N.land a b < W.
Proof.
  intro H. rewrite <- (N.mod_small a W H). rewrite W_eq, <- N.land_ones.
  rewrite <- N.land_assoc, (N.land_comm (N.ones 64) b), N.land_assoc, N.land_ones.
  apply N.mod_lt. discriminate.
Qed.

Lemma Forall_skipn' {A} (P : A -> Prop) n l : Forall P l -> Forall P (skipn n l).
Proof. rewrite !Forall_forall. intros H x Hx. apply H. apply (In_skipn x n l Hx). Qed.

Lemma positions_lt_len v bv p : wf bv -> In p (positions v (bits_of bv)) -> p < bv_len bv.
Proof.
  intros Hwf H. apply positions_from_range in H. rewrite (bits_of_length bv Hwf) in H. lia.
Qed.

Lemma nthN_In (l : list N) i : i < lenN l -> In (nthN l i 0) l.
Proof. intro H. unfold nthN, lenN in *. apply nth_In. lia. Qed.

(* the scan from the subblock start position to the k-th position *)
Lemma dense_scan c bv v k :
  wf bv -> cap_ok bv -> k < lenN (positions v (bits_of bv)) -> k mod 32 <> 0 ->
  forall sp, sp = nthN (positions v (bits_of bv)) (32 * (k / 32)) 0 ->
  (w <- idx 0 (bv_words bv) (sp / 64) ;;
   m <- shl c MASK64 (sp mod 64) ;;
   r <- da_scan c (negb v) (skipn (S (N.to_nat (sp / 64))) (bv_words bv)) (k mod 32) (sp / 64)
          (N.land (if negb v then not64 w else w) m) ;;
   let '(rem, wi, word) := r in
   p <- unwrap (select_in_word_spec word rem) ;;
   a <- mul c 64 wi ;;
   sel <- add c a p ;;
   Ok (Some sel)) = Ok (Some (nthN (positions v (bits_of bv)) k 0)).
Proof.
  intros Hwf Hcap Hk Hr sp Esp.
  pose proof (cap_W bv Hcap) as Hc. pose proof (wf_nwords bv Hwf) as Hn.
  assert (Hall : Forall (fun w => w < W) (bv_words bv)) by (destruct Hwf as [_ [H _]]; exact H).
  set (P := positions v (bits_of bv)) in *.
  set (ws := bv_words bv) in *. set (inv := negb v).
  set (A := map (adj inv) ws). set (Q := positions_from true (flat_bits A) 0).
  assert (HQ : Q = P ++ positions_from v (skipn (N.to_nat (bv_len bv)) (flat_bits ws))
                         (0 + lenN (bits_of bv))).
  { subst Q A inv. rewrite positions_adj, Bool.negb_involutive. subst ws.
    rewrite (flat_bits_split bv) at 1. apply positions_from_app. }
  set (T := positions_from v (skipn (N.to_nat (bv_len bv)) (flat_bits ws)) (0 + lenN (bits_of bv))) in HQ.
  set (k0 := 32 * (k / 32)) in *.
  assert (Hk0 : k0 < lenN P) by (subst k0; lia).
  assert (Hsp : sp < bv_len bv).
  { rewrite Esp. apply (positions_lt_len v bv _ Hwf). apply nthN_In, Hk0. }
  assert (Hpk : nthN P k 0 < bv_len bv).
  { apply (positions_lt_len v bv _ Hwf). apply nthN_In, Hk. }
  assert (Hwi : sp / 64 < lenN ws) by lia.
  rewrite idx_ok by exact Hwi. cbn [bind]. rewrite shl_ok by lia. cbn [bind].
  fold (adj inv (nthN ws (sp / 64) 0)). rewrite <- nthN_map_adj by exact Hwi. fold A.
  (* the list the scan walks over *)
  assert (Hsel : selF true (word_bits (N.land (nthN A (sp / 64) 0) ((MASK64 * 2 ^ (sp mod 64)) mod W))
                            ++ flat_bits (map (adj inv) (skipn (S (N.to_nat (sp / 64))) ws)))
                   (64 * (sp / 64)) (k mod 32) = Some (nthN P k 0)).
  { unfold selF. rewrite <- skipn_map. fold A.
    rewrite <- scan_positions by (try lia; subst A; rewrite lenN_map; exact Hwi).
    replace (64 * (sp / 64) + sp mod 64) with sp by lia. fold Q.
    assert (E0 : nth (N.to_nat k0) Q 0 = sp).
    { rewrite HQ, app_nth1 by (unfold lenN in Hk0; lia). symmetry. exact Esp. }
    rewrite <- E0. rewrite filter_ge_skipn.
    - rewrite nth_error_skipn. replace (N.to_nat k0 + N.to_nat (k mod 32))%nat with (N.to_nat k) by (subst k0; lia).
      rewrite HQ, nth_error_app1 by (unfold lenN in Hk; lia).
      apply nth_error_nth'. unfold lenN in Hk. lia.
    - apply incr_positions_from.
    - rewrite HQ, app_length. unfold lenN in Hk0. lia. }
  destruct (da_scan_spec c inv (skipn (S (N.to_nat (sp / 64))) ws) (k mod 32) (sp / 64)
              (N.land (nthN A (sp / 64) 0) ((MASK64 * 2 ^ (sp mod 64)) mod W)) (nthN P k 0))
    as (rem' & wi' & word' & p & E1 & E2 & E3).
  - apply land_lt_W. subst A. rewrite nthN_map_adj by exact Hwi. apply adj_lt.
    apply Forall_nthN; [exact Hall | apply W_pos].
  - apply Forall_skipn', Hall.
  - rewrite lenN_skipn. unfold W. lia.
  - unfold W. lia.
  - exact Hsel.
  - rewrite E1. cbn [bind]. rewrite E2. cbn [unwrap bind].
    rewrite mul_ok by (unfold W; lia). cbn [bind].
    rewrite add_ok by (unfold W; lia). cbn [bind]. rewrite E3. reflexivity.
Qed.

(* ---------- select ---------- *)

Theorem da_select_ok c d bv v k :
  wf bv -> cap_ok bv -> k < W -> index_ok (positions v (bits_of bv)) d -> d_over_one d = v ->
  da_select c d bv k = Ok (BitSpec.select v (bits_of bv) k).
Proof.
  intros Hwf Hcap Hk (Hnum & Hovf & Hlook) Hv.
  pose proof (cap_W bv Hcap) as Hc.
  set (P := positions v (bits_of bv)) in *.
  assert (HlenP : lenN P <= bv_len bv).
  { subst P. unfold positions. rewrite positions_from_len.
    pose proof (count_le_len v (bits_of bv)) as H. rewrite (bits_of_length bv Hwf) in H. exact H. }
  unfold da_select. rewrite Hnum.
  destruct (N.leb_spec (lenN P) k) as [Hge|Hlt].
  - unfold select. cbv zeta. fold P. destruct (N.ltb_spec k (lenN P)) as [H|H]; [lia | reflexivity].
  - rewrite (select_nthN v (bits_of bv) k) by exact Hlt. fold P.
    destruct (Hlook k Hlt) as [Hb Hrest]. cbv zeta in Hrest.
    unfold DA_BLOCK_LEN, SUBBLOCK_LEN.
    rewrite idx_ok by exact Hb. cbn [bind].
    destruct (nthN (d_block_inv d) (k / 1024) 0%Z <? 0)%Z.
    + destruct Hrest as [H1 H2]. rewrite add_ok by (unfold W; lia). cbn [bind].
      rewrite idx_ok by exact H1. cbn [bind]. rewrite H2. reflexivity.
    + destruct Hrest as [H1 H2]. rewrite idx_ok by exact H1. cbn [bind].
      assert (Hsp : nthN P (32 * (k / 32)) 0 < bv_len bv).
      { apply (positions_lt_len v bv _ Hwf). apply (nthN_In P). lia. }
      rewrite add_ok by (rewrite H2; unfold W; lia). cbn [bind]. rewrite H2.
      destruct (N.eqb_spec (k mod 32) 0) as [Hz|Hnz].
      * replace (32 * (k / 32)) with k by lia. reflexivity.
      * rewrite Hv. apply (dense_scan c bv v k); try assumption. reflexivity.
Qed.
