(* Proofs/PSMain.v — property C12: PrefixSummedEliasFano (Model/Psef.v) is lossless and reports
   the exact sum.  The stored Elias-Fano sequence is the list of prefix sums `psums 0 vals` with
   universe sum + 1; `ps_rep p vals` is the representation invariant, the query theorems need
   nothing else.  The construction theorem takes the DArray premise of Proofs/EFBuilder.v
   explicitly. *)
From Sucds Require Import Base.Res Spec.WordSpec Spec.BitSpec Spec.SeqSpec Spec.DacSpec
  Model.BitVector Model.DArray Model.EliasFano Model.Psef
  Proofs.ResLemmas Proofs.BVAbs Proofs.WordLemmas Proofs.BVReads Proofs.BVReads2
  Proofs.IndexSpecs Proofs.EFRep Proofs.EFQueries Proofs.EFBuilder Proofs.IterGeneric
  Proofs.SALemmas.
From Coq Require Import ZArith ZifyN ZifyBool ZifyNat Lia.
Ltac Zify.zify_post_hook ::= Z.div_mod_to_equations.
Open Scope N_scope.

(* ---------- prefix sums ---------- *)

Fixpoint psums (s : N) (vals : list N) : list N :=
  match vals with [] => [] | x :: r => (s + x) :: psums (s + x) r end.

Lemma psums_length vals : forall s, length (psums s vals) = length vals.
Proof. induction vals as [|x r IH]; intro s; [reflexivity|]. cbn [psums length]. rewrite IH. reflexivity. Qed.

Lemma psums_len vals s : lenN (psums s vals) = lenN vals.
Proof. unfold lenN. rewrite psums_length. reflexivity. Qed.

Lemma fold_add_ge vals : forall s, s <= fold_left N.add vals s.
Proof.
  induction vals as [|x r IH]; intro s; [cbn [fold_left]; lia|].
  cbn [fold_left]. pose proof (IH (s + x)). lia.
Qed.

Lemma fold_add_shift vals : forall s, fold_left N.add vals s = s + fold_left N.add vals 0.
Proof.
  induction vals as [|x r IH]; intro s; [cbn [fold_left]; lia|].
  cbn [fold_left]. rewrite (IH (s + x)), (IH (0 + x)). lia.
Qed.

Lemma psums_nondec vals : forall s, nondec_from s (psums s vals).
Proof.
  induction vals as [|x r IH]; intro s; [exact I|].
  cbn [psums nondec_from]. split; [lia | apply IH].
Qed.

Lemma psums_bound vals : forall s, Forall (fun y => y <= fold_left N.add vals s) (psums s vals).
Proof.
  induction vals as [|x r IH]; intro s; [constructor|].
  cbn [psums fold_left]. constructor; [apply fold_add_ge | apply IH].
Qed.

Lemma psums_nth_0 vals s : (0 < length vals)%nat -> nth 0 (psums s vals) 0 = s + nth 0 vals 0.
Proof. destruct vals as [|x r]; intro H; [cbn [length] in H; lia | reflexivity]. Qed.

Lemma psums_nth_S vals : forall s k, (S k < length vals)%nat ->
  nth (S k) (psums s vals) 0 = nth k (psums s vals) 0 + nth (S k) vals 0.
Proof.
  induction vals as [|x r IH]; intros s k H; [cbn [length] in H; lia|].
  cbn [length] in H. cbn [psums]. destruct k as [|k].
  - cbn [nth]. apply psums_nth_0. lia.
  - change (nth (S (S k)) ((s + x) :: psums (s + x) r) 0) with (nth (S k) (psums (s + x) r) 0).
    change (nth (S k) ((s + x) :: psums (s + x) r) 0) with (nth k (psums (s + x) r) 0).
    change (nth (S (S k)) (x :: r) 0) with (nth (S k) r 0).
    apply IH. lia.
Qed.

(* the differences of consecutive prefix sums are the values *)
Lemma delta_psums vals k : SeqSpec.ef_delta (psums 0 vals) k = nth_opt vals k.
Proof.
  unfold SeqSpec.ef_delta. destruct (N.lt_ge_cases k (lenN vals)) as [Hk|Hk].
  - rewrite (nth_opt_in (psums 0 vals) k) by (rewrite psums_len; exact Hk).
    rewrite (nth_opt_in vals k) by exact Hk. unfold lenN in Hk.
    destruct (N.eqb_spec k 0) as [->|Hk0].
    + unfold nthN. change (N.to_nat 0) with 0%nat. rewrite psums_nth_0 by lia. rewrite N.add_0_l. reflexivity.
    + rewrite (nth_opt_in (psums 0 vals) (k - 1)) by (rewrite psums_len; unfold lenN; lia).
      f_equal. unfold nthN. replace (N.to_nat k) with (S (N.to_nat (k - 1))) by lia.
      rewrite psums_nth_S by lia. lia.
  - rewrite (nth_opt_out (psums 0 vals) k) by (rewrite psums_len; exact Hk).
    rewrite (nth_opt_out vals k) by exact Hk. reflexivity.
Qed.

(* ---------- capacity of the Elias-Fano layer from a bound on the number of values ---------- *)

Lemma ef_cap_len u m : u < W -> 1 <= m -> m < 2 ^ 50 -> ef_cap u m.
Proof.
  intros Hu Hm Hlen. unfold ef_cap. set (l := low_len_of u m).
  pose proof (low_len_lt u m Hu Hm) as Hl. fold l in Hl.
  change (2 ^ 50) with 1125899906842624 in Hlen. change (2 ^ 56) with 72057594037927936.
  assert (H1 : u / 2 ^ l < 2 * m).
  { destruct (N.lt_ge_cases u m) as [Hum|Hum].
    - unfold l. rewrite (low_len_small u m Hum). change (2 ^ 0) with 1. rewrite N.div_1_r. lia.
    - pose proof (low_len_bounds u m Hm Hum) as [_ Hhi]. fold l in Hhi.
      rewrite N.add_1_r, N.pow_succ_r' in Hhi.
      apply N.div_lt_upper_bound; [apply N.pow_nonzero; discriminate|].
      pose proof (pow2_pos l) as Hp. set (t := 2 ^ l) in *. clearbody t. nia. }
  split; [lia | nia].
Qed.

(* ---------- the sum fold ---------- *)

Lemma fold_sum_ok c vals : forall s, fold_left N.add vals s < W ->
  fold_res (fun u x => add c u x) vals s = Ok (fold_left N.add vals s).
Proof.
  induction vals as [|x r IH]; intros s H; [reflexivity|].
  cbn [fold_res fold_left] in *. pose proof (fold_add_ge r (s + x)).
  rewrite add_ok by lia. cbn [bind]. apply IH. exact H.
Qed.

(* ---------- the push fold ---------- *)

Definition ps_step (c : cfg) (st : efbuilder * N * bool) (x : N) : res (efbuilder * N * bool) :=
  let '(b, cur, ok) := st in
  if negb ok then Ok st else
  cur <- add c cur x ;;
  r <- efb_push c b cur ;;
  Ok (fst r, cur, snd r).

Section PushFold.
Variables (u m : N).
Hypothesis Hu : u < W.
Hypothesis Hm : 1 <= m.
Hypothesis Hcap1 : m + 2 + u / 2 ^ low_len_of u m < 2 ^ 56.
Hypothesis Hcap2 : m * low_len_of u m < 2 ^ 56.

Lemma ps_fold_ok c r : forall b cur acc,
  efb_inv b acc u m -> last_or 0 acc <= cur -> lenN acc + lenN r <= m ->
  fold_left N.add r cur < u ->
  exists b', fold_res (ps_step c) r (b, cur, true) = Ok (b', fold_left N.add r cur, true) /\
             efb_inv b' (acc ++ psums cur r) u m.
Proof.
  induction r as [|x r IH]; intros b cur acc I Hlast Hlen Hsum.
  - exists b. split; [reflexivity|]. cbn [psums]. rewrite app_nil_r. exact I.
  - cbn [fold_res fold_left psums] in *. unfold ps_step at 1. cbv beta iota. cbn [negb].
    pose proof (fold_add_ge r (cur + x)) as Hge. rewrite lenN_cons in Hlen.
    rewrite add_ok by lia. cbn [bind].
    assert (Hacc : efb_accepts u m acc (cur + x) = true) by (apply accepts_iff; lia).
    destruct (efb_push_accept u m Hu Hm Hcap1 Hcap2 c b acc (cur + x) I Hacc) as [b1 [E1 I1]].
    rewrite E1. cbn [bind fst snd].
    destruct (IH b1 (cur + x) (acc ++ [cur + x]) I1) as [b' [E' I']].
    + rewrite last_or_snoc. lia.
    + rewrite lenN_app. change (lenN [cur + x]) with 1. lia.
    + exact Hsum.
    + exists b'. split; [exact E'|]. rewrite <- app_assoc in I'. exact I'.
Qed.
End PushFold.

(* ---------- the representation invariant and the queries ---------- *)

Definition ps_rep (p : psef) (vals : list N) : Prop :=
  ef_rep (ps_ef p) (psums 0 vals) (sum_list vals + 1).

Section Queries.
Variables (p : psef) (vals : list N).
Hypothesis R : ps_rep p vals.

Theorem ps_len_spec : ps_len p = lenN vals.
Proof. unfold ps_len. rewrite (rep_len _ _ _ R). apply psums_len. Qed.

Theorem ps_sum_spec c : ps_sum c p = Ok (sum_list vals).
Proof.
  unfold ps_sum. rewrite (rep_univ _ _ _ R). rewrite sub_ok by lia. f_equal. lia.
Qed.

Theorem ps_access_spec c i : ps_access c p i = Ok (nth_opt vals i).
Proof. unfold ps_access. rewrite (ef_delta_spec _ _ _ R). rewrite delta_psums. reflexivity. Qed.

(* the iterator: the index-based contract of Proofs/IterGeneric.v *)
Lemma ps_iter_next_shape c pos :
  ps_iter_next c p pos = index_next c (ps_access c p) (ps_len p) pos.
Proof. reflexivity. Qed.

Theorem ps_iter_ok c : lenN vals < 2 ^ 56 ->
  iter_ok (nth_opt vals) (lenN vals) (ps_iter_next c p) (BitVector.iter_size_hint c (lenN vals)).
Proof.
  intro Hlen.
  assert (E : forall pos, ps_iter_next c p pos = index_next c (ps_access c p) (lenN vals) pos).
  { intro pos. rewrite ps_iter_next_shape, ps_len_spec. reflexivity. }
  intro j. destruct (index_iter_from_access c (ps_access c p) (nth_opt vals) (lenN vals) Hlen) with (j := j)
    as [H1 [H2 [H3 H4]]].
  - intros pos _. apply ps_access_spec.
  - intros pos Hp. rewrite nth_opt_in by exact Hp. discriminate.
  - assert (M : forall n q, mrun (ps_iter_next c p) n q
                            = mrun (index_next c (ps_access c p) (lenN vals)) n q).
    { induction n as [|n IHn]; intro q; [reflexivity|]. cbn [mrun]. rewrite E.
      destruct (index_next c (ps_access c p) (lenN vals) q) as [r|]; [|reflexivity].
      cbn [bind]. rewrite IHn. reflexivity. }
    cbv zeta. rewrite !M. split; [exact H1|]. split; [exact H2|]. split; [exact H3|].
    intro n. rewrite M. apply H4.
Qed.

End Queries.

(* ---------- construction ---------- *)

Lemma ps_from_slice_nil c : ps_from_slice c [] = Ok None.
Proof. reflexivity. Qed.

Section Build.
Hypothesis da_from_bits_ok : DA_FROM_BITS_OK.

Theorem ps_from_slice_ok vals : vals <> [] -> sum_list vals + 1 < W ->
  ef_cap (sum_list vals + 1) (lenN vals) ->
  exists p, (forall c, ps_from_slice c vals = Ok (Some p)) /\ ps_rep p vals.
Proof.
  intros Hne Hsum [Hcap1 Hcap2]. set (u := sum_list vals + 1) in *. set (m := lenN vals) in *.
  assert (Hm : 1 <= m).
  { unfold m. destruct vals; [contradiction|]. rewrite lenN_cons. lia. }
  assert (Hc : forall c, exists b0 b, efb_new c u m = Ok (Some b0) /\
            fold_res (ps_step c) vals (b0, 0, true) = Ok (b, sum_list vals, true) /\
            efb_inv b (psums 0 vals) u m).
  { intro c. destruct (efb_new_ok u m Hsum Hm Hcap1 Hcap2 c) as [b0 [E0 I0]].
    destruct (ps_fold_ok u m Hsum Hm Hcap1 Hcap2 c vals b0 0 [] I0) as [b [E I]].
    - unfold last_or. cbn [last_opt]. lia.
    - rewrite lenN_nil. fold m. lia.
    - fold (sum_list vals). unfold u. lia.
    - exists b0, b. split; [exact E0 | split; [exact E | exact I]]. }
  destruct (Hc {| dbg := true; intr := false |}) as [_ [b [_ [_ I]]]].
  destruct (efb_build_ok da_from_bits_ok u m b _ Hsum Hm Hcap1 Hcap2 I) as [e [Eb [Re _]]].
  exists {| ps_ef := e |}. split; [|exact Re].
  intro c. destruct (Hc c) as [b0' [b' [E0' [E' I']]]].
  pose proof (efb_inv_unique b b' _ u m I I') as ->.
  unfold ps_from_slice. destruct vals as [|v0 vr]; [contradiction|].
  rewrite fold_sum_ok by (fold (sum_list (v0 :: vr)); lia). cbn [bind].
  fold (sum_list (v0 :: vr)). rewrite add_ok by exact Hsum. cbn [bind].
  fold u. fold m. rewrite E0'. cbn [bind].
  change (fold_res _ (v0 :: vr) (b0', 0, true)) with (fold_res (ps_step c) (v0 :: vr) (b0', 0, true)).
  rewrite E'. cbn [bind negb]. rewrite Eb. reflexivity.
Qed.

(* C12, end to end *)
Theorem ps_correct vals : vals <> [] -> sum_list vals + 1 < W ->
  ef_cap (sum_list vals + 1) (lenN vals) ->
  exists p, (forall c, ps_from_slice c vals = Ok (Some p)) /\
    ps_len p = lenN vals /\
    (forall c, ps_sum c p = Ok (sum_list vals)) /\
    (forall c i, ps_access c p i = Ok (nth_opt vals i)) /\
    (forall c, iter_ok (nth_opt vals) (lenN vals) (ps_iter_next c p)
                       (BitVector.iter_size_hint c (lenN vals))).
Proof.
  intros Hne Hsum Hcap. destruct (ps_from_slice_ok vals Hne Hsum Hcap) as [p [E R]].
  exists p. split; [exact E|]. split; [apply (ps_len_spec p vals R)|].
  split; [intro c; apply (ps_sum_spec p vals R)|].
  split; [intros c i; apply (ps_access_spec p vals R)|].
  intro c. apply (ps_iter_ok p vals R). destruct Hcap as [H1 _].
  eapply N.le_lt_trans; [|exact H1]. rewrite <- N.add_assoc. apply N.le_add_r.
Qed.

(* the same for fewer than 2^50 values: no capacity premise left *)
Corollary ps_correct_small vals : vals <> [] -> sum_list vals + 1 < W -> lenN vals < 2 ^ 50 ->
  exists p, (forall c, ps_from_slice c vals = Ok (Some p)) /\
    ps_len p = lenN vals /\
    (forall c, ps_sum c p = Ok (sum_list vals)) /\
    (forall c i, ps_access c p i = Ok (nth_opt vals i)) /\
    (forall c, iter_ok (nth_opt vals) (lenN vals) (ps_iter_next c p)
                       (BitVector.iter_size_hint c (lenN vals))).
Proof.
  intros Hne Hsum Hlen. apply ps_correct; [exact Hne | exact Hsum|].
  apply ef_cap_len; [exact Hsum | | exact Hlen].
  destruct vals; [contradiction|]. rewrite lenN_cons. lia.
Qed.

End Build.

Print Assumptions delta_psums.
Print Assumptions ef_cap_len.
Print Assumptions ps_len_spec.
Print Assumptions ps_sum_spec.
Print Assumptions ps_access_spec.
Print Assumptions ps_iter_ok.
Print Assumptions ps_from_slice_ok.
Print Assumptions ps_correct.
Print Assumptions ps_correct_small.
