(* Proofs/CVRep.v — C09: the representation invariant of the CompactVector model
   (`cv_inv` for every width 0..=64, `cv_rep` for the widths 1..=64 a constructor accepts),
   the list lemmas about fixed-width chunk sequences, and the reads
   (get_int / access / iter / to_list) against the plain `list N`. *)
From Sucds Require Import Base.Res Spec.WordSpec Spec.BitSpec Spec.SeqSpec Spec.DacSpec
  Model.BitVector Model.CompactVector
  Proofs.ResLemmas Proofs.BVAbs Proofs.WordLemmas Proofs.BVReads Proofs.BVMutLemmas Proofs.BVMut Proofs.BVHistory.
From Coq Require Import ZArith ZifyN ZifyBool ZifyNat Lia.
Ltac Zify.zify_post_hook ::= Z.div_mod_to_equations.
Open Scope N_scope.

(* ---------- sequences of chunks of a fixed length ---------- *)
Section Chunks.
  Variable f : N -> list bool.
  Variable w : nat.
  Hypothesis f_len : forall x, length (f x) = w.

  Lemma chunks_length xs : length (flat_map f xs) = (length xs * w)%nat.
  Proof.
    induction xs as [|x xs IH]; [reflexivity|].
    cbn [flat_map length]. rewrite app_length, f_len, IH. lia.
  Qed.

  Lemma chunks_skipn k : forall xs, skipn (k * w) (flat_map f xs) = flat_map f (skipn k xs).
  Proof.
    induction k as [|k IH]; intro xs; [reflexivity|].
    destruct xs as [|x xs].
    - cbn [flat_map skipn]. apply skipn_nil.
    - cbn [flat_map skipn]. replace (S k * w)%nat with (length (f x) + k * w)%nat by (rewrite f_len; lia).
      rewrite skipn_app, skipn_all2 by lia.
      replace (length (f x) + k * w - length (f x))%nat with (k * w)%nat by lia.
      cbn [app]. apply IH.
  Qed.

  Lemma chunks_firstn_hd x r : firstn w (flat_map f (x :: r)) = f x.
  Proof.
    cbn [flat_map]. rewrite <- (f_len x). rewrite firstn_app, firstn_all, Nat.sub_diag.
    cbn [firstn]. apply app_nil_r.
  Qed.

  Lemma chunks_get k xs x : nth_error xs k = Some x ->
    firstn w (skipn (k * w) (flat_map f xs)) = f x.
  Proof.
    intro H. rewrite chunks_skipn.
    assert (E : exists r, skipn k xs = x :: r).
    { revert xs H. induction k as [|k IH]; intros [|y xs] H; cbn [nth_error] in H; try discriminate.
      - injection H as ->. exists xs. reflexivity.
      - cbn [skipn]. apply IH. exact H. }
    destruct E as [r ->]. apply chunks_firstn_hd.
  Qed.

  Lemma overwrite_app_l (a l new : list bool) p :
    overwrite (a ++ l) (length a + p) new = a ++ overwrite l p new.
  Proof.
    induction a as [|y a IH]; [reflexivity|].
    cbn [length app Nat.add overwrite]. rewrite IH. reflexivity.
  Qed.

  Lemma chunks_overwrite k : forall xs x, (k < length xs)%nat ->
    overwrite (flat_map f xs) (k * w) (f x) = flat_map f (set_nth k xs x).
  Proof.
    induction k as [|k IH]; intros [|y xs] x Hk; cbn [length] in Hk; try lia.
    - cbn [Nat.mul set_nth flat_map]. rewrite overwrite_0. rewrite f_len, <- (f_len y).
      rewrite skipn_app, skipn_all, Nat.sub_diag. reflexivity.
    - cbn [set_nth flat_map].
      replace (S k * w)%nat with (length (f y) + k * w)%nat by (rewrite f_len; lia).
      rewrite overwrite_app_l. rewrite IH by lia. reflexivity.
  Qed.
End Chunks.

(* ---------- the value of a chunk ---------- *)
Lemma bits_val_low_bits n v : bits_val (low_bits n v) = v mod 2 ^ N.of_nat n.
Proof.
  apply N.bits_inj. intro i. rewrite testbit_bits_val, testbit_mod_pow2.
  destruct (N.ltb_spec i (N.of_nat n)) as [H|H]; cbn [andb].
  - rewrite low_bits_nth by lia. f_equal. lia.
  - apply nth_overflow. rewrite low_bits_length. lia.
Qed.

Lemma bits_val_low_bits_small w v : v < 2 ^ w -> bits_val (low_bits (N.to_nat w) v) = v.
Proof.
  intro H. rewrite bits_val_low_bits, N2Nat.id. apply N.mod_small. exact H.
Qed.

Lemma lenN_chunks w (xs : list N) :
  lenN (flat_map (low_bits (N.to_nat w)) xs) = lenN xs * w.
Proof.
  unfold lenN. rewrite (chunks_length _ (N.to_nat w)) by (intro; apply low_bits_length). lia.
Qed.

(* ---------- spec vocabulary (plain N / list N) ---------- *)
(* a constructor accepts exactly the widths 1..=64 *)
Definition wok (w : N) : bool := (1 <=? w) && (w <=? 64).
(* x is representable in w bits *)
Definition fitsb (w x : N) : bool := x <? 2 ^ w.
(* the longest prefix of fitting items *)
Fixpoint fit_prefix (w : N) (l : list N) : list N :=
  match l with [] => [] | x :: r => if fitsb w x then x :: fit_prefix w r else [] end.

Lemma wok_iff w : wok w = true <-> 1 <= w <= 64.
Proof.
  unfold wok. destruct (N.leb_spec 1 w); destruct (N.leb_spec w 64); cbn [andb];
    split; intro; try discriminate; try lia; reflexivity.
Qed.
Lemma wok_width_ok w : width_ok w = wok w.
Proof. reflexivity. Qed.

(* ---------- the invariant ---------- *)
(* every width 0..=64: the default vector (from_slice(&[])) has width 0 and is a faithful list of
   0-bit integers, so the mutators and reads are proved for it as well *)
Definition cv_inv (v : compvec) (xs : list N) : Prop :=
  wf (cv_chunks v) /\ cv_len v = lenN xs /\ cv_width v <= 64 /\
  Forall (fun x => x < 2 ^ cv_width v) xs /\
  bits_of (cv_chunks v) = flat_map (low_bits (N.to_nat (cv_width v))) xs.

(* the invariant of a vector built by a constructor with an explicit width *)
Definition cv_rep (v : compvec) (xs : list N) : Prop :=
  wf (cv_chunks v) /\ cv_len v = lenN xs /\ 1 <= cv_width v <= 64 /\
  Forall (fun x => x < 2 ^ cv_width v) xs /\
  bits_of (cv_chunks v) = flat_map (low_bits (N.to_nat (cv_width v))) xs.

Lemma cv_rep_inv v xs : cv_rep v xs <-> cv_inv v xs /\ 1 <= cv_width v.
Proof.
  unfold cv_rep, cv_inv. split.
  - intros [H1 [H2 [[H3 H3'] [H4 H5]]]]. auto 10.
  - intros [[H1 [H2 [H3 [H4 H5]]]] H6]. auto 10.
Qed.

(* capacity: the chunk sequence is shorter than 2^56 bits (DESIGN.md section 3.3) and the element
   count is a usize (implied by the first conjunct unless the width is 0) *)
Definition cv_cap (w n : N) : Prop := n * w < 2 ^ 56 /\ n < W.

Lemma cv_cap_of_rep w n : 1 <= w -> n * w < 2 ^ 56 -> cv_cap w n.
Proof.
  intros Hw H. split; [exact H|].
  assert (n <= n * w) by nia. change (2 ^ 56) with 72057594037927936 in H. unfold W. lia.
Qed.

Lemma cv_cap_mono w n m : m <= n -> cv_cap w n -> cv_cap w m.
Proof. intros Hm [H1 H2]. split; [nia | lia]. Qed.

Lemma cv_inv_bvlen v xs : cv_inv v xs -> bv_len (cv_chunks v) = lenN xs * cv_width v.
Proof.
  intros [Hwf [_ [_ [_ Hb]]]]. rewrite <- (bits_of_length _ Hwf), Hb. apply lenN_chunks.
Qed.

Lemma cv_inv_default : cv_inv cv_default [].
Proof.
  unfold cv_inv, cv_default. cbn [cv_chunks cv_len cv_width flat_map].
  split; [exact wf_empty|]. split; [reflexivity|]. split; [discriminate|].
  split; [constructor | exact bits_of_empty].
Qed.

(* ---------- `fits` ---------- *)
Lemma div_pow2_eqb0 v w : (v / 2 ^ w =? 0) = (v <? 2 ^ w).
Proof.
  pose proof (N.pow_nonzero 2 w ltac:(discriminate)) as Hp.
  destruct (N.ltb_spec v (2 ^ w)) as [H|H].
  - apply N.eqb_eq. apply N.div_small. exact H.
  - apply N.eqb_neq. intro E. apply N.div_small_iff in E; [lia | exact Hp].
Qed.

Lemma fits_spec c w v : w <= 64 -> v < W -> fits c w v = Ok (v <? 2 ^ w).
Proof.
  intros Hw Hv. unfold fits. destruct (N.eqb_spec w 64) as [->|Hne]; cbn [negb].
  - f_equal. symmetry. apply N.ltb_lt. exact Hv.
  - rewrite shr_ok by lia. cbn [bind]. rewrite div_pow2_eqb0. reflexivity.
Qed.

(* ---------- reads ---------- *)
Lemma nth_opt_Some xs pos : pos < lenN xs -> exists x, nth_opt xs pos = Some x /\
  nth_error xs (N.to_nat pos) = Some x.
Proof.
  intro H. unfold nth_opt. destruct (N.ltb_spec pos (lenN xs)) as [_|H']; [|lia].
  destruct (nth_error xs (N.to_nat pos)) as [x|] eqn:E; [eauto|].
  apply nth_error_None in E. unfold lenN in H. lia.
Qed.

Lemma nth_opt_None xs pos : lenN xs <= pos -> nth_opt xs pos = None.
Proof. intro H. unfold nth_opt. destruct (N.ltb_spec pos (lenN xs)); [lia | reflexivity]. Qed.

(* (2) get_int / access: the pos-th integer for pos < len, None for every other usize *)
Theorem cv_get_int_inv c v xs : cv_inv v xs -> cv_cap (cv_width v) (lenN xs) ->
  forall pos, pos < W -> cv_get_int c v pos = Ok (nth_opt xs pos).
Proof.
  intros Hinv [Hcap HcW] pos Hpos. pose proof (cv_inv_bvlen v xs Hinv) as Hbl.
  destruct Hinv as [Hwf [Hlen [Hw [Hall Hb]]]].
  unfold cv_get_int. rewrite Hlen.
  destruct (N.leb_spec (lenN xs) pos) as [Hp|Hp].
  { rewrite nth_opt_None by exact Hp. reflexivity. }
  destruct (nth_opt_Some xs pos Hp) as [x [-> Hx]].
  assert (Hpw : pos * cv_width v + cv_width v <= lenN xs * cv_width v) by nia.
  change (2 ^ 56) with 72057594037927936 in Hcap.
  rewrite mul_ok by (unfold W; lia). cbn [bind].
  rewrite get_bits_spec; [| exact Hwf | unfold cap_ok; rewrite Hbl; exact Hcap
                          | unfold W; lia | unfold W; lia].
  f_equal. unfold BitSpec.get_bits. rewrite Hb, lenN_chunks.
  destruct (N.leb_spec (cv_width v) 64) as [_|H]; [|lia].
  destruct (N.leb_spec (pos * cv_width v + cv_width v) (lenN xs * cv_width v)) as [_|H]; [|lia].
  cbn [andb]. f_equal. rewrite N2Nat.inj_mul.
  rewrite (chunks_get (low_bits (N.to_nat (cv_width v))) (N.to_nat (cv_width v))
             (low_bits_length _) _ _ x Hx).
  apply bits_val_low_bits_small.
  rewrite Forall_forall in Hall. apply Hall. eapply nth_error_In. exact Hx.
Qed.

Theorem cv_get_int_spec c v xs : cv_rep v xs -> lenN xs * cv_width v < 2 ^ 56 ->
  forall pos, pos < W -> cv_get_int c v pos = Ok (nth_opt xs pos).
Proof.
  intros Hrep Hcap. apply cv_rep_inv in Hrep. destruct Hrep as [Hinv Hw].
  apply cv_get_int_inv; [exact Hinv | apply cv_cap_of_rep; assumption].
Qed.

Theorem cv_access_spec c v xs : cv_rep v xs -> lenN xs * cv_width v < 2 ^ 56 ->
  forall pos, pos < W -> cv_access c v pos = Ok (nth_opt xs pos).
Proof. exact (cv_get_int_spec c v xs). Qed.

(* the default vector (from_slice(&[])): every get_int is None *)
Theorem cv_get_int_default c pos : cv_get_int c cv_default pos = Ok None.
Proof.
  unfold cv_get_int, cv_default. cbn [cv_len].
  destruct (N.leb_spec 0 pos) as [_|H]; [reflexivity | lia].
Qed.

(* iteration: Iter { cv, pos }::next *)
Theorem cv_iter_next_inv c v xs : cv_inv v xs -> cv_cap (cv_width v) (lenN xs) ->
  forall pos, pos < W ->
  cv_iter_next c v pos =
  Ok (if pos <? lenN xs then (pos + 1, nth_opt xs pos) else (pos, None)).
Proof.
  intros Hinv Hcap pos Hpos. unfold cv_iter_next, cv_access.
  rewrite (cv_get_int_inv c v xs Hinv Hcap pos Hpos).
  destruct Hinv as [_ [Hlen _]]. rewrite Hlen.
  destruct (N.ltb_spec pos (lenN xs)) as [Hp|Hp]; [|reflexivity].
  cbn [bind]. destruct (nth_opt_Some xs pos Hp) as [x [-> _]]. cbn [unwrap bind].
  destruct Hcap as [_ HcW]. rewrite add_ok by lia. reflexivity.
Qed.

Theorem cv_iter_next_spec c v xs : cv_rep v xs -> lenN xs * cv_width v < 2 ^ 56 ->
  forall pos, pos < W ->
  cv_iter_next c v pos =
  Ok (if pos <? lenN xs then (pos + 1, nth_opt xs pos) else (pos, None)).
Proof.
  intros Hrep Hcap. apply cv_rep_inv in Hrep. destruct Hrep as [Hinv Hw].
  apply cv_iter_next_inv; [exact Hinv | apply cv_cap_of_rep; assumption].
Qed.

(* the whole contents *)
Lemma map_res_seq (g : N -> res N) (xs : list N) :
  (forall i, i < lenN xs -> g i = Ok (nthN xs i 0)) ->
  forall k a, (a + k <= length xs)%nat ->
  map_res g (map N.of_nat (seq a k)) = Ok (firstn k (skipn a xs)).
Proof.
  intro Hg. induction k as [|k IH]; intros a Hak; [reflexivity|].
  cbn [seq map map_res]. rewrite Hg by (unfold lenN; lia). cbn [bind].
  rewrite IH by lia. cbn [bind]. f_equal.
  unfold nthN. rewrite Nat2N.id.
  assert (E : forall (l : list N) n, (n < length l)%nat -> skipn n l = nth n l 0 :: skipn (S n) l).
  { induction l as [|y l IHl]; intros n Hn; cbn [length] in Hn; [lia|].
    destruct n as [|n]; [reflexivity|]. cbn [skipn nth]. rewrite IHl by lia. reflexivity. }
  rewrite (E xs a) by lia. reflexivity.
Qed.

Theorem cv_to_list_inv c v xs : cv_inv v xs -> cv_cap (cv_width v) (lenN xs) ->
  cv_to_list c v = Ok xs.
Proof.
  intros Hinv Hcap. unfold cv_to_list. rewrite ?nseq_unfold.
  assert (Hlen : cv_len v = lenN xs) by apply Hinv.
  rewrite (map_res_seq _ xs).
  - rewrite Hlen. unfold lenN. rewrite Nat2N.id. cbn [skipn]. rewrite firstn_all. reflexivity.
  - intros i Hi. destruct Hcap as [Hc HcW].
    rewrite (cv_get_int_inv c v xs Hinv (conj Hc HcW) i) by lia.
    destruct (nth_opt_Some xs i Hi) as [x [-> Hx]]. cbn [bind unwrap]. f_equal.
    unfold nthN. symmetry. apply nth_error_nth. exact Hx.
  - rewrite Hlen. unfold lenN. lia.
Qed.

Theorem cv_to_list_spec c v xs : cv_rep v xs -> lenN xs * cv_width v < 2 ^ 56 ->
  cv_to_list c v = Ok xs.
Proof.
  intros Hrep Hcap. apply cv_rep_inv in Hrep. destruct Hrep as [Hinv Hw].
  apply cv_to_list_inv; [exact Hinv | apply cv_cap_of_rep; assumption].
Qed.

(* ---------- (4) canonicity ---------- *)
Theorem cv_inv_canonical a b xs : cv_inv a xs -> cv_inv b xs -> cv_width a = cv_width b -> a = b.
Proof.
  intros [Hwa [Hla [_ [_ Hba]]]] [Hwb [Hlb [_ [_ Hbb]]]] Ew.
  destruct a as [ca la wa], b as [cb lb wb]. cbn [cv_chunks cv_len cv_width] in *.
  subst wb. f_equal; [|congruence].
  apply BVHistory.canonical; [exact Hwa | exact Hwb | congruence].
Qed.

Theorem cv_rep_canonical a b xs : cv_rep a xs -> cv_rep b xs -> cv_width a = cv_width b -> a = b.
Proof.
  intros Ha Hb. apply cv_rep_inv in Ha, Hb. destruct Ha as [Ha _], Hb as [Hb _].
  exact (cv_inv_canonical a b xs Ha Hb).
Qed.

Theorem cv_eqb_spec a b : cv_eqb a b = true <-> a = b.
Proof.
  unfold cv_eqb. split.
  - intro H. apply andb_prop in H. destruct H as [H Hw]. apply andb_prop in H. destruct H as [Hc Hl].
    apply bv_eqb_spec in Hc. apply N.eqb_eq in Hl, Hw.
    destruct a as [ca la wa], b as [cb lb wb]. cbn [cv_chunks cv_len cv_width] in *. subst. reflexivity.
  - intros ->. rewrite !N.eqb_refl, !andb_true_r. apply bv_eqb_spec. reflexivity.
Qed.

Print Assumptions cv_get_int_spec.
Print Assumptions cv_iter_next_spec.
Print Assumptions cv_to_list_spec.
Print Assumptions cv_rep_canonical.
Print Assumptions cv_eqb_spec.
