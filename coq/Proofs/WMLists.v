(* Proofs/WMLists.v — pure list algebra for the wavelet matrix: stable partition of a sequence by
   one bit, the range mapping through a partition, counting / selecting on lists. *)
From Sucds Require Import Base.Res Spec.BitSpec Spec.SeqSpec Proofs.ResLemmas.
From Coq Require Import ZArith ZifyN ZifyBool ZifyNat Lia.
Ltac Zify.zify_post_hook ::= Z.div_mod_to_equations.
Open Scope N_scope.

Definition tb (m x : N) : bool := N.testbit x m.
Definition ntb (m x : N) : bool := negb (N.testbit x m).
(* one level of the wavelet matrix: elements with bit m clear (in order), then those with bit m set *)
Definition part (m : N) (S : list N) : list N := filter (ntb m) S ++ filter (tb m) S.
Definition cntf {A} (f : A -> bool) (l : list A) : N := lenN (filter f l).

(* ---------- generic list facts ---------- *)
Lemma lenN_filter_le {A} (f : A -> bool) l : lenN (filter f l) <= lenN l.
Proof.
  induction l as [|x l IH]; cbn [filter]; [reflexivity|].
  destruct (f x); rewrite ?lenN_cons; lia.
Qed.
Lemma cntf_app {A} (f : A -> bool) l1 l2 : cntf f (l1 ++ l2) = cntf f l1 + cntf f l2.
Proof. unfold cntf. rewrite filter_app, lenN_app. reflexivity. Qed.
Lemma cntf_le {A} (f : A -> bool) l : cntf f l <= lenN l.
Proof. apply lenN_filter_le. Qed.
Lemma cntf_compl {A} (f : A -> bool) l : cntf f l + cntf (fun x => negb (f x)) l = lenN l.
Proof.
  unfold cntf. induction l as [|x l IH]; [reflexivity|].
  cbn [filter]. destruct (f x); cbn [negb]; rewrite !lenN_cons; lia.
Qed.
Lemma cntf_ext {A} (f g : A -> bool) l : (forall x, In x l -> f x = g x) -> cntf f l = cntf g l.
Proof. intro H. unfold cntf. rewrite (filter_ext_in f g l H). reflexivity. Qed.
Lemma filter_filter {A} (f g : A -> bool) l : filter f (filter g l) = filter (fun x => g x && f x) l.
Proof.
  induction l as [|x l IH]; [reflexivity|]. cbn [filter].
  destruct (g x); cbn [filter andb]; [destruct (f x); rewrite IH; reflexivity | exact IH].
Qed.
Lemma cntf_filter {A} (f g : A -> bool) l : cntf f (filter g l) = cntf (fun x => g x && f x) l.
Proof. unfold cntf. rewrite filter_filter. reflexivity. Qed.
Lemma cntf_true {A} (f : A -> bool) l : (forall x, In x l -> f x = true) -> cntf f l = lenN l.
Proof.
  intro H. unfold cntf. induction l as [|x l IH]; [reflexivity|].
  cbn [filter]. rewrite (H x (or_introl eq_refl)), !lenN_cons, IH; [reflexivity|].
  intros y Hy. apply H. right. exact Hy.
Qed.

Lemma count_true_map {A} (f : A -> bool) l : count true (map f l) = cntf f l.
Proof.
  unfold cntf. induction l as [|x l IH]; [reflexivity|].
  cbn [map count filter]. rewrite IH. destruct (f x); cbn [Bool.eqb]; rewrite ?lenN_cons; lia.
Qed.
Lemma count_false_map {A} (f : A -> bool) l : count false (map f l) = cntf (fun x => negb (f x)) l.
Proof.
  unfold cntf. induction l as [|x l IH]; [reflexivity|].
  cbn [map count filter]. rewrite IH. destruct (f x); cbn [Bool.eqb negb]; rewrite ?lenN_cons; lia.
Qed.

Lemma sub_seq_eq (S : list N) a b : a <= b ->
  sub_seq S a b = firstn (N.to_nat (b - a)) (skipn (N.to_nat a) S).
Proof.
  intro H. unfold sub_seq. destruct (N.ltb_spec a b) as [H1|H1]; [reflexivity|].
  replace (b - a) with 0 by lia. reflexivity.
Qed.
Lemma sub_seq_nil (S : list N) a b : b <= a -> sub_seq S a b = [].
Proof. intro H. unfold sub_seq. destruct (N.ltb_spec a b) as [H1|H1]; [lia | reflexivity]. Qed.
Lemma sub_seq_0 (S : list N) b : sub_seq S 0 b = firstn (N.to_nat b) S.
Proof. rewrite sub_seq_eq by lia. rewrite N.sub_0_r. reflexivity. Qed.
Lemma sub_seq_all (S : list N) : sub_seq S 0 (lenN S) = S.
Proof. rewrite sub_seq_0. unfold lenN. rewrite Nat2N.id. apply firstn_all. Qed.

Lemma firstn_app_exact {A} (l1 l2 : list A) : firstn (length l1) (l1 ++ l2) = l1.
Proof. rewrite firstn_app, Nat.sub_diag, firstn_all. cbn [firstn]. apply app_nil_r. Qed.
Lemma skipn_app_exact {A} (l1 l2 : list A) : skipn (length l1) (l1 ++ l2) = l2.
Proof. rewrite skipn_app, Nat.sub_diag, skipn_all. reflexivity. Qed.

Lemma sub_seq_mid (l1 l2 l3 : list N) : sub_seq (l1 ++ l2 ++ l3) (lenN l1) (lenN l1 + lenN l2) = l2.
Proof.
  rewrite sub_seq_eq by lia. unfold lenN.
  rewrite Nat2N.id. rewrite skipn_app_exact.
  replace (N.to_nat (N.of_nat (length l1) + N.of_nat (length l2) - N.of_nat (length l1))) with (length l2) by lia.
  apply firstn_app_exact.
Qed.

Lemma skipn_skipn' {A} n : forall m (l : list A), skipn n (skipn m l) = skipn (m + n) l.
Proof.
  intros m. induction m as [|m IH]; intro l; [reflexivity|].
  destruct l as [|x l]; [rewrite !skipn_nil; reflexivity|]. cbn [skipn Nat.add]. apply IH.
Qed.
Lemma firstn_add' {A} n : forall m (l : list A), firstn (m + n) l = firstn m l ++ firstn n (skipn m l).
Proof.
  intros m. induction m as [|m IH]; intro l; [reflexivity|].
  destruct l as [|x l]; [rewrite !firstn_nil; reflexivity|]. cbn [skipn firstn Nat.add app]. f_equal. apply IH.
Qed.

(* S = A ++ B ++ C with A = S[0..a), B = S[a..b) *)
Lemma split3 (S : list N) a b : a <= b -> b <= lenN S ->
  exists A B C, S = A ++ B ++ C /\ lenN A = a /\ lenN B = b - a /\
    firstn (N.to_nat a) S = A /\ firstn (N.to_nat b) S = A ++ B /\ sub_seq S a b = B /\
    skipn (N.to_nat b) S = C.
Proof.
  intros Hab Hb.
  exists (firstn (N.to_nat a) S), (sub_seq S a b), (skipn (N.to_nat b) S).
  rewrite (sub_seq_eq S a b Hab).
  assert (E1 : skipn (N.to_nat b) S = skipn (N.to_nat (b - a)) (skipn (N.to_nat a) S)).
  { rewrite skipn_skipn'. f_equal. lia. }
  assert (E : S = firstn (N.to_nat a) S ++ firstn (N.to_nat (b - a)) (skipn (N.to_nat a) S) ++ skipn (N.to_nat b) S).
  { rewrite E1, firstn_skipn, firstn_skipn. reflexivity. }
  split; [exact E|]. split; [rewrite lenN_firstn; lia|].
  split; [rewrite lenN_firstn, lenN_skipn; lia|].
  split; [reflexivity|]. split; [|split; reflexivity].
  replace (N.to_nat b) with (N.to_nat a + N.to_nat (b - a))%nat by lia.
  rewrite firstn_add'. reflexivity.
Qed.

Lemma nthN_nth_error {A} (l : list A) i d : i < lenN l -> nth_error l (N.to_nat i) = Some (nthN l i d).
Proof. intro H. unfold nthN. apply nth_error_nth'. unfold lenN in H. lia. Qed.
Lemma nth_opt_nthN (l : list N) i : i < lenN l -> nth_opt l i = Some (nthN l i 0).
Proof.
  intro H. unfold nth_opt. destruct (N.ltb_spec i (lenN l)) as [_|H1]; [|lia].
  apply nthN_nth_error, H.
Qed.
Lemma nth_opt_oob (l : list N) i : lenN l <= i -> nth_opt l i = None.
Proof. intro H. unfold nth_opt. destruct (N.ltb_spec i (lenN l)) as [H1|_]; [lia | reflexivity]. Qed.

Lemma sub_seq_single (S : list N) i : i < lenN S -> sub_seq S i (i + 1) = [nthN S i 0].
Proof.
  intro H. destruct (split3 S i (i + 1)) as [A [B [C [E [LA [LB [_ [_ [EB _]]]]]]]]]; [lia | lia |].
  rewrite EB. destruct B as [|x [|y B]].
  - rewrite lenN_nil in LB. lia.
  - f_equal. rewrite E. rewrite nthN_app_r by lia. rewrite LA, N.sub_diag. reflexivity.
  - rewrite !lenN_cons in LB. lia.
Qed.
Lemma sub_seq_hd (L : list N) a x : sub_seq L a (a + 1) = [x] -> nthN L a 0 = x.
Proof.
  intro H. rewrite sub_seq_eq in H by lia.
  replace (N.to_nat (a + 1 - a)) with 1%nat in H by lia.
  unfold nthN. revert H. generalize (N.to_nat a) as n. intro n.
  rewrite <- (firstn_skipn n L) at 2.
  destruct (skipn n L) as [|y t] eqn:Es; cbn [firstn]; [discriminate|].
  intro H. injection H as ->.
  assert (Hn : (n <= length L)%nat).
  { destruct (Nat.le_gt_cases n (length L)) as [Hl|Hl]; [exact Hl|].
    rewrite skipn_all2 in Es by lia. discriminate. }
  rewrite app_nth2 by (rewrite firstn_length; lia).
  rewrite firstn_length. replace (n - Nat.min n (length L))%nat with 0%nat by lia. reflexivity.
Qed.
Lemma sub_seq_snoc (S : list N) p r : p <= r -> r < lenN S ->
  sub_seq S p (r + 1) = sub_seq S p r ++ [nthN S r 0].
Proof.
  intros H1 H2. rewrite <- (sub_seq_single S r H2).
  rewrite !sub_seq_eq by lia.
  replace (N.to_nat (r + 1 - p)) with (N.to_nat (r - p) + N.to_nat (r + 1 - r))%nat by lia.
  rewrite firstn_add', skipn_skipn'. do 3 f_equal. lia.
Qed.
Lemma sub_seq_app (S : list N) a b c : a <= b -> b <= c ->
  sub_seq S a c = sub_seq S a b ++ sub_seq S b c.
Proof.
  intros H1 H2. rewrite !sub_seq_eq by lia.
  replace (N.to_nat (c - a)) with (N.to_nat (b - a) + N.to_nat (c - b))%nat by lia.
  rewrite firstn_add', skipn_skipn'. do 3 f_equal. lia.
Qed.
Lemma sub_seq_len (S : list N) a b : a <= b -> b <= lenN S -> lenN (sub_seq S a b) = b - a.
Proof. intros H1 H2. rewrite sub_seq_eq by lia. rewrite lenN_firstn, lenN_skipn. lia. Qed.
Lemma In_firstn {A} (x : A) n : forall l, In x (firstn n l) -> In x l.
Proof.
  induction n as [|n IH]; intros l H; [destruct H|].
  destruct l as [|y l]; [destruct H|]. cbn [firstn] in H. destruct H as [H|H]; [left; exact H | right; apply IH, H].
Qed.
Lemma In_skipn {A} (x : A) n : forall l, In x (skipn n l) -> In x l.
Proof.
  induction n as [|n IH]; intros l H; [exact H|].
  destruct l as [|y l]; [destruct H|]. cbn [skipn] in H. right. apply IH, H.
Qed.
Lemma sub_seq_In (S : list N) a b x : In x (sub_seq S a b) -> In x S.
Proof.
  unfold sub_seq. destruct (a <? b); [|intros []].
  intro H. apply In_firstn in H. apply In_skipn in H. exact H.
Qed.

(* ---------- ranks on a level and the stable partition ---------- *)
Definition r0 (m : N) (S : list N) (i : N) : N := cntf (ntb m) (firstn (N.to_nat i) S).
Definition r1 (m : N) (S : list N) (i : N) : N := cntf (tb m) (firstn (N.to_nat i) S).
Definition nz (m : N) (S : list N) : N := cntf (ntb m) S.

Lemma cnt_tb_ntb m l : cntf (ntb m) l + cntf (tb m) l = lenN l.
Proof. pose proof (cntf_compl (tb m) l) as H. change (fun x => negb (tb m x)) with (ntb m) in H. lia. Qed.
Lemma r0_r1 m S i : i <= lenN S -> r0 m S i + r1 m S i = i.
Proof. intro H. unfold r0, r1. rewrite cnt_tb_ntb, lenN_firstn. lia. Qed.
Lemma lenN_part m S : lenN (part m S) = lenN S.
Proof. unfold part. rewrite lenN_app. apply cnt_tb_ntb. Qed.
Lemma r0_full m S : r0 m S (lenN S) = nz m S.
Proof. unfold r0, nz, lenN. rewrite Nat2N.id, firstn_all. reflexivity. Qed.
Lemma r1_full m S : r1 m S (lenN S) = cntf (tb m) S.
Proof. unfold r1, lenN. rewrite Nat2N.id, firstn_all. reflexivity. Qed.
Lemma r0_0 m S : r0 m S 0 = 0. Proof. reflexivity. Qed.
Lemma r1_0 m S : r1 m S 0 = 0. Proof. reflexivity. Qed.

Lemma r0_split m S a b : a <= b -> b <= lenN S -> r0 m S b = r0 m S a + cntf (ntb m) (sub_seq S a b).
Proof.
  intros H1 H2. destruct (split3 S a b H1 H2) as [A [B [C [E [LA [LB [EA [EAB [EB _]]]]]]]]].
  unfold r0. rewrite EA, EAB, EB. apply cntf_app.
Qed.
Lemma r1_split m S a b : a <= b -> b <= lenN S -> r1 m S b = r1 m S a + cntf (tb m) (sub_seq S a b).
Proof.
  intros H1 H2. destruct (split3 S a b H1 H2) as [A [B [C [E [LA [LB [EA [EAB [EB _]]]]]]]]].
  unfold r1. rewrite EA, EAB, EB. apply cntf_app.
Qed.
Lemma r0_le_nz m S i : i <= lenN S -> r0 m S i <= nz m S.
Proof. intro H. rewrite <- r0_full. rewrite (r0_split m S i (lenN S)) by lia. lia. Qed.
Lemma r1_le_no m S i : i <= lenN S -> r1 m S i <= cntf (tb m) S.
Proof. intro H. rewrite <- r1_full. rewrite (r1_split m S i (lenN S)) by lia. lia. Qed.
Lemma nz_le m S : nz m S <= lenN S.
Proof. apply cntf_le. Qed.

Lemma part_range0 m S a b : a <= b -> b <= lenN S ->
  sub_seq (part m S) (r0 m S a) (r0 m S b) = filter (ntb m) (sub_seq S a b).
Proof.
  intros H1 H2. destruct (split3 S a b H1 H2) as [A [B [C [E [LA [LB [EA [EAB [EB _]]]]]]]]].
  unfold r0. rewrite EA, EAB, EB. unfold part. rewrite E at 1.
  rewrite !filter_app, <- !app_assoc. unfold cntf. rewrite filter_app, lenN_app.
  apply sub_seq_mid.
Qed.
Lemma part_range1 m S a b : a <= b -> b <= lenN S ->
  sub_seq (part m S) (nz m S + r1 m S a) (nz m S + r1 m S b) = filter (tb m) (sub_seq S a b).
Proof.
  intros H1 H2. destruct (split3 S a b H1 H2) as [A [B [C [E [LA [LB [EA [EAB [EB _]]]]]]]]].
  unfold r1, nz. rewrite EA, EAB, EB. unfold part. rewrite E at 2.
  rewrite !filter_app. unfold cntf. rewrite filter_app, lenN_app.
  rewrite (app_assoc (filter (ntb m) S)).
  rewrite N.add_assoc, <- (lenN_app (filter (ntb m) S)).
  apply sub_seq_mid.
Qed.

(* the element at position i moves to r0 i (bit clear) or nz + r1 i (bit set) *)
Lemma part_nth0 m S i : i < lenN S -> ntb m (nthN S i 0) = true ->
  nthN (part m S) (r0 m S i) 0 = nthN S i 0 /\ r0 m S (i + 1) = r0 m S i + 1.
Proof.
  intros H1 H2.
  assert (E : r0 m S (i + 1) = r0 m S i + 1).
  { rewrite (r0_split m S i (i + 1)) by lia. rewrite sub_seq_single by exact H1.
    unfold cntf. cbn [filter]. rewrite H2. reflexivity. }
  split; [|exact E]. apply sub_seq_hd. rewrite <- E.
  rewrite part_range0 by lia. rewrite sub_seq_single by exact H1. cbn [filter]. rewrite H2. reflexivity.
Qed.
Lemma part_nth1 m S i : i < lenN S -> tb m (nthN S i 0) = true ->
  nthN (part m S) (nz m S + r1 m S i) 0 = nthN S i 0 /\ r1 m S (i + 1) = r1 m S i + 1.
Proof.
  intros H1 H2.
  assert (E : r1 m S (i + 1) = r1 m S i + 1).
  { rewrite (r1_split m S i (i + 1)) by lia. rewrite sub_seq_single by exact H1.
    unfold cntf. cbn [filter]. rewrite H2. reflexivity. }
  split; [|exact E]. apply sub_seq_hd. rewrite <- N.add_assoc, <- E.
  rewrite part_range1 by lia. rewrite sub_seq_single by exact H1. cbn [filter]. rewrite H2. reflexivity.
Qed.

(* ---------- the bit list of a level ---------- *)
Lemma rank_true_bits m S i : i <= lenN S -> BitSpec.rank true (map (tb m) S) i = Some (r1 m S i).
Proof.
  intro H. unfold rank. rewrite lenN_map. destruct (N.leb_spec i (lenN S)) as [_|H1]; [|lia].
  rewrite firstn_map, count_true_map. reflexivity.
Qed.
Lemma rank_false_bits m S i : i <= lenN S -> BitSpec.rank false (map (tb m) S) i = Some (r0 m S i).
Proof.
  intro H. unfold rank. rewrite lenN_map. destruct (N.leb_spec i (lenN S)) as [_|H1]; [|lia].
  rewrite firstn_map, count_false_map. reflexivity.
Qed.
Lemma access_bits m S i : i < lenN S -> BitSpec.access (map (tb m) S) i = Some (tb m (nthN S i 0)).
Proof.
  intro H. unfold access. rewrite lenN_map. destruct (N.ltb_spec i (lenN S)) as [_|H1]; [|lia].
  rewrite nth_error_map, (nthN_nth_error S i 0 H). reflexivity.
Qed.
Lemma count_false_bits m S : count false (map (tb m) S) = nz m S.
Proof. apply count_false_map. Qed.

(* ---------- positions of the elements satisfying a predicate; selection ---------- *)
Fixpoint posf {A} (f : A -> bool) (l : list A) (o : N) : list N :=
  match l with
  | [] => []
  | x :: r => if f x then o :: posf f r (o + 1) else posf f r (o + 1)
  end.
Lemma positions_from_posf v b : forall o, positions_from v b o = posf (fun x => Bool.eqb x v) b o.
Proof. induction b as [|x b IH]; intro o; cbn [positions_from posf]; [reflexivity | rewrite IH; reflexivity]. Qed.
Lemma positions_of_from_posf v xs : forall o, positions_of_from v xs o = posf (fun x => x =? v) xs o.
Proof. induction xs as [|x b IH]; intro o; cbn [positions_of_from posf]; [reflexivity | rewrite IH; reflexivity]. Qed.
Lemma posf_map {A B} (f : B -> bool) (g : A -> B) l : forall o, posf f (map g l) o = posf (fun x => f (g x)) l o.
Proof. induction l as [|x l IH]; intro o; cbn [map posf]; [reflexivity | rewrite IH; reflexivity]. Qed.
Lemma posf_ext {A} (f g : A -> bool) l : (forall x, f x = g x) -> forall o, posf f l o = posf g l o.
Proof. intro H. induction l as [|x l IH]; intro o; cbn [posf]; [reflexivity | rewrite IH, H; reflexivity]. Qed.
Lemma posf_len {A} (f : A -> bool) l : forall o, lenN (posf f l o) = cntf f l.
Proof.
  unfold cntf. induction l as [|x l IH]; intro o; cbn [posf filter]; [reflexivity|].
  destruct (f x); rewrite ?lenN_cons, IH; reflexivity.
Qed.
Lemma posf_nth_nat {A} (f : A -> bool) d l : forall o k (i : nat), (i < length l)%nat ->
  f (nth i l d) = true -> cntf f (firstn i l) = k ->
  nth_error (posf f l o) (N.to_nat k) = Some (o + N.of_nat i).
Proof.
  induction l as [|x l IH]; intros o k i Hi Hf Hk; cbn [length] in Hi; [lia|].
  destruct i as [|i].
  - cbn [nth] in Hf. cbn [firstn] in Hk. subst k. cbn [posf]. rewrite Hf.
    change (N.to_nat (cntf f [])) with 0%nat. cbn [nth_error]. f_equal. lia.
  - cbn [nth] in Hf. cbn [firstn] in Hk. unfold cntf in Hk. cbn [filter] in Hk. cbn [posf].
    destruct (f x).
    + rewrite lenN_cons in Hk. subst k.
      replace (N.to_nat (lenN (filter f (firstn i l)) + 1)) with (Datatypes.S (N.to_nat (cntf f (firstn i l))))
        by (unfold cntf; lia).
      cbn [nth_error]. rewrite (IH (o + 1) _ i) by (try reflexivity; try assumption; lia). f_equal. lia.
    + rewrite (IH (o + 1) k i) by (try assumption; lia). f_equal. lia.
Qed.

Definition is_sel (f : N -> bool) (xs : list N) (p k r : N) : Prop :=
  p <= r /\ r < lenN xs /\ f (nthN xs r 0) = true /\ cntf f (sub_seq xs p r) = k.

Lemma posf_sel f xs k r : is_sel f xs 0 k r -> nth_error (posf f xs 0) (N.to_nat k) = Some r /\ k < cntf f xs.
Proof.
  intros [_ [Hr [Hf Hk]]]. rewrite sub_seq_0 in Hk. split.
  - rewrite (posf_nth_nat f 0 xs 0 k (N.to_nat r)); [f_equal; lia | unfold lenN in Hr; lia | exact Hf | exact Hk].
  - rewrite <- (sub_seq_all xs) at 1. rewrite (sub_seq_app xs 0 (r + 1) (lenN xs)) by lia.
    rewrite (sub_seq_snoc xs 0 r) by lia. rewrite sub_seq_0, !cntf_app, Hk.
    unfold cntf at 1. cbn [filter]. rewrite Hf. rewrite lenN_cons. lia.
Qed.

Lemma sel_dichotomy f xs p k : p <= lenN xs ->
  cntf f (sub_seq xs p (lenN xs)) <= k \/ exists r, is_sel f xs p k r.
Proof.
  intro Hp.
  assert (G : forall j : nat, p + N.of_nat j <= lenN xs ->
             cntf f (sub_seq xs p (p + N.of_nat j)) <= k \/ exists r, is_sel f xs p k r).
  { induction j as [|j IH]; intro Hj.
    - left. rewrite sub_seq_nil by lia. unfold cntf. cbn [filter]. rewrite lenN_nil. lia.
    - destruct IH as [IH|IH]; [lia | | right; exact IH].
      set (q := p + N.of_nat j) in *.
      replace (p + N.of_nat (Datatypes.S j)) with (q + 1) by lia.
      rewrite (sub_seq_snoc xs p q) by lia. rewrite cntf_app. unfold cntf at 2. cbn [filter].
      destruct (f (nthN xs q 0)) eqn:Ef.
      + destruct (N.eq_dec (cntf f (sub_seq xs p q)) k) as [E|E].
        * right. exists q. unfold is_sel. repeat split; try assumption; lia.
        * left. rewrite lenN_cons, lenN_nil. lia.
      + left. rewrite lenN_nil. lia. }
  specialize (G (N.to_nat (lenN xs - p))).
  replace (p + N.of_nat (N.to_nat (lenN xs - p))) with (lenN xs) in G by lia. apply G. lia.
Qed.

(* an occurrence at r makes the count over any range beyond r exceed k *)
Lemma is_sel_count f xs p k r q : is_sel f xs p k r -> r < q -> q <= lenN xs ->
  k + 1 <= cntf f (sub_seq xs p q).
Proof.
  intros [Hp [Hr [Hf Hk]]] Hq Hql.
  rewrite (sub_seq_app xs p (r + 1) q) by lia. rewrite (sub_seq_snoc xs p r) by lia.
  rewrite !cntf_app, Hk. unfold cntf at 1. cbn [filter]. rewrite Hf, lenN_cons. lia.
Qed.

Lemma wm_select_some v xs k r : is_sel (fun x => x =? v) xs 0 k r -> SeqSpec.wm_select xs k v = Some r.
Proof.
  intro H. destruct (posf_sel _ _ _ _ H) as [E Hk].
  unfold SeqSpec.wm_select, nth_opt. rewrite positions_of_from_posf, posf_len.
  destruct (N.ltb_spec k (cntf (fun x => x =? v) xs)) as [_|H1]; [exact E | lia].
Qed.
Lemma wm_select_none v xs k : cntf (fun x => x =? v) xs <= k -> SeqSpec.wm_select xs k v = None.
Proof.
  intro H. unfold SeqSpec.wm_select, nth_opt. rewrite positions_of_from_posf, posf_len.
  destruct (N.ltb_spec k (cntf (fun x => x =? v) xs)) as [H1|_]; [lia | reflexivity].
Qed.

Lemma select_true_posf m xs j :
  BitSpec.select true (map (tb m) xs) j =
  if j <? cntf (tb m) xs then nth_error (posf (tb m) xs 0) (N.to_nat j) else None.
Proof.
  unfold BitSpec.select, positions. rewrite positions_from_posf, posf_map.
  rewrite (posf_ext (fun x => Bool.eqb (tb m x) true) (tb m)) by (intro x; destruct (tb m x); reflexivity).
  rewrite posf_len. reflexivity.
Qed.
Lemma select_false_posf m xs j :
  BitSpec.select false (map (tb m) xs) j =
  if j <? nz m xs then nth_error (posf (ntb m) xs 0) (N.to_nat j) else None.
Proof.
  unfold BitSpec.select, positions. rewrite positions_from_posf, posf_map.
  rewrite (posf_ext (fun x => Bool.eqb (tb m x) false) (ntb m))
    by (intro x; unfold ntb; fold (tb m x); destruct (tb m x); reflexivity).
  rewrite posf_len. reflexivity.
Qed.
Lemma select_true_bits m xs r : r < lenN xs -> tb m (nthN xs r 0) = true ->
  BitSpec.select true (map (tb m) xs) (r1 m xs r) = Some r.
Proof.
  intros Hr Hf. rewrite select_true_posf.
  assert (H : is_sel (tb m) xs 0 (r1 m xs r) r).
  { unfold is_sel. rewrite sub_seq_0. repeat split; try assumption; lia. }
  destruct (posf_sel _ _ _ _ H) as [E Hk].
  destruct (N.ltb_spec (r1 m xs r) (cntf (tb m) xs)) as [_|H1]; [exact E | lia].
Qed.
Lemma select_false_bits m xs r : r < lenN xs -> ntb m (nthN xs r 0) = true ->
  BitSpec.select false (map (tb m) xs) (r0 m xs r) = Some r.
Proof.
  intros Hr Hf. rewrite select_false_posf.
  assert (H : is_sel (ntb m) xs 0 (r0 m xs r) r).
  { unfold is_sel. rewrite sub_seq_0. repeat split; try assumption; lia. }
  destruct (posf_sel _ _ _ _ H) as [E Hk]. fold (nz m xs) in Hk.
  destruct (N.ltb_spec (r0 m xs r) (nz m xs)) as [_|H1]; [exact E | lia].
Qed.
Lemma select_true_none m xs j : cntf (tb m) xs <= j -> BitSpec.select true (map (tb m) xs) j = None.
Proof.
  intro H. rewrite select_true_posf. destruct (N.ltb_spec j (cntf (tb m) xs)) as [H1|_]; [lia | reflexivity].
Qed.
Lemma select_false_none m xs j : nz m xs <= j -> BitSpec.select false (map (tb m) xs) j = None.
Proof.
  intro H. rewrite select_false_posf. destruct (N.ltb_spec j (nz m xs)) as [H1|_]; [lia | reflexivity].
Qed.
Lemma posf_range {A} (f : A -> bool) l : forall o r, In r (posf f l o) -> o <= r < o + lenN l.
Proof.
  induction l as [|x l IH]; intros o r H; cbn [posf] in H; [destruct H|].
  rewrite lenN_cons. destruct (f x).
  - destruct H as [H|H]; [lia | apply IH in H; lia].
  - apply IH in H. lia.
Qed.
Lemma select_true_lt m xs j r : BitSpec.select true (map (tb m) xs) j = Some r -> r < lenN xs.
Proof.
  rewrite select_true_posf. destruct (j <? cntf (tb m) xs); [|discriminate].
  intro H. apply nth_error_In, posf_range in H. lia.
Qed.
Lemma select_false_lt m xs j r : BitSpec.select false (map (tb m) xs) j = Some r -> r < lenN xs.
Proof.
  rewrite select_false_posf. destruct (j <? nz m xs); [|discriminate].
  intro H. apply nth_error_In, posf_range in H. lia.
Qed.
