(* Proofs/LoopsLib.v — proof support for the ties of gen/LoopsGen.v (functions with loops regenerated from the
   Rust source) to the hand-written models: list facts relating index arithmetic (`words[block]`) to the
   structural scans of the models ("the words after / below the current one"), small word facts, and the
   stepping tactics.  The loop combinators themselves (loopN, fold_res_brk, their unfolding and extensionality
   lemmas) are in Base/Loops.v because the generated code imports them. *)
From Sucds Require Import Base.Res Base.Loops Spec.WordSpec Model.BitVector Proofs.ResLemmas.
From Coq Require Import ZArith ZifyN ZifyBool ZifyNat Lia.
Open Scope N_scope.
Ltac Zify.zify_post_hook ::= Z.div_mod_to_equations.

(* ---------------------------------------------------------------------------------------------
   lists: the element at an index, the words after it, the words below it
   --------------------------------------------------------------------------------------------- *)
Lemma nthN_app_mid {A} (pre : list A) x post d : nthN (pre ++ x :: post) (lenN pre) d = x.
Proof. unfold nthN, lenN. rewrite Nat2N.id. now rewrite nth_middle. Qed.

Lemma idx_app_mid {A} (d : A) pre x post : idx d (pre ++ x :: post) (lenN pre) = Ok x.
Proof.
  rewrite idx_ok by (rewrite lenN_app, lenN_cons; lia). now rewrite nthN_app_mid.
Qed.

Lemma app_cons_assoc {A} (pre : list A) x post : pre ++ x :: post = (pre ++ [x]) ++ post.
Proof. now rewrite <- app_assoc. Qed.

Lemma lenN_snoc {A} (pre : list A) x : lenN (pre ++ [x]) = lenN pre + 1.
Proof. now rewrite lenN_app, lenN_cons, lenN_nil. Qed.

(* words = (the words up to and including `block`) ++ (the words after `block`) *)
Lemma split_after {A} (l : list A) (b : N) : b < lenN l ->
  l = firstn (S (N.to_nat b)) l ++ skipn (S (N.to_nat b)) l /\ lenN (firstn (S (N.to_nat b)) l) = b + 1.
Proof.
  intros H. split; [now rewrite firstn_skipn|]. rewrite lenN_firstn. unfold lenN in *. lia.
Qed.

Lemma lenN_skipn_le {A} (l : list A) n : lenN (skipn n l) <= lenN l.
Proof. rewrite lenN_skipn. lia. Qed.

(* the words below `block`, nearest first *)
Lemma rev_firstn_succ {A} (l : list A) (b : N) d : b < lenN l ->
  rev (firstn (N.to_nat (N.succ b)) l) = nthN l b d :: rev (firstn (N.to_nat b) l).
Proof.
  intros H. rewrite N2Nat.inj_succ. unfold nthN. unfold lenN in H.
  assert (Hb : (N.to_nat b < length l)%nat) by lia. clear H. revert Hb. generalize (N.to_nat b) as n.
  induction l as [|x r IH]; intros n Hn; [cbn in Hn; lia|].
  destruct n as [|n].
  - destruct r; reflexivity.
  - cbn [length] in Hn. change (firstn (S (S n)) (x :: r)) with (x :: firstn (S n) r).
    change (firstn (S n) (x :: r)) with (x :: firstn n r). cbn [rev nth].
    rewrite IH by lia. reflexivity.
Qed.

Lemma firstn_0_rev {A} (l : list A) : rev (firstn (N.to_nat 0) l) = [].
Proof. reflexivity. Qed.

(* ---------------------------------------------------------------------------------------------
   words
   --------------------------------------------------------------------------------------------- *)
(* `x as u32` in a shift amount of wrapping_shl: only the low six bits are used *)
Lemma land63_u32 s : N.land (s mod 4294967296) 63 = N.land s 63.
Proof.
  change 4294967296 with (2 ^ 32). change 63 with (N.ones 6).
  apply N.bits_inj; intro i. rewrite !N.land_spec.
  destruct (N.lt_ge_cases i 6) as [H|H].
  - rewrite N.mod_pow2_bits_low by lia. reflexivity.
  - rewrite N.ones_spec_high by lia. now rewrite !andb_false_r.
Qed.

Lemma wshl_u32 a s : wshl a (s mod 4294967296) = wshl a s.
Proof. unfold wshl. now rewrite land63_u32. Qed.

Lemma sub_64_1 c : sub c 64 1 = Ok 63.
Proof. reflexivity. Qed.

(* ---------------------------------------------------------------------------------------------
   res
   --------------------------------------------------------------------------------------------- *)
Lemma bind_ext {A B} (m : res A) (k1 k2 : A -> res B) : (forall a, k1 a = k2 a) -> bind m k1 = bind m k2.
Proof. intros H. destruct m; cbn [bind]; auto. Qed.

Lemma bind_Panic {A B} (k : A -> res B) : bind Panic k = Panic.
Proof. reflexivity. Qed.

(* ---------------------------------------------------------------------------------------------
   folds: the generated loop state is a tuple of the variables, the model's a record (or the same
   variables in another order); `for i in 0..v.len()` with `v[i]` against a fold over `v`
   --------------------------------------------------------------------------------------------- *)
Lemma rmap_Ok {A B} (f : A -> B) a : rmap f (Ok a) = Ok (f a).
Proof. reflexivity. Qed.

Lemma rmap_bind {A B C} (f : B -> C) (m : res A) (k : A -> res B) :
  rmap f (bind m k) = bind m (fun a => rmap f (k a)).
Proof. destruct m; reflexivity. Qed.

Lemma bind_rmap {A B C} (f : A -> B) (m : res A) (k : B -> res C) :
  bind (rmap f m) k = bind m (fun a => k (f a)).
Proof. destruct m; reflexivity. Qed.

(* the same fold on two representations of the state *)
Lemma fold_res_map {S T A} (phi : T -> S) (G : S -> A -> res S) (M : T -> A -> res T) l :
  (forall t x, G (phi t) x = rmap phi (M t x)) ->
  forall t, fold_res G l (phi t) = rmap phi (fold_res M l t).
Proof.
  intros H. induction l as [|x r IH]; intro t; [reflexivity|].
  cbn [fold_res]. rewrite H. destruct (M t x) as [t'|]; cbn [rmap bind]; [apply IH | reflexivity].
Qed.

Lemma nrange_0 n : nrange 0 n = nseq n.
Proof. unfold nrange, nseq. now rewrite N.sub_0_r. Qed.

Lemma nrange_self a : nrange a a = [].
Proof. apply nrange_empty. lia. Qed.

(* `for i in 0..l.len() { .. l[i] .. }` (G reads l at i itself) against a fold over the elements of l; I relates
   the elements consumed so far to the model state (e.g. "the counter is their number") *)
Lemma fold_nrange_inv {S T A} (phi : T -> S) (I : list A -> T -> Prop) (G : S -> N -> res S) (M : T -> A -> res T)
    (l : list A) :
  (forall pre x post t, l = pre ++ x :: post -> I pre t ->
     G (phi t) (lenN pre) = rmap phi (M t x) /\ (forall t', M t x = Ok t' -> I (pre ++ [x]) t')) ->
  forall rest pre t, l = pre ++ rest -> I pre t ->
  fold_res G (nrange (lenN pre) (lenN l)) (phi t) = rmap phi (fold_res M rest t) /\
  (forall t', fold_res M rest t = Ok t' -> I l t').
Proof.
  intros H. induction rest as [|x r IH]; intros pre t Hl Hi.
  - rewrite app_nil_r in Hl. subst pre. rewrite nrange_self. split; [reflexivity|]. now intros t' [= <-].
  - assert (Hlt : lenN pre < lenN l) by (subst l; rewrite lenN_app, lenN_cons; lia).
    rewrite nrange_cons by exact Hlt. cbn [fold_res].
    destruct (H pre x r t Hl Hi) as [HG Hix]. rewrite HG.
    destruct (M t x) as [t'|]; cbn [rmap bind]; [|split; [reflexivity | discriminate]].
    replace (N.succ (lenN pre)) with (lenN (pre ++ [x])) by (rewrite lenN_snoc; lia).
    apply IH; [now rewrite <- app_cons_assoc | now apply Hix].
Qed.

Lemma fold_nrange_inv0 {S T A} (phi : T -> S) (I : list A -> T -> Prop) (G : S -> N -> res S) (M : T -> A -> res T)
    (l : list A) t :
  (forall pre x post t, l = pre ++ x :: post -> I pre t ->
     G (phi t) (lenN pre) = rmap phi (M t x) /\ (forall t', M t x = Ok t' -> I (pre ++ [x]) t')) ->
  I [] t ->
  fold_res G (nrange 0 (lenN l)) (phi t) = rmap phi (fold_res M l t) /\
  (forall t', fold_res M l t = Ok t' -> I l t').
Proof. intros H Hi. now apply (fold_nrange_inv phi I G M l H l [] t). Qed.

(* the invariant "a counter of the model state is the number of elements consumed" *)
Lemma fold_nrange_sim0 {S T A} (phi : T -> S) (ix : T -> N) (G : S -> N -> res S) (M : T -> A -> res T)
    (l : list A) t :
  (forall pre x post t, l = pre ++ x :: post -> ix t = lenN pre ->
     G (phi t) (lenN pre) = rmap phi (M t x) /\ (forall t', M t x = Ok t' -> ix t' = lenN pre + 1)) ->
  ix t = 0 ->
  fold_res G (nrange 0 (lenN l)) (phi t) = rmap phi (fold_res M l t).
Proof.
  intros H Hi. apply (fold_nrange_inv0 phi (fun pre t => ix t = lenN pre) G M l t); [|exact Hi].
  intros pre x post t0 Hl Hi0. destruct (H pre x post t0 Hl Hi0) as [HG Hix]. split; [exact HG|].
  intros t' Ht. rewrite lenN_snoc. now apply Hix.
Qed.

(* `for &x in v.iter() { acc.push(x) }` *)
Lemma fold_push {A} (l acc : list A) : fold_res (fun acc x => Ok (acc ++ [x])) l acc = Ok (acc ++ l).
Proof.
  revert acc; induction l as [|x r IH]; intro acc; cbn [fold_res bind]; [now rewrite app_nil_r|].
  rewrite IH. now rewrite <- app_assoc.
Qed.

(* `for _ in it { acc.push(v) }` *)
Lemma fold_push_const {A B} (v : A) (l : list B) acc :
  fold_res (fun acc _ => Ok (acc ++ [v])) l acc = Ok (acc ++ map (fun _ => v) l).
Proof.
  revert acc; induction l as [|x r IH]; intro acc; cbn [fold_res bind map]; [now rewrite app_nil_r|].
  rewrite IH. now rewrite <- app_assoc.
Qed.

(* ---------------------------------------------------------------------------------------------
   loopN W against the bounded fuel of a model loop: a loop that provably ends within n further iterations
   (P n) gives the same result under every sufficient bound
   --------------------------------------------------------------------------------------------- *)
Lemma loopN_fuel {S R} (step : S -> res (S + R)) (P : nat -> S -> Prop) :
  (forall s s', P 0%nat s -> step s = Ok (inl s') -> False) ->
  (forall n s s', P (Datatypes.S n) s -> step s = Ok (inl s') -> P n s') ->
  forall n s fuel m, P n s -> (n < fuel)%nat -> N.of_nat n < m -> loopN m step s = iter_fuel fuel step s.
Proof.
  intros H0 HS. induction n as [|n IH]; intros s fuel m HP Hf Hm.
  - destruct fuel as [|fuel]; [lia|]. rewrite loopN_step by lia. cbn [iter_fuel].
    destruct (step s) as [[s'|r]|] eqn:E; cbn [bind]; try reflexivity. exfalso. eapply H0; eauto.
  - destruct fuel as [|fuel]; [lia|]. rewrite loopN_step by lia. cbn [iter_fuel].
    destruct (step s) as [[s'|r]|] eqn:E; cbn [bind]; try reflexivity.
    apply IH; [eapply HS; eauto | lia | lia].
Qed.

(* a loop whose exits carry more than the model's (the generated code leaves with the whole state) *)
Definition exit_map {S R R'} (f : R -> R') (o : S + R) : S + R' :=
  match o with inl s => inl s | inr r => inr (f r) end.

Lemma loopN_map {S R R'} (f : R -> R') (s1 : S -> res (S + R)) (s2 : S -> res (S + R')) :
  (forall s, s2 s = rmap (exit_map f) (s1 s)) ->
  forall n s, loopN n s2 s = rmap f (loopN n s1 s).
Proof.
  intros H n. induction n as [|n IH] using N.peano_ind; intro s; [reflexivity|].
  rewrite !loopN_step by lia. rewrite H. replace (N.succ n - 1) with n by lia.
  destruct (s1 s) as [[s'|r]|]; cbn [rmap exit_map]; auto.
Qed.

Lemma add_lt_W c a b r : add c a b = Ok r -> r < W.
Proof.
  unfold add. destruct (N.ltb_spec (a + b) W); [intros [= <-]; assumption|].
  destruct (dbg c); [discriminate|]. intros [= <-]. apply wrap_lt.
Qed.

Lemma sub_lt_W c a b r : a < W -> sub c a b = Ok r -> r < W.
Proof.
  unfold sub. intros Ha. destruct (N.leb_spec b a); [intros [= <-]; lia|].
  destruct (dbg c); [discriminate|]. intros [= <-]. apply wrap_lt.
Qed.

(* two loops in lockstep on related states; the continuations agree on related exits *)
Lemma loopN_sim_bind {S1 R1 S2 R2 T} (RS : S1 -> S2 -> Prop) (RR : R1 -> R2 -> Prop)
    (step1 : S1 -> res (S1 + R1)) (step2 : S2 -> res (S2 + R2)) (K1 : R1 -> res T) (K2 : R2 -> res T) :
  (forall s1 s2, RS s1 s2 ->
     match step1 s1, step2 s2 with
     | Ok (inl a), Ok (inl b) => RS a b
     | Ok (inr a), Ok (inr b) => RR a b
     | Panic, Panic => True
     | _, _ => False
     end) ->
  (forall r1 r2, RR r1 r2 -> K1 r1 = K2 r2) ->
  forall n s1 s2, RS s1 s2 -> bind (loopN n step1 s1) K1 = bind (loopN n step2 s2) K2.
Proof.
  intros Hs HK n. induction n as [|n IH] using N.peano_ind; intros s1 s2 HR; [reflexivity|].
  rewrite !loopN_step by lia. replace (N.succ n - 1) with n by lia.
  specialize (Hs s1 s2 HR). destruct (step1 s1) as [[a|a]|], (step2 s2) as [[b|b]|]; try contradiction.
  - now apply IH.
  - cbn [bind]. now apply HK.
  - reflexivity.
Qed.

(* loop invariant *)
Lemma loopN_inv {S R} (step : S -> res (S + R)) (I : S -> Prop) (Q : R -> Prop) :
  (forall s, I s -> match step s with Ok (inl s') => I s' | Ok (inr r) => Q r | Panic => True end) ->
  forall n s r, I s -> loopN n step s = Ok r -> Q r.
Proof.
  intros H n. induction n as [|n IH] using N.peano_ind; intros s r Hi E; [discriminate|].
  rewrite loopN_step in E by lia. replace (N.succ n - 1) with n in E by lia.
  specialize (H s Hi). destruct (step s) as [[s'|r']|]; [now apply (IH s') | now injection E as <- | discriminate].
Qed.

Lemma shr_le c a s r : shr c a s = Ok r -> r <= a.
Proof.
  assert (H : forall k, N.shiftr a k <= a).
  { intro k. rewrite N.shiftr_div_pow2. apply N.div_le_upper_bound; [apply N.pow_nonzero; discriminate|].
    assert (0 < 2 ^ k) by (apply N.neq_0_lt_0, N.pow_nonzero; discriminate). nia. }
  unfold shr. destruct (s <? 64); [intros [= <-]; apply H|]. destruct (dbg c); [discriminate|]. intros [= <-]. apply H.
Qed.

(* ---------------------------------------------------------------------------------------------
   added for Proofs/LoopsTieSeq.v
   --------------------------------------------------------------------------------------------- *)
(* the same loop on two representations of the state (the generated tuple orders the variables alphabetically) and
   of the exit value *)
Definition step_conj {S1 S2 R1 R2} (phi : S1 -> S2) (f : R1 -> R2) (o : S1 + R1) : S2 + R2 :=
  match o with inl s => inl (phi s) | inr r => inr (f r) end.

Lemma loopN_conj {S1 S2 R1 R2} (phi : S1 -> S2) (f : R1 -> R2)
    (step1 : S1 -> res (S1 + R1)) (step2 : S2 -> res (S2 + R2)) :
  (forall s, step2 (phi s) = rmap (step_conj phi f) (step1 s)) ->
  forall n s, loopN n step2 (phi s) = rmap f (loopN n step1 s).
Proof.
  intros H n. induction n as [|n IH] using N.peano_ind; intro s; [reflexivity|].
  rewrite !loopN_step by lia. rewrite H. replace (N.succ n - 1) with n by lia.
  destruct (step1 s) as [[s'|r]|]; cbn [rmap step_conj bind]; auto.
Qed.

Lemma iter_fuel_mono {S R} (step : S -> res (S + R)) r : forall f g s,
  iter_fuel f step s = Ok r -> (f <= g)%nat -> iter_fuel g step s = Ok r.
Proof.
  induction f as [|f IH]; intros g s E Hg; [discriminate|].
  destruct g as [|g]; [lia|]. cbn [iter_fuel] in *.
  destruct (step s) as [[s'|v]|]; cbn [bind] in *; [apply IH; [exact E | lia] | exact E | discriminate].
Qed.

(* a model loop on fuel that returned a value, against `loopN m` when some measure bounds the number of iterations *)
Lemma loopN_of_iter_fuel {S R} (step : S -> res (S + R)) (P : nat -> S -> Prop) :
  (forall s s', P 0%nat s -> step s = Ok (inl s') -> False) ->
  (forall n s s', P (Datatypes.S n) s -> step s = Ok (inl s') -> P n s') ->
  forall n s fuel m r, P n s -> N.of_nat n < m -> iter_fuel fuel step s = Ok r -> loopN m step s = Ok r.
Proof.
  intros H0 HS n s fuel m r HP Hm E.
  rewrite (loopN_fuel step P H0 HS n s (Nat.max fuel (Datatypes.S n)) m HP) by lia.
  apply (iter_fuel_mono step r fuel); [exact E | lia].
Qed.

(* a model loop on fuel that returned a value, against `loopN m` with m at least the fuel *)
Lemma loopN_of_iter_fuel_le {S R} (step : S -> res (S + R)) r : forall fuel s m,
  iter_fuel fuel step s = Ok r -> N.of_nat fuel <= m -> loopN m step s = Ok r.
Proof.
  induction fuel as [|f IH]; intros s m E Hm; [discriminate|].
  rewrite loopN_step by lia. cbn [iter_fuel] in E.
  destruct (step s) as [[s'|v]|]; cbn [bind] in E; [apply IH; [exact E | lia] | exact E | discriminate].
Qed.

Lemma rmap_rmap {A B C} (f : A -> B) (g : B -> C) (m : res A) : rmap g (rmap f m) = rmap (fun a => g (f a)) m.
Proof. destruct m; reflexivity. Qed.

Lemma rmap_id {A} (m : res A) : rmap (fun a => a) m = m.
Proof. destruct m; reflexivity. Qed.
