(* Proofs/LoopsLib.v — proof support for the ties of gen/LoopsGen.v (functions with loops regenerated from the
   Rust source) to the hand-written models: list facts relating index arithmetic (`words[block]`) to the
   structural scans of the models ("the words after / below the current one"), small word facts, and the
   stepping tactics.  The loop combinators themselves (loopN, fold_res_brk, their unfolding and extensionality
   lemmas) are in Base/Loops.v because the generated code imports them. *)
From Sucds Require Import Base.Res Base.Loops Spec.WordSpec Model.BitVector Proofs.ResLemmas.
From Coq Require Import ZArith ZifyN ZifyBool ZifyNat Lia.
Open Scope N_scope.
Ltac Zify.zify_post_hook ::= Z.div_mod_to_equations.

(* ---------------------------------------------------------------------------------------------
   lists: the element at an index, the words after it, the words below it
   --------------------------------------------------------------------------------------------- *)
Lemma nthN_app_mid {A} (pre : list A) x post d : nthN (pre ++ x :: post) (lenN pre) d = x.
Proof. unfold nthN, lenN. rewrite Nat2N.id. now rewrite nth_middle. Qed.

Lemma idx_app_mid {A} (d : A) pre x post : idx d (pre ++ x :: post) (lenN pre) = Ok x.
Proof.
  rewrite idx_ok by (rewrite lenN_app, lenN_cons; lia). now rewrite nthN_app_mid.
Qed.

Lemma app_cons_assoc {A} (pre : list A) x post : pre ++ x :: post = (pre ++ [x]) ++ post.
Proof. now rewrite <- app_assoc. Qed.

Lemma lenN_snoc {A} (pre : list A) x : lenN (pre ++ [x]) = lenN pre + 1.
Proof. now rewrite lenN_app, lenN_cons, lenN_nil. Qed.

(* words = (the words up to and including `block`) ++ (the words after `block`) *)
Lemma split_after {A} (l : list A) (b : N) : b < lenN l ->
  l = firstn (S (N.to_nat b)) l ++ skipn (S (N.to_nat b)) l /\ lenN (firstn (S (N.to_nat b)) l) = b + 1.
Proof.
  intros H. split; [now rewrite firstn_skipn|]. rewrite lenN_firstn. unfold lenN in *. lia.
Qed.

Lemma lenN_skipn_le {A} (l : list A) n : lenN (skipn n l) <= lenN l.
Proof. rewrite lenN_skipn. lia. Qed.

(* the words below `block`, nearest first *)
Lemma rev_firstn_succ {A} (l : list A) (b : N) d : b < lenN l ->
  rev (firstn (N.to_nat (N.succ b)) l) = nthN l b d :: rev (firstn (N.to_nat b) l).
Proof.
  intros H. rewrite N2Nat.inj_succ. unfold nthN. unfold lenN in H.
  assert (Hb : (N.to_nat b < length l)%nat) by lia. clear H. revert Hb. generalize (N.to_nat b) as n.
  induction l as [|x r IH]; intros n Hn; [cbn in Hn; lia|].
  destruct n as [|n].
  - destruct r; reflexivity.
  - cbn [length] in Hn. change (firstn (S (S n)) (x :: r)) with (x :: firstn (S n) r).
    change (firstn (S n) (x :: r)) with (x :: firstn n r). cbn [rev nth].
    rewrite IH by lia. reflexivity.
Qed.

Lemma firstn_0_rev {A} (l : list A) : rev (firstn (N.to_nat 0) l) = [].
Proof. reflexivity. Qed.

(* ---------------------------------------------------------------------------------------------
   words
   --------------------------------------------------------------------------------------------- *)
(* `x as u32` in a shift amount of wrapping_shl: only the low six bits are used *)
Lemma land63_u32 s : N.land (s mod 4294967296) 63 = N.land s 63.
Proof.
  change 4294967296 with (2 ^ 32). change 63 with (N.ones 6).
  apply N.bits_inj; intro i. rewrite !N.land_spec.
  destruct (N.lt_ge_cases i 6) as [H|H].
  - rewrite N.mod_pow2_bits_low by lia. reflexivity.
  - rewrite N.ones_spec_high by lia. now rewrite !andb_false_r.
Qed.

Lemma wshl_u32 a s : wshl a (s mod 4294967296) = wshl a s.
Proof. unfold wshl. now rewrite land63_u32. Qed.

Lemma sub_64_1 c : sub c 64 1 = Ok 63.
Proof. reflexivity. Qed.

(* ---------------------------------------------------------------------------------------------
   res
   --------------------------------------------------------------------------------------------- *)
Lemma bind_ext {A B} (m : res A) (k1 k2 : A -> res B) : (forall a, k1 a = k2 a) -> bind m k1 = bind m k2.
Proof. intros H. destruct m; cbn [bind]; auto. Qed.

Lemma bind_Panic {A B} (k : A -> res B) : bind Panic k = Panic.
Proof. reflexivity. Qed.
