(* Proofs/EndToEnd.v — capstone: the property theorems restated DIRECTLY ABOUT THE CODE REGENERATED FROM THE
   RUST SOURCE (gen/MethodsGen.v, gen/LoopsGen.v, gen/BroadwordGen.v; rewritten by tools/translate.py on every run).

   Every theorem `e2e_<structure>_<function>` below (pinned as `E2E_...` in Props/E2E.v) composes
     (i)  a tie lemma (Proofs/MethodsTie.v, LoopsTieBV/Idx/Seq/DW.v):  generated function = hand-written model
          function, possibly under record-range side conditions (`lenN (bv_words bv) < W`, usize hint entries,
          `bv_range`, `ef_search_ok`, `backing_range`, ...) or in the form "model = Ok r -> generated = Ok r", and
     (ii) the property theorem about the model (the ones pinned in Props/C01 .. C19),
   and DISCHARGES the side conditions of (i) from the well-formedness / capacity hypotheses of (ii) through the
   bridging lemmas proved here:
     wf + cap_ok                    -> bv_len < 2^64, number of words < 2^58, bv_range             (section 1, 3)
     the built Rank9 index r9_spec  -> |block_rank_pairs| < 2^64, hint entries are block numbers    (section 2)
     the built DArray index da_pure -> isize block inventory, |overflow| < 2^63, overflow entries are positions
                                                                                                  (sections 3, 4)
     ef_rep e xs u                  -> bv_range of the high bits, ef_search_ok, select1 results + 64 < 2^64
     enable_rank / from_bits values -> ef_s0_range / sa_s0_range (usize select0 overflow table)    (sections 4, 5)
     efb_inv                        -> high part of the builder below 2^56 bits                    (section 4)
     n + sum + 3 < 2^56             -> the Elias-Fano capacity inequalities                        (section 8)
     every layer of a built matrix  -> backing_range, at most 64 layers                            (section 9)
   Where the tie has the weaker form, the property theorem supplies `model = Ok r`.

   Convention of the generated code: functions of gen/LoopsGen.v call generated callees throughout; a loop-free
   wrapper of gen/MethodsGen.v that calls into another module calls the hand model of that callee, which is
   regenerated and tied separately (and has its own theorem here, e.g. e2e_darray_index for DArray.da_select). *)
From Sucds Require Import Base.Res Base.Loops Spec.WordSpec Spec.BitSpec Spec.SeqSpec
  Model.BitVector gen.MethodsGen gen.LoopsGen
  Proofs.ResLemmas Proofs.BVAbs Proofs.BVMutLemmas Proofs.BVReads Proofs.BVReads2 Proofs.BVMut Proofs.BVHistory
  Proofs.MethodsTie Proofs.LoopsTieBV.
From Sucds Require Import Model.Unary.
From Sucds Require Proofs.UnaryIter Proofs.UnarySkip.
From Sucds Require Import Model.Rank9 Model.DArray Proofs.IndexSpecs
  Proofs.R9Build Proofs.R9Rank Proofs.R9Hints Proofs.R9Main Proofs.LoopsTieIdx
  Proofs.DABuild Proofs.DASelect Proofs.DAMain Proofs.Integration.
From Sucds Require Import Spec.DacSpec Model.CompactVector Proofs.CVRep Proofs.CVOps Proofs.CVHistory Proofs.LoopsTieSeq.
From Sucds Require Import Model.Unary Model.EliasFano Proofs.EFRep Proofs.EFQueries Proofs.EFIter Proofs.EFBuilder.
From Sucds Require Import Model.SArray Model.Psef Proofs.SALemmas Proofs.SAMain Proofs.PSMain Proofs.Integration2.
From Sucds Require Import Model.Dacs Model.Wavelet Proofs.IterGeneric Proofs.DacsLevels Proofs.DacsByteMain Proofs.DacsOptMain Proofs.LoopsTieDW.
From Sucds Require Import Proofs.WMLists Proofs.WMBuild Proofs.WMQueries Proofs.WMQuantile Proofs.WMIntersect.
From Sucds Require gen.BroadwordGen Proofs.C14_Popcount Proofs.C14_Lsb Proofs.C14_Msb Proofs.C14_Select.
From Coq Require Import ZArith ZifyN ZifyBool ZifyNat Lia.
Ltac Zify.zify_post_hook ::= Z.div_mod_to_equations.
Open Scope N_scope.

(* =============================================================================================
   1. BitVector
   ============================================================================================= *)

(* the record-range side conditions of the BitVector ties, from wf + capacity *)
Lemma wf_cap_len_W bv : cap_ok bv -> bv_len bv < W.
Proof. unfold cap_ok. change (2 ^ 56) with 72057594037927936. unfold W. lia. Qed.

Lemma wf_cap_words_W bv : wf bv -> cap_ok bv -> lenN (bv_words bv) < W.
Proof.
  intros [Hl _] Hc. rewrite Hl. unfold cap_ok in Hc. change (2 ^ 56) with 72057594037927936 in Hc.
  unfold W. lia.
Qed.

Lemma wf_cap_words_58 bv : wf bv -> cap_ok bv -> lenN (bv_words bv) < 2 ^ 58.
Proof.
  intros [Hl _] Hc. rewrite Hl. unfold cap_ok in Hc. change (2 ^ 56) with 72057594037927936 in Hc.
  change (2 ^ 58) with 288230376151711744. lia.
Qed.

Theorem e2e_bit_vector_get_bit : forall c bv pos, wf bv -> cap_ok bv -> pos < W ->
  bit_vector_get_bit c bv pos = Ok (BitSpec.access (bits_of bv) pos).
Proof. intros. rewrite tie_bit_vector_get_bit. now apply get_bit_spec. Qed.

Theorem e2e_bit_vector_access : forall c bv pos, wf bv -> cap_ok bv -> pos < W ->
  bit_vector_access c bv pos = Ok (BitSpec.access (bits_of bv) pos).
Proof. intros. rewrite tie_bit_vector_access. unfold BitVector.access. now apply get_bit_spec. Qed.

Theorem e2e_bit_vector_get_bits : forall c bv pos len, wf bv -> cap_ok bv -> pos < W -> len < W ->
  bit_vector_get_bits c bv pos len = Ok (BitSpec.get_bits (bits_of bv) pos len).
Proof. intros. rewrite tie_bit_vector_get_bits by now apply wf_cap_len_W. now apply get_bits_spec. Qed.

Theorem e2e_bit_vector_get_word64 : forall c bv pos, wf bv -> cap_ok bv -> pos < W ->
  bit_vector_get_word64 c bv pos = Ok (BitSpec.get_word64 (bits_of bv) pos).
Proof. intros. rewrite tie_bit_vector_get_word64 by now apply wf_cap_len_W. now apply get_word64_spec. Qed.

Theorem e2e_bit_vector_rank1 : forall c bv pos, wf bv -> cap_ok bv -> pos < W ->
  bit_vector_rank1 c bv pos = Ok (BitSpec.rank true (bits_of bv) pos).
Proof. intros. rewrite tie_bit_vector_rank1. now apply rank1_spec. Qed.

Theorem e2e_bit_vector_rank0 : forall c bv pos, wf bv -> cap_ok bv -> pos < W ->
  bit_vector_rank0 c bv pos = Ok (BitSpec.rank false (bits_of bv) pos).
Proof. intros. rewrite tie_bit_vector_rank0. now apply rank0_spec. Qed.

Theorem e2e_bit_vector_num_ones : forall c bv, wf bv -> cap_ok bv ->
  bit_vector_num_ones c bv = Ok (BitSpec.count true (bits_of bv)).
Proof. intros. rewrite tie_bit_vector_num_ones. now apply num_ones_spec. Qed.

Theorem e2e_bit_vector_select1 : forall c bv k, wf bv -> cap_ok bv -> k < W ->
  bit_vector_select1 c bv k = Ok (BitSpec.select true (bits_of bv) k).
Proof. intros. rewrite tie_bit_vector_select1 by now apply wf_cap_words_W. now apply select1_spec. Qed.

Theorem e2e_bit_vector_select0 : forall c bv k, wf bv -> cap_ok bv -> k < W ->
  bit_vector_select0 c bv k = Ok (BitSpec.select false (bits_of bv) k).
Proof. intros. rewrite tie_bit_vector_select0 by now apply wf_cap_words_W. now apply select0_spec. Qed.

Theorem e2e_bit_vector_predecessor1 : forall c bv pos, wf bv -> cap_ok bv -> pos < W ->
  bit_vector_predecessor1 c bv pos = Ok (BitSpec.pred true (bits_of bv) pos).
Proof.
  intros. rewrite tie_bit_vector_predecessor1 by now apply wf_cap_words_W.
  unfold BitVector.predecessor1. now apply (predecessor_spec c false).
Qed.

Theorem e2e_bit_vector_predecessor0 : forall c bv pos, wf bv -> cap_ok bv -> pos < W ->
  bit_vector_predecessor0 c bv pos = Ok (BitSpec.pred false (bits_of bv) pos).
Proof.
  intros. rewrite tie_bit_vector_predecessor0 by now apply wf_cap_words_W.
  unfold BitVector.predecessor0. now apply (predecessor_spec c true).
Qed.

Theorem e2e_bit_vector_successor1 : forall c bv pos, wf bv -> cap_ok bv -> pos < W ->
  bit_vector_successor1 c bv pos = Ok (BitSpec.succ true (bits_of bv) pos).
Proof.
  intros. rewrite tie_bit_vector_successor1 by now apply wf_cap_words_W.
  unfold BitVector.successor1. now apply (successor_spec c false).
Qed.

Theorem e2e_bit_vector_successor0 : forall c bv pos, wf bv -> cap_ok bv -> pos < W ->
  bit_vector_successor0 c bv pos = Ok (BitSpec.succ false (bits_of bv) pos).
Proof.
  intros. rewrite tie_bit_vector_successor0 by now apply wf_cap_words_W.
  unfold BitVector.successor0. now apply (successor_spec c true).
Qed.

(* constructors *)
Theorem e2e_bit_vector_from_bits : forall c l, lenN l < 2 ^ 56 ->
  exists bv, bit_vector_from_bits c l = Ok bv /\ wf bv /\ bits_of bv = l.
Proof. intros. rewrite tie_bit_vector_from_bits. now apply from_bits_spec. Qed.

Theorem e2e_bit_vector_from_bit : forall c b len, len < 2 ^ 56 ->
  exists bv, bit_vector_from_bit c b len = Ok bv /\ wf bv /\ bits_of bv = repeat b (N.to_nat len).
Proof. intros. rewrite tie_bit_vector_from_bit. now apply from_bit_spec. Qed.

Theorem e2e_bit_vector_extend : forall c bv l, wf bv -> bv_len bv + lenN l < 2 ^ 56 ->
  exists bv', bit_vector_extend c bv l = Ok bv' /\ wf bv' /\ bits_of bv' = bits_of bv ++ l.
Proof. intros. rewrite tie_bit_vector_extend. now apply extend_spec. Qed.

(* mutators *)
Theorem e2e_bit_vector_push_bit : forall c bv b, wf bv -> bv_len bv + 1 < 2 ^ 56 ->
  exists bv', bit_vector_push_bit c bv b = Ok bv' /\ wf bv' /\ bits_of bv' = bits_of bv ++ [b].
Proof. intros. rewrite tie_bit_vector_push_bit. now apply push_bit_spec. Qed.

Theorem e2e_bit_vector_set_bit : forall c bv pos b, wf bv ->
  op_post bv (OSetBit pos b) (bit_vector_set_bit c bv pos b).
Proof. intros. rewrite tie_bit_vector_set_bit. now apply set_bit_spec. Qed.

Theorem e2e_bit_vector_push_bits : forall c bv bits len, wf bv ->
  lenN (fst (apply_op (bits_of bv) (OPushBits bits len))) < 2 ^ 56 ->
  op_post bv (OPushBits bits len) (bit_vector_push_bits c bv bits len).
Proof. intros. rewrite tie_bit_vector_push_bits. now apply push_bits_spec. Qed.

Theorem e2e_bit_vector_set_bits : forall c bv pos bits len, wf bv -> cap_ok bv ->
  op_post bv (OSetBits pos bits len) (bit_vector_set_bits c bv pos bits len).
Proof.
  intros. rewrite tie_bit_vector_set_bits by now apply wf_cap_len_W. now apply set_bits_spec.
Qed.


(* ---- C07 about the generated code: any history of the 7 constructors / mutators ---- *)
Definition gen_bv_apply (c : cfg) (bv : bitvec) (o : bvop) : res (bitvec * bool) :=
  match o with
  | OFromBit b len => r <- bit_vector_from_bit c b len ;; Ok (r, true)
  | OFromBits l => r <- bit_vector_from_bits c l ;; Ok (r, true)
  | OPushBit b => r <- bit_vector_push_bit c bv b ;; Ok (r, true)
  | OPushBits bits len => bit_vector_push_bits c bv bits len
  | OSetBit pos b => bit_vector_set_bit c bv pos b
  | OSetBits pos bits len => bit_vector_set_bits c bv pos bits len
  | OExtend l => r <- bit_vector_extend c bv l ;; Ok (r, true)
  end.

Fixpoint gen_bv_run (c : cfg) (bv : bitvec) (ops : list bvop) : res (bitvec * list bool) :=
  match ops with
  | [] => Ok (bv, [])
  | o :: r => x <- gen_bv_apply c bv o ;; y <- gen_bv_run c (fst x) r ;; Ok (fst y, snd x :: snd y)
  end.

Lemma gen_bv_apply_tie c bv o : bv_len bv < W -> gen_bv_apply c bv o = apply_model c bv o.
Proof.
  intro Hl. destruct o; cbn [gen_bv_apply apply_model].
  - rewrite tie_bit_vector_from_bit. reflexivity.
  - rewrite tie_bit_vector_from_bits. reflexivity.
  - rewrite tie_bit_vector_push_bit. reflexivity.
  - apply tie_bit_vector_push_bits.
  - apply tie_bit_vector_set_bit.
  - apply tie_bit_vector_set_bits. exact Hl.
  - rewrite tie_bit_vector_extend. reflexivity.
Qed.

Lemma gen_bv_run_tie c : forall ops bv, wf bv -> cap_ok bv -> ops_ok (bits_of bv) ops ->
  gen_bv_run c bv ops = run_model c bv ops.
Proof.
  induction ops as [|o r IH]; intros bv Hwf Hcap Hok; [reflexivity|].
  destruct Hok as [Ho Hr]. cbn [gen_bv_run run_model].
  rewrite (gen_bv_apply_tie c bv o (wf_cap_len_W bv Hcap)).
  destruct (apply_model_spec c bv o Hwf Ho) as [bv1 [ok [E [Hwf1 [Hb1 _]]]]].
  rewrite E. cbn [bind fst snd]. rewrite IH; [reflexivity | exact Hwf1 | | rewrite Hb1; exact Hr].
  unfold cap_ok. rewrite <- (bits_of_length bv1 Hwf1), Hb1. apply Ho.
Qed.

Theorem e2e_bit_vector_history : forall c ops, ops_ok [] ops ->
  exists bv0 bv, bit_vector_new c = Ok bv0 /\
    gen_bv_run c bv0 ops = Ok (bv, snd (run_ops [] ops)) /\ wf bv /\ bits_of bv = fst (run_ops [] ops).
Proof.
  intros c ops Hok. destruct (history_spec c ops Hok) as (bv & E & Hwf & Hb).
  exists bv_empty, bv. split; [apply tie_bit_vector_new|]. split; [|split; [exact Hwf | exact Hb]].
  rewrite gen_bv_run_tie; [exact E | exact wf_empty | | exact Hok].
  unfold cap_ok. vm_compute. reflexivity.
Qed.

(* the iterator: one call of next() at any position *)
Theorem e2e_bit_vector_iter_next : forall c bv pos, wf bv -> cap_ok bv -> pos < W ->
  bit_vector_iter_next c {| it_bv := bv; it_pos := pos |} =
  Ok (if pos <? bv_len bv then ({| it_bv := bv; it_pos := pos + 1 |}, BitSpec.access (bits_of bv) pos)
      else ({| it_bv := bv; it_pos := pos |}, None)).
Proof.
  intros c bv pos Hwf Hcap Hp. rewrite tie_bit_vector_iter_next. cbn [it_bv it_pos].
  rewrite iter_next_spec by assumption. destruct (pos <? bv_len bv); reflexivity.
Qed.

(* ---- UnaryIter (C17): unary_iter(p), skip1 / skip0, next as regenerated ---- *)
Theorem e2e_bit_vector_unary_iter : forall c bv p,
  bit_vector_unary_iter c bv p = Ok (of_u bv (unary_new bv p)) /\
  unary_iter_new c bv p = Ok (of_u bv (unary_new bv p)) /\
  unary_iter_position c (of_u bv (unary_new bv p)) = Ok p.
Proof.
  intros c bv p. split; [apply tie_bit_vector_unary_iter | split; [apply tie_unary_iter_new|]].
  rewrite tie_unary_iter_position. reflexivity.
Qed.

Theorem e2e_unary_iter_skip1 : forall c bv cur k,
  wf bv -> cap_ok bv -> cur <= bv_len bv -> k < W ->
  unary_iter_skip1 c (of_u bv (unary_new bv cur)) k =
  Ok (match nth_opt (filter (fun p => cur <=? p) (positions true (bits_of bv))) k with
      | Some q => (of_u bv (unary_new bv q), Some q)
      | None => (of_u bv (unary_new bv cur), None)
      end).
Proof.
  intros c bv cur k Hwf Hcap Hcur Hk.
  rewrite tie_unary_iter_skip1.
  - cbn [ui_bv of_u]. replace (to_u (of_u bv (unary_new bv cur))) with (unary_new bv cur) by reflexivity.
    rewrite UnarySkip.skip1_spec by assumption. unfold lift_u.
    destruct (nth_opt _ k); reflexivity.
  - cbn [ui_bv of_u]. now apply wf_cap_words_58.
  - cbn [ui_pos of_u unary_new u_pos]. unfold cap_ok in Hcap. change (2 ^ 56) with 72057594037927936 in Hcap.
    unfold W. lia.
Qed.

Theorem e2e_unary_iter_skip0 : forall c bv cur k,
  wf bv -> cap_ok bv -> cur <= bv_len bv -> k < W ->
  unary_iter_skip0 c (of_u bv (unary_new bv cur)) k =
  Ok (match nth_opt (filter (fun p => cur <=? p) (positions false (bits_of bv))) k with
      | Some q => (of_u bv (unary_new bv q), Some q)
      | None => (of_u bv (unary_new bv cur), None)
      end).
Proof.
  intros c bv cur k Hwf Hcap Hcur Hk.
  rewrite tie_unary_iter_skip0.
  - cbn [ui_bv of_u]. replace (to_u (of_u bv (unary_new bv cur))) with (unary_new bv cur) by reflexivity.
    rewrite UnarySkip.skip0_spec by assumption. unfold lift_u.
    destruct (nth_opt _ k); reflexivity.
  - cbn [ui_bv of_u]. now apply wf_cap_words_58.
  - cbn [ui_pos of_u unary_new u_pos]. unfold cap_ok in Hcap. change (2 ^ 56) with 72057594037927936 in Hcap.
    unfold W. lia.
Qed.

(* one next() from any iterator state representing cursor `cur` (in particular unary_iter(cur)) *)
Theorem e2e_unary_iter_next : forall c bv it cur,
  wf bv -> cap_ok bv -> UnaryIter.nrep bv it cur ->
  (exists q it', unary_iter_next c (of_u bv it) = Ok (of_u bv it', Some q) /\
      filter (fun p => cur <=? p) (positions true (bits_of bv))
        = q :: filter (fun p => q + 1 <=? p) (positions true (bits_of bv)) /\
      u_pos it' = q /\ UnaryIter.nrep bv it' (q + 1)) \/
  (exists it', unary_iter_next c (of_u bv it) = Ok (of_u bv it', None) /\
      filter (fun p => cur <=? p) (positions true (bits_of bv)) = [] /\
      UnaryIter.ndone bv it' /\ u_pos it' < 2 ^ 58).
Proof.
  intros c bv it cur Hwf Hcap Hrep.
  assert (E : unary_iter_next c (of_u bv it) = lift_u bv (Unary.unary_next c bv it)).
  { rewrite tie_unary_iter_next.
    - cbn [ui_bv of_u]. destruct it; reflexivity.
    - cbn [ui_bv of_u]. now apply wf_cap_words_58.
    - cbn [ui_pos of_u]. destruct Hrep as (_ & Hb & Hc & _).
      unfold cap_ok in Hcap. change (2 ^ 56) with 72057594037927936 in Hcap. unfold W. lia. }
  destruct (UnaryIter.unary_next_spec c bv it cur Hwf Hcap Hrep) as [(q & it' & En & H)|(it' & En & H)].
  - left. exists q, it'. split; [rewrite E, En; reflexivity | exact H].
  - right. exists it'. split; [rewrite E, En; reflexivity | exact H].
Qed.
(* =============================================================================================
   2. Rank9Sel
   ============================================================================================= *)

(* range facts of the built index: the rank table has 2 * nblocks + 2 entries, the hint entries are
   block numbers *)
Lemma hints_spec_usize inv ws : Forall (fun w => w < W) ws -> lenN ws < 2251799813685248 ->
  usize_list (hints_spec inv ws).
Proof.
  intros Hall Hlen x Hin. pose proof (nblocks_lt ws Hlen) as Hnb.
  unfold hints_spec in Hin. apply in_app_or in Hin. destruct Hin as [Hin|[<-|[]]].
  - pose proof (hints_pure_inv (Rk inv ws) (Rk_0 inv ws Hall) (Rk_step inv ws Hall) (N.to_nat (nblocks ws))) as HI.
    rewrite N2Nat.id in HI. destruct HI as [_ [_ HI]].
    destruct (DABuild.In_nthN _ _ Hin) as [j [Hj <-]]. specialize (HI j Hj). unfold W. lia.
  - unfold W. lia.
Qed.

Lemma r9_spec_brp_range bv h1 h0 : wf bv -> cap_ok bv -> lenN (r_brp (r9_rs (r9_spec bv h1 h0))) < W.
Proof.
  intros Hwf Hcap. cbn [r9_spec r9_rs r9_index_spec r_brp]. rewrite brp_len.
  pose proof (nblocks_lt _ (wf_cap_nwords bv Hwf Hcap)). unfold W. lia.
Qed.

Lemma r9_spec_h1_range bv h1 h0 : wf bv -> cap_ok bv -> usize_olist (r_h1 (r9_rs (r9_spec bv h1 h0))).
Proof.
  intros Hwf Hcap. cbn [r9_spec r9_rs r9_index_spec r_h1]. destruct h1; cbn [usize_olist]; [|exact I].
  apply hints_spec_usize; [apply (wf_all _ Hwf) | apply (wf_cap_nwords _ Hwf Hcap)].
Qed.

Lemma r9_spec_h0_range bv h1 h0 : wf bv -> cap_ok bv -> usize_olist (r_h0 (r9_rs (r9_spec bv h1 h0))).
Proof.
  intros Hwf Hcap. cbn [r9_spec r9_rs r9_index_spec r_h0]. destruct h0; cbn [usize_olist]; [|exact I].
  apply hints_spec_usize; [apply (wf_all _ Hwf) | apply (wf_cap_nwords _ Hwf Hcap)].
Qed.

(* "x answers every generated query like the plain bit sequence b": r9_correct, about the generated code *)
Definition rank9sel_gen_correct (c : cfg) (x : r9sel) (b : list bool) : Prop :=
  rank9sel_num_bits c x = Ok (lenN b) /\
  rank9sel_num_ones c x = Ok (BitSpec.count true b) /\
  (forall i, i < W -> rank9sel_access c x i = Ok (BitSpec.access b i) /\
                      rank9sel_rank1 c x i = Ok (BitSpec.rank true b i) /\
                      rank9sel_rank0 c x i = Ok (BitSpec.rank false b i)) /\
  (forall k, k < W -> rank9sel_select1 c x k = Ok (BitSpec.select true b k) /\
                      rank9sel_select0 c x k = Ok (BitSpec.select false b k)).

(* the value built in any of the four hint configurations answers the generated queries *)
Theorem e2e_rank9sel_queries : forall c bv h1 h0, wf bv -> cap_ok bv ->
  rank9sel_gen_correct c (r9_spec bv h1 h0) (bits_of bv).
Proof.
  intros c bv h1 h0 Hwf Hcap.
  destruct (r9_spec_correct c bv h1 h0 Hwf Hcap) as [_ [Ho [_ [Hi Hk]]]].
  cbn [r9_spec r9_bv] in Ho, Hi, Hk.
  unfold rank9sel_gen_correct. split; [|split; [|split]].
  - rewrite tie_rank9sel_num_bits. unfold r9_num_bits. cbn [r9_spec r9_bv].
    rewrite (bits_of_length bv Hwf). reflexivity.
  - rewrite tie_rank9sel_num_ones. exact Ho.
  - intros i Hlt. rewrite tie_rank9sel_access, tie_rank9sel_rank1, tie_rank9sel_rank0. exact (Hi i Hlt).
  - intros k Hlt.
    rewrite tie_rank9sel_select1 by (first [now apply r9_spec_brp_range | now apply r9_spec_h1_range]).
    rewrite tie_rank9sel_select0 by (first [now apply r9_spec_brp_range | now apply r9_spec_h0_range]).
    exact (Hk k Hlt).
Qed.

(* the generated builder methods on a well-formed vector *)
Theorem e2e_rank9sel_new : forall c bv, wf bv -> cap_ok bv ->
  rank9sel_new c bv = Ok (r9_spec bv false false).
Proof. intros. rewrite tie_rank9sel_new. apply r9_new_ok; assumption. Qed.

Theorem e2e_rank9sel_select1_hints : forall c bv h1 h0, wf bv -> cap_ok bv ->
  rank9sel_select1_hints c (r9_spec bv h1 h0) = Ok (r9_spec bv true h0).
Proof.
  intros c bv h1 h0 Hwf Hcap. rewrite tie_rank9sel_select1_hints.
  unfold r9_select1_hints, select1_hints. cbn [r9_spec r9_rs r9_bv].
  rewrite (build_hints_ok (bv_words bv) (r9_index_spec bv h1 h0) (wf_all _ Hwf) (wf_cap_nwords _ Hwf Hcap) eq_refl).
  reflexivity.
Qed.

Theorem e2e_rank9sel_select0_hints : forall c bv h1 h0, wf bv -> cap_ok bv ->
  rank9sel_select0_hints c (r9_spec bv h1 h0) = Ok (r9_spec bv h1 true).
Proof.
  intros c bv h1 h0 Hwf Hcap. rewrite tie_rank9sel_select0_hints.
  unfold r9_select0_hints, select0_hints. cbn [r9_spec r9_rs r9_bv].
  rewrite (build_hints_ok (bv_words bv) (r9_index_spec bv h1 h0) (wf_all _ Hwf) (wf_cap_nwords _ Hwf Hcap) eq_refl).
  reflexivity.
Qed.

(* from_bits yields one vector for every configuration *)
Lemma from_bits_one l : lenN l < 2 ^ 56 ->
  exists bv, (forall c, BitVector.from_bits c l = Ok bv) /\ wf bv /\ cap_ok bv /\ bits_of bv = l.
Proof.
  intro Hl. destruct (from_bits_spec {| dbg := true; intr := true |} l Hl) as [bv [_ [Hwf Hb]]].
  exists bv. split; [|split; [exact Hwf | split; [|exact Hb]]].
  - intro c. destruct (from_bits_spec c l Hl) as [bv' [E' [Hwf' Hb']]].
    assert (bv' = bv) by (apply canonical; [exact Hwf' | exact Hwf | rewrite Hb', Hb; reflexivity]).
    subst bv'. exact E'.
  - unfold cap_ok. rewrite <- (bits_of_length bv Hwf), Hb. exact Hl.
Qed.

(* Build::build_from_bits: from any list of bits below the capacity bound, every flag combination:
   ONE value for every build configuration, answering every generated query like the list *)
Theorem e2e_rank9sel_build_from_bits : forall l wr h1 h0, lenN l < 2 ^ 56 ->
  exists x, (forall c, rank9sel_build_from_bits c l wr h1 h0 = Ok (Some x)) /\
            bits_of (r9_bv x) = l /\ (forall c, rank9sel_gen_correct c x l).
Proof.
  intros l wr h1 h0 Hl. destruct (from_bits_one l Hl) as [bv [E [Hwf [Hcap Hb]]]].
  exists (r9_spec bv h1 h0). split; [|split].
  - intro c. rewrite tie_rank9sel_build_from_bits, E. cbn [bind].
    rewrite r9_build_ok by assumption. reflexivity.
  - exact Hb.
  - intro c. rewrite <- Hb. apply e2e_rank9sel_queries; assumption.
Qed.

Theorem e2e_rank9sel_from_bits : forall l, lenN l < 2 ^ 56 ->
  exists x, (forall c, rank9sel_from_bits c l = Ok x) /\
            bits_of (r9_bv x) = l /\ (forall c, rank9sel_gen_correct c x l).
Proof.
  intros l Hl. destruct (from_bits_one l Hl) as [bv [E [Hwf [Hcap Hb]]]].
  exists (r9_spec bv false false). split; [|split].
  - intro c. rewrite tie_rank9sel_from_bits, E. cbn [bind]. apply r9_new_ok; assumption.
  - exact Hb.
  - intro c. rewrite <- Hb. apply e2e_rank9sel_queries; assumption.
Qed.

(* =============================================================================================
   3. DArray
   ============================================================================================= *)

Lemma wf_cap_bv_range bv : wf bv -> cap_ok bv -> bv_range bv.
Proof.
  intros Hwf Hcap. pose proof (wf_cap_nwords bv Hwf Hcap) as Hn. unfold cap_ok in Hcap.
  change (2 ^ 56) with 72057594037927936 in Hcap.
  split; [|split].
  - change (2 ^ 63) with 9223372036854775808. lia.
  - change (2 ^ 56) with 72057594037927936. lia.
  - intros x Hx. pose proof (wf_all bv Hwf) as Hall. rewrite Forall_forall in Hall. apply Hall, Hx.
Qed.

(* ---- range facts of the built select index (for the generated DArrayIndex::select) ---- *)
Definition da_rng (n : N) (s : dastate) : Prop :=
  lenN (t_ovf s) + lenN (t_cur s) <= n /\ forall z, In z (t_binv s) -> (- Z.of_N n - 1 <= z)%Z.

Lemma da_rng_flush n s : da_rng n s -> da_rng n (flush_pure s).
Proof.
  intros [H1 H2]. unfold flush_pure.
  destruct (last (t_cur s) 0 - hd 0 (t_cur s) <? MAX_IN_BLOCK_DISTANCE); unfold da_rng;
    cbn [t_ovf t_cur t_binv]; change (lenN (@nil N)) with 0.
  - split; [lia|]. intros z Hz. apply in_app_or in Hz. destruct Hz as [Hz|[<-|[]]]; [apply H2, Hz | lia].
  - rewrite lenN_app. split; [lia|]. intros z Hz. apply in_app_or in Hz.
    destruct Hz as [Hz|[<-|[]]]; [apply H2, Hz | lia].
Qed.

Lemma da_rng_push n s p : da_rng n s -> da_rng (n + 1) (push_pure s p).
Proof.
  intros [H1 H2]. unfold push_pure.
  set (s1 := {| t_cur := t_cur s ++ [p]; t_cnt := t_cnt s + 1; t_binv := t_binv s;
                t_sinv := t_sinv s; t_ovf := t_ovf s; t_num := t_num s |}).
  assert (K1 : da_rng (n + 1) s1).
  { unfold da_rng, s1. cbn [t_ovf t_cur t_binv]. rewrite lenN_app. change (lenN [p]) with 1.
    split; [lia|]. intros z Hz. specialize (H2 z Hz). lia. }
  assert (K2 : da_rng (n + 1) (if t_cnt s1 =? DA_BLOCK_LEN then flush_pure s1 else s1)).
  { destruct (t_cnt s1 =? DA_BLOCK_LEN); [apply da_rng_flush, K1 | exact K1]. }
  destruct K2 as [A B]. split; cbn [t_ovf t_cur t_binv]; assumption.
Qed.

Lemma da_rng_fold : forall P n s, da_rng n s -> da_rng (n + lenN P) (fold_left push_pure P s).
Proof.
  induction P as [|p P IH]; intros n s H; cbn [fold_left].
  - change (lenN (@nil N)) with 0. rewrite N.add_0_r. exact H.
  - rewrite lenN_cons. replace (n + (lenN P + 1)) with (n + 1 + lenN P) by lia.
    apply IH, da_rng_push, H.
Qed.

Lemma da_pure_range v P : lenN P < 2 ^ 56 ->
  isize_list (d_block_inv (da_pure v P)) /\ lenN (d_overflow (da_pure v P)) < 2 ^ 63.
Proof.
  intro HP. change (2 ^ 56) with 72057594037927936 in HP.
  assert (H0 : da_rng 0 da_init).
  { split; cbn [da_init t_ovf t_cur t_binv]; [change (lenN (@nil N)) with 0; lia | intros z []]. }
  pose proof (da_rng_fold P 0 da_init H0) as H. rewrite N.add_0_l in H.
  unfold da_pure, da_finish. set (s := fold_left push_pure P da_init) in *.
  assert (K : da_rng (lenN P) (if negb (t_cnt s =? 0) then flush_pure s else s)).
  { destruct (negb (t_cnt s =? 0)); [apply da_rng_flush, H | exact H]. }
  destruct K as [A B]. cbn [d_block_inv d_overflow]. split.
  - intros z Hz. specialize (B z Hz). unfold ISIZE_MIN. lia.
  - change (2 ^ 63) with 9223372036854775808. lia.
Qed.

(* DArrayIndex::new / build and DArrayIndex::select as regenerated: one index for every configuration;
   select over ones (v = true) and zeros (v = false) is the list's select for every k *)
Theorem e2e_darray_index : forall bv v, wf bv -> cap_ok bv ->
  exists d, (forall c, darray_index_new c bv v = Ok d) /\ (forall c, darray_index_build c bv v = Ok d) /\
            d_over_one d = v /\
            (forall c, darray_index_num_ones c d = Ok (BitSpec.count v (bits_of bv))) /\
            (forall c k, k < W -> darray_index_select c d bv k = Ok (BitSpec.select v (bits_of bv) k)).
Proof.
  intros bv v Hwf Hcap. destruct (wf_cap_bv_range bv Hwf Hcap) as [R1 [R2 R3]].
  destruct (da_build_ok bv v Hwf Hcap) as (Hb & Hok & Hv).
  set (P := positions v (bits_of bv)) in *.
  assert (HP : lenN P < 2 ^ 56).
  { unfold P, positions. rewrite positions_from_len.
    pose proof (count_le_len v (bits_of bv)) as H. rewrite (bits_of_length bv Hwf) in H.
    unfold cap_ok in Hcap. lia. }
  destruct (da_pure_range v P HP) as [I1 I2].
  exists (da_pure v P). split; [|split; [|split; [exact Hv|split]]].
  - intro c. rewrite tie_darray_index_new by assumption. apply Hb.
  - intro c. rewrite tie_darray_index_build by assumption. apply Hb.
  - intro c. rewrite tie_darray_index_num_ones. f_equal. destruct Hok as [Hn _]. rewrite Hn.
    apply positions_from_len.
  - intros c k Hk. rewrite tie_darray_index_select by (first [now apply wf_cap_words_W | assumption]).
    apply (da_select_ok c _ bv v k); assumption.
Qed.

(* ---- the wrapper ---- *)
Definition darray_gen_correct (c : cfg) (d : darray) (b : list bool) : Prop :=
  darray_num_bits c d = Ok (lenN b) /\
  darray_num_ones c d = Ok (BitSpec.count true b) /\
  (forall i, i < W -> darray_access c d i = Ok (BitSpec.access b i)) /\
  (forall k, k < W -> darray_select1 c d k = Ok (BitSpec.select true b k)) /\
  (da_s0 d <> None -> forall k, k < W -> darray_select0 c d k = Ok (BitSpec.select false b k)) /\
  (da_r9 d <> None -> forall i, i < W -> darray_rank1 c d i = Ok (BitSpec.rank true b i) /\
                                        darray_rank0 c d i = Ok (BitSpec.rank false b i)).

Lemma da_correct_gen c d : da_correct c d -> darray_gen_correct c d (bits_of (da_bv d)).
Proof.
  intros (Hwf & Ho & _ & Ha & H1 & H0 & Hr). cbv zeta in *.
  unfold darray_gen_correct. split; [|split; [|split; [|split; [|split]]]].
  - rewrite tie_darray_num_bits. unfold da_num_bits. rewrite (bits_of_length _ Hwf). reflexivity.
  - rewrite tie_darray_num_ones, Ho. reflexivity.
  - intros i Hi. rewrite tie_darray_access. apply Ha, Hi.
  - intros k Hk. rewrite tie_darray_select1. apply H1, Hk.
  - intros Hs k Hk. rewrite tie_darray_select0. apply (H0 Hs), Hk.
  - intros Hs i Hi. rewrite tie_darray_rank1, tie_darray_rank0. apply (Hr Hs), Hi.
Qed.

Theorem e2e_darray_from_bits : forall l, lenN l < 2 ^ 56 ->
  exists d, (forall c, darray_from_bits c l = Ok d) /\ bits_of (da_bv d) = l /\
            da_s0 d = None /\ da_r9 d = None /\ (forall c, darray_gen_correct c d l).
Proof.
  intros l Hl. destruct (da_from_bits_correct l Hl) as (d & E & Hb & H0 & H9 & Hc).
  exists d. split; [|split; [exact Hb | split; [exact H0 | split; [exact H9|]]]].
  - intro c. rewrite tie_darray_from_bits by exact Hl. apply E.
  - intro c. rewrite <- Hb. apply da_correct_gen, Hc.
Qed.

Theorem e2e_darray_enable_select0 : forall d, (forall c, da_correct c d) -> cap_ok (da_bv d) ->
  exists d', (forall c, darray_enable_select0 c d = Ok d') /\
             da_bv d' = da_bv d /\ da_s1 d' = da_s1 d /\ da_r9 d' = da_r9 d /\ da_s0 d' <> None /\
             (forall c, da_correct c d') /\ (forall c, darray_gen_correct c d' (bits_of (da_bv d))).
Proof.
  intros d H Hcap. destruct (da_enable_select0_correct d H Hcap) as (d' & E & Hb & H1 & H9 & H0 & Hc).
  assert (Hwf : wf (da_bv d)) by (destruct (H {| dbg := true; intr := true |}) as [Hwf _]; exact Hwf).
  exists d'. split; [|split; [exact Hb | split; [exact H1 | split; [exact H9 | split; [exact H0 | split; [exact Hc|]]]]]].
  - intro c. rewrite tie_darray_enable_select0 by (apply wf_cap_bv_range; assumption). apply E.
  - intro c. rewrite <- Hb. apply da_correct_gen, Hc.
Qed.

Theorem e2e_darray_enable_rank : forall d, (forall c, da_correct c d) -> cap_ok (da_bv d) ->
  exists d', (forall c, darray_enable_rank c d = Ok d') /\
             da_bv d' = da_bv d /\ da_s1 d' = da_s1 d /\ da_s0 d' = da_s0 d /\ da_r9 d' <> None /\
             (forall c, da_correct c d') /\ (forall c, darray_gen_correct c d' (bits_of (da_bv d))).
Proof.
  intros d H Hcap. destruct (da_enable_rank_closed d H Hcap) as (d' & E & Hb & H1 & H0 & H9 & Hc).
  exists d'. split; [|split; [exact Hb | split; [exact H1 | split; [exact H0 | split; [exact H9 | split; [exact Hc|]]]]]].
  - intro c. rewrite tie_darray_enable_rank. apply E.
  - intro c. rewrite <- Hb. apply da_correct_gen, Hc.
Qed.

(* Build::build_from_bits(bits, with_rank, with_select1, with_select0) *)
Theorem e2e_darray_build_from_bits : forall l wr w1 w0, lenN l < 2 ^ 56 ->
  exists d, (forall c, darray_build_from_bits c l wr w1 w0 = Ok (Some d)) /\ bits_of (da_bv d) = l /\
            (da_s0 d <> None <-> w0 = true) /\ (da_r9 d <> None <-> wr = true) /\
            (forall c, darray_gen_correct c d l).
Proof.
  intros l wr w1 w0 Hl. destruct (from_bits_one l Hl) as [bv [E [Hwf [Hcap Hb]]]].
  destruct (da_build_cfg_closed bv wr w0 Hwf Hcap) as (d & Ed & Hbv & H0 & H9 & Hc).
  exists d. split; [|split; [rewrite Hbv; exact Hb | split; [exact H0 | split; [exact H9|]]]].
  - intro c. rewrite tie_darray_build_from_bits by exact Hl. rewrite E. cbn [bind]. rewrite Ed. reflexivity.
  - intro c. rewrite <- Hb, <- Hbv. apply da_correct_gen, Hc.
Qed.

(* =============================================================================================
   6. CompactVector
   ============================================================================================= *)

Theorem e2e_compact_vector_new : forall c w,
  if wok w then exists v, compact_vector_new c w = Ok (Some v) /\ cv_rep v [] /\ cv_width v = w
  else compact_vector_new c w = Ok None.
Proof.
  intros c w. rewrite tie_compact_vector_new. pose proof (cv_new_spec w) as H.
  destruct (wok w); [destruct H as (v & E & R & Hw); exists v; rewrite E; auto | rewrite H; reflexivity].
Qed.

Theorem e2e_compact_vector_with_capacity : forall c capa w, (wok w = true -> capa * w + 64 < W) ->
  compact_vector_with_capacity c capa w = Ok (cv_new w).
Proof. intros. rewrite tie_compact_vector_with_capacity. now apply cv_with_capacity_spec. Qed.

Theorem e2e_compact_vector_from_int : forall c val len w, val < W -> len < W ->
  (wok w && fitsb w val = true -> len * w < 2 ^ 56) ->
  if wok w && fitsb w val
  then exists v, compact_vector_from_int c val len w = Ok (Some v) /\
                 cv_rep v (repeat val (N.to_nat len)) /\ cv_width v = w
  else compact_vector_from_int c val len w = Ok None.
Proof. intros. rewrite tie_compact_vector_from_int. now apply cv_from_int_spec. Qed.

Theorem e2e_compact_vector_from_slice : forall c l, l <> [] -> Forall (fun x => x < W) l ->
  lenN l * bitlen (max_list l) < 2 ^ 56 ->
  exists v, compact_vector_from_slice c l = Ok (Some v) /\ cv_rep v l /\ cv_width v = bitlen (max_list l).
Proof. intros. rewrite tie_compact_vector_from_slice. now apply cv_from_slice_spec. Qed.

Theorem e2e_compact_vector_from_slice_nil : forall c, compact_vector_from_slice c [] = Ok (Some cv_default).
Proof. intros. rewrite tie_compact_vector_from_slice. apply cv_from_slice_nil. Qed.

Theorem e2e_compact_vector_get_int : forall c v xs, cv_rep v xs -> lenN xs * cv_width v < 2 ^ 56 ->
  forall pos, pos < W -> compact_vector_get_int c v pos = Ok (nth_opt xs pos).
Proof. intros. rewrite tie_compact_vector_get_int. now apply (cv_get_int_spec c v xs). Qed.

Theorem e2e_compact_vector_access : forall c v xs, cv_rep v xs -> lenN xs * cv_width v < 2 ^ 56 ->
  forall pos, pos < W -> compact_vector_access c v pos = Ok (nth_opt xs pos).
Proof. intros. rewrite tie_compact_vector_access. now apply (cv_access_spec c v xs). Qed.

Theorem e2e_compact_vector_len : forall c v xs, cv_rep v xs -> compact_vector_len c v = Ok (lenN xs).
Proof. intros c v xs (_ & Hl & _). rewrite tie_compact_vector_len, Hl. reflexivity. Qed.

Theorem e2e_compact_vector_push_int : forall c v xs x, cv_rep v xs -> x < W ->
  (x < 2 ^ cv_width v -> (lenN xs + 1) * cv_width v < 2 ^ 56) ->
  exists v' ok, compact_vector_push_int c v x = Ok (v', ok) /\ ok = fitsb (cv_width v) x /\
    cv_width v' = cv_width v /\
    (ok = true -> cv_rep v' (xs ++ [x])) /\ (ok = false -> v' = v).
Proof. intros. rewrite tie_compact_vector_push_int. now apply cv_push_int_spec. Qed.

Theorem e2e_compact_vector_set_int : forall c v xs pos x, cv_rep v xs -> pos < W -> x < W ->
  lenN xs * cv_width v < 2 ^ 56 ->
  exists v' ok, compact_vector_set_int c v pos x = Ok (v', ok) /\
    ok = (pos <? lenN xs) && fitsb (cv_width v) x /\ cv_width v' = cv_width v /\
    (ok = true -> cv_rep v' (setN xs pos x)) /\ (ok = false -> v' = v).
Proof. intros. rewrite tie_compact_vector_set_int. now apply cv_set_int_spec. Qed.

Theorem e2e_compact_vector_extend : forall c v xs l, cv_rep v xs -> Forall (fun x => x < W) l ->
  (lenN xs + lenN (fit_prefix (cv_width v) l)) * cv_width v < 2 ^ 56 ->
  exists v' ok, compact_vector_extend c v l = Ok (v', ok) /\ ok = forallb (fitsb (cv_width v)) l /\
    cv_width v' = cv_width v /\ cv_rep v' (xs ++ fit_prefix (cv_width v) l).
Proof. intros. rewrite tie_compact_vector_extend. now apply cv_extend_spec. Qed.

(* from_slice then get_int: the composed statement *)
Theorem e2e_compact_vector_from_slice_get_int : forall c l, l <> [] -> Forall (fun x => x < W) l ->
  lenN l * bitlen (max_list l) < 2 ^ 56 ->
  exists v, compact_vector_from_slice c l = Ok (Some v) /\
    forall c' pos, pos < W -> compact_vector_get_int c' v pos = Ok (nth_opt l pos) /\
                              compact_vector_access c' v pos = Ok (nth_opt l pos).
Proof.
  intros c l Hne Hall Hcap. destruct (e2e_compact_vector_from_slice c l Hne Hall Hcap) as (v & E & R & Hw).
  exists v. split; [exact E|]. intros c' pos Hp. rewrite <- Hw in Hcap.
  split; [apply (e2e_compact_vector_get_int c' v l R Hcap pos Hp) | apply (e2e_compact_vector_access c' v l R Hcap pos Hp)].
Qed.

(* ---- C09 about the generated code: any history of the 4 constructors and 3 mutators ---- *)
Definition gen_cv_apply (c : cfg) (ov : option compvec) (o : cvop) : res (option compvec * bool) :=
  match o with
  | CNew w => r <- compact_vector_new c w ;; Ok (ctor_result ov r)
  | CWithCapacity capa w => r <- compact_vector_with_capacity c capa w ;; Ok (ctor_result ov r)
  | CFromInt val len w => r <- compact_vector_from_int c val len w ;; Ok (ctor_result ov r)
  | CFromSlice l => r <- compact_vector_from_slice c l ;; Ok (ctor_result ov r)
  | CPush x =>
      match ov with None => Ok (None, false)
      | Some v => r <- compact_vector_push_int c v x ;; Ok (Some (fst r), snd r) end
  | CSet pos x =>
      match ov with None => Ok (None, false)
      | Some v => r <- compact_vector_set_int c v pos x ;; Ok (Some (fst r), snd r) end
  | CExtend l =>
      match ov with None => Ok (None, false)
      | Some v => r <- compact_vector_extend c v l ;; Ok (Some (fst r), snd r) end
  end.

Fixpoint gen_cv_run (c : cfg) (ov : option compvec) (ops : list cvop) : res (option compvec * list bool) :=
  match ops with
  | [] => Ok (ov, [])
  | o :: r => x <- gen_cv_apply c ov o ;; y <- gen_cv_run c (fst x) r ;; Ok (fst y, snd x :: snd y)
  end.

Lemma gen_cv_apply_tie c ov o : gen_cv_apply c ov o = apply_cvop_model c ov o.
Proof.
  destruct o; cbn [gen_cv_apply apply_cvop_model].
  - rewrite tie_compact_vector_new. reflexivity.
  - rewrite tie_compact_vector_with_capacity. reflexivity.
  - rewrite tie_compact_vector_from_int. reflexivity.
  - rewrite tie_compact_vector_from_slice. reflexivity.
  - destruct ov; [rewrite tie_compact_vector_push_int|]; reflexivity.
  - destruct ov; [rewrite tie_compact_vector_set_int|]; reflexivity.
  - destruct ov; [rewrite tie_compact_vector_extend|]; reflexivity.
Qed.

Lemma gen_cv_run_tie c : forall ops ov, gen_cv_run c ov ops = run_cv_model c ov ops.
Proof.
  induction ops as [|o r IH]; intro ov; [reflexivity|]. cbn [gen_cv_run run_cv_model].
  rewrite gen_cv_apply_tie. destruct (apply_cvop_model c ov o) as [x|]; cbn [bind]; [|reflexivity].
  rewrite IH. reflexivity.
Qed.

Theorem e2e_compact_vector_history : forall c ops w xs, cvops_ok None ops ->
  fst (run_cvops None ops) = Some (w, xs) ->
  exists v, gen_cv_run c None ops = Ok (Some v, snd (run_cvops None ops)) /\
    cv_width v = w /\ compact_vector_len c v = Ok (lenN xs) /\
    (forall pos, pos < W -> compact_vector_get_int c v pos = Ok (nth_opt xs pos)).
Proof.
  intros c ops w xs Hok Efin. destruct (cv_history_reads c ops w xs Hok Efin) as (v & E & Hw & Hl & Hg & _).
  exists v. split; [rewrite gen_cv_run_tie; exact E|]. split; [exact Hw|]. split.
  - rewrite tie_compact_vector_len, Hl. reflexivity.
  - intros pos Hp. rewrite tie_compact_vector_get_int. apply Hg, Hp.
Qed.

(* =============================================================================================
   4. EliasFano (builder, queries, iterator)
   ============================================================================================= *)

(* ---- range facts of the DArray select index: overflow entries are positions ---- *)
Definition da_elems (B : N) (s : dastate) : Prop :=
  (forall p, In p (t_ovf s) -> p < B) /\ (forall p, In p (t_cur s) -> p < B).

Lemma da_elems_flush B s : da_elems B s -> da_elems B (flush_pure s).
Proof.
  intros [H1 H2]. unfold flush_pure.
  destruct (last (t_cur s) 0 - hd 0 (t_cur s) <? MAX_IN_BLOCK_DISTANCE); unfold da_elems; cbn [t_ovf t_cur].
  - split; [exact H1 | intros p []].
  - split; [|intros p []]. intros p Hp. apply in_app_or in Hp. destruct Hp; auto.
Qed.

Lemma da_elems_push B s p : p < B -> da_elems B s -> da_elems B (push_pure s p).
Proof.
  intros Hp [H1 H2]. unfold push_pure.
  set (s1 := {| t_cur := t_cur s ++ [p]; t_cnt := t_cnt s + 1; t_binv := t_binv s;
                t_sinv := t_sinv s; t_ovf := t_ovf s; t_num := t_num s |}).
  assert (K1 : da_elems B s1).
  { split; cbn [s1 t_ovf t_cur]; [exact H1|]. intros q Hq. apply in_app_or in Hq.
    destruct Hq as [Hq|[<-|[]]]; auto. }
  assert (K2 : da_elems B (if t_cnt s1 =? DA_BLOCK_LEN then flush_pure s1 else s1)).
  { destruct (t_cnt s1 =? DA_BLOCK_LEN); [apply da_elems_flush, K1 | exact K1]. }
  destruct K2 as [A C]. split; cbn [t_ovf t_cur]; assumption.
Qed.

Lemma da_elems_fold B : forall P s, (forall p, In p P -> p < B) -> da_elems B s ->
  da_elems B (fold_left push_pure P s).
Proof.
  induction P as [|p P IH]; intros s HP H; cbn [fold_left]; [exact H|].
  apply IH; [intros q Hq; apply HP; right; exact Hq|]. apply da_elems_push; [apply HP; left; reflexivity | exact H].
Qed.

Lemma da_pure_overflow_lt v P B : (forall p, In p P -> p < B) ->
  forall p, In p (d_overflow (da_pure v P)) -> p < B.
Proof.
  intros HP. assert (H0 : da_elems B da_init) by (split; intros p []).
  pose proof (da_elems_fold B P da_init HP H0) as H.
  unfold da_pure, da_finish. set (s := fold_left push_pure P da_init) in *.
  assert (K : da_elems B (if negb (t_cnt s =? 0) then flush_pure s else s)).
  { destruct (negb (t_cnt s =? 0)); [apply da_elems_flush, H | exact H]. }
  destruct K as [A _]. cbn [d_overflow]. exact A.
Qed.

Lemma da_build_overflow_usize c bv v d : wf bv -> cap_ok bv -> da_build c bv v = Ok d ->
  usize_list (d_overflow d).
Proof.
  intros Hwf Hcap E. destruct (da_build_ok bv v Hwf Hcap) as (Hb & _). rewrite Hb in E.
  injection E as <-. intros p Hp.
  apply (da_pure_overflow_lt v (positions v (bits_of bv)) (bv_len bv)) in Hp.
  - unfold cap_ok in Hcap. change (2 ^ 56) with 72057594037927936 in Hcap. unfold W. lia.
  - intros q Hq. unfold positions in Hq. apply positions_from_range in Hq.
    rewrite (bits_of_length bv Hwf) in Hq. lia.
Qed.

(* ---- the range side conditions of the Elias-Fano ties, from the representation invariant ---- *)
Lemma rep_high_range e xs u : ef_rep e xs u -> bv_range (da_bv (ef_high e)).
Proof. intro R. apply wf_cap_bv_range; [exact (rep_hwf e xs u R) | exact (rep_hcap _ _ _ R)]. Qed.

Lemma rep_low_len_W e xs u : ef_rep e xs u -> bv_len (ef_low e) < W.
Proof. intro R. apply wf_cap_len_W, (rep_lcap _ _ _ R). Qed.

Lemma select_lt v l k p : BitSpec.select v l k = Some p -> p < lenN l.
Proof. rewrite select_selF. intro H. apply selF_range in H. lia. Qed.

Lemma rep_select1_range e xs u c : ef_rep e xs u ->
  forall k p, da_select1 c (ef_high e) k = Ok (Some p) -> p + 64 < W.
Proof.
  intros R k p E. pose proof (rep_hwf e xs u R) as Hwf. pose proof (rep_hcap _ _ _ R) as Hcap.
  unfold cap_ok in Hcap. change (2 ^ 56) with 72057594037927936 in Hcap.
  destruct (rep_da _ _ _ R c) as (_ & Ho & _ & _ & Hs & _).
  destruct (N.lt_ge_cases k W) as [Hk|Hk].
  - rewrite (Hs k Hk) in E. injection E as E. apply select_lt in E.
    rewrite (bits_of_length _ Hwf) in E. unfold W. lia.
  - exfalso. unfold da_select1, da_select in E. unfold da_num_ones in Ho.
    pose proof (count_le_len true (bits_of (da_bv (ef_high e)))) as Hc.
    rewrite (bits_of_length _ Hwf) in Hc.
    destruct (N.leb_spec (d_num_positions (da_s1 (ef_high e))) k) as [_|Hlt]; [discriminate|].
    unfold W in Hk. lia.
Qed.

Lemma rep_search_ok e xs u c : ef_rep e xs u -> ef_search_ok c e.
Proof.
  intro R. pose proof (rep_hwf e xs u R) as Hwf. pose proof (rep_hcap _ _ _ R) as Hcap.
  destruct (rep_high_range e xs u R) as (_ & _ & HU).
  split; [|split; [|split; [|split]]].
  - rewrite (rep_len e xs u R). pose proof (rep_hlen _ _ _ R) as HL. unfold cap_ok in Hcap.
    change (2 ^ 56) with 72057594037927936 in Hcap. change (2 ^ 63) with 9223372036854775808.
    revert HL. generalize (u / 2 ^ ef_low_len e). intros q HL. lia.
  - apply (rep_low_len_W e xs u R).
  - apply wf_cap_words_58; assumption.
  - exact HU.
  - apply (rep_select1_range e xs u c R).
Qed.

(* the extra fact `elias_fano_rank` needs about the optional select0 index: its overflow entries are usize;
   true of every value produced by enable_rank (lemma below) *)
Definition ef_s0_range (e : eliasfano) : Prop :=
  forall s0, da_s0 (ef_high e) = Some s0 -> usize_list (d_overflow s0).

Lemma enable_rank_s0_range c e xs u e' : ef_rep e xs u -> ef_enable_rank c e = Ok e' -> ef_s0_range e'.
Proof.
  intros R E. unfold ef_enable_rank, da_enable_select0 in E.
  destruct (da_build c (da_bv (ef_high e)) false) as [s0|] eqn:Eb; cbn [bind] in E; [|discriminate].
  injection E as <-. intros s Hs. cbn [ef_high da_s0] in Hs. injection Hs as <-.
  apply (da_build_overflow_usize c _ false s0 (rep_hwf e xs u R) (rep_hcap _ _ _ R) Eb).
Qed.

(* ---- builder ---- *)
Definition gen_ef_apply (c : cfg) (b : efbuilder) (o : efop) : res (efbuilder * bool) :=
  match o with EPush v => elias_fano_builder_push c b v | EExtend vs => elias_fano_builder_extend c b vs end.
Fixpoint gen_ef_run (c : cfg) (b : efbuilder) (ops : list efop) : res (efbuilder * list bool) :=
  match ops with
  | [] => Ok (b, [])
  | o :: r => s <- gen_ef_apply c b o ;; t <- gen_ef_run c (fst s) r ;; Ok (fst t, snd s :: snd t)
  end.

Lemma gen_ef_run_tie c : forall ops b, gen_ef_run c b ops = model_run c b ops.
Proof.
  induction ops as [|o r IH]; intro b; [reflexivity|]. cbn [gen_ef_run model_run].
  assert (Ea : gen_ef_apply c b o = model_apply c b o).
  { destruct o; cbn [gen_ef_apply model_apply];
      [apply tie_elias_fano_builder_push | apply tie_elias_fano_builder_extend]. }
  rewrite Ea. destruct (model_apply c b o) as [[b1 ok]|]; cbn [bind]; [|reflexivity].
  rewrite IH. reflexivity.
Qed.

Lemma efb_inv_high_cap b acc u m : m + 2 + u / 2 ^ low_len_of u m < 2 ^ 56 -> efb_inv b acc u m ->
  bv_len (b_high b) < 2 ^ 56.
Proof. intros Hc I. rewrite (bi_hlen _ _ _ _ I). exact Hc. Qed.

(* C16 about the generated code: new, ANY history of push / extend calls, build; the built value
   (one for every configuration) represents exactly the accepted values *)
Theorem e2e_elias_fano_builder_history : forall u m ops, u < W -> 1 <= m ->
  m + 2 + u / 2 ^ low_len_of u m < 2 ^ 56 -> m * low_len_of u m < 2 ^ 56 ->
  let acc := fst (spec_run u m [] ops) in
  exists e, ef_rep e acc u /\
    (forall c, exists b0 b, elias_fano_builder_new c u m = Ok (Some b0) /\
       gen_ef_run c b0 ops = Ok (b, snd (spec_run u m [] ops)) /\
       elias_fano_builder_build c b = Ok e).
Proof.
  intros u m ops Hu Hm Hc1 Hc2 acc.
  destruct (efb_build_history_closed u m ops Hu Hm Hc1 Hc2) as (e & R & Hc & _).
  exists e. split; [exact R|]. intro c. destruct (Hc c) as (b0 & b & E0 & E1 & I & Eb).
  exists b0, b. split; [|split].
  - rewrite tie_elias_fano_builder_new. exact E0.
  - rewrite gen_ef_run_tie. exact E1.
  - rewrite tie_elias_fano_builder_build by (apply (efb_inv_high_cap b _ u m Hc1 I)). exact Eb.
Qed.

Theorem e2e_elias_fano_builder_new_zero : forall c u, elias_fano_builder_new c u 0 = Ok None.
Proof. intros. rewrite tie_elias_fano_builder_new. apply efb_new_zero. Qed.

(* C04 construction about the generated code: every sorted sequence below u that fits the capacity is accepted
   entirely by new + extend; build and enable_rank give e, e' (the same in every configuration) *)
Theorem e2e_elias_fano_build : forall u m xs, u < W -> 1 <= m -> lenN xs <= m ->
  m + 2 + u / 2 ^ low_len_of u m < 2 ^ 56 -> m * low_len_of u m < 2 ^ 56 ->
  nondec xs -> Forall (fun x => x < u) xs ->
  exists e e', ef_rep e xs u /\ ef_rep e' xs u /\ da_s0 (ef_high e') <> None /\ ef_s0_range e' /\
    forall c, exists b0 b, elias_fano_builder_new c u m = Ok (Some b0) /\
                           elias_fano_builder_extend c b0 xs = Ok (b, true) /\
                           elias_fano_builder_build c b = Ok e /\ elias_fano_enable_rank c e = Ok e'.
Proof.
  intros u m xs Hu Hm Hlen Hc1 Hc2 Hs Hb.
  assert (Hall : spec_extend u m [] xs = (xs, true)).
  { apply (spec_extend_all u m xs []); [exact Hs | exact Hb | rewrite lenN_nil; lia]. }
  assert (Hc : forall c, exists b0 b, efb_new c u m = Ok (Some b0) /\ efb_extend c b0 xs = Ok (b, true) /\ efb_inv b xs u m).
  { intro c. destruct (efb_new_ok u m Hu Hm Hc1 Hc2 c) as [b0 [E0 I0]].
    destruct (efb_extend_spec u m Hu Hm Hc1 Hc2 c xs b0 [] I0) as [b [E I]].
    rewrite Hall in E, I. cbn [fst snd] in E, I. exists b0, b. split; [exact E0 | split; [exact E | exact I]]. }
  destruct (Hc {| dbg := true; intr := false |}) as [b0 [b [_ [_ I]]]].
  destruct (efb_build_ok_closed u m b xs Hu Hm Hc1 Hc2 I) as [e [Eb [R _]]].
  destruct (ef_enable_rank_ok_closed e xs u R) as [e' [Er [R' Hs0]]].
  exists e, e'. split; [exact R | split; [exact R' | split; [exact Hs0 | split]]].
  - apply (enable_rank_s0_range {| dbg := true; intr := false |} e xs u e' R (Er _)).
  - intro c. destruct (Hc c) as [b0' [b' [E0' [E' I']]]].
    pose proof (efb_inv_unique b b' xs u m I I') as ->.
    exists b0', b. split; [|split; [|split]].
    + rewrite tie_elias_fano_builder_new. exact E0'.
    + rewrite tie_elias_fano_builder_extend. exact E'.
    + rewrite tie_elias_fano_builder_build by (apply (efb_inv_high_cap b xs u m Hc1 I)). apply Eb.
    + rewrite tie_elias_fano_enable_rank by (apply (rep_high_range e xs u R)). apply Er.
Qed.

(* enable_rank on any represented value *)
Theorem e2e_elias_fano_enable_rank : forall e xs u, ef_rep e xs u ->
  exists e', (forall c, elias_fano_enable_rank c e = Ok e') /\ ef_rep e' xs u /\
             da_s0 (ef_high e') <> None /\ ef_s0_range e'.
Proof.
  intros e xs u R. destruct (ef_enable_rank_ok_closed e xs u R) as [e' [Er [R' Hs0]]].
  exists e'. split; [|split; [exact R' | split; [exact Hs0|]]].
  - intro c. rewrite tie_elias_fano_enable_rank by (apply (rep_high_range e xs u R)). apply Er.
  - apply (enable_rank_s0_range {| dbg := true; intr := false |} e xs u e' R (Er _)).
Qed.

(* ---- queries ---- *)
Theorem e2e_elias_fano_len : forall e xs u, ef_rep e xs u ->
  forall c, elias_fano_len c e = Ok (lenN xs) /\ elias_fano_universe c e = Ok u.
Proof.
  intros e xs u R c. rewrite tie_elias_fano_len, tie_elias_fano_universe, (rep_len e xs u R), (rep_univ _ _ _ R).
  split; reflexivity.
Qed.

Theorem e2e_elias_fano_select : forall e xs u, ef_rep e xs u ->
  forall c k, elias_fano_select c e k = Ok (SeqSpec.ef_select xs k).
Proof. intros e xs u R c k. rewrite tie_elias_fano_select. apply (ef_select_spec e xs u R). Qed.

Theorem e2e_elias_fano_delta : forall e xs u, ef_rep e xs u ->
  forall c k, elias_fano_delta c e k = Ok (SeqSpec.ef_delta xs k).
Proof. intros e xs u R c k. rewrite tie_elias_fano_delta. apply (ef_delta_spec e xs u R). Qed.

Theorem e2e_elias_fano_rank : forall e xs u, ef_rep e xs u -> da_s0 (ef_high e) <> None -> ef_s0_range e ->
  forall c p, elias_fano_rank c e p = Ok (SeqSpec.ef_rank xs u p).
Proof.
  intros e xs u R Hs0 Hr c p. pose proof (ef_rank_spec e xs u R c p Hs0) as E.
  rewrite tie_elias_fano_rank; [exact E | apply (rep_low_len_W e xs u R) | exact Hr | rewrite E; discriminate].
Qed.

Theorem e2e_elias_fano_predecessor : forall e xs u, ef_rep e xs u -> da_s0 (ef_high e) <> None ->
  forall c p, elias_fano_predecessor c e p = Ok (SeqSpec.ef_pred xs u p).
Proof. intros e xs u R Hs0 c p. rewrite tie_elias_fano_predecessor. apply (ef_predecessor_spec e xs u R c p Hs0). Qed.

Theorem e2e_elias_fano_successor : forall e xs u, ef_rep e xs u -> da_s0 (ef_high e) <> None ->
  forall c p, elias_fano_successor c e p = Ok (SeqSpec.ef_succ xs u p).
Proof. intros e xs u R Hs0 c p. rewrite tie_elias_fano_successor. apply (ef_successor_spec e xs u R c p Hs0). Qed.

Theorem e2e_elias_fano_binsearch_range : forall e xs u, ef_rep e xs u ->
  forall c val rs re, exists r, elias_fano_binsearch_range c e (rs, re) val = Ok r /\
    binsearch_ok xs rs re val r = true.
Proof.
  intros e xs u R c val rs re. destruct (rep_search_ok e xs u c R) as (S1 & S2 & S3 & S4 & S5).
  rewrite tie_elias_fano_binsearch_range by assumption. apply (ef_binsearch_range_spec e xs u R).
Qed.

Theorem e2e_elias_fano_binsearch : forall e xs u, ef_rep e xs u ->
  forall c val, exists r, elias_fano_binsearch c e val = Ok r /\ binsearch_ok xs 0 (lenN xs) val r = true.
Proof.
  intros e xs u R c val. destruct (rep_search_ok e xs u c R) as (S1 & S2 & S3 & S4 & S5).
  rewrite tie_elias_fano_binsearch by assumption. apply (ef_binsearch_spec e xs u R).
Qed.

(* ---- iterator: iter(k) then n calls of the generated next() ---- *)
Fixpoint gen_efi_run (c : cfg) (n : nat) (it : efiter_g) : res (efiter_g * list (option N)) :=
  match n with
  | O => Ok (it, [])
  | S n' => r <- elias_fano_iter_next c it ;; t <- gen_efi_run c n' (fst r) ;; Ok (fst t, snd r :: snd t)
  end.

Lemma efi_next_inv_none c e it it' : efi_next c e it = Ok (it', None) -> mi_inv e it'.
Proof.
  unfold efi_next, mi_inv.
  destruct (if i_k it =? ef_len e then None else i_high it) as [hit|].
  - destruct (if i_chunks_avail it =? 0 then _ else _) as [[lb av]|]; cbn [bind]; [|discriminate].
    destruct (Unary.unary_next c (da_bv (ef_high e)) hit) as [[u' y]|]; cbn [bind fst snd]; [|discriminate].
    destruct y as [high|]; cbn [unwrap bind]; [|discriminate].
    destruct (sub c high (i_k it)); cbn [bind]; [|discriminate].
    destruct (shl c _ _); cbn [bind]; [|discriminate].
    destruct (add c (i_k it) 1); cbn [bind]; [|discriminate].
    destruct (shr c lb _); cbn [bind]; discriminate.
  - intros [= <-]. exact I.
Qed.

Lemma gen_efi_run_tie c e : ef_search_ok c e -> forall n it, mi_inv e it ->
  gen_efi_run c n (of_ei e it) = rmap (fun t => (of_ei e (fst t), snd t)) (efi_run c e n it).
Proof.
  intros (S1 & S2 & S3 & S4 & S5). induction n as [|n IH]; intros it Hi; [reflexivity|].
  cbn [gen_efi_run efi_run]. rewrite tie_elias_fano_iter_next by (now apply of_ei_ok).
  cbn [ei_ef of_ei]. fold (of_ei e it). rewrite to_of_ei.
  destruct (efi_next c e it) as [[it1 x]|] eqn:En; cbn [bind fst snd]; [|reflexivity].
  assert (Hi1 : mi_inv e it1).
  { destruct x as [x|]; [eapply efi_next_inv; eauto | eapply efi_next_inv_none; eauto]. }
  rewrite (IH it1 Hi1). destruct (efi_run c e n it1) as [[it2 out]|]; reflexivity.
Qed.

Theorem e2e_elias_fano_iter : forall e xs u, ef_rep e xs u ->
  forall c k n, exists it it', elias_fano_iter c e k = Ok it /\
    gen_efi_run c n it = Ok (it', iter_outputs xs k n).
Proof.
  intros e xs u R c k n. destruct (efi_spec e xs u R c k n) as (mit & mit' & E0 & E1).
  pose proof (rep_search_ok e xs u c R) as Hok. destruct Hok as (S1 & S2 & S3 & S4 & S5).
  assert (Hi : mi_inv e mit) by (apply (efi_new_inv c e k mit S4 (S5 k) E0)).
  exists (of_ei e mit), (of_ei e mit'). split.
  - rewrite tie_elias_fano_iter, E0. reflexivity.
  - rewrite (gen_efi_run_tie c e (rep_search_ok e xs u c R) n mit Hi), E1. reflexivity.
Qed.

(* the composed statement: the generated builder on a sorted sequence, build, enable_rank, then every generated
   query = SeqSpec on the sequence *)
Theorem e2e_elias_fano : forall u m xs, u < W -> 1 <= m -> lenN xs <= m ->
  m + 2 + u / 2 ^ low_len_of u m < 2 ^ 56 -> m * low_len_of u m < 2 ^ 56 ->
  nondec xs -> Forall (fun x => x < u) xs ->
  exists e e',
    (forall c, exists b0 b, elias_fano_builder_new c u m = Ok (Some b0) /\
                            elias_fano_builder_extend c b0 xs = Ok (b, true) /\
                            elias_fano_builder_build c b = Ok e /\ elias_fano_enable_rank c e = Ok e') /\
    (forall c, elias_fano_len c e = Ok (lenN xs) /\ elias_fano_universe c e = Ok u) /\
    (forall c k, elias_fano_select c e k = Ok (SeqSpec.ef_select xs k) /\
                 elias_fano_delta c e k = Ok (SeqSpec.ef_delta xs k) /\
                 elias_fano_select c e' k = Ok (SeqSpec.ef_select xs k) /\
                 elias_fano_delta c e' k = Ok (SeqSpec.ef_delta xs k)) /\
    (forall c p, elias_fano_rank c e' p = Ok (SeqSpec.ef_rank xs u p) /\
                 elias_fano_predecessor c e' p = Ok (SeqSpec.ef_pred xs u p) /\
                 elias_fano_successor c e' p = Ok (SeqSpec.ef_succ xs u p)) /\
    (forall c val, exists r, elias_fano_binsearch c e val = Ok r /\ binsearch_ok xs 0 (lenN xs) val r = true) /\
    (forall c val rs re, exists r, elias_fano_binsearch_range c e (rs, re) val = Ok r /\
                                   binsearch_ok xs rs re val r = true) /\
    (forall c k n, exists it it', elias_fano_iter c e k = Ok it /\ gen_efi_run c n it = Ok (it', iter_outputs xs k n)).
Proof.
  intros u m xs Hu Hm Hlen Hc1 Hc2 Hs Hb.
  destruct (e2e_elias_fano_build u m xs Hu Hm Hlen Hc1 Hc2 Hs Hb) as (e & e' & R & R' & Hs0 & Hr & Hbuild).
  exists e, e'. split; [exact Hbuild|]. split; [apply (e2e_elias_fano_len e xs u R)|].
  split; [|split; [|split; [|split]]].
  - intros c k. split; [apply (e2e_elias_fano_select e xs u R)|]. split; [apply (e2e_elias_fano_delta e xs u R)|].
    split; [apply (e2e_elias_fano_select e' xs u R') | apply (e2e_elias_fano_delta e' xs u R')].
  - intros c p. split; [apply (e2e_elias_fano_rank e' xs u R' Hs0 Hr)|].
    split; [apply (e2e_elias_fano_predecessor e' xs u R' Hs0) | apply (e2e_elias_fano_successor e' xs u R' Hs0)].
  - intros c val. apply (e2e_elias_fano_binsearch e xs u R).
  - intros c val rs re. apply (e2e_elias_fano_binsearch_range e xs u R).
  - intros c k n. apply (e2e_elias_fano_iter e xs u R).
Qed.

(* =============================================================================================
   5. SArray
   ============================================================================================= *)

(* the one structural fact beyond `sa_rep` that the generated rank code needs: a usize select0 overflow table;
   established by both constructors below *)
Definition sa_s0_range (s : sarray) : Prop := forall e, sa_ef s = Some e -> ef_s0_range e.

Lemma efb_build_no_s0 c b e : efb_build c b = Ok e -> da_s0 (ef_high e) = None.
Proof.
  unfold efb_build, da_from_bits, da_new.
  destruct (bv_bits c (b_high b)) as [bits|]; cbn [bind]; [|discriminate].
  destruct (BitVector.from_bits c bits) as [bv|]; cbn [bind]; [|discriminate].
  destruct (da_build c bv true) as [s1|]; cbn [bind]; [|discriminate].
  intros [= <-]. reflexivity.
Qed.

Lemma sa_from_bv_s0_range c bv s : sa_from_bv c bv = Ok s -> sa_s0_range s.
Proof.
  unfold sa_from_bv.
  destruct (fold_res _ (bv_words bv) 0) as [no|]; cbn [bind]; [|discriminate].
  destruct (negb (no =? 0)).
  - destruct (efb_new c (bv_len bv) no) as [ob|]; cbn [bind]; [|discriminate].
    destruct (unwrap ob) as [b|]; cbn [bind]; [|discriminate].
    destruct (push_ones c _ bv _ b) as [b'|]; cbn [bind]; [|discriminate].
    destruct (efb_build c b') as [e|] eqn:Eb; cbn [bind]; [|discriminate].
    intros [= <-] e' He s0 Hs0. cbn [sa_ef] in He. injection He as <-.
    rewrite (efb_build_no_s0 c b' e Eb) in Hs0. discriminate.
  - cbn [bind]. intros [= <-] e' He. discriminate.
Qed.

Lemma sa_enable_rank_s0_range c s b s' : sa_rep s b -> sa_enable_rank c s = Ok s' -> sa_s0_range s'.
Proof.
  intros (_ & _ & Hef) E. unfold sa_enable_rank in E.
  destruct (sa_ef s) as [e|].
  - destruct (ef_enable_rank c e) as [e1|] eqn:Ee; cbn [bind] in E; [|discriminate].
    injection E as <-. intros e' He. cbn [sa_ef] in He. injection He as <-.
    destruct Hef as [R _]. apply (enable_rank_s0_range c e _ _ e1 R Ee).
  - cbn [bind] in E. injection E as <-. intros e' He. discriminate.
Qed.

Lemma sa_rep_high_range s b : sa_rep s b -> forall e, sa_ef s = Some e -> bv_range (da_bv (ef_high e)).
Proof. intros (_ & _ & Hef) e He. rewrite He in Hef. destruct Hef as [R _]. apply (rep_high_range e _ _ R). Qed.

(* queries, from the representation invariant *)
Theorem e2e_sarray_counts : forall s b, sa_rep s b -> forall c,
  sarray_num_bits c s = Ok (lenN b) /\ sarray_len c s = Ok (lenN b) /\ sarray_num_ones c s = Ok (count true b) /\
  sarray_has_rank c s = Ok (sa_has_rank s).
Proof.
  intros s b R c. rewrite tie_sarray_num_bits, tie_sarray_len, tie_sarray_num_ones, tie_sarray_has_rank.
  rewrite (sa_rep_len s b R), (sa_rep_ones s b R). repeat split; reflexivity.
Qed.

Theorem e2e_sarray_access : forall s b, sa_rep s b ->
  forall c i, sarray_access c s i = Ok (BitSpec.access b i).
Proof.
  intros s b R c i. rewrite tie_sarray_access; [apply (sa_access_spec s b R)|].
  intros e He. destruct R as (_ & _ & Hef). rewrite He in Hef. destruct Hef as [Re _].
  apply (rep_search_ok e _ _ c Re).
Qed.

Theorem e2e_sarray_select1 : forall s b, sa_rep s b ->
  forall c k, sarray_select1 c s k = Ok (BitSpec.select true b k).
Proof. intros s b R c k. rewrite tie_sarray_select1. apply (sa_select1_spec s b R). Qed.

Lemma sa_rank_ok s b : sa_rep s b -> sa_s0_range s -> forall e, sa_ef s = Some e -> ef_rank_ok e.
Proof.
  intros (_ & _ & Hef) Hr e He. rewrite He in Hef. destruct Hef as [Re _].
  split; [apply (rep_low_len_W e _ _ Re) | apply (Hr e He)].
Qed.

Theorem e2e_sarray_rank1 : forall s b, sa_rep s b -> sa_has_rank s = true -> sa_s0_range s ->
  forall c p, sarray_rank1 c s p = Ok (BitSpec.rank true b p).
Proof.
  intros s b R Hh Hr c p. pose proof (sa_rank1_spec s b R Hh c p) as E.
  rewrite tie_sarray_rank1; [exact E | apply (sa_rank_ok s b R Hr) | rewrite E; discriminate].
Qed.

Theorem e2e_sarray_rank0 : forall s b, sa_rep s b -> sa_has_rank s = true -> sa_s0_range s ->
  forall c p, sarray_rank0 c s p = Ok (BitSpec.rank false b p).
Proof.
  intros s b R Hh Hr c p. pose proof (sa_rank0_spec s b R Hh c p) as E.
  rewrite tie_sarray_rank0; [exact E | apply (sa_rank_ok s b R Hr) | rewrite E; discriminate].
Qed.

Theorem e2e_sarray_predecessor1 : forall s b, sa_rep s b -> sa_has_rank s = true ->
  forall c p, sarray_predecessor1 c s p = Ok (BitSpec.pred true b p).
Proof. intros s b R Hh c p. rewrite tie_sarray_predecessor1. apply (sa_predecessor1_spec s b R Hh). Qed.

Theorem e2e_sarray_successor1 : forall s b, sa_rep s b -> sa_has_rank s = true ->
  forall c p, sarray_successor1 c s p = Ok (BitSpec.succ true b p).
Proof. intros s b R Hh c p. rewrite tie_sarray_successor1. apply (sa_successor1_spec s b R Hh). Qed.

(* constructors *)
Lemma from_bits_sa_cap l bv : lenN l < 2 ^ 54 -> wf bv -> bits_of bv = l -> cap_ok bv /\ sa_cap bv.
Proof.
  intros Hl Hwf Hb. assert (HL : bv_len bv = lenN l) by (rewrite <- Hb; symmetry; apply bits_of_length, Hwf).
  change (2 ^ 54) with 18014398509481984 in Hl. split.
  - unfold cap_ok. rewrite HL. change (2 ^ 56) with 72057594037927936. lia.
  - apply sa_cap_small; [exact Hwf|]. rewrite HL. change (2 ^ 55) with 36028797018963968. lia.
Qed.

Theorem e2e_sarray_from_bits : forall l, lenN l < 2 ^ 54 ->
  exists s, (forall c, sarray_from_bits c l = Ok s) /\ sa_rep s l /\ sa_has_rank s = false /\ sa_s0_range s.
Proof.
  intros l Hl.
  assert (Hl56 : lenN l < 2 ^ 56).
  { change (2 ^ 54) with 18014398509481984 in Hl. change (2 ^ 56) with 72057594037927936. lia. }
  destruct (from_bits_one l Hl56) as [bv [E [Hwf [_ Hb]]]].
  destruct (from_bits_sa_cap l bv Hl Hwf Hb) as [Hcap Hsc].
  destruct (sa_from_bv_ok_closed bv Hwf Hcap Hsc) as (s & Es & R & Hh).
  exists s. split; [|split; [rewrite <- Hb; exact R | split; [exact Hh|]]].
  - intro c. apply tie_sarray_from_bits; [exact Hl|]. rewrite E. cbn [bind]. apply Es.
  - apply (sa_from_bv_s0_range {| dbg := true; intr := false |} bv s (Es _)).
Qed.

Theorem e2e_sarray_enable_rank : forall s b, sa_rep s b ->
  exists s', (forall c, sarray_enable_rank c s = Ok s') /\ sa_rep s' b /\ sa_has_rank s' = true /\ sa_s0_range s'.
Proof.
  intros s b R. destruct (sa_enable_rank_ok_closed s b R) as (s' & E & R' & Hh).
  exists s'. split; [|split; [exact R' | split; [exact Hh|]]].
  - intro c. rewrite tie_sarray_enable_rank by (apply (sa_rep_high_range s b R)). apply E.
  - apply (sa_enable_rank_s0_range {| dbg := true; intr := false |} s b s' R (E _)).
Qed.

(* Build::build_from_bits(bits, with_rank, with_select1, with_select0 = false); with_select0 = true is an Err *)
Theorem e2e_sarray_build_from_bits : forall l wr w1, lenN l < 2 ^ 54 ->
  exists s, (forall c, sarray_build_from_bits c l wr w1 false = Ok (Some s)) /\
            sa_rep s l /\ sa_has_rank s = wr /\ sa_s0_range s.
Proof.
  intros l wr w1 Hl.
  assert (Hl56 : lenN l < 2 ^ 56).
  { change (2 ^ 54) with 18014398509481984 in Hl. change (2 ^ 56) with 72057594037927936. lia. }
  destruct (from_bits_one l Hl56) as [bv [E [Hwf [_ Hb]]]].
  destruct (from_bits_sa_cap l bv Hl Hwf Hb) as [Hcap Hsc].
  destruct (sa_from_bv_ok_closed bv Hwf Hcap Hsc) as (s0 & Es & R & Hh). rewrite Hb in R.
  destruct wr.
  - destruct (sa_enable_rank_ok_closed s0 l R) as (s' & E' & R' & Hh').
    exists s'. split; [|split; [exact R' | split; [exact Hh'|]]].
    + intro c. apply tie_sarray_build_from_bits; [exact Hl|]. rewrite E. cbn [bind]. rewrite Es. cbn [bind].
      rewrite E'. reflexivity.
    + apply (sa_enable_rank_s0_range {| dbg := true; intr := false |} s0 l s' R (E' _)).
  - exists s0. split; [|split; [exact R | split; [exact Hh|]]].
    + intro c. apply tie_sarray_build_from_bits; [exact Hl|]. rewrite E. cbn [bind]. rewrite Es. reflexivity.
    + apply (sa_from_bv_s0_range {| dbg := true; intr := false |} bv s0 (Es _)).
Qed.

Theorem e2e_sarray_build_from_bits_select0 : forall c l wr w1, lenN l < 2 ^ 54 ->
  sarray_build_from_bits c l wr w1 true = Ok None.
Proof. intros c l wr w1 Hl. apply tie_sarray_build_from_bits; [exact Hl | reflexivity]. Qed.

(* the composed statement: from_bits, enable_rank, then every query = BitSpec on the bits *)
Theorem e2e_sarray : forall l, lenN l < 2 ^ 54 ->
  exists s0 s, (forall c, sarray_from_bits c l = Ok s0) /\ (forall c, sarray_enable_rank c s0 = Ok s) /\
    (forall c i, sarray_access c s0 i = Ok (BitSpec.access l i) /\ sarray_select1 c s0 i = Ok (BitSpec.select true l i)) /\
    (forall c i, sarray_access c s i = Ok (BitSpec.access l i) /\
                 sarray_select1 c s i = Ok (BitSpec.select true l i) /\
                 sarray_rank1 c s i = Ok (BitSpec.rank true l i) /\
                 sarray_rank0 c s i = Ok (BitSpec.rank false l i) /\
                 sarray_predecessor1 c s i = Ok (BitSpec.pred true l i) /\
                 sarray_successor1 c s i = Ok (BitSpec.succ true l i)).
Proof.
  intros l Hl. destruct (e2e_sarray_from_bits l Hl) as (s0 & E0 & R0 & _ & _).
  destruct (e2e_sarray_enable_rank s0 l R0) as (s & E & R & Hh & Hr).
  exists s0, s. split; [exact E0 | split; [exact E | split]].
  - intros c i. split; [apply (e2e_sarray_access s0 l R0) | apply (e2e_sarray_select1 s0 l R0)].
  - intros c i. split; [apply (e2e_sarray_access s l R)|]. split; [apply (e2e_sarray_select1 s l R)|].
    split; [apply (e2e_sarray_rank1 s l R Hh Hr)|]. split; [apply (e2e_sarray_rank0 s l R Hh Hr)|].
    split; [apply (e2e_sarray_predecessor1 s l R Hh) | apply (e2e_sarray_successor1 s l R Hh)].
Qed.

(* =============================================================================================
   7. DacsByte / DacsOpt
   ============================================================================================= *)

Theorem e2e_dacs_byte : forall vals, Forall (fun x => x < W) vals -> lenN vals < 2 ^ 50 ->
  exists d,
    (forall c, dacs_byte_from_slice c vals = Ok (Some d)) /\
    (forall c, dacs_byte_build_from_slice c vals = Ok (Some d)) /\
    (forall c, dacs_byte_len c d = Ok (lenN vals)) /\
    (forall c, dacs_byte_num_vals c d = Ok (lenN vals)) /\
    (forall c, dacs_byte_is_empty c d = Ok (lenN vals =? 0)) /\
    (forall c, dacs_byte_num_levels c d = Ok (DacSpec.byte_levels vals)) /\
    (forall c, dacs_byte_widths c d = Ok (repeat 8 (N.to_nat (DacSpec.byte_levels vals)))) /\
    (forall c i, i < W -> dacs_byte_access c d i = Ok (SeqSpec.nth_opt vals i)) /\
    (forall c pos, pos < W ->
       dacs_byte_iter_next c {| dbi_seq := d; dbi_pos := pos |}
       = Ok (if pos <? lenN vals then ({| dbi_seq := d; dbi_pos := pos + 1 |}, SeqSpec.nth_opt vals pos)
             else ({| dbi_seq := d; dbi_pos := pos |}, None))).
Proof.
  intros vals Hall Hn. destruct (dacsbyte_lossless vals Hall Hn) as (d & E & Hlen & Hlv & Hw & Ha & Hi & _).
  exists d. repeat split.
  - intro c. rewrite tie_dacs_byte_from_slice, E. reflexivity.
  - intro c. rewrite tie_dacs_byte_build_from_slice, E. reflexivity.
  - intro c. rewrite tie_dacs_byte_len. apply Hlen.
  - intro c. rewrite tie_dacs_byte_num_vals. apply Hlen.
  - intro c. rewrite tie_dacs_byte_is_empty, Hlen. reflexivity.
  - intro c. rewrite tie_dacs_byte_num_levels, Hlv. reflexivity.
  - intro c. rewrite tie_dacs_byte_widths, Hw. reflexivity.
  - intros c i Hi'. rewrite tie_dacs_byte_access. apply Ha, Hi'.
  - intros c pos Hp. rewrite tie_dacs_byte_iter_next. cbn [dbi_seq dbi_pos]. rewrite (Hi c pos Hp).
    destruct (pos <? lenN vals); reflexivity.
Qed.

Theorem e2e_dacs_opt_reject : forall c vals m, Forall (fun x => x < W) vals -> ~ (1 <= m <= 64) ->
  dacs_opt_from_slice c vals (Some m) = Ok None.
Proof. intros c vals m Hall Hm. rewrite tie_dacs_opt_from_slice by exact Hall. apply do_from_slice_reject', Hm. Qed.

Theorem e2e_dacs_opt : forall vals mlo,
  let ml := match mlo with Some m => m | None => 64 end in
  Forall (fun x => x < W) vals -> lenN vals < 2 ^ 50 -> 1 <= ml <= 64 ->
  exists d,
    (forall c, dacs_opt_from_slice c vals mlo = Ok (Some d)) /\
    (forall c, dacs_opt_len c d = Ok (lenN vals)) /\
    (forall c, dacs_opt_num_vals c d = Ok (lenN vals)) /\
    (forall c, dacs_opt_num_levels c d = Ok (do_num_levels d)) /\ 1 <= do_num_levels d <= N.min ml 64 /\
    (vals = [] -> d = do_default) /\
    (* the widths reported by the generated getter are what the generated dynamic program computes, they are
       admissible and of minimum cost among all admissible splits *)
    (vals <> [] ->
       exists ws, (forall c, dacs_opt_widths c d = Ok ws) /\
       (forall c, dacs_opt_compute_opt_widths c vals ml = Ok ws) /\
       DacSpec.admissible vals ws ml = true /\
       (forall ws', DacSpec.admissible vals ws' ml = true -> DacSpec.cost vals ws <= DacSpec.cost vals ws')) /\
    (forall c i, i < W -> dacs_opt_access c d i = Ok (SeqSpec.nth_opt vals i)) /\
    (forall c pos, pos < W ->
       dacs_opt_iter_next c {| doi_seq := d; doi_pos := pos |}
       = Ok (if pos <? lenN vals then ({| doi_seq := d; doi_pos := pos + 1 |}, SeqSpec.nth_opt vals pos)
             else ({| doi_seq := d; doi_pos := pos |}, None))).
Proof.
  intros vals mlo ml Hall Hn Hml.
  destruct (dacsopt_lossless vals mlo Hall Hn Hml) as (d & E & Hlen & Hlv & Hd & Hw & Ha & Hi & _).
  exists d. split; [|split; [|split; [|split; [|split; [exact Hlv | split; [exact Hd | split; [|split]]]]]]].
  - intro c. rewrite tie_dacs_opt_from_slice by exact Hall. apply E.
  - intro c. rewrite tie_dacs_opt_len. apply Hlen.
  - intro c. rewrite tie_dacs_opt_num_vals. apply Hlen.
  - intro c. rewrite tie_dacs_opt_num_levels. reflexivity.
  - intro Hne. destruct (Hw Hne) as (Hc & Hadm & Hopt). exists (do_widths d).
    split; [|split; [|split; [exact Hadm | exact Hopt]]].
    + intro c. apply tie_dacs_opt_widths.
    + intro c. rewrite tie_dacs_opt_compute_opt_widths by exact Hall. apply Hc.
  - intros c i Hi'. rewrite tie_dacs_opt_access. apply Ha, Hi'.
  - intros c pos Hp. rewrite tie_dacs_opt_iter_next. cbn [doi_seq doi_pos]. rewrite (Hi c pos Hp).
    destruct (pos <? lenN vals); reflexivity.
Qed.

(* Build-trait entry point of DacsOpt: from_slice(vals, None) *)
Theorem e2e_dacs_opt_build_from_slice : forall c vals, Forall (fun x => x < W) vals ->
  dacs_opt_build_from_slice c vals = dacs_opt_from_slice c vals None.
Proof.
  intros c vals Hall. rewrite tie_dacs_opt_build_from_slice, tie_dacs_opt_from_slice by exact Hall. reflexivity.
Qed.

(* =============================================================================================
   8. PrefixSummedEliasFano
   ============================================================================================= *)

(* the Elias-Fano capacity inequalities from the (cruder) bound the tie of from_slice was proved under *)
Lemma ef_cap_sum u m : 1 <= m -> m + 2 + u < 2 ^ 56 -> ef_cap u m.
Proof.
  intros Hm Hs. unfold ef_cap. set (l := low_len_of u m).
  change (2 ^ 56) with 72057594037927936 in *.
  assert (H1 : u / 2 ^ l <= u).
  { apply N.div_le_upper_bound; [apply N.pow_nonzero; discriminate|]. pose proof (pow2_pos l). nia. }
  assert (H2 : m * l <= u).
  { destruct (N.le_gt_cases m u) as [Hmu|Hmu].
    - pose proof (low_len_bounds u m Hm Hmu) as [Hlo _]. fold l in Hlo.
      pose proof (N.pow_gt_lin_r 2 l ltac:(lia)) as Hl.
      pose proof (N.mul_div_le u m ltac:(lia)) as Hd.
      assert (m * l <= m * (u / m)) by (apply N.mul_le_mono_l; lia). lia.
    - unfold l. rewrite (low_len_small u m Hmu). lia. }
  split; lia.
Qed.

Theorem e2e_psef_from_slice_nil : forall c, psef_from_slice c [] = Ok None.
Proof.
  intro c. rewrite tie_psef_from_slice; [apply ps_from_slice_nil|].
  vm_compute. reflexivity.
Qed.

(* hypothesis: n + sum + 3 < 2^56, the range under which Proofs/LoopsTieSeq.v ties psef_from_slice (it implies
   sum + 1 < 2^64 and the Elias-Fano capacity used by Props/C12) *)
Theorem e2e_psef : forall vals, vals <> [] -> lenN vals + sum_list vals + 3 < 2 ^ 56 ->
  exists p, (forall c, psef_from_slice c vals = Ok (Some p)) /\
    (forall c, psef_len c p = Ok (lenN vals)) /\
    (forall c, psef_sum c p = Ok (sum_list vals)) /\
    (forall c i, psef_access c p i = Ok (nth_opt vals i)) /\
    (forall c pos, pos < W ->
       psef_iter_next c {| pi_efl := p; pi_pos := pos |}
       = Ok (if pos <? lenN vals then ({| pi_efl := p; pi_pos := pos + 1 |}, nth_opt vals pos)
             else ({| pi_efl := p; pi_pos := pos |}, None))).
Proof.
  intros vals Hne Hs.
  assert (Hn : 1 <= lenN vals).
  { destruct vals as [|x r]; [congruence|]. rewrite lenN_cons. lia. }
  assert (Hs' : lenN vals + sum_list vals + 3 < 72057594037927936) by exact Hs.
  assert (HW : sum_list vals + 1 < W) by (unfold W; lia).
  assert (Hcap : ef_cap (sum_list vals + 1) (lenN vals)).
  { apply ef_cap_sum; [exact Hn|]. change (2 ^ 56) with 72057594037927936. lia. }
  destruct (ps_from_slice_ok_closed vals Hne HW Hcap) as (p & E & R).
  exists p. split; [|split; [|split; [|split]]].
  - intro c. rewrite tie_psef_from_slice by exact Hs. apply E.
  - intro c. rewrite tie_psef_len, (ps_len_spec p vals R). reflexivity.
  - intro c. rewrite tie_psef_sum. apply (ps_sum_spec p vals R).
  - intros c i. rewrite tie_psef_access. apply (ps_access_spec p vals R).
  - intros c pos Hp. rewrite tie_psef_iter_next. cbn [pi_efl pi_pos].
    unfold ps_iter_next. rewrite (ps_len_spec p vals R), (ps_access_spec p vals R c pos).
    destruct (N.ltb_spec pos (lenN vals)) as [Hlt|Hge]; [|reflexivity].
    rewrite (EFQueries.nth_opt_in vals pos Hlt). cbn [bind unwrap].
    rewrite add_ok by (unfold W; lia). reflexivity.
Qed.

(* =============================================================================================
   9. WaveletMatrix (three backing kinds)
   ============================================================================================= *)

(* every layer of a built matrix satisfies the record-range condition of the select ties *)
Lemma b_build_range c k bv b : wf bv -> cap_ok bv -> b_build c k bv = Ok b -> backing_range b.
Proof.
  intros Hwf Hcap. destruct k; unfold b_build.
  - rewrite r9_build_ok by assumption. cbn [bind]. intros [= <-]. cbn [backing_range].
    split; [|split]; [now apply r9_spec_brp_range | now apply r9_spec_h1_range | now apply r9_spec_h0_range].
  - destruct (da_build_cfg c bv true true); cbn [bind]; [|discriminate]. intros [= <-]. exact I.
  - intros [= <-]. cbn [backing_range]. now apply wf_cap_words_W.
Qed.

Lemma layers_build_range k w : 1 <= w -> w <= 64 ->
  forall fuel depth zeros ones layers c L,
    N.of_nat fuel + depth = w ->
    Forall (fun x => x < 2 ^ w) (zeros ++ ones) -> lenN (zeros ++ ones) < 2 ^ 50 ->
    Forall backing_range layers ->
    wm_layers_build c k w fuel depth zeros ones layers = Ok L -> Forall backing_range L.
Proof.
  intros Hw1 Hw2. induction fuel as [|m IH]; intros depth zeros ones layers c L Hd Hall Hlen HR E.
  - cbn [wm_layers_build] in E. injection E as <-. exact HR.
  - set (sh := N.of_nat m).
    assert (Hsh : sh < 64) by lia.
    pose proof Hall as Hall0.
    apply Forall_app in Hall. destruct Hall as [Hz Ho]. rewrite lenN_app in Hlen.
    assert (H5056 : 2 ^ 50 < 2 ^ 56) by (vm_compute; reflexivity).
    destruct (filter_fold k b_build_ok_holds c w sh Hw1 Hw2 Hsh zeros [] [] bv_empty Hz wf_empty) as [bv1 [E1 [W1 B1]]].
    { change (bv_len bv_empty) with 0. lia. }
    pose proof (bits_of_length bv1 W1) as L1. rewrite B1, bits_of_empty, lenN_app, lenN_map in L1.
    change (lenN (@nil bool)) with 0 in L1.
    destruct (filter_fold k b_build_ok_holds c w sh Hw1 Hw2 Hsh ones (filter (ntb sh) zeros) (filter (tb sh) zeros) bv1 Ho W1)
      as [bv2 [E2 [W2 B2]]].
    { lia. }
    assert (Hcap2 : cap_ok bv2).
    { unfold cap_ok. rewrite <- (bits_of_length bv2 W2), B2, B1, bits_of_empty, !lenN_app, !lenN_map.
      change (lenN (@nil bool)) with 0. lia. }
    cbn [wm_layers_build] in E.
    rewrite sub_ok in E by lia. cbn [bind] in E. rewrite sub_ok in E by lia. cbn [bind] in E.
    replace (w - depth - 1) with sh in E by lia.
    rewrite E1 in E. cbn [bind app] in E. rewrite E2 in E. cbn [bind] in E.
    destruct (b_build c k bv2) as [b|] eqn:Eb; cbn [bind] in E; [|discriminate].
    apply (IH (depth + 1) (filter (ntb sh) zeros ++ filter (ntb sh) ones)
              (filter (tb sh) zeros ++ filter (tb sh) ones) (layers ++ [b]) c L); [lia | | | | exact E].
    + rewrite <- !filter_app. apply (Forall_part _ sh). exact Hall0.
    + rewrite <- !filter_app. fold (part sh (zeros ++ ones)). rewrite lenN_part, lenN_app. exact Hlen.
    + apply Forall_app. split; [exact HR|]. constructor; [|constructor].
      apply (b_build_range c k bv2 b W2 Hcap2 Eb).
Qed.

Definition wm_in (s : list N) : Prop := s <> [] /\ max_list s + 1 < W /\ lenN s < 2 ^ 50.

Lemma wm_new_inv c k s wm : s <> [] -> wm_new c k s = Ok (Some wm) ->
  exists asz aw, add c (max_list s) 1 = Ok asz /\ needed_bits c asz = Ok aw /\
                 wm_layers_build c k aw (N.to_nat aw) 0 s [] [] = Ok (wm_layers wm).
Proof.
  intros Hne E. unfold wm_new in E. destruct s as [|x s']; [congruence|].
  fold (max_list (x :: s')) in E.
  destruct (add c (max_list (x :: s')) 1) as [asz|] eqn:E1; cbn [bind] in E; [|discriminate].
  destruct (needed_bits c asz) as [aw|] eqn:E2; cbn [bind] in E; [|discriminate].
  destruct (wm_layers_build c k aw (N.to_nat aw) 0 (x :: s') [] []) as [L|] eqn:E3; cbn [bind] in E; [|discriminate].
  injection E as <-. exists asz, aw. split; [reflexivity | split; [exact E2 | exact E3]].
Qed.

Lemma needed_bits_bitlen c a aw : 0 < a -> a < W -> needed_bits c a = Ok aw -> aw = bitlen a.
Proof.
  intros Ha HW E. destruct (bitlen_bounds a Ha HW) as (_ & Hb & _).
  unfold needed_bits, msb_spec in E. unfold bitlen in *.
  destruct (N.eqb_spec a 0) as [E0|E0]; [lia|].
  rewrite add_ok in E by (unfold W; lia). injection E as <-. reflexivity.
Qed.

Lemma wm_new_layers_range c k s wm : wm_in s -> wm_new c k s = Ok (Some wm) ->
  Forall backing_range (wm_layers wm) /\ lenN (wm_layers wm) < W.
Proof.
  intros (Hne & Hmax & Hlen) E.
  destruct (wm_new_closed k s (conj Hne (conj Hmax Hlen))) as (wm' & E' & _ & _ & Hwd).
  rewrite E' in E. injection E as <-.
  destruct (bitlen_bounds (max_list s + 1)) as [Hw1 [Hw2 Ha]]; [lia | exact Hmax |].
  split.
  - destruct (wm_new_inv c k s wm' Hne (E' c)) as (asz & aw & Ea & Eb & EL).
    rewrite add_ok in Ea by exact Hmax. injection Ea as <-.
    apply needed_bits_bitlen in Eb; [|lia | exact Hmax]. subst aw.
    apply (layers_build_range k _ Hw1 Hw2 (N.to_nat (bitlen (max_list s + 1))) 0 s [] [] c (wm_layers wm'));
      [lia | | | constructor | exact EL].
    + rewrite app_nil_r. apply Forall_forall. intros y Hy. pose proof (max_list_ge _ y Hy). lia.
    + rewrite app_nil_r. exact Hlen.
  - unfold wm_alph_width in Hwd. rewrite Hwd. unfold W. lia.
Qed.

(* WaveletMatrix::new on a CompactVector holding s (any width): one matrix for every configuration *)
Theorem e2e_wavelet_matrix_new : forall k seq s, wm_in s -> cv_inv seq s ->
  exists wm, (forall c, wavelet_matrix_new c k seq = Ok (Some wm)) /\
    (forall c, wavelet_matrix_len c wm = Ok (lenN s)) /\
    (forall c, wavelet_matrix_alph_size c wm = Ok (max_list s + 1)) /\
    (forall c, wavelet_matrix_alph_width c wm = Ok (bitlen (max_list s + 1))).
Proof.
  intros k seq s Hin Hinv. destruct (wm_new_closed k s Hin) as (wm & E & Hl & Ha & Hw).
  destruct Hin as (Hne & Hmax & Hlen).
  exists wm. split; [|split; [|split]].
  - intro c. rewrite (tie_wavelet_matrix_new c k seq s Hinv Hlen). apply E.
  - intro c. rewrite tie_wavelet_matrix_len, Hl. reflexivity.
  - intro c. rewrite tie_wavelet_matrix_alph_size, Ha. reflexivity.
  - intro c. rewrite tie_wavelet_matrix_alph_width, Hw. reflexivity.
Qed.

Theorem e2e_wavelet_matrix_new_empty : forall c k seq, cv_inv seq [] -> wavelet_matrix_new c k seq = Ok None.
Proof.
  intros c k seq Hinv. rewrite (tie_wavelet_matrix_new c k seq [] Hinv); [apply wm_new_empty|].
  vm_compute. reflexivity.
Qed.

(* every query of a matrix built by the generated constructor (in any configuration c0) *)
Lemma wm_new_model c0 k seq s wm : wm_in s -> cv_inv seq s ->
  wavelet_matrix_new c0 k seq = Ok (Some wm) -> wm_new c0 k s = Ok (Some wm).
Proof.
  intros Hin Hinv Hnew. destruct Hin as (_ & _ & Hlen).
  rewrite <- (tie_wavelet_matrix_new c0 k seq s Hinv Hlen). exact Hnew.
Qed.

Theorem e2e_wavelet_matrix_access : forall c0 k seq s wm,
  wm_in s -> cv_inv seq s -> wavelet_matrix_new c0 k seq = Ok (Some wm) ->
  forall c i, i < W -> wavelet_matrix_access c wm i = Ok (SeqSpec.nth_opt s i).
Proof.
  intros c0 k seq s wm Hin Hinv Hnew c i Hi. pose proof (wm_new_model c0 k seq s wm Hin Hinv Hnew) as M.
  rewrite tie_wavelet_matrix_access. apply (wm_access_closed c0 k s wm Hin M c i Hi).
Qed.

Theorem e2e_wavelet_matrix_rank : forall c0 k seq s wm,
  wm_in s -> cv_inv seq s -> wavelet_matrix_new c0 k seq = Ok (Some wm) ->
  forall c i v, i < W -> v < W -> wavelet_matrix_rank c wm i v = Ok (SeqSpec.wm_rank_range s 0 i v).
Proof.
  intros c0 k seq s wm Hin Hinv Hnew c i v Hi Hv. pose proof (wm_new_model c0 k seq s wm Hin Hinv Hnew) as M.
  rewrite tie_wavelet_matrix_rank. apply (wm_rank_closed c0 k s wm Hin M c i v Hi Hv).
Qed.

Theorem e2e_wavelet_matrix_rank_range : forall c0 k seq s wm,
  wm_in s -> cv_inv seq s -> wavelet_matrix_new c0 k seq = Ok (Some wm) ->
  forall c a b v, a < W -> b < W -> v < W ->
  wavelet_matrix_rank_range c wm (a, b) v = Ok (SeqSpec.wm_rank_range s a b v).
Proof.
  intros c0 k seq s wm Hin Hinv Hnew c a b v Ha Hb Hv. pose proof (wm_new_model c0 k seq s wm Hin Hinv Hnew) as M.
  rewrite tie_wavelet_matrix_rank_range. cbn [fst snd]. apply (wm_rank_range_closed c0 k s wm Hin M c a b v Ha Hb Hv).
Qed.

Theorem e2e_wavelet_matrix_select : forall c0 k seq s wm,
  wm_in s -> cv_inv seq s -> wavelet_matrix_new c0 k seq = Ok (Some wm) ->
  forall c j v, j < W -> v < W -> wavelet_matrix_select c wm j v = Ok (SeqSpec.wm_select s j v).
Proof.
  intros c0 k seq s wm Hin Hinv Hnew c j v Hj Hv. pose proof (wm_new_model c0 k seq s wm Hin Hinv Hnew) as M.
  destruct (wm_new_layers_range c0 k s wm Hin M) as [HR HL].
  rewrite tie_wavelet_matrix_select by assumption. apply (wm_select_closed c0 k s wm Hin M c j v Hj Hv).
Qed.

Theorem e2e_wavelet_matrix_quantile : forall c0 k seq s wm,
  wm_in s -> cv_inv seq s -> wavelet_matrix_new c0 k seq = Ok (Some wm) ->
  forall c a b j, a < W -> b < W -> j < W ->
  wavelet_matrix_quantile c wm (a, b) j = Ok (SeqSpec.wm_quantile s a b j).
Proof.
  intros c0 k seq s wm Hin Hinv Hnew c a b j Ha Hb Hj. pose proof (wm_new_model c0 k seq s wm Hin Hinv Hnew) as M.
  rewrite tie_wavelet_matrix_quantile. cbn [fst snd]. apply (wm_quantile_closed c0 k s wm Hin M c a b j Ha Hb Hj).
Qed.

Theorem e2e_wavelet_matrix_intersect : forall c0 k seq s wm,
  wm_in s -> cv_inv seq s -> wavelet_matrix_new c0 k seq = Ok (Some wm) ->
  forall c rs j, wavelet_matrix_intersect c wm rs j = Ok (SeqSpec.wm_intersect s rs j).
Proof.
  intros c0 k seq s wm Hin Hinv Hnew c rs j. pose proof (wm_new_model c0 k seq s wm Hin Hinv Hnew) as M.
  destruct (wm_new_layers_range c0 k s wm Hin M) as [HR HL].
  rewrite tie_wavelet_matrix_intersect by assumption. apply (wm_intersect_closed c0 k s wm Hin M c rs j).
Qed.

Theorem e2e_wavelet_matrix_iter_next : forall c0 k seq s wm,
  wm_in s -> cv_inv seq s -> wavelet_matrix_new c0 k seq = Ok (Some wm) ->
  forall c pos, pos < W ->
  wavelet_matrix_iter_next c {| wi_wm := wm; wi_pos := pos |}
  = Ok (if pos <? lenN s then ({| wi_wm := wm; wi_pos := pos + 1 |}, SeqSpec.nth_opt s pos)
        else ({| wi_wm := wm; wi_pos := pos |}, None)).
Proof.
  intros c0 k seq s wm Hin Hinv Hnew c pos Hp. pose proof (wm_new_model c0 k seq s wm Hin Hinv Hnew) as M.
  rewrite tie_wavelet_matrix_iter_next. cbn [wi_wm wi_pos].
  destruct (wm_new_closed k s Hin) as (wm' & E' & Hl & _).
  assert (wm' = wm) by (pose proof M as M'; rewrite E' in M'; now injection M'). subst wm'.
  rewrite wm_iter_next_shape. unfold index_next. rewrite Hl.
  destruct (N.ltb_spec pos (lenN s)) as [Hlt|Hge]; [|reflexivity].
  rewrite (wm_access_closed c0 k s wm Hin M c pos Hp).
  rewrite (EFQueries.nth_opt_in s pos Hlt). cbn [bind unwrap].
  destruct Hin as (_ & _ & Hlen). change (2 ^ 50) with 1125899906842624 in Hlen.
  rewrite add_ok by (unfold W; lia). reflexivity.
Qed.

(* the composed statement: compact_vector_from_slice (generated) then wavelet_matrix_new (generated), then every
   query; s non-empty, values below 2^64 - 1, fewer than 2^50 of them; k ranges over the three backings *)
Lemma wm_in_cv s : wm_in s -> Forall (fun x => x < W) s /\ lenN s * bitlen (max_list s) < 2 ^ 56.
Proof.
  intros (Hne & Hmax & Hlen). split.
  - apply Forall_forall. intros x Hx. pose proof (max_list_ge s x Hx). lia.
  - assert (Hb : bitlen (max_list s) <= 64).
    { unfold bitlen. destruct (N.eqb_spec (max_list s) 0) as [|Hnz]; [lia|].
      destruct (bitlen_bounds (max_list s)) as (_ & H & _); [lia | lia |].
      unfold bitlen in H. destruct (N.eqb_spec (max_list s) 0); [contradiction | exact H]. }
    change (2 ^ 50) with 1125899906842624 in Hlen. change (2 ^ 56) with 72057594037927936. nia.
Qed.

Theorem e2e_wavelet_matrix : forall k s, wm_in s ->
  exists seq wm,
    (forall c, compact_vector_from_slice c s = Ok (Some seq)) /\
    (forall c, wavelet_matrix_new c k seq = Ok (Some wm)) /\
    (forall c, wavelet_matrix_len c wm = Ok (lenN s)) /\
    (forall c, wavelet_matrix_alph_size c wm = Ok (max_list s + 1)) /\
    (forall c i, i < W -> wavelet_matrix_access c wm i = Ok (SeqSpec.nth_opt s i)) /\
    (forall c i v, i < W -> v < W -> wavelet_matrix_rank c wm i v = Ok (SeqSpec.wm_rank_range s 0 i v)) /\
    (forall c a b v, a < W -> b < W -> v < W ->
       wavelet_matrix_rank_range c wm (a, b) v = Ok (SeqSpec.wm_rank_range s a b v)) /\
    (forall c j v, j < W -> v < W -> wavelet_matrix_select c wm j v = Ok (SeqSpec.wm_select s j v)) /\
    (forall c a b j, a < W -> b < W -> j < W ->
       wavelet_matrix_quantile c wm (a, b) j = Ok (SeqSpec.wm_quantile s a b j)) /\
    (forall c rs j, wavelet_matrix_intersect c wm rs j = Ok (SeqSpec.wm_intersect s rs j)).
Proof.
  intros k s Hin. destruct (wm_in_cv s Hin) as [Hall Hcap]. pose proof Hin as (Hne & _ & _).
  pose (c1 := {| dbg := true; intr := false |}).
  destruct (e2e_compact_vector_from_slice c1 s Hne Hall Hcap) as (seq & _ & R & Hw).
  assert (Hinv : cv_inv seq s) by (apply cv_rep_inv in R; apply R).
  destruct (e2e_wavelet_matrix_new k seq s Hin Hinv) as (wm & E & Hl & Ha & _).
  exists seq, wm. split; [|split; [exact E | split; [exact Hl | split; [exact Ha|]]]].
  - intro c. destruct (e2e_compact_vector_from_slice c s Hne Hall Hcap) as (seq' & E' & R' & Hw').
    assert (seq' = seq) by (apply (cv_rep_canonical seq' seq s R' R); rewrite Hw', Hw; reflexivity).
    subst seq'. exact E'.
  - split; [exact (e2e_wavelet_matrix_access c1 k seq s wm Hin Hinv (E c1))|].
    split; [exact (e2e_wavelet_matrix_rank c1 k seq s wm Hin Hinv (E c1))|].
    split; [exact (e2e_wavelet_matrix_rank_range c1 k seq s wm Hin Hinv (E c1))|].
    split; [exact (e2e_wavelet_matrix_select c1 k seq s wm Hin Hinv (E c1))|].
    split; [exact (e2e_wavelet_matrix_quantile c1 k seq s wm Hin Hinv (E c1))|].
    exact (e2e_wavelet_matrix_intersect c1 k seq s wm Hin Hinv (E c1)).
Qed.

(* =============================================================================================
   10. broadword (gen/BroadwordGen.v): the C14 theorems are already about the generated code
   ============================================================================================= *)

Theorem e2e_broadword_popcount : forall c x, x < W -> BroadwordGen.popcount c x = Ok (popcN x).
Proof. exact C14_Popcount.popcount_correct. Qed.
Theorem e2e_broadword_lsb : forall c x, x < W -> BroadwordGen.lsb c x = Ok (lsb_spec x).
Proof. exact C14_Lsb.lsb_correct. Qed.
Theorem e2e_broadword_msb : forall c x, x < W -> BroadwordGen.msb c x = Ok (msb_spec x).
Proof. exact C14_Msb.msb_correct. Qed.
Theorem e2e_broadword_select_in_word : forall c x k, x < W -> k < W ->
  BroadwordGen.select_in_word c x k = Ok (select_in_word_spec x k).
Proof. exact C14_Select.select_in_word_correct. Qed.
