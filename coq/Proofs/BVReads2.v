(* Proofs/BVReads2.v — property C07 (a), second half: select1/select0, successor1/0,
   predecessor1/0 of the BitVector model equal the plain bit-sequence specification, for
   every argument of usize. *)
From Sucds Require Import Base.Res Spec.WordSpec Spec.BitSpec Model.BitVector
  Proofs.ResLemmas Proofs.BVAbs Proofs.WordLemmas Proofs.BVReads.
From Coq Require Import ZArith ZifyN ZifyBool ZifyNat Lia.
Ltac Zify.zify_post_hook ::= Z.div_mod_to_equations.
Open Scope N_scope.

(* ---------- positions_from algebra ---------- *)

Lemma positions_from_app v l1 : forall l2 o,
  positions_from v (l1 ++ l2) o = positions_from v l1 o ++ positions_from v l2 (o + lenN l1).
Proof.
  induction l1 as [|x l1 IH]; intros l2 o.
  - cbn [app positions_from]. rewrite lenN_nil, N.add_0_r. reflexivity.
  - cbn [app positions_from]. rewrite IH, lenN_cons.
    replace (o + 1 + lenN l1) with (o + (lenN l1 + 1)) by lia.
    destruct (Bool.eqb x v); reflexivity.
Qed.

Lemma positions_from_len v l : forall o, lenN (positions_from v l o) = count v l.
Proof.
  induction l as [|x l IH]; intro o; [reflexivity|].
  cbn [positions_from count]. destruct (Bool.eqb x v).
  - rewrite lenN_cons, IH. lia.
  - rewrite IH. lia.
Qed.

Lemma positions_from_range v l : forall o p, In p (positions_from v l o) -> o <= p < o + lenN l.
Proof.
  induction l as [|x l IH]; intros o p H; [destruct H|].
  cbn [positions_from] in H. rewrite lenN_cons.
  destruct (Bool.eqb x v).
  - destruct H as [<-|H]; [lia|]. apply IH in H. lia.
  - apply IH in H. lia.
Qed.

Lemma positions_from_shift v l : forall o a,
  positions_from v l (o + a) = map (N.add o) (positions_from v l a).
Proof.
  induction l as [|x l IH]; intros o a; [reflexivity|].
  cbn [positions_from]. replace (o + a + 1) with (o + (a + 1)) by lia. rewrite IH.
  destruct (Bool.eqb x v); reflexivity.
Qed.

Lemma positions_from_none v l : (forall x, In x l -> x <> v) -> forall o, positions_from v l o = [].
Proof.
  induction l as [|x l IH]; intros H o; [reflexivity|].
  cbn [positions_from]. destruct (Bool.eqb x v) eqn:E.
  - apply eqb_prop in E. exfalso. apply (H x); [left; reflexivity | exact E].
  - apply IH. intros y Hy. apply H. right. exact Hy.
Qed.

Lemma filter_positions_nil v (f : N -> bool) l : forall o,
  (forall j, nth_error l j = Some v -> f (o + N.of_nat j) = false) ->
  filter f (positions_from v l o) = [].
Proof.
  induction l as [|x l IH]; intros o H; [reflexivity|].
  assert (Hr : filter f (positions_from v l (o + 1)) = []).
  { apply IH. intros j Hj. replace (o + 1 + N.of_nat j) with (o + N.of_nat (S j)) by lia.
    apply H. exact Hj. }
  cbn [positions_from]. destruct (Bool.eqb x v) eqn:E; [|exact Hr].
  apply eqb_prop in E. subst x. cbn [filter].
  specialize (H 0%nat eq_refl). change (N.of_nat 0) with 0 in H. rewrite N.add_0_r in H.
  rewrite H. exact Hr.
Qed.

(* ---------- select as a scan ---------- *)

Definition selF (v : bool) (l : list bool) (o k : N) : option N :=
  nth_error (positions_from v l o) (N.to_nat k).

Lemma select_selF v l k : select v l k = selF v l 0 k.
Proof. apply select_nth_error. Qed.

Lemma selF_app v l1 l2 o k :
  selF v (l1 ++ l2) o k =
  if k <? count v l1 then selF v l1 o k else selF v l2 (o + lenN l1) (k - count v l1).
Proof.
  unfold selF. rewrite positions_from_app.
  pose proof (positions_from_len v l1 o) as Hl. unfold lenN in Hl.
  destruct (N.ltb_spec k (count v l1)) as [H|H].
  - apply nth_error_app1. lia.
  - rewrite nth_error_app2 by lia. f_equal. lia.
Qed.

Lemma selF_shift v l o k : selF v l o k = option_map (N.add o) (selF v l 0 k).
Proof.
  unfold selF. rewrite <- (N.add_0_r o) at 1. rewrite positions_from_shift.
  apply nth_error_map.
Qed.

Lemma selF_range v l o k t : selF v l o k = Some t -> o <= t < o + lenN l.
Proof. unfold selF. intro H. apply nth_error_In in H. apply positions_from_range in H. exact H. Qed.

Lemma selF_some v l o k : k < count v l -> exists t, selF v l o k = Some t.
Proof.
  intro H. unfold selF. destruct (nth_error _ _) as [t|] eqn:E; [eauto|].
  apply nth_error_None in E. pose proof (positions_from_len v l o) as Hl. unfold lenN in Hl. lia.
Qed.

Definition adj (inv : bool) (w : N) : N := if inv then not64 w else w.

Lemma adj_lt inv w : w < W -> adj inv w < W.
Proof. intro H. destruct inv; cbn [adj]; [apply not64_lt, H | exact H]. Qed.

Lemma count_word_adj inv w : w < W -> count (negb inv) (word_bits w) = popcN (adj inv w).
Proof.
  intro H. destruct inv; cbn [negb adj].
  - apply count_false_word_bits, H.
  - apply count_word_bits, H.
Qed.

Lemma selF_word_adj inv w k : w < W ->
  selF (negb inv) (word_bits w) 0 k = select_in_word_spec (adj inv w) k.
Proof.
  intro H. rewrite select_in_word_select by (apply adj_lt, H). rewrite select_selF.
  destruct inv; cbn [negb adj]; [|reflexivity].
  unfold selF. rewrite positions_from_false_map_negb, <- word_bits_not64. reflexivity.
Qed.

Lemma select_scan_spec c inv k : k < W -> forall ws, Forall (fun w => w < W) ws ->
  forall wpos cur, cur <= k -> cur + 64 * lenN ws < W -> wpos + lenN ws < W ->
  (forall t, selF (negb inv) (flat_bits ws) (64 * wpos) (k - cur) = Some t ->
     exists wp cu w, select_scan c inv ws k wpos cur = Ok (Some (wp, cu, w)) /\
       cu <= k /\ wp < wpos + lenN ws /\
       option_map (N.add (64 * wp)) (select_in_word_spec w (k - cu)) = Some t) /\
  (selF (negb inv) (flat_bits ws) (64 * wpos) (k - cur) = None ->
     select_scan c inv ws k wpos cur = Ok None).
Proof.
  intros Hk ws Hall. induction Hall as [|w ws Hw Hws IH]; intros wpos cur Hcur Hb Hwp.
  - split; [|reflexivity]. intros t Ht. unfold selF in Ht. change (flat_bits []) with (@nil bool) in Ht.
    cbn [positions_from] in Ht. rewrite nth_error_nil_N in Ht. discriminate.
  - rewrite lenN_cons in Hb, Hwp. rewrite lenN_cons.
    rewrite flat_bits_cons, selF_app. rewrite count_word_adj by exact Hw.
    cbn [select_scan]. fold (adj inv w).
    pose proof (popcN_le_64 _ (adj_lt inv w Hw)) as Hp.
    rewrite add_ok by lia. cbn [bind].
    assert (Hlw : lenN (word_bits w) = 64) by (unfold lenN; rewrite word_bits_length; reflexivity).
    destruct (N.ltb_spec k (cur + popcN (adj inv w))) as [Hlt|Hge];
      destruct (N.ltb_spec (k - cur) (popcN (adj inv w))) as [Hlt'|Hge']; try lia.
    + rewrite selF_shift, selF_word_adj by exact Hw. split.
      * intros t Ht. exists wpos, cur, (adj inv w). repeat split; [exact Hcur | lia | exact Ht].
      * intro Hn. exfalso.
        destruct (selF_some (negb inv) (word_bits w) 0 (k - cur)) as [t Ht].
        { rewrite count_word_adj by exact Hw. exact Hlt'. }
        rewrite selF_word_adj in Ht by exact Hw. rewrite Ht in Hn. discriminate.
    + rewrite add_ok by lia. cbn [bind]. rewrite Hlw.
      replace (64 * wpos + 64) with (64 * (wpos + 1)) by lia.
      replace (k - cur - popcN (adj inv w)) with (k - (cur + popcN (adj inv w))) by lia.
      destruct (IH (wpos + 1) (cur + popcN (adj inv w))) as [IH1 IH2]; try lia.
      split; [|exact IH2].
      intros t Ht. destruct (IH1 t Ht) as [wp [cu [w' [E [H1 [H2 H3]]]]]].
      exists wp, cu, w'. repeat split; [exact E | exact H1 | lia | exact H3].
Qed.

(* the bits above len are all zero: positions of 1-bits are those of the denoted sequence *)
Lemma flat_bits_split bv : flat_bits (bv_words bv)
  = bits_of bv ++ skipn (N.to_nat (bv_len bv)) (flat_bits (bv_words bv)).
Proof. unfold bits_of. symmetry. apply firstn_skipn. Qed.

Lemma flat_tail_false bv x : wf bv ->
  In x (skipn (N.to_nat (bv_len bv)) (flat_bits (bv_words bv))) -> x = false.
Proof.
  intros Hwf Hin. apply (In_nth _ _ false) in Hin. destruct Hin as [n [Hn Hx]].
  rewrite nth_skipn_add in Hx. rewrite skipn_length, flat_bits_length in Hn.
  replace (N.to_nat (bv_len bv) + n)%nat with (N.to_nat (bv_len bv + N.of_nat n)) in Hx by lia.
  rewrite flat_bits_nth in Hx by (unfold lenN; lia).
  rewrite wf_wbit_high in Hx by (try exact Hwf; lia). symmetry. exact Hx.
Qed.

Lemma cap_W bv : cap_ok bv -> bv_len bv < 72057594037927936.
Proof. unfold cap_ok. change (2 ^ 56) with 72057594037927936. auto. Qed.

Lemma select_tail_common c bv k wp cu w t :
  wf bv -> cap_ok bv -> cu <= k -> wp < lenN (bv_words bv) -> t < 64 * lenN (bv_words bv) ->
  option_map (N.add (64 * wp)) (select_in_word_spec w (k - cu)) = Some t ->
  forall (K : N -> res (option N)),
  (a <- mul c wp WORD_LEN ;; d <- sub c k cu ;; p <- unwrap (select_in_word_spec w d) ;;
   t' <- add c a p ;; K t') = K t.
Proof.
  intros Hwf Hcap Hcu Hwp Ht Hsel K. unfold WORD_LEN.
  pose proof (wf_nwords bv Hwf) as Hn. pose proof (cap_W bv Hcap) as Hc.
  rewrite mul_ok by (unfold W; lia). cbn [bind]. rewrite sub_ok by exact Hcu. cbn [bind].
  destruct (select_in_word_spec w (k - cu)) as [q|]; [|discriminate].
  cbn [option_map] in Hsel. injection Hsel as Hq. cbn [unwrap bind].
  rewrite add_ok by (unfold W; lia). cbn [bind]. f_equal. lia.
Qed.

Theorem select1_spec c bv k : wf bv -> cap_ok bv -> k < W ->
  BitVector.select1 c bv k = Ok (BitSpec.select true (bits_of bv) k).
Proof.
  intros Hwf Hcap Hk. unfold BitVector.select1.
  pose proof (wf_nwords bv Hwf) as Hn. pose proof (cap_W bv Hcap) as Hc.
  assert (Hall : Forall (fun w => w < W) (bv_words bv)) by (destruct Hwf as [_ [H _]]; exact H).
  assert (Hsel : select true (bits_of bv) k = selF true (flat_bits (bv_words bv)) 0 k).
  { rewrite select_selF. unfold selF. rewrite (flat_bits_split bv) at 1.
    rewrite positions_from_app.
    rewrite (positions_from_none true (skipn _ _)).
    - rewrite app_nil_r. reflexivity.
    - intros x Hx. rewrite (flat_tail_false bv x Hwf Hx). discriminate. }
  rewrite Hsel.
  destruct (select_scan_spec c false k Hk (bv_words bv) Hall 0 0) as [S1 S2];
    try (unfold W; lia).
  rewrite N.sub_0_r, N.mul_0_r in S1, S2. cbn [negb] in S1, S2.
  destruct (selF true (flat_bits (bv_words bv)) 0 k) as [t|] eqn:E.
  - destruct (S1 t eq_refl) as [wp [cu [w [Es [H1 [H2 H3]]]]]]. rewrite Es. cbn [bind].
    apply selF_range in E. unfold lenN in E. rewrite flat_bits_length in E.
    rewrite (select_tail_common c bv k wp cu w t) by
      (try assumption; unfold lenN; lia).
    reflexivity.
  - rewrite (S2 eq_refl). reflexivity.
Qed.

Theorem select0_spec c bv k : wf bv -> cap_ok bv -> k < W ->
  BitVector.select0 c bv k = Ok (BitSpec.select false (bits_of bv) k).
Proof.
  intros Hwf Hcap Hk. unfold BitVector.select0.
  pose proof (wf_nwords bv Hwf) as Hn. pose proof (cap_W bv Hcap) as Hc.
  assert (Hall : Forall (fun w => w < W) (bv_words bv)) by (destruct Hwf as [_ [H _]]; exact H).
  pose proof (bits_of_length bv Hwf) as Hbl.
  assert (Hsel : selF false (flat_bits (bv_words bv)) 0 k =
     if k <? count false (bits_of bv) then selF false (bits_of bv) 0 k
     else selF false (skipn (N.to_nat (bv_len bv)) (flat_bits (bv_words bv))) (bv_len bv)
                (k - count false (bits_of bv))).
  { rewrite (flat_bits_split bv) at 1. rewrite selF_app, Hbl, N.add_0_l. reflexivity. }
  destruct (select_scan_spec c true k Hk (bv_words bv) Hall 0 0) as [S1 S2];
    try (unfold W; lia).
  rewrite N.sub_0_r, N.mul_0_r in S1, S2. cbn [negb] in S1, S2.
  rewrite select_selF.
  destruct (selF false (flat_bits (bv_words bv)) 0 k) as [t|] eqn:E.
  - destruct (S1 t eq_refl) as [wp [cu [w [Es [H1 [H2 H3]]]]]]. rewrite Es. cbn [bind].
    pose proof (selF_range _ _ _ _ _ E) as Er. unfold lenN in Er. rewrite flat_bits_length in Er.
    rewrite (select_tail_common c bv k wp cu w t) by
      (try assumption; unfold lenN; lia).
    f_equal.
    destruct (N.ltb_spec k (count false (bits_of bv))) as [Hlt|Hge].
    + rewrite <- Hsel. symmetry in Hsel. apply selF_range in Hsel. rewrite Hbl in Hsel.
      destruct (N.ltb_spec t (bv_len bv)) as [Ht|Ht]; [reflexivity | lia].
    + symmetry in Hsel. apply selF_range in Hsel.
      destruct (N.ltb_spec t (bv_len bv)) as [Ht|Ht]; [lia|].
      symmetry. unfold selF. apply nth_error_None.
      pose proof (positions_from_len false (bits_of bv) 0) as Hl. unfold lenN in Hl. lia.
  - rewrite (S2 eq_refl). cbn [bind]. f_equal.
    destruct (N.ltb_spec k (count false (bits_of bv))) as [Hlt|Hge].
    + exact Hsel.
    + symmetry. unfold selF. apply nth_error_None.
      pose proof (positions_from_len false (bits_of bv) 0) as Hl. unfold lenN in Hl. lia.
Qed.

(* ---------- pred / succ of the specification, pointwise introduction rules ---------- *)

Lemma last_opt_snoc {A} (l : list A) x : last_opt (l ++ [x]) = Some x.
Proof.
  induction l as [|y l IH]; [reflexivity|]. cbn [app].
  destruct (l ++ [x]) as [|a r] eqn:E; [destruct l; discriminate|].
  change (last_opt (a :: r) = Some x). exact IH.
Qed.

Lemma nth_error_lt {A} (l : list A) n x : nth_error l n = Some x -> (n < length l)%nat.
Proof. intro H. apply nth_error_Some. rewrite H. discriminate. Qed.

Lemma succ_intro v l i p : i <= p -> nth_error l (N.to_nat p) = Some v ->
  (forall j, i <= j < p -> nth_error l (N.to_nat j) <> Some v) -> succ v l i = Some p.
Proof.
  intros Hip Hp Hlow. unfold succ.
  pose proof (nth_error_lt _ _ _ Hp) as Hpl.
  destruct (N.ltb_spec i (lenN l)) as [_|H]; [|unfold lenN in H; lia].
  destruct (nth_error_split l _ Hp) as [l1 [l2 [El Hl1]]]. subst l.
  unfold positions. rewrite positions_from_app. cbn [positions_from]. rewrite eqb_reflx.
  rewrite filter_app. rewrite filter_positions_nil.
  - cbn [app filter]. replace (0 + lenN l1) with p by (unfold lenN; lia).
    destruct (N.leb_spec i p) as [_|H]; [reflexivity | lia].
  - intros j Hj. rewrite N.add_0_l. apply N.leb_gt.
    pose proof (nth_error_lt _ _ _ Hj) as Hjl.
    destruct (N.lt_ge_cases (N.of_nat j) i) as [Hlt|Hge]; [exact Hlt|]. exfalso.
    apply (Hlow (N.of_nat j)); [lia|]. rewrite Nat2N.id, nth_error_app1 by lia. exact Hj.
Qed.

Lemma succ_none v l i :
  (forall j, i <= j < lenN l -> nth_error l (N.to_nat j) <> Some v) -> succ v l i = None.
Proof.
  intro H. unfold succ. destruct (i <? lenN l); [|reflexivity].
  unfold positions. rewrite filter_positions_nil; [reflexivity|].
  intros j Hj. rewrite N.add_0_l. apply N.leb_gt.
  pose proof (nth_error_lt _ _ _ Hj) as Hjl.
  destruct (N.lt_ge_cases (N.of_nat j) i) as [Hlt|Hge]; [exact Hlt|]. exfalso.
  apply (H (N.of_nat j)); [unfold lenN; lia|]. rewrite Nat2N.id. exact Hj.
Qed.

Lemma pred_intro v l i p : p <= i -> i < lenN l -> nth_error l (N.to_nat p) = Some v ->
  (forall j, p < j <= i -> nth_error l (N.to_nat j) <> Some v) -> pred v l i = Some p.
Proof.
  intros Hpi Hil Hp Hhigh. unfold pred.
  destruct (N.ltb_spec i (lenN l)) as [_|H]; [|lia].
  destruct (nth_error_split l _ Hp) as [l1 [l2 [El Hl1]]]. subst l.
  unfold positions. rewrite positions_from_app. cbn [positions_from]. rewrite eqb_reflx.
  rewrite filter_app. cbn [filter].
  replace (0 + lenN l1) with p by (unfold lenN; lia).
  destruct (N.leb_spec p i) as [_|H]; [|lia].
  rewrite (filter_positions_nil v _ l2).
  - apply last_opt_snoc.
  - intros j Hj. apply N.leb_gt.
    destruct (N.lt_ge_cases i (p + 1 + N.of_nat j)) as [Hlt|Hge]; [exact Hlt|]. exfalso.
    apply (Hhigh (p + 1 + N.of_nat j)); [lia|].
    rewrite nth_error_app2 by lia.
    replace (N.to_nat (p + 1 + N.of_nat j) - length l1)%nat with (S j) by lia. exact Hj.
Qed.

Lemma pred_none v l i :
  (forall j, j <= i -> nth_error l (N.to_nat j) <> Some v) -> pred v l i = None.
Proof.
  intro H. unfold pred. destruct (i <? lenN l); [|reflexivity].
  unfold positions. rewrite filter_positions_nil; [reflexivity|].
  intros j Hj. rewrite N.add_0_l. apply N.leb_gt.
  destruct (N.lt_ge_cases i (N.of_nat j)) as [Hlt|Hge]; [exact Hlt|]. exfalso.
  apply (H (N.of_nat j)); [lia|]. rewrite Nat2N.id. exact Hj.
Qed.

(* ---------- the (possibly complemented) bit at a position ---------- *)

Definition vb (inv : bool) (ws : list N) (j : N) : bool := xorb inv (wbit ws j).

Lemma adj_testbit inv ws b j : j < 64 ->
  N.testbit (adj inv (nthN ws b 0)) j = vb inv ws (64 * b + j).
Proof.
  intro H. unfold vb. rewrite wbit_split by exact H. destruct inv; cbn [adj xorb].
  - rewrite testbit_not64 by exact H. reflexivity.
  - destruct (N.testbit _ _); reflexivity.
Qed.

Lemma vb_true inv ws j : vb inv ws j = true -> wbit ws j = negb inv.
Proof. unfold vb. destruct inv, (wbit ws j); cbn; congruence. Qed.
Lemma vb_false inv ws j : vb inv ws j = false -> Some (wbit ws j) <> Some (negb inv).
Proof. unfold vb. destruct inv, (wbit ws j); cbn; congruence. Qed.

(* ---------- successor ---------- *)

Definition SuccR inv ws len pos (res : option N) : Prop :=
  match res with
  | Some p => pos <= p < len /\ vb inv ws p = true /\ forall j, pos <= j < p -> vb inv ws j = false
  | None => forall j, pos <= j < len -> vb inv ws j = false
  end.

Lemma skipn_cons_inv {A} (d : A) n : forall l x r, skipn n l = x :: r -> x = nth n l d /\ r = skipn (S n) l.
Proof.
  induction n as [|n IH]; intros l x r H.
  - cbn [skipn] in H. subst l. split; reflexivity.
  - destruct l as [|y l]; [discriminate|]. cbn [skipn] in H. apply IH in H. exact H.
Qed.

Section SuccScan.
Variables (c : cfg) (inv : bool) (len : N) (ws : list N) (pos : N).
Hypothesis Hall : Forall (fun w => w < W) ws.
Hypothesis Hlen : lenN ws < 2251799813685248.

Lemma scan_below block word j :
  (forall j, j < 64 -> N.testbit word j = (pos <=? 64 * block + j) && vb inv ws (64 * block + j)) ->
  (forall j, pos <= j < 64 * block -> vb inv ws j = false) ->
  pos <= j -> j < 64 * (block + 1) ->
  (64 * block <= j -> N.testbit word (j - 64 * block) = false) ->
  vb inv ws j = false.
Proof.
  intros Hbits Hlow H1 H2 H3.
  destruct (N.lt_ge_cases j (64 * block)) as [Hlt|Hge]; [apply Hlow; lia|].
  specialize (H3 Hge). rewrite Hbits in H3 by lia.
  replace (64 * block + (j - 64 * block)) with j in H3 by lia.
  destruct (N.leb_spec pos j) as [_|H]; [|lia]. exact H3.
Qed.

Lemma succ_found block word ret :
  block < lenN ws -> word < W ->
  (forall j, j < 64 -> N.testbit word j = (pos <=? 64 * block + j) && vb inv ws (64 * block + j)) ->
  (forall j, pos <= j < 64 * block -> vb inv ws j = false) ->
  lsb_spec word = Some ret ->
  exists res, (t <- mul c block WORD_LEN ;; t <- add c t ret ;; Ok (if t <? len then Some t else None)) = Ok res
              /\ SuccR inv ws len pos res.
Proof.
  intros Hblk Hword Hbits Hlow E. apply lsb_spec_Some in E. destruct E as [E1 E2].
  pose proof (testbit_true_lt64 _ _ Hword E1) as Hret. unfold WORD_LEN.
  rewrite mul_ok by (unfold W; lia). cbn [bind]. rewrite add_ok by (unfold W; lia). cbn [bind].
  replace (block * 64 + ret) with (64 * block + ret) by lia.
  pose proof (Hbits ret Hret) as Hb. rewrite E1 in Hb. symmetry in Hb.
  apply andb_true_iff in Hb. destruct Hb as [Hb1 Hb2]. apply N.leb_le in Hb1.
  assert (Hbelow : forall j, pos <= j < 64 * block + ret -> vb inv ws j = false).
  { intros j Hj. apply (scan_below block word j Hbits Hlow); try lia.
    intro Hge. apply E2. lia. }
  eexists. split; [reflexivity|].
  destruct (N.ltb_spec (64 * block + ret) len) as [Ht|Ht]; cbn [SuccR].
  - repeat split; [exact Hb1 | exact Ht | exact Hb2 | exact Hbelow].
  - intros j Hj. apply Hbelow. lia.
Qed.

Lemma succ_scan_spec : len <= 64 * lenN ws ->
  forall after block word,
   after = skipn (S (N.to_nat block)) ws -> block < lenN ws ->
   word < W -> pos < 64 * (block + 1) ->
   (forall j, j < 64 -> N.testbit word j = (pos <=? 64 * block + j) && vb inv ws (64 * block + j)) ->
   (forall j, pos <= j < 64 * block -> vb inv ws j = false) ->
   exists res, succ_scan c inv len after block word = Ok res /\ SuccR inv ws len pos res.
Proof.
  intros Hcov after. induction after as [|w r IH]; intros block word Haft Hblk Hword Hpos Hbits Hlow.
  - assert (Hlast : lenN ws = block + 1).
    { pose proof (f_equal (@length N) Haft) as Hl. rewrite skipn_length in Hl. cbn [length] in Hl.
      unfold lenN in *. lia. }
    cbn [succ_scan]. destruct (lsb_spec word) as [ret|] eqn:E.
    + apply (succ_found block word ret); assumption.
    + rewrite add_ok by (unfold W; lia). cbn [bind]. exists None. split; [reflexivity|].
      cbn [SuccR]. intros j Hj. apply lsb_spec_None in E. subst word.
      apply (scan_below block 0 j Hbits Hlow); try lia. intros _. apply N.bits_0.
  - cbn [succ_scan]. destruct (lsb_spec word) as [ret|] eqn:E.
    + apply (succ_found block word ret); assumption.
    + rewrite add_ok by (unfold W; lia). cbn [bind].
      assert (Hblk' : block + 1 < lenN ws).
      { pose proof (f_equal (@length N) Haft) as Hl. rewrite skipn_length in Hl. cbn [length] in Hl.
        unfold lenN. lia. }
      symmetry in Haft. apply (skipn_cons_inv 0) in Haft. destruct Haft as [Hw Hr].
      fold (adj inv w).
      assert (Hwn : w = nthN ws (block + 1) 0).
      { rewrite Hw. unfold nthN. f_equal. lia. }
      apply lsb_spec_None in E. subst word.
      apply IH.
      * rewrite Hr. f_equal. lia.
      * exact Hblk'.
      * apply adj_lt. rewrite Hwn. apply Forall_nthN; [exact Hall | apply W_pos].
      * lia.
      * intros j Hj. rewrite Hwn, adj_testbit by exact Hj.
        destruct (N.leb_spec pos (64 * (block + 1) + j)) as [_|H]; [reflexivity | lia].
      * intros j Hj. apply (scan_below block 0 j Hbits Hlow); try lia. intros _. apply N.bits_0.
Qed.
End SuccScan.

Theorem successor_spec c inv bv pos : wf bv -> cap_ok bv -> pos < W ->
  BitVector.successor c inv bv pos = Ok (BitSpec.succ (negb inv) (bits_of bv) pos).
Proof.
  intros Hwf Hcap Hpos. unfold BitVector.successor, WORD_LEN.
  pose proof (wf_nwords bv Hwf) as Hn. pose proof (cap_W bv Hcap) as Hc.
  pose proof (bits_of_length bv Hwf) as Hbl.
  assert (Hall : Forall (fun w => w < W) (bv_words bv)) by (destruct Hwf as [_ [H _]]; exact H).
  destruct (N.leb_spec (bv_len bv) pos) as [H|H].
  - unfold BitSpec.succ. rewrite Hbl. destruct (N.ltb_spec pos (bv_len bv)) as [H'|_]; [lia | reflexivity].
  - rewrite idx_ok by lia. cbn [bind]. fold (adj inv (nthN (bv_words bv) (pos / 64) 0)).
    rewrite shr_ok by lia. cbn [bind]. rewrite shl_ok by lia. cbn [bind].
    destruct (succ_scan_spec c inv (bv_len bv) (bv_words bv) pos Hall) with
      (after := skipn (S (N.to_nat (pos / 64))) (bv_words bv)) (block := pos / 64)
      (word := (adj inv (nthN (bv_words bv) (pos / 64) 0) / 2 ^ (pos mod 64) * 2 ^ (pos mod 64)) mod W)
      as [res [E R]]; try lia.
    + reflexivity.
    + intros j Hj. rewrite testbit_shl64, testbit_div_pow2.
      destruct (N.ltb_spec j 64) as [_|Hx]; [|lia]. cbn [andb].
      destruct (N.leb_spec (pos mod 64) j) as [H1|H1];
        destruct (N.leb_spec pos (64 * (pos / 64) + j)) as [H2|H2]; try lia; cbn [andb].
      replace (j - pos mod 64 + pos mod 64) with j by lia. apply adj_testbit, Hj.
    + rewrite E. f_equal. symmetry. destruct res as [p|]; cbn [SuccR] in R.
      * destruct R as [[R1 R2] [R3 R4]]. apply succ_intro.
        -- exact R1.
        -- rewrite bits_of_nth_error by assumption. f_equal. apply (vb_true inv), R3.
        -- intros j Hj. rewrite bits_of_nth_error by (try assumption; lia).
           apply vb_false, R4, Hj.
      * apply succ_none. intros j Hj. rewrite Hbl in Hj.
        rewrite bits_of_nth_error by (try assumption; lia). apply vb_false, R, Hj.
Qed.

Corollary successor1_spec c bv pos : wf bv -> cap_ok bv -> pos < W ->
  BitVector.successor1 c bv pos = Ok (BitSpec.succ true (bits_of bv) pos).
Proof. apply (successor_spec c false). Qed.
Corollary successor0_spec c bv pos : wf bv -> cap_ok bv -> pos < W ->
  BitVector.successor0 c bv pos = Ok (BitSpec.succ false (bits_of bv) pos).
Proof. apply (successor_spec c true). Qed.

(* ---------- predecessor ---------- *)

Definition PredR inv ws pos (res : option N) : Prop :=
  match res with
  | Some p => p <= pos /\ vb inv ws p = true /\ forall j, p < j <= pos -> vb inv ws j = false
  | None => forall j, j <= pos -> vb inv ws j = false
  end.

Lemma firstn_snoc {A} (d : A) n : forall l, (n < length l)%nat ->
  firstn (S n) l = firstn n l ++ [nth n l d].
Proof.
  induction n as [|n IH]; intros l H; (destruct l as [|x l]; [cbn [length] in H; lia|]).
  - reflexivity.
  - cbn [length] in H. change (firstn (S (S n)) (x :: l)) with (x :: firstn (S n) l).
    rewrite IH by lia. reflexivity.
Qed.

Section PredScan.
Variables (c : cfg) (inv : bool) (ws : list N) (pos : N).
Hypothesis Hall : Forall (fun w => w < W) ws.
Hypothesis Hlen : lenN ws < 2251799813685248.

Lemma scan_above block word j :
  (forall j, j < 64 -> N.testbit word j = (64 * block + j <=? pos) && vb inv ws (64 * block + j)) ->
  (forall j, 64 * (block + 1) <= j <= pos -> vb inv ws j = false) ->
  j <= pos -> 64 * block <= j ->
  (j < 64 * (block + 1) -> N.testbit word (j - 64 * block) = false) ->
  vb inv ws j = false.
Proof.
  intros Hbits Hhigh H1 H2 H3.
  destruct (N.lt_ge_cases j (64 * (block + 1))) as [Hlt|Hge]; [|apply Hhigh; lia].
  specialize (H3 Hlt). rewrite Hbits in H3 by lia.
  replace (64 * block + (j - 64 * block)) with j in H3 by lia.
  destruct (N.leb_spec j pos) as [_|H]; [|lia]. exact H3.
Qed.

Lemma pred_found block word ret :
  block < lenN ws -> word < W ->
  (forall j, j < 64 -> N.testbit word j = (64 * block + j <=? pos) && vb inv ws (64 * block + j)) ->
  (forall j, 64 * (block + 1) <= j <= pos -> vb inv ws j = false) ->
  msb_spec word = Some ret ->
  exists res, (t <- mul c block WORD_LEN ;; t <- add c t ret ;; Ok (Some t)) = Ok res
              /\ PredR inv ws pos res.
Proof.
  intros Hblk Hword Hbits Hhigh E. apply msb_spec_Some in E. destruct E as [E1 E2].
  pose proof (testbit_true_lt64 _ _ Hword E1) as Hret. unfold WORD_LEN.
  rewrite mul_ok by (unfold W; lia). cbn [bind]. rewrite add_ok by (unfold W; lia). cbn [bind].
  replace (block * 64 + ret) with (64 * block + ret) by lia.
  pose proof (Hbits ret Hret) as Hb. rewrite E1 in Hb. symmetry in Hb.
  apply andb_true_iff in Hb. destruct Hb as [Hb1 Hb2]. apply N.leb_le in Hb1.
  eexists. split; [reflexivity|]. cbn [PredR]. repeat split; [exact Hb1 | exact Hb2 |].
  intros j Hj. apply (scan_above block word j Hbits Hhigh); try lia.
  intro Hlt. apply E2. lia.
Qed.

Lemma pred_scan_spec :
  forall below block word,
   below = rev (firstn (N.to_nat block) ws) -> block < lenN ws ->
   word < W -> 64 * block <= pos ->
   (forall j, j < 64 -> N.testbit word j = (64 * block + j <=? pos) && vb inv ws (64 * block + j)) ->
   (forall j, 64 * (block + 1) <= j <= pos -> vb inv ws j = false) ->
   exists res, pred_scan c inv below block word = Ok res /\ PredR inv ws pos res.
Proof.
  intro below. induction below as [|w r IH]; intros block word Hbel Hblk Hword Hpos Hbits Hhigh.
  - assert (Hb0 : block = 0).
    { pose proof (f_equal (@length N) Hbel) as Hl. rewrite rev_length, firstn_length in Hl.
      cbn [length] in Hl. unfold lenN in Hblk. lia. }
    subst block. cbn [pred_scan]. destruct (msb_spec word) as [ret|] eqn:E.
    + apply (pred_found 0 word ret); assumption.
    + exists None. split; [reflexivity|]. cbn [PredR]. intros j Hj.
      apply msb_spec_None in E. subst word.
      apply (scan_above 0 0 j Hbits Hhigh); try lia. intros _. apply N.bits_0.
  - assert (Hb1 : 1 <= block).
    { pose proof (f_equal (@length N) Hbel) as Hl. rewrite rev_length, firstn_length in Hl.
      cbn [length] in Hl. lia. }
    cbn [pred_scan]. destruct (msb_spec word) as [ret|] eqn:E.
    + apply (pred_found block word ret); assumption.
    + rewrite sub_ok by exact Hb1. cbn [bind]. fold (adj inv w).
      replace (N.to_nat block) with (S (N.to_nat (block - 1))) in Hbel by lia.
      rewrite (firstn_snoc 0) in Hbel by (unfold lenN in Hblk; lia).
      rewrite rev_unit in Hbel. injection Hbel as Hw Hr.
      fold (nthN ws (block - 1) 0) in Hw.
      apply msb_spec_None in E. subst word.
      apply IH.
      * exact Hr.
      * lia.
      * apply adj_lt. rewrite Hw. apply Forall_nthN; [exact Hall | apply W_pos].
      * lia.
      * intros j Hj. rewrite Hw, adj_testbit by exact Hj.
        destruct (N.leb_spec (64 * (block - 1) + j) pos) as [_|H]; [reflexivity | lia].
      * intros j Hj. replace (block - 1 + 1) with block in Hj by lia.
        apply (scan_above block 0 j Hbits Hhigh); try lia. intros _. apply N.bits_0.
Qed.
End PredScan.

Theorem predecessor_spec c inv bv pos : wf bv -> cap_ok bv -> pos < W ->
  BitVector.predecessor c inv bv pos = Ok (BitSpec.pred (negb inv) (bits_of bv) pos).
Proof.
  intros Hwf Hcap Hpos. unfold BitVector.predecessor, WORD_LEN.
  pose proof (wf_nwords bv Hwf) as Hn. pose proof (cap_W bv Hcap) as Hc.
  pose proof (bits_of_length bv Hwf) as Hbl.
  assert (Hall : Forall (fun w => w < W) (bv_words bv)) by (destruct Hwf as [_ [H _]]; exact H).
  destruct (N.leb_spec (bv_len bv) pos) as [H|H].
  - unfold BitSpec.pred. rewrite Hbl. destruct (N.ltb_spec pos (bv_len bv)) as [H'|_]; [lia | reflexivity].
  - rewrite sub_ok by lia. cbn [bind]. rewrite sub_ok by lia. cbn [bind].
    rewrite idx_ok by lia. cbn [bind]. fold (adj inv (nthN (bv_words bv) (pos / 64) 0)).
    rewrite shl_ok by lia. cbn [bind]. rewrite shr_ok by lia. cbn [bind].
    set (sh := 64 - pos mod 64 - 1).
    set (w' := adj inv (nthN (bv_words bv) (pos / 64) 0)).
    assert (Hword : (w' * 2 ^ sh) mod W / 2 ^ sh < W).
    { apply N.div_lt_upper_bound; [apply N.pow_nonzero; lia|].
      eapply N.lt_le_trans; [apply N.mod_lt; unfold W; lia|].
      rewrite <- (N.mul_1_l W) at 1. apply N.mul_le_mono_r.
      pose proof (N.pow_nonzero 2 sh). lia. }
    destruct (pred_scan_spec c inv (bv_words bv) pos Hall) with
      (below := rev (firstn (N.to_nat (pos / 64)) (bv_words bv))) (block := pos / 64)
      (word := (w' * 2 ^ sh) mod W / 2 ^ sh)
      as [res [E R]]; try lia.
    + reflexivity.
    + intros j Hj. rewrite testbit_div_pow2, testbit_shl64.
      destruct (N.leb_spec sh (j + sh)) as [_|Hx]; [|lia]. cbn [andb].
      replace (j + sh - sh) with j by lia.
      unfold w'. rewrite adj_testbit by exact Hj.
      destruct (N.ltb_spec (j + sh) 64) as [H1|H1];
        destruct (N.leb_spec (64 * (pos / 64) + j) pos) as [H2|H2]; unfold sh in H1; try lia;
        reflexivity.
    + rewrite E. f_equal. symmetry. destruct res as [p|]; cbn [PredR] in R.
      * destruct R as [R1 [R3 R4]]. apply pred_intro.
        -- exact R1.
        -- lia.
        -- rewrite bits_of_nth_error by (try assumption; lia). f_equal. apply (vb_true inv), R3.
        -- intros j Hj. rewrite bits_of_nth_error by (try assumption; lia).
           apply vb_false, R4, Hj.
      * apply pred_none. intros j Hj.
        rewrite bits_of_nth_error by (try assumption; lia). apply vb_false, R, Hj.
Qed.

Corollary predecessor1_spec c bv pos : wf bv -> cap_ok bv -> pos < W ->
  BitVector.predecessor1 c bv pos = Ok (BitSpec.pred true (bits_of bv) pos).
Proof. apply (predecessor_spec c false). Qed.
Corollary predecessor0_spec c bv pos : wf bv -> cap_ok bv -> pos < W ->
  BitVector.predecessor0 c bv pos = Ok (BitSpec.pred false (bits_of bv) pos).
Proof. apply (predecessor_spec c true). Qed.
