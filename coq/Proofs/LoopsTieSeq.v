(* Proofs/LoopsTieSeq.v — the loop-bearing functions (and the remaining wrappers) of compact_vector.rs,
   elias_fano.rs, elias_fano/iter.rs, sarray.rs and prefix_summed_elias_fano.rs, regenerated from the Rust source on
   every run by tools/translate.py (gen/LoopsGen.v), are equal to the hand-written model functions of
   Model/CompactVector.v, Model/EliasFano.v, Model/SArray.v and Model/Psef.v, for every configuration and argument,
   under the hypotheses stated in each lemma.  These are record-range facts (list lengths and stored numbers below
   2^56 / 2^58 / 2^63 / 2^64 - 64) and, where the model runs a loop on bounded fuel that no range fact can justify
   (or turns an `Err` that cannot happen on well-formed data into a panic), the hypothesis that the model's run
   does not panic: `model = Ok r -> generated = Ok r`.
   A change to one of these Rust functions changes the generated definition and re-opens exactly one of the lemmas
   below, by name (DESIGN.md section 5.1). *)
From Sucds Require Import Base.Res Base.Loops Spec.WordSpec Model.BitVector Model.Unary Model.Rank9 Model.DArray
  Model.EliasFano Model.CompactVector Model.SArray Model.Psef gen.ConstsGen gen.MethodsGen gen.LoopsGen
  Proofs.ResLemmas Proofs.MethodsTie Proofs.LoopsLib Proofs.LoopsTieBV Proofs.LoopsTieIdx Proofs.BVAbs Proofs.BVMut Proofs.WordLemmas
  Proofs.UnaryIter.
From Coq Require Import ZArith ZifyN ZifyBool ZifyNat Lia.
Open Scope N_scope.
Ltac Zify.zify_post_hook ::= Z.div_mod_to_equations.

Ltac snorm :=
  cbn [bind rmap fst snd negb andb orb bv_words bv_len cv_chunks cv_len cv_width ci_cv ci_pos
       da_bv da_s1 da_s0 da_r9 ef_high ef_low ef_low_len ef_universe
       b_high b_low b_universe b_num_vals b_pos b_last b_low_len
       ei_ef ei_k ei_high_iter ei_low_buf ei_low_mask ei_chunks_in_word ei_chunks_avail
       i_k i_high i_low_buf i_low_mask i_chunks_in_word i_chunks_avail
       ui_bv ui_pos ui_buf u_pos u_buf it_bv it_pos
       sa_ef sa_num_bits sa_num_ones sa_has_rank ps_ef pi_efl pi_pos brk_join either] in *.
Ltac sstep :=
  match goal with
  | |- ?x = ?x => reflexivity
  | |- context [bind ?m _] => scrut m
  | |- context [if ?b then _ else _] => atom b
  | |- context [match ?o with Some _ => _ | None => _ end] => destruct o eqn:?
  end; snorm.
Ltac ssteps := snorm; repeat sstep.

(* =============================================================================================
   CompactVector (compact_vector.rs)
   ============================================================================================= *)
Lemma tie_compact_vector_access : forall c v pos, compact_vector_access c v pos = cv_access c v pos.
Proof. intros. unfold compact_vector_access, cv_access. apply tie_compact_vector_get_int. Qed.

(* `for _ in 0..len { cv.push_int(val).unwrap(); }` against cv_push_n *)
Lemma push_n_fold c val : forall n a v,
  fold_res (fun cv (_ : N) =>
      t5 <- compact_vector_push_int c cv val ;; let cv := fst t5 in _ <- assert_ (snd t5) ;; Ok cv) (nseq_from a n) v
  = cv_push_n c n v val.
Proof.
  induction n as [|n IH]; intros a v; [reflexivity|].
  cbn [nseq_from fold_res cv_push_n]. rewrite tie_compact_vector_push_int, !bind_assoc.
  destruct (cv_push_int c v val) as [[v' ok]|]; snorm; [|reflexivity].
  destruct (assert_ ok); snorm; [|reflexivity]. apply IH.
Qed.

Lemma tie_compact_vector_from_int : forall c val len width,
  compact_vector_from_int c val len width = cv_from_int c val len width.
Proof.
  intros. unfold compact_vector_from_int, cv_from_int, width_ok.
  rewrite tie_compact_vector_with_capacity. unfold nrange. rewrite N.sub_0_r.
  destruct (1 <=? width); snorm; [|reflexivity]. destruct (width <=? 64); snorm; [|reflexivity].
  assert (E : (if width <? 64 then t1 <- shr c val width ;; Ok (negb (t1 =? 0)) else Ok false) =
              rmap negb (if width <? 64 then t <- shr c val width ;; Ok (t =? 0) else Ok true)).
  { destruct (width <? 64); [|reflexivity]. destruct (shr c val width); reflexivity. }
  rewrite E. clear E.
  destruct (if width <? 64 then t <- shr c val width ;; Ok (t =? 0) else Ok true) as [f|]; snorm; [|reflexivity].
  destruct f; snorm; [|reflexivity].
  destruct (cv_with_capacity c len width) as [o|]; snorm; [|reflexivity].
  destruct (unwrap o) as [v|]; snorm; [|reflexivity].
  rewrite push_n_fold. reflexivity.
Qed.

(* `for x in vals { max_int = max_int.max(x.to_usize().ok_or_else(..)?); }`: never leaves early *)
Lemma max_fold (vals : list N) : forall m,
  fold_res_brk (fun max_int x =>
      match Some x return res (N + (N + option compvec)) with
      | None => Ok (inr (inr None))
      | Some t1 => let max_int := N.max max_int t1 in Ok (inl max_int)
      end) vals m = Ok (inl (fold_left N.max vals m)).
Proof. induction vals as [|x r IH]; intro m; [reflexivity|]. rewrite fold_res_brk_cons. cbn [fold_left]. apply IH. Qed.

Lemma push_all_fold c : forall vals v,
  fold_res (fun cv x =>
      t6 <- unwrap (Some x) ;; t7 <- compact_vector_push_int c cv t6 ;; let cv := fst t7 in
      _ <- assert_ (snd t7) ;; Ok cv) vals v
  = fold_res (fun v x => r <- cv_push_int c v x ;; _ <- assert_ (snd r) ;; Ok (fst r)) vals v.
Proof. intros. apply fold_res_ext. intros s x. cbn [unwrap bind]. now rewrite tie_compact_vector_push_int. Qed.

Lemma tie_compact_vector_from_slice : forall c vals, compact_vector_from_slice c vals = cv_from_slice c vals.
Proof.
  intros c vals. unfold compact_vector_from_slice, cv_from_slice.
  destruct vals as [|x0 r]; [reflexivity|].
  replace (lenN (x0 :: r) =? 0) with false by (symmetry; apply N.eqb_neq; rewrite lenN_cons; lia).
  rewrite max_fold. snorm. rewrite tie_utils_needed_bits.
  destruct (needed_bits c (fold_left N.max (x0 :: r) 0)) as [w|]; snorm; [|reflexivity].
  rewrite tie_compact_vector_with_capacity.
  destruct (cv_with_capacity c (lenN (x0 :: r)) w) as [[v|]|]; snorm; try reflexivity.
  now rewrite push_all_fold.
Qed.

(* `for x in vals { self.push_int(x)?; }`: stops at the first rejection *)
Lemma tie_compact_vector_extend : forall c v vals, compact_vector_extend c v vals = cv_extend c v vals.
Proof.
  intros c v vals. unfold compact_vector_extend. revert v.
  induction vals as [|x r IH]; intro v; [reflexivity|].
  rewrite fold_res_brk_cons, tie_compact_vector_push_int. cbn [cv_extend].
  destruct (cv_push_int c v x) as [[v' ok]|]; snorm; [|reflexivity].
  destruct ok; snorm; [apply IH | reflexivity].
Qed.

Lemma tie_compact_vector_iter_new : forall c v, compact_vector_iter_new c v = Ok {| ci_cv := v; ci_pos := 0 |}.
Proof. reflexivity. Qed.

Lemma tie_compact_vector_iter_next : forall c it,
  compact_vector_iter_next c it =
  ('(p, x) <- cv_iter_next c (ci_cv it) (ci_pos it) ;; Ok ({| ci_cv := ci_cv it; ci_pos := p |}, x)).
Proof.
  intros c [v pos]. unfold compact_vector_iter_next, cv_iter_next, compact_vector_len.
  rewrite tie_compact_vector_access. ssteps.
Qed.

Lemma tie_compact_vector_iter_size_hint : forall c it,
  compact_vector_iter_size_hint c it =
  ('(a, b) <- BitVector.iter_size_hint c (cv_len (ci_cv it)) (ci_pos it) ;; Ok (a, Some b)).
Proof. intros c [v pos]. unfold compact_vector_iter_size_hint, iter_size_hint, compact_vector_len. ssteps. Qed.

(* =============================================================================================
   EliasFanoBuilder (elias_fano.rs)
   ============================================================================================= *)
Lemma tie_elias_fano_builder_new : forall c universe num_vals,
  elias_fano_builder_new c universe num_vals = efb_new c universe num_vals.
Proof.
  intros. unfold elias_fano_builder_new, efb_new. rewrite tie_bit_vector_new.
  destruct (num_vals =? 0); [reflexivity|].
  destruct (div_ universe num_vals) as [q|]; snorm; [|reflexivity].
  destruct (add c num_vals 1) as [a|]; snorm; [|reflexivity].
  destruct (shr c universe _) as [h|]; snorm; [|reflexivity].
  destruct (add c a h) as [a1|]; snorm; [|reflexivity].
  destruct (add c a1 1) as [a2|]; snorm; [|reflexivity].
  rewrite tie_bit_vector_from_bit. destruct (from_bit c false a2); reflexivity.
Qed.

Lemma tie_elias_fano_builder_push : forall c b val, elias_fano_builder_push c b val = efb_push c b val.
Proof.
  intros c b val. unfold elias_fano_builder_push, efb_push. snorm.
  destruct (val <? b_last b); [reflexivity|]. destruct (b_universe b <=? val); [reflexivity|].
  destruct (b_num_vals b <=? b_pos b); [reflexivity|].
  destruct (shl c 1 (b_low_len b)) as [t|]; snorm; [|reflexivity].
  destruct (sub c t 1) as [m|]; snorm; [|reflexivity].
  destruct (b_low_len b =? 0); snorm.
  - destruct (shr c val (b_low_len b)) as [h|]; snorm; [|reflexivity].
    destruct (add c h (b_pos b)) as [p|]; snorm; [|reflexivity].
    rewrite tie_bit_vector_set_bit. destruct (set_bit c (b_high b) p true) as [[hb ok]|]; snorm; [|reflexivity].
    destruct (assert_ ok); snorm; [|reflexivity]. destruct (add c (b_pos b) 1); reflexivity.
  - rewrite tie_bit_vector_push_bits.
    destruct (push_bits c (b_low b) (N.land val m) (b_low_len b)) as [[lb ok]|]; snorm; [|reflexivity].
    destruct (assert_ ok); snorm; [|reflexivity].
    destruct (shr c val (b_low_len b)) as [h|]; snorm; [|reflexivity].
    destruct (add c h (b_pos b)) as [p|]; snorm; [|reflexivity].
    rewrite tie_bit_vector_set_bit. destruct (set_bit c (b_high b) p true) as [[hb ok2]|]; snorm; [|reflexivity].
    destruct (assert_ ok2); snorm; [|reflexivity]. destruct (add c (b_pos b) 1); reflexivity.
Qed.

Lemma tie_elias_fano_builder_extend : forall c b vals, elias_fano_builder_extend c b vals = efb_extend c b vals.
Proof.
  intros c b vals. unfold elias_fano_builder_extend. revert b.
  induction vals as [|x r IH]; intro b; [reflexivity|].
  rewrite fold_res_brk_cons, tie_elias_fano_builder_push. cbn [efb_extend].
  destruct (efb_push c b x) as [[b' ok]|]; snorm; [|reflexivity].
  destruct ok; snorm; [apply IH | reflexivity].
Qed.

(* `self.high_bits.iter()` handed to DArray::from_bits: the bits in order *)
Lemma collect_bv c bv : bv_len bv < W -> forall k pos acc n,
  N.of_nat k = bv_len bv - pos -> pos <= bv_len bv -> N.of_nat k < n ->
  loopN n (fun '(it, acc) =>
      r <- bit_vector_iter_next c it ;;
      match snd r with None => Ok (inr acc) | Some a => Ok (inl (fst r, acc ++ [a])) end)
    ({| it_bv := bv; it_pos := pos |}, acc)
  = (l <- map_res (fun i => x <- get_bit c bv i ;; unwrap x) (nseq_from pos k) ;; Ok (acc ++ l)).
Proof.
  intros HW. induction k as [|k IH]; intros pos acc n Hk Hp Hn.
  - rewrite loopN_step by lia. rewrite tie_bit_vector_iter_next. unfold iter_next. snorm.
    destruct (N.ltb_spec pos (bv_len bv)); [lia|]. snorm. cbn [nseq_from map_res bind]. now rewrite app_nil_r.
  - rewrite loopN_step by lia. rewrite tie_bit_vector_iter_next. unfold iter_next. snorm.
    destruct (N.ltb_spec pos (bv_len bv)); [|lia]. cbn [nseq_from map_res]. rewrite !bind_assoc.
    destruct (get_bit c bv pos) as [x|]; snorm; [|reflexivity].
    destruct (unwrap x) as [b|]; snorm; [|reflexivity].
    rewrite add_ok by lia. snorm.
    replace (pos + 1) with (N.succ pos) by lia.
    rewrite IH by lia.
    destruct (map_res _ (nseq_from (N.succ pos) k)) as [l|]; snorm; [|reflexivity].
    now rewrite <- app_assoc.
Qed.

Lemma iter_collect_bv c bv : bv_len bv < W ->
  iter_collect (bit_vector_iter_next c) {| it_bv := bv; it_pos := 0 |} = bv_bits c bv.
Proof.
  intros HW. unfold iter_collect, bv_bits, nseq.
  rewrite (collect_bv c bv HW (N.to_nat (bv_len bv)) 0 [] W) by lia.
  destruct (map_res _ _); reflexivity.
Qed.

Lemma map_res_length {A B} (f : A -> res B) : forall l r, map_res f l = Ok r -> length r = length l.
Proof.
  induction l as [|x l IH]; intros r E; cbn [map_res bind] in E; [now injection E as <-|].
  destruct (f x) as [y|]; cbn [bind] in E; [|discriminate].
  destruct (map_res f l) as [ys|]; cbn [bind] in E; [|discriminate].
  injection E as <-. cbn [length]. now rewrite (IH ys eq_refl).
Qed.

Lemma nseq_from_length : forall k a, length (nseq_from a k) = k.
Proof. induction k as [|k IH]; intro a; cbn [nseq_from length]; [reflexivity | now rewrite IH]. Qed.

Lemma tie_elias_fano_builder_build : forall c b, bv_len (b_high b) < 2 ^ 56 ->
  elias_fano_builder_build c b = efb_build c b.
Proof.
  intros c b Hl. unfold elias_fano_builder_build, efb_build, bit_vector_iter. rewrite tie_bit_vector_iter_new. snorm.
  assert (HW : bv_len (b_high b) < W) by (change (2 ^ 56) with 72057594037927936 in Hl; unfold W; lia).
  rewrite iter_collect_bv by exact HW.
  destruct (bv_bits c (b_high b)) as [bits|] eqn:E; snorm; [|reflexivity].
  rewrite tie_darray_from_bits; [destruct (da_from_bits c bits); reflexivity|].
  unfold bv_bits in E. apply map_res_length in E. unfold nseq in E. rewrite nseq_from_length in E.
  unfold lenN. rewrite E. lia.
Qed.

(* =============================================================================================
   EliasFano (elias_fano.rs): enable_rank, rank
   ============================================================================================= *)
Lemma tie_elias_fano_enable_rank : forall c e, bv_range (da_bv (ef_high e)) ->
  elias_fano_enable_rank c e = ef_enable_rank c e.
Proof.
  intros c e Hr. unfold elias_fano_enable_rank, ef_enable_rank. rewrite tie_darray_enable_select0 by exact Hr.
  destruct (da_enable_select0 c (ef_high e)); reflexivity.
Qed.

(* a position returned by DArrayIndex::select is a usize when the stored overflow positions are *)
Lemma da_select_lt_W c d bv k p : usize_list (d_overflow d) -> da_select c d bv k = Ok (Some p) -> p < W.
Proof.
  intros HO. unfold da_select.
  destruct (d_num_positions d <=? k); [discriminate|].
  destruct (idx 0%Z (d_block_inv d) (k / DA_BLOCK_LEN)) as [bp|]; cbn [bind]; [|discriminate].
  destruct (bp <? 0)%Z.
  - destruct (add c _ _) as [i|]; cbn [bind]; [|discriminate].
    destruct (idx 0 (d_overflow d) i) as [x|] eqn:Ex; cbn [bind]; [|discriminate].
    intros [= <-]. apply HO. eapply idx_In; eauto.
  - destruct (idx 0 (d_sub_inv d) _) as [sb|]; cbn [bind]; [|discriminate].
    destruct (add c (Z.to_N bp) sb) as [sp|] eqn:Es; cbn [bind]; [|discriminate].
    destruct (_ =? 0); [intros [= <-]; eapply add_lt_W; eauto|].
    destruct (idx 0 (bv_words bv) _) as [w|]; cbn [bind]; [|discriminate].
    destruct (shl c MASK64 _) as [m|]; cbn [bind]; [|discriminate].
    destruct (da_scan c _ _ _ _ _) as [[[rem wi] word]|]; cbn [bind]; [|discriminate].
    destruct (unwrap _) as [q|]; cbn [bind]; [|discriminate].
    destruct (mul c 64 wi) as [a|]; cbn [bind]; [|discriminate].
    destruct (add c a q) as [sel|] eqn:Ea; cbn [bind]; [|discriminate].
    intros [= <-]. eapply add_lt_W; eauto.
Qed.

Definition swapN (s : N * N) : N * N := (snd s, fst s).

(* the generated step of the backward scan, on (h_pos, rank), against rank_step on (rank, h_pos) *)
Lemma rank_step_conj c e l_pos : bv_len (ef_low e) < W -> forall s,
  rank_step c e l_pos (swapN s) =
  rmap (step_conj swapN (fun x : N * N => snd x))
    ((fun '(h_pos, rank) =>
        t13 <- (if (N.ltb 0 h_pos) then (t10 <- sub c h_pos 1 ;;
          t11 <- darray_access c (ef_high e) t10 ;;
          unwrap t11) else Ok false) ;;
        t18 <- (if t13 then (t14 <- sub c rank 1 ;;
          t15 <- mul c t14 (ef_low_len e) ;;
          t16 <- bit_vector_get_bits c (ef_low e) t15 (ef_low_len e) ;;
          t17 <- unwrap t16 ;;
          Ok (N.leb l_pos t17)) else Ok false) ;;
        if t18 then (
        rank <- sub c rank 1 ;;
        h_pos <- sub c h_pos 1 ;;
        Ok (inl (h_pos, rank))
        ) else (Ok (inr (h_pos, rank)))) s).
Proof.
  intros HW [h r]. unfold rank_step, swapN, ef_low_at. snorm.
  destruct (0 <? h); snorm; [|reflexivity].
  destruct (sub c h 1) as [h1|]; snorm; [|reflexivity].
  replace (darray_access c (ef_high e) h1) with (da_access c (ef_high e) h1) by (symmetry; apply tie_darray_access).
  destruct (da_access c (ef_high e) h1) as [a|]; snorm; [|reflexivity].
  destruct (unwrap a) as [[|]|]; snorm; try reflexivity.
  destruct (sub c r 1) as [r1|]; snorm; [|reflexivity].
  destruct (mul c r1 (ef_low_len e)) as [p|]; snorm; [|reflexivity].
  rewrite tie_bit_vector_get_bits by exact HW.
  destruct (get_bits c (ef_low e) p (ef_low_len e)) as [x|]; snorm; [|reflexivity].
  destruct (unwrap x) as [lo|]; snorm; [|reflexivity].
  destruct (l_pos <=? lo); reflexivity.
Qed.

(* the scan ends within h_pos + 1 iterations *)
Lemma rank_scan c e l_pos h rank fuel r : h < W ->
  iter_fuel fuel (rank_step c e l_pos) (rank, h) = Ok r -> loopN W (rank_step c e l_pos) (rank, h) = Ok r.
Proof.
  intros Hh E.
  apply (loopN_of_iter_fuel (rank_step c e l_pos) (fun n s => snd s <= N.of_nat n)) with (n := N.to_nat h) (fuel := fuel);
    [| |cbn [snd]; lia|lia|exact E].
  - intros [r0 h0] s' Hp. cbn [snd] in Hp. unfold rank_step.
    destruct (N.ltb_spec 0 h0); [lia|discriminate].
  - intros n [r0 h0] [r1 h1] Hp. cbn [snd] in *. unfold rank_step.
    destruct (N.ltb_spec 0 h0); [|discriminate].
    rewrite sub_ok by lia. cbn [bind].
    destruct (da_access c (ef_high e) (h0 - 1)) as [a|]; cbn [bind]; [|discriminate].
    destruct (unwrap a) as [[|]|]; cbn [bind]; try discriminate.
    destruct (sub c r0 1) as [r2|]; cbn [bind]; [|discriminate].
    destruct (ef_low_at c e r2) as [lo|]; cbn [bind]; [|discriminate].
    destruct (l_pos <=? lo); [|discriminate]. intros [= <- <-]. lia.
Qed.

(* rank: the model runs the scan on rank + 2 units of fuel, the code until h_pos = 0; equal whenever the model does
   not panic (on well-formed data rank <= h_pos, and Proofs/EFQueries.v shows that the model returns a value) *)
Lemma tie_elias_fano_rank : forall c e pos,
  bv_len (ef_low e) < W ->
  (forall s0, da_s0 (ef_high e) = Some s0 -> usize_list (d_overflow s0)) ->
  ef_rank c e pos <> Panic ->
  elias_fano_rank c e pos = ef_rank c e pos.
Proof.
  intros c e pos HW HO. unfold elias_fano_rank, ef_rank, elias_fano_universe, elias_fano_len, ef_len. snorm.
  destruct (ef_universe e <? pos); [reflexivity|]. destruct (ef_universe e =? pos); [reflexivity|].
  destruct (shr c pos (ef_low_len e)) as [h_rank|]; snorm; [|reflexivity].
  replace (darray_select0 c (ef_high e) h_rank) with (da_select0 c (ef_high e) h_rank)
    by (symmetry; apply tie_darray_select0).
  destruct (da_select0 c (ef_high e) h_rank) as [o|] eqn:Es; snorm; [|reflexivity].
  destruct o as [h_pos|]; cbn [unwrap bind]; [|reflexivity].
  assert (Hh : h_pos < W).
  { unfold da_select0 in Es. destruct (da_s0 (ef_high e)) as [s0|] eqn:E0; cbn [unwrap bind] in Es; [|discriminate].
    eapply da_select_lt_W; [apply HO; reflexivity | exact Es]. }
  destruct (sub c h_pos h_rank) as [rank|]; snorm; [|reflexivity].
  destruct (shl c 1 (ef_low_len e)) as [t|]; snorm; [|reflexivity].
  destruct (sub c t 1) as [m|]; snorm; [|reflexivity].
  intros Hne.
  destruct (iter_fuel _ (rank_step c e (N.land pos m)) (rank, h_pos)) as [r|] eqn:Ef; cbn [bind] in *; [|congruence].
  pose proof (rank_scan c e _ h_pos rank _ r Hh Ef) as Hl.
  change (rank, h_pos) with (swapN (h_pos, rank)) in Hl.
  rewrite (loopN_conj swapN (fun x : N * N => snd x) _ _ (rank_step_conj c e (N.land pos m) HW)) in Hl.
  destruct (loopN W _ (h_pos, rank)) as [[h' r']|]; cbn [rmap bind] in *; [|discriminate].
  now injection Hl as ->.
Qed.

(* =============================================================================================
   Iter (elias_fano/iter.rs).  The Rust struct holds `ef: &EliasFano` and `high_iter: Option<UnaryIter>` (itself
   holding `&BitVector`); the model passes the sequence separately and keeps uiter { u_pos; u_buf }.
   ============================================================================================= *)
Definition to_ei (it : efiter_g) : efiter :=
  {| i_k := ei_k it; i_high := option_map to_u (ei_high_iter it); i_low_buf := ei_low_buf it;
     i_low_mask := ei_low_mask it; i_chunks_in_word := ei_chunks_in_word it; i_chunks_avail := ei_chunks_avail it |}.
Definition of_ei (e : eliasfano) (it : efiter) : efiter_g :=
  {| ei_ef := e; ei_k := i_k it; ei_high_iter := option_map (of_u (da_bv (ef_high e))) (i_high it);
     ei_low_buf := i_low_buf it; ei_low_mask := i_low_mask it; ei_chunks_in_word := i_chunks_in_word it;
     ei_chunks_avail := i_chunks_avail it |}.

Lemma tie_elias_fano_iter_new : forall c e k, elias_fano_iter_new c e k = rmap (of_ei e) (efi_new c e k).
Proof.
  intros c e k. unfold elias_fano_iter_new, efi_new, elias_fano_len, bit_vector_unary_iter, darray_bit_vector.
  fold (ef_len e). snorm.
  destruct (dassert c (ef_low_len e <? 64)); snorm; [|reflexivity].
  destruct (shl c 1 (ef_low_len e)) as [t|]; snorm; [|reflexivity].
  destruct (sub c t 1) as [m|]; snorm; [|reflexivity].
  destruct (ef_low_len e =? 0); snorm.
  - destruct (k <? ef_len e); snorm; [|reflexivity].
    replace (darray_select1 c (ef_high e) k) with (da_select1 c (ef_high e) k) by (symmetry; apply tie_darray_select1).
    destruct (da_select1 c (ef_high e) k) as [o|]; snorm; [|reflexivity].
    destruct (unwrap o) as [p|]; snorm; [|reflexivity].
    rewrite tie_unary_iter_new. reflexivity.
  - destruct (div_ 64 (ef_low_len e)) as [q|]; snorm; [|reflexivity].
    destruct (k <? ef_len e); snorm; [|reflexivity].
    replace (darray_select1 c (ef_high e) k) with (da_select1 c (ef_high e) k) by (symmetry; apply tie_darray_select1).
    destruct (da_select1 c (ef_high e) k) as [o|]; snorm; [|reflexivity].
    destruct (unwrap o) as [p|]; snorm; [|reflexivity].
    rewrite tie_unary_iter_new. reflexivity.
Qed.

Lemma tie_elias_fano_iter : forall c e k, elias_fano_iter c e k = rmap (of_ei e) (efi_new c e k).
Proof. intros. unfold elias_fano_iter. apply tie_elias_fano_iter_new. Qed.

(* what a value of the Rust struct satisfies: the unary iterator runs over the high bits of the sequence the iterator
   refers to (the only constructor, Iter::new, makes it so), and the range facts of the callees *)
Definition ei_ok (it : efiter_g) : Prop :=
  bv_len (ef_low (ei_ef it)) < W /\
  match ei_high_iter it with
  | Some u => ui_bv u = da_bv (ef_high (ei_ef it)) /\ lenN (bv_words (ui_bv u)) < 2 ^ 58 /\ ui_pos u + 64 < W
  | None => True
  end.

Lemma tie_elias_fano_iter_next : forall c it, ei_ok it ->
  elias_fano_iter_next c it = ('(m, x) <- efi_next c (ei_ef it) (to_ei it) ;; Ok (of_ei (ei_ef it) m, x)).
Proof.
  intros c [e k hi lb lm ciw cav] [HW Hu]. unfold elias_fano_iter_next, efi_next, to_ei, darray_num_ones, ef_len.
  cbn [ei_ef ei_k ei_high_iter ei_low_buf ei_low_mask ei_chunks_in_word ei_chunks_avail
       i_k i_high i_low_buf i_low_mask i_chunks_in_word i_chunks_avail bind] in *.
  fold (da_num_ones (ef_high e)).
  destruct (k =? da_num_ones (ef_high e)); snorm; [reflexivity|].
  destruct hi as [u|]; cbn [option_map]; [|reflexivity].
  destruct Hu as (Hbv & Hw & Hp).
  assert (En : unary_iter_next c u = lift_u (da_bv (ef_high e)) (unary_next c (da_bv (ef_high e)) (to_u u))).
  { rewrite <- Hbv. now apply tie_unary_iter_next. }
  destruct (cav =? 0); snorm.
  - destruct (mul c k (ef_low_len e)) as [p|]; snorm; [|reflexivity].
    rewrite tie_bit_vector_get_word64 by exact HW.
    destruct (get_word64 c (ef_low e) p) as [o|]; snorm; [|reflexivity].
    destruct (unwrap o) as [w|]; snorm; [|reflexivity].
    destruct (sub c ciw 1) as [a|]; snorm; [|reflexivity].
    rewrite En. unfold lift_u.
    destruct (unary_next c (da_bv (ef_high e)) (to_u u)) as [[u' x]|]; snorm; [|reflexivity].
    destruct (unwrap x) as [high|]; snorm; [|reflexivity].
    destruct (sub c high k) as [d|]; snorm; [|reflexivity].
    destruct (shl c d (ef_low_len e)) as [hs|]; snorm; [|reflexivity].
    destruct (add c k 1) as [k1|]; snorm; [|reflexivity].
    destruct (shr c w (ef_low_len e)) as [lb'|]; snorm; reflexivity.
  - destruct (sub c cav 1) as [a|]; snorm; [|reflexivity].
    rewrite En. unfold lift_u.
    destruct (unary_next c (da_bv (ef_high e)) (to_u u)) as [[u' x]|]; snorm; [|reflexivity].
    destruct (unwrap x) as [high|]; snorm; [|reflexivity].
    destruct (sub c high k) as [d|]; snorm; [|reflexivity].
    destruct (shl c d (ef_low_len e)) as [hs|]; snorm; [|reflexivity].
    destruct (add c k 1) as [k1|]; snorm; [|reflexivity].
    destruct (shr c lb (ef_low_len e)) as [lb'|]; snorm; reflexivity.
Qed.

(* ---------------------------------------------------------------------------------------------
   the unary iterator stays inside the word vector: what repeated `next` preserves
   --------------------------------------------------------------------------------------------- *)
Definition u_inv (bv : bitvec) (u : uiter) : Prop :=
  u_pos u + 64 < W /\ u_buf u < W /\ (u_buf u <> 0 -> u_pos u / 64 < lenN (bv_words bv)).

Lemma nthN_usize (l : list N) i : usize_list l -> nthN l i 0 < W.
Proof.
  intros H. unfold nthN. destruct (Nat.lt_ge_cases (N.to_nat i) (length l)) as [Hi|Hi].
  - apply H. now apply nth_In.
  - rewrite nth_overflow by exact Hi. reflexivity.
Qed.

Lemma unary_new_inv bv p : usize_list (bv_words bv) -> p + 64 < W -> u_inv bv (unary_new bv p).
Proof.
  intros HU Hp. unfold unary_new, u_inv. cbn [u_pos u_buf]. consts. split; [exact Hp|].
  destruct (N.ltb_spec (p / 64) (lenN (bv_words bv))) as [Hlt|Hge].
  - split; [apply land_lt_W, nthN_usize, HU | intros _; exact Hlt].
  - rewrite N.land_0_l. split; [reflexivity | intros H; now elim H].
Qed.

Lemma next_scan_some c (words : list N) : lenN words < 2 ^ 58 -> forall after buf pos p b,
  (after = [] \/ pos / 64 + 1 + lenN after = lenN words) ->
  (buf <> 0 -> pos / 64 < lenN words) -> buf < W -> usize_list after ->
  next_scan c after buf pos = Ok (p, Some b) -> p / 64 < lenN words /\ b <> 0 /\ b < W.
Proof.
  intros HW. change (2 ^ 58) with 288230376151711744 in HW.
  induction after as [|x r IH]; intros buf pos p b Ha Hb Hbw HU; cbn [next_scan]; consts.
  - destruct (N.eqb_spec buf 0) as [E|E].
    + destruct (add c pos 64); cbn [bind]; discriminate.
    + intros [= <- <-]. auto.
  - destruct (N.eqb_spec buf 0) as [E|E]; [|intros [= <- <-]; auto].
    destruct Ha as [Ha|Ha]; [discriminate|]. rewrite lenN_cons in Ha.
    rewrite add_ok by (unfold W; lia). cbn [bind].
    apply IH.
    + right. replace ((pos + 64) / 64) with (pos / 64 + 1) by lia. lia.
    + intros _. replace ((pos + 64) / 64) with (pos / 64 + 1) by lia. lia.
    + apply HU. now left.
    + intros y Hy. apply HU. now right.
Qed.

Lemma lsb_spec_lt64 b r : b < W -> lsb_spec b = Some r -> r < 64.
Proof.
  intros Hb E. destruct (lsb_spec_Some b r E) as [Ht _].
  destruct (N.lt_ge_cases r 64) as [H|H]; [exact H|]. rewrite (testbit_W_high b r Hb H) in Ht. discriminate.
Qed.

Lemma skipn_usize (l : list N) n : usize_list l -> usize_list (skipn n l).
Proof.
  assert (Hs : forall (l : list N) n x, In x (skipn n l) -> In x l).
  { intros l0 n0. revert l0. induction n0 as [|n0 IH]; intros l0 x Hx; [exact Hx|].
    destruct l0 as [|y r]; [exact Hx|]. right. now apply IH. }
  intros H x Hx. apply H. eapply Hs; eauto.
Qed.

Lemma unary_next_inv c bv u u' x : lenN (bv_words bv) < 2 ^ 58 -> usize_list (bv_words bv) -> u_inv bv u ->
  unary_next c bv u = Ok (u', Some x) -> u_inv bv u'.
Proof.
  intros HW HU (Hp & Hb & Hin). unfold unary_next.
  destruct (next_scan c (words_after bv (u_pos u)) (u_buf u) (u_pos u)) as [[p [b|]]|] eqn:E; cbn [bind];
    [|intros [= _ E']; discriminate|discriminate].
  apply (next_scan_some c (bv_words bv) HW) in E; [|unfold words_after; consts| exact Hin | exact Hb |].
  - destruct E as (Hq & Hb0 & HbW). change (2 ^ 58) with 288230376151711744 in HW.
    destruct (lsb_spec b) as [piw|] eqn:El; cbn [unwrap bind]; [|discriminate].
    pose proof (lsb_spec_lt64 b piw HbW El) as Hpiw.
    destruct (sub c b 1) as [b1|]; cbn [bind]; [|discriminate].
    rewrite land_not63 by (unfold W; lia).
    rewrite add_ok by (unfold W; lia). cbn [bind]. intros [= <- _].
    unfold u_inv. cbn [u_pos u_buf]. split; [unfold W; lia|]. split; [now apply land_lt_W|].
    intros _. replace ((64 * (p / 64) + piw) / 64) with (p / 64) by lia. exact Hq.
  - destruct (N.ltb_spec (u_pos u / 64) (lenN (bv_words bv))) as [Hlt|Hge]; [right|now left].
    rewrite lenN_skipn. unfold lenN in *. lia.
  - unfold words_after. destruct (_ <? _); [now apply skipn_usize | intros y []].
Qed.

(* =============================================================================================
   EliasFano::binsearch_range / binsearch
   ============================================================================================= *)
(* the bisection ends within 58 halvings: the model's 66 units of fuel are enough *)
Definition bs_P (n : nat) (s : N * N) : Prop :=
  fst s <= snd s /\ snd s < 2 ^ 63 /\ snd s - fst s <= 64 * 2 ^ N.of_nat n.

Lemma bs_fuel c e val lo hi : lo <= hi -> hi < 2 ^ 63 ->
  loopN W (bs_step c e val) (lo, hi) = iter_fuel 66 (bs_step c e val) (lo, hi).
Proof.
  intros Hlh Hhi. apply (loopN_fuel (bs_step c e val) bs_P) with (n := 57%nat).
  - intros [a b] s' (H1 & H2 & H3). cbn [fst snd] in *. unfold bs_step, LINEAR_SCAN_THRESHOLD.
    rewrite sub_ok by exact H1. cbn [bind]. change (2 ^ N.of_nat 0) with 1 in H3.
    destruct (N.ltb_spec 64 (b - a)); [lia|discriminate].
  - intros n [a b] [a' b'] (H1 & H2 & H3). cbn [fst snd] in *. unfold bs_step, LINEAR_SCAN_THRESHOLD.
    rewrite sub_ok by exact H1. cbn [bind].
    destruct (N.ltb_spec 64 (b - a)); [|discriminate].
    change (2 ^ 63) with 9223372036854775808 in *.
    rewrite add_ok by (unfold W; lia). cbn [bind].
    destruct (ef_select c e ((a + b) / 2)) as [o|]; cbn [bind]; [|discriminate].
    destruct (unwrap o) as [x|]; cbn [bind]; [|discriminate].
    destruct (val =? x); [discriminate|].
    rewrite Nat2N.inj_succ, N.pow_succ_r' in H3. set (q := 2 ^ N.of_nat n) in *.
    destruct (val <? x).
    + intros [= <- <-]. unfold bs_P. cbn [fst snd]. lia.
    + rewrite add_ok by (unfold W; lia). cbn [bind]. intros [= <- <-]. unfold bs_P. cbn [fst snd]. lia.
  - unfold bs_P. cbn [fst snd]. change (2 ^ N.of_nat 57) with 144115188075855872.
    change (2 ^ 63) with 9223372036854775808 in *. lia.
  - lia.
  - reflexivity.
Qed.

(* the generated step of the bisection, on (hi, lo), against bs_step on (lo, hi) *)
Definition bs_exit (o : N * N + option N) : option N + N * N :=
  match o with inl s => inr (swapN s) | inr v => inl v end.

Lemma bs_step_conj c e val : forall s,
  bs_step c e val (swapN s) =
  rmap (step_conj swapN bs_exit)
    ((fun '(hi, lo) =>
        t3 <- sub c hi lo ;;
        if (N.ltb elias_fano_LINEAR_SCAN_THRESHOLD t3) then (
        t4 <- add c lo hi ;;
        let mi := (N.div t4 2) in
        t5 <- elias_fano_select c e mi ;;
        x <- unwrap t5 ;;
        if (N.eqb val x) then (Ok (inr (inr (Some mi)))) else (
        '(hi, lo) <- (if (N.ltb val x) then (
            let hi := mi in
            Ok (hi, lo)
          ) else (
            lo <- add c mi 1 ;;
            Ok (hi, lo)
          )) ;;
        Ok (inl (hi, lo))
        ) ) else (Ok (inr (inl (hi, lo))))) s).
Proof.
  intros [hi lo]. unfold bs_step, swapN, elias_fano_LINEAR_SCAN_THRESHOLD, LINEAR_SCAN_THRESHOLD. snorm.
  destruct (sub c hi lo) as [d|]; snorm; [|reflexivity].
  destruct (64 <? d); snorm; [|reflexivity].
  destruct (add c lo hi) as [t|]; snorm; [|reflexivity].
  rewrite tie_elias_fano_select.
  destruct (ef_select c e (t / 2)) as [o|]; snorm; [|reflexivity].
  destruct (unwrap o) as [x|]; snorm; [|reflexivity].
  destruct (val =? x); snorm; [reflexivity|].
  destruct (val <? x); snorm; [reflexivity|].
  destruct (add c (t / 2) 1); reflexivity.
Qed.

(* the iterator of the linear scan *)
Definition mi_inv (e : eliasfano) (it : efiter) : Prop :=
  match i_high it with Some u => u_inv (da_bv (ef_high e)) u | None => True end.

Lemma to_of_ei e it : to_ei (of_ei e it) = it.
Proof. destruct it as [k [[p b]|] lb lm ciw cav]; reflexivity. Qed.

Lemma of_ei_ok e it : bv_len (ef_low e) < W -> lenN (bv_words (da_bv (ef_high e))) < 2 ^ 58 -> mi_inv e it ->
  ei_ok (of_ei e it).
Proof.
  intros HW Hw Hi. split; [exact HW|]. unfold mi_inv in Hi. unfold of_ei. cbn [ei_high_iter ei_ef].
  destruct (i_high it) as [u|]; cbn [option_map]; [|exact I].
  destruct Hi as (Hp & _). repeat split; [exact Hw | exact Hp].
Qed.

Lemma efi_next_inv c e it it' x : lenN (bv_words (da_bv (ef_high e))) < 2 ^ 58 -> usize_list (bv_words (da_bv (ef_high e))) ->
  mi_inv e it -> efi_next c e it = Ok (it', Some x) -> mi_inv e it'.
Proof.
  intros Hw HU Hi. unfold efi_next, mi_inv in *.
  destruct (if i_k it =? ef_len e then None else i_high it) as [u|] eqn:Eh; [|discriminate].
  assert (Eu : i_high it = Some u) by (destruct (i_k it =? ef_len e); [discriminate | exact Eh]).
  rewrite Eu in Hi.
  destruct (if i_chunks_avail it =? 0 then _ else _) as [[lb av]|]; cbn [bind]; [|discriminate].
  destruct (unary_next c (da_bv (ef_high e)) u) as [[u' y]|] eqn:En; cbn [bind fst snd]; [|discriminate].
  destruct y as [high|]; cbn [unwrap bind]; [|discriminate].
  destruct (sub c high (i_k it)); cbn [bind]; [|discriminate].
  destruct (shl c _ _); cbn [bind]; [|discriminate].
  destruct (add c (i_k it) 1); cbn [bind]; [|discriminate].
  destruct (shr c lb _); cbn [bind]; [|discriminate].
  intros [= <- _]. cbn [i_high]. eapply unary_next_inv; eauto.
Qed.

Lemma lin_scan c e val : bv_len (ef_low e) < W -> lenN (bv_words (da_bv (ef_high e))) < 2 ^ 58 ->
  usize_list (bv_words (da_bv (ef_high e))) -> forall n i it, mi_inv e it ->
  (t12 <- rmap brk_join (fold_res_brk (fun it i =>
          t10 <- elias_fano_iter_next c it ;;
          let it := (fst t10) in
          x <- unwrap (snd t10) ;;
          if (N.eqb val x) then (Ok (inr (inr (Some i)))) else (
          Ok (inl it)
          )) (nseq_from i n) (of_ei e it)) ;;
   match t12 with inr v_ => Ok v_ | inl it => Ok None end)
  = bs_linear c e val n i it.
Proof.
  intros HW Hw HU. induction n as [|n IH]; intros i it Hi; [reflexivity|].
  cbn [nseq_from bs_linear]. rewrite fold_res_brk_cons.
  rewrite tie_elias_fano_iter_next by (now apply of_ei_ok). cbn [ei_ef of_ei]. fold (of_ei e it).
  rewrite to_of_ei.
  destruct (efi_next c e it) as [[it' x]|] eqn:En; snorm; [|reflexivity].
  destruct x as [x|]; cbn [unwrap bind]; [|reflexivity].
  destruct (val =? x); snorm; [reflexivity|].
  replace (i + 1) with (N.succ i) by lia. apply IH. eapply efi_next_inv; eauto.
Qed.

Lemma efi_new_inv c e k it : usize_list (bv_words (da_bv (ef_high e))) ->
  (forall p, da_select1 c (ef_high e) k = Ok (Some p) -> p + 64 < W) ->
  efi_new c e k = Ok it -> mi_inv e it.
Proof.
  intros HU Hs. unfold efi_new.
  destruct (dassert c _); cbn [bind]; [|discriminate].
  destruct (shl c 1 _); cbn [bind]; [|discriminate]. destruct (sub c _ 1); cbn [bind]; [|discriminate].
  destruct (if negb (ef_low_len e =? 0) then _ else _); cbn [bind]; [|discriminate].
  destruct (k <? ef_len e); cbn [bind].
  - destruct (da_select1 c (ef_high e) k) as [[p|]|] eqn:E; cbn [unwrap bind]; try discriminate.
    intros [= <-]. unfold mi_inv. cbn [i_high]. apply unary_new_inv; [exact HU | now apply Hs].
  - intros [= <-]. exact I.
Qed.

(* the hypotheses: stored numbers and lengths in range; `select1` of the high bits returns positions below 2^64 - 64
   (they are positions in a bit vector of fewer than 2^64 - 64 bits whenever the index is the one built from it) *)
Lemma tie_elias_fano_binsearch_range : forall c e rs re val,
  ef_len e < 2 ^ 63 -> bv_len (ef_low e) < W ->
  lenN (bv_words (da_bv (ef_high e))) < 2 ^ 58 -> usize_list (bv_words (da_bv (ef_high e))) ->
  (forall k p, da_select1 c (ef_high e) k = Ok (Some p) -> p + 64 < W) ->
  elias_fano_binsearch_range c e (rs, re) val = ef_binsearch_range c e rs re val.
Proof.
  intros c e rs re val Hlen HW Hw HU Hsel.
  unfold elias_fano_binsearch_range, ef_binsearch_range, elias_fano_len. fold (ef_len e). snorm.
  assert (Ec : (if re <=? rs then Ok true else Ok (ef_len e <? re)) =
               Ok ((re <=? rs) || (ef_len e <? re))) by (destruct (re <=? rs); reflexivity).
  rewrite Ec. clear Ec. snorm.
  destruct (N.leb_spec re rs) as [|Hlt]; cbn [orb]; [reflexivity|].
  destruct (N.ltb_spec (ef_len e) re) as [|Hle]; [reflexivity|].
  rewrite <- (bs_fuel c e val rs re) by lia.
  change (rs, re) with (swapN (re, rs)).
  rewrite (loopN_conj swapN bs_exit _ _ (bs_step_conj c e val)).
  destruct (loopN W _ (re, rs)) as [[[hi lo]|v]|]; cbn [rmap bind bs_exit swapN fst snd]; try reflexivity.
  rewrite tie_elias_fano_iter.
  destruct (efi_new c e lo) as [it|] eqn:En; snorm; [|reflexivity].
  unfold nrange. apply lin_scan; try assumption.
  eapply efi_new_inv; eauto.
Qed.

Lemma tie_elias_fano_binsearch : forall c e val,
  ef_len e < 2 ^ 63 -> bv_len (ef_low e) < W ->
  lenN (bv_words (da_bv (ef_high e))) < 2 ^ 58 -> usize_list (bv_words (da_bv (ef_high e))) ->
  (forall k p, da_select1 c (ef_high e) k = Ok (Some p) -> p + 64 < W) ->
  elias_fano_binsearch c e val = ef_binsearch c e val.
Proof.
  intros. unfold elias_fano_binsearch, ef_binsearch, elias_fano_len. fold (ef_len e). snorm.
  now apply tie_elias_fano_binsearch_range.
Qed.

(* =============================================================================================
   the builder's high bits keep their length; the built sequence is in range
   ============================================================================================= *)
Lemma from_bit_len c bit len bv : from_bit c bit len = Ok bv -> bv_len bv = len.
Proof.
  unfold from_bit. destruct (words_for c len); cbn [bind]; [|discriminate].
  destruct (negb (len mod WORD_LEN =? 0)); [|intros [= <-]; reflexivity].
  destruct (shl c 1 _); cbn [bind]; [|discriminate]. destruct (sub c _ 1); cbn [bind]; [|discriminate].
  destruct (assert_ _); cbn [bind]; [|discriminate]. intros [= <-]. reflexivity.
Qed.

Lemma set_bit_len c bv p bit bv' ok : set_bit c bv p bit = Ok (bv', ok) -> bv_len bv' = bv_len bv.
Proof.
  unfold set_bit. destruct (bv_len bv <=? p); [intros [= <- _]; reflexivity|].
  destruct (idx 0 _ _); cbn [bind]; [|discriminate]. destruct (shl c 1 _); cbn [bind]; [|discriminate].
  destruct (shl c (b2n bit) _); cbn [bind]; [|discriminate]. intros [= <- _]. reflexivity.
Qed.

Lemma efb_new_high c u m b : m + u + 2 < 2 ^ 56 -> efb_new c u m = Ok (Some b) -> bv_len (b_high b) < 2 ^ 56.
Proof.
  intros Hu. unfold efb_new. change (2 ^ 56) with 72057594037927936 in *.
  destruct (m =? 0); [discriminate|]. destruct (div_ u m) as [q|]; cbn [bind]; [|discriminate].
  rewrite add_ok by (unfold W; lia). cbn [bind].
  destruct (shr c u _) as [h|] eqn:Eh; cbn [bind]; [|discriminate]. apply shr_le in Eh.
  rewrite add_ok by (unfold W; lia). cbn [bind]. rewrite add_ok by (unfold W; lia). cbn [bind].
  destruct (from_bit c false (m + 1 + h + 1)) as [bv|] eqn:Eb; cbn [bind]; [|discriminate].
  intros [= <-]. cbn [b_high]. rewrite (from_bit_len _ _ _ _ Eb). lia.
Qed.

Lemma efb_push_high c b v b' ok : efb_push c b v = Ok (b', ok) -> bv_len (b_high b') = bv_len (b_high b).
Proof.
  unfold efb_push. destruct (v <? b_last b); [intros [= <- _]; reflexivity|].
  destruct (b_universe b <=? v); [intros [= <- _]; reflexivity|].
  destruct (b_num_vals b <=? b_pos b); [intros [= <- _]; reflexivity|].
  destruct (shl c 1 _); cbn [bind]; [|discriminate]. destruct (sub c _ 1); cbn [bind]; [|discriminate].
  destruct (if negb (b_low_len b =? 0) then _ else _); cbn [bind]; [|discriminate].
  destruct (shr c v _); cbn [bind]; [|discriminate]. destruct (add c _ (b_pos b)); cbn [bind]; [|discriminate].
  destruct (set_bit c (b_high b) _ true) as [[hb ok']|] eqn:Es; cbn [bind fst snd]; [|discriminate].
  destruct (assert_ ok'); cbn [bind]; [|discriminate]. destruct (add c (b_pos b) 1); cbn [bind]; [|discriminate].
  intros [= <- _]. cbn [b_high]. eapply set_bit_len; eauto.
Qed.

(* the high bits of a built sequence are the bit vector DArray::from_bits made from fewer than 2^56 bits *)
Lemma efb_build_range c b e : bv_len (b_high b) < 2 ^ 56 -> efb_build c b = Ok e -> bv_range (da_bv (ef_high e)).
Proof.
  intros Hl. unfold efb_build. destruct (bv_bits c (b_high b)) as [bits|] eqn:E; cbn [bind]; [|discriminate].
  unfold da_from_bits. rewrite bind_assoc.
  destruct (from_bits c bits) as [bv|] eqn:Eb; cbn [bind]; [|discriminate].
  unfold da_new. destruct (da_build c bv true); cbn [bind]; [|discriminate]. intros [= <-]. cbn [ef_high da_bv].
  apply (from_bits_range c bits); [|exact Eb].
  unfold bv_bits in E. apply map_res_length in E. unfold nseq in E. rewrite nseq_from_length in E.
  unfold lenN. rewrite E. lia.
Qed.

(* =============================================================================================
   PrefixSummedEliasFano (prefix_summed_elias_fano.rs)
   ============================================================================================= *)
Definition sumN (vals : list N) : N := fold_left N.add vals 0.

Lemma fold_add_ge : forall vals a, a <= fold_left N.add vals a.
Proof. induction vals as [|x r IH]; intro a; cbn [fold_left]; [lia|]. specialize (IH (a + x)). lia. Qed.

Lemma sum_ok c : forall vals a, fold_left N.add vals a < W ->
  fold_res (fun u x => add c u x) vals a = Ok (fold_left N.add vals a).
Proof.
  induction vals as [|x r IH]; intros a H; cbn [fold_left fold_res] in *; [reflexivity|].
  pose proof (fold_add_ge r (a + x)). rewrite add_ok by lia. cbn [bind]. now apply IH.
Qed.

Lemma ps_sum_fold c (vals : list N) : forall u,
  fold_res_brk (fun universe x =>
      match Some x return res (N + (N + option psef)) with
      | None => Ok (inr (inr None))
      | Some t1 => universe <- add c universe t1 ;; Ok (inl universe)
      end) vals u = rmap inl (fold_res (fun u x => add c u x) vals u).
Proof.
  apply fold_res_brk_noexit. intros s x. destruct (add c s x); reflexivity.
Qed.

Definition ps_mbody (c : cfg) (st : efbuilder * N * bool) (x : N) : res (efbuilder * N * bool) :=
  let '(b, cur, ok) := st in
  if negb ok then Ok st else cur <- add c cur x ;; r <- efb_push c b cur ;; Ok (fst r, cur, snd r).

Lemma ps_rejected c : forall vals b cur, fold_res (ps_mbody c) vals (b, cur, false) = Ok (b, cur, false).
Proof. induction vals as [|x r IH]; intros b cur; [reflexivity|]. cbn [fold_res ps_mbody negb bind]. apply IH. Qed.

Lemma ps_push_fold c : forall vals b cur,
  rmap brk_join (fold_res_brk (fun '(b, cur) x =>
      t7 <- unwrap (Some x) ;;
      cur <- add c cur t7 ;;
      t9 <- elias_fano_builder_push c b cur ;;
      let b := (fst t9) in
      if (negb (snd t9)) then (Ok (inr (inr (@None psef)))) else (Ok (inl (b, cur)))) vals (b, cur))
  = rmap (fun st : efbuilder * N * bool => let '(b, cur, ok) := st in if ok then inl (b, cur) else inr None)
      (fold_res (ps_mbody c) vals (b, cur, true)).
Proof.
  induction vals as [|x r IH]; intros b cur; [reflexivity|].
  rewrite fold_res_brk_cons. cbn [fold_res ps_mbody negb unwrap bind].
  destruct (add c cur x) as [cur'|]; snorm; [|reflexivity].
  rewrite tie_elias_fano_builder_push.
  destruct (efb_push c b cur') as [[b' ok]|]; snorm; [|reflexivity].
  destruct ok; snorm; [apply IH|]. now rewrite ps_rejected.
Qed.

Lemma ps_fold_high c : forall vals b cur ok b' cur' ok',
  fold_res (ps_mbody c) vals (b, cur, ok) = Ok (b', cur', ok') -> bv_len (b_high b') = bv_len (b_high b).
Proof.
  induction vals as [|x r IH]; intros b cur ok b' cur' ok'; cbn [fold_res]; [intros [= <- _ _]; reflexivity|].
  unfold ps_mbody at 1. destruct ok; cbn [negb bind]; [|apply IH].
  destruct (add c cur x) as [cu|]; cbn [bind]; [|discriminate].
  destruct (efb_push c b cu) as [[b1 ok1]|] eqn:Ep; cbn [bind fst snd]; [|discriminate].
  intros E. rewrite (IH _ _ _ _ _ _ E). eapply efb_push_high; eauto.
Qed.

Lemma tie_psef_from_slice : forall c vals, lenN vals + sumN vals + 3 < 2 ^ 56 ->
  psef_from_slice c vals = ps_from_slice c vals.
Proof.
  intros c vals Hs. unfold psef_from_slice, ps_from_slice.
  destruct vals as [|x0 r]; [reflexivity|].
  replace (lenN (x0 :: r) =? 0) with false by (symmetry; apply N.eqb_neq; rewrite lenN_cons; lia).
  set (vals := x0 :: r) in *. cbv zeta. rewrite ps_sum_fold.
  change (2 ^ 56) with 72057594037927936 in Hs.
  assert (HsW : sumN vals < W) by (unfold W; lia).
  unfold sumN in *. rewrite sum_ok by exact HsW. snorm.
  rewrite add_ok by (unfold W; lia). snorm.
  rewrite tie_elias_fano_builder_new.
  destruct (efb_new c (fold_left N.add vals 0 + 1) (lenN vals)) as [[b0|]|] eqn:En; snorm; try reflexivity.
  rewrite ps_push_fold. fold (ps_mbody c).
  destruct (fold_res (ps_mbody c) vals (b0, 0, true)) as [[[b cur] ok]|] eqn:Ef; snorm; [|reflexivity].
  destruct ok; snorm; [|reflexivity].
  rewrite tie_elias_fano_builder_build; [destruct (efb_build c b); reflexivity|].
  rewrite (ps_fold_high c _ _ _ _ _ _ _ Ef). eapply efb_new_high; [|exact En].
  change (2 ^ 56) with 72057594037927936. lia.
Qed.

Lemma tie_psef_len : forall c p, psef_len c p = Ok (ps_len p).
Proof. reflexivity. Qed.

Lemma tie_psef_sum : forall c p, psef_sum c p = ps_sum c p.
Proof. reflexivity. Qed.

Lemma tie_psef_access : forall c p pos, psef_access c p pos = ps_access c p pos.
Proof. intros. unfold psef_access, ps_access. apply tie_elias_fano_delta. Qed.

Lemma tie_psef_iter_new : forall c p, psef_iter_new c p = Ok {| pi_efl := p; pi_pos := 0 |}.
Proof. reflexivity. Qed.

Lemma tie_psef_iter_next : forall c it,
  psef_iter_next c it =
  ('(q, x) <- ps_iter_next c (pi_efl it) (pi_pos it) ;; Ok ({| pi_efl := pi_efl it; pi_pos := q |}, x)).
Proof.
  intros c [p pos]. unfold psef_iter_next, ps_iter_next. rewrite tie_psef_len, tie_psef_access. ssteps.
Qed.

Lemma tie_psef_iter_size_hint : forall c it,
  psef_iter_size_hint c it =
  ('(a, b) <- BitVector.iter_size_hint c (ps_len (pi_efl it)) (pi_pos it) ;; Ok (a, Some b)).
Proof. intros c [p pos]. unfold psef_iter_size_hint, iter_size_hint. rewrite tie_psef_len. ssteps. Qed.

(* =============================================================================================
   from_bits of EliasFano and SArray: the popcount fold, the pushes, the build
   ============================================================================================= *)
Lemma tie_bit_vector_iter : forall c bv, bit_vector_iter c bv = Ok {| it_bv := bv; it_pos := 0 |}.
Proof. reflexivity. Qed.

Lemma tie_bit_vector_unary_iter : forall c bv pos, bit_vector_unary_iter c bv pos = Ok (of_u bv (unary_new bv pos)).
Proof. intros. unfold bit_vector_unary_iter. apply tie_unary_iter_new. Qed.

(* `(0..bv.num_words()).fold(0, |acc, i| acc + popcount(bv.words()[i]))` against a fold over the words *)
Lemma popcount_fold c (words : list N) :
  fold_res (fun acc i => t5 <- idx 0 words i ;; add c acc (popcN t5)) (nrange 0 (lenN words)) 0
  = fold_res (fun acc w => add c acc (popcN w)) words 0.
Proof.
  destruct (fold_nrange_inv0 (fun a : N => a) (fun _ _ => True)
              (fun acc i => t5 <- idx 0 words i ;; add c acc (popcN t5))
              (fun acc w => add c acc (popcN w)) words 0) as [E _]; [|exact I|].
  - intros pre x post t Hl _. split; [|auto]. rewrite Hl, idx_app_mid. cbn [bind]. now rewrite rmap_id.
  - rewrite E. apply rmap_id.
Qed.

Lemma add_le c a b r : add c a b = Ok r -> r <= a + b.
Proof.
  unfold add. destruct (a + b <? W); [intros [= <-]; lia|]. destruct (dbg c); [discriminate|].
  intros [= <-]. rewrite wrap_mod. apply N.mod_le. discriminate.
Qed.

Lemma popcount_fold_le c : forall words acc m, usize_list words ->
  fold_res (fun acc w => add c acc (popcN w)) words acc = Ok m -> m <= acc + 64 * lenN words.
Proof.
  induction words as [|w r IH]; intros acc m HU; cbn [fold_res]; [intros [= <-]; change (lenN (@nil N)) with 0; lia|].
  destruct (add c acc (popcN w)) as [a|] eqn:Ea; cbn [bind]; [|discriminate]. intros E.
  apply IH in E; [|intros y Hy; apply HU; now right].
  apply add_le in Ea. pose proof (popcN_le_64 w (HU w (or_introl eq_refl))). rewrite lenN_cons. lia.
Qed.

(* what from_bits gives: the range facts used below *)
Lemma from_bits_facts c bits bv : lenN bits < 2 ^ 54 -> BitVector.from_bits c bits = Ok bv ->
  bv_len bv = lenN bits /\ usize_list (bv_words bv) /\ lenN (bv_words bv) < 2 ^ 58 /\
  64 * lenN (bv_words bv) <= lenN bits + 63.
Proof.
  intros Hb E. change (2 ^ 54) with 18014398509481984 in Hb.
  destruct (from_bits_spec c bits) as (bv' & E' & Hwf & Hbits); [change (2 ^ 56) with 72057594037927936; lia|].
  rewrite E in E'. injection E' as <-.
  assert (Hl : bv_len bv = lenN bits) by (rewrite <- Hbits; symmetry; now apply bits_of_length).
  destruct Hwf as (Hw1 & Hw2 & _). change (2 ^ 58) with 288230376151711744.
  repeat split; [exact Hl | | rewrite Hw1; lia | rewrite Hw1; lia].
  intros w Hw. rewrite Forall_forall in Hw2. now apply Hw2.
Qed.

(* ---- SArray::from_bits: `for i in bv.unary_iter(0) { b.push(i).unwrap(); }` ---- *)
Lemma to_of_u bv u : to_u (of_u bv u) = u.
Proof. now destruct u. Qed.

Lemma push_ones_loop c bv : lenN (bv_words bv) < 2 ^ 58 -> usize_list (bv_words bv) ->
  forall fuel u b b' n, u_inv bv u -> push_ones c fuel bv u b = Ok b' -> N.of_nat fuel <= n ->
  exists it', loopN n (fun '(it1_, b) =>
            t11 <- unary_iter_next c it1_ ;;
            let it1_ := (fst t11) in
            match (snd t11) with None => Ok (inr (it1_, b)) | Some i =>
            t12 <- elias_fano_builder_push c b i ;;
            let b := (fst t12) in
            _ <- assert_ (snd t12) ;;
            Ok (inl (it1_, b))
            end) (of_u bv u, b) = Ok (it', b').
Proof.
  intros Hw HU. induction fuel as [|f IH]; intros u b b' n Hi E Hn; [discriminate|].
  cbn [push_ones] in E. rewrite loopN_step by lia.
  rewrite tie_unary_iter_next by (cbn [of_u ui_bv ui_pos]; first [exact Hw | apply Hi]).
  cbn [of_u ui_bv]. fold (of_u bv u). rewrite to_of_u. unfold lift_u.
  destruct (unary_next c bv u) as [[u' x]|] eqn:En; cbn [bind fst snd] in *; [|discriminate].
  destruct x as [i|]; [|injection E as <-; eauto].
  rewrite tie_elias_fano_builder_push.
  destruct (efb_push c b i) as [[b1 ok]|]; cbn [bind fst snd] in *; [|discriminate].
  destruct (assert_ ok); cbn [bind] in *; [|discriminate].
  apply IH; [eapply unary_next_inv; eauto | exact E | lia].
Qed.

Lemma push_ones_high c bv : forall fuel u b b', push_ones c fuel bv u b = Ok b' -> bv_len (b_high b') = bv_len (b_high b).
Proof.
  induction fuel as [|f IH]; intros u b b'; cbn [push_ones]; [discriminate|].
  destruct (unary_next c bv u) as [[u' x]|]; cbn [bind fst snd]; [|discriminate].
  destruct x as [i|]; [|intros [= <-]; reflexivity].
  destruct (efb_push c b i) as [[b1 ok]|] eqn:Ep; cbn [bind fst snd]; [|discriminate].
  destruct (assert_ ok); cbn [bind]; [|discriminate]. intros E. rewrite (IH _ _ _ E). eapply efb_push_high; eauto.
Qed.

(* The model runs the pushes on num_ones + 2 units of fuel; the tie is stated for the runs in which the model returns a
   value (Proofs/SAMain.v proves that it does, for every bit sequence below the capacity bound). *)
Lemma tie_sarray_from_bits : forall c bits r, lenN bits < 2 ^ 54 ->
  (bv <- BitVector.from_bits c bits ;; sa_from_bv c bv) = Ok r -> sarray_from_bits c bits = Ok r.
Proof.
  intros c bits r Hb. unfold sarray_from_bits, sa_from_bv. rewrite tie_bit_vector_from_bits. getters.
  destruct (from_bits c bits) as [bv|] eqn:Ebv; cbn [bind]; [|discriminate].
  destruct (from_bits_facts c bits bv Hb Ebv) as (Hl & HU & Hw & H64).
  rewrite popcount_fold.
  destruct (fold_res _ (bv_words bv) 0) as [m|] eqn:Em; cbn [bind]; [|discriminate].
  apply popcount_fold_le in Em; [|exact HU].
  destruct (m =? 0); cbn [negb bind]; [auto|].
  rewrite tie_elias_fano_builder_new.
  destruct (efb_new c (bv_len bv) m) as [[b0|]|] eqn:En; cbn [unwrap bind]; try discriminate.
  rewrite tie_bit_vector_unary_iter. cbn [bind].
  destruct (push_ones c _ bv (unary_new bv 0) b0) as [b'|] eqn:Ep; cbn [bind]; [|discriminate].
  destruct (push_ones_loop c bv Hw HU _ _ _ _ W (unary_new_inv bv 0 HU eq_refl) Ep) as [it' El].
  { change (2 ^ 54) with 18014398509481984 in Hb. unfold W. lia. }
  match goal with |- context [loopN W ?F ?s] => set (L := loopN W F s) end.
  replace L with (Ok (it', b') : res (unaryiter * efbuilder)) by (symmetry; exact El). cbn [bind].
  rewrite tie_elias_fano_builder_build; [destruct (efb_build c b'); cbn [bind]; auto|].
  rewrite (push_ones_high c bv _ _ _ _ Ep). eapply efb_new_high; [|exact En].
  change (2 ^ 54) with 18014398509481984 in Hb. change (2 ^ 56) with 72057594037927936. lia.
Qed.

(* ---- EliasFano::from_bits: `for i in 0..n { if bv.access(i).unwrap() { b.push(i)?; } }` ---- *)
Definition efb_mbody (c : cfg) (bv : bitvec) (b : efbuilder) (i : N) : res efbuilder :=
  x <- BitVector.access c bv i ;; x <- unwrap x ;;
  if x : bool then (r <- efb_push c b i ;; _ <- assert_ (snd r) ;; Ok (fst r)) else Ok b.

Lemma ef_push_fold c bv : forall l b b', fold_res (efb_mbody c bv) l b = Ok b' ->
  rmap brk_join (fold_res_brk (fun b i =>
          t11 <- bit_vector_access c bv i ;;
          t12 <- unwrap t11 ;;
          t14 <- (if t12 : bool then (
              t13 <- elias_fano_builder_push c b i ;;
              let b := (fst t13) in
              if (negb (snd t13)) then (Ok (inr (@None eliasfano))) else (Ok (inl b))
            ) else (Ok (inl b))) ;;
          match t14 with inr v_ => Ok (inr (inr v_)) | inl b => Ok (inl b) end) l b) = Ok (inl b') /\
  bv_len (b_high b') = bv_len (b_high b).
Proof.
  induction l as [|i r IH]; intros b b'; cbn [fold_res]; [intros [= <-]; split; reflexivity|].
  rewrite fold_res_brk_cons. unfold efb_mbody at 1.
  replace (bit_vector_access c bv i) with (access c bv i) by (symmetry; apply tie_bit_vector_access).
  destruct (access c bv i) as [o|]; cbn [bind]; [|discriminate].
  destruct (unwrap o) as [[|]|]; cbn [bind]; [| |discriminate].
  - rewrite tie_elias_fano_builder_push.
    destruct (efb_push c b i) as [[b1 ok]|] eqn:Ep; cbn [bind fst snd]; [|discriminate].
    destruct ok; cbn [assert_ bind negb]; [|discriminate]. intros E. destruct (IH _ _ E) as [E1 E2].
    split; [exact E1|]. rewrite E2. eapply efb_push_high; eauto.
  - apply IH.
Qed.

(* The model turns a rejected push into a panic where the code returns Err; neither happens on the bits of a bit
   vector.  The tie is stated for the runs in which the model returns a value. *)
Lemma tie_elias_fano_from_bits : forall c bits r, lenN bits < 2 ^ 54 ->
  (bv <- BitVector.from_bits c bits ;; ef_from_bits c bv) = Ok r -> elias_fano_from_bits c bits = Ok r.
Proof.
  intros c bits r Hb. unfold elias_fano_from_bits, ef_from_bits. rewrite tie_bit_vector_from_bits. getters.
  destruct (from_bits c bits) as [bv|] eqn:Ebv; cbn [bind]; [|discriminate].
  destruct (from_bits_facts c bits bv Hb Ebv) as (Hl & HU & Hw & H64).
  destruct (bv_len bv =? 0); [auto|].
  rewrite popcount_fold.
  destruct (fold_res _ (bv_words bv) 0) as [m|] eqn:Em; cbn [bind]; [|discriminate].
  apply popcount_fold_le in Em; [|exact HU].
  destruct (m =? 0); [auto|].
  rewrite tie_elias_fano_builder_new.
  destruct (efb_new c (bv_len bv) m) as [[b0|]|] eqn:En; cbn [unwrap bind]; try discriminate.
  rewrite nrange_0. fold (efb_mbody c bv).
  destruct (fold_res (efb_mbody c bv) (nseq (bv_len bv)) b0) as [b'|] eqn:Ef; cbn [bind]; [|discriminate].
  destruct (ef_push_fold c bv _ _ _ Ef) as [Eg Eh].
  match goal with |- context [rmap brk_join ?F] => set (L := rmap brk_join F) end.
  replace L with (Ok (inl b') : res (efbuilder + option eliasfano)) by (symmetry; exact Eg). cbn [bind].
  rewrite tie_elias_fano_builder_build; [destruct (efb_build c b'); cbn [bind]; auto|].
  rewrite Eh. eapply efb_new_high; [|exact En].
  change (2 ^ 54) with 18014398509481984 in Hb. change (2 ^ 56) with 72057594037927936. lia.
Qed.

(* =============================================================================================
   SArray (sarray.rs): the wrappers
   ============================================================================================= *)
(* the hypotheses of tie_elias_fano_rank and of tie_elias_fano_binsearch about the sequence inside an SArray *)
Definition ef_rank_ok (e : eliasfano) : Prop :=
  bv_len (ef_low e) < W /\ (forall s0, da_s0 (ef_high e) = Some s0 -> usize_list (d_overflow s0)).
Definition ef_search_ok (c : cfg) (e : eliasfano) : Prop :=
  ef_len e < 2 ^ 63 /\ bv_len (ef_low e) < W /\
  lenN (bv_words (da_bv (ef_high e))) < 2 ^ 58 /\ usize_list (bv_words (da_bv (ef_high e))) /\
  (forall k p, da_select1 c (ef_high e) k = Ok (Some p) -> p + 64 < W).

Lemma tie_sarray_enable_rank : forall c s, (forall e, sa_ef s = Some e -> bv_range (da_bv (ef_high e))) ->
  sarray_enable_rank c s = sa_enable_rank c s.
Proof.
  intros c [ef nb no hr] H. unfold sarray_enable_rank, sa_enable_rank. snorm.
  destruct ef as [e|]; [|reflexivity].
  rewrite tie_elias_fano_enable_rank by (apply H; reflexivity).
  destruct (ef_enable_rank c e); reflexivity.
Qed.

Lemma tie_sarray_has_rank : forall c s, sarray_has_rank c s = Ok (sa_has_rank s).
Proof. reflexivity. Qed.
Lemma tie_sarray_len : forall c s, sarray_len c s = Ok (sa_num_bits s).
Proof. reflexivity. Qed.
Lemma tie_sarray_num_bits : forall c s, sarray_num_bits c s = Ok (sa_num_bits s).
Proof. reflexivity. Qed.
Lemma tie_sarray_num_ones : forall c s, sarray_num_ones c s = Ok (sa_num_ones s).
Proof. reflexivity. Qed.

Lemma tie_sarray_predecessor1 : forall c s pos, sarray_predecessor1 c s pos = sa_predecessor1 c s pos.
Proof.
  intros c s pos. unfold sarray_predecessor1, sa_predecessor1, sarray_has_rank. snorm.
  destruct (sa_has_rank s); cbn [negb assert_ bind]; [|reflexivity].
  destruct (sa_ef s) as [e|]; [apply tie_elias_fano_predecessor | reflexivity].
Qed.

Lemma tie_sarray_successor1 : forall c s pos, sarray_successor1 c s pos = sa_successor1 c s pos.
Proof.
  intros c s pos. unfold sarray_successor1, sa_successor1, sarray_has_rank. snorm.
  destruct (sa_has_rank s); cbn [negb assert_ bind]; [|reflexivity].
  destruct (sa_ef s) as [e|]; [apply tie_elias_fano_successor | reflexivity].
Qed.

Lemma tie_sarray_select1 : forall c s k, sarray_select1 c s k = sa_select1 c s k.
Proof.
  intros c s k. unfold sarray_select1, sa_select1. destruct (sa_ef s) as [e|]; [apply tie_elias_fano_select | reflexivity].
Qed.

Lemma tie_sarray_access : forall c s pos, (forall e, sa_ef s = Some e -> ef_search_ok c e) ->
  sarray_access c s pos = sa_access c s pos.
Proof.
  intros c s pos H. unfold sarray_access, sa_access.
  destruct (sa_num_bits s <=? pos); [reflexivity|].
  destruct (sa_ef s) as [e|]; [|reflexivity].
  destruct (H e eq_refl) as (H1 & H2 & H3 & H4 & H5).
  rewrite tie_elias_fano_binsearch by assumption. reflexivity.
Qed.

Lemma tie_sarray_rank1 : forall c s pos, (forall e, sa_ef s = Some e -> ef_rank_ok e) ->
  sa_rank1 c s pos <> Panic -> sarray_rank1 c s pos = sa_rank1 c s pos.
Proof.
  intros c s pos H. unfold sarray_rank1, sa_rank1, sarray_has_rank. snorm.
  destruct (sa_has_rank s); cbn [negb assert_ bind]; [|reflexivity].
  destruct (sa_num_bits s <? pos); [reflexivity|].
  destruct (sa_ef s) as [e|]; [|reflexivity].
  destruct (H e eq_refl) as (H1 & H2). intros Hne. now apply tie_elias_fano_rank.
Qed.

Lemma tie_sarray_rank0 : forall c s pos, (forall e, sa_ef s = Some e -> ef_rank_ok e) ->
  sa_rank0 c s pos <> Panic -> sarray_rank0 c s pos = sa_rank0 c s pos.
Proof.
  intros c s pos H Hne. unfold sarray_rank0, sa_rank0 in *.
  rewrite tie_sarray_rank1; [reflexivity | exact H |].
  intros E. apply Hne. now rewrite E.
Qed.

(* Build::build_from_bits(bits, with_rank, _, with_select0): no model function; the expression of the models *)
Lemma tie_sarray_build_from_bits : forall c bits wr w1 w0 r, lenN bits < 2 ^ 54 ->
  (if w0 : bool then Ok None else
     (bv <- BitVector.from_bits c bits ;; s <- sa_from_bv c bv ;;
      s <- (if wr : bool then sa_enable_rank c s else Ok s) ;; Ok (Some s))) = Ok r ->
  sarray_build_from_bits c bits wr w1 w0 = Ok r.
Proof.
  intros c bits wr w1 w0 r Hb. unfold sarray_build_from_bits.
  destruct w0; [auto|]. rewrite <- bind_assoc.
  destruct (bv <- from_bits c bits ;; sa_from_bv c bv) as [s|] eqn:Es; cbn [bind]; [|discriminate].
  rewrite (tie_sarray_from_bits c bits s Hb Es). cbn [bind].
  destruct wr; [|auto].
  (* the sequence built by from_bits is in range for enable_rank *)
  assert (Hr : forall e, sa_ef s = Some e -> bv_range (da_bv (ef_high e))).
  { intros e He. destruct (from_bits c bits) as [bv|] eqn:Ebv; cbn [bind] in Es; [|discriminate].
    destruct (from_bits_facts c bits bv Hb Ebv) as (Hl & HU & Hw & H64).
    unfold sa_from_bv in Es.
    destruct (fold_res _ (bv_words bv) 0) as [m|] eqn:Em; cbn [bind] in Es; [|discriminate].
    apply popcount_fold_le in Em; [|exact HU].
    destruct (m =? 0); cbn [negb bind] in Es; [injection Es as <-; discriminate|].
    destruct (efb_new c (bv_len bv) m) as [[b0|]|] eqn:En; cbn [unwrap bind] in Es; try discriminate.
    destruct (push_ones c _ bv (unary_new bv 0) b0) as [b'|] eqn:Ep; cbn [bind] in Es; [|discriminate].
    destruct (efb_build c b') as [e'|] eqn:Eb; cbn [bind] in Es; [|discriminate].
    injection Es as <-. cbn [sa_ef] in He. injection He as <-.
    apply (efb_build_range c b'); [|exact Eb].
    rewrite (push_ones_high c bv _ _ _ _ Ep). eapply efb_new_high; [|exact En].
    change (2 ^ 54) with 18014398509481984 in Hb. change (2 ^ 56) with 72057594037927936. lia. }
  rewrite tie_sarray_enable_rank by exact Hr.
  destruct (sa_enable_rank c s); cbn [bind]; auto.
Qed.

(* =============================================================================================
   all ties
   ============================================================================================= *)
Theorem loops_tie_seq_all :
  (* bit_vector.rs: the two iterator constructors used below *)
  (forall c bv, bit_vector_iter c bv = Ok {| it_bv := bv; it_pos := 0 |}) /\
  (forall c bv pos, bit_vector_unary_iter c bv pos = Ok (of_u bv (unary_new bv pos))) /\
  (* compact_vector.rs *)
  (forall c val len width, compact_vector_from_int c val len width = cv_from_int c val len width) /\
  (forall c vals, compact_vector_from_slice c vals = cv_from_slice c vals) /\
  (forall c v vals, compact_vector_extend c v vals = cv_extend c v vals) /\
  (forall c v pos, compact_vector_access c v pos = cv_access c v pos) /\
  (forall c v, compact_vector_iter_new c v = Ok {| ci_cv := v; ci_pos := 0 |}) /\
  (forall c it, compact_vector_iter_next c it =
     ('(p, x) <- cv_iter_next c (ci_cv it) (ci_pos it) ;; Ok ({| ci_cv := ci_cv it; ci_pos := p |}, x))) /\
  (forall c it, compact_vector_iter_size_hint c it =
     ('(a, b) <- BitVector.iter_size_hint c (cv_len (ci_cv it)) (ci_pos it) ;; Ok (a, Some b))) /\
  (* elias_fano.rs: EliasFanoBuilder *)
  (forall c universe num_vals, elias_fano_builder_new c universe num_vals = efb_new c universe num_vals) /\
  (forall c b val, elias_fano_builder_push c b val = efb_push c b val) /\
  (forall c b vals, elias_fano_builder_extend c b vals = efb_extend c b vals) /\
  (forall c b, bv_len (b_high b) < 2 ^ 56 -> elias_fano_builder_build c b = efb_build c b) /\
  (* elias_fano.rs: EliasFano *)
  (forall c bits r, lenN bits < 2 ^ 54 ->
     (bv <- BitVector.from_bits c bits ;; ef_from_bits c bv) = Ok r -> elias_fano_from_bits c bits = Ok r) /\
  (forall c e, bv_range (da_bv (ef_high e)) -> elias_fano_enable_rank c e = ef_enable_rank c e) /\
  (forall c e pos, bv_len (ef_low e) < W ->
     (forall s0, da_s0 (ef_high e) = Some s0 -> usize_list (d_overflow s0)) ->
     ef_rank c e pos <> Panic -> elias_fano_rank c e pos = ef_rank c e pos) /\
  (forall c e k, elias_fano_iter c e k = rmap (of_ei e) (efi_new c e k)) /\
  (forall c e rs re val, ef_len e < 2 ^ 63 -> bv_len (ef_low e) < W ->
     lenN (bv_words (da_bv (ef_high e))) < 2 ^ 58 -> usize_list (bv_words (da_bv (ef_high e))) ->
     (forall k p, da_select1 c (ef_high e) k = Ok (Some p) -> p + 64 < W) ->
     elias_fano_binsearch_range c e (rs, re) val = ef_binsearch_range c e rs re val) /\
  (forall c e val, ef_len e < 2 ^ 63 -> bv_len (ef_low e) < W ->
     lenN (bv_words (da_bv (ef_high e))) < 2 ^ 58 -> usize_list (bv_words (da_bv (ef_high e))) ->
     (forall k p, da_select1 c (ef_high e) k = Ok (Some p) -> p + 64 < W) ->
     elias_fano_binsearch c e val = ef_binsearch c e val) /\
  (* elias_fano/iter.rs *)
  (forall c e k, elias_fano_iter_new c e k = rmap (of_ei e) (efi_new c e k)) /\
  (forall c it, ei_ok it ->
     elias_fano_iter_next c it = ('(m, x) <- efi_next c (ei_ef it) (to_ei it) ;; Ok (of_ei (ei_ef it) m, x))) /\
  (* sarray.rs *)
  (forall c bits r, lenN bits < 2 ^ 54 ->
     (bv <- BitVector.from_bits c bits ;; sa_from_bv c bv) = Ok r -> sarray_from_bits c bits = Ok r) /\
  (forall c s, (forall e, sa_ef s = Some e -> bv_range (da_bv (ef_high e))) ->
     sarray_enable_rank c s = sa_enable_rank c s) /\
  (forall c s, sarray_has_rank c s = Ok (sa_has_rank s)) /\
  (forall c s pos, sarray_predecessor1 c s pos = sa_predecessor1 c s pos) /\
  (forall c s pos, sarray_successor1 c s pos = sa_successor1 c s pos) /\
  (forall c s, sarray_len c s = Ok (sa_num_bits s)) /\
  (forall c bits wr w1 w0 r, lenN bits < 2 ^ 54 ->
     (if w0 : bool then Ok None else
        (bv <- BitVector.from_bits c bits ;; s <- sa_from_bv c bv ;;
         s <- (if wr : bool then sa_enable_rank c s else Ok s) ;; Ok (Some s))) = Ok r ->
     sarray_build_from_bits c bits wr w1 w0 = Ok r) /\
  (forall c s, sarray_num_bits c s = Ok (sa_num_bits s)) /\
  (forall c s, sarray_num_ones c s = Ok (sa_num_ones s)) /\
  (forall c s pos, (forall e, sa_ef s = Some e -> ef_search_ok c e) -> sarray_access c s pos = sa_access c s pos) /\
  (forall c s pos, (forall e, sa_ef s = Some e -> ef_rank_ok e) -> sa_rank1 c s pos <> Panic ->
     sarray_rank1 c s pos = sa_rank1 c s pos) /\
  (forall c s pos, (forall e, sa_ef s = Some e -> ef_rank_ok e) -> sa_rank0 c s pos <> Panic ->
     sarray_rank0 c s pos = sa_rank0 c s pos) /\
  (forall c s k, sarray_select1 c s k = sa_select1 c s k) /\
  (* prefix_summed_elias_fano.rs *)
  (forall c vals, lenN vals + sumN vals + 3 < 2 ^ 56 -> psef_from_slice c vals = ps_from_slice c vals) /\
  (forall c p, psef_len c p = Ok (ps_len p)) /\
  (forall c p, psef_sum c p = ps_sum c p) /\
  (forall c p pos, psef_access c p pos = ps_access c p pos) /\
  (forall c p, psef_iter_new c p = Ok {| pi_efl := p; pi_pos := 0 |}) /\
  (forall c it, psef_iter_next c it =
     ('(q, x) <- ps_iter_next c (pi_efl it) (pi_pos it) ;; Ok ({| pi_efl := pi_efl it; pi_pos := q |}, x))) /\
  (forall c it, psef_iter_size_hint c it =
     ('(a, b) <- BitVector.iter_size_hint c (ps_len (pi_efl it)) (pi_pos it) ;; Ok (a, Some b))).
Proof.
  exact
  (conj tie_bit_vector_iter
  (conj tie_bit_vector_unary_iter
  (conj tie_compact_vector_from_int
  (conj tie_compact_vector_from_slice
  (conj tie_compact_vector_extend
  (conj tie_compact_vector_access
  (conj tie_compact_vector_iter_new
  (conj tie_compact_vector_iter_next
  (conj tie_compact_vector_iter_size_hint
  (conj tie_elias_fano_builder_new
  (conj tie_elias_fano_builder_push
  (conj tie_elias_fano_builder_extend
  (conj tie_elias_fano_builder_build
  (conj tie_elias_fano_from_bits
  (conj tie_elias_fano_enable_rank
  (conj tie_elias_fano_rank
  (conj tie_elias_fano_iter
  (conj tie_elias_fano_binsearch_range
  (conj tie_elias_fano_binsearch
  (conj tie_elias_fano_iter_new
  (conj tie_elias_fano_iter_next
  (conj tie_sarray_from_bits
  (conj tie_sarray_enable_rank
  (conj tie_sarray_has_rank
  (conj tie_sarray_predecessor1
  (conj tie_sarray_successor1
  (conj tie_sarray_len
  (conj tie_sarray_build_from_bits
  (conj tie_sarray_num_bits
  (conj tie_sarray_num_ones
  (conj tie_sarray_access
  (conj tie_sarray_rank1
  (conj tie_sarray_rank0
  (conj tie_sarray_select1
  (conj tie_psef_from_slice
  (conj tie_psef_len
  (conj tie_psef_sum
  (conj tie_psef_access
  (conj tie_psef_iter_new
  (conj tie_psef_iter_next
  tie_psef_iter_size_hint)))))))))))))))))))))))))))))))))))))))).
Qed.

Print Assumptions loops_tie_seq_all.

(* non-vacuity of the hypotheses, and the loops run inside the kernel: the sequence 3 3 40 41 99 over the universe
   100 in a dev and a release configuration *)
Example loops_tie_seq_example :
  forall c, In c [ {| dbg := true; intr := false |}; {| dbg := false; intr := true |} ] ->
  exists e,
    (b <- elias_fano_builder_new c 100 5 ;; b <- unwrap b ;; r <- elias_fano_builder_extend c b [3; 3; 40; 41; 99] ;;
     e <- elias_fano_builder_build c (fst r) ;; elias_fano_enable_rank c e) = Ok e /\
    ef_rank_ok e /\ ef_search_ok c e /\
    elias_fano_rank c e 41 = Ok (Some 3) /\ elias_fano_binsearch c e 41 = Ok (Some 3) /\
    elias_fano_binsearch c e 42 = Ok None /\
    psef_from_slice c [0; 0; 5; 0] = ps_from_slice c [0; 0; 5; 0] /\ lenN [0; 0; 5; 0] + sumN [0; 0; 5; 0] + 3 < 2 ^ 56 /\
    sarray_from_bits c [false; true; true; false; true] =
      (bv <- BitVector.from_bits c [false; true; true; false; true] ;; sa_from_bv c bv).
Proof.
  intros c Hc.
  assert (Hex : exists e, (b <- elias_fano_builder_new c 100 5 ;; b <- unwrap b ;;
     r <- elias_fano_builder_extend c b [3; 3; 40; 41; 99] ;;
     e <- elias_fano_builder_build c (fst r) ;; elias_fano_enable_rank c e) = Ok e /\
     (forall c' k p, k < 5 -> da_select1 c' (ef_high e) k = Ok (Some p) -> p < 64) /\ ef_len e = 5 /\
     bv_len (ef_low e) = 20 /\ bv_words (da_bv (ef_high e)) = [1075] /\
     (forall s0, da_s0 (ef_high e) = Some s0 -> d_overflow s0 = []) /\
     elias_fano_rank c e 41 = Ok (Some 3) /\ elias_fano_binsearch c e 41 = Ok (Some 3) /\
     elias_fano_binsearch c e 42 = Ok None).
  { destruct Hc as [<-|[<-|[]]]; eexists; (split; [vm_compute; reflexivity|]);
      (split; [intros c' k p Hk;
                 assert (Ek : k = 0 \/ k = 1 \/ k = 2 \/ k = 3 \/ k = 4) by lia;
                 destruct c' as [[|] [|]]; destruct Ek as [->|[->|[->|[->| ->]]]]; vm_compute; intros [= <-]; reflexivity|]);
      repeat split; try (vm_compute; reflexivity); intros s0 E; vm_compute in E; injection E as <-; reflexivity. }
  destruct Hex as (e & E & Hsel & Hlen & Hlow & Hw & Ho & R1 & R2 & R3). exists e.
  split; [exact E|]. split.
  { split; [rewrite Hlow; reflexivity|]. intros s0 E0 x Hx. rewrite (Ho s0 E0) in Hx. destruct Hx. }
  split.
  { unfold ef_search_ok. rewrite Hlen, Hlow, Hw. repeat split; try reflexivity.
    - intros x [<-|[]]. reflexivity.
    - intros k p Ek. destruct (N.lt_ge_cases k 5) as [Hk|Hk].
      + specialize (Hsel c k p Hk Ek). unfold W. lia.
      + unfold da_select1, da_select in Ek. fold (da_num_ones (ef_high e)) in Ek. fold (ef_len e) in Ek. rewrite Hlen in Ek.
        destruct (N.leb_spec 5 k); [discriminate|lia]. }
  split; [exact R1|]. split; [exact R2|]. split; [exact R3|].
  split; [destruct Hc as [<-|[<-|[]]]; vm_compute; reflexivity|].
  split; [vm_compute; reflexivity|].
  destruct Hc as [<-|[<-|[]]]; vm_compute; reflexivity.
Qed.
