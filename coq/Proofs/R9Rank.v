(* Proofs/R9Rank.v — property C01, part 2: rank1 / rank0 / num_ones / num_zeros / access of a
   Rank9Sel whose directory is the declarative one equal the plain bit sequence, for every
   argument of usize and every configuration. *)
From Sucds Require Import Base.Res Spec.WordSpec Spec.BitSpec Model.BitVector Model.Rank9
  Proofs.ResLemmas Proofs.BVAbs Proofs.WordLemmas Proofs.BVReads Proofs.BVReads2 Proofs.C14_Bits
  Proofs.R9Build.
From Coq Require Import ZArith ZifyN ZifyBool ZifyNat Lia.
Ltac Zify.zify_post_hook ::= Z.div_mod_to_equations.
Open Scope N_scope.
Set Default Proof Using "All".

(* the index belongs to the bit vector: length and declarative directory (hints are free) *)
Definition r9_ok (bv : bitvec) (r : r9index) : Prop :=
  r_len r = bv_len bv /\ r_brp r = brp_spec (bv_words bv).

Lemma wf_all bv : wf bv -> Forall (fun w => w < W) (bv_words bv).
Proof. intros [_ [H _]]. exact H. Qed.

Lemma wf_cap_nwords bv : wf bv -> cap_ok bv -> lenN (bv_words bv) < 2251799813685248.
Proof. intros Hwf Hcap. pose proof (wf_nwords bv Hwf). pose proof (cap_W bv Hcap). lia. Qed.

(* ---------- counting prefixes of the denoted sequence ---------- *)

Lemma cnt_flat ws i : Forall (fun w => w < W) ws ->
  count true (flat_bits (firstn (N.to_nat i) ws)) = cnt ws i.
Proof. intro H. unfold cnt. apply count_flat_bits, Forall_firstn', H. Qed.

Lemma count_true_bits_of bv : wf bv -> count true (bits_of bv) = popsum (bv_words bv).
Proof.
  intro Hwf. rewrite <- count_flat_bits by (apply wf_all, Hwf).
  rewrite (flat_bits_split bv) at 1. rewrite count_app.
  assert (Z : forall l, (forall x, In x l -> x = false) -> count true l = 0).
  { induction l as [|x l IH]; intro H; [reflexivity|].
    cbn [count]. rewrite (H x (or_introl eq_refl)). cbn [Bool.eqb].
    rewrite IH by (intros y Hy; apply H; right; exact Hy). reflexivity. }
  rewrite (Z (skipn _ _)) by (intros x Hx; apply (flat_tail_false bv x Hwf Hx)). lia.
Qed.

Lemma count_prefix bv pos : wf bv -> pos <= bv_len bv ->
  count true (firstn (N.to_nat pos) (bits_of bv))
  = cnt (bv_words bv) (pos / 64) + popcN (nthN (bv_words bv) (pos / 64) 0 mod 2 ^ (pos mod 64)).
Proof.
  intros Hwf H. pose proof (wf_nwords bv Hwf) as Hn. pose proof (wf_all bv Hwf) as Hall.
  rewrite firstn_bits_of by exact H.
  destruct (N.lt_ge_cases (pos / 64) (lenN (bv_words bv))) as [Hq|Hq].
  - replace (N.to_nat pos) with (64 * N.to_nat (pos / 64) + N.to_nat (pos mod 64))%nat by lia.
    rewrite firstn_flat_bits_word by (unfold lenN in Hq; lia).
    rewrite count_app, cnt_flat by exact Hall. f_equal.
    fold (nthN (bv_words bv) (pos / 64) 0).
    apply count_firstn_word_bits. lia.
  - assert (Hr : pos mod 64 = 0) by lia. rewrite Hr.
    change (2 ^ 0) with 1. rewrite N.mod_1_r. change (popcN 0) with 0. rewrite N.add_0_r.
    replace (N.to_nat pos) with (64 * N.to_nat (pos / 64))%nat by lia.
    rewrite firstn_flat_bits_full by (unfold lenN in *; lia).
    apply cnt_flat, Hall.
Qed.

(* ---------- rank ---------- *)

Section Rank.
Variables (bv : bitvec) (r : r9index).
Hypothesis Hwf : wf bv.
Hypothesis Hcap : cap_ok bv.
Hypothesis Hok : r9_ok bv r.

Let ws := bv_words bv.
Let Hall : Forall (fun w => w < W) ws := wf_all bv Hwf.
Let Hlen : lenN ws < 2251799813685248 := wf_cap_nwords bv Hwf Hcap.
Let Hbrp : r_brp r = brp_spec ws := proj2 Hok.

Lemma pow2_9mul l : 2 ^ (l * 9) = 512 ^ l.
Proof. replace (l * 9) with (9 * l) by lia. rewrite N.pow_mul_r. reflexivity. Qed.

Lemma SR_field j t : (t <= 7)%nat ->
  (SR ws j / 512 ^ (7 - N.of_nat t)) mod 512 = subf ws j t.
Proof.
  intro Ht. unfold SR. rewrite <- (subs_clamp (subf ws j) 7) by lia.
  replace (7 - N.of_nat t) with (N.of_nat (7 - t)) by lia.
  rewrite subs_field by (try apply (clamp_lt ws Hall Hlen); lia).
  unfold clamp. destruct (Nat.leb_spec t 7) as [_|Hx]; [|lia].
  destruct (Nat.eqb_spec t 0) as [->|Hz]; [|reflexivity].
  unfold subf. change (N.of_nat 0) with 0. rewrite N.add_0_r. lia.
Qed.

Lemma sub_block_rank_ok c i : i < lenN ws -> sub_block_rank c r i = Ok (cnt ws i).
Proof.
  intro Hi. unfold sub_block_rank, BLOCK_LEN.
  assert (Hj : i / 8 < nblocks ws) by (unfold nblocks; lia).
  rewrite (block_rank_ok ws r Hall Hlen Hbrp) by lia. cbn [bind].
  rewrite (sub_block_ranks_ok ws r Hall Hlen Hbrp) by exact Hj. cbn [bind].
  rewrite sub_ok by lia. cbn [bind]. rewrite mul_ok by (unfold W; lia). cbn [bind].
  rewrite shr_ok by lia. cbn [bind].
  change 511 with (N.ones 9). rewrite N.land_ones. change (2 ^ 9) with 512.
  rewrite pow2_9mul.
  replace (7 - i mod 8) with (7 - N.of_nat (N.to_nat (i mod 8))) by lia.
  rewrite SR_field by lia. unfold subf. rewrite N2Nat.id.
  replace (8 * (i / 8) + i mod 8) with i by lia.
  pose proof (cnt_mono ws Hall (8 * (i / 8)) i ltac:(lia)).
  pose proof (cnt_le_len ws Hall i).
  rewrite add_ok by (unfold W; lia). f_equal. lia.
Qed.

Lemma r9_num_ones_ok c : num_ones c r = Ok (count true (bits_of bv)).
Proof. rewrite (num_ones_ok ws r Hall Hlen Hbrp). rewrite count_true_bits_of by exact Hwf. reflexivity. Qed.

Theorem r9_rank1_ok c pos : pos < W ->
  rank1 c r bv pos = Ok (BitSpec.rank true (bits_of bv) pos).
Proof.
  intro Hpos. unfold rank1, BitSpec.rank. rewrite bits_of_length by exact Hwf.
  destruct (N.ltb_spec (bv_len bv) pos) as [H|H];
    destruct (N.leb_spec pos (bv_len bv)) as [H'|H']; try lia; [reflexivity|]. clear H'.
  destruct (N.eqb_spec pos (bv_len bv)) as [He|Hne].
  - rewrite r9_num_ones_ok. cbn [bind]. subst pos.
    rewrite <- bits_of_length_nat by exact Hwf. rewrite firstn_all. reflexivity.
  - pose proof (wf_nwords bv Hwf) as Hn. fold ws in Hn.
    assert (Hq : pos / 64 < lenN ws) by lia.
    rewrite sub_block_rank_ok by exact Hq. cbn [bind].
    rewrite count_prefix by (try exact Hwf; lia). fold ws.
    destruct (N.eqb_spec (pos mod 64) 0) as [Hz|Hnz]; cbn [negb].
    + rewrite Hz. change (2 ^ 0) with 1. rewrite N.mod_1_r. change (popcN 0) with 0.
      rewrite N.add_0_r. reflexivity.
    + rewrite idx_ok by exact Hq. cbn [bind].
      rewrite sub_ok by lia. cbn [bind]. rewrite shl_ok by lia. cbn [bind].
      rewrite popcN_shl_low by lia.
      assert (Hw : nthN ws (pos / 64) 0 < W) by (apply Forall_nthN; [exact Hall | apply W_pos]).
      assert (Hp : popcN (nthN ws (pos / 64) 0 mod 2 ^ (pos mod 64)) <= 64).
      { apply popcN_le_64. eapply N.le_lt_trans; [apply N.mod_le; apply N.pow_nonzero; lia | exact Hw]. }
      pose proof (cnt_le_len ws Hall (pos / 64)).
      rewrite add_ok by (unfold W; lia). reflexivity.
Qed.

Theorem r9_rank0_ok c pos : pos < W ->
  rank0 c r bv pos = Ok (BitSpec.rank false (bits_of bv) pos).
Proof.
  intro Hpos. unfold rank0. rewrite r9_rank1_ok by exact Hpos. cbn [bind].
  unfold BitSpec.rank. rewrite bits_of_length by exact Hwf.
  destruct (N.leb_spec pos (bv_len bv)) as [H|H]; [|reflexivity].
  pose proof (count_firstn_le true (bits_of bv) (N.to_nat pos)) as Hle.
  rewrite sub_ok by lia. cbn [bind]. do 2 f_equal.
  pose proof (count_true_false (firstn (N.to_nat pos) (bits_of bv))) as Htf.
  rewrite lenN_firstn, bits_of_length in Htf by exact Hwf. lia.
Qed.

Lemma r9_num_zeros_ok c : num_zeros c r = Ok (count false (bits_of bv)).
Proof.
  unfold num_zeros. rewrite r9_num_ones_ok. cbn [bind]. rewrite (proj1 Hok).
  pose proof (count_true_false (bits_of bv)) as Htf. rewrite bits_of_length in Htf by exact Hwf.
  rewrite sub_ok by lia. f_equal. lia.
Qed.
End Rank.

(* ---------- the built value and the partial theorem ---------- *)

Definition r9_base (bv : bitvec) : r9index :=
  {| r_len := bv_len bv; r_brp := brp_spec (bv_words bv); r_h1 := None; r_h0 := None |}.

Lemma r9_new_ok c bv : wf bv -> cap_ok bv ->
  r9_new c bv = Ok {| r9_bv := bv; r9_rs := r9_base bv |}.
Proof.
  intros Hwf Hcap. unfold r9_new. destruct bv as [ws len].
  rewrite build_rank_ok.
  - reflexivity.
  - apply (wf_all _ Hwf).
  - apply (wf_cap_nwords _ Hwf Hcap).
Qed.

(* everything of r9_correct except select, for any value whose index belongs to its bit vector *)
Definition r9_rank_part (c : cfg) (x : r9sel) : Prop :=
  let b := bits_of (r9_bv x) in
  wf (r9_bv x) /\
  r9_num_ones c x = Ok (BitSpec.count true b) /\
  r9_num_zeros c x = Ok (BitSpec.count false b) /\
  (forall i, i < W -> r9_access c x i = Ok (BitSpec.access b i) /\
                      r9_rank1 c x i = Ok (BitSpec.rank true b i) /\
                      r9_rank0 c x i = Ok (BitSpec.rank false b i)).

Lemma r9_rank_part_ok c x : wf (r9_bv x) -> cap_ok (r9_bv x) -> r9_ok (r9_bv x) (r9_rs x) ->
  r9_rank_part c x.
Proof.
  intros Hwf Hcap Hok. unfold r9_rank_part. cbv zeta. split; [exact Hwf|]. split; [|split].
  - unfold r9_num_ones. apply r9_num_ones_ok; assumption.
  - unfold r9_num_zeros, r9_num_ones, r9_num_bits.
    pose proof (r9_num_zeros_ok _ _ Hwf Hcap Hok c) as H. unfold num_zeros in H.
    rewrite (proj1 Hok) in H. exact H.
  - intros i Hi. split; [|split].
    + unfold r9_access, BitVector.access. apply get_bit_spec; assumption.
    + unfold r9_rank1. apply r9_rank1_ok; assumption.
    + unfold r9_rank0. apply r9_rank0_ok; assumption.
Qed.
