(* Proofs/R9Select.v — property C01, part 4: select1 / select0 of Rank9SelIndex (hint window or
   whole range, fuelled bisection over the block ranks, the broadword in-block search with
   uleq_step_9, select_in_word) equal BitSpec.select on the denoted bit sequence, with or
   without hints, for every k of usize and every configuration. *)
From Sucds Require Import Base.Res Spec.WordSpec Spec.BitSpec Model.BitVector Model.Rank9
  gen.BroadwordGen
  Proofs.ResLemmas Proofs.BVAbs Proofs.WordLemmas Proofs.BVReads Proofs.BVReads2 Proofs.C14_Bits
  Proofs.C14_Uleq9 Proofs.ConstsTie Proofs.R9Build Proofs.R9Rank Proofs.R9Hints.
From Coq Require Import ZArith ZifyN ZifyBool ZifyNat Lia.
Ltac Zify.zify_post_hook ::= Z.div_mod_to_equations.
Open Scope N_scope.
Set Default Proof Using "All".

(* ---------- how many of seven non-decreasing fields are <= r ---------- *)

Fixpoint cntle (G : nat -> N) (r : N) (m : nat) : nat :=
  match m with O => O | S m' => (cntle G r m' + (if (G (S m') <=? r)%N then 1 else 0))%nat end.

Lemma mono_chain (G : nat -> N) m : (forall t, (t < m)%nat -> G t <= G (S t)) ->
  forall b a, (a <= b <= m)%nat -> G a <= G b.
Proof.
  intros H b. induction b as [|b IH]; intros a Hab.
  - replace a with 0%nat by lia. lia.
  - destruct (Nat.eq_dec a (S b)) as [->|Hne]; [lia|].
    specialize (IH a ltac:(lia)). specialize (H b ltac:(lia)). lia.
Qed.

Lemma cntle_spec G r m : (forall t, (t < m)%nat -> G t <= G (S t)) -> G 0%nat <= r ->
  (cntle G r m <= m)%nat /\ G (cntle G r m) <= r /\
  ((cntle G r m < m)%nat -> r < G (S (cntle G r m))).
Proof.
  intros Hm H0. induction m as [|m IH].
  - cbn [cntle]. repeat split; [lia | exact H0 | lia].
  - destruct IH as [I1 [I2 I3]]; [intros t Ht; apply Hm; lia|].
    cbn [cntle]. destruct (N.leb_spec (G (S m)) r) as [Hle|Hgt].
    + assert (E : cntle G r m = m).
      { destruct (Nat.eq_dec (cntle G r m) m) as [E|Hne]; [exact E|]. exfalso.
        specialize (I3 ltac:(lia)).
        pose proof (mono_chain G (S m) Hm (S m) (S (cntle G r m)) ltac:(lia)). lia. }
      rewrite E. replace (m + 1)%nat with (S m) by lia. repeat split; [lia | exact Hle | lia].
    + rewrite Nat.add_0_r. repeat split; [lia | exact I2 |].
      intro Hc. destruct (Nat.eq_dec (cntle G r m) m) as [E|Hne]; [rewrite E; exact Hgt | apply I3; lia].
Qed.

(* the (uleq * ONES_STEP_9 >> 54) & 7 trick counts the set comparison bits *)
Lemma offset_calc (G : nat -> N) r :
  N.land (wmul (pack9 (zip (fun a b => if a <=? b then 1 else 0)
                          [G 7%nat; G 6%nat; G 5%nat; G 4%nat; G 3%nat; G 2%nat; G 1%nat]
                          [r; r; r; r; r; r; r])) Rank9.ONES_STEP_9 / 2 ^ 54) 7
  = N.of_nat (cntle G r 7).
Proof.
  cbn [zip cntle].
  destruct (G 7%nat <=? r), (G 6%nat <=? r), (G 5%nat <=? r), (G 4%nat <=? r),
           (G 3%nat <=? r), (G 2%nat <=? r), (G 1%nat <=? r); vm_compute; reflexivity.
Qed.

Lemma subs7_pack (G : nat -> N) :
  subs G 7 = pack9 [G 7%nat; G 6%nat; G 5%nat; G 4%nat; G 3%nat; G 2%nat; G 1%nat].
Proof. unfold pack9. cbn [subs pack]. change (2 ^ 9) with 512. reflexivity. Qed.

Lemma ones_pack r : r * Rank9.ONES_STEP_9 = pack9 [r; r; r; r; r; r; r].
Proof. unfold pack9, Rank9.ONES_STEP_9. cbn [pack]. change (2 ^ 9) with 512. lia. Qed.

Lemma uleq_fields c (G : nat -> N) r : (forall t, (t <= 7)%nat -> G t < 512) -> r < 512 ->
  Rank9.uleq_step_9 c (subs G 7) (r * Rank9.ONES_STEP_9)
  = Ok (pack9 (zip (fun a b => if a <=? b then 1 else 0)
                 [G 7%nat; G 6%nat; G 5%nat; G 4%nat; G 3%nat; G 2%nat; G 1%nat]
                 [r; r; r; r; r; r; r])).
Proof.
  intros HG Hr. rewrite <- tie_uleq_step_9, subs7_pack, ones_pack.
  apply uleq_step_9_fields; try reflexivity.
  - repeat constructor; apply HG; lia.
  - repeat constructor; exact Hr.
Qed.

(* ---------- selecting inside the word found ---------- *)

Lemma select_none v l k : count v l <= k -> select v l k = None.
Proof.
  intro H. unfold select. cbv zeta. unfold positions. rewrite positions_from_len.
  destruct (N.ltb_spec k (count v l)); [lia | reflexivity].
Qed.

Lemma flat_bits_app a b : flat_bits (a ++ b) = flat_bits a ++ flat_bits b.
Proof. unfold flat_bits. apply flat_map_app. Qed.

Lemma count_flat_V inv l : Forall (fun w => w < W) l ->
  count (negb inv) (flat_bits l) = if inv then 64 * lenN l - popsum l else popsum l.
Proof.
  intro H. pose proof (count_flat_bits l H) as T. destruct inv; cbn [negb]; [|exact T].
  pose proof (count_true_false (flat_bits l)) as E. unfold lenN in *. rewrite flat_bits_length in E. lia.
Qed.

Lemma firstn_app_exact {A} (l1 l2 : list A) : firstn (length l1) (l1 ++ l2) = l1.
Proof.
  rewrite firstn_app, Nat.sub_diag, firstn_all. cbn [firstn]. apply app_nil_r.
Qed.

Lemma select_word inv bv k wi : wf bv -> wi < lenN (bv_words bv) ->
  V inv (bv_words bv) wi <= k -> k < V inv (bv_words bv) (wi + 1) ->
  k < count (negb inv) (bits_of bv) ->
  exists p, select_in_word_spec (adj inv (nthN (bv_words bv) wi 0)) (k - V inv (bv_words bv) wi) = Some p /\
            p < 64 /\ select (negb inv) (bits_of bv) k = Some (64 * wi + p).
Proof.
  intros Hwf Hwi Hlo Hhi Hk. pose proof (wf_all bv Hwf) as Hall.
  set (ws := bv_words bv) in *.
  rewrite (V_succ inv ws Hall wi Hwi) in Hhi.
  assert (Hw : nthN ws wi 0 < W) by (apply Forall_nthN; [exact Hall | apply W_pos]).
  destruct (nth_split ws 0 (n := N.to_nat wi)) as [l1 [l2 [Ews Hl1]]]; [unfold lenN in Hwi; lia|].
  fold (nthN ws wi 0) in Ews.
  assert (HV : count (negb inv) (flat_bits l1) = V inv ws wi).
  { assert (Hall1 : Forall (fun w => w < W) l1).
    { rewrite Ews in Hall. apply Forall_app in Hall. tauto. }
    rewrite count_flat_V by exact Hall1. unfold V, cnt.
    replace (firstn (N.to_nat wi) ws) with l1 by (rewrite Ews, <- Hl1; symmetry; apply firstn_app_exact).
    unfold lenN. rewrite Hl1, N2Nat.id. reflexivity. }
  (* select on the denoted sequence = select on all the words *)
  assert (S1 : select (negb inv) (bits_of bv) k = selF (negb inv) (flat_bits ws) 0 k).
  { rewrite select_selF. unfold ws. rewrite (flat_bits_split bv) at 1. rewrite selF_app.
    destruct (N.ltb_spec k (count (negb inv) (bits_of bv))); [reflexivity | lia]. }
  rewrite S1. pose proof (f_equal flat_bits Ews) as Ef. rewrite flat_bits_app, flat_bits_cons in Ef.
  rewrite Ef.
  rewrite selF_app, HV. destruct (N.ltb_spec k (V inv ws wi)) as [Hx|_]; [lia|].
  rewrite selF_app, count_word_adj by exact Hw.
  destruct (N.ltb_spec (k - V inv ws wi) (popcN (adj inv (nthN ws wi 0)))) as [_|Hx]; [|lia].
  rewrite selF_shift, selF_word_adj by exact Hw.
  destruct (selF_some (negb inv) (word_bits (nthN ws wi 0)) 0 (k - V inv ws wi)) as [p Hp].
  { rewrite count_word_adj by exact Hw. lia. }
  pose proof (selF_range _ _ _ _ _ Hp) as Hr. unfold lenN in Hr. rewrite word_bits_length in Hr.
  rewrite selF_word_adj in Hp by exact Hw. rewrite Hp. cbn [option_map].
  exists p. split; [reflexivity|]. split; [lia|]. f_equal.
  unfold lenN. rewrite flat_bits_length, Hl1. lia.
Qed.

Lemma pow2_mul9 l : 2 ^ (l * 9) = 512 ^ l.
Proof. replace (l * 9) with (9 * l) by lia. rewrite N.pow_mul_r. reflexivity. Qed.

(* ---------- the index: bisection, in-block search, final word ---------- *)

Section Sel.
Variables (bv : bitvec) (r : r9index).
Hypothesis Hwf : wf bv.
Hypothesis Hcap : cap_ok bv.
Hypothesis Hok : r9_ok bv r.

Let ws := bv_words bv.
Let nb := nblocks ws.
Let Hall : Forall (fun w => w < W) ws := wf_all bv Hwf.
Let Hlen : lenN ws < 2251799813685248 := wf_cap_nwords bv Hwf Hcap.
Let Hbrp : r_brp r = brp_spec ws := proj2 Hok.

Lemma bisect_ok c zeros k : k < Rk zeros ws nb ->
  forall f a b, a < b -> b <= nb + 1 -> b - a <= 2 ^ N.of_nat f ->
  Rk zeros ws a <= k -> (b <= nb -> k < Rk zeros ws b) ->
  exists blk, iter_fuel (S f) (bisect_step c zeros r k) (a, b) = Ok blk /\
              blk < nb /\ Rk zeros ws blk <= k < Rk zeros ws (blk + 1).
Proof.
  intros Hk. pose proof (nblocks_lt ws Hlen) as Hnb. fold nb in Hnb.
  induction f as [|f IH]; intros a b Hab Hb Hd Ha Hkb.
  - change (2 ^ N.of_nat 0) with 1 in Hd. cbn [iter_fuel]. unfold bisect_step.
    rewrite sub_ok by lia. cbn [bind].
    destruct (N.ltb_spec 1 (b - a)) as [Hx|_]; [lia|]. cbn [bind].
    exists a. split; [reflexivity|].
    assert (b = a + 1) by lia. subst b.
    destruct (N.le_gt_cases (a + 1) nb) as [Hle|Hgt].
    + specialize (Hkb Hle). lia.
    + replace a with nb in Ha by lia. lia.
  - rewrite Nat2N.inj_succ, N.pow_succ_r' in Hd.
    change (iter_fuel (S (S f)) (bisect_step c zeros r k) (a, b))
      with (x <- bisect_step c zeros r k (a, b) ;;
            match x with inl s' => iter_fuel (S f) (bisect_step c zeros r k) s' | inr v => Ok v end).
    unfold bisect_step at 1. rewrite sub_ok by lia. cbn [bind].
    destruct (N.ltb_spec 1 (b - a)) as [Hgt1|Hle1].
    + rewrite add_ok by (unfold W; lia). cbn [bind].
      rewrite (gen_rank_ok ws r Hall Hlen Hbrp) by (fold nb; lia). cbn [bind].
      destruct (N.leb_spec (Rk zeros ws (a + (b - a) / 2)) k) as [Hle|Hgt]; cbn [bind].
      * apply IH; lia.
      * apply IH; try lia.
    + cbn [bind]. exists a. split; [reflexivity|].
      assert (b = a + 1) by lia. subst b.
      destruct (N.le_gt_cases (a + 1) nb) as [Hle|Hgt].
      * specialize (Hkb Hle). lia.
      * replace a with nb in Ha by lia. lia.
Qed.

(* the in-block field function: ones (zeros) in words 8 blk .. 8 blk + t - 1 *)
Definition Gf (zeros : bool) (blk : N) (t : nat) : N :=
  V zeros ws (8 * blk + N.of_nat t) - V zeros ws (8 * blk).

Lemma Gf_lt zeros blk t : (t <= 7)%nat -> Gf zeros blk t < 512.
Proof.
  intro Ht. unfold Gf. pose proof (V_diff_le zeros ws Hall (8 * blk) (8 * blk + N.of_nat t)). lia.
Qed.
Lemma Gf_0 zeros blk : Gf zeros blk 0 = 0.
Proof. unfold Gf. change (N.of_nat 0) with 0. rewrite N.add_0_r. lia. Qed.
Lemma Gf_mono zeros blk t : Gf zeros blk t <= Gf zeros blk (S t).
Proof.
  unfold Gf. pose proof (V_mono zeros ws Hall (8 * blk + N.of_nat t) (8 * blk + N.of_nat (S t))). lia.
Qed.

(* the packed sub-ranks used by the search: SR for ones, 64 * INV_COUNT_STEP_9 - SR for zeros *)
Lemma sub_ranks_ok c (zeros : bool) blk :
  (if zeros then (t <- mul c 64 INV_COUNT_STEP_9 ;; sub c t (SR ws blk)) else Ok (SR ws blk))
  = Ok (subs (Gf zeros blk) 7).
Proof.
  assert (E0 : forall t, subf ws blk t = Gf false blk t) by reflexivity.
  destruct zeros.
  - rewrite mul_ok by (vm_compute; reflexivity). cbn [bind].
    change (64 * INV_COUNT_STEP_9) with (subs (fun t => 64 * N.of_nat t) 7).
    assert (Hle : forall t, subf ws blk t <= 64 * N.of_nat t).
    { intro t. unfold subf. pose proof (cnt_diff_le ws Hall (8 * blk) (8 * blk + N.of_nat t)). lia. }
    destruct (subs_sub (fun t => 64 * N.of_nat t) (subf ws blk) 7 Hle) as [S1 S2].
    unfold SR. rewrite sub_ok by exact S1. f_equal. rewrite S2.
    apply subs_ext. intros t _. unfold Gf, V, subf.
    pose proof (cnt_diff_le ws Hall (8 * blk) (8 * blk + N.of_nat t)).
    pose proof (cnt_mono ws Hall (8 * blk) (8 * blk + N.of_nat t)).
    pose proof (cnt_le ws Hall (8 * blk)). lia.
  - reflexivity.
Qed.

Lemma total_lt_Rk zeros k : k < count (negb zeros) (bits_of bv) -> k < Rk zeros ws nb.
Proof.
  intro Hk. pose proof (wf_nwords bv Hwf) as Hn. fold ws in Hn.
  pose proof (count_true_bits_of bv Hwf) as Ht. fold ws in Ht.
  pose proof (count_true_false (bits_of bv)) as Htf. rewrite bits_of_length in Htf by exact Hwf.
  unfold Rk, V, nb, nblocks. rewrite cnt_over by lia.
  pose proof (popsum_le ws Hall). destruct zeros; cbn [negb] in Hk; lia.
Qed.

Lemma word_in_range zeros k wi : k < count (negb zeros) (bits_of bv) ->
  V zeros ws wi <= k -> k < V zeros ws (wi + 1) -> wi < lenN ws.
Proof.
  intros Hk Hlo Hhi. destruct (N.lt_ge_cases wi (lenN ws)) as [H|H]; [exact H|]. exfalso.
  pose proof (wf_nwords bv Hwf) as Hn. fold ws in Hn.
  pose proof (count_true_bits_of bv Hwf) as Ht. fold ws in Ht.
  pose proof (count_true_false (bits_of bv)) as Htf. rewrite bits_of_length in Htf by exact Hwf.
  rewrite (V_over zeros ws Hall wi H) in Hhi.
  unfold V in *. rewrite cnt_over in * by lia.
  pose proof (popsum_le ws Hall). destruct zeros; cbn [negb] in Hk; lia.
Qed.

Theorem select_gen_ok c (zeros : bool) k : k < W ->
  (if zeros then r_h0 r else r_h1 r) = None \/
  (if zeros then r_h0 r else r_h1 r) = Some (hints_spec zeros ws) ->
  select_gen c zeros r bv k = Ok (select (negb zeros) (bits_of bv) k).
Proof.
  intros HkW Hh. unfold select_gen.
  assert (Ecnt : (if zeros then num_zeros c r else num_ones c r)
                 = Ok (count (negb zeros) (bits_of bv))).
  { destruct zeros; cbn [negb]; [apply r9_num_zeros_ok | apply r9_num_ones_ok]; assumption. }
  rewrite Ecnt. cbn [bind].
  destruct (N.leb_spec (count (negb zeros) (bits_of bv)) k) as [Hge|Hk].
  { rewrite select_none by exact Hge. reflexivity. }
  pose proof (total_lt_Rk zeros k Hk) as HkR.
  pose proof (nblocks_lt ws Hlen) as Hnb. fold nb in Hnb.
  rewrite (num_blocks_ok ws r Hall Hlen Hbrp). cbn [bind]. fold nb.
  (* the window *)
  assert (Ew : exists a b,
    match (if zeros then r_h0 r else r_h1 r) with
    | Some hints =>
        a <- (if negb (k / SELECT_ONES_PER_HINT =? 0)
              then (i <- sub c (k / SELECT_ONES_PER_HINT) 1 ;; idx 0 hints i) else Ok 0) ;;
        h <- idx 0 hints (k / SELECT_ONES_PER_HINT) ;; b <- add c h 1 ;; Ok (a, b)
    | None => Ok (0, nb)
    end = Ok (a, b) /\
    a < b /\ b <= nb + 1 /\ Rk zeros ws a <= k /\ (b <= nb -> k < Rk zeros ws b)).
  { destruct Hh as [-> | ->].
    - exists 0, nb. split; [reflexivity|]. rewrite (Rk_0 zeros ws Hall).
      assert (nb <> 0) by (intros E; rewrite E, (Rk_0 zeros ws Hall) in HkR; lia).
      repeat split; lia.
    - apply (hint_window ws r Hall Hlen Hbrp c zeros k HkR). }
  destruct Ew as [a [b [Ew [Hab [Hb [Ha Hkb]]]]]]. rewrite Ew. cbn [bind].
  destruct (bisect_ok c zeros k HkR 65 a b Hab Hb) as [blk [Eb [Hblk [Hlo Hhi]]]]; try assumption.
  { change (2 ^ N.of_nat 65) with 36893488147419103232. lia. }
  rewrite Eb. cbn [bind]. fold nb in Hblk.
  rewrite dassert_ok by (apply N.ltb_lt; exact Hblk). cbn [bind].
  unfold BLOCK_LEN. rewrite mul_ok by (unfold W; lia). cbn [bind].
  rewrite (gen_rank_ok ws r Hall Hlen Hbrp) by (fold nb; lia). cbn [bind].
  rewrite dassert_ok by (apply N.leb_le; exact Hlo). cbn [bind].
  rewrite sub_ok by exact Hlo. cbn [bind].
  pose proof (Rk_step zeros ws Hall blk) as Hst.
  set (rr := k - Rk zeros ws blk) in *.
  assert (Hrr : rr < 512) by (unfold rr; lia).
  rewrite mul_ok by (unfold Rank9.ONES_STEP_9, W; lia). cbn [bind].
  rewrite (sub_block_ranks_ok ws r Hall Hlen Hbrp) by exact Hblk. cbn [bind].
  rewrite sub_ranks_ok. cbn [bind].
  set (G := Gf zeros blk).
  assert (HG : forall t, (t <= 7)%nat -> G t < 512) by (intros t Ht; apply Gf_lt, Ht).
  rewrite (uleq_fields c G rr HG Hrr). cbn [bind].
  rewrite shr_ok by lia. cbn [bind]. rewrite offset_calc.
  destruct (cntle_spec G rr 7) as [Ho1 [Ho2 Ho3]].
  { intros t _. apply Gf_mono. }
  { unfold G. rewrite Gf_0. lia. }
  set (off := cntle G rr 7) in *.
  rewrite sub_ok by lia. cbn [bind].
  rewrite wmul_spec, (N.mod_small ((7 - N.of_nat off) * 9)) by (unfold W; lia).
  rewrite shr_ok by lia. cbn [bind].
  change 511 with (N.ones 9). rewrite N.land_ones. change (2 ^ 9) with 512.
  rewrite pow2_mul9, (subs7_field G off HG Ho1).
  assert (EG : (if (off =? 0)%nat then 0 else G off) = G off).
  { destruct (Nat.eqb_spec off 0) as [->|_]; [unfold G; rewrite Gf_0|]; reflexivity. }
  rewrite EG.
  (* the word found *)
  set (wi := 8 * blk + N.of_nat off).
  assert (HVlo : Rk zeros ws blk + G off = V zeros ws wi).
  { unfold G, Gf, Rk, wi. pose proof (V_mono zeros ws Hall (8 * blk) (8 * blk + N.of_nat off)). lia. }
  assert (Hwlo : V zeros ws wi <= k) by (unfold rr in Ho2; lia).
  assert (Hwhi : k < V zeros ws (wi + 1)).
  { destruct (Nat.eq_dec off 7) as [E7|Hne].
    - unfold wi. rewrite E7. replace (8 * blk + N.of_nat 7 + 1) with (8 * (blk + 1)) by lia. exact Hhi.
    - specialize (Ho3 ltac:(lia)). unfold G, Gf, rr, Rk in Ho3. unfold wi.
      replace (8 * blk + N.of_nat off + 1) with (8 * blk + N.of_nat (S off)) by lia.
      unfold Rk in Hlo. lia. }
  pose proof (word_in_range zeros k wi Hk Hwlo Hwhi) as Hwi.
  pose proof (V_le zeros ws Hall wi) as HVle.
  rewrite add_ok by (rewrite HVlo; unfold W; lia). cbn [bind]. rewrite HVlo.
  rewrite dassert_ok by (apply N.leb_le; exact Hwlo). cbn [bind].
  rewrite add_ok by (unfold W; lia). cbn [bind].
  replace (blk * 8 + N.of_nat off) with wi by (unfold wi; lia).
  rewrite idx_ok by exact Hwi. cbn [bind]. cbv zeta.
  rewrite sub_ok by exact Hwlo. cbn [bind].
  fold (adj zeros (nthN (bv_words bv) wi 0)).
  destruct (select_word zeros bv k wi Hwf Hwi Hwlo Hwhi Hk) as [p [Ep [Hp Esel]]].
  unfold ws. rewrite Ep. cbn [unwrap bind].
  rewrite mul_ok by (unfold W; lia). cbn [bind]. rewrite add_ok by (unfold W; lia). cbn [bind].
  rewrite Esel. do 2 f_equal. lia.
Qed.
End Sel.
