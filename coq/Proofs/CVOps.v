(* Proofs/CVOps.v — C09: constructors and mutators of the CompactVector model establish /
   preserve the representation invariant and agree with the plain-list rules; a rejected
   push_int / set_int leaves the vector unchanged, extend keeps the items before the first misfit. *)
From Sucds Require Import Base.Res Spec.WordSpec Spec.BitSpec Spec.SeqSpec Spec.DacSpec
  Model.BitVector Model.CompactVector
  Proofs.ResLemmas Proofs.BVAbs Proofs.WordLemmas Proofs.BVReads Proofs.BVMutLemmas Proofs.BVMut
  Proofs.CVRep.
From Coq Require Import ZArith ZifyN ZifyBool ZifyNat Lia.
Ltac Zify.zify_post_hook ::= Z.div_mod_to_equations.
Open Scope N_scope.

(* ---------- the two BitVector mutators in the shape used here ---------- *)
Lemma push_bits_ok c bv x w : wf bv -> w <= 64 -> bv_len bv + w < 2 ^ 56 ->
  exists bv', push_bits c bv x w = Ok (bv', true) /\ wf bv' /\
    bits_of bv' = bits_of bv ++ low_bits (N.to_nat w) x.
Proof.
  intros Hwf Hw Hcap.
  assert (E : apply_op (bits_of bv) (OPushBits x w) = (bits_of bv ++ low_bits (N.to_nat w) x, true)).
  { cbn [apply_op]. destruct (N.leb_spec w 64); [reflexivity | lia]. }
  destruct (push_bits_spec c bv x w Hwf) as [bv' [ok [Er [Hwf' [Hb [Hok _]]]]]].
  { rewrite E. cbn [fst]. rewrite lenN_app, lenN_low_bits, bits_of_length by exact Hwf. exact Hcap. }
  rewrite E in Hb, Hok. cbn [fst snd] in Hb, Hok. subst ok. exists bv'. auto.
Qed.

Lemma set_bits_ok c bv pos x w : wf bv -> bv_len bv < 2 ^ 56 -> w <= 64 -> pos + w <= bv_len bv ->
  exists bv', set_bits c bv pos x w = Ok (bv', true) /\ wf bv' /\
    bits_of bv' = overwrite (bits_of bv) (N.to_nat pos) (low_bits (N.to_nat w) x).
Proof.
  intros Hwf Hcap Hw Hp.
  assert (E : apply_op (bits_of bv) (OSetBits pos x w) =
              (overwrite (bits_of bv) (N.to_nat pos) (low_bits (N.to_nat w) x), true)).
  { cbn [apply_op]. rewrite bits_of_length by exact Hwf.
    destruct (N.leb_spec w 64); [|lia]. destruct (N.leb_spec (pos + w) (bv_len bv)); [reflexivity | lia]. }
  destruct (set_bits_spec c bv pos x w Hwf Hcap) as [bv' [ok [Er [Hwf' [Hb [Hok _]]]]]].
  rewrite E in Hb, Hok. cbn [fst snd] in Hb, Hok. subst ok. exists bv'. auto.
Qed.

Lemma pow2_le_W w : w <= 64 -> 2 ^ w <= W.
Proof. intro H. rewrite W_eq. apply N.pow_le_mono_r; [discriminate | exact H]. Qed.

Lemma Forall_lt_W w (l : list N) : w <= 64 -> Forall (fun x => x < 2 ^ w) l -> Forall (fun x => x < W) l.
Proof.
  intros Hw H. pose proof (pow2_le_W w Hw). eapply Forall_impl; [|exact H]. cbn beta. intros a Ha. lia.
Qed.

(* ---------- push_int ---------- *)
Theorem cv_push_int_inv c v xs x : cv_inv v xs -> x < W ->
  (fitsb (cv_width v) x = true -> cv_cap (cv_width v) (lenN xs + 1)) ->
  exists v', cv_push_int c v x = Ok (v', fitsb (cv_width v) x) /\ cv_width v' = cv_width v /\
    (if fitsb (cv_width v) x then cv_inv v' (xs ++ [x]) else v' = v).
Proof.
  intros Hinv Hx Hcap. pose proof (cv_inv_bvlen v xs Hinv) as Hbl.
  destruct Hinv as [Hwf [Hlen [Hw [Hall Hb]]]].
  unfold cv_push_int. rewrite fits_spec by assumption. cbn [bind]. unfold fitsb in *.
  destruct (N.ltb_spec x (2 ^ cv_width v)) as [Hf|Hf]; cbn [negb].
  2:{ exists v. auto. }
  destruct (Hcap eq_refl) as [Hc HcW].
  destruct (push_bits_ok c (cv_chunks v) x (cv_width v) Hwf Hw) as [bv' [E [Hwf' Hb']]].
  { rewrite Hbl. lia. }
  rewrite E. cbn [bind fst snd assert_]. rewrite Hlen. rewrite add_ok by exact HcW. cbn [bind].
  eexists. split; [reflexivity|]. cbn [cv_width]. split; [reflexivity|].
  unfold cv_inv. cbn [cv_chunks cv_len cv_width].
  split; [exact Hwf'|]. split; [rewrite lenN_app; reflexivity|]. split; [exact Hw|].
  split; [apply Forall_snoc; assumption|].
  rewrite Hb', Hb, flat_map_app. cbn [flat_map]. rewrite app_nil_r. reflexivity.
Qed.

Theorem cv_push_int_spec c v xs x : cv_rep v xs -> x < W ->
  (x < 2 ^ cv_width v -> (lenN xs + 1) * cv_width v < 2 ^ 56) ->
  exists v' ok, cv_push_int c v x = Ok (v', ok) /\ ok = fitsb (cv_width v) x /\
    cv_width v' = cv_width v /\
    (ok = true -> cv_rep v' (xs ++ [x])) /\ (ok = false -> v' = v).
Proof.
  intros Hrep Hx Hcap. apply cv_rep_inv in Hrep. destruct Hrep as [Hinv Hw1].
  destruct (cv_push_int_inv c v xs x Hinv Hx) as [v' [E [Ew H]]].
  { intro Hf. apply N.ltb_lt in Hf. apply cv_cap_of_rep; [exact Hw1 | exact (Hcap Hf)]. }
  exists v', (fitsb (cv_width v) x). split; [exact E|]. split; [reflexivity|]. split; [exact Ew|].
  destruct (fitsb (cv_width v) x); split; intro H0; try discriminate.
  - apply cv_rep_inv. split; [exact H | rewrite Ew; exact Hw1].
  - exact H.
Qed.

(* ---------- set_int ---------- *)
Theorem cv_set_int_inv c v xs pos x : cv_inv v xs -> pos < W -> x < W ->
  cv_cap (cv_width v) (lenN xs) ->
  exists v', cv_set_int c v pos x = Ok (v', (pos <? lenN xs) && fitsb (cv_width v) x) /\
    cv_width v' = cv_width v /\
    (if (pos <? lenN xs) && fitsb (cv_width v) x then cv_inv v' (setN xs pos x) else v' = v).
Proof.
  intros Hinv Hpos Hx [Hc HcW]. pose proof (cv_inv_bvlen v xs Hinv) as Hbl.
  destruct Hinv as [Hwf [Hlen [Hw [Hall Hb]]]].
  unfold cv_set_int. rewrite Hlen.
  destruct (N.leb_spec (lenN xs) pos) as [Hp|Hp]; destruct (N.ltb_spec pos (lenN xs)) as [Hp'|Hp'];
    try lia; cbn [andb].
  { exists v. auto. }
  rewrite fits_spec by assumption. cbn [bind]. unfold fitsb.
  destruct (N.ltb_spec x (2 ^ cv_width v)) as [Hf|Hf]; cbn [negb].
  2:{ exists v. auto. }
  assert (Hpw : pos * cv_width v + cv_width v <= lenN xs * cv_width v) by nia.
  change (2 ^ 56) with 72057594037927936 in Hc.
  rewrite mul_ok by (unfold W; lia). cbn [bind].
  destruct (set_bits_ok c (cv_chunks v) (pos * cv_width v) x (cv_width v) Hwf) as [bv' [E [Hwf' Hb']]];
    [rewrite Hbl; exact Hc | exact Hw | rewrite Hbl; exact Hpw |].
  rewrite E. cbn [bind fst snd assert_].
  eexists. split; [reflexivity|]. cbn [cv_width]. split; [reflexivity|].
  unfold cv_inv. cbn [cv_chunks cv_len cv_width].
  split; [exact Hwf'|]. split; [rewrite lenN_setN; reflexivity|]. split; [exact Hw|].
  split; [apply Forall_setN; assumption|].
  rewrite Hb', Hb, N2Nat.inj_mul. unfold setN.
  apply (chunks_overwrite (low_bits (N.to_nat (cv_width v))) (N.to_nat (cv_width v)) (low_bits_length _)).
  unfold lenN in Hp'. lia.
Qed.

Theorem cv_set_int_spec c v xs pos x : cv_rep v xs -> pos < W -> x < W ->
  lenN xs * cv_width v < 2 ^ 56 ->
  exists v' ok, cv_set_int c v pos x = Ok (v', ok) /\
    ok = (pos <? lenN xs) && fitsb (cv_width v) x /\ cv_width v' = cv_width v /\
    (ok = true -> cv_rep v' (setN xs pos x)) /\ (ok = false -> v' = v).
Proof.
  intros Hrep Hpos Hx Hcap. apply cv_rep_inv in Hrep. destruct Hrep as [Hinv Hw1].
  destruct (cv_set_int_inv c v xs pos x Hinv Hpos Hx) as [v' [E [Ew H]]].
  { apply cv_cap_of_rep; assumption. }
  eexists v', _. split; [exact E|]. split; [reflexivity|]. split; [exact Ew|].
  destruct ((pos <? lenN xs) && fitsb (cv_width v) x); split; intro H0; try discriminate.
  - apply cv_rep_inv. split; [exact H | rewrite Ew; exact Hw1].
  - exact H.
Qed.

(* ---------- extend ---------- *)
Theorem cv_extend_inv c v l : forall xs, cv_inv v xs -> Forall (fun x => x < W) l ->
  cv_cap (cv_width v) (lenN xs + lenN (fit_prefix (cv_width v) l)) ->
  exists v', cv_extend c v l = Ok (v', forallb (fitsb (cv_width v)) l) /\
    cv_width v' = cv_width v /\ cv_inv v' (xs ++ fit_prefix (cv_width v) l).
Proof.
  revert v. induction l as [|x r IH]; intros v xs Hinv Hl Hcap.
  - exists v. cbn [cv_extend forallb fit_prefix]. rewrite app_nil_r. auto.
  - inversion Hl as [|x' r' Hx Hr]; subst x' r'.
    cbn [cv_extend forallb fit_prefix] in *.
    destruct (cv_push_int_inv c v xs x Hinv Hx) as [v1 [E [Ew H1]]].
    { intro Hf. rewrite Hf in Hcap. rewrite lenN_cons in Hcap.
      eapply cv_cap_mono; [|exact Hcap]. lia. }
    rewrite E. cbn [bind fst snd].
    destruct (fitsb (cv_width v) x) eqn:Hf; cbn [andb].
    + destruct (IH v1 (xs ++ [x]) H1 Hr) as [v2 [E2 [Ew2 H2]]].
      { rewrite Ew, lenN_app. rewrite lenN_cons in Hcap. change (lenN [x]) with 1.
        eapply cv_cap_mono; [|exact Hcap]. lia. }
      rewrite Ew in *. exists v2. split; [exact E2|]. split; [exact Ew2|].
      rewrite <- app_assoc in H2. exact H2.
    + subst v1. exists v. rewrite app_nil_r. auto.
Qed.

Theorem cv_extend_spec c v xs l : cv_rep v xs -> Forall (fun x => x < W) l ->
  (lenN xs + lenN (fit_prefix (cv_width v) l)) * cv_width v < 2 ^ 56 ->
  exists v' ok, cv_extend c v l = Ok (v', ok) /\ ok = forallb (fitsb (cv_width v)) l /\
    cv_width v' = cv_width v /\ cv_rep v' (xs ++ fit_prefix (cv_width v) l).
Proof.
  intros Hrep Hl Hcap. apply cv_rep_inv in Hrep. destruct Hrep as [Hinv Hw1].
  destruct (cv_extend_inv c v l xs Hinv Hl) as [v' [E [Ew H]]].
  { apply cv_cap_of_rep; assumption. }
  eexists v', _. split; [exact E|]. split; [reflexivity|]. split; [exact Ew|].
  apply cv_rep_inv. split; [exact H | rewrite Ew; exact Hw1].
Qed.

(* all items fit: everything is appended *)
Lemma fit_prefix_all w l : forallb (fitsb w) l = true -> fit_prefix w l = l.
Proof.
  induction l as [|x r IH]; [reflexivity|]. cbn [forallb fit_prefix]. intro H.
  apply andb_prop in H. destruct H as [H1 H2]. rewrite H1, IH by exact H2. reflexivity.
Qed.

(* ---------- constructors ---------- *)
Ltac fold_wok :=
  repeat match goal with |- context [width_ok ?x] => change (width_ok x) with (wok x) end.
Lemma cv_inv_new w : w <= 64 ->
  cv_inv {| cv_chunks := bv_empty; cv_len := 0; cv_width := w |} [].
Proof.
  intro Hw. unfold cv_inv. cbn [cv_chunks cv_len cv_width flat_map].
  split; [exact wf_empty|]. split; [reflexivity|]. split; [exact Hw|].
  split; [constructor | exact bits_of_empty].
Qed.

Theorem cv_new_spec w :
  if wok w then exists v, cv_new w = Some v /\ cv_rep v [] /\ cv_width v = w
  else cv_new w = None.
Proof.
  unfold cv_new. fold_wok. destruct (wok w) eqn:E; [|reflexivity].
  apply wok_iff in E. eexists. split; [reflexivity|]. split; [|reflexivity].
  apply cv_rep_inv. cbn [cv_width]. split; [apply cv_inv_new; lia | lia].
Qed.

(* with_capacity(capa, width) computes capa * width *)
Theorem cv_with_capacity_spec c capa w : (wok w = true -> capa * w + 64 < W) ->
  cv_with_capacity c capa w = Ok (cv_new w).
Proof.
  intro H. unfold cv_with_capacity, cv_new. fold_wok.
  destruct (wok w); [|reflexivity]. specialize (H eq_refl).
  rewrite mul_ok by lia. cbn [bind].
  unfold words_for, WORD_LEN. rewrite add_ok by lia. cbn [bind].
  rewrite sub_ok by lia. reflexivity.
Qed.

(* len pushes of the same value *)
Lemma cv_push_n_inv c val n : forall v xs, cv_inv v xs -> val < 2 ^ cv_width v ->
  cv_cap (cv_width v) (lenN xs + N.of_nat n) ->
  exists v', cv_push_n c n v val = Ok v' /\ cv_width v' = cv_width v /\ cv_inv v' (xs ++ repeat val n).
Proof.
  induction n as [|n IH]; intros v xs Hinv Hf Hcap.
  - exists v. cbn [cv_push_n repeat]. rewrite app_nil_r. auto.
  - cbn [cv_push_n repeat].
    assert (Hw : cv_width v <= 64) by apply Hinv.
    pose proof (pow2_le_W _ Hw) as HW.
    destruct (cv_push_int_inv c v xs val Hinv ltac:(lia)) as [v1 [E [Ew H1]]].
    { intros _. eapply cv_cap_mono; [|exact Hcap]. lia. }
    unfold fitsb in *. apply N.ltb_lt in Hf. rewrite Hf in *. rewrite E. cbn [bind fst snd assert_].
    apply N.ltb_lt in Hf.
    destruct (IH v1 (xs ++ [val]) H1) as [v2 [E2 [Ew2 H2]]].
    { rewrite Ew. exact Hf. }
    { rewrite Ew, lenN_app. change (lenN [val]) with 1.
      eapply cv_cap_mono; [|exact Hcap]. lia. }
    exists v2. split; [exact E2|]. split; [congruence|]. rewrite <- app_assoc in H2. exact H2.
Qed.

Theorem cv_from_int_spec c val len w : val < W -> len < W ->
  (wok w && fitsb w val = true -> len * w < 2 ^ 56) ->
  if wok w && fitsb w val
  then exists v, cv_from_int c val len w = Ok (Some v) /\
                 cv_rep v (repeat val (N.to_nat len)) /\ cv_width v = w
  else cv_from_int c val len w = Ok None.
Proof.
  intros Hval Hlen Hcap. unfold cv_from_int. fold_wok.
  destruct (wok w) eqn:Ew; cbn [negb andb] in *; [|reflexivity].
  apply wok_iff in Ew.
  assert (Ef : (if w <? 64 then t <- shr c val w;; Ok (t =? 0) else Ok true) = Ok (fitsb w val)).
  { unfold fitsb. destruct (N.ltb_spec w 64) as [H|H].
    - rewrite shr_ok by exact H. cbn [bind]. rewrite div_pow2_eqb0. reflexivity.
    - replace w with 64 by lia. f_equal. symmetry. apply N.ltb_lt. exact Hval. }
  rewrite Ef. cbn [bind]. destruct (fitsb w val) eqn:Hf; cbn [negb]; [|reflexivity].
  specialize (Hcap eq_refl). change (2 ^ 56) with 72057594037927936 in Hcap.
  rewrite cv_with_capacity_spec by (intros _; unfold W; lia). cbn [bind].
  unfold cv_new. fold_wok. replace (wok w) with true by (symmetry; apply wok_iff; exact Ew).
  cbn [unwrap bind].
  destruct (cv_push_n_inv c val (N.to_nat len) _ [] (cv_inv_new w ltac:(lia))) as [v [E [Ewv H]]].
  { cbn [cv_width]. apply N.ltb_lt. exact Hf. }
  { cbn [cv_width]. rewrite lenN_nil, N2Nat.id. apply cv_cap_of_rep; [lia|].
    change (2 ^ 56) with 72057594037927936. lia. }
  rewrite E. cbn [bind]. exists v. split; [reflexivity|]. cbn [cv_width app] in *.
  split; [|exact Ewv]. apply cv_rep_inv. split; [exact H | lia].
Qed.

(* needed_bits = bitlen *)
Lemma bitlen_range x : x < W -> 1 <= bitlen x <= 64.
Proof.
  intro H. unfold bitlen. destruct (N.eqb_spec x 0) as [->|Hx]; [lia|].
  assert (N.log2 x < 64) by (apply N.log2_lt_pow2; [lia | exact H]). lia.
Qed.

Lemma lt_pow2_bitlen x : x < 2 ^ bitlen x.
Proof.
  unfold bitlen. destruct (N.eqb_spec x 0) as [->|Hx]; [reflexivity|].
  rewrite N.add_1_r. apply N.log2_spec. lia.
Qed.

Lemma needed_bits_spec c x : x < W -> needed_bits c x = Ok (bitlen x).
Proof.
  intro H. pose proof (bitlen_range x H) as Hr. unfold needed_bits, msb_spec, bitlen in *.
  destruct (N.eqb_spec x 0) as [->|Hx]; [reflexivity|].
  rewrite add_ok by (unfold W; lia). reflexivity.
Qed.

Lemma fold_max_facts (l : list N) : forall a,
  a <= fold_left N.max l a /\ Forall (fun x => x <= fold_left N.max l a) l /\
  (a < W -> Forall (fun x => x < W) l -> fold_left N.max l a < W).
Proof.
  induction l as [|x r IH]; intro a; cbn [fold_left].
  - split; [lia|]. split; [constructor | auto].
  - destruct (IH (N.max a x)) as [H1 [H2 H3]]. split; [lia|]. split.
    + constructor; [lia | exact H2].
    + intros Ha Hl. inversion Hl as [|x' r' Hx Hr]; subst. apply H3; [lia | exact Hr].
Qed.

Lemma max_list_ub l : Forall (fun x => x <= max_list l) l.
Proof. apply (fold_max_facts l 0). Qed.
Lemma max_list_lt_W l : Forall (fun x => x < W) l -> max_list l < W.
Proof. apply (fold_max_facts l 0). reflexivity. Qed.

(* pushing a list of fitting values, every push accepted *)
Lemma cv_push_all_inv c l : forall v xs, cv_inv v xs -> Forall (fun x => x < 2 ^ cv_width v) l ->
  cv_cap (cv_width v) (lenN xs + lenN l) ->
  exists v', fold_res (fun v x => r <- cv_push_int c v x ;; _ <- assert_ (snd r) ;; Ok (fst r)) l v = Ok v' /\
    cv_width v' = cv_width v /\ cv_inv v' (xs ++ l).
Proof.
  induction l as [|x r IH]; intros v xs Hinv Hl Hcap.
  - exists v. cbn [fold_res]. rewrite app_nil_r. auto.
  - inversion Hl as [|x' r' Hx Hr]; subst x' r'. cbn [fold_res].
    assert (Hw : cv_width v <= 64) by apply Hinv.
    pose proof (pow2_le_W _ Hw) as HW. rewrite lenN_cons in Hcap.
    destruct (cv_push_int_inv c v xs x Hinv ltac:(lia)) as [v1 [E [Ew H1]]].
    { intros _. eapply cv_cap_mono; [|exact Hcap]. lia. }
    unfold fitsb in *. apply N.ltb_lt in Hx. rewrite Hx in *. rewrite E. cbn [bind fst snd assert_].
    destruct (IH v1 (xs ++ [x]) H1) as [v2 [E2 [Ew2 H2]]].
    { rewrite Ew. exact Hr. }
    { rewrite Ew, lenN_app. change (lenN [x]) with 1.
      eapply cv_cap_mono; [|exact Hcap]. lia. }
    exists v2. split; [exact E2|]. split; [congruence|]. rewrite <- app_assoc in H2. exact H2.
Qed.

Theorem cv_from_slice_nil c : cv_from_slice c [] = Ok (Some cv_default).
Proof. reflexivity. Qed.

Theorem cv_from_slice_spec c l : l <> [] -> Forall (fun x => x < W) l ->
  lenN l * bitlen (max_list l) < 2 ^ 56 ->
  exists v, cv_from_slice c l = Ok (Some v) /\ cv_rep v l /\ cv_width v = bitlen (max_list l).
Proof.
  intros Hne Hl Hcap. pose proof (max_list_lt_W l Hl) as Hm.
  pose proof (bitlen_range _ Hm) as Hr.
  destruct l as [|y l']; [congruence|]. set (l := y :: l') in *.
  unfold cv_from_slice. fold l. change (fold_left N.max l 0) with (max_list l).
  rewrite needed_bits_spec by exact Hm. cbn [bind].
  change (2 ^ 56) with 72057594037927936 in Hcap.
  rewrite cv_with_capacity_spec by (intros _; unfold W; lia). cbn [bind].
  unfold cv_new. fold_wok.
  replace (wok (bitlen (max_list l))) with true by (symmetry; apply wok_iff; exact Hr).
  destruct (cv_push_all_inv c l _ [] (cv_inv_new (bitlen (max_list l)) ltac:(lia))) as [v [E [Ew H]]].
  { cbn [cv_width]. pose proof (max_list_ub l) as Hub. pose proof (lt_pow2_bitlen (max_list l)) as Hlt.
    eapply Forall_impl; [|exact Hub]. cbn beta. intros a Ha. lia. }
  { cbn [cv_width]. rewrite lenN_nil. apply cv_cap_of_rep; [lia|].
    change (2 ^ 56) with 72057594037927936. lia. }
  rewrite E. cbn [bind]. exists v. split; [reflexivity|]. cbn [cv_width app] in *.
  split; [|exact Ew]. apply cv_rep_inv. split; [exact H | lia].
Qed.

Print Assumptions cv_push_int_spec.
Print Assumptions cv_set_int_spec.
Print Assumptions cv_extend_spec.
Print Assumptions cv_new_spec.
Print Assumptions cv_with_capacity_spec.
Print Assumptions cv_from_int_spec.
Print Assumptions cv_from_slice_spec.
