(* Proofs/EFRep.v — properties C04 / C16, foundations: sorted lists, the positions of the set bits
   of the high part, the concatenated low parts, generic facts on bit lists (positions / select /
   count) and the representation invariant `ef_rep e xs u` of an Elias-Fano value. *)
From Sucds Require Import Base.Res Spec.WordSpec Spec.BitSpec Spec.SeqSpec
  Model.BitVector Model.DArray Model.EliasFano
  Proofs.ResLemmas Proofs.BVAbs Proofs.WordLemmas Proofs.BVReads Proofs.BVReads2
  Proofs.BVMutLemmas Proofs.IndexSpecs.
From Coq Require Import ZArith ZifyN ZifyBool ZifyNat Lia.
Ltac Zify.zify_post_hook ::= Z.div_mod_to_equations.
Open Scope N_scope.

(* ---------- N-indexed list access ---------- *)

Lemma nthN_cons {A} (x : A) r j d : nthN (x :: r) j d = if j =? 0 then x else nthN r (j - 1) d.
Proof.
  unfold nthN. destruct (N.eqb_spec j 0) as [->|Hj]; [reflexivity|].
  replace (N.to_nat j) with (S (N.to_nat (j - 1))) by lia. reflexivity.
Qed.

Lemma nth_error_nthN {A} (l : list A) j d : j < lenN l -> nth_error l (N.to_nat j) = Some (nthN l j d).
Proof. intro H. unfold nthN. apply nth_error_nth'. unfold lenN in H. lia. Qed.

Lemma nth_error_oobN {A} (l : list A) j : lenN l <= j -> nth_error l (N.to_nat j) = None.
Proof. intro H. apply nth_error_None. unfold lenN in H. lia. Qed.

Lemma nthN_In {A} (l : list A) j d : j < lenN l -> In (nthN l j d) l.
Proof. intro H. unfold nthN. apply nth_In. unfold lenN in H. lia. Qed.

Lemma In_nthN {A} (l : list A) x d : In x l -> exists j, j < lenN l /\ nthN l j d = x.
Proof.
  intro H. destruct (In_nth l x d H) as [n [Hn E]]. exists (N.of_nat n).
  split; [unfold lenN; lia|]. unfold nthN. rewrite Nat2N.id. exact E.
Qed.

Lemma filter_all_true {A} (f : A -> bool) l : (forall x, In x l -> f x = true) -> filter f l = l.
Proof.
  induction l as [|x l IH]; intro H; [reflexivity|]. cbn [filter].
  rewrite (H x) by (left; reflexivity). f_equal. apply IH. intros y Hy. apply H. right. exact Hy.
Qed.
Lemma filter_all_false {A} (f : A -> bool) l : (forall x, In x l -> f x = false) -> filter f l = [].
Proof.
  induction l as [|x l IH]; intro H; [reflexivity|]. cbn [filter].
  rewrite (H x) by (left; reflexivity). apply IH. intros y Hy. apply H. right. exact Hy.
Qed.

(* ---------- non-decreasing lists ---------- *)

Fixpoint nondec_from (lo : N) (xs : list N) : Prop :=
  match xs with [] => True | x :: r => lo <= x /\ nondec_from x r end.
Definition nondec (xs : list N) : Prop := nondec_from 0 xs.

(* boolean version, for concrete lists *)
Fixpoint nondec_fromb (lo : N) (xs : list N) : bool :=
  match xs with [] => true | x :: r => (lo <=? x) && nondec_fromb x r end.
Lemma nondec_fromb_ok xs : forall lo, nondec_fromb lo xs = true -> nondec_from lo xs.
Proof.
  induction xs as [|x r IH]; intros lo H; [exact I|]. cbn [nondec_fromb] in H.
  apply andb_true_iff in H. destruct H as [H1 H2]. split; [apply N.leb_le; exact H1 | apply IH; exact H2].
Qed.

Definition last_or (lo : N) (xs : list N) : N := match last_opt xs with Some l => l | None => lo end.

Lemma nondec_from_weaken lo lo' xs : lo' <= lo -> nondec_from lo xs -> nondec_from lo' xs.
Proof. destruct xs as [|x r]; [trivial|]. cbn [nondec_from]. intros H [H1 H2]. split; [lia | exact H2]. Qed.

Lemma nondec_from_lb xs : forall lo, nondec_from lo xs -> forall x, In x xs -> lo <= x.
Proof.
  induction xs as [|y r IH]; intros lo H x Hx; [destruct Hx|].
  destruct H as [H1 H2]. destruct Hx as [<-|Hx]; [exact H1|].
  specialize (IH y H2 x Hx). lia.
Qed.

Lemma last_opt_cons_some {A} (r : list A) : forall y, exists z, last_opt (y :: r) = Some z.
Proof.
  induction r as [|x r IH]; intro y; [exists y; reflexivity|].
  destruct (IH x) as [z Hz]. exists z. exact Hz.
Qed.
Lemma last_or_cons lo x r : last_or lo (x :: r) = last_or x r.
Proof.
  unfold last_or. destruct r as [|y r]; [reflexivity|].
  destruct (last_opt_cons_some r y) as [z Hz].
  change (last_opt (x :: y :: r)) with (last_opt (y :: r)). rewrite Hz. reflexivity.
Qed.

Lemma nondec_from_snoc xs : forall lo v, nondec_from lo xs -> last_or lo xs <= v -> nondec_from lo (xs ++ [v]).
Proof.
  induction xs as [|x r IH]; intros lo v H Hv.
  - cbn [app nondec_from]. unfold last_or in Hv. cbn [last_opt] in Hv. split; [exact Hv | trivial].
  - destruct H as [H1 H2]. cbn [app nondec_from]. split; [exact H1|].
    apply IH; [exact H2|]. rewrite last_or_cons in Hv. exact Hv.
Qed.

Lemma last_or_snoc lo xs v : last_or lo (xs ++ [v]) = v.
Proof. unfold last_or. rewrite last_opt_snoc. reflexivity. Qed.

Lemma nondec_nth xs : forall lo i j, nondec_from lo xs -> i <= j -> j < lenN xs ->
  lo <= nthN xs i 0 /\ nthN xs i 0 <= nthN xs j 0.
Proof.
  induction xs as [|x r IH]; intros lo i j H Hij Hj; [rewrite lenN_nil in Hj; lia|].
  destruct H as [H1 H2]. rewrite lenN_cons in Hj. rewrite !nthN_cons.
  destruct (N.eqb_spec i 0) as [Hi|Hi]; destruct (N.eqb_spec j 0) as [Hj0|Hj0]; try lia.
  - destruct (IH x (j - 1) (j - 1) H2) as [G1 G2]; lia.
  - destruct (IH x (i - 1) (j - 1) H2) as [G1 G2]; lia.
Qed.

(* a predicate that is downward closed holds exactly on a prefix of a non-decreasing list *)
Lemma nondec_filter_idx (f : N -> bool) : (forall x y, x <= y -> f y = true -> f x = true) ->
  forall xs lo, nondec_from lo xs -> forall j, j < lenN xs ->
  f (nthN xs j 0) = (j <? lenN (filter f xs)).
Proof.
  intros Hmono. induction xs as [|x r IH]; intros lo H j Hj; [rewrite lenN_nil in Hj; lia|].
  destruct H as [H1 H2]. rewrite lenN_cons in Hj. rewrite nthN_cons. cbn [filter].
  destruct (f x) eqn:Efx.
  - rewrite lenN_cons. destruct (N.eqb_spec j 0) as [Hj0|Hj0].
    + rewrite Efx. destruct (N.ltb_spec j (lenN (filter f r) + 1)); [reflexivity | lia].
    + rewrite (IH x H2) by lia.
      destruct (N.ltb_spec (j - 1) (lenN (filter f r))); destruct (N.ltb_spec j (lenN (filter f r) + 1)); try lia; reflexivity.
  - assert (Hr : forall y, In y r -> f y = false).
    { intros y Hy. destruct (f y) eqn:Efy; [|reflexivity].
      pose proof (nondec_from_lb r x H2 y Hy) as Hxy. rewrite (Hmono x y Hxy Efy) in Efx. discriminate. }
    rewrite (filter_all_false f r Hr). change (lenN (@nil N)) with 0.
    destruct (N.ltb_spec j 0) as [?|_]; [lia|].
    destruct (N.eqb_spec j 0) as [Hj0|Hj0]; [exact Efx|].
    apply Hr. apply nthN_In. lia.
Qed.

Lemma nondec_filter_firstn (f : N -> bool) : (forall x y, x <= y -> f y = true -> f x = true) ->
  forall xs lo, nondec_from lo xs ->
  filter f xs = firstn (N.to_nat (lenN (filter f xs))) xs /\
  filter (fun x => negb (f x)) xs = skipn (N.to_nat (lenN (filter f xs))) xs.
Proof.
  intros Hmono. induction xs as [|x r IH]; intros lo H; [split; reflexivity|].
  destruct H as [H1 H2]. cbn [filter]. destruct (f x) eqn:Efx; cbn [negb].
  - rewrite lenN_cons. replace (N.to_nat (lenN (filter f r) + 1)) with (S (N.to_nat (lenN (filter f r)))) by lia.
    cbn [firstn skipn]. destruct (IH x H2) as [G1 G2]. split; [f_equal; exact G1 | exact G2].
  - assert (Hr : forall y, In y r -> f y = false).
    { intros y Hy. destruct (f y) eqn:Efy; [|reflexivity].
      pose proof (nondec_from_lb r x H2 y Hy) as Hxy. rewrite (Hmono x y Hxy Efy) in Efx. discriminate. }
    rewrite (filter_all_false f r Hr). change (lenN (@nil N)) with 0. change (N.to_nat 0) with 0%nat. cbn [firstn skipn].
    split; [reflexivity|]. f_equal. apply filter_all_true. intros y Hy. rewrite (Hr y Hy). reflexivity.
Qed.

Lemma lenN_filter_le {A} (f : A -> bool) l : lenN (filter f l) <= lenN l.
Proof.
  induction l as [|x l IH]; [reflexivity|]. cbn [filter]. destruct (f x); rewrite ?lenN_cons; lia.
Qed.

Lemma last_opt_firstn {A} (l : list A) : forall n, (0 < n <= length l)%nat ->
  last_opt (firstn n l) = nth_error l (n - 1).
Proof.
  induction l as [|x l IH]; intros n Hn; [cbn [length] in Hn; lia|].
  destruct n as [|n]; [lia|]. cbn [firstn]. cbn [length] in Hn.
  destruct n as [|n].
  - cbn [firstn]. reflexivity.
  - replace (S (S n) - 1)%nat with (S n) by lia. cbn [nth_error].
    specialize (IH (S n)). replace (S n - 1)%nat with n in IH by lia. rewrite <- IH by lia.
    destruct l as [|y l]; [cbn [length] in Hn; lia|]. reflexivity.
Qed.

Lemma hd_error_skipn {A} (l : list A) : forall n, hd_error (skipn n l) = nth_error l n.
Proof.
  induction l as [|x l IH]; intro n; destruct n; try reflexivity. cbn [skipn nth_error]. apply IH.
Qed.

(* ---------- the set positions of the high bit vector, and the low bits ---------- *)

(* element number j of xs (counting from o) sets bit  (x >> l) + j  *)
Fixpoint hpos_from (l : N) (xs : list N) (o : N) : list N :=
  match xs with [] => [] | x :: r => (x / 2 ^ l + o) :: hpos_from l r (o + 1) end.

Definition lows (l : N) (xs : list N) : list bool := flat_map (fun x => low_bits (N.to_nat l) x) xs.

Lemma hpos_from_len l xs : forall o, lenN (hpos_from l xs o) = lenN xs.
Proof. induction xs as [|x r IH]; intro o; [reflexivity|]. cbn [hpos_from]. rewrite !lenN_cons, IH. reflexivity. Qed.

Lemma hpos_from_nth l xs : forall o j, j < lenN xs ->
  nthN (hpos_from l xs o) j 0 = nthN xs j 0 / 2 ^ l + o + j.
Proof.
  induction xs as [|x r IH]; intros o j Hj; [rewrite lenN_nil in Hj; lia|].
  rewrite lenN_cons in Hj. cbn [hpos_from]. rewrite !nthN_cons.
  destruct (N.eqb_spec j 0) as [->|Hj0]; [lia|]. rewrite IH by lia. lia.
Qed.

Lemma hpos_from_snoc l xs v : forall o,
  hpos_from l (xs ++ [v]) o = hpos_from l xs o ++ [v / 2 ^ l + o + lenN xs].
Proof.
  induction xs as [|x r IH]; intro o.
  - cbn [app hpos_from]. rewrite lenN_nil, N.add_0_r. reflexivity.
  - cbn [app hpos_from]. rewrite IH, lenN_cons. do 3 f_equal. lia.
Qed.

Lemma hpos_from_In l xs o q : In q (hpos_from l xs o) <->
  exists j, j < lenN xs /\ q = nthN xs j 0 / 2 ^ l + o + j.
Proof.
  split.
  - intro H. destruct (In_nthN _ _ 0 H) as [j [Hj E]]. rewrite hpos_from_len in Hj.
    exists j. split; [exact Hj|]. rewrite hpos_from_nth in E by exact Hj. lia.
  - intros [j [Hj ->]]. rewrite <- hpos_from_nth by exact Hj. apply nthN_In. rewrite hpos_from_len. exact Hj.
Qed.

(* strictly increasing lists with a lower bound *)
Fixpoint incr_from (lo : N) (ps : list N) : Prop :=
  match ps with [] => True | p :: r => lo <= p /\ incr_from (p + 1) r end.

Lemma incr_from_weaken lo lo' ps : lo' <= lo -> incr_from lo ps -> incr_from lo' ps.
Proof. destruct ps as [|x r]; [trivial|]. cbn [incr_from]. intros H [H1 H2]. split; [lia | exact H2]. Qed.

Lemma incr_from_lb ps : forall lo, incr_from lo ps -> forall p, In p ps -> lo <= p.
Proof.
  induction ps as [|y r IH]; intros lo H x Hx; [destruct Hx|].
  destruct H as [H1 H2]. destruct Hx as [<-|Hx]; [exact H1|].
  specialize (IH (y + 1) H2 x Hx). lia.
Qed.

Lemma incr_nondec ps : forall lo, incr_from lo ps -> nondec_from lo ps.
Proof.
  induction ps as [|y r IH]; intros lo H; [trivial|]. destruct H as [H1 H2]. split; [exact H1|].
  apply IH. apply (incr_from_weaken (y + 1)); [lia | exact H2].
Qed.

Lemma pow2_pos l : 0 < 2 ^ l.
Proof. pose proof (N.pow_nonzero 2 l). lia. Qed.

Lemma div_pow2_mono a b l : a <= b -> a / 2 ^ l <= b / 2 ^ l.
Proof. intro H. apply N.div_le_mono; [apply N.pow_nonzero; discriminate | exact H]. Qed.

Lemma hpos_incr l xs : forall lo o, nondec_from lo xs -> incr_from (lo / 2 ^ l + o) (hpos_from l xs o).
Proof.
  induction xs as [|x r IH]; intros lo o H; [trivial|]. destruct H as [H1 H2].
  cbn [hpos_from incr_from]. pose proof (div_pow2_mono lo x l H1). split; [lia|].
  replace (x / 2 ^ l + o + 1) with (x / 2 ^ l + (o + 1)) by lia. apply IH. exact H2.
Qed.

(* ---------- generic facts on bit lists ---------- *)

Lemma In_positions_from v l : forall o p,
  In p (positions_from v l o) <-> o <= p /\ nth_error l (N.to_nat (p - o)) = Some v.
Proof.
  induction l as [|x l IH]; intros o p.
  - cbn [positions_from In]. split; [tauto|]. intros [_ H]. destruct (N.to_nat (p - o)); discriminate.
  - cbn [positions_from].
    assert (Hrec : In p (positions_from v l (o + 1)) <-> o + 1 <= p /\ nth_error (x :: l) (N.to_nat (p - o)) = Some v).
    { rewrite IH. split; intros [H1 H2]; (split; [exact H1|]).
      - replace (N.to_nat (p - o)) with (S (N.to_nat (p - (o + 1)))) by lia. exact H2.
      - replace (N.to_nat (p - o)) with (S (N.to_nat (p - (o + 1)))) in H2 by lia. exact H2. }
    destruct (Bool.eqb x v) eqn:E.
    + apply eqb_prop in E. subst x. cbn [In]. rewrite Hrec. split.
      * intros [<-|[H1 H2]]; [|split; [lia | exact H2]].
        split; [lia|]. rewrite N.sub_diag. reflexivity.
      * intros [H1 H2]. destruct (N.eq_dec o p) as [Ep|Ep]; [left; exact Ep | right; split; [lia | exact H2]].
    + rewrite Hrec. split.
      * intros [H1 H2]. split; [lia | exact H2].
      * intros [H1 H2]. split; [|exact H2].
        destruct (N.eq_dec o p) as [Ep|Ep]; [|lia]. exfalso. subst p. rewrite N.sub_diag in H2.
        change (N.to_nat 0) with 0%nat in H2. cbn [nth_error] in H2.
        injection H2 as ->. rewrite eqb_reflx in E. discriminate.
Qed.

Lemma In_positions v l p : In p (positions v l) <-> nth_error l (N.to_nat p) = Some v.
Proof.
  unfold positions. rewrite In_positions_from, N.sub_0_r. split; [intros [_ H]; exact H | intro H; split; [lia | exact H]].
Qed.

(* a strictly increasing list with the right members is the list of positions *)
Lemma positions_unique l : forall o ps, incr_from o ps ->
  (forall q, In q ps <-> o <= q /\ nth_error l (N.to_nat (q - o)) = Some true) ->
  positions_from true l o = ps.
Proof.
  induction l as [|b l IH]; intros o ps Hinc Hmem.
  - destruct ps as [|p ps]; [reflexivity|]. exfalso.
    destruct (proj1 (Hmem p) (or_introl eq_refl)) as [_ H]. destruct (N.to_nat (p - o)); discriminate.
  - cbn [positions_from].
    assert (Hstep : forall ps', incr_from (o + 1) ps' ->
              (forall q, In q ps' <-> o + 1 <= q /\ In q ps) -> positions_from true l (o + 1) = ps').
    { intros ps' Hinc' Hmem'. apply IH; [exact Hinc'|]. intro q. rewrite Hmem', Hmem. split.
      - intros [H1 [H2 H3]]. split; [exact H1|].
        replace (N.to_nat (q - o)) with (S (N.to_nat (q - (o + 1)))) in H3 by lia. exact H3.
      - intros [H1 H2]. split; [exact H1|]. split; [lia|].
        replace (N.to_nat (q - o)) with (S (N.to_nat (q - (o + 1)))) by lia. exact H2. }
    destruct b; cbn [Bool.eqb].
    + assert (Ho : In o ps). { apply Hmem. split; [lia|]. rewrite N.sub_diag. reflexivity. }
      destruct ps as [|p ps']; [destruct Ho|]. destruct Hinc as [H1 H2].
      assert (Ep : p = o).
      { destruct Ho as [E|Ho]; [exact E|]. pose proof (incr_from_lb ps' (p + 1) H2 o Ho). lia. }
      subst p. f_equal. apply Hstep; [exact H2|]. intro q. split.
      * intro Hq. split; [apply (incr_from_lb ps' (o + 1) H2 q Hq) | right; exact Hq].
      * intros [H3 [E|Hq]]; [lia | exact Hq].
    + apply Hstep.
      * destruct ps as [|p ps']; [trivial|]. destruct Hinc as [H1 H2]. split; [|exact H2].
        destruct (N.eq_dec p o) as [E|E]; [|lia]. exfalso. subst p.
        destruct (proj1 (Hmem o) (or_introl eq_refl)) as [_ H]. rewrite N.sub_diag in H. discriminate.
      * intro q. split; [|intros [_ H]; exact H]. intro Hq. split; [|exact Hq].
        pose proof (incr_from_lb ps o Hinc q Hq) as Hlb.
        destruct (N.eq_dec q o) as [E|E]; [|lia]. exfalso. subst q.
        destruct (proj1 (Hmem o) Hq) as [_ H]. rewrite N.sub_diag in H. discriminate.
Qed.

Lemma select_intro v l z : nth_error l (N.to_nat z) = Some v ->
  select v l (count v (firstn (N.to_nat z) l)) = Some z.
Proof.
  intro H. destruct (nth_error_split l _ H) as [l1 [l2 [El Hl1]]]. subst l.
  rewrite <- Hl1. replace (length l1) with (length l1 + 0)%nat by lia.
  rewrite firstn_app_2. cbn [firstn]. rewrite app_nil_r.
  rewrite select_nth_error. unfold positions. rewrite positions_from_app. cbn [positions_from].
  rewrite eqb_reflx.
  pose proof (positions_from_len v l1 0) as HL. unfold lenN in HL.
  rewrite nth_error_app2 by lia.
  replace (N.to_nat (count v l1) - length (positions_from v l1 0))%nat with 0%nat by lia.
  cbn [nth_error]. f_equal. unfold lenN. lia.
Qed.

Lemma count_firstn_positions v l z : z <= lenN l ->
  count v (firstn (N.to_nat z) l) = lenN (filter (fun p => p <? z) (positions v l)).
Proof.
  intro Hz. rewrite <- (firstn_skipn (N.to_nat z) l) at 2.
  unfold positions. rewrite positions_from_app, filter_app.
  assert (HL : lenN (firstn (N.to_nat z) l) = z) by (rewrite lenN_firstn; lia).
  rewrite filter_all_true, filter_all_false.
  - rewrite app_nil_r, positions_from_len. reflexivity.
  - intros p Hp. apply positions_from_range in Hp. apply N.ltb_ge. lia.
  - intros p Hp. apply positions_from_range in Hp. apply N.ltb_lt. lia.
Qed.

Lemma nth_true_iff (bits : list bool) i : nth i bits false = true <-> nth_error bits i = Some true.
Proof.
  split; intro H.
  - destruct (Nat.lt_ge_cases i (length bits)) as [Hi|Hi].
    + rewrite (nth_error_nth' _ false Hi), H. reflexivity.
    + rewrite nth_overflow in H by exact Hi. discriminate.
  - apply nth_error_nth. exact H.
Qed.

(* ---------- the low parts ---------- *)

Lemma lows_len l xs : lenN (lows l xs) = lenN xs * l.
Proof.
  induction xs as [|x r IH]; [reflexivity|]. unfold lows in *. cbn [flat_map].
  rewrite lenN_app, lenN_low_bits, IH, lenN_cons. lia.
Qed.

Lemma lows_snoc l xs v : lows l (xs ++ [v]) = lows l xs ++ low_bits (N.to_nat l) v.
Proof. unfold lows. rewrite flat_map_app. cbn [flat_map]. rewrite app_nil_r. reflexivity. Qed.

Lemma lows_chunk l xs : forall k, k < lenN xs ->
  firstn (N.to_nat l) (skipn (N.to_nat (k * l)) (lows l xs)) = low_bits (N.to_nat l) (nthN xs k 0).
Proof.
  induction xs as [|x r IH]; intros k Hk; [rewrite lenN_nil in Hk; lia|].
  rewrite lenN_cons in Hk. unfold lows in *. cbn [flat_map]. rewrite nthN_cons.
  destruct (N.eqb_spec k 0) as [->|Hk0].
  - rewrite N.mul_0_l. change (N.to_nat 0) with 0%nat. cbn [skipn].
    rewrite firstn_app, low_bits_length, Nat.sub_diag. cbn [firstn]. rewrite app_nil_r.
    apply firstn_all2. rewrite low_bits_length. lia.
  - rewrite skipn_app, low_bits_length.
    rewrite (skipn_all2 (low_bits (N.to_nat l) x)) by (rewrite low_bits_length; nia).
    cbn [app]. replace (N.to_nat (k * l) - N.to_nat l)%nat with (N.to_nat ((k - 1) * l)) by nia.
    apply IH. lia.
Qed.

Lemma bits_val_low_bits n v : bits_val (low_bits n v) = v mod 2 ^ N.of_nat n.
Proof.
  apply N.bits_inj. intro i. rewrite testbit_bits_val, testbit_mod_pow2.
  destruct (N.ltb_spec i (N.of_nat n)) as [H|H]; cbn [andb].
  - rewrite low_bits_nth by lia. f_equal. lia.
  - apply nth_overflow. rewrite low_bits_length. lia.
Qed.

Lemma low_bits_land_ones n v : low_bits n (N.land v (N.ones (N.of_nat n))) = low_bits n v.
Proof.
  apply (nth_ext _ _ false false); [rewrite !low_bits_length; reflexivity|].
  intros k Hk. rewrite low_bits_length in Hk. rewrite !low_bits_nth by exact Hk.
  rewrite N.land_spec, tb_ones. destruct (N.ltb_spec (N.of_nat k) (N.of_nat n)); [apply andb_true_r | lia].
Qed.

Lemma lows_get_bits l xs k : l <= 64 -> k < lenN xs ->
  BitSpec.get_bits (lows l xs) (k * l) l = Some (nthN xs k 0 mod 2 ^ l).
Proof.
  intros Hl Hk. unfold BitSpec.get_bits. rewrite lows_len.
  assert (Hle : k * l + l <= lenN xs * l).
  { replace (k * l + l) with ((k + 1) * l) by lia. apply N.mul_le_mono_r. lia. }
  destruct (N.leb_spec l 64) as [_|?]; [|lia].
  destruct (N.leb_spec (k * l + l) (lenN xs * l)) as [_|?]; [|lia]. cbn [andb].
  rewrite lows_chunk by exact Hk. rewrite bits_val_low_bits, N2Nat.id. reflexivity.
Qed.

(* ---------- arithmetic of the split  x = (x >> l) << l | (x mod 2^l) ---------- *)

Lemma lor_add_low a b l : b < 2 ^ l -> N.lor (a * 2 ^ l) b = a * 2 ^ l + b.
Proof.
  intro Hb.
  assert (Hd : N.land (a * 2 ^ l) b = 0).
  { apply N.bits_inj. intro i. rewrite N.land_spec, testbit_mul_pow2, N.bits_0.
    destruct (N.leb_spec l i) as [H|H]; cbn [andb]; [|reflexivity].
    rewrite (tb_high b l i Hb H). apply andb_false_r. }
  rewrite (N.add_nocarry_lxor _ _ Hd). symmetry. apply N.lxor_lor. exact Hd.
Qed.

Lemma split_pow2 x l : x = x / 2 ^ l * 2 ^ l + x mod 2 ^ l.
Proof. pose proof (pow2_pos l). rewrite N.mul_comm. apply N.div_mod. lia. Qed.

Lemma mod_pow2_lt x l : x mod 2 ^ l < 2 ^ l.
Proof. apply N.mod_lt. apply N.pow_nonzero. discriminate. Qed.

Lemma shl1_ok c l : l < 64 -> shl c 1 l = Ok (2 ^ l).
Proof.
  intro H. rewrite shl_ok_small; [rewrite N.mul_1_l; reflexivity | exact H|].
  rewrite N.mul_1_l. apply pow2_lt_W. exact H.
Qed.

Lemma land_low_mask x l : N.land x (2 ^ l - 1) = x mod 2 ^ l.
Proof. rewrite <- N.land_ones. f_equal. rewrite N.ones_equiv. lia. Qed.

(* ---------- the representation invariant ---------- *)

Record ef_rep (e : eliasfano) (xs : list N) (u : N) : Prop := {
  rep_univ : ef_universe e = u;
  rep_u_lt : u < W;
  rep_l_lt : ef_low_len e < 64;
  rep_sorted : nondec xs;
  rep_bound : Forall (fun x => x < u) xs;
  rep_da : forall c, da_correct c (ef_high e);
  rep_hcap : cap_ok (da_bv (ef_high e));
  rep_hpos : positions true (bits_of (da_bv (ef_high e))) = hpos_from (ef_low_len e) xs 0;
  rep_hlen : lenN xs + u / 2 ^ ef_low_len e + 2 <= bv_len (da_bv (ef_high e));
  rep_lwf : wf (ef_low e);
  rep_lcap : cap_ok (ef_low e);
  rep_lows : bits_of (ef_low e) = lows (ef_low_len e) xs }.

(* quotients and remainders by 2^l become opaque natural numbers before lia *)
Ltac hide_divs := repeat match goal with
  | |- context [?a / (2 ^ ?l)] => let q := fresh "q" in set (q := a / 2 ^ l) in *; clearbody q
  | |- context [?a mod (2 ^ ?l)] => let q := fresh "r" in set (q := a mod 2 ^ l) in *; clearbody q
  | H : context [?a / (2 ^ ?l)] |- _ => let q := fresh "q" in set (q := a / 2 ^ l) in *; clearbody q
  | H : context [?a mod (2 ^ ?l)] |- _ => let q := fresh "r" in set (q := a mod 2 ^ l) in *; clearbody q
  end.
Ltac hlia := hide_divs; lia.

Section RepFacts.
Variables (e : eliasfano) (xs : list N) (u : N).
Hypothesis R : ef_rep e xs u.
Notation l := (ef_low_len e).
Notation B := (bits_of (da_bv (ef_high e))).
Notation x j := (nthN xs j 0).
Notation h j := (nthN xs j 0 / 2 ^ ef_low_len e + j).

Lemma rep_hwf : wf (da_bv (ef_high e)).
Proof. destruct (rep_da _ _ _ R {| dbg := true; intr := false |}) as [H _]. exact H. Qed.

Lemma rep_Blen : lenN B = bv_len (da_bv (ef_high e)).
Proof. apply bits_of_length, rep_hwf. Qed.

Lemma rep_len : ef_len e = lenN xs.
Proof.
  unfold ef_len. destruct (rep_da _ _ _ R {| dbg := true; intr := false |}) as [_ [H _]]. rewrite H.
  rewrite <- (positions_from_len true _ 0). fold (positions true (bits_of (da_bv (ef_high e)))).
  rewrite (rep_hpos _ _ _ R). apply hpos_from_len.
Qed.

Lemma rep_x_lt j : j < lenN xs -> x j < u.
Proof.
  intro Hj. pose proof (rep_bound _ _ _ R) as HB. rewrite Forall_forall in HB. apply HB.
  apply nthN_In. exact Hj.
Qed.

Lemma rep_x_mono i j : i <= j -> j < lenN xs -> x i <= x j.
Proof. intros Hij Hj. apply (nondec_nth xs 0 i j (rep_sorted _ _ _ R) Hij Hj). Qed.

Lemma rep_h_mono i j : i < j -> j < lenN xs -> h i < h j.
Proof.
  intros Hij Hj. pose proof (div_pow2_mono (x i) (x j) l (rep_x_mono i j ltac:(lia) Hj)). hlia.
Qed.

Lemma rep_low_cap : lenN xs * l < 2 ^ 56.
Proof.
  pose proof (rep_lcap _ _ _ R) as H. unfold cap_ok in H.
  rewrite <- (bits_of_length _ (rep_lwf _ _ _ R)), (rep_lows _ _ _ R), lows_len in H. exact H.
Qed.

Lemma rep_select1 c k : k < lenN xs -> da_select1 c (ef_high e) k = Ok (Some (h k)).
Proof.
  intro Hk. destruct (rep_da _ _ _ R c) as [_ [_ [_ [_ [Hs _]]]]].
  pose proof (rep_u_lt _ _ _ R) as Hu. pose proof (rep_x_lt k Hk) as Hx.
  assert (HkW : k < W).
  { pose proof (rep_hlen _ _ _ R) as HL. revert HL. generalize (u / 2 ^ ef_low_len e). intros dv HL.
    pose proof (rep_hcap _ _ _ R) as Hc. unfold cap_ok in Hc.
    change (2 ^ 56) with 72057594037927936 in Hc. unfold W. lia. }
  rewrite Hs by exact HkW. rewrite select_nth_error, (rep_hpos _ _ _ R).
  rewrite (nth_error_nthN _ k 0) by (rewrite hpos_from_len; exact Hk).
  rewrite hpos_from_nth by exact Hk. rewrite N.add_0_r. reflexivity.
Qed.

Lemma rep_low_at c k : k < lenN xs -> ef_low_at c e k = Ok (x k mod 2 ^ l).
Proof.
  intro Hk. unfold ef_low_at. pose proof rep_low_cap as Hc. change (2 ^ 56) with 72057594037927936 in Hc.
  pose proof (rep_l_lt _ _ _ R) as Hl.
  assert (Hkl : k * l <= lenN xs * l) by (apply N.mul_le_mono_r; lia).
  rewrite mul_ok by (unfold W; lia). cbn [bind].
  rewrite get_bits_spec; [| exact (rep_lwf _ _ _ R) | exact (rep_lcap _ _ _ R) | unfold W; lia | unfold W; lia].
  cbn [bind]. rewrite (rep_lows _ _ _ R). rewrite lows_get_bits by (try exact Hk; lia). reflexivity.
Qed.

Lemma rep_hbit q : nth_error B (N.to_nat q) = Some true <-> exists j, j < lenN xs /\ q = h j.
Proof.
  rewrite <- In_positions, (rep_hpos _ _ _ R), hpos_from_In.
  split; intros [j [Hj E]]; exists j; (split; [exact Hj | hlia]).
Qed.

Lemma rep_h_lt j : j < lenN xs -> h j < bv_len (da_bv (ef_high e)).
Proof.
  intro Hj. pose proof (rep_hlen _ _ _ R) as HL.
  pose proof (div_pow2_mono (x j) u l ltac:(pose proof (rep_x_lt j Hj); lia)). hlia.
Qed.

Lemma rep_x_split j : x j = (h j - j) * 2 ^ l + x j mod 2 ^ l.
Proof. rewrite N.add_sub. apply split_pow2. Qed.

Lemma rep_wbit q : wbit (bv_words (da_bv (ef_high e))) q = true <-> exists j, j < lenN xs /\ q = h j.
Proof. rewrite (wbit_bits_of _ q rep_hwf), nth_true_iff. apply rep_hbit. Qed.

End RepFacts.
