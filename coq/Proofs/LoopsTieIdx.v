(* Proofs/LoopsTieIdx.v — the loop-bearing functions of rank9sel/inner.rs, rank9sel.rs, darray/inner.rs and
   darray.rs, regenerated from the Rust source on every run by tools/translate.py (gen/LoopsGen.v), are equal to
   the hand-written model functions of Model/Rank9.v and Model/DArray.v, for every configuration and argument,
   under the record-range hypotheses stated in each lemma.  Where the model runs a loop on bounded fuel
   (`iter_fuel 66`) and the generated code under `loopN W`, the tie proves that the loop ends within the model's
   fuel.  A change to one of these Rust functions changes the generated definition and re-opens exactly one of
   the lemmas below, by name (DESIGN.md section 5.1). *)
From Sucds Require Import Base.Res Base.Loops Spec.WordSpec Model.BitVector Model.Rank9 Model.DArray gen.ConstsGen
  gen.MethodsGen gen.LoopsGen Proofs.ResLemmas Proofs.MethodsTie Proofs.LoopsLib Proofs.LoopsTieBV Proofs.ConstsTie Proofs.BVAbs Proofs.BVMut.
From Sucds Require gen.BroadwordGen.
From Coq Require Import ZArith ZifyN ZifyBool ZifyNat Lia.
Open Scope N_scope.
Ltac Zify.zify_post_hook ::= Z.div_mod_to_equations.

Ltac inorm :=
  cbn [bind rmap fst snd negb andb orb bv_words bv_len r_len r_brp r_h1 r_h0 r9_bv r9_rs
       s_i s_next s_cur s_sub s_brp da_bv da_s1 da_s0 da_r9
       d_block_inv d_sub_inv d_overflow d_num_positions d_over_one
       t_cur t_cnt t_binv t_sinv t_ovf t_num] in *.
Ltac istep :=
  match goal with
  | |- ?x = ?x => reflexivity
  | |- context [bind ?m _] => scrut m
  | |- context [if ?b then _ else _] => atom b
  | |- context [match ?o with Some _ => _ | None => _ end] => destruct o eqn:?
  end; inorm.
Ltac isteps := inorm; repeat istep.
Ltac getters := unfold bit_vector_num_bits, bit_vector_len, bit_vector_num_words, bit_vector_words in *.
Ltac iconsts :=
  unfold bit_vector_WORD_LEN, rank9_BLOCK_LEN, rank9_SELECT_ONES_PER_HINT, rank9_SELECT_ZEROS_PER_HINT,
    darray_BLOCK_LEN, darray_SUBBLOCK_LEN, darray_MAX_IN_BLOCK_DISTANCE,
    BitVector.WORD_LEN, Rank9.BLOCK_LEN, Rank9.SELECT_ONES_PER_HINT, Rank9.SELECT_ZEROS_PER_HINT,
    DArray.DA_BLOCK_LEN, DArray.SUBBLOCK_LEN, DArray.MAX_IN_BLOCK_DISTANCE in *.

Lemma app2 {A} (l : list A) a b : (l ++ [a]) ++ [b] = l ++ [a; b].
Proof. now rewrite <- app_assoc. Qed.

(* =============================================================================================
   Rank9SelIndex::build_rank
   ============================================================================================= *)
Definition br_tup (s : brstate) : list N * N * N * N := (s_brp s, s_cur s, s_next s, s_sub s).

(* `for _ in 0..left { subranks <<= 9; subranks |= cur_subrank; }` *)
Lemma pad_loop c cur : forall n start sub,
  fold_res (fun subranks (_ : N) => subranks <- shl c subranks 9 ;; let subranks := N.lor subranks cur in Ok subranks)
    (nseq_from start n) sub = pad_subranks c n sub cur.
Proof.
  induction n as [|n IH]; intros start sub; [reflexivity|].
  cbn [nseq_from fold_res pad_subranks]. destruct (shl c sub 9) as [t|]; cbn [bind]; [apply IH | reflexivity].
Qed.

Lemma tie_rank9_build_rank : forall c bv, rank9_build_rank c bv = Rank9.build_rank c bv.
Proof.
  intros c bv. unfold rank9_build_rank, build_rank. getters. inorm.
  change (([0], 0, 0, 0) : list N * N * N * N)
    with (br_tup {| s_i := 0; s_next := 0; s_cur := 0; s_sub := 0; s_brp := [0] |}).
  rewrite (fold_nrange_sim0 br_tup s_i _ (build_rank_step c) (bv_words bv)); [ | | reflexivity].
  - rewrite bind_rmap.
    destruct (fold_res (build_rank_step c) (bv_words bv) _) as [s|]; inorm; [|reflexivity].
    unfold br_tup. iconsts.
    destruct (sub c 8 (lenN (bv_words bv) mod 8)) as [left|]; inorm; [|reflexivity].
    unfold nrange. rewrite pad_loop.
    destruct (pad_subranks c (N.to_nat (left - 0)) (s_sub s) (s_cur s)) as [sr|] eqn:E;
      rewrite N.sub_0_r in E; rewrite E; inorm; [|reflexivity].
    destruct (lenN (bv_words bv) mod 8 =? 0); inorm; [reflexivity|]. now rewrite app2.
  - intros pre w post [i nx cu sb brp] Hl Hi. cbn [s_i] in Hi. subst i. split.
    + unfold br_tup, build_rank_step. inorm. rewrite Hl, idx_app_mid. iconsts. inorm.
      change (sub c 8 1) with (@Ok N 7). change (8 - 1) with 7. inorm.
      destruct (lenN pre mod 8 =? 0); inorm.
      * destruct (add c nx (popcN w)) as [nx'|]; inorm; [|reflexivity].
        destruct (add c cu (popcN w)) as [cu'|]; inorm; [|reflexivity].
        destruct (lenN pre mod 8 =? 7); inorm; [now rewrite app2 | reflexivity].
      * destruct (shl c sb 9) as [t|]; inorm; [|reflexivity].
        destruct (add c nx (popcN w)) as [nx'|]; inorm; [|reflexivity].
        destruct (add c cu (popcN w)) as [cu'|]; inorm; [|reflexivity].
        destruct (lenN pre mod 8 =? 7); inorm; [now rewrite app2 | reflexivity].
    + intros t'. unfold build_rank_step. inorm. intros H.
      repeat match type of H with
             | bind ?m _ = Ok _ => destruct m; cbn [bind] in H; [|discriminate]
             | (if ?b then _ else _) = Ok _ => destruct b
             end; injection H as <-; reflexivity.
Qed.

(* =============================================================================================
   Rank9SelIndex::build_select1 / build_select0
   ============================================================================================= *)
Definition swap_st (st : list N * N) : N * list N := (snd st, fst st).

Definition hints_gstep (c : cfg) (zeros : bool) (r : r9index) (st : N * list N) (i : N) : res (N * list N) :=
  let '(thr, hints) := st in
  t2 <- add c i 1 ;;
  t3 <- (if zeros then Rank9.block_rank0 c r t2 else Rank9.block_rank c r t2) ;;
  '(thr, hints) <- (if thr <? t3 then (let hints := hints ++ [i] in thr <- add c thr 1024 ;; Ok (thr, hints))
                    else Ok (thr, hints)) ;;
  Ok (thr, hints).

Lemma hints_fold c zeros r l st :
  fold_res (hints_gstep c zeros r) l (swap_st st) = rmap swap_st (fold_res (hints_step c zeros r) l st).
Proof.
  apply fold_res_map. intros [hints thr] i. unfold hints_gstep, hints_step, swap_st. iconsts. inorm.
  destruct (add c i 1) as [i1|]; inorm; [|reflexivity].
  destruct (if zeros then block_rank0 c r i1 else block_rank c r i1) as [x|]; inorm; [|reflexivity].
  destruct (thr <? x); inorm; [|reflexivity].
  destruct (add c thr 1024); reflexivity.
Qed.

Lemma tie_rank9_build_select1 : forall c r, rank9_build_select1 c r = Rank9.select1_hints c r.
Proof.
  intros c r. unfold rank9_build_select1, select1_hints, build_hints. rewrite !tie_rank9_num_blocks.
  destruct (num_blocks c r) as [nb|]; inorm; [|reflexivity]. rewrite nrange_0. iconsts.
  rewrite (fold_res_ext _ (hints_gstep c false r)).
  2:{ intros [thr hints] i. unfold hints_gstep. destruct (add c i 1) as [i1|]; inorm; [|reflexivity].
      rewrite tie_rank9_block_rank. reflexivity. }
  change ((1024, []) : N * list N) with (swap_st ([], 1024)). rewrite hints_fold, bind_rmap.
  destruct (fold_res (hints_step c false r) (nseq nb) ([], 1024)) as [[h t]|]; reflexivity.
Qed.

Lemma tie_rank9_build_select0 : forall c r, rank9_build_select0 c r = Rank9.select0_hints c r.
Proof.
  intros c r. unfold rank9_build_select0, select0_hints, build_hints. rewrite !tie_rank9_num_blocks.
  destruct (num_blocks c r) as [nb|]; inorm; [|reflexivity]. rewrite nrange_0. iconsts.
  rewrite (fold_res_ext _ (hints_gstep c true r)).
  2:{ intros [thr hints] i. unfold hints_gstep. destruct (add c i 1) as [i1|]; inorm; [|reflexivity].
      rewrite tie_rank9_block_rank0. reflexivity. }
  change ((1024, []) : N * list N) with (swap_st ([], 1024)). rewrite hints_fold, bind_rmap.
  destruct (fold_res (hints_step c true r) (nseq nb) ([], 1024)) as [[h t]|]; reflexivity.
Qed.

Lemma tie_rank9_new : forall c bv, rank9_new c bv = Rank9.build_rank c bv.
Proof. intros. unfold rank9_new. apply tie_rank9_build_rank. Qed.

Lemma tie_rank9_select1_hints : forall c r, rank9_select1_hints c r = Rank9.select1_hints c r.
Proof. intros. unfold rank9_select1_hints. apply tie_rank9_build_select1. Qed.

Lemma tie_rank9_select0_hints : forall c r, rank9_select0_hints c r = Rank9.select0_hints c r.
Proof. intros. unfold rank9_select0_hints. apply tie_rank9_build_select0. Qed.

(* =============================================================================================
   Rank9SelIndex::select1 / select0
   ============================================================================================= *)
(* `while b - a > 1`: the distance b - a (mod 2^64) at least halves in every iteration, so a loop started with
   a, b < 2^64 ends within 65 iterations -- inside the model's fuel of 66 *)
Definition gap (a b : N) : N := (b + W - a) mod W.

Lemma sub_gap c a b d : a < W -> b < W -> sub c b a = Ok d -> d = gap a b.
Proof.
  unfold sub, gap. intros Ha Hb. destruct (N.leb_spec a b).
  - intros [= <-]. unfold W in *. lia.
  - destruct (dbg c); [discriminate|]. intros [= <-]. rewrite wrap_mod. reflexivity.
Qed.

Lemma add_mod c a b r : add c a b = Ok r -> r = (a + b) mod W.
Proof.
  unfold add. destruct (N.ltb_spec (a + b) W).
  - intros [= <-]. unfold W in *. lia.
  - destruct (dbg c); [discriminate|]. intros [= <-]. apply wrap_mod.
Qed.

Definition bis_P (n : nat) (ab : N * N) : Prop := fst ab < W /\ snd ab < W /\ gap (fst ab) (snd ab) <= 2 ^ N.of_nat n.

Lemma bisect_next c zeros r k a b a' b' : a < W -> b < W ->
  bisect_step c zeros r k (a, b) = Ok (inl (a', b')) ->
  a' < W /\ b' < W /\ 1 < gap a b /\ gap a' b' <= gap a b - gap a b / 2.
Proof.
  intros Ha Hb. unfold bisect_step.
  destruct (sub c b a) as [d|] eqn:Ed; cbn [bind]; [|discriminate].
  apply sub_gap in Ed; try assumption. subst d.
  destruct (N.ltb_spec 1 (gap a b)) as [Hg|]; [|discriminate].
  destruct (add c a (gap a b / 2)) as [mid|] eqn:Em; cbn [bind]; [|discriminate].
  pose proof (add_lt_W _ _ _ _ Em) as Hm. apply add_mod in Em.
  destruct (if zeros then block_rank0 c r mid else block_rank c r mid) as [x|]; cbn [bind]; [|discriminate].
  assert (Hgw : gap a b < W) by (unfold gap; apply N.mod_lt; discriminate).
  destruct (x <=? k); intros [= <- <-]; (split; [assumption|]; split; [assumption|]; split; [assumption|]).
  - unfold gap, W in *. lia.
  - unfold gap, W in *. lia.
Qed.

Lemma bisect_fuel c zeros r k a b : a < W -> b < W ->
  loopN W (bisect_step c zeros r k) (a, b) = iter_fuel 66 (bisect_step c zeros r k) (a, b).
Proof.
  intros Ha Hb. apply (loopN_fuel (bisect_step c zeros r k) bis_P) with (n := 64%nat).
  - intros [a0 b0] [a' b'] (H1 & H2 & H3) E. cbn [fst snd] in *.
    destruct (bisect_next _ _ _ _ _ _ _ _ H1 H2 E) as (_ & _ & Hg & _). change (2 ^ N.of_nat 0) with 1 in H3. lia.
  - intros n [a0 b0] [a' b'] (H1 & H2 & H3) E. cbn [fst snd] in *.
    destruct (bisect_next _ _ _ _ _ _ _ _ H1 H2 E) as (H1' & H2' & Hg & Hle).
    split; [assumption|]. split; [assumption|]. cbn [fst snd].
    rewrite Nat2N.inj_succ, N.pow_succ_r' in H3. set (p := 2 ^ N.of_nat n) in *. lia.
  - split; [assumption|]. split; [assumption|]. cbn [fst snd].
    assert (gap a b < W) by (unfold gap; apply N.mod_lt; discriminate).
    change (2 ^ N.of_nat 64) with W. lia.
  - lia.
  - reflexivity.
Qed.

(* the generated loop leaves with (a, b), the model's with a *)
Definition bisect_gstep (c : cfg) (zeros : bool) (r : r9index) (k : N) (ab : N * N) : res (N * N + N * N) :=
  let '(a, b) := ab in
  t7 <- sub c b a ;;
  if 1 <? t7 then
    t8 <- sub c b a ;;
    mid <- add c a (t8 / 2) ;;
    x <- (if zeros then Rank9.block_rank0 c r mid else Rank9.block_rank c r mid) ;;
    '(a, b) <- (if x <=? k then (let a := mid in Ok (a, b)) else (let b := mid in Ok (a, b))) ;;
    Ok (inl (a, b))
  else Ok (inr (a, b)).

Lemma bisect_gstep_tie c zeros r k ab :
  bisect_step c zeros r k ab = rmap (exit_map fst) (bisect_gstep c zeros r k ab).
Proof.
  destruct ab as [a b]. unfold bisect_step, bisect_gstep.
  destruct (sub c b a) as [d|]; inorm; [|reflexivity].
  destruct (1 <? d); inorm; [|reflexivity].
  destruct (add c a (d / 2)) as [mid|]; inorm; [|reflexivity].
  destruct (if zeros then block_rank0 c r mid else block_rank c r mid) as [x|]; inorm; [|reflexivity].
  destruct (x <=? k); reflexivity.
Qed.

Lemma bisect_loop {T} c zeros r k a b (K : N -> res T) : a < W -> b < W ->
  bind (loopN W (bisect_gstep c zeros r k) (a, b)) (fun ab => K (fst ab))
  = bind (iter_fuel 66 (bisect_step c zeros r k) (a, b)) K.
Proof.
  intros Ha Hb. rewrite <- bisect_fuel by assumption.
  rewrite (loopN_map fst _ _ (bisect_gstep_tie c zeros r k)). now rewrite bind_rmap.
Qed.

(* every element is a usize *)
Definition usize_list (l : list N) : Prop := forall x, In x l -> x < W.
Definition usize_olist (o : option (list N)) : Prop := match o with Some l => usize_list l | None => True end.

(* the hint window [a, b) in which the bisection starts *)
Definition window (c : cfg) (h : option (list N)) (k nb : N) : res (N * N) :=
  match h with
  | Some hints =>
      a <- (if negb (k / 1024 =? 0) then (i <- sub c (k / 1024) 1 ;; idx 0 hints i) else Ok 0) ;;
      h <- idx 0 hints (k / 1024) ;; b <- add c h 1 ;; Ok (a, b)
  | None => Ok (0, nb)
  end.

Lemma idx_In {A} (d : A) l i v : idx d l i = Ok v -> In v l.
Proof.
  intros H. pose proof (idx_Ok_lt _ _ _ _ H) as Hlt. rewrite idx_ok in H by exact Hlt. injection H as <-.
  unfold nthN. apply nth_In. unfold lenN in Hlt. lia.
Qed.

Lemma window_range c h k nb a b : nb < W -> usize_olist h -> window c h k nb = Ok (a, b) -> a < W /\ b < W.
Proof.
  intros Hnb Hh. unfold window. destruct h as [hints|]; [|intros [= <- <-]; split; [reflexivity | assumption]].
  cbn [usize_olist] in Hh. intros H.
  destruct (negb (k / 1024 =? 0)).
  - destruct (sub c (k / 1024) 1) as [i|]; cbn [bind] in H; [|discriminate].
    destruct (idx 0 hints i) as [a0|] eqn:Ea; cbn [bind] in H; [|discriminate].
    destruct (idx 0 hints (k / 1024)) as [h0|]; cbn [bind] in H; [|discriminate].
    destruct (add c h0 1) as [b0|] eqn:Eb; cbn [bind] in H; [|discriminate].
    injection H as <- <-. split; [apply Hh; eapply idx_In; eauto | eapply add_lt_W; eauto].
  - cbn [bind] in H.
    destruct (idx 0 hints (k / 1024)) as [h0|]; cbn [bind] in H; [|discriminate].
    destruct (add c h0 1) as [b0|] eqn:Eb; cbn [bind] in H; [|discriminate].
    injection H as <- <-. split; [reflexivity | eapply add_lt_W; eauto].
Qed.

Lemma num_blocks_lt c r nb : lenN (r_brp r) < W -> num_blocks c r = Ok nb -> nb < W.
Proof. unfold num_blocks. intros HL H. eapply sub_lt_W; [|exact H]. unfold W in *. lia. Qed.

Ltac ties := rewrite ?tie_rank9_num_ones, ?tie_rank9_num_zeros, ?tie_rank9_num_blocks, ?tie_rank9_block_rank,
  ?tie_rank9_block_rank0, ?tie_rank9_sub_block_ranks, ?tie_uleq_step_9.
Ltac bstep := ties; match goal with |- bind ?m _ = bind ?m _ => destruct m; inorm; [|reflexivity] end.

Lemma tie_rank9_select1 : forall c r bv k, lenN (r_brp r) < W -> usize_olist (r_h1 r) ->
  rank9_select1 c r bv k = Rank9.select1 c r bv k.
Proof.
  intros c r bv k HL HH. unfold rank9_select1, Rank9.select1, select_gen. getters.
  rewrite !tie_rank9_num_ones, !tie_rank9_num_blocks. inorm.
  destruct (num_ones c r) as [cnt|]; inorm; [|reflexivity].
  destruct (cnt <=? k); [reflexivity|].
  destruct (num_blocks c r) as [nb|] eqn:Hnb; inorm; [|reflexivity].
  iconsts. fold (window c (r_h1 r) k nb).
  match goal with |- bind ?m _ = _ => replace m with (window c (r_h1 r) k nb) end.
  2:{ unfold window. destruct (r_h1 r) as [h|]; [|reflexivity].
      destruct (negb (k / 1024 =? 0)); inorm; [|reflexivity].
      destruct (sub c (k / 1024) 1) as [i|]; inorm; [|reflexivity]. now rewrite bind_ret. }
  destruct (window c (r_h1 r) k nb) as [[a b]|] eqn:Ew; inorm; [|reflexivity].
  destruct (window_range _ _ _ _ _ _ (num_blocks_lt _ _ _ HL Hnb) HH Ew) as [Ha Hb].
  rewrite <- (bisect_loop c false r k a b) by assumption.
  rewrite (loopN_ext _ _ (bisect_gstep c false r k)).
  2:{ intros [a0 b0]. unfold bisect_gstep. destruct (sub c b0 a0) as [d|]; inorm; [|reflexivity].
      destruct (1 <? d); [|reflexivity]. destruct (add c a0 (d / 2)) as [mid|]; inorm; [|reflexivity].
      now rewrite tie_rank9_block_rank. }
  apply bind_ext. intros [block b']. cbn [fst].
  change BroadwordGen.ONES_STEP_9 with ONES_STEP_9.
  replace (if dbg c then assert_ (block <? nb) else Ok tt) with (dassert c (block <? nb)) by reflexivity.
  repeat bstep. isteps.
Qed.

Lemma tie_rank9_select0 : forall c r bv k, lenN (r_brp r) < W -> usize_olist (r_h0 r) ->
  rank9_select0 c r bv k = Rank9.select0 c r bv k.
Proof.
  intros c r bv k HL HH. unfold rank9_select0, Rank9.select0, select_gen. getters.
  rewrite !tie_rank9_num_zeros, !tie_rank9_num_blocks. inorm.
  destruct (num_zeros c r) as [cnt|]; inorm; [|reflexivity].
  destruct (cnt <=? k); [reflexivity|].
  destruct (num_blocks c r) as [nb|] eqn:Hnb; inorm; [|reflexivity].
  iconsts. fold (window c (r_h0 r) k nb).
  match goal with |- bind ?m _ = _ => replace m with (window c (r_h0 r) k nb) end.
  2:{ unfold window. destruct (r_h0 r) as [h|]; [|reflexivity].
      destruct (negb (k / 1024 =? 0)); inorm; [|reflexivity].
      destruct (sub c (k / 1024) 1) as [i|]; inorm; [|reflexivity]. now rewrite bind_ret. }
  destruct (window c (r_h0 r) k nb) as [[a b]|] eqn:Ew; inorm; [|reflexivity].
  destruct (window_range _ _ _ _ _ _ (num_blocks_lt _ _ _ HL Hnb) HH Ew) as [Ha Hb].
  rewrite <- (bisect_loop c true r k a b) by assumption.
  rewrite (loopN_ext _ _ (bisect_gstep c true r k)).
  2:{ intros [a0 b0]. unfold bisect_gstep. destruct (sub c b0 a0) as [d|]; inorm; [|reflexivity].
      destruct (1 <? d); [|reflexivity]. destruct (add c a0 (d / 2)) as [mid|]; inorm; [|reflexivity].
      now rewrite tie_rank9_block_rank0. }
  apply bind_ext. intros [block b']. cbn [fst].
  change BroadwordGen.ONES_STEP_9 with ONES_STEP_9. change BroadwordGen.INV_COUNT_STEP_9 with INV_COUNT_STEP_9.
  replace (if dbg c then assert_ (block <? nb) else Ok tt) with (dassert c (block <? nb)) by reflexivity.
  repeat bstep.
  change (mul c 64 INV_COUNT_STEP_9) with (@Ok N 1157438332817572288). inorm.
  repeat bstep. isteps.
Qed.

(* =============================================================================================
   Rank9Sel (rank9sel.rs): the wrappers
   ============================================================================================= *)
Lemma tie_rank9sel_new : forall c bv, rank9sel_new c bv = r9_new c bv.
Proof. intros. unfold rank9sel_new, r9_new. now rewrite tie_rank9_new. Qed.

Lemma tie_rank9sel_select1_hints : forall c x, rank9sel_select1_hints c x = r9_select1_hints c x.
Proof. intros. unfold rank9sel_select1_hints, r9_select1_hints. now rewrite tie_rank9_select1_hints. Qed.

Lemma tie_rank9sel_select0_hints : forall c x, rank9sel_select0_hints c x = r9_select0_hints c x.
Proof. intros. unfold rank9sel_select0_hints, r9_select0_hints. now rewrite tie_rank9_select0_hints. Qed.

Lemma tie_rank9sel_from_bits : forall c bits,
  rank9sel_from_bits c bits = (bv <- BitVector.from_bits c bits ;; r9_new c bv).
Proof.
  intros. unfold rank9sel_from_bits. rewrite tie_bit_vector_from_bits. apply bind_ext. intro bv. apply tie_rank9sel_new.
Qed.

(* Build::build_from_bits(bits, _, with_select1, with_select0): the model's r9_build takes the bit vector *)
Lemma tie_rank9sel_build_from_bits : forall c bits wr w1 w0,
  rank9sel_build_from_bits c bits wr w1 w0 =
  (bv <- BitVector.from_bits c bits ;; x <- r9_build c bv w1 w0 ;; Ok (Some x)).
Proof.
  intros. unfold rank9sel_build_from_bits, r9_build. rewrite tie_rank9sel_from_bits, !bind_assoc.
  apply bind_ext. intro bv. rewrite !bind_assoc. apply bind_ext. intro x.
  destruct w1; [rewrite tie_rank9sel_select1_hints|]; inorm.
  - rewrite bind_ret. destruct (r9_select1_hints c x) as [y|]; inorm; [|reflexivity].
    destruct w0; [rewrite tie_rank9sel_select0_hints, bind_ret|]; reflexivity.
  - destruct w0; [rewrite tie_rank9sel_select0_hints, bind_ret|]; reflexivity.
Qed.

Lemma tie_rank9sel_len : forall c x, rank9sel_len c x = Ok (r9_num_bits x).
Proof. reflexivity. Qed.

Lemma tie_rank9sel_num_bits : forall c x, rank9sel_num_bits c x = Ok (r9_num_bits x).
Proof. reflexivity. Qed.

Lemma tie_rank9sel_num_ones : forall c x, rank9sel_num_ones c x = r9_num_ones c x.
Proof. intros. unfold rank9sel_num_ones, r9_num_ones. apply tie_rank9_num_ones. Qed.

Lemma tie_rank9sel_access : forall c x pos, rank9sel_access c x pos = r9_access c x pos.
Proof. intros. unfold rank9sel_access, r9_access. apply tie_bit_vector_access. Qed.

Lemma tie_rank9sel_rank1 : forall c x pos, rank9sel_rank1 c x pos = r9_rank1 c x pos.
Proof. intros. unfold rank9sel_rank1, r9_rank1. apply tie_rank9_rank1. Qed.

Lemma tie_rank9sel_rank0 : forall c x pos, rank9sel_rank0 c x pos = r9_rank0 c x pos.
Proof. intros. unfold rank9sel_rank0, r9_rank0. apply tie_rank9_rank0. Qed.

Lemma tie_rank9sel_select1 : forall c x k, lenN (r_brp (r9_rs x)) < W -> usize_olist (r_h1 (r9_rs x)) ->
  rank9sel_select1 c x k = r9_select1 c x k.
Proof. intros. unfold rank9sel_select1, r9_select1. now apply tie_rank9_select1. Qed.

Lemma tie_rank9sel_select0 : forall c x k, lenN (r_brp (r9_rs x)) < W -> usize_olist (r_h0 (r9_rs x)) ->
  rank9sel_select0 c x k = r9_select0 c x k.
Proof. intros. unfold rank9sel_select0, r9_select0. now apply tie_rank9_select0. Qed.

(* =============================================================================================
   DArrayIndex::flush_cur_block
   ============================================================================================= *)
Lemma skipn_skipn' {A} (l : list A) : forall a b, skipn a (skipn b l) = skipn (b + a) l.
Proof.
  induction l as [|x r IH]; intros a b.
  - now rewrite !skipn_nil.
  - destruct b as [|b]; [reflexivity|]. cbn [skipn Nat.add]. apply IH.
Qed.

Lemma skipn_nth {A} (d : A) (l : list A) : forall n, (n < length l)%nat ->
  skipn n l = nth n l d :: skipn (S n) l.
Proof.
  induction l as [|x r IH]; intros n Hn; [cbn in Hn; lia|].
  destruct n as [|n]; [reflexivity|]. cbn [length] in Hn. cbn [skipn nth]. rewrite (IH n) by lia. reflexivity.
Qed.

(* (0..l.len()).step_by(32) reads the elements the model's step_by32 lists *)
Lemma step_by_heads (l : list N) : forall fuel off,
  map (fun i => nthN l i 0) (nrange_by_aux fuel (N.of_nat off) (lenN l) 32) = step_by32 fuel (skipn off l) /\
  (forall i, In i (nrange_by_aux fuel (N.of_nat off) (lenN l) 32) -> i < lenN l).
Proof.
  induction fuel as [|f IH]; intros off; [split; [reflexivity | intros i []]|].
  cbn [nrange_by_aux]. destruct (N.ltb_spec (N.of_nat off) (lenN l)) as [H|H].
  - assert (Ho : (off < length l)%nat) by (unfold lenN in H; lia).
    rewrite (skipn_nth 0 l off Ho). cbn [step_by32 map].
    change (skipn 32 (nth off l 0 :: skipn (S off) l)) with (skipn 31 (skipn (S off) l)).
    rewrite skipn_skipn'. replace (S off + 31)%nat with (off + 32)%nat by lia.
    replace (N.of_nat off + 32) with (N.of_nat (off + 32)) by lia.
    destruct (IH (off + 32)%nat) as [IH1 IH2]. split.
    + rewrite IH1. unfold nthN. now rewrite Nat2N.id.
    + intros i [<-|Hi]; [exact H | now apply IH2].
  - split; [|intros i []]. rewrite skipn_all2 by (unfold lenN in H; lia). destruct f; reflexivity.
Qed.

Lemma step_by_heads0 (l : list N) :
  map (fun i => nthN l i 0) (nrange_by 0 (lenN l) 32) = step_by32 (length l) l /\
  (forall i, In i (nrange_by 0 (lenN l) 32) -> i < lenN l).
Proof.
  unfold nrange_by. rewrite N.sub_0_r. replace (N.to_nat (lenN l)) with (length l) by (unfold lenN; lia).
  exact (step_by_heads l (length l) 0%nat).
Qed.

(* reading `l[i]` for in-range indices is a fold over the elements read *)
Lemma fold_idx_map {S} (l : list N) (f : S -> N -> res S) : forall idxs s,
  (forall i, In i idxs -> i < lenN l) ->
  fold_res (fun s i => w <- idx 0 l i ;; f s w) idxs s = fold_res f (map (fun i => nthN l i 0) idxs) s.
Proof.
  induction idxs as [|i r IH]; intros s H; [reflexivity|].
  cbn [fold_res map]. rewrite idx_ok by (apply H; now left). cbn [bind].
  destruct (f s (nthN l i 0)) as [s'|]; cbn [bind]; [|reflexivity]. apply IH. intros j Hj. apply H. now right.
Qed.

(* pushing onto an accumulator = computing the pushed elements, then appending *)
Lemma fold_acc_shift {A B} (g : A -> res B) : forall l acc,
  fold_res (fun acc x => t <- g x ;; Ok (acc ++ [t])) l acc
  = rmap (app acc) (fold_res (fun acc x => t <- g x ;; Ok (acc ++ [t])) l []).
Proof.
  induction l as [|x r IH]; intros acc; cbn [fold_res rmap]; [now rewrite app_nil_r|].
  destruct (g x) as [t|]; cbn [bind]; [|reflexivity].
  rewrite (IH (acc ++ [t])), (IH ([] ++ [t])). cbn [app].
  destruct (fold_res _ r []) as [subs|]; cbn [rmap]; [|reflexivity]. now rewrite <- app_assoc.
Qed.

Definition da_tup4 (s : dastate) : list N * list Z * list N * list N := (t_cur s, t_binv s, t_sinv s, t_ovf s).

Lemma tie_darray_index_flush_cur_block : forall c s,
  (forall p, hd_error (t_cur s) = Some p -> p < 2 ^ 63) -> lenN (t_ovf s) + 1 < 2 ^ 63 ->
  darray_index_flush_cur_block c (t_cur s) (t_binv s) (t_sinv s) (t_ovf s) = rmap da_tup4 (flush_cur_block c s).
Proof.
  intros c [cur cnt binv sinv ovf num] Hf Ho. unfold darray_index_flush_cur_block, flush_cur_block. inorm.
  destruct (hd_error cur) as [first|] eqn:Ef; cbn [unwrap]; inorm; [|reflexivity].
  destruct (last_opt cur) as [last|]; cbn [unwrap]; inorm; [|reflexivity].
  destruct (sub c last first) as [d|]; inorm; [|reflexivity]. iconsts.
  destruct (step_by_heads0 cur) as [Hh Hi].
  destruct (d <? 65536); inorm.
  - rewrite (fold_res_ext _ (fun s i => w <- idx 0 cur i ;; (fun acc p => t <- (t <- sub c p first ;; Ok (t mod 65536)) ;; Ok (acc ++ [t])) s w)).
    2:{ intros acc i. destruct (idx 0 cur i); inorm; [|reflexivity]. now rewrite bind_assoc. }
    rewrite fold_idx_map by exact Hi. rewrite Hh, fold_acc_shift.
    rewrite (fold_res_ext (fun acc p => t <- sub c p first ;; Ok (acc ++ [t mod 65536]))
                          (fun acc x => t <- (t <- sub c x first ;; Ok (t mod 65536)) ;; Ok (acc ++ [t]))).
    2:{ intros acc p. now rewrite bind_assoc. }
    destruct (fold_res _ (step_by32 (length cur) cur) []) as [subs|]; inorm; [|reflexivity].
    unfold da_tup4. inorm. unfold usize_as_isize.
    destruct (N.ltb_spec first 9223372036854775808) as [_|H]; [reflexivity|].
    specialize (Hf first eq_refl). change (2 ^ 63) with 9223372036854775808 in Hf. lia.
  - destruct (add c (lenN ovf) 1) as [e|] eqn:Ee; inorm; [|reflexivity].
    assert (He : e = lenN ovf + 1).
    { rewrite add_ok in Ee by (change (2 ^ 63) with 9223372036854775808 in Ho; unfold W; lia). now injection Ee. }
    unfold isize_neg, isize_chk, usize_as_isize.
    change (2 ^ 63) with 9223372036854775808 in Ho.
    destruct (N.ltb_spec e 9223372036854775808) as [_|H]; [|lia].
    replace (isize_ok (- Z.of_N e)) with true.
    2:{ unfold isize_ok, ISIZE_MIN, ISIZE_MAX. lia. }
    inorm. rewrite (fold_push cur ovf). inorm.
    rewrite (fold_push_const 65535 (nrange_by 0 (lenN cur) 32) sinv). inorm.
    unfold da_tup4. inorm. rewrite <- Hh, map_map. reflexivity.
Qed.

(* =============================================================================================
   DArrayIndex::build
   ============================================================================================= *)
(* the state of the model's build: the counter t_cnt is the length of the current block, the positions of the
   current block are below len (only such positions are pushed), and C bounds the positions held *)
Definition da_ok (len C : N) (s : dastate) : Prop :=
  t_cnt s = lenN (t_cur s) /\ (forall p, In p (t_cur s) -> p < len) /\ lenN (t_ovf s) + lenN (t_cur s) <= C.

(* invariant of `while let Some(l) = lsb(cur_word)`: cur_word has at most n bits, at most n more pushes follow *)
Definition ws_inv (len C : N) (m : dastate * N * N) : Prop :=
  let '(s, p, w) := m in
  t_cnt s = lenN (t_cur s) /\ (forall q, In q (t_cur s) -> q < len) /\
  exists n : nat, w < 2 ^ N.of_nat n /\ lenN (t_ovf s) + lenN (t_cur s) + N.of_nat n <= C.

Lemma flush_ok c s s' : flush_cur_block c s = Ok s' ->
  t_cur s' = [] /\ t_cnt s' = 0 /\ lenN (t_ovf s') <= lenN (t_ovf s) + lenN (t_cur s) /\ t_num s' = t_num s.
Proof.
  unfold flush_cur_block. intros H.
  destruct (unwrap (hd_error (t_cur s))) as [first|]; cbn [bind] in H; [|discriminate].
  destruct (unwrap (last_opt (t_cur s))) as [last|]; cbn [bind] in H; [|discriminate].
  destruct (sub c last first) as [d|]; cbn [bind] in H; [|discriminate].
  destruct (d <? MAX_IN_BLOCK_DISTANCE).
  - destruct (fold_res _ _ _) as [subs|]; cbn [bind] in H; [|discriminate]. injection H as <-. inorm. repeat split; lia.
  - destruct (add c (lenN (t_ovf s)) 1) as [e|]; cbn [bind] in H; [|discriminate]. injection H as <-. inorm.
    repeat split; rewrite ?lenN_app; lia.
Qed.

Lemma lsb_nonzero w l : lsb_spec w = Some l -> w <> 0.
Proof. unfold lsb_spec. destruct (N.eqb_spec w 0); [discriminate | auto]. Qed.

Lemma word_step_inv c len C m : ws_inv len C m ->
  match word_step c len m with Ok (inl m') => ws_inv len C m' | Ok (inr s') => da_ok len C s' | Panic => True end.
Proof.
  destruct m as [[s p] w]. intros (Hc & Hin & n & Hw & Hn). unfold word_step.
  destruct (lsb_spec w) as [l|] eqn:El; [|repeat split; auto; lia].
  destruct (add c p l) as [p1|]; cbn [bind]; [|exact I].
  destruct (shr c w l) as [w1|] eqn:Ew1; cbn [bind]; [|exact I]. apply shr_le in Ew1.
  destruct (N.leb_spec len p1) as [|Hp]; [repeat split; auto; lia|].
  set (s1 := {| t_cur := t_cur s ++ [p1]; t_cnt := t_cnt s + 1; t_binv := t_binv s; t_sinv := t_sinv s;
                t_ovf := t_ovf s; t_num := t_num s |}).
  assert (H1 : t_cnt s1 = lenN (t_cur s1)) by (unfold s1; inorm; rewrite lenN_snoc; lia).
  assert (H2 : forall q, In q (t_cur s1) -> q < len).
  { unfold s1; inorm. intros q Hq. apply in_app_or in Hq. destruct Hq as [Hq|[<-|[]]]; auto. }
  assert (H3 : lenN (t_ovf s1) + lenN (t_cur s1) = lenN (t_ovf s) + lenN (t_cur s) + 1)
    by (unfold s1; inorm; rewrite lenN_snoc; lia).
  clearbody s1.
  assert (Hs2 : forall s2, (if t_cnt s1 =? DA_BLOCK_LEN then flush_cur_block c s1 else Ok s1) = Ok s2 ->
            t_cnt s2 = lenN (t_cur s2) /\ (forall q, In q (t_cur s2) -> q < len) /\
            lenN (t_ovf s2) + lenN (t_cur s2) <= lenN (t_ovf s) + lenN (t_cur s) + 1).
  { intros s2 E. destruct (t_cnt s1 =? DA_BLOCK_LEN).
    - apply flush_ok in E. destruct E as (E1 & E2 & E3 & _). rewrite E1, E2. repeat split; [intros q []|].
      change (lenN []) with 0. lia.
    - injection E as <-. repeat split; auto. lia. }
  destruct (if t_cnt s1 =? DA_BLOCK_LEN then flush_cur_block c s1 else Ok s1) as [s2|]; cbn [bind]; [|exact I].
  destruct (Hs2 s2 eq_refl) as (G1 & G2 & G3).
  rewrite shr_ok by lia. cbn [bind].
  destruct (add c p1 1) as [p2|]; cbn [bind]; [|exact I].
  destruct (add c (t_num s2) 1) as [n2|]; cbn [bind]; [|exact I].
  cbn [ws_inv t_cur t_cnt t_ovf].
  split; [exact G1|]. split; [exact G2|].
  destruct n as [|n']; [apply lsb_nonzero in El; change (2 ^ N.of_nat 0) with 1 in Hw; lia|].
  exists n'. rewrite Nat2N.inj_succ, N.pow_succ_r' in Hw. rewrite Nat2N.inj_succ in Hn.
  change (2 ^ 1) with 2. set (q := 2 ^ N.of_nat n') in *. split; lia.
Qed.

(* the model's loop ends within its fuel for a 64-bit word *)
Lemma word_step_next c len s p w s' p' w' :
  word_step c len (s, p, w) = Ok (inl (s', p', w')) -> w <> 0 /\ w' <= w / 2.
Proof.
  unfold word_step. destruct (lsb_spec w) as [l|] eqn:El; [|discriminate]. apply lsb_nonzero in El.
  destruct (add c p l) as [p1|]; inorm; [|discriminate].
  destruct (shr c w l) as [w1|] eqn:Ew1; inorm; [|discriminate]. apply shr_le in Ew1.
  destruct (len <=? p1); [discriminate|].
  destruct (if _ =? DA_BLOCK_LEN then _ else _) as [s2|]; inorm; [|discriminate].
  rewrite shr_ok by lia. inorm.
  destruct (add c p1 1) as [p2|]; inorm; [|discriminate].
  destruct (add c (t_num s2) 1) as [n2|]; inorm; [|discriminate].
  intros [= <- <- <-]. split; [assumption|]. change (2 ^ 1) with 2. lia.
Qed.

Lemma word_step_fuel c len s p w : w < W ->
  loopN W (word_step c len) (s, p, w) = iter_fuel 66 (word_step c len) (s, p, w).
Proof.
  intros Hw. apply (loopN_fuel (word_step c len) (fun n m => snd m < 2 ^ N.of_nat n)) with (n := 64%nat).
  - intros [[s0 p0] w0] [[s1 p1] w1] H E. cbn [snd] in H. apply word_step_next in E.
    change (2 ^ N.of_nat 0) with 1 in H. lia.
  - intros n [[s0 p0] w0] [[s1 p1] w1] H E. cbn [snd] in *. apply word_step_next in E.
    rewrite Nat2N.inj_succ, N.pow_succ_r' in H. set (q := 2 ^ N.of_nat n) in *. lia.
  - exact Hw.
  - lia.
  - reflexivity.
Qed.

(* the generated loop carries the seven variables; the model's state is (dastate, cur_pos, cur_word) *)
Notation da7 := (list Z * list N * N * N * N * list N * list N)%type.
Notation da5 := (list Z * list N * N * list N * list N)%type.
Definition tup7 (m : dastate * N * N) : da7 :=
  let '(s, p, w) := m in (t_binv s, t_cur s, p, w, t_num s, t_ovf s, t_sinv s).
Definition tup5 (s : dastate) : da5 := (t_binv s, t_cur s, t_num s, t_ovf s, t_sinv s).
Definition proj5 (g : da7) : da5 := let '(bi, cb, _, _, np, op, si) := g in (bi, cb, np, op, si).

Definition ws_gstep (c : cfg) (bv : bitvec) (g : da7) : res (da7 + da7) :=
  let '(block_inventory, cur_block_positions, cur_pos, cur_word, num_positions, overflow_positions, subblock_inventory) := g in
  match (lsb_spec cur_word) with None => Ok (inr (block_inventory, cur_block_positions, cur_pos, cur_word, num_positions, overflow_positions, subblock_inventory)) | Some l =>
  cur_pos <- add c cur_pos l ;;
  cur_word <- shr c cur_word l ;;
  t9 <- bit_vector_num_bits c bv ;;
  if (N.leb t9 cur_pos) then (Ok (inr (block_inventory, cur_block_positions, cur_pos, cur_word, num_positions, overflow_positions, subblock_inventory))) else (
  let cur_block_positions := (cur_block_positions ++ [cur_pos]) in
  '(block_inventory, cur_block_positions, overflow_positions, subblock_inventory) <- (if (N.eqb (lenN cur_block_positions) darray_BLOCK_LEN) then (
      '(cur_block_positions, block_inventory, subblock_inventory, overflow_positions) <- darray_index_flush_cur_block c cur_block_positions block_inventory subblock_inventory overflow_positions ;;
      Ok (block_inventory, cur_block_positions, overflow_positions, subblock_inventory)
    ) else (
      Ok (block_inventory, cur_block_positions, overflow_positions, subblock_inventory)
    )) ;;
  cur_word <- shr c cur_word 1 ;;
  cur_pos <- add c cur_pos 1 ;;
  num_positions <- add c num_positions 1 ;;
  Ok (inl (block_inventory, cur_block_positions, cur_pos, cur_word, num_positions, overflow_positions, subblock_inventory))
  ) end.

Lemma hd_error_In {A} (l : list A) x : hd_error l = Some x -> In x l.
Proof. destruct l; [discriminate|]. intros [= <-]. now left. Qed.

Lemma ws_sim c bv C m : bv_len bv <= 2 ^ 63 -> C + 1 < 2 ^ 63 -> ws_inv (bv_len bv) C m ->
  match ws_gstep c bv (tup7 m), word_step c (bv_len bv) m with
  | Ok (inl a), Ok (inl b) => a = tup7 b
  | Ok (inr a), Ok (inr b) => proj5 a = tup5 b
  | Panic, Panic => True
  | _, _ => False
  end.
Proof.
  intros HL HC. destruct m as [[s p] w]. intros (Hc & Hin & n & Hw & Hn).
  unfold ws_gstep, word_step, tup7. getters. cbn [bind].
  destruct (lsb_spec w) as [l|]; [|reflexivity].
  destruct (add c p l) as [p1|]; cbn [bind]; [|exact I].
  destruct (shr c w l) as [w1|]; cbn [bind]; [|exact I].
  destruct (N.leb_spec (bv_len bv) p1) as [|Hp]; [reflexivity|].
  set (s1 := {| t_cur := t_cur s ++ [p1]; t_cnt := t_cnt s + 1; t_binv := t_binv s; t_sinv := t_sinv s;
                t_ovf := t_ovf s; t_num := t_num s |}).
  change (t_cnt s1) with (t_cnt s + 1). rewrite lenN_snoc, <- Hc. iconsts.
  destruct (t_cnt s + 1 =? 1024).
  - change (darray_index_flush_cur_block c (t_cur s ++ [p1]) (t_binv s) (t_sinv s) (t_ovf s))
      with (darray_index_flush_cur_block c (t_cur s1) (t_binv s1) (t_sinv s1) (t_ovf s1)).
    rewrite tie_darray_index_flush_cur_block.
    + destruct (flush_cur_block c s1) as [s2|] eqn:Ef; cbn [rmap bind da_tup4]; [|exact I].
      apply flush_ok in Ef. destruct Ef as (_ & _ & _ & ->). change (t_num s1) with (t_num s).
      destruct (shr c w1 1) as [w2|]; cbn [bind]; [|exact I].
      destruct (add c p1 1) as [p2|]; cbn [bind]; [|exact I].
      destruct (add c (t_num s) 1) as [n2|]; cbn [bind]; [|exact I]. reflexivity.
    + intros q Hq. apply hd_error_In in Hq. unfold s1 in Hq. cbn [t_cur] in Hq.
      apply in_app_or in Hq. destruct Hq as [Hq|[<-|[]]]; [apply Hin in Hq|]; lia.
    + unfold s1. cbn [t_ovf]. lia.
  - cbn [bind].
    destruct (shr c w1 1) as [w2|]; cbn [bind]; [|exact I].
    destruct (add c p1 1) as [p2|]; cbn [bind]; [|exact I]. unfold s1. cbn [t_num].
    destruct (add c (t_num s) 1) as [n2|]; cbn [bind]; [|exact I]. reflexivity.
Qed.

Lemma word_loop_tie c bv C s p w : bv_len bv <= 2 ^ 63 -> C + 1 < 2 ^ 63 -> w < W ->
  ws_inv (bv_len bv) C (s, p, w) ->
  bind (loopN W (ws_gstep c bv) (tup7 (s, p, w))) (fun g => Ok (proj5 g))
  = bind (iter_fuel 66 (word_step c (bv_len bv)) (s, p, w)) (fun s' => Ok (tup5 s')) /\
  (forall s', iter_fuel 66 (word_step c (bv_len bv)) (s, p, w) = Ok s' -> da_ok (bv_len bv) C s').
Proof.
  intros HL HC Hw Hinv. rewrite <- word_step_fuel by exact Hw. split.
  - apply (loopN_sim_bind (fun g m => g = tup7 m /\ ws_inv (bv_len bv) C m) (fun a b => proj5 a = tup5 b)).
    + intros g m [-> Hi]. pose proof (ws_sim c bv C m HL HC Hi) as H1.
      pose proof (word_step_inv c (bv_len bv) C m Hi) as H2.
      destruct (ws_gstep c bv (tup7 m)) as [[a|a]|], (word_step c (bv_len bv) m) as [[b|b]|]; try contradiction; auto.
    + intros a b ->. reflexivity.
    + split; [reflexivity | exact Hinv].
  - intros s' E. eapply (loopN_inv (word_step c (bv_len bv)) (ws_inv (bv_len bv) C) (da_ok (bv_len bv) C)); eauto.
    intros m Hm. apply word_step_inv; assumption.
Qed.

Definition bw_inv (len : N) (pre : list N) (t : dastate * N) : Prop :=
  snd t = lenN pre /\ da_ok len (64 * lenN pre) (fst t).

Lemma tie_darray_index_build : forall c bv over_one,
  bv_len bv <= 2 ^ 63 -> lenN (bv_words bv) < 2 ^ 56 -> usize_list (bv_words bv) ->
  darray_index_build c bv over_one = da_build c bv over_one.
Proof.
  intros c bv over_one HL HN HW. unfold darray_index_build, da_build. getters. inorm.
  change (([], [], 0, [], []) : da5)
    with (tup5 {| t_cur := []; t_cnt := 0; t_binv := []; t_sinv := []; t_ovf := []; t_num := 0 |}).
  set (s0 := {| t_cur := []; t_cnt := 0; t_binv := []; t_sinv := []; t_ovf := []; t_num := 0 |}).
  change (tup5 s0) with ((fun t : dastate * N => tup5 (fst t)) (s0, 0)).
  match goal with |- context [fold_res ?G (nrange 0 _) _] =>
    destruct (fold_nrange_inv0 (fun t : dastate * N => tup5 (fst t)) (bw_inv (bv_len bv)) G
                (build_word c over_one (bv_len bv)) (bv_words bv) (s0, 0)) as [HF HI] end.
  - (* one word *)
    intros pre x post [s widx] Hl [Hi Hok]. cbn [fst snd] in *. subst widx.
    assert (Hx : x < W) by (apply HW; rewrite Hl; apply in_or_app; right; now left).
    assert (Hpre : lenN pre < 2 ^ 56) by (rewrite Hl, lenN_app, lenN_cons in HN; lia).
    unfold build_word, tup5 at 1. cbn [fst].
    destruct (mul c (lenN pre) 64) as [cur_pos|]; inorm; [|split; [reflexivity | discriminate]].
    unfold darray_index_get_word_over_one, darray_index_get_word_over_zero. getters. inorm.
    rewrite Hl, idx_app_mid. inorm.
    set (w := if over_one then x else not64 x).
    replace (if over_one then Ok x else Ok (not64 x)) with (Ok w) by (unfold w; now destruct over_one). inorm.
    assert (Hw : w < W) by (unfold w; destruct over_one; [assumption | now apply not64_lt]).
    rewrite (loopN_ext _ _ (ws_gstep c bv)) by (intros [[[[[[? ?] ?] ?] ?] ?] ?]; reflexivity).
    change (t_binv s, t_cur s, cur_pos, w, t_num s, t_ovf s, t_sinv s) with (tup7 (s, cur_pos, w)).
    destruct (word_loop_tie c bv (64 * lenN pre + 64) s cur_pos w HL) as [HT HQ]; [| exact Hw | |].
    { change (2 ^ 56) with 72057594037927936 in Hpre. change (2 ^ 63) with 9223372036854775808. lia. }
    { destruct Hok as (H1 & H2 & H3). split; [exact H1|]. split; [exact H2|]. exists 64%nat.
      split; [exact Hw | change (N.of_nat 64) with 64; lia]. }
    split.
    + etransitivity; [|etransitivity; [exact HT|]].
      * apply bind_ext. intros [[[[[[? ?] ?] ?] ?] ?] ?]. reflexivity.
      * destruct (iter_fuel 66 _ _); reflexivity.
    + intros [s' widx']. destruct (iter_fuel 66 _ _) as [s2|] eqn:E; inorm; [|discriminate].
      intros [= <- <-]. split; cbn [fst snd]; [rewrite lenN_snoc; reflexivity|].
      rewrite lenN_snoc. replace (64 * (lenN pre + 1)) with (64 * lenN pre + 64) by lia. now apply HQ.
  - split; [reflexivity|]. unfold s0. repeat split; cbn; [intros p [] | lia].
  - cbv beta in HF. cbv beta. rewrite HF, bind_rmap.
    destruct (fold_res (build_word c over_one (bv_len bv)) (bv_words bv) (s0, 0)) as [[s widx]|] eqn:E; inorm;
      [|reflexivity].
    destruct (HI _ eq_refl) as [_ (H1 & H2 & H3)]. cbn [fst] in *. unfold tup5. rewrite H1.
    destruct (lenN (t_cur s) =? 0); inorm.
    + reflexivity.
    + rewrite tie_darray_index_flush_cur_block.
      * destruct (flush_cur_block c s) as [s2|] eqn:Ef; [|reflexivity].
        apply flush_ok in Ef. destruct Ef as (_ & _ & _ & Hn). cbn [rmap bind da_tup4]. now rewrite Hn.
      * intros q Hq. apply hd_error_In, H2 in Hq. lia.
      * change (2 ^ 56) with 72057594037927936 in HN. change (2 ^ 63) with 9223372036854775808. lia.
Qed.

Lemma tie_darray_index_new : forall c bv over_one,
  bv_len bv <= 2 ^ 63 -> lenN (bv_words bv) < 2 ^ 56 -> usize_list (bv_words bv) ->
  darray_index_new c bv over_one = da_build c bv over_one.
Proof. intros. unfold darray_index_new. now apply tie_darray_index_build. Qed.

(* =============================================================================================
   DArrayIndex::select
   ============================================================================================= *)
Definition get_word (c : cfg) (over_one : bool) (bv : bitvec) (i : N) : res N :=
  if over_one then darray_index_get_word_over_one c bv i else darray_index_get_word_over_zero c bv i.

Lemma tie_darray_index_get_word_over_one : forall c bv i,
  darray_index_get_word_over_one c bv i = idx 0 (bv_words bv) i.
Proof. reflexivity. Qed.

Lemma tie_darray_index_get_word_over_zero : forall c bv i,
  darray_index_get_word_over_zero c bv i = (w <- idx 0 (bv_words bv) i ;; Ok (not64 w)).
Proof. reflexivity. Qed.

Lemma get_word_eq c over_one bv i :
  get_word c over_one bv i = (w <- idx 0 (bv_words bv) i ;; Ok (if negb over_one then not64 w else w)).
Proof.
  unfold get_word, darray_index_get_word_over_one, darray_index_get_word_over_zero. getters.
  destruct over_one; inorm; [now rewrite bind_ret | reflexivity].
Qed.

Definition scan_gstep (c : cfg) (over_one : bool) (bv : bitvec) (s : N * N * N) : res (N * N * N + N * N * N) :=
  let '(reminder, word, word_idx) := s in
  let popcnt := popcN word in
  if reminder <? popcnt then Ok (inr (reminder, word, word_idx)) else
  reminder <- sub c reminder popcnt ;;
  word_idx <- add c word_idx 1 ;;
  word <- get_word c over_one bv word_idx ;;
  Ok (inl (reminder, word, word_idx)).

Definition scan_out (r : N * N * N) : N * N * N := let '(rem, wi, word) := r in (rem, word, wi).

Lemma scan_loop c over_one bv : lenN (bv_words bv) < W ->
  forall after pre rem wi word n, bv_words bv = pre ++ after -> lenN pre = wi + 1 -> lenN after < n ->
  loopN n (scan_gstep c over_one bv) (rem, word, wi) = rmap scan_out (da_scan c (negb over_one) after rem wi word).
Proof.
  intros HW. induction after as [|x r IH]; intros pre rem wi word n Hw Hp Hn.
  - rewrite app_nil_r in Hw. subst pre. rewrite loopN_step by lia. unfold scan_gstep at 1. cbn [da_scan].
    destruct (rem <? popcN word); [reflexivity|].
    destruct (sub c rem (popcN word)) as [rem'|]; cbn [bind rmap]; [|reflexivity].
    rewrite add_ok by lia. cbn [bind rmap]. rewrite get_word_eq, <- Hp, idx_oob by lia. reflexivity.
  - rewrite lenN_cons in Hn. rewrite loopN_step by lia. unfold scan_gstep at 1. cbn [da_scan].
    destruct (rem <? popcN word); [reflexivity|].
    destruct (sub c rem (popcN word)) as [rem'|]; cbn [bind rmap]; [|reflexivity].
    assert (Hlt : lenN pre < lenN (bv_words bv)) by (rewrite Hw, lenN_app, lenN_cons; lia).
    rewrite add_ok by lia. cbn [bind rmap]. rewrite get_word_eq, <- Hp, Hw, idx_app_mid. cbn [bind].
    apply IH with (pre := pre ++ [x]); [now rewrite <- app_cons_assoc | now rewrite lenN_snoc | lia].
Qed.

Definition isize_list (l : list Z) : Prop := forall z, In z l -> (ISIZE_MIN <= z)%Z.

Lemma tie_darray_index_select : forall c d bv k,
  lenN (bv_words bv) < W -> isize_list (d_block_inv d) -> lenN (d_overflow d) < 2 ^ 63 ->
  darray_index_select c d bv k = da_select c d bv k.
Proof.
  intros c d bv k HW HZ HO. unfold darray_index_select, da_select. rewrite tie_darray_index_num_ones. inorm. iconsts.
  destruct (d_num_positions d <=? k); [reflexivity|].
  destruct (idx 0%Z (d_block_inv d) (k / 1024)) as [bp|] eqn:Ebp; inorm; [|reflexivity].
  apply idx_In, HZ in Ebp. unfold ISIZE_MIN in Ebp.
  destruct (Z.ltb_spec bp 0) as [Hneg|Hpos].
  - (* overflow block *)
    unfold isize_neg, isize_sub, isize_chk, isize_ok, ISIZE_MIN, ISIZE_MAX.
    destruct (Z.eq_dec bp (-9223372036854775808)) as [->|Hne].
    + (* isize::MIN: negation overflows; the model reads overflow_positions far out of range *)
      cbn [Z.opp Z.leb Z.compare Pos.compare Pos.compare_cont andb CompOpp]. 
      change (Z.to_N (- -9223372036854775808 - 1)) with 9223372036854775807.
      change (Z.to_N (9223372036854775808 - 1)) with 9223372036854775807.
      assert (Hoob : forall i r, add c 9223372036854775807 i = Ok r -> i < 1024 -> idx 0 (d_overflow d) r = Panic).
      { intros i r E Hi. rewrite add_ok in E by (unfold W; lia). injection E as <-. apply idx_oob.
        change (2 ^ 63) with 9223372036854775808 in HO. lia. }
      destruct (dbg c); inorm.
      * destruct (add c 9223372036854775807 (k mod 1024)) as [r|] eqn:E; inorm; [|reflexivity].
        rewrite (Hoob _ _ E) by lia. reflexivity.
      * match goal with |- bind ?m _ = _ =>
          replace m with (@Ok Z 9223372036854775807%Z) by (vm_compute; reflexivity) end.
        inorm. change (isize_as_usize 9223372036854775807) with 9223372036854775807. reflexivity.
    + replace ((-9223372036854775808 <=? - bp)%Z && (- bp <=? 9223372036854775807)%Z) with true by lia. inorm.
      replace ((-9223372036854775808 <=? - bp - 1)%Z && (- bp - 1 <=? 9223372036854775807)%Z) with true by lia. inorm.
      unfold isize_as_usize. destruct (Z.ltb_spec (- bp - 1) 0); [lia|]. reflexivity.
  - unfold isize_as_usize. destruct (Z.ltb_spec bp 0) as [|_]; [lia|].
    destruct (idx 0 (d_sub_inv d) (k / 32)) as [sb|]; inorm; [|reflexivity].
    destruct (add c (Z.to_N bp) sb) as [start_pos|]; inorm; [|reflexivity].
    destruct (k mod 32 =? 0); inorm; [reflexivity|].
    fold (get_word c (d_over_one d) bv (start_pos / 64)). rewrite get_word_eq.
    destruct (idx 0 (bv_words bv) (start_pos / 64)) as [w|] eqn:Ew; inorm; [|reflexivity].
    destruct (shl c MASK64 (start_pos mod 64)) as [m|]; inorm; [|reflexivity].
    rewrite (loopN_ext _ _ (scan_gstep c (d_over_one d) bv)) by (intros [[? ?] ?]; reflexivity).
    apply idx_Ok_lt in Ew. destruct (split_after (bv_words bv) (start_pos / 64) Ew) as [Hs Hl].
    rewrite (scan_loop c (d_over_one d) bv HW _ _ _ _ _ W Hs Hl)
      by (eapply N.le_lt_trans; [apply lenN_skipn_le | exact HW]).
    destruct (da_scan _ _ _ _ _ _) as [[[rem wi] word]|]; inorm; [|reflexivity]. cbn [scan_out].
    isteps.
Qed.

(* =============================================================================================
   DArray (darray.rs): constructors
   ============================================================================================= *)
(* the record-range facts about a bit vector used by the DArrayIndex::build tie *)
Definition bv_range (bv : bitvec) : Prop :=
  bv_len bv <= 2 ^ 63 /\ lenN (bv_words bv) < 2 ^ 56 /\ usize_list (bv_words bv).

Lemma tie_darray_from_bits_gen : forall c bits,
  (forall bv, BitVector.from_bits c bits = Ok bv -> bv_range bv) ->
  darray_from_bits c bits = da_from_bits c bits.
Proof.
  intros c bits H. unfold darray_from_bits, da_from_bits, da_new. rewrite tie_bit_vector_from_bits.
  destruct (from_bits c bits) as [bv|]; inorm; [|reflexivity].
  destruct (H bv eq_refl) as (H1 & H2 & H3). now rewrite tie_darray_index_new.
Qed.

Lemma from_bits_range c bits : lenN bits < 2 ^ 56 -> forall bv, BitVector.from_bits c bits = Ok bv -> bv_range bv.
Proof.
  intros Hb bv E. destruct (from_bits_spec c bits Hb) as (bv' & E' & Hwf & Hbits).
  rewrite E in E'. injection E' as <-.
  assert (Hl : bv_len bv = lenN bits) by (rewrite <- Hbits; symmetry; now apply bits_of_length).
  destruct Hwf as (Hw1 & Hw2 & _).
  change (2 ^ 56) with 72057594037927936 in *. change (2 ^ 63) with 9223372036854775808.
  repeat split; [lia | rewrite Hw1; lia |]. intros w Hw. rewrite Forall_forall in Hw2. now apply Hw2.
Qed.

Lemma tie_darray_from_bits : forall c bits, lenN bits < 2 ^ 56 -> darray_from_bits c bits = da_from_bits c bits.
Proof. intros c bits Hb. apply tie_darray_from_bits_gen. now apply from_bits_range. Qed.

Lemma tie_darray_enable_rank : forall c d, darray_enable_rank c d = da_enable_rank c d.
Proof. intros. unfold darray_enable_rank, da_enable_rank. rewrite tie_rank9_new. destruct (build_rank c (da_bv d)); reflexivity. Qed.

Lemma tie_darray_enable_select0 : forall c d, bv_range (da_bv d) ->
  darray_enable_select0 c d = da_enable_select0 c d.
Proof.
  intros c d (H1 & H2 & H3). unfold darray_enable_select0, da_enable_select0. rewrite tie_darray_index_new by assumption.
  destruct (da_build c (da_bv d) false); reflexivity.
Qed.

(* Build::build_from_bits(bits, with_rank, _, with_select0): the model's da_build_cfg takes the bit vector *)
Lemma tie_darray_build_from_bits : forall c bits wr w1 w0, lenN bits < 2 ^ 56 ->
  darray_build_from_bits c bits wr w1 w0 =
  (bv <- BitVector.from_bits c bits ;; x <- da_build_cfg c bv wr w0 ;; Ok (Some x)).
Proof.
  intros c bits wr w1 w0 Hb. unfold darray_build_from_bits, da_build_cfg.
  rewrite tie_darray_from_bits by exact Hb. unfold da_from_bits. rewrite !bind_assoc.
  destruct (from_bits c bits) as [bv|] eqn:E; inorm; [|reflexivity].
  pose proof (from_bits_range c bits Hb bv E) as Hr.
  unfold da_new at 1 2. destruct (da_build c bv true) as [s1|]; inorm; [|reflexivity].
  set (d0 := {| da_bv := bv; da_s1 := s1; da_s0 := None; da_r9 := None |}).
  assert (Hd : forall d, (if wr then da_enable_rank c d0 else Ok d0) = Ok d -> da_bv d = bv).
  { intros d. destruct wr; [|intros [= <-]; reflexivity]. unfold da_enable_rank.
    destruct (build_rank c (da_bv d0)); inorm; [|discriminate]. intros [= <-]. reflexivity. }
  destruct wr; [rewrite tie_darray_enable_rank, bind_ret|]; inorm.
  - destruct (da_enable_rank c d0) as [d1|] eqn:E1; inorm; [|reflexivity].
    destruct w0; [|reflexivity]. rewrite tie_darray_enable_select0, bind_ret by (rewrite (Hd d1 eq_refl); exact Hr).
    reflexivity.
  - destruct w0; [|reflexivity]. rewrite tie_darray_enable_select0, bind_ret by exact Hr. reflexivity.
Qed.

(* =============================================================================================
   all ties
   ============================================================================================= *)
Theorem loops_tie_idx_all :
  (* rank9sel/inner.rs *)
  (forall c bv, rank9_build_rank c bv = Rank9.build_rank c bv) /\
  (forall c r, rank9_build_select1 c r = Rank9.select1_hints c r) /\
  (forall c r, rank9_build_select0 c r = Rank9.select0_hints c r) /\
  (forall c bv, rank9_new c bv = Rank9.build_rank c bv) /\
  (forall c r, rank9_select1_hints c r = Rank9.select1_hints c r) /\
  (forall c r, rank9_select0_hints c r = Rank9.select0_hints c r) /\
  (forall c r bv k, lenN (r_brp r) < W -> usize_olist (r_h1 r) -> rank9_select1 c r bv k = Rank9.select1 c r bv k) /\
  (forall c r bv k, lenN (r_brp r) < W -> usize_olist (r_h0 r) -> rank9_select0 c r bv k = Rank9.select0 c r bv k) /\
  (* rank9sel.rs *)
  (forall c bv, rank9sel_new c bv = r9_new c bv) /\
  (forall c x, rank9sel_select1_hints c x = r9_select1_hints c x) /\
  (forall c x, rank9sel_select0_hints c x = r9_select0_hints c x) /\
  (forall c bits, rank9sel_from_bits c bits = (bv <- BitVector.from_bits c bits ;; r9_new c bv)) /\
  (forall c bits wr w1 w0, rank9sel_build_from_bits c bits wr w1 w0 =
     (bv <- BitVector.from_bits c bits ;; x <- r9_build c bv w1 w0 ;; Ok (Some x))) /\
  (forall c x, rank9sel_len c x = Ok (r9_num_bits x)) /\
  (forall c x, rank9sel_num_bits c x = Ok (r9_num_bits x)) /\
  (forall c x, rank9sel_num_ones c x = r9_num_ones c x) /\
  (forall c x pos, rank9sel_access c x pos = r9_access c x pos) /\
  (forall c x pos, rank9sel_rank1 c x pos = r9_rank1 c x pos) /\
  (forall c x pos, rank9sel_rank0 c x pos = r9_rank0 c x pos) /\
  (forall c x k, lenN (r_brp (r9_rs x)) < W -> usize_olist (r_h1 (r9_rs x)) ->
     rank9sel_select1 c x k = r9_select1 c x k) /\
  (forall c x k, lenN (r_brp (r9_rs x)) < W -> usize_olist (r_h0 (r9_rs x)) ->
     rank9sel_select0 c x k = r9_select0 c x k) /\
  (* darray/inner.rs *)
  (forall c bv i, darray_index_get_word_over_one c bv i = idx 0 (bv_words bv) i) /\
  (forall c bv i, darray_index_get_word_over_zero c bv i = (w <- idx 0 (bv_words bv) i ;; Ok (not64 w))) /\
  (forall c s, (forall p, hd_error (t_cur s) = Some p -> p < 2 ^ 63) -> lenN (t_ovf s) + 1 < 2 ^ 63 ->
     darray_index_flush_cur_block c (t_cur s) (t_binv s) (t_sinv s) (t_ovf s) = rmap da_tup4 (flush_cur_block c s)) /\
  (forall c bv over_one, bv_len bv <= 2 ^ 63 -> lenN (bv_words bv) < 2 ^ 56 -> usize_list (bv_words bv) ->
     darray_index_build c bv over_one = da_build c bv over_one) /\
  (forall c bv over_one, bv_len bv <= 2 ^ 63 -> lenN (bv_words bv) < 2 ^ 56 -> usize_list (bv_words bv) ->
     darray_index_new c bv over_one = da_build c bv over_one) /\
  (forall c d bv k, lenN (bv_words bv) < W -> isize_list (d_block_inv d) -> lenN (d_overflow d) < 2 ^ 63 ->
     darray_index_select c d bv k = da_select c d bv k) /\
  (* darray.rs *)
  (forall c bits, lenN bits < 2 ^ 56 -> darray_from_bits c bits = da_from_bits c bits) /\
  (forall c d, darray_enable_rank c d = da_enable_rank c d) /\
  (forall c d, bv_range (da_bv d) -> darray_enable_select0 c d = da_enable_select0 c d) /\
  (forall c bits wr w1 w0, lenN bits < 2 ^ 56 -> darray_build_from_bits c bits wr w1 w0 =
     (bv <- BitVector.from_bits c bits ;; x <- da_build_cfg c bv wr w0 ;; Ok (Some x))).
Proof.
  exact
  (conj tie_rank9_build_rank
  (conj tie_rank9_build_select1
  (conj tie_rank9_build_select0
  (conj tie_rank9_new
  (conj tie_rank9_select1_hints
  (conj tie_rank9_select0_hints
  (conj tie_rank9_select1
  (conj tie_rank9_select0
  (conj tie_rank9sel_new
  (conj tie_rank9sel_select1_hints
  (conj tie_rank9sel_select0_hints
  (conj tie_rank9sel_from_bits
  (conj tie_rank9sel_build_from_bits
  (conj tie_rank9sel_len
  (conj tie_rank9sel_num_bits
  (conj tie_rank9sel_num_ones
  (conj tie_rank9sel_access
  (conj tie_rank9sel_rank1
  (conj tie_rank9sel_rank0
  (conj tie_rank9sel_select1
  (conj tie_rank9sel_select0
  (conj tie_darray_index_get_word_over_one
  (conj tie_darray_index_get_word_over_zero
  (conj tie_darray_index_flush_cur_block
  (conj tie_darray_index_build
  (conj tie_darray_index_new
  (conj tie_darray_index_select
  (conj tie_darray_from_bits
  (conj tie_darray_enable_rank
  (conj tie_darray_enable_select0
  tie_darray_build_from_bits)))))))))))))))))))))))))))))).
Qed.

Print Assumptions loops_tie_idx_all.

(* non-vacuity of the side conditions, and the loops run inside the kernel: a 130-bit vector in a dev and a release
   configuration (three rank blocks' worth of padding, hints, the bisection, the dense-array build and scan) *)
Example loops_tie_idx_example :
  let bv := {| bv_words := [5; 0; 2]; bv_len := 130 |} in
  bv_range bv /\
  forall c, In c [ {| dbg := true; intr := false |}; {| dbg := false; intr := true |} ] ->
    exists r d,
      (r0 <- rank9_new c bv ;; r1 <- rank9_select1_hints c r0 ;; rank9_select0_hints c r1) = Ok r /\
      lenN (r_brp r) < W /\ usize_olist (r_h1 r) /\ usize_olist (r_h0 r) /\
      r_brp r = [0; 36099372325012995; 3; 0] /\ r_h1 r = Some [1] /\
      rank9_select1 c r bv 2 = Ok (Some 129) /\ rank9_select0 c r bv 126 = Ok (Some 128) /\
      rank9_select1 c r bv 3 = Ok None /\
      darray_index_new c bv true = Ok d /\
      isize_list (d_block_inv d) /\ lenN (d_overflow d) < 2 ^ 63 /\
      d_block_inv d = [0%Z] /\ d_sub_inv d = [0] /\ d_num_positions d = 3 /\
      darray_index_select c d bv 2 = Ok (Some 129) /\ darray_index_select c d bv 3 = Ok None.
Proof.
  cbv zeta. split.
  - split; [vm_compute; discriminate|]. split; [reflexivity|].
    intros w [<-|[<-|[<-|[]]]]; reflexivity.
  - intros c [<-|[<-|[]]]; eexists; eexists;
      (split; [vm_compute; reflexivity|]); (split; [reflexivity|]);
      (split; [intros x [<-|[]]; reflexivity|]); (split; [intros x [<-|[]]; reflexivity|]);
      (split; [reflexivity|]); (split; [reflexivity|]);
      (split; [vm_compute; reflexivity|]); (split; [vm_compute; reflexivity|]); (split; [vm_compute; reflexivity|]);
      (split; [vm_compute; reflexivity|]);
      (split; [intros z [<-|[]]; vm_compute; discriminate|]); (split; [reflexivity|]);
      repeat split; vm_compute; reflexivity.
Qed.
