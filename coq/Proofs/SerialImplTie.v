(* Proofs/SerialImplTie.v — the tie between the REGENERATED generic `impl Serializable` blocks
   (gen/SerialImplGen.v: the ten integer primitives of `common_def!`, `bool`, `Option<S>`, `Vec<S>`, translated from
   src/serial/primitive.rs and src/serial.rs on every run; vocabulary Base/SerialDict.v) and the hand-written
   type-directed codec of Spec/FormatSpec.v that properties C08 / C13 are stated against.

   `dict_of io c t` interprets a `ty` by structural recursion with the generated dictionaries (TU8 -> `u8_dict`,
   TU16 -> `u16_dict`, TU64 -> `usize_dict`, TI64 -> `isize_dict`, TBool -> `bool_dict`, TVec t -> `vec_dict (dict_of t)`,
   TOpt t -> `option_dict (dict_of t)`, TStruct fs -> the field-wise glue `struct_dict`, which mirrors the hand-written
   struct impls that gen/SerialGen.v + Proofs/SerialImpls.v cover by reflection).  For every `t`, every build
   configuration `c`, every well-formed `v` whose serialized size fits a usize (`size t v < W`: then no `mem +=`
   overflows) and

     * every writer (abstract state + fallible write_all): the generated serialize_into performs exactly the
       write_all calls `ser_chunks t v` in order, is Err iff one of them fails, and returns `size t v`   (tie_ser)
         - a Vec<u8>: appends `ser t v`, returns `size t v`                                             (tie_ser_mem)
         - a writer with a byte budget: Err iff the budget is below `size t v`                          (tie_ser_budget)
         - the std `write_all` loop under every schedule of short / interrupted writes (SerialIO.v)     (tie_ser_sched)
     * generated size_in_bytes = `size t v`, generated size_of = `fixed_size t`                   (tie_size, tie_size_of)
     * every reader whose read_exact delivers exactly the next k bytes of its remaining data or fails, and EVERY
       input: generated deserialize_from agrees with `deser t` (same value, same remaining data, Err iff None, never
       a panic), under `vec_ok t`                                                                   (tie_deser_agrees)
         - a slice: generated deserialize_from bs = Ok (deser t bs), for every byte list bs        (tie_deser, tie_deser_mem)
         - the std `read_exact` loop under every schedule of short / interrupted reads (SerialIO.v)     (tie_deser_sched)
       `vec_ok t` (every Vec element type occupies at least one byte) is what makes the fuel of FormatSpec's Vec loop
       sufficient: the Rust loop `for _ in 0..len` runs `len` rounds or fails earlier; every successful round
       consumes at least one byte (`deser_consumes`), so `length + 1` rounds are never exceeded (`vec_loop_ok`).
     * per primitive: `tie_u8 .. tie_isize` (all ten `common_def!` instances: one write_all of the k little-endian
       bytes / one read_exact of k bytes, size k, size_of Some k), `tie_bool`.

   Corollaries on the regenerated code: `gen_roundtrip`, `gen_prefix_err`.  With these theorems the textual pattern
   facts `fact_*` of gen/SerialGen.v (C08_generic_facts_ok) are redundant. *)
From Sucds Require Import Base.Res Base.Loops Spec.FormatSpec Base.SerialDict gen.SerialImplGen.
From Sucds Require Import Proofs.ResLemmas Proofs.SerialGeneric Proofs.SerialIO.
From Coq Require Import ZArith ZifyN ZifyBool ZifyNat Lia.
Ltac Zify.zify_post_hook ::= Z.div_mod_to_equations.
Open Scope N_scope.

(* ------------------------------------------------------------------------------------------ *)
(* wrappers: a dictionary over a carrier as a dictionary over `val`                             *)
(* ------------------------------------------------------------------------------------------ *)
Definition as_num (v : val) : option N := match v with VNum n => Some n | _ => None end.
Definition as_int (v : val) : option Z := match v with VInt z => Some z | _ => None end.
Definition as_bool (v : val) : option bool := match v with VBool b => Some b | _ => None end.
Definition as_vec (v : val) : option (list val) := match v with VVec l => Some l | _ => None end.
Definition as_opt (v : val) : option (option val) := match v with VOpt o => Some o | _ => None end.
Definition as_struct (v : val) : option (list val) := match v with VStruct l => Some l | _ => None end.

Section Dict.
  Context {Wr Rd : Type} (io : io_ops Wr Rd) (c : cfg).

  (* a value of the wrong shape has no Rust counterpart: Panic *)
  Definition wrap {A} (proj : val -> option A) (inj : A -> val) (d : serdict Wr Rd A) : serdict Wr Rd val :=
    {| sd_ser := fun v w => match proj v with Some a => sd_ser d a w | None => Panic end;
       sd_deser := fun r => '(a, r') <-? sd_deser d r ;; ok (inj a, r');
       sd_size := fun v => match proj v with Some a => sd_size d a | None => Panic end;
       sd_size_of := sd_size_of d |}.

  (* the shape of the hand-written struct impls (gen/SerialGen.v: d_ser = d_deser = declaration order):
       let mut mem = self.f0.serialize_into(&mut writer)?; mem += self.f1.serialize_into(&mut writer)?; .. Ok(mem)
       let f0 = T0::deserialize_from(&mut reader)?; let f1 = ..; Ok(Self { f0, f1, .. })
       self.f0.size_in_bytes() + self.f1.size_in_bytes() + ..          and no size_of override *)
  Fixpoint struct_ser (ds : list (serdict Wr Rd val)) (l : list val) (w : Wr) (mem : N) : rio (Wr * N) :=
    match ds, l with
    | [], [] => ok (w, mem)
    | d :: ds', x :: l' =>
        '(w', t) <-? sd_ser d x w ;;
        mem' <- add c mem t ;;
        struct_ser ds' l' w' mem'
    | _, _ => Panic
    end.
  Fixpoint struct_deser (ds : list (serdict Wr Rd val)) (r : Rd) : rio (list val * Rd) :=
    match ds with
    | [] => ok ([], r)
    | d :: ds' =>
        '(v, r1) <-? sd_deser d r ;;
        '(vs, r2) <-? struct_deser ds' r1 ;;
        ok (v :: vs, r2)
    end.
  Fixpoint struct_size (ds : list (serdict Wr Rd val)) (l : list val) : res N :=
    match ds, l with
    | [], [] => Ok 0
    | d :: ds', x :: l' => a <- sd_size d x ;; b <- struct_size ds' l' ;; add c a b
    | _, _ => Panic
    end.
  Definition struct_dict (ds : list (serdict Wr Rd val)) : serdict Wr Rd val :=
    {| sd_ser := fun v w => match v with VStruct l => struct_ser ds l w 0 | _ => Panic end;
       sd_deser := fun r => '(vs, r') <-? struct_deser ds r ;; ok (VStruct vs, r');
       sd_size := fun v => match v with VStruct l => struct_size ds l | _ => Panic end;
       sd_size_of := Ok None |}.

  (* the interpretation of a type by the GENERATED dictionaries *)
  Fixpoint dict_of (t : ty) {struct t} : serdict Wr Rd val :=
    match t with
    | TU8 => wrap as_num VNum (u8_dict io c)
    | TU16 => wrap as_num VNum (u16_dict io c)
    | TU64 => wrap as_num VNum (usize_dict io c)
    | TI64 => wrap as_int VInt (isize_dict io c)
    | TBool => wrap as_bool VBool (bool_dict io c)
    | TVec t' => wrap as_vec VVec (vec_dict io c (dict_of t'))
    | TOpt t' => wrap as_opt VOpt (option_dict io c (dict_of t'))
    | TStruct fs =>
        struct_dict ((fix go (fs : list ty) : list (serdict Wr Rd val) :=
                        match fs with [] => [] | f :: fs' => dict_of f :: go fs' end) fs)
    end.
  Fixpoint dicts_of (fs : list ty) : list (serdict Wr Rd val) :=
    match fs with [] => [] | f :: fs' => dict_of f :: dicts_of fs' end.
  Lemma dict_of_struct fs : dict_of (TStruct fs) = struct_dict (dicts_of fs).
  Proof. reflexivity. Qed.

  (* ---------------------------------------------------------------------------------------- *)
  (* the primitives: every dictionary generated from `common_def!` and the one of `bool`        *)
  (* ---------------------------------------------------------------------------------------- *)
  (* one write_all of `bs`, then `Ok(n)` *)
  Definition wr1 (w : Wr) (bs : list N) (n : N) : rio (Wr * N) :=
    match io_write_all io w bs with Some w' => ok (w', n) | None => err end.
  (* one read_exact of k bytes, decoded by f *)
  Definition rd1 {A} (r : Rd) (k : N) (f : list N -> A) : rio (A * Rd) :=
    match io_read_exact io r k with Some (bs, r') => ok (f bs, r') | None => err end.

  Definition uint_spec (k : N) (d : serdict Wr Rd N) : Prop :=
    (forall x w, sd_ser d x w = wr1 w (le_bytes (N.to_nat k) x) k) /\
    (forall r, sd_deser d r = rd1 r k le_val) /\
    (forall x, sd_size d x = Ok k) /\
    sd_size_of d = Ok (Some k).
  Definition sint_spec (k : N) (d : serdict Wr Rd Z) : Prop :=
    (forall x w, sd_ser d x w = wr1 w (le_bytes (N.to_nat k) (Z.to_N (x mod 2 ^ (8 * Z.of_N k))%Z)) k) /\
    (forall r, sd_deser d r = rd1 r k (sint_of_le k)) /\
    (forall x, sd_size d x = Ok k) /\
    sd_size_of d = Ok (Some k).

  Ltac prim_tac := unfold uint_spec, sint_spec; repeat split; intros; reflexivity.
  Lemma tie_u8 : uint_spec 1 (u8_dict io c). Proof. prim_tac. Qed.
  Lemma tie_u16 : uint_spec 2 (u16_dict io c). Proof. prim_tac. Qed.
  Lemma tie_u32 : uint_spec 4 (u32_dict io c). Proof. prim_tac. Qed.
  Lemma tie_u64 : uint_spec 8 (u64_dict io c). Proof. prim_tac. Qed.
  Lemma tie_usize : uint_spec 8 (usize_dict io c). Proof. prim_tac. Qed.
  Lemma tie_i8 : sint_spec 1 (i8_dict io c). Proof. prim_tac. Qed.
  Lemma tie_i16 : sint_spec 2 (i16_dict io c). Proof. prim_tac. Qed.
  Lemma tie_i32 : sint_spec 4 (i32_dict io c). Proof. prim_tac. Qed.
  Lemma tie_i64 : sint_spec 8 (i64_dict io c). Proof. prim_tac. Qed.
  Lemma tie_isize : sint_spec 8 (isize_dict io c). Proof. prim_tac. Qed.

  (* bool: one byte, 1 / 0; any non-zero byte reads as true *)
  Lemma tie_bool :
    (forall b w, sd_ser (bool_dict io c) b w = wr1 w [b2n b] 1) /\
    (forall r, sd_deser (bool_dict io c) r = rd1 r 1 (fun bs => negb (le_val bs =? 0))) /\
    (forall b, sd_size (bool_dict io c) b = Ok 1) /\
    sd_size_of (bool_dict io c) = Ok (Some 1).
  Proof.
    repeat split; intros; try reflexivity.
    - destruct b; reflexivity.
    - cbn [sd_deser bool_dict]. unfold bool_deserialize_from.
      change (u8_deserialize_from io c r) with (sd_deser (u8_dict io c) r).
      rewrite (proj1 (proj2 tie_u8)). unfold rd1.
      destruct (io_read_exact io r 1) as [[bs r']|]; reflexivity.
  Qed.

  (* ---------------------------------------------------------------------------------------- *)
  (* size_of                                                                                    *)
  (* ---------------------------------------------------------------------------------------- *)
  Theorem tie_size_of : forall t, sd_size_of (dict_of t) = Ok (fixed_size t).
  Proof. destruct t; reflexivity. Qed.

  (* ---------------------------------------------------------------------------------------- *)
  (* sums of element sizes                                                                      *)
  (* ---------------------------------------------------------------------------------------- *)
  Definition sum_sizes (t : ty) (l : list val) : N := fold_left (fun acc x => acc + size t x) l 0.

  Lemma sum_sizes_nil t : sum_sizes t [] = 0.
  Proof. reflexivity. Qed.
  Lemma sum_sizes_cons t x l : sum_sizes t (x :: l) = size t x + sum_sizes t l.
  Proof. unfold sum_sizes. cbn [fold_left]. rewrite fold_left_size_acc. lia. Qed.

  Lemma fixed_size_any' t m v : fixed_size t = Some m -> size t v = m.
  Proof. destruct t; intro H; try discriminate H; injection H as <-; reflexivity. Qed.

  Lemma sum_sizes_fixed t m l : fixed_size t = Some m -> sum_sizes t l = m * lenN l.
  Proof.
    intro Hf. induction l as [|x l IH].
    - rewrite sum_sizes_nil, (@lenN_nil val). lia.
    - rewrite sum_sizes_cons, lenN_cons, IH, (fixed_size_any' t m x Hf). lia.
  Qed.

  Lemma size_vec_sum t l : size (TVec t) (VVec l) = 8 + sum_sizes t l.
  Proof.
    rewrite size_vec. destruct (fixed_size t) as [m|] eqn:Ef; [|reflexivity].
    now rewrite (sum_sizes_fixed t m l Ef).
  Qed.

  (* ---------------------------------------------------------------------------------------- *)
  (* size_in_bytes                                                                              *)
  (* ---------------------------------------------------------------------------------------- *)
  Lemma fold_size_ok (d : serdict Wr Rd val) t :
    (forall x, wf_val t x = true -> size t x < W -> sd_size d x = Ok (size t x)) ->
    forall l acc, forallb (wf_val t) l = true -> acc + sum_sizes t l < W ->
    fold_res (fun acc x => t4 <- sd_size d x ;; add c acc t4) l acc = Ok (acc + sum_sizes t l).
  Proof.
    intros Hd. induction l as [|x l IH]; intros acc Hw Hb.
    - cbn [fold_res]. rewrite sum_sizes_nil. f_equal. lia.
    - cbn [forallb] in Hw. apply andb_true_iff in Hw. destruct Hw as [Hx Hl].
      rewrite sum_sizes_cons in *. cbn [fold_res].
      rewrite Hd by (try exact Hx; lia). cbn [bind]. rewrite add_ok by lia. cbn [bind].
      rewrite IH by (try exact Hl; lia). f_equal. lia.
  Qed.

  Lemma struct_size_ok fs :
    Forall (fun t => forall v, wf_val t v = true -> size t v < W -> sd_size (dict_of t) v = Ok (size t v)) fs ->
    forall l, wf_fields fs l = true -> size_fields fs l < W ->
    struct_size (dicts_of fs) l = Ok (size_fields fs l).
  Proof.
    induction 1 as [|f fs Hf _ IHfs]; intros l Hw Hb; destruct l as [|x l];
      cbn [wf_fields] in Hw; try discriminate Hw; cbn [dicts_of struct_size size_fields] in *.
    - reflexivity.
    - apply andb_true_iff in Hw. destruct Hw as [Hx Hl].
      rewrite Hf by (try exact Hx; lia). cbn [bind].
      rewrite IHfs by (try exact Hl; lia). cbn [bind]. now rewrite add_ok by lia.
  Qed.

  Theorem tie_size : forall t v,
    wf_val t v = true -> size t v < W -> sd_size (dict_of t) v = Ok (size t v).
  Proof.
    induction t as [ | | | | | t' IH | t' IH | fs IH] using ty_ind'; intros v Hw Hb;
      destruct v as [n|z|b|l|o|l]; try discriminate Hw; try reflexivity.
    - (* Vec *)
      rewrite wf_vec in Hw. apply andb_true_iff in Hw. destruct Hw as [_ Hl].
      pose proof (size_vec_sum t' l) as Es. rewrite Es in Hb.
      cbn [dict_of wrap sd_size as_vec vec_dict]. unfold vec_size_in_bytes.
      rewrite tie_size_of. cbn [bind]. rewrite size_vec.
      destruct (fixed_size t') as [m|] eqn:Ef.
      + rewrite (sum_sizes_fixed t' m l Ef) in Hb.
        unfold usize_size_of, unwrap. cbn [bind].
        rewrite mul_ok by lia. cbn [bind]. now rewrite add_ok by lia.
      + unfold usize_size_of, unwrap. cbn [bind].
        rewrite (fold_size_ok (dict_of t') t' IH l 0 Hl) by lia. cbn [bind].
        rewrite add_ok by lia. reflexivity.
    - (* Option *)
      cbn [dict_of wrap sd_size as_opt option_dict]. unfold option_size_in_bytes, bool_size_of, unwrap.
      destruct o as [x|]; cbn [wf_val size] in *.
      + rewrite IH by (try exact Hw; lia). cbn [bind]. now rewrite add_ok by lia.
      + cbn [bind]. now rewrite add_ok by lia.
    - (* struct *)
      rewrite wf_struct in Hw. rewrite size_struct in *. rewrite dict_of_struct.
      cbn [struct_dict sd_size]. now apply struct_size_ok.
  Qed.

  (* ---------------------------------------------------------------------------------------- *)
  (* serialize_into, on any writer                                                              *)
  (* ---------------------------------------------------------------------------------------- *)
  (* the write_all calls of a list of chunks; the first failure aborts *)
  Fixpoint wr_chunks (w : Wr) (cs : list (list N)) : option Wr :=
    match cs with
    | [] => Some w
    | ch :: cs' => match io_write_all io w ch with Some w' => wr_chunks w' cs' | None => None end
    end.
  Definition ser_result (w : Wr) (cs : list (list N)) (n : N) : rio (Wr * N) :=
    match wr_chunks w cs with Some w' => ok (w', n) | None => err end.

  Lemma wr_chunks_app w a b :
    wr_chunks w (a ++ b) = match wr_chunks w a with Some w' => wr_chunks w' b | None => None end.
  Proof.
    revert w. induction a as [|ch a IH]; intro w; cbn [app wr_chunks]; [reflexivity|].
    destruct (io_write_all io w ch) as [w'|]; [apply IH | reflexivity].
  Qed.

  Lemma wr1_result w bs n : wr1 w bs n = ser_result w [bs] n.
  Proof. unfold wr1, ser_result. cbn [wr_chunks]. destruct (io_write_all io w bs); reflexivity. Qed.

  Definition ser_ok (t : ty) : Prop := forall v w,
    wf_val t v = true -> size t v < W ->
    sd_ser (dict_of t) v w = ser_result w (ser_chunks t v) (size t v).

  (* `for x in self { mem += x.serialize_into(&mut writer)?; }` *)
  Definition ser_step (d : serdict Wr Rd val) : Wr * N -> val -> rio (Wr * N) :=
    fun '(writer, mem) x =>
      '(writer, t2) <-? sd_ser d x writer ;;
      mem <- add c mem t2 ;;
      ok (writer, mem).

  Lemma fold_ser_ok t : ser_ok t ->
    forall l w mem, forallb (wf_val t) l = true -> mem + sum_sizes t l < W ->
    fold_rio (ser_step (dict_of t)) l (w, mem)
    = ser_result w (flat_map (ser_chunks t) l) (mem + sum_sizes t l).
  Proof.
    intros Hd. induction l as [|x l IH]; intros w mem Hw Hb.
    - cbn [fold_rio flat_map]. unfold ser_result. cbn [wr_chunks]. rewrite sum_sizes_nil.
      unfold ok. do 3 f_equal. lia.
    - cbn [forallb] in Hw. apply andb_true_iff in Hw. destruct Hw as [Hx Hl].
      rewrite sum_sizes_cons in *. cbn [fold_rio flat_map]. unfold ser_step at 1.
      rewrite Hd by (try exact Hx; lia). unfold ser_result at 1 2. rewrite wr_chunks_app.
      destruct (wr_chunks w (ser_chunks t x)) as [w'|]; [|reflexivity].
      cbn [rbind ok]. rewrite add_ok by lia. cbn [bind rbind ok].
      rewrite IH by (try exact Hl; lia). unfold ser_result.
      destruct (wr_chunks w' (flat_map (ser_chunks t) l)); [|reflexivity].
      unfold ok. do 3 f_equal. lia.
  Qed.

  Lemma struct_ser_ok fs : Forall ser_ok fs ->
    forall l w mem, wf_fields fs l = true -> mem + size_fields fs l < W ->
    struct_ser (dicts_of fs) l w mem = ser_result w (chunks_fields fs l) (mem + size_fields fs l).
  Proof.
    induction 1 as [|f fs Hf _ IHfs]; intros l w mem Hw Hb; destruct l as [|x l];
      cbn [wf_fields] in Hw; try discriminate Hw;
      cbn [dicts_of struct_ser size_fields chunks_fields] in *.
    - unfold ser_result. cbn [wr_chunks]. unfold ok. do 3 f_equal. lia.
    - apply andb_true_iff in Hw. destruct Hw as [Hx Hl].
      rewrite Hf by (try exact Hx; lia). unfold ser_result at 1 2. rewrite wr_chunks_app.
      destruct (wr_chunks w (ser_chunks f x)) as [w'|]; [|reflexivity].
      cbn [rbind ok]. rewrite add_ok by lia. cbn [bind].
      rewrite IHfs by (try exact Hl; lia). unfold ser_result.
      destruct (wr_chunks w' (chunks_fields fs l)); [|reflexivity].
      unfold ok. do 3 f_equal. lia.
  Qed.

  Theorem tie_ser : forall t, ser_ok t.
  Proof.
    induction t as [ | | | | | t' IH | t' IH | fs IH] using ty_ind'; intros v w Hw Hb;
      destruct v as [n|z|b|l|o|l]; try discriminate Hw.
    - apply (wr1_result w (le_bytes 1 n) 1).
    - apply (wr1_result w (le_bytes 2 n) 2).
    - apply (wr1_result w (le_bytes 8 n) 8).
    - apply (wr1_result w (le_bytes 8 (i64_to_n z)) 8).
    - cbn [dict_of wrap sd_ser as_bool]. rewrite (proj1 tie_bool). apply wr1_result.
    - (* Vec *)
      rewrite wf_vec in Hw. apply andb_true_iff in Hw. destruct Hw as [_ Hl].
      rewrite size_vec_sum in *.
      cbn [dict_of wrap sd_ser as_vec vec_dict ser_chunks]. fold (ser_chunks t'). unfold vec_serialize_into.
      change (usize_serialize_into io c (lenN l) w) with (sd_ser (usize_dict io c) (lenN l) w).
      rewrite (proj1 tie_usize). unfold wr1, ser_result. cbn [wr_chunks]. change (N.to_nat 8) with 8%nat.
      destruct (io_write_all io w (le_bytes 8 (lenN l))) as [w1|]; [|reflexivity].
      cbn [rbind ok].
      change (fold_rio _ l (w1, 8)) with (fold_rio (ser_step (dict_of t')) l (w1, 8)).
      rewrite (fold_ser_ok t' IH l w1 8 Hl Hb). unfold ser_result.
      destruct (wr_chunks w1 (flat_map (ser_chunks t') l)); reflexivity.
    - (* Option *)
      cbn [dict_of wrap sd_ser as_opt option_dict]. unfold option_serialize_into.
      destruct o as [x|]; cbn [wf_val size ser_chunks] in *.
      + change (bool_serialize_into io c true w) with (sd_ser (bool_dict io c) true w).
        rewrite (proj1 tie_bool). unfold wr1, ser_result. cbn [wr_chunks b2n].
        destruct (io_write_all io w [1]) as [w1|]; [|reflexivity].
        cbn [rbind ok]. rewrite add_ok by (unfold W; lia). cbn [bind].
        rewrite IH by (try exact Hw; lia). unfold ser_result.
        destruct (wr_chunks w1 (ser_chunks t' x)) as [w2|]; [|reflexivity].
        cbn [rbind ok]. rewrite add_ok by lia. cbn [bind rbind ok].
        unfold ok. do 3 f_equal. lia.
      + change (bool_serialize_into io c false w) with (sd_ser (bool_dict io c) false w).
        rewrite (proj1 tie_bool). unfold wr1, ser_result. cbn [wr_chunks b2n].
        destruct (io_write_all io w [0]) as [w1|]; [|reflexivity].
        cbn [rbind ok]. rewrite add_ok by (unfold W; lia). cbn [bind rbind ok]. reflexivity.
    - (* struct *)
      rewrite wf_struct in Hw. rewrite size_struct in *. rewrite dict_of_struct, ser_chunks_struct.
      cbn [struct_dict sd_ser]. rewrite (struct_ser_ok fs IH l w 0 Hw) by lia.
      unfold ser_result. destruct (wr_chunks w (chunks_fields fs l)); [|reflexivity].
      unfold ok. do 3 f_equal.
  Qed.
End Dict.

(* ------------------------------------------------------------------------------------------ *)
(* two concrete writers                                                                          *)
(* ------------------------------------------------------------------------------------------ *)
(* a Vec<u8>: the bytes of `ser` are appended, the returned count is `size` *)
Lemma wr_chunks_mem cs : forall w, wr_chunks mem_io w cs = Some (w ++ concat cs).
Proof.
  induction cs as [|ch cs IH]; intro w; cbn [wr_chunks concat mem_io io_write_all].
  - now rewrite app_nil_r.
  - rewrite IH, <- app_assoc. reflexivity.
Qed.

Theorem tie_ser_mem c t v w :
  wf_val t v = true -> size t v < W ->
  sd_ser (dict_of mem_io c t) v w = ok (w ++ ser t v, size t v).
Proof.
  intros Hw Hb. rewrite (tie_ser mem_io c t v w Hw Hb). unfold ser_result.
  now rewrite wr_chunks_mem, ser_chunks_concat.
Qed.

(* a writer that fails once `budget` bytes have been accepted: Err iff the budget is below size_in_bytes *)
Lemma wr_chunks_budget cs : forall w b,
  wr_chunks budget_io (w, b) cs =
  if lenN (concat cs) <=? b then Some (w ++ concat cs, b - lenN (concat cs)) else None.
Proof.
  induction cs as [|ch cs IH]; intros w b; cbn [wr_chunks concat budget_io io_write_all fst snd].
  - change (lenN (@nil N)) with 0. destruct (N.leb_spec 0 b) as [_|H]; [|lia].
    now rewrite app_nil_r, N.sub_0_r.
  - rewrite lenN_app. destruct (N.leb_spec (lenN ch) b) as [Hc|Hc].
    + rewrite IH.
      destruct (N.leb_spec (lenN (concat cs)) (b - lenN ch)) as [H1|H1];
        destruct (N.leb_spec (lenN ch + lenN (concat cs)) b) as [H2|H2]; try lia; [|reflexivity].
      rewrite <- app_assoc. do 2 f_equal. lia.
    + destruct (N.leb_spec (lenN ch + lenN (concat cs)) b) as [H2|H2]; [lia | reflexivity].
Qed.

Theorem tie_ser_budget c t v written budget :
  wf_val t v = true -> size t v < W ->
  sd_ser (dict_of budget_io c t) v (written, budget) =
  if size t v <=? budget then ok ((written ++ ser t v, budget - size t v), size t v) else err.
Proof.
  intros Hw Hb. rewrite (tie_ser budget_io c t v (written, budget) Hw Hb). unfold ser_result.
  rewrite wr_chunks_budget, ser_chunks_concat, ser_length by exact Hw.
  destruct (size t v <=? budget); reflexivity.
Qed.

(* ------------------------------------------------------------------------------------------ *)
(* how many bytes `deser` consumes                                                               *)
(* ------------------------------------------------------------------------------------------ *)
Lemma read_le_len k bs n r : read_le k bs = Some (n, r) -> length bs = (k + length r)%nat.
Proof.
  unfold read_le. cbv zeta. destruct (Nat.eqb_spec (length (firstn k bs)) k) as [E|E]; [|discriminate].
  intro H. injection H as _ <-. rewrite firstn_length in E. rewrite skipn_length. lia.
Qed.

Lemma deser_loop_le t' :
  (forall bs v r, deser t' bs = Some (v, r) -> (length r <= length bs)%nat) ->
  forall fuel cnt bs acc v r,
    deser_loop t' fuel cnt bs acc = Some (v, r) -> (length r <= length bs)%nat.
Proof.
  intro H. induction fuel as [|fuel IH]; intros cnt bs acc v r E; rewrite deser_loop_eq in E;
    destruct (cnt =? 0); try (injection E as _ <-; lia); try discriminate E.
  destruct (deser t' bs) as [[x bs']|] eqn:Ed; [|discriminate E].
  apply IH in E. apply H in Ed. lia.
Qed.

Lemma deser_list_consumes fs :
  Forall (fun t => forall bs v r, deser t bs = Some (v, r) -> lenN r + min_size t <= lenN bs) fs ->
  forall bs vs r, deser_list fs bs = Some (vs, r) ->
    lenN r + fold_right (fun f acc => min_size f + acc) 0 fs <= lenN bs.
Proof.
  induction 1 as [|f fs Hf _ IHfs]; intros bs vs r E; cbn [deser_list fold_right] in *.
  - injection E as _ <-. lia.
  - destruct (deser f bs) as [[v bs']|] eqn:Ed; [|discriminate E].
    destruct (deser_list fs bs') as [[vs' r']|] eqn:El; [|discriminate E].
    injection E as _ <-. apply Hf in Ed. apply IHfs in El. lia.
Qed.

(* a successful `deser t` consumes at least `min_size t` bytes *)
Theorem deser_consumes : forall t bs v r,
  deser t bs = Some (v, r) -> lenN r + min_size t <= lenN bs.
Proof.
  induction t as [ | | | | | t' IH | t' IH | fs IH] using ty_ind'; intros bs v r E.
  1-5: cbn [deser] in E;
       match type of E with context [read_le ?k ?b] =>
         destruct (read_le k b) as [[n r0]|] eqn:Er; [|discriminate E];
         injection E as _ <-; apply read_le_len in Er; cbn [min_size]; unfold lenN; lia end.
  - rewrite deser_vec in E. destruct (read_le 8 bs) as [[n r0]|] eqn:Er; [|discriminate E].
    apply read_le_len in Er. apply deser_loop_le in E.
    + cbn [min_size]. unfold lenN. lia.
    + intros bs' v' r' E'. apply IH in E'. unfold lenN in E'. lia.
  - rewrite deser_opt in E. destruct (read_le 1 bs) as [[n r0]|] eqn:Er; [|discriminate E].
    apply read_le_len in Er. cbn [min_size]. destruct (n =? 0).
    + injection E as _ <-. unfold lenN. lia.
    + destruct (deser t' r0) as [[x r1]|] eqn:Ed; [|discriminate E]. injection E as _ <-.
      apply IH in Ed. unfold lenN in *. lia.
  - rewrite deser_struct_list in E. destruct (deser_list fs bs) as [[vs r']|] eqn:El; [|discriminate E].
    injection E as _ <-. cbn [min_size]. eapply deser_list_consumes; eassumption.
Qed.

(* ------------------------------------------------------------------------------------------ *)
(* deserialize_from, on any reader that behaves like a byte stream                               *)
(* ------------------------------------------------------------------------------------------ *)
Lemma read_le_slice k d :
  read_le k d =
  match slice_read_exact d (N.of_nat k) with Some (bs, d') => Some (le_val bs, d') | None => None end.
Proof.
  unfold read_le, slice_read_exact. cbv zeta. rewrite Nat2N.id. unfold lenN.
  destruct (Nat.eqb_spec (length (firstn k d)) k) as [E|E].
  - rewrite E, N.eqb_refl. reflexivity.
  - destruct (N.eqb_spec (N.of_nat (length (firstn k d))) (N.of_nat k)) as [E'|_]; [lia | reflexivity].
Qed.

Section Deser.
  (* `data r` = the bytes the reader state r will still deliver; read_exact of k bytes takes exactly the next k
     bytes or fails when fewer remain (this is what Proofs/SerialIO.v proves of the std loop over every schedule
     of short and interrupted reads: `read_exact_sched`) *)
  Context {Wr Rd : Type} (io : io_ops Wr Rd) (c : cfg) (data : Rd -> list N).
  Context (Hrd : forall r k,
             match io_read_exact io r k with
             | Some (bs, r') => slice_read_exact (data r) k = Some (bs, data r')
             | None => slice_read_exact (data r) k = None
             end).

  (* same value, same remaining bytes; Err iff Err; never a panic *)
  Definition agrees_d {A} (m : rio (A * Rd)) (o : option (A * list N)) : Prop :=
    match m, o with
    | Ok (Some (a, r')), Some (a', d') => a = a' /\ data r' = d'
    | Ok None, None => True
    | _, _ => False
    end.

  Lemma rd1_agrees {A} (f : list N -> A) (g : N -> A) (k : nat) r :
    (forall bs, f bs = g (le_val bs)) ->
    agrees_d (rd1 io r (N.of_nat k) f)
             (match read_le k (data r) with Some (n, d') => Some (g n, d') | None => None end).
  Proof.
    intro Hf. unfold rd1. rewrite read_le_slice. pose proof (Hrd r (N.of_nat k)) as H.
    destruct (io_read_exact io r (N.of_nat k)) as [[bs r']|]; rewrite H; cbn [agrees_d ok err].
    - now rewrite Hf.
    - exact I.
  Qed.

  (* the value wrappers preserve agreement *)
  Lemma agrees_map {A B} (inj : A -> B) (m : rio (A * Rd)) (o : option (A * list N)) :
    agrees_d m o ->
    agrees_d ('(a, r') <-? m ;; ok (inj a, r'))
             (match o with Some (a, d') => Some (inj a, d') | None => None end).
  Proof.
    destruct m as [[[a r']|]|]; destruct o as [[a' d']|]; cbn [agrees_d rbind ok]; try tauto.
    intros [-> ->]. now split.
  Qed.

  Definition deser_ok (t : ty) : Prop :=
    forall r, agrees_d (sd_deser (dict_of io c t) r) (deser t (data r)).

  (* `for _ in 0..len { vec.push(S::deserialize_from(&mut reader)?); }` *)
  Definition deser_step (d : serdict Wr Rd val) : Rd * list val -> N -> rio (Rd * list val) :=
    fun '(reader, vec) _ =>
      '(t2, reader) <-? sd_deser d reader ;;
      let vec := vec ++ [t2] in
      ok (reader, vec).

  (* the loop runs `len - a` more rounds or fails earlier; FormatSpec's loop has `fuel` rounds left, which is
     enough because every round consumes at least one of the `length (data r) < fuel` bytes *)
  Lemma vec_loop_ok t' len : deser_ok t' -> 1 <= min_size t' ->
    forall fuel a r vec, a <= len -> (length (data r) < fuel)%nat ->
    agrees_d ('(r', l) <-? fold_rio (deser_step (dict_of io c t')) (nrange a len) (r, vec) ;; ok (VVec l, r'))
             (deser_loop t' fuel (len - a) (data r) (rev vec)).
  Proof.
    intros Hd Hm. induction fuel as [|fuel IH]; intros a r vec Ha Hf; [lia|].
    rewrite deser_loop_eq. destruct (N.eqb_spec (len - a) 0) as [E|E].
    - rewrite nrange_empty by lia. cbn [fold_rio rbind ok agrees_d].
      now rewrite rev_append_nil, rev_involutive.
    - rewrite nrange_cons by lia. cbn [fold_rio]. unfold deser_step at 1.
      pose proof (Hd r) as Hr.
      destruct (sd_deser (dict_of io c t') r) as [[[v r1]|]|];
        destruct (deser t' (data r)) as [[v' d1]|] eqn:Ed; cbn [agrees_d] in Hr; try contradiction.
      + destruct Hr as [<- <-]. cbn [rbind ok].
        pose proof (deser_consumes t' (data r) v (data r1) Ed) as Hc. unfold lenN in Hc.
        pose proof (IH (N.succ a) r1 (vec ++ [v]) ltac:(lia) ltac:(lia)) as Hn.
        rewrite rev_unit in Hn. replace (len - N.succ a) with (len - a - 1) in Hn by lia. exact Hn.
      + exact I.
  Qed.

  Lemma struct_deser_ok fs : Forall deser_ok fs ->
    forall r, agrees_d (struct_deser (dicts_of io c fs) r) (deser_list fs (data r)).
  Proof.
    induction 1 as [|f fs Hf _ IHfs]; intro r; cbn [dicts_of struct_deser deser_list].
    - cbn [agrees_d ok]. now split.
    - pose proof (Hf r) as Hr.
      destruct (sd_deser (dict_of io c f) r) as [[[v r1]|]|];
        destruct (deser f (data r)) as [[v' d1]|]; cbn [agrees_d] in Hr; try contradiction; [|exact I].
      destruct Hr as [<- <-]. cbn [rbind ok]. pose proof (IHfs r1) as Hs.
      destruct (struct_deser (dicts_of io c fs) r1) as [[[vs r2]|]|];
        destruct (deser_list fs (data r1)) as [[vs' d2]|]; cbn [agrees_d] in Hs; try contradiction; [|exact I].
      destruct Hs as [<- <-]. cbn [rbind ok agrees_d]. now split.
  Qed.

  Theorem tie_deser_agrees : forall t, vec_ok t = true -> deser_ok t.
  Proof.
    induction t as [ | | | | | t' IH | t' IH | fs IH] using ty_ind'; intros Hv r.
    - cbn [dict_of wrap sd_deser deser]. rewrite (proj1 (proj2 (tie_u8 io c))).
      pose proof (agrees_map VNum _ _ (rd1_agrees le_val (fun n => n) 1 r ltac:(reflexivity))) as H.
      destruct (read_le 1 (data r)) as [[n d']|]; exact H.
    - cbn [dict_of wrap sd_deser deser]. rewrite (proj1 (proj2 (tie_u16 io c))).
      pose proof (agrees_map VNum _ _ (rd1_agrees le_val (fun n => n) 2 r ltac:(reflexivity))) as H.
      destruct (read_le 2 (data r)) as [[n d']|]; exact H.
    - cbn [dict_of wrap sd_deser deser]. rewrite (proj1 (proj2 (tie_usize io c))).
      pose proof (agrees_map VNum _ _ (rd1_agrees le_val (fun n => n) 8 r ltac:(reflexivity))) as H.
      destruct (read_le 8 (data r)) as [[n d']|]; exact H.
    - cbn [dict_of wrap sd_deser deser]. rewrite (proj1 (proj2 (tie_isize io c))).
      pose proof (agrees_map VInt _ _ (rd1_agrees (sint_of_le 8) n_to_i64 8 r ltac:(reflexivity))) as H.
      destruct (read_le 8 (data r)) as [[n d']|]; exact H.
    - cbn [dict_of wrap sd_deser deser]. rewrite (proj1 (proj2 (tie_bool io c))).
      pose proof (agrees_map VBool _ _
                    (rd1_agrees (fun bs => negb (le_val bs =? 0)) (fun n => negb (n =? 0)) 1 r ltac:(reflexivity))) as H.
      destruct (read_le 1 (data r)) as [[n d']|]; exact H.
    - (* Vec *)
      rewrite vec_ok_vec in Hv. apply andb_true_iff in Hv. destruct Hv as [Hm Hv].
      apply N.leb_le in Hm. specialize (IH Hv).
      cbn [dict_of wrap sd_deser vec_dict]. unfold vec_deserialize_from. rewrite deser_vec.
      change (usize_deserialize_from io c r) with (sd_deser (usize_dict io c) r).
      rewrite (proj1 (proj2 (tie_usize io c))).
      pose proof (rd1_agrees le_val (fun n => n) 8 r ltac:(reflexivity)) as Hl.
      change (N.of_nat 8) with 8 in Hl.
      destruct (rd1 io r 8 le_val) as [[[len r1]|]|];
        destruct (read_le 8 (data r)) as [[len' d1]|]; cbn [agrees_d] in Hl; try contradiction; [|exact I].
      destruct Hl as [<- <-]. cbn [rbind ok].
      change (fold_rio _ (nrange 0 len) (r1, [])) with (fold_rio (deser_step (dict_of io c t')) (nrange 0 len) (r1, [])).
      pose proof (vec_loop_ok t' len IH Hm (S (length (data r1))) 0 r1 [] ltac:(lia) ltac:(lia)) as Hloop.
      rewrite N.sub_0_r in Hloop. cbn [rev] in Hloop.
      destruct (fold_rio (deser_step (dict_of io c t')) (nrange 0 len) (r1, [])) as [[[r' l]|]|]; exact Hloop.
    - (* Option *)
      cbn [vec_ok] in Hv. specialize (IH Hv).
      cbn [dict_of wrap sd_deser option_dict]. unfold option_deserialize_from. rewrite deser_opt.
      change (bool_deserialize_from io c r) with (sd_deser (bool_dict io c) r).
      rewrite (proj1 (proj2 (tie_bool io c))).
      pose proof (rd1_agrees (fun bs => negb (le_val bs =? 0)) (fun n => negb (n =? 0)) 1 r ltac:(reflexivity)) as Hl.
      change (N.of_nat 1) with 1 in Hl.
      destruct (rd1 io r 1 (fun bs => negb (le_val bs =? 0))) as [[[tag r1]|]|];
        destruct (read_le 1 (data r)) as [[n d1]|]; cbn [agrees_d] in Hl; try contradiction; [|exact I].
      destruct Hl as [-> <-]. cbn [rbind ok]. destruct (n =? 0); cbn [negb].
      + cbn [rbind ok agrees_d]. now split.
      + pose proof (IH r1) as Hx.
        destruct (sd_deser (dict_of io c t') r1) as [[[x r2]|]|];
          destruct (deser t' (data r1)) as [[x' d2]|]; cbn [agrees_d] in Hx; try contradiction; [|exact I].
        destruct Hx as [<- <-]. cbn [rbind ok agrees_d]. now split.
    - (* struct *)
      rewrite vec_ok_struct in Hv. rewrite dict_of_struct, deser_struct_list.
      cbn [struct_dict sd_deser]. apply (agrees_map VStruct), struct_deser_ok.
      clear r. induction IH as [|f fs Hf _ IHfs]; [constructor|].
      cbn [forallb] in Hv. apply andb_true_iff in Hv. destruct Hv as [Hvf Hvfs].
      constructor; [now apply Hf | now apply IHfs].
  Qed.
End Deser.

(* a reader that IS the remaining bytes (`&[u8]`): equality with `deser`, for every byte list *)
Theorem tie_deser {Wr} (io : io_ops Wr (list N)) c :
  (forall r k, io_read_exact io r k = slice_read_exact r k) ->
  forall t bs, vec_ok t = true -> sd_deser (dict_of io c t) bs = Ok (deser t bs).
Proof.
  intros Hrd t bs Hv.
  assert (H : agrees_d (fun r => r) (sd_deser (dict_of io c t) bs) (deser t bs)).
  { apply (tie_deser_agrees io c (fun r => r)); [|exact Hv].
    intros r k. rewrite Hrd. destruct (slice_read_exact r k) as [[x r']|]; reflexivity. }
  destruct (sd_deser (dict_of io c t) bs) as [[[v r]|]|]; destruct (deser t bs) as [[v' r']|];
    cbn [agrees_d] in H; try contradiction; [|reflexivity].
  destruct H as [-> ->]. reflexivity.
Qed.

Theorem tie_deser_mem c t bs : vec_ok t = true -> sd_deser (dict_of mem_io c t) bs = Ok (deser t bs).
Proof. intro Hv. apply (tie_deser mem_io c); [reflexivity | exact Hv]. Qed.

(* ------------------------------------------------------------------------------------------ *)
(* the std loops of Proofs/SerialIO.v as an instance: short and interrupted transfers            *)
(* ------------------------------------------------------------------------------------------ *)
(* writer state = (output so far, write schedule), reader state = (remaining data, read schedule); the operations
   are the documented loops `write_all` / `read_exact` of SerialIO.v over `Write::write` / `Read::read` calls that
   transfer as little as the schedule says or report Interrupted *)
Definition sched_io : io_ops (list N * list N) reader :=
  {| io_write_all := fun w bs =>
       match write_all (fst w) (snd w) bs with IoOk x => Some x | _ => None end;
     io_read_exact := fun r k =>
       match read_exact (N.to_nat k) r with IoOk x => Some x | _ => None end |}.

Lemma sched_read_ok : forall (r : reader) k,
  match io_read_exact sched_io r k with
  | Some (bs, r') => slice_read_exact (fst r) k = Some (bs, fst r')
  | None => slice_read_exact (fst r) k = None
  end.
Proof.
  intros [d sched] k. cbn [sched_io io_read_exact fst]. unfold slice_read_exact. cbv zeta.
  destruct (read_exact_sched sched d (N.to_nat k)) as [H1 H2]. unfold lenN. rewrite firstn_length.
  destruct (Nat.le_gt_cases (N.to_nat k) (length d)) as [Hle|Hgt].
  - destruct (H1 Hle) as [s' ->]. cbn [fst].
    destruct (N.eqb_spec (N.of_nat (Nat.min (N.to_nat k) (length d))) k) as [_|E]; [reflexivity | lia].
  - rewrite (H2 Hgt).
    destruct (N.eqb_spec (N.of_nat (Nat.min (N.to_nat k) (length d))) k) as [E|_]; [lia | reflexivity].
Qed.

(* generated deserialize_from under EVERY schedule of short / interrupted reads: the value and the remaining data
   of `deser`, Err iff `deser` fails, never a panic *)
Theorem tie_deser_sched c t d sched :
  vec_ok t = true -> agrees_d fst (sd_deser (dict_of sched_io c t) (d, sched)) (deser t d).
Proof. intro Hv. exact (tie_deser_agrees sched_io c fst sched_read_ok t Hv (d, sched)). Qed.

Lemma wr_chunks_sched cs : forall out sched,
  exists sched', wr_chunks sched_io (out, sched) cs = Some (out ++ concat cs, sched').
Proof.
  induction cs as [|ch cs IH]; intros out sched; cbn [wr_chunks concat].
  - exists sched. now rewrite app_nil_r.
  - cbn [sched_io io_write_all fst snd]. destruct (write_all_sched sched out ch) as [s1 ->].
    destruct (IH (out ++ ch) s1) as [s2 E]. exists s2. rewrite E, <- app_assoc. reflexivity.
Qed.

(* generated serialize_into under EVERY schedule of short / interrupted writes *)
Theorem tie_ser_sched c t v out sched :
  wf_val t v = true -> size t v < W ->
  exists sched', sd_ser (dict_of sched_io c t) v (out, sched) = ok ((out ++ ser t v, sched'), size t v).
Proof.
  intros Hw Hb. rewrite (tie_ser sched_io c t v (out, sched) Hw Hb). unfold ser_result.
  destruct (wr_chunks_sched (ser_chunks t v) out sched) as [s' ->]. exists s'.
  now rewrite ser_chunks_concat.
Qed.

(* ------------------------------------------------------------------------------------------ *)
(* the properties of C08 / C13, read on the regenerated code                                     *)
(* ------------------------------------------------------------------------------------------ *)
(* what the generated serialize_into writes, the generated deserialize_from reads back, leaving the rest *)
Corollary gen_roundtrip c t v rest :
  vec_ok t = true -> wf_val t v = true -> size t v < W ->
  exists bytes, sd_ser (dict_of mem_io c t) v [] = ok (bytes, lenN bytes) /\
                sd_size (dict_of mem_io c t) v = Ok (lenN bytes) /\
                sd_deser (dict_of mem_io c t) (bytes ++ rest) = ok (v, rest).
Proof.
  intros Hv Hw Hb. exists (ser t v). rewrite ser_length by exact Hw. repeat split.
  - apply (tie_ser_mem c t v [] Hw Hb).
  - now apply tie_size.
  - rewrite tie_deser_mem by exact Hv. now rewrite ser_deser.
Qed.

(* the generated deserialize_from rejects every strict prefix of what the generated serialize_into wrote *)
Corollary gen_prefix_err c t v n :
  vec_ok t = true -> wf_val t v = true -> size t v < W ->
  exists bytes, sd_ser (dict_of mem_io c t) v [] = ok (bytes, lenN bytes) /\
                ((n < length bytes)%nat -> sd_deser (dict_of mem_io c t) (firstn n bytes) = err).
Proof.
  intros Hv Hw Hb. exists (ser t v). rewrite ser_length by exact Hw. split.
  - apply (tie_ser_mem c t v [] Hw Hb).
  - intro Hn. rewrite tie_deser_mem by exact Hv. now rewrite deser_prefix.
Qed.

(* sanity: the generated code runs *)
Example gen_ex_ser :
  sd_ser (dict_of mem_io {| dbg := true; intr := false |} ser_ex_ty) ser_ex_val [77]
  = ok (77 :: ser ser_ex_ty ser_ex_val, size ser_ex_ty ser_ex_val).
Proof. vm_compute. reflexivity. Qed.
Example gen_ex_deser :
  sd_deser (dict_of mem_io {| dbg := true; intr := false |} ser_ex_ty) (ser ser_ex_ty ser_ex_val ++ [9; 9])
  = ok (ser_ex_val, [9; 9]).
Proof. vm_compute. reflexivity. Qed.
Example gen_ex_budget :
  sd_ser (dict_of budget_io {| dbg := false; intr := false |} ser_ex_ty) ser_ex_val ([], size ser_ex_ty ser_ex_val - 1)
  = err.
Proof. vm_compute. reflexivity. Qed.
(* a length prefix far beyond the data: Err after one failed element read (FormatSpec: fuel) *)
Example gen_ex_huge_len :
  sd_deser (dict_of mem_io {| dbg := true; intr := false |} (TVec TU8)) [255; 255; 255; 255; 255; 255; 255; 127; 1; 2]
  = err.
Proof. reflexivity. Qed.

Print Assumptions tie_u8.
Print Assumptions tie_isize.
Print Assumptions tie_bool.
Print Assumptions tie_size_of.
Print Assumptions tie_size.
Print Assumptions tie_ser.
Print Assumptions tie_ser_mem.
Print Assumptions tie_ser_budget.
Print Assumptions tie_deser_agrees.
Print Assumptions tie_deser.
Print Assumptions tie_deser_sched.
Print Assumptions tie_ser_sched.
Print Assumptions tie_deser_mem.
Print Assumptions gen_roundtrip.
Print Assumptions gen_prefix_err.
