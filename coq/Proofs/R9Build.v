(* Proofs/R9Build.v — property C01, part 1: the directory built by Rank9SelIndex::build_rank is
   the declarative one (`brp_spec`): entry 2j = ones before block j, entry 2j+1 = seven packed
   9-bit in-block counters, final entry 0; the value does not depend on the configuration.
   Then the small accessors (num_ones, num_blocks, block_rank, sub_block_ranks, block_rank0)
   are characterised for every index whose `r_brp` is `brp_spec`. *)
From Sucds Require Import Base.Res Spec.WordSpec Spec.BitSpec Model.BitVector Model.Rank9
  Proofs.ResLemmas Proofs.BVAbs Proofs.WordLemmas Proofs.BVReads Proofs.BVReads2 Proofs.C14_Bits.
From Coq Require Import ZArith ZifyN ZifyBool ZifyNat Lia.
Ltac Zify.zify_post_hook ::= Z.div_mod_to_equations.
Open Scope N_scope.
Set Default Proof Using "All".

(* ---------- ones in the first i words ---------- *)

Definition cnt (ws : list N) (i : N) : N := popsum (firstn (N.to_nat i) ws).

Lemma popsum_app a b : popsum (a ++ b) = popsum a + popsum b.
Proof.
  induction a as [|x a IH]; [reflexivity|].
  cbn [app popsum fold_right]. fold (popsum (a ++ b)). fold (popsum a). rewrite IH. lia.
Qed.

Lemma cnt_0 ws : cnt ws 0 = 0.
Proof. reflexivity. Qed.

Lemma cnt_succ ws i : i < lenN ws -> cnt ws (i + 1) = cnt ws i + popcN (nthN ws i 0).
Proof.
  intro H. unfold cnt, nthN.
  replace (N.to_nat (i + 1)) with (S (N.to_nat i)) by lia.
  rewrite (firstn_snoc 0) by (unfold lenN in H; lia).
  rewrite popsum_app. cbn [popsum fold_right]. lia.
Qed.

Lemma cnt_over ws i : lenN ws <= i -> cnt ws i = popsum ws.
Proof. intro H. unfold cnt. rewrite firstn_all2 by (unfold lenN in H; lia). reflexivity. Qed.

Lemma cnt_split ws i j : i <= j ->
  cnt ws j = cnt ws i + popsum (firstn (N.to_nat (j - i)) (skipn (N.to_nat i) ws)).
Proof.
  intro H. unfold cnt. rewrite <- popsum_app. f_equal.
  rewrite <- (firstn_skipn (N.to_nat i) ws) at 1.
  rewrite firstn_app, firstn_firstn.
  replace (Nat.min (N.to_nat j) (N.to_nat i)) with (N.to_nat i) by lia.
  f_equal. destruct (Nat.le_gt_cases (N.to_nat i) (length ws)) as [Hl|Hl].
  - f_equal. rewrite firstn_length. lia.
  - rewrite skipn_all2 by lia. rewrite !firstn_nil. reflexivity.
Qed.

Lemma Forall_skipn' {A} (P : A -> Prop) n l : Forall P l -> Forall P (skipn n l).
Proof.
  intro H. revert n. induction H as [|x l Hx Hl IH]; intro n; destruct n; cbn [skipn]; auto.
Qed.

Section Cnt.
Variable ws : list N.
Hypothesis Hall : Forall (fun w => w < W) ws.

Lemma cnt_mono i j : i <= j -> cnt ws i <= cnt ws j.
Proof. intro H. rewrite (cnt_split ws i j H). lia. Qed.

Lemma cnt_diff_le i j : i <= j -> cnt ws j <= cnt ws i + 64 * (j - i).
Proof.
  intro H. rewrite (cnt_split ws i j H).
  pose proof (popsum_le (firstn (N.to_nat (j - i)) (skipn (N.to_nat i) ws))
                (Forall_firstn' _ _ _ (Forall_skipn' _ _ _ Hall))) as P.
  rewrite lenN_firstn in P. lia.
Qed.

Lemma cnt_le i : cnt ws i <= 64 * i.
Proof. pose proof (cnt_diff_le 0 i) as H. rewrite cnt_0 in H. lia. Qed.

Lemma cnt_le_len i : cnt ws i <= 64 * lenN ws.
Proof.
  unfold cnt. pose proof (popsum_le _ (Forall_firstn' _ (N.to_nat i) _ Hall)) as P.
  rewrite lenN_firstn in P. lia.
Qed.

Lemma cnt_step_lt i : i < lenN ws -> popcN (nthN ws i 0) <= 64.
Proof. intros _. apply popcN_le_64. apply Forall_nthN; [exact Hall | apply W_pos]. Qed.
End Cnt.

(* ---------- packed in-block counters ---------- *)

(* f m at shift 0, f (m-1) at shift 9, ..., f 1 at shift 9 (m-1) *)
Fixpoint subs (f : nat -> N) (m : nat) : N :=
  match m with O => 0 | S m' => f (S m') + 512 * subs f m' end.

Lemma pow512_pos m : 0 < 512 ^ N.of_nat m.
Proof. assert (512 ^ N.of_nat m <> 0) by (apply N.pow_nonzero; discriminate). lia. Qed.

Lemma subs_lt f m : (forall t, f t < 512) -> subs f m < 512 ^ N.of_nat m.
Proof.
  intro H. induction m as [|m IH].
  - cbn. lia.
  - cbn [subs]. rewrite Nat2N.inj_succ, N.pow_succ_r'. specialize (H (S m)). lia.
Qed.

Lemma subs_lt_63 f m : (forall t, f t < 512) -> (m <= 7)%nat -> subs f m < 2 ^ 63.
Proof.
  intros H Hm. eapply N.lt_le_trans; [apply subs_lt, H|].
  change (2 ^ 63) with (512 ^ 7). apply N.pow_le_mono_r; lia.
Qed.

Lemma subs_lt_54 f m : (forall t, f t < 512) -> (m <= 6)%nat -> subs f m < 2 ^ 54.
Proof.
  intros H Hm. eapply N.lt_le_trans; [apply subs_lt, H|].
  change (2 ^ 54) with (512 ^ 6). apply N.pow_le_mono_r; lia.
Qed.

Lemma subs_ext f g m : (forall t, (1 <= t <= m)%nat -> f t = g t) -> subs f m = subs g m.
Proof.
  induction m as [|m IH]; intro H; [reflexivity|].
  cbn [subs]. rewrite H by lia. rewrite IH by (intros t Ht; apply H; lia). reflexivity.
Qed.

(* field t of subs f m, read as (x >> 9 (m - t)) & 0x1FF; "field 0" is 0 *)
Lemma subs_field f m t : (forall t, f t < 512) -> (t <= m)%nat ->
  (subs f m / 512 ^ N.of_nat (m - t)) mod 512 = if (t =? 0)%nat then 0 else f t.
Proof.
  intros Hf. induction m as [|m IH]; intro Ht.
  - replace t with 0%nat by lia. reflexivity.
  - destruct (Nat.eq_dec t (S m)) as [->|Hne].
    + replace (S m - S m)%nat with 0%nat by lia. change (512 ^ N.of_nat 0) with 1.
      rewrite N.div_1_r. cbn [subs Nat.eqb].
      replace (f (S m) + 512 * subs f m) with (f (S m) + subs f m * 512) by lia.
      rewrite N.mod_add by discriminate. apply N.mod_small, Hf.
    + replace (S m - t)%nat with (S (m - t)) by lia.
      rewrite Nat2N.inj_succ, N.pow_succ_r'. cbn [subs].
      rewrite <- N.div_div by (try apply N.pow_nonzero; discriminate).
      replace (f (S m) + 512 * subs f m) with (subs f m * 512 + f (S m)) by lia.
      rewrite N.div_add_l by discriminate. rewrite (N.div_small (f (S m))) by apply Hf.
      rewrite N.add_0_r. apply IH. lia.
Qed.

Lemma subs_sub f g m : (forall t, g t <= f t) ->
  subs g m <= subs f m /\ subs f m - subs g m = subs (fun t => f t - g t) m.
Proof.
  intro H. induction m as [|m [IH1 IH2]]; [split; [cbn; lia | reflexivity]|].
  cbn [subs]. rewrite <- IH2. specialize (H (S m)). lia.
Qed.

(* ---------- the declarative directory ---------- *)

Definition subf (ws : list N) (j : N) (t : nat) : N := cnt ws (8 * j + N.of_nat t) - cnt ws (8 * j).
Definition SR (ws : list N) (j : N) : N := subs (subf ws j) 7.

Fixpoint brp_pairs (ws : list N) (m : nat) : list N :=
  match m with
  | O => []
  | S m' => brp_pairs ws m' ++ [SR ws (N.of_nat m'); cnt ws (8 * (N.of_nat m' + 1))]
  end.

Definition nblocks (ws : list N) : N := (lenN ws + 7) / 8.
Definition brp_spec (ws : list N) : list N := 0 :: brp_pairs ws (N.to_nat (nblocks ws)) ++ [0].

Lemma brp_pairs_length ws m : length (brp_pairs ws m) = (2 * m)%nat.
Proof. induction m as [|m IH]; [reflexivity|]. cbn [brp_pairs]. rewrite app_length, IH. cbn [length]. lia. Qed.

Lemma brp_pairs_nth ws m : forall j, (j < m)%nat ->
  nth (2 * j) (brp_pairs ws m) 0 = SR ws (N.of_nat j) /\
  nth (2 * j + 1) (brp_pairs ws m) 0 = cnt ws (8 * (N.of_nat j + 1)).
Proof.
  induction m as [|m IH]; intros j Hj; [lia|].
  cbn [brp_pairs]. destruct (Nat.eq_dec j m) as [->|Hne].
  - rewrite !app_nth2 by (rewrite brp_pairs_length; lia). rewrite brp_pairs_length.
    replace (2 * m - 2 * m)%nat with 0%nat by lia.
    replace (2 * m + 1 - 2 * m)%nat with 1%nat by lia. split; reflexivity.
  - rewrite !app_nth1 by (rewrite brp_pairs_length; lia). apply IH. lia.
Qed.

Lemma brp_len ws : lenN (brp_spec ws) = 2 * nblocks ws + 2.
Proof.
  unfold brp_spec, lenN. cbn [length]. rewrite app_length, brp_pairs_length. cbn [length]. lia.
Qed.

Lemma brp_even ws j : j <= nblocks ws -> nthN (brp_spec ws) (2 * j) 0 = cnt ws (8 * j).
Proof.
  intro H. unfold brp_spec, nthN. destruct (N.eq_dec j 0) as [->|Hz]; [reflexivity|].
  replace (N.to_nat (2 * j)) with (S (2 * N.to_nat (j - 1) + 1)) by lia. cbn [nth].
  rewrite app_nth1 by (rewrite brp_pairs_length; lia).
  rewrite (proj2 (brp_pairs_nth ws (N.to_nat (nblocks ws)) (N.to_nat (j - 1)) ltac:(lia))). f_equal. lia.
Qed.

Lemma brp_odd ws j : j < nblocks ws -> nthN (brp_spec ws) (2 * j + 1) 0 = SR ws j.
Proof.
  intro H. unfold brp_spec, nthN.
  replace (N.to_nat (2 * j + 1)) with (S (2 * N.to_nat j)) by lia. cbn [nth].
  rewrite app_nth1 by (rewrite brp_pairs_length; lia).
  rewrite (proj1 (brp_pairs_nth ws (N.to_nat (nblocks ws)) (N.to_nat j) ltac:(lia))). f_equal. lia.
Qed.

(* a version that is < 512 for every t: clamp (used to satisfy "forall t" premises) *)
Definition clamp (f : nat -> N) (t : nat) : N := if (t <=? 7)%nat then f t else 0.

Lemma subs_clamp f m : (m <= 7)%nat -> subs (clamp f) m = subs f m.
Proof.
  intro H. apply subs_ext. intros t Ht. unfold clamp.
  destruct (Nat.leb_spec t 7); [reflexivity | lia].
Qed.

Lemma clamp_bounded f : (forall t, (t <= 7)%nat -> f t < 512) -> forall t, clamp f t < 512.
Proof. intros H t. unfold clamp. destruct (Nat.leb_spec t 7); [apply H; assumption | lia]. Qed.

(* bounded-hypothesis forms for seven fields *)
Lemma subs7_lt f : (forall t, (t <= 7)%nat -> f t < 512) -> subs f 7 < 2 ^ 63.
Proof.
  intro H. rewrite <- subs_clamp by lia. apply subs_lt_63; [apply clamp_bounded, H | lia].
Qed.

Lemma subs7_field f t : (forall t, (t <= 7)%nat -> f t < 512) -> (t <= 7)%nat ->
  (subs f 7 / 512 ^ (7 - N.of_nat t)) mod 512 = if (t =? 0)%nat then 0 else f t.
Proof.
  intros H Ht. rewrite <- subs_clamp by lia.
  replace (7 - N.of_nat t) with (N.of_nat (7 - t)) by lia.
  rewrite subs_field by (try apply clamp_bounded; assumption).
  unfold clamp. destruct (Nat.leb_spec t 7); [reflexivity | lia].
Qed.

Lemma lor_shift_add a x : a < 512 -> N.lor (x * 2 ^ 9) a = a + 512 * x.
Proof.
  intro H. rewrite N.lor_comm. replace (x * 2 ^ 9) with (2 ^ 9 * x) by lia.
  rewrite lor_disjoint by exact H. reflexivity.
Qed.

Lemma pad_zero c n : pad_subranks c n 0 0 = Ok 0.
Proof.
  induction n as [|n IH]; [reflexivity|]. cbn [pad_subranks].
  rewrite shl_ok_small by (try rewrite N.mul_0_l; unfold W; lia). cbn [bind].
  rewrite N.mul_0_l. change (N.lor 0 0) with 0. exact IH.
Qed.

Lemma pad_ok c f cur : (forall t, (t <= 7)%nat -> f t < 512) -> cur < 512 ->
  forall n m, (m + n <= 7)%nat -> (forall t, (m < t <= 7)%nat -> f t = cur) ->
  pad_subranks c n (subs f m) cur = Ok (subs f (m + n)).
Proof.
  intros Hf Hcur. induction n as [|n IH]; intros m Hmn Hft.
  - rewrite Nat.add_0_r. reflexivity.
  - cbn [pad_subranks].
    assert (Hb : subs f m < 2 ^ 54).
    { rewrite <- subs_clamp by lia. apply subs_lt_54; [|lia].
      intro t. unfold clamp. destruct (Nat.leb_spec t 7); [apply Hf; assumption | lia]. }
    change (2 ^ 54) with 18014398509481984 in Hb.
    rewrite shl_ok_small by (try (change (2 ^ 9) with 512; unfold W); lia). cbn [bind].
    rewrite lor_shift_add by exact Hcur.
    replace (cur + 512 * subs f m) with (subs f (S m)) by (cbn [subs]; rewrite Hft by lia; reflexivity).
    rewrite IH by (try lia; intros t Ht; apply Hft; lia). f_equal. f_equal. lia.
Qed.

(* ---------- the build loop ---------- *)

Record binv (ws : list N) (i : N) (s : brstate) : Prop := {
  bi_i : s_i s = i;
  bi_next : s_next s = cnt ws i;
  bi_cur : s_cur s = cnt ws i - cnt ws (8 * (i / 8));
  bi_sub : s_sub s = subs (subf ws (i / 8)) (N.to_nat (i mod 8) - 1);
  bi_brp : s_brp s = 0 :: brp_pairs ws (N.to_nat (i / 8)) }.

Section Build.
Variable ws : list N.
Hypothesis Hall : Forall (fun w => w < W) ws.
Hypothesis Hlen : lenN ws < 2251799813685248.   (* 2^51 *)

Lemma subf_lt j t : (t <= 7)%nat -> subf ws j t < 512.
Proof.
  intro Ht. unfold subf.
  pose proof (cnt_diff_le ws Hall (8 * j) (8 * j + N.of_nat t)). lia.
Qed.

Lemma clamp_lt j t : clamp (subf ws j) t < 512.
Proof.
  unfold clamp. destruct (Nat.leb_spec t 7) as [H|H]; [apply subf_lt, H | lia].
Qed.

Lemma subs_subf_lt j m : (m <= 7)%nat -> subs (subf ws j) m < 2 ^ 63.
Proof. intro H. rewrite <- subs_clamp by exact H. apply subs_lt_63; [apply clamp_lt | exact H]. Qed.

Lemma subs_subf_lt6 j m : (m <= 6)%nat -> subs (subf ws j) m < 2 ^ 54.
Proof. intro H. rewrite <- subs_clamp by lia. apply subs_lt_54; [apply clamp_lt | exact H]. Qed.

Lemma cnt_lt_W i : cnt ws i + 64 < W.
Proof. pose proof (cnt_le_len ws Hall i). unfold W. lia. Qed.

Lemma build_step_ok c i s : i < lenN ws -> binv ws i s ->
  exists s', build_rank_step c s (nthN ws i 0) = Ok s' /\ binv ws (i + 1) s'.
Proof.
  intros Hi [I1 I2 I3 I4 I5]. unfold build_rank_step, BLOCK_LEN. rewrite I1, I2, I3, I4, I5.
  pose proof (cnt_step_lt ws Hall i Hi) as Hp.
  pose proof (cnt_lt_W i) as HcW. pose proof (cnt_lt_W (i + 1)) as HcW1.
  pose proof (cnt_succ ws i Hi) as Hs.
  pose proof (cnt_mono ws Hall (8 * (i / 8)) i ltac:(lia)) as Hm.
  set (j := i / 8) in *. set (f := subf ws j) in *.
  assert (Hsub : (if negb (i mod 8 =? 0)
                  then (t <- shl c (subs f (N.to_nat (i mod 8) - 1)) 9 ;;
                        Ok (N.lor t (cnt ws i - cnt ws (8 * j))))
                  else Ok (subs f (N.to_nat (i mod 8) - 1)))
                 = Ok (subs f (N.to_nat (i mod 8)))).
  { destruct (N.eqb_spec (i mod 8) 0) as [Hz|Hnz]; cbn [negb].
    - rewrite Hz. reflexivity.
    - pose proof (subs_subf_lt6 j (N.to_nat (i mod 8) - 1) ltac:(lia)) as Hb.
      fold f in Hb. change (2 ^ 54) with 18014398509481984 in Hb.
      rewrite shl_ok_small by (try (change (2 ^ 9) with 512; unfold W); lia). cbn [bind].
      assert (Hc : cnt ws i - cnt ws (8 * j) = f (N.to_nat (i mod 8))).
      { unfold f, subf. f_equal. f_equal. unfold j. lia. }
      rewrite lor_shift_add.
      2:{ rewrite Hc. apply subf_lt. lia. }
      replace (N.to_nat (i mod 8)) with (S (N.to_nat (i mod 8) - 1)) at 2 by lia.
      cbn [subs]. replace (S (N.to_nat (i mod 8) - 1)) with (N.to_nat (i mod 8)) by lia.
      rewrite Hc. reflexivity. }
  rewrite Hsub. cbn [bind].
  rewrite add_ok by lia. cbn [bind]. rewrite add_ok by lia. cbn [bind].
  destruct (N.eqb_spec (i mod 8) (8 - 1)) as [H7|H7]; eexists; (split; [reflexivity|]).
  - constructor; cbn [s_i s_next s_cur s_sub s_brp].
    + reflexivity.
    + lia.
    + replace (8 * ((i + 1) / 8)) with (i + 1) by lia. lia.
    + replace ((i + 1) mod 8) with 0 by lia. reflexivity.
    + replace (N.to_nat ((i + 1) / 8)) with (S (N.to_nat j)) by (unfold j; lia).
      cbn [brp_pairs app]. rewrite N2Nat.id.
      do 3 f_equal.
      * unfold SR. fold f. f_equal. lia.
      * f_equal. rewrite <- Hs. f_equal. unfold j. lia.
  - constructor; cbn [s_i s_next s_cur s_sub s_brp].
    + reflexivity.
    + lia.
    + replace ((i + 1) / 8) with j by (unfold j; lia). lia.
    + replace ((i + 1) / 8) with j by (unfold j; lia). fold f. f_equal. lia.
    + replace ((i + 1) / 8) with j by (unfold j; lia). reflexivity.
Qed.

Lemma build_loop_ok c : forall suf pre s, ws = pre ++ suf -> binv ws (lenN pre) s ->
  exists s', fold_res (build_rank_step c) suf s = Ok s' /\ binv ws (lenN ws) s'.
Proof.
  induction suf as [|x suf IH]; intros pre s E I.
  - exists s. split; [reflexivity|]. rewrite app_nil_r in E. rewrite <- E in I. exact I.
  - assert (Hi : lenN pre < lenN ws) by (rewrite E, lenN_app, lenN_cons; lia).
    assert (Hx : nthN ws (lenN pre) 0 = x).
    { rewrite E. rewrite nthN_app_r by lia. rewrite N.sub_diag. reflexivity. }
    destruct (build_step_ok c (lenN pre) s Hi I) as [s' [Es I']].
    rewrite Hx in Es. cbn [fold_res]. rewrite Es. cbn [bind].
    apply (IH (pre ++ [x])).
    + rewrite <- app_assoc. exact E.
    + rewrite lenN_app. exact I'.
Qed.

Theorem build_rank_ok c len :
  build_rank c {| bv_words := ws; bv_len := len |}
  = Ok {| r_len := len; r_brp := brp_spec ws; r_h1 := None; r_h0 := None |}.
Proof.
  unfold build_rank. cbn [bv_words bv_len].
  destruct (build_loop_ok c ws [] {| s_i := 0; s_next := 0; s_cur := 0; s_sub := 0; s_brp := [0] |})
    as [s [Es [I1 I2 I3 I4 I5]]].
  - reflexivity.
  - constructor; reflexivity.
  - rewrite Es. cbn [bind]. unfold BLOCK_LEN. set (n := lenN ws) in *.
    rewrite sub_ok by lia. cbn [bind]. rewrite I2, I3, I4, I5.
    set (j := n / 8). set (f := subf ws j).
    destruct (N.eqb_spec (n mod 8) 0) as [Hz|Hnz]; cbn [negb].
    + replace (cnt ws n - cnt ws (8 * j)) with 0 by (replace (8 * j) with n by (unfold j; lia); lia).
      rewrite Hz. change (N.to_nat 0 - 1)%nat with 0%nat. cbn [subs].
      rewrite pad_zero. cbn [bind]. unfold brp_spec, nblocks. fold n.
      replace ((n + 7) / 8) with j by (unfold j; lia). reflexivity.
    + assert (Hcur : cnt ws n - cnt ws (8 * j) < 512).
      { pose proof (cnt_diff_le ws Hall (8 * j) n ltac:(unfold j; lia)). unfold j in *. lia. }
      rewrite (pad_ok c f (cnt ws n - cnt ws (8 * j))).
      * cbn [bind]. unfold brp_spec, nblocks. fold n.
        replace (N.to_nat ((n + 7) / 8)) with (S (N.to_nat j)) by (unfold j; lia).
        cbn [brp_pairs]. rewrite N2Nat.id. rewrite <- !app_assoc. cbn [app].
        replace (cnt ws (8 * (j + 1))) with (cnt ws n)
          by (rewrite !cnt_over; [reflexivity | unfold j; fold n; lia | fold n; lia]).
        replace (N.to_nat (n mod 8) - 1 + N.to_nat (8 - n mod 8))%nat with 7%nat by lia.
        reflexivity.
      * intros t Ht. apply subf_lt, Ht.
      * exact Hcur.
      * lia.
      * intros t Ht. unfold f, subf. f_equal.
        rewrite !cnt_over; [reflexivity | fold n; lia | unfold j; fold n; lia].
Qed.
End Build.

(* ---------- accessors on any index with the declarative directory ---------- *)

Lemma nblocks_lt ws : lenN ws < 2251799813685248 -> nblocks ws < 281474976710657.
Proof. intro H. unfold nblocks. lia. Qed.

Section Access.
Variables (ws : list N) (r : r9index).
Hypothesis Hall : Forall (fun w => w < W) ws.
Hypothesis Hlen : lenN ws < 2251799813685248.
Hypothesis Hbrp : r_brp r = brp_spec ws.

Lemma num_ones_ok c : num_ones c r = Ok (popsum ws).
Proof.
  unfold num_ones. rewrite Hbrp, brp_len. rewrite sub_ok by lia. cbn [bind].
  rewrite idx_ok by (rewrite brp_len; lia).
  replace (2 * nblocks ws + 2 - 2) with (2 * nblocks ws) by lia.
  rewrite brp_even by lia. rewrite cnt_over by (unfold nblocks; lia). reflexivity.
Qed.

Lemma num_blocks_ok c : num_blocks c r = Ok (nblocks ws).
Proof.
  unfold num_blocks. rewrite Hbrp, brp_len. rewrite sub_ok by lia. f_equal. lia.
Qed.

Lemma block_rank_ok c j : j <= nblocks ws -> block_rank c r j = Ok (cnt ws (8 * j)).
Proof.
  intro H. pose proof (nblocks_lt ws Hlen). unfold block_rank.
  rewrite mul_ok by (unfold W; lia). cbn [bind]. rewrite Hbrp.
  rewrite idx_ok by (rewrite brp_len; lia).
  replace (j * 2) with (2 * j) by lia. rewrite brp_even by exact H. reflexivity.
Qed.

Lemma sub_block_ranks_ok c j : j < nblocks ws -> sub_block_ranks c r j = Ok (SR ws j).
Proof.
  intro H. pose proof (nblocks_lt ws Hlen). unfold sub_block_ranks.
  rewrite mul_ok by (unfold W; lia). cbn [bind]. rewrite add_ok by (unfold W; lia). cbn [bind].
  rewrite Hbrp. rewrite idx_ok by (rewrite brp_len; lia).
  replace (j * 2 + 1) with (2 * j + 1) by lia. rewrite brp_odd by exact H. reflexivity.
Qed.

Lemma block_rank0_ok c j : j <= nblocks ws -> block_rank0 c r j = Ok (512 * j - cnt ws (8 * j)).
Proof.
  intro H. pose proof (nblocks_lt ws Hlen). unfold block_rank0, BLOCK_LEN.
  rewrite mul_ok by (unfold W; lia). cbn [bind]. rewrite mul_ok by (unfold W; lia). cbn [bind].
  rewrite block_rank_ok by exact H. cbn [bind].
  pose proof (cnt_le ws Hall (8 * j)).
  rewrite sub_ok by lia. f_equal. lia.
Qed.
End Access.
