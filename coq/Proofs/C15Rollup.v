(* Proofs/C15Rollup.v — property C15: results do not depend on the build configuration.
   Every access theorem of the development has the shape `forall c, contract -> f c x = Ok (spec x)`
   with a right-hand side that does not mention the configuration c (dev profile with
   overflow checks and debug assertions / release profile, cargo feature `intrinsics` on / off).
   Configuration independence and panic freedom are therefore corollaries; this file instantiates
   one generic lemma over the whole modelled API, one theorem per structure family.

   Serialization (Spec/FormatSpec.v: ser / deser / size) takes no cfg argument at all: the bytes
   are a pure function of the value.  So whenever a builder is `cfg_independent`, the value it
   returns, hence `ser t (v_X x)` for every t, is the same in every configuration
   (`cfg_independent_bytes`). *)
From Sucds Require Import Base.Res Spec.WordSpec Spec.BitSpec Spec.SeqSpec Spec.DacSpec Spec.FormatSpec
  Model.BitVector Model.Rank9 Model.DArray Model.EliasFano Model.CompactVector Model.Dacs
  Model.Wavelet Model.Unary Model.Serial gen.BroadwordGen
  Proofs.ResLemmas Proofs.BVAbs Proofs.BVReads Proofs.BVReads2 Proofs.BVMut Proofs.BVHistory
  Proofs.IndexSpecs Proofs.C14_Popcount Proofs.C14_Lsb Proofs.C14_Msb Proofs.C14_Select
  Proofs.R9Rank Proofs.R9Main Proofs.DAMain
  Proofs.EFRep Proofs.EFQueries Proofs.EFIter Proofs.EFBuilder
  Proofs.CVRep Proofs.CVOps Proofs.CVHistory
  Proofs.WMLists Proofs.WMBuild Proofs.WMQueries Proofs.WMQuantile Proofs.WMIntersect
  Proofs.UnaryIter Proofs.UnarySkip
  Proofs.DP_Hist Proofs.DP_Opt Proofs.DP_Walk
  Proofs.Integration.
From Coq Require Import ZArith ZifyN ZifyBool ZifyNat Lia.
Ltac Zify.zify_post_hook ::= Z.div_mod_to_equations.
Open Scope N_scope.

(* ---------- the generic part ---------- *)

(* f, a model function with everything but the configuration fixed, returns the same result in
   any two configurations and does not panic *)
Definition cfg_independent {A} (f : cfg -> res A) : Prop :=
  forall c1 c2, f c1 = f c2 /\ f c1 <> Panic.

(* i.e.  (forall c, f c = Ok v) -> forall c1 c2, f c1 = f c2 /\ f c1 <> Panic *)
Lemma cfg_indep {A} (f : cfg -> res A) (v : A) : (forall c, f c = Ok v) -> cfg_independent f.
Proof. intros H c1 c2. rewrite (H c1), (H c2). split; [reflexivity | discriminate]. Qed.

Lemma cfg_indep_ex {A} (f : cfg -> res A) : (exists v, forall c, f c = Ok v) -> cfg_independent f.
Proof. intros [v H]. exact (cfg_indep f v H). Qed.

(* the two readings are equivalent: one value for all configurations *)
Lemma cfg_independent_value {A} (f : cfg -> res A) :
  cfg_independent f <-> exists v, forall c, f c = Ok v.
Proof.
  split; [|apply cfg_indep_ex].
  intro H. pose (c0 := {| dbg := true; intr := false |}).
  destruct (f c0) as [v|] eqn:E.
  - exists v. intro c. destruct (H c c0) as [E' _]. rewrite E'. exact E.
  - destruct (H c0 c0) as [_ N]. contradiction.
Qed.

Lemma cfg_independent_same {A} (f : cfg -> res A) : cfg_independent f ->
  forall c1 c2 x1 x2, f c1 = Ok x1 -> f c2 = Ok x2 -> x1 = x2.
Proof. intros H c1 c2 x1 x2 E1 E2. destruct (H c1 c2) as [E _]. congruence. Qed.

(* a configuration-independent builder produces the same bytes in every configuration *)
Lemma cfg_independent_bytes {A} (f : cfg -> res A) (enc : A -> val) : cfg_independent f ->
  forall c1 c2 x1 x2, f c1 = Ok x1 -> f c2 = Ok x2 ->
  forall t, ser t (enc x1) = ser t (enc x2) /\ size t (enc x1) = size t (enc x2).
Proof.
  intros H c1 c2 x1 x2 E1 E2 t. rewrite (cfg_independent_same f H c1 c2 x1 x2 E1 E2). split; reflexivity.
Qed.

(* the observable part of a result whose remaining part (an internal iterator state) is only
   known to exist *)
Lemma cfg_indep_obs {A B} (obs : A -> B) (f : cfg -> res A) (o : B) :
  (forall c, exists s, f c = Ok s /\ obs s = o) -> cfg_independent (fun c => rmap obs (f c)).
Proof.
  intro H. apply (cfg_indep _ o). intro c. destruct (H c) as (s & E & Ho). rewrite E.
  cbn [rmap]. rewrite Ho. reflexivity.
Qed.

Lemma rmap_no_panic {A B} (obs : A -> B) (r : res A) : rmap obs r <> Panic <-> r <> Panic.
Proof. destruct r; cbn [rmap]; split; intro H; try discriminate; exfalso; apply H; reflexivity. Qed.

Ltac splits := repeat match goal with |- _ /\ _ => split end.

(* closes `cfg_independent (fun c => f c ..)` from a lemma `forall c, .. -> f c .. = Ok (spec ..)` *)
Ltac ci_by L :=
  let c := fresh "c" in
  eapply cfg_indep; intro c; first [ apply L | eapply L ]; eassumption.

(* ---------- broadword (C14) ---------- *)

Theorem C15_broadword_proof : forall x k, x < W -> k < W ->
  cfg_independent (fun c => popcount c x) /\
  cfg_independent (fun c => lsb c x) /\
  cfg_independent (fun c => msb c x) /\
  cfg_independent (fun c => select_in_word c x k).
Proof.
  intros x k Hx Hk. splits.
  - ci_by popcount_correct.
  - ci_by lsb_correct.
  - ci_by msb_correct.
  - ci_by select_in_word_correct.
Qed.

(* ---------- BitVector (C07) ---------- *)

Theorem C15_bitvector_history_proof : forall ops, ops_ok [] ops ->
  cfg_independent (fun c => run_model c bv_empty ops).
Proof.
  intros ops H c1 c2. destruct (history_canonical c1 c2 ops ops H H eq_refl) as (bv & E1 & E2 & _).
  rewrite E1, E2. split; [reflexivity | discriminate].
Qed.

Theorem C15_bitvector_reads_proof : forall bv, wf bv -> cap_ok bv ->
  forall pos len k inv, pos < W -> len < W -> k < W ->
  cfg_independent (fun c => BitVector.get_bit c bv pos) /\
  cfg_independent (fun c => BitVector.get_bits c bv pos len) /\
  cfg_independent (fun c => BitVector.get_word64 c bv pos) /\
  cfg_independent (fun c => BitVector.num_ones c bv) /\
  cfg_independent (fun c => BitVector.rank1 c bv pos) /\
  cfg_independent (fun c => BitVector.rank0 c bv pos) /\
  cfg_independent (fun c => BitVector.select1 c bv k) /\
  cfg_independent (fun c => BitVector.select0 c bv k) /\
  cfg_independent (fun c => BitVector.predecessor c inv bv pos) /\
  cfg_independent (fun c => BitVector.successor c inv bv pos) /\
  cfg_independent (fun c => BitVector.iter_next c bv pos).
Proof.
  intros bv Hwf Hcap pos len k inv Hp Hl Hk. splits.
  - ci_by get_bit_spec.
  - ci_by get_bits_spec.
  - ci_by get_word64_spec.
  - ci_by num_ones_spec.
  - ci_by rank1_spec.
  - ci_by rank0_spec.
  - ci_by select1_spec.
  - ci_by select0_spec.
  - ci_by predecessor_spec.
  - ci_by successor_spec.
  - ci_by iter_next_spec.
Qed.

(* ---------- Rank9Sel (C01) ---------- *)

Lemma r9_queries_ci x : (forall c, r9_correct c x) -> forall i k, i < W -> k < W ->
  cfg_independent (fun c => r9_num_ones c x) /\
  cfg_independent (fun c => r9_num_zeros c x) /\
  cfg_independent (fun c => r9_access c x i) /\
  cfg_independent (fun c => r9_rank1 c x i) /\
  cfg_independent (fun c => r9_rank0 c x i) /\
  cfg_independent (fun c => r9_select1 c x k) /\
  cfg_independent (fun c => r9_select0 c x k).
Proof.
  intros H i k Hi Hk. splits; eapply cfg_indep; intro c;
    destruct (H c) as (_ & Ho & Hz & Hr & Hs); cbv zeta in *;
    destruct (Hr i Hi) as (Ha & R1 & R0); destruct (Hs k Hk) as (S1 & S0); eassumption.
Qed.

Theorem C15_rank9sel_proof : forall bv h1 h0, wf bv -> cap_ok bv ->
  cfg_independent (fun c => r9_build c bv h1 h0) /\
  (forall c1 c2 x1 x2, r9_build c1 bv h1 h0 = Ok x1 -> r9_build c2 bv h1 h0 = Ok x2 ->
     forall t, ser t (v_r9sel x1) = ser t (v_r9sel x2) /\ size t (v_r9sel x1) = size t (v_r9sel x2)) /\
  (forall c0 x, r9_build c0 bv h1 h0 = Ok x -> forall i k, i < W -> k < W ->
     cfg_independent (fun c => r9_num_ones c x) /\
     cfg_independent (fun c => r9_num_zeros c x) /\
     cfg_independent (fun c => r9_access c x i) /\
     cfg_independent (fun c => r9_rank1 c x i) /\
     cfg_independent (fun c => r9_rank0 c x i) /\
     cfg_independent (fun c => r9_select1 c x k) /\
     cfg_independent (fun c => r9_select0 c x k)).
Proof.
  intros bv h1 h0 Hwf Hcap. destruct (r9_build_correct bv h1 h0 Hwf Hcap) as (x & E & _ & Hc).
  assert (CI : cfg_independent (fun c => r9_build c bv h1 h0)) by exact (cfg_indep _ x E).
  split; [exact CI|]. split.
  - exact (cfg_independent_bytes _ v_r9sel CI).
  - intros c0 x0 E0. rewrite E in E0. injection E0 as <-. apply r9_queries_ci, Hc.
Qed.

Theorem C15_rank9sel_from_bits_proof : forall l h1 h0, lenN l < 2 ^ 56 ->
  cfg_independent (fun c => bv <- from_bits c l ;; r9_build c bv h1 h0).
Proof.
  intros l h1 h0 Hl. destruct (r9_from_bits_correct l h1 h0 Hl) as (x & E & _).
  exact (cfg_indep _ x E).
Qed.

(* ---------- DArray (C02) ---------- *)

Lemma da_queries_ci d : (forall c, da_correct c d) -> forall i k, i < W -> k < W ->
  cfg_independent (fun c => da_num_zeros c d) /\
  cfg_independent (fun c => da_access c d i) /\
  cfg_independent (fun c => da_select1 c d k) /\
  (da_s0 d <> None -> cfg_independent (fun c => da_select0 c d k)) /\
  (da_r9 d <> None -> cfg_independent (fun c => da_rank1 c d i) /\
                      cfg_independent (fun c => da_rank0 c d i)).
Proof.
  intros H i k Hi Hk.
  split; [|split; [|split; [|split]]].
  - eapply cfg_indep; intro c. destruct (H c) as (_ & _ & Hz & _). exact Hz.
  - eapply cfg_indep; intro c. destruct (H c) as (_ & _ & _ & Ha & _). apply Ha, Hi.
  - eapply cfg_indep; intro c. destruct (H c) as (_ & _ & _ & _ & H1 & _). apply H1, Hk.
  - intro Hs. eapply cfg_indep; intro c. destruct (H c) as (_ & _ & _ & _ & _ & H0 & _).
    apply (H0 Hs), Hk.
  - intro Hr. split; eapply cfg_indep; intro c; destruct (H c) as (_ & _ & _ & _ & _ & _ & Hrk);
      apply (Hrk Hr i Hi).
Qed.

Theorem C15_darray_proof : forall bv wr ws0 v, wf bv -> cap_ok bv ->
  (* the select index *)
  cfg_independent (fun c => da_build c bv v) /\
  (forall c0 ix, da_build c0 bv v = Ok ix -> forall k, k < W ->
     cfg_independent (fun c => da_select c ix bv k)) /\
  (* the wrapper *)
  cfg_independent (fun c => da_new c bv) /\
  cfg_independent (fun c => da_build_cfg c bv wr ws0) /\
  (forall c1 c2 d1 d2, da_build_cfg c1 bv wr ws0 = Ok d1 -> da_build_cfg c2 bv wr ws0 = Ok d2 ->
     forall t, ser t (v_darray d1) = ser t (v_darray d2) /\ size t (v_darray d1) = size t (v_darray d2)) /\
  (forall c0 d, da_build_cfg c0 bv wr ws0 = Ok d -> forall i k, i < W -> k < W ->
     cfg_independent (fun c => da_num_zeros c d) /\
     cfg_independent (fun c => da_access c d i) /\
     cfg_independent (fun c => da_select1 c d k) /\
     (ws0 = true -> cfg_independent (fun c => da_select0 c d k)) /\
     (wr = true -> cfg_independent (fun c => da_rank1 c d i) /\
                   cfg_independent (fun c => da_rank0 c d i))).
Proof.
  intros bv wr ws0 v Hwf Hcap.
  destruct (da_index_correct bv v Hwf Hcap) as (ix & Eix & _ & _ & Hsel).
  destruct (da_new_correct bv Hwf Hcap) as (dn & En & _).
  destruct (da_build_cfg_closed bv wr ws0 Hwf Hcap) as (d & E & _ & Hs0 & Hr9 & Hc).
  assert (CI : cfg_independent (fun c => da_build_cfg c bv wr ws0)) by exact (cfg_indep _ d E).
  split; [exact (cfg_indep _ ix Eix)|]. split.
  { intros c0 ix0 E0 k Hk. rewrite Eix in E0. injection E0 as <-.
    eapply cfg_indep; intro c. apply Hsel, Hk. }
  split; [exact (cfg_indep _ dn En)|]. split; [exact CI|]. split.
  - exact (cfg_independent_bytes _ v_darray CI).
  - intros c0 d0 E0 i k Hi Hk. rewrite E in E0. injection E0 as <-.
    destruct (da_queries_ci d Hc i k Hi Hk) as (Q1 & Q2 & Q3 & Q4 & Q5).
    split; [exact Q1|]. split; [exact Q2|]. split; [exact Q3|]. split.
    + intro Hw. apply Q4, Hs0, Hw.
    + intro Hw. apply Q5, Hr9, Hw.
Qed.

Theorem C15_darray_from_bits_proof : forall bits, lenN bits < 2 ^ 56 ->
  cfg_independent (fun c => da_from_bits c bits).
Proof.
  intros bits Hl. destruct (da_from_bits_correct bits Hl) as (d & E & _). exact (cfg_indep _ d E).
Qed.

Theorem C15_darray_enable_proof : forall d, (forall c, da_correct c d) -> cap_ok (da_bv d) ->
  cfg_independent (fun c => da_enable_rank c d) /\
  cfg_independent (fun c => da_enable_select0 c d) /\
  (forall i k, i < W -> k < W ->
     cfg_independent (fun c => da_num_zeros c d) /\
     cfg_independent (fun c => da_access c d i) /\
     cfg_independent (fun c => da_select1 c d k) /\
     (da_s0 d <> None -> cfg_independent (fun c => da_select0 c d k)) /\
     (da_r9 d <> None -> cfg_independent (fun c => da_rank1 c d i) /\
                         cfg_independent (fun c => da_rank0 c d i))).
Proof.
  intros d H Hcap.
  destruct (da_enable_rank_closed d H Hcap) as (d1 & E1 & _).
  destruct (da_enable_select0_correct d H Hcap) as (d2 & E2 & _).
  split; [exact (cfg_indep _ d1 E1)|]. split; [exact (cfg_indep _ d2 E2)|].
  apply da_queries_ci, H.
Qed.

(* ---------- Elias-Fano (C04, C16) ---------- *)

(* queries on any value representing xs with universe u *)
Theorem C15_eliasfano_queries_proof : forall e xs u, ef_rep e xs u ->
  forall k p val rs re n,
  cfg_independent (fun c => ef_select c e k) /\
  cfg_independent (fun c => EliasFano.ef_delta c e k) /\
  (da_s0 (ef_high e) <> None ->
     cfg_independent (fun c => EliasFano.ef_rank c e p) /\
     cfg_independent (fun c => ef_predecessor c e p) /\
     cfg_independent (fun c => ef_successor c e p)) /\
  (* iter(k) then n calls of next(): the outputs (the final iterator state is internal) *)
  cfg_independent (fun c => rmap snd (it <- efi_new c e k ;; efi_run c e n it)) /\
  (* binary search: an index holding val is returned in every configuration (which one, among
     duplicates, is not specified); never a panic *)
  (forall c, rmap (binsearch_ok xs rs re val) (ef_binsearch_range c e rs re val) = Ok true) /\
  (forall c, rmap (binsearch_ok xs 0 (lenN xs) val) (ef_binsearch c e val) = Ok true).
Proof.
  intros e xs u R k p val rs re n.
  split; [eapply cfg_indep; intro c; apply (ef_select_spec e xs u R)|].
  split; [eapply cfg_indep; intro c; apply (ef_delta_spec e xs u R)|].
  split.
  { intro Hs. split; [|split]; eapply cfg_indep; intro c.
    - apply (ef_rank_spec e xs u R c p Hs).
    - apply (ef_predecessor_spec e xs u R c p Hs).
    - apply (ef_successor_spec e xs u R c p Hs). }
  split.
  { apply (cfg_indep_obs snd _ (iter_outputs xs k n)). intro c.
    destruct (efi_spec e xs u R c k n) as (it & it' & E1 & E2).
    exists (it', iter_outputs xs k n). rewrite E1. cbn [bind]. split; [exact E2 | reflexivity]. }
  split.
  - intro c. destruct (ef_binsearch_range_spec e xs u R c val rs re) as (r & E & Hr).
    rewrite E. cbn [rmap]. rewrite Hr. reflexivity.
  - intro c. destruct (ef_binsearch_spec e xs u R c val) as (r & E & Hr).
    rewrite E. cbn [rmap]. rewrite Hr. reflexivity.
Qed.

(* builder histories, build, enable_rank *)
Theorem C15_eliasfano_build_proof : forall u m ops, u < W -> 1 <= m ->
  m + 2 + u / 2 ^ low_len_of u m < 2 ^ 56 -> m * low_len_of u m < 2 ^ 56 ->
  let acc := fst (spec_run u m [] ops) in
  cfg_independent (fun c => efb_new c u m) /\
  (forall c0 b0, efb_new c0 u m = Ok (Some b0) ->
     cfg_independent (fun c => model_run c b0 ops) /\
     (forall b fl, model_run c0 b0 ops = Ok (b, fl) ->
        cfg_independent (fun c => efb_build c b) /\
        (forall c1 c2 e1 e2, efb_build c1 b = Ok e1 -> efb_build c2 b = Ok e2 ->
           forall t, ser t (v_ef e1) = ser t (v_ef e2) /\ size t (v_ef e1) = size t (v_ef e2)) /\
        (forall e, efb_build c0 b = Ok e ->
           ef_rep e acc u /\
           cfg_independent (fun c => ef_enable_rank c e) /\
           (forall e', ef_enable_rank c0 e = Ok e' -> ef_rep e' acc u /\ da_s0 (ef_high e') <> None)))).
Proof.
  intros u m ops Hu Hm Hc1 Hc2 acc.
  (* the initial builder is the same in every configuration *)
  assert (Hnew : exists b0, efb_inv b0 [] u m /\ forall c, efb_new c u m = Ok (Some b0)).
  { pose (cd := {| dbg := true; intr := false |}).
    destruct (efb_history u m Hu Hm Hc1 Hc2 cd []) as (b0 & b & E0 & Er & I).
    cbn [model_run] in Er. injection Er as <-. cbn [spec_run fst] in I.
    exists b0. split; [exact I|]. intro c.
    destruct (efb_history u m Hu Hm Hc1 Hc2 c []) as (b0' & b' & E0' & Er' & I').
    cbn [model_run] in Er'. injection Er' as <-. cbn [spec_run fst] in I'.
    rewrite (efb_inv_unique b0 b0' [] u m I I') in E0'. exact E0'. }
  destruct Hnew as (b0 & I0 & Enew).
  split; [exact (cfg_indep _ (Some b0) Enew)|].
  intros c0 b0' E0. rewrite Enew in E0. injection E0 as <-.
  (* the run *)
  assert (Hrun : exists b, efb_inv b acc u m /\
            forall c, model_run c b0 ops = Ok (b, snd (spec_run u m [] ops))).
  { pose (cd := {| dbg := true; intr := false |}).
    destruct (efb_history u m Hu Hm Hc1 Hc2 cd ops) as (b0' & b & E0 & Er & I).
    exists b. split; [exact I|]. intro c.
    destruct (efb_history u m Hu Hm Hc1 Hc2 c ops) as (b0'' & b' & E0' & Er' & I').
    rewrite Enew in E0'. injection E0' as <-.
    rewrite (efb_inv_unique b b' acc u m I I') in Er'. exact Er'. }
  destruct Hrun as (b & I & Erun).
  split; [exact (cfg_indep _ _ Erun)|].
  intros b' fl Eb. rewrite Erun in Eb. injection Eb as <- _.
  destruct (efb_build_ok_closed u m b acc Hu Hm Hc1 Hc2 I) as (e & Ebuild & R & _).
  assert (CI : cfg_independent (fun c => efb_build c b)) by exact (cfg_indep _ e Ebuild).
  split; [exact CI|]. split; [exact (cfg_independent_bytes _ v_ef CI)|].
  intros e0 Ee. rewrite Ebuild in Ee. injection Ee as <-.
  destruct (ef_enable_rank_ok_closed e acc u R) as (e' & Een & R' & Hs0).
  split; [exact R|]. split; [exact (cfg_indep _ e' Een)|].
  intros e'' Ee'. rewrite Een in Ee'. injection Ee' as <-. split; assumption.
Qed.

(* ---------- CompactVector (C09) ---------- *)

Theorem C15_compactvector_history_proof : forall ops, cvops_ok None ops ->
  cfg_independent (fun c => run_cv_model c None ops).
Proof.
  intros ops H c1 c2. destruct (cv_history_canonical c1 c2 ops ops H H eq_refl) as (ov & E1 & E2).
  rewrite E1, E2. split; [reflexivity | discriminate].
Qed.

Theorem C15_compactvector_reads_proof : forall v xs, cv_rep v xs -> lenN xs * cv_width v < 2 ^ 56 ->
  forall pos, pos < W ->
  cfg_independent (fun c => cv_get_int c v pos) /\
  cfg_independent (fun c => cv_access c v pos) /\
  cfg_independent (fun c => cv_iter_next c v pos) /\
  cfg_independent (fun c => cv_to_list c v).
Proof.
  intros v xs R Hcap pos Hp. splits; eapply cfg_indep; intro c.
  - apply (cv_get_int_spec c v xs R Hcap pos Hp).
  - apply (cv_access_spec c v xs R Hcap pos Hp).
  - apply (cv_iter_next_spec c v xs R Hcap pos Hp).
  - apply (cv_to_list_spec c v xs R Hcap).
Qed.

(* ---------- WaveletMatrix (C05, C06) ---------- *)

Theorem C15_wavelet_proof : forall k s,
  s <> [] /\ max_list s + 1 < W /\ lenN s < 2 ^ 50 ->
  cfg_independent (fun c => wm_new c k s) /\
  (forall c1 c2 w1 w2, wm_new c1 k s = Ok (Some w1) -> wm_new c2 k s = Ok (Some w2) ->
     forall t, ser t (v_wavelet w1) = ser t (v_wavelet w2) /\
               size t (v_wavelet w1) = size t (v_wavelet w2)) /\
  (forall c0 wm, wm_new c0 k s = Ok (Some wm) ->
     forall i a b v j rs, i < W -> a < W -> b < W -> v < W -> j < W ->
     cfg_independent (fun c => wm_access c wm i) /\
     cfg_independent (fun c => wm_rank c wm i v) /\
     cfg_independent (fun c => wm_rank_range c wm a b v) /\
     cfg_independent (fun c => wm_select c wm j v) /\
     cfg_independent (fun c => wm_quantile c wm a b j) /\
     cfg_independent (fun c => wm_intersect c wm rs j)).
Proof.
  intros k s Hs. destruct (wm_new_closed k s Hs) as (wm & E & _).
  assert (CI : cfg_independent (fun c => wm_new c k s)) by exact (cfg_indep _ (Some wm) E).
  split; [exact CI|]. split.
  - intros c1 c2 w1 w2 E1 E2 t.
    assert (Some w1 = Some w2) by exact (cfg_independent_same _ CI c1 c2 _ _ E1 E2).
    replace w2 with w1 by congruence. split; reflexivity.
  - intros c0 wm0 E0 i a b v j rs Hi Ha Hb Hv Hj. splits; eapply cfg_indep; intro c.
    + apply (wm_access_closed c0 k s wm0 Hs E0 c i Hi).
    + apply (wm_rank_closed c0 k s wm0 Hs E0 c i v Hi Hv).
    + apply (wm_rank_range_closed c0 k s wm0 Hs E0 c a b v Ha Hb Hv).
    + apply (wm_select_closed c0 k s wm0 Hs E0 c j v Hj Hv).
    + apply (wm_quantile_closed c0 k s wm0 Hs E0 c a b j Ha Hb Hj).
    + apply (wm_intersect_closed c0 k s wm0 Hs E0 c rs j).
Qed.

(* ---------- the unary iterator (C17) ---------- *)

Theorem C15_unary_proof : forall bv, wf bv -> cap_ok bv ->
  forall p k ops n, p <= bv_len bv -> k < W -> Forall (fun o => sop_arg o < W) ops ->
  N.of_nat n < 2 ^ 50 ->
  cfg_independent (fun c => skip1 c bv (unary_new bv p) k) /\
  cfg_independent (fun c => skip0 c bv (unary_new bv p) k) /\
  cfg_independent (fun c => skip_run c bv (unary_new bv p) ops) /\
  (* n calls of next(): the outputs (the final iterator state is internal) *)
  cfg_independent (fun c => rmap snd (next_run c bv (unary_new bv p) n)).
Proof.
  intros bv Hwf Hcap p k ops n Hp Hk Hops Hn.
  split; [eapply cfg_indep; intro c; apply (skip1_spec c bv p k Hwf Hcap Hp Hk)|].
  split; [eapply cfg_indep; intro c; apply (skip0_spec c bv p k Hwf Hcap Hp Hk)|].
  split; [eapply cfg_indep; intro c; apply (skip_run_ok c bv Hwf Hcap ops p Hp Hops)|].
  apply (cfg_indep_obs snd _
    (firstn n (map Some (filter (fun q => p <=? q) (positions true (bits_of bv))) ++ repeat None n))).
  intro c. destruct (unary_next_run c bv p n Hwf Hcap Hp Hn) as (it' & E).
  eexists. split; [exact E | reflexivity].
Qed.

(* ---------- DacsOpt::compute_opt_widths (C18) ---------- *)

(* Proofs/DP_Walk.v states `exists ws, compute_opt_widths c vals ml = Ok ws /\ optimal ws` for each
   c separately, and two optimal splits need not be equal.  The value computed is however the
   pure table walk `wchain`, started at the level chosen by `minlev`; replaying the assembly of
   `cow_tail_ok` with that explicit witness gives one value for all configurations. *)
Section CowValue.
Variable c : cfg.
Variable h : N -> N.
Variable B n : N.
Variable nums : list N.
Hypothesis HB : B <= 64.
Hypothesis HB1 : 1 <= B.
Hypothesis Hn : n < 2 ^ 56.
Hypothesis hn : forall j, h j <= n.
Hypothesis hpos : forall j, j < B -> 1 <= h j.
Hypothesis Lnums : lenN nums = B + 1.
Hypothesis Hnums : forall j, j <= B -> nthN nums j 0 = h j.

Definition cow_value (h : N -> N) (B ML : N) : list N :=
  wchain h B (N.to_nat (snd (minlev (TT h B) (ML - 1)))) 0.

Lemma cow_tail_value ML : 1 <= ML -> ML <= B -> cow_tail c B ML nums = Ok (cow_value h B ML).
Proof.
  intros HM1 HMB. unfold cow_tail, cow_value.
  rewrite (col0_fold c h B n nums HB HB1 Hn hn hpos Lnums Hnums (nseq B) ([], []))
    by (intros j Hj; apply In_nseq; exact Hj).
  cbn [bind fst snd app].
  rewrite sub_ok by exact HM1. cbn [bind].
  set (ml1 := ML - 1). set (m := N.to_nat ml1).
  change (dp_columns c m B nums [map (fun j => fst (tab h B 0 j)) (nseq B) ++ [0]]
                                [map (fun i => snd (tab h B 0 i)) (nseq B) ++ [0]])
    with (dp_columns c m B nums (map (col_s h B) (seq 0 1)) (map (col_b h B) (seq 0 1))).
  rewrite (dp_columns_ok c h B n nums HB HB1 Hn hn hpos Lnums Hnums).
  cbn [bind fst snd]. change (1 + m)%nat with (S m).
  rewrite idx_ok by (rewrite lenN_map_seq; lia). cbn [bind].
  rewrite nthN_map_seq by (change (N.to_nat 0) with 0%nat; lia). change (N.to_nat 0) with 0%nat.
  rewrite idx_ok by (rewrite lenN_col_s; lia). cbn [bind].
  rewrite (nthN_col_s h B n nums HB HB1 Hn hn hpos Lnums Hnums) by lia. change (fst (tab h B 0 0)) with (TT h B 0).
  rewrite (lev_fold h B n nums HB HB1 Hn hn hpos Lnums Hnums) by (unfold m; lia). cbn [bind].
  destruct (minlev_spec (TT h B) ml1) as [M1 [M2 M3]].
  set (rsN := snd (minlev (TT h B) ml1)) in *. set (rs := N.to_nat rsN).
  rewrite add_ok by (unfold W; lia). cbn [bind].
  assert (Hmin : forall r, (r <= m)%nat -> fst (tab h B rs 0) <= fst (tab h B r 0)).
  { intros r Hr. specialize (M3 (N.of_nat r) ltac:(unfold m in Hr; lia)).
    unfold TT in M2, M3. rewrite Nat2N.id in M3. fold rs in M2. rewrite <- M2. exact M3. }
  destruct (dp_pure_optimal h B n HB Hn hn hpos m rs HB1 ltac:(unfold rs, m; lia) Hmin)
    as [C [Len Opt]].
  set (ws := wchain h B rs 0) in *.
  replace (N.to_nat (rsN + 1)) with (S rs) by (unfold rs; lia).
  change (repeat 0 (S rs)) with ([] ++ repeat 0 (S rs)).
  rewrite (walk_ok c h B n nums HB HB1 Hn hn hpos Lnums Hnums
             (rsN + 1) (map (col_b h B) (seq 0 (S m))) ltac:(lia)
             ltac:(intros k Hk; rewrite idx_ok by (rewrite lenN_map_seq; unfold m; lia);
                   rewrite nthN_map_seq by (unfold m; lia); rewrite Nat2N.id; reflexivity)
             rs 66%nat 0 0 []) by (first [reflexivity | unfold rs; lia]).
  fold ws. rewrite Len, Nat.sub_diag. cbn [repeat app]. rewrite app_nil_r. cbn [bind].
  assert (LenN : lenN ws = rsN + 1) by (unfold lenN; rewrite Len; unfold rs; lia).
  rewrite assert_ok by (apply N.eqb_refl). cbn [bind].
  rewrite assert_ok by (apply N.eqb_eq; lia). cbn [bind].
  pose proof (chain_sum B ws 0 C) as Sum.
  rewrite fold_add_ok by (unfold W; lia). cbn [bind].
  rewrite assert_ok by (apply N.eqb_eq; lia). cbn [bind].
  reflexivity.
Qed.
End CowValue.

(* the widths as a function of the values and the level limit only *)
Definition opt_widths_value (vals : list N) (ml : N) : list N :=
  let B := bitlen (max_list vals) in cow_value (reach vals) B (N.min ml B).

Theorem compute_opt_widths_value : forall c vals ml,
  vals <> [] -> 1 <= ml -> ml <= 64 -> Forall (fun x => x < W) vals -> lenN vals < 2 ^ 56 ->
  compute_opt_widths c vals ml = Ok (opt_widths_value vals ml).
Proof.
  intros c vals ml Hne Hml1 Hml64 HW Hlen. unfold opt_widths_value. cbv zeta.
  set (B := bitlen (max_list vals)).
  pose proof (max_list_lt_W vals HW) as HmW.
  pose proof (bitlen_pos (max_list vals)) as HB1. fold B in HB1.
  pose proof (bitlen_le_64 _ HmW) as HB. fold B in HB.
  assert (Hv : forall x, In x vals -> x < W /\ bitlen x <= B).
  { intros x Hx. split; [rewrite Forall_forall in HW; apply HW, Hx|].
    apply bitlen_mono, max_list_ge, Hx. }
  assert (hpos : forall j, j < B -> 1 <= reach vals j).
  { intros j Hj. apply (reach_pos vals (max_list vals) j); [apply max_list_in, Hne | exact Hj]. }
  destruct (nums_ints_ok c B HB vals Hv Hlen) as [nums [En [Ln Nn]]].
  rewrite cow_unfold.
  rewrite assert_ok.
  2:{ apply negb_true_iff, N.eqb_neq. destruct vals; [congruence|]. rewrite lenN_cons. lia. }
  cbn [bind].
  rewrite assert_ok by (apply negb_true_iff, N.eqb_neq; lia). cbn [bind].
  rewrite needed_bits_ok by exact HmW. cbn [bind]. fold B.
  rewrite En. cbn [bind].
  rewrite idx_ok by lia. cbn [bind].
  rewrite Nn by lia. rewrite reach_0.
  rewrite dassert_ok by apply N.eqb_refl. cbn [bind].
  rewrite (last_opt_nthN nums B 0 Ln). cbn [unwrap bind].
  rewrite Nn by lia. rewrite (reach_top vals B) by (intros x Hx; apply Hv, Hx).
  rewrite dassert_ok by reflexivity. cbn [bind].
  apply (cow_tail_value c (reach vals) B (lenN vals) nums HB HB1 Hlen (reach_le vals) hpos Ln Nn
           (N.min ml B)); lia.
Qed.

Theorem C15_dacsopt_widths_proof : forall vals ml,
  vals <> [] -> 1 <= ml -> ml <= 64 -> Forall (fun x => x < W) vals -> lenN vals < 2 ^ 56 ->
  cfg_independent (fun c => compute_opt_widths c vals ml).
Proof.
  intros vals ml H1 H2 H3 H4 H5. apply (cfg_indep _ (opt_widths_value vals ml)).
  intro c. apply compute_opt_widths_value; assumption.
Qed.

Print Assumptions C15_broadword_proof.
Print Assumptions C15_bitvector_history_proof.
Print Assumptions C15_bitvector_reads_proof.
Print Assumptions C15_rank9sel_proof.
Print Assumptions C15_rank9sel_from_bits_proof.
Print Assumptions C15_darray_proof.
Print Assumptions C15_darray_from_bits_proof.
Print Assumptions C15_darray_enable_proof.
Print Assumptions C15_eliasfano_queries_proof.
Print Assumptions C15_eliasfano_build_proof.
Print Assumptions C15_compactvector_history_proof.
Print Assumptions C15_compactvector_reads_proof.
Print Assumptions C15_wavelet_proof.
Print Assumptions C15_unary_proof.
Print Assumptions compute_opt_widths_value.
Print Assumptions C15_dacsopt_widths_proof.
