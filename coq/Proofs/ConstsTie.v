(* Proofs/ConstsTie.v — every constant hard-coded in Model/*.v equals the constant the
   translator reads from the Rust source on this run (DESIGN.md section 5.1).  A changed
   constant in /repo breaks exactly one of these, by name. *)
From Sucds Require Import Base.Res Model.BitVector Model.Rank9 Model.DArray Model.EliasFano Model.Dacs
  gen.ConstsGen gen.BroadwordGen.
Open Scope N_scope.

Example tie_WORD_LEN : bit_vector_WORD_LEN = BitVector.WORD_LEN := eq_refl.
Example tie_r9_BLOCK_LEN : rank9_BLOCK_LEN = Rank9.BLOCK_LEN := eq_refl.
Example tie_r9_ONES_PER_HINT : rank9_SELECT_ONES_PER_HINT = Rank9.SELECT_ONES_PER_HINT := eq_refl.
Example tie_r9_ZEROS_PER_HINT : rank9_SELECT_ZEROS_PER_HINT = Rank9.SELECT_ZEROS_PER_HINT := eq_refl.
Example tie_da_BLOCK_LEN : darray_BLOCK_LEN = DArray.DA_BLOCK_LEN := eq_refl.
Example tie_da_SUBBLOCK_LEN : darray_SUBBLOCK_LEN = DArray.SUBBLOCK_LEN := eq_refl.
Example tie_da_MAX_IN_BLOCK_DISTANCE : darray_MAX_IN_BLOCK_DISTANCE = DArray.MAX_IN_BLOCK_DISTANCE := eq_refl.
Example tie_ef_LINEAR_SCAN_THRESHOLD : elias_fano_LINEAR_SCAN_THRESHOLD = EliasFano.LINEAR_SCAN_THRESHOLD := eq_refl.
Example tie_db_LEVEL_WIDTH : dacs_byte_LEVEL_WIDTH = Dacs.LEVEL_WIDTH := eq_refl.
Example tie_db_LEVEL_MASK : dacs_byte_LEVEL_MASK = Dacs.LEVEL_MASK := eq_refl.
Example tie_ONES_STEP_9 : BroadwordGen.ONES_STEP_9 = Rank9.ONES_STEP_9 := eq_refl.
Example tie_MSBS_STEP_9 : BroadwordGen.MSBS_STEP_9 = Rank9.MSBS_STEP_9 := eq_refl.
Example tie_INV_COUNT_STEP_9 : BroadwordGen.INV_COUNT_STEP_9 = Rank9.INV_COUNT_STEP_9 := eq_refl.

(* the model's copy of uleq_step_9 is the generated function *)
Lemma tie_uleq_step_9 : forall c x y, BroadwordGen.uleq_step_9 c x y = Rank9.uleq_step_9 c x y.
Proof.
  intros c x y. unfold BroadwordGen.uleq_step_9, Rank9.uleq_step_9.
  destruct (sub c _ _) as [t|]; cbn [bind]; [|reflexivity].
  destruct (shr c _ _); reflexivity.
Qed.
