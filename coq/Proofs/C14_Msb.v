(* Proofs/C14_Msb.v — msb: the six smear steps, x ^ (x >> 1) and the de Bruijn lookup (part of C14). *)
From Sucds Require Import Base.Res Spec.WordSpec gen.BroadwordGen Proofs.ResLemmas Proofs.C14_Bits
  Proofs.C14_Popcount Proofs.C14_Lsb.
From Coq Require Import ZArith ZifyN ZifyBool ZifyNat Lia.
Ltac Zify.zify_post_hook ::= Z.div_mod_to_equations.
Open Scope N_scope.

(* y has no bit above L and all bits in (L - n, L] *)
Definition smeared (L n y : N) : Prop :=
  (forall i, L < i -> N.testbit y i = false) /\
  (forall i, i <= L -> L < i + n -> N.testbit y i = true).

Lemma smeared_init x : x <> 0 -> smeared (N.log2 x) 1 x.
Proof.
  intro Hz. split.
  - intros i Hi. apply N.bits_above_log2, Hi.
  - intros i H1 H2. replace i with (N.log2 x) by lia. apply N.bit_log2, Hz.
Qed.

Lemma smeared_step L n y : smeared L n y -> smeared L (n + n) (N.lor y (y / 2 ^ n)).
Proof.
  intros [H0 H1]. split.
  - intros i Hi. rewrite N.lor_spec, N.div_pow2_bits. rewrite H0 by exact Hi. rewrite H0 by lia. reflexivity.
  - intros i Hi1 Hi2. rewrite N.lor_spec, N.div_pow2_bits.
    destruct (N.lt_ge_cases L (i + n)) as [Hc|Hc].
    + rewrite H1 by assumption. reflexivity.
    + rewrite (H1 (i + n)) by lia. apply orb_true_r.
Qed.

Lemma smeared_full L n y : L < n -> smeared L n y -> y = N.ones (L + 1).
Proof.
  intros HL [H0 H1]. apply N.bits_inj. intro i.
  destruct (N.lt_ge_cases L i) as [Hc|Hc].
  - rewrite H0 by exact Hc. rewrite N.ones_spec_high by lia. reflexivity.
  - rewrite H1 by lia. rewrite N.ones_spec_low by lia. reflexivity.
Qed.

Lemma ones_xor_shift L : N.lxor (N.ones (L + 1)) (N.ones (L + 1) / 2 ^ 1) = 2 ^ L.
Proof.
  apply N.bits_inj. intro i. rewrite N.lxor_spec, N.div_pow2_bits, N.pow2_bits_eqb.
  destruct (N.eqb_spec L i) as [<-|Hne].
  - rewrite N.ones_spec_low by lia. rewrite N.ones_spec_high by lia. reflexivity.
  - destruct (N.lt_ge_cases i L) as [Hc|Hc].
    + rewrite !N.ones_spec_low by lia. reflexivity.
    + rewrite !N.ones_spec_high by lia. reflexivity.
Qed.

Lemma log2_lt_64 x : x <> 0 -> x < W -> N.log2 x < 64.
Proof. intros Hz Hx. apply N.log2_lt_pow2; [lia | exact Hx]. Qed.

Theorem msb_correct : forall c x, x < W -> msb c x = Ok (msb_spec x).
Proof.
  intros c x Hx. unfold msb, msb_spec. destruct (intr c).
  - unfold intrinsics_bsr64. destruct (N.eqb_spec x 0) as [->|Hz]; [reflexivity|].
    cbn [negb]. pose proof (log2_lt_64 x Hz Hx) as HL.
    unfold clz64. destruct x as [|p]; [lia|].
    rewrite sub_ok by lia. cbn [bind]. do 2 f_equal. lia.
  - destruct (N.eqb_spec x 0) as [->|Hz]; [reflexivity|].
    pose proof (log2_lt_64 x Hz Hx) as HL.
    pose proof (smeared_init x Hz) as S0.
    cbv zeta.
    rewrite shr_ok by lia. cbn [bind].
    pose proof (smeared_step _ _ _ S0) as S1. change (1 + 1) with 2 in S1.
    rewrite shr_ok by lia. cbn [bind].
    pose proof (smeared_step _ _ _ S1) as S2. change (2 + 2) with 4 in S2.
    rewrite shr_ok by lia. cbn [bind].
    pose proof (smeared_step _ _ _ S2) as S3. change (4 + 4) with 8 in S3.
    rewrite shr_ok by lia. cbn [bind].
    pose proof (smeared_step _ _ _ S3) as S4. change (8 + 8) with 16 in S4.
    rewrite shr_ok by lia. cbn [bind].
    pose proof (smeared_step _ _ _ S4) as S5. change (16 + 16) with 32 in S5.
    rewrite shr_ok by lia. cbn [bind].
    pose proof (smeared_step _ _ _ S5) as S6. change (32 + 32) with 64 in S6.
    apply (smeared_full _ _ _ HL) in S6. rewrite S6.
    rewrite shr_ok by lia. cbn [bind].
    rewrite ones_xor_shift. rewrite bit_position_pow2 by exact HL. reflexivity.
Qed.
