(* Proofs/WMQueries.v — access, rank_range / rank and select of a built wavelet matrix against the
   stored sequence (C05). *)
From Sucds Require Import Base.Res Spec.WordSpec Spec.BitSpec Spec.SeqSpec Spec.DacSpec
  Model.BitVector Model.Rank9 Model.DArray Model.CompactVector Model.Wavelet
  Proofs.ResLemmas Proofs.BVAbs Proofs.WordLemmas Proofs.IndexSpecs Proofs.WMLists Proofs.WMBuild.
From Coq Require Import ZArith ZifyN ZifyBool ZifyNat Lia.
Ltac Zify.zify_post_hook ::= Z.div_mod_to_equations.
Open Scope N_scope.

Lemma pow50_W : 2 ^ 50 < W. Proof. vm_compute. reflexivity. Qed.

(* ---------- what a correct layer answers, in terms of the level sequence ---------- *)
Lemma layer_facts c l m xs : backing_correct c l (map (tb m) xs) -> lenN xs < 2 ^ 50 ->
  b_num_bits l = lenN xs /\
  b_num_zeros c l = Ok (nz m xs) /\
  (forall i, i < lenN xs -> b_access c l i = Ok (Some (tb m (nthN xs i 0)))) /\
  (forall i, i <= lenN xs -> b_rank1 c l i = Ok (Some (r1 m xs i))) /\
  (forall i, i <= lenN xs -> b_rank0 c l i = Ok (Some (r0 m xs i))) /\
  (forall j, j < W -> b_select1 c l j = Ok (BitSpec.select true (map (tb m) xs) j)) /\
  (forall j, j < W -> b_select0 c l j = Ok (BitSpec.select false (map (tb m) xs) j)).
Proof.
  intros [Hn [Hz [Hr Hs]]] Hlen. pose proof pow50_W as HW.
  split; [rewrite Hn; apply lenN_map|].
  split; [rewrite Hz, count_false_bits; reflexivity|].
  split; [intros i Hi; destruct (Hr i) as [E _]; [lia|]; rewrite E, access_bits by exact Hi; reflexivity|].
  split; [intros i Hi; destruct (Hr i) as [_ [E _]]; [lia|]; rewrite E, rank_true_bits by exact Hi; reflexivity|].
  split; [intros i Hi; destruct (Hr i) as [_ [_ E]]; [lia|]; rewrite E, rank_false_bits by exact Hi; reflexivity|].
  split; intros j Hj; apply (Hs j Hj).
Qed.

Lemma get_msb_ok c v d m width : d + (m + 1) = width -> width <= 64 ->
  get_msb c v d width = Ok (N.testbit v m).
Proof.
  intros H1 H2. unfold get_msb. rewrite sub_ok by lia. cbn [bind]. rewrite sub_ok by lia. cbn [bind].
  replace (width - d - 1) with m by lia. rewrite shr_ok by lia. cbn [bind].
  rewrite testbit_shr_land. reflexivity.
Qed.

Lemma lor_double_1 a : N.lor (2 * a) 1 = 2 * a + 1.
Proof. destruct a as [|p]; reflexivity. Qed.

Lemma mod_pow2_succ x m : x mod 2 ^ (m + 1) = (if N.testbit x m then 2 ^ m else 0) + x mod 2 ^ m.
Proof.
  rewrite N.pow_add_r. change (2 ^ 1) with 2.
  assert (Hp : 2 ^ m <> 0) by (apply N.pow_nonzero; discriminate).
  rewrite N.mod_mul_r by (try exact Hp; discriminate).
  pose proof (N.testbit_spec' x m) as Ht. rewrite <- Ht.
  destruct (N.testbit x m); cbn [N.b2n]; lia.
Qed.

Definition matchn (n v x : N) : bool := x mod 2 ^ n =? v mod 2 ^ n.
Lemma matchn_0 v x : matchn 0 v x = true.
Proof. unfold matchn. change (2 ^ 0) with 1. rewrite !N.mod_1_r. reflexivity. Qed.
Lemma matchn_succ m v x : matchn (m + 1) v x = Bool.eqb (tb m x) (tb m v) && matchn m v x.
Proof.
  unfold matchn, tb. rewrite !mod_pow2_succ.
  assert (Hp : 2 ^ m <> 0) by (apply N.pow_nonzero; discriminate).
  pose proof (N.mod_lt x (2 ^ m) Hp). pose proof (N.mod_lt v (2 ^ m) Hp).
  destruct (N.testbit x m), (N.testbit v m); cbn [Bool.eqb andb];
    destruct (N.eqb_spec (x mod 2 ^ m) (v mod 2 ^ m)) as [E|E];
    match goal with |- (?a =? ?b) = _ => destruct (N.eqb_spec a b) end; try reflexivity; lia.
Qed.
Lemma matchn_full w v x : x < 2 ^ w -> v < 2 ^ w -> matchn w v x = (x =? v).
Proof. intros Hx Hv. unfold matchn. rewrite !N.mod_small by assumption. reflexivity. Qed.

(* ---------- access ---------- *)
Definition acc_step (c : cfg) := fun (vp : N * N) layer =>
  let '(val, pos) := vp in
  val <- shl c val 1 ;;
  a <- b_access c layer pos ;; a <- unwrap a ;;
  if a : bool then
    r <- b_rank1 c layer pos ;; r <- unwrap r ;;
    z <- b_num_zeros c layer ;;
    p <- add c r z ;; Ok (N.lor val 1, p)
  else
    r <- b_rank0 c layer pos ;; r <- unwrap r ;; Ok (val, r).

Lemma access_layers c n : forall xs ls, layers_ok n xs ls -> lenN xs < 2 ^ 50 ->
  forall d val pos, d + N.of_nat n <= 64 -> val < 2 ^ d -> pos < lenN xs ->
  exists p', fold_res (acc_step c) ls (val, pos)
             = Ok (val * 2 ^ N.of_nat n + nthN xs pos 0 mod 2 ^ N.of_nat n, p').
Proof.
  pose proof pow50_W as HW.
  induction n as [|m IH]; intros xs ls Hok Hlen d val pos Hd Hval Hpos;
    destruct ls as [|l ls]; cbn [layers_ok] in Hok; try contradiction.
  - exists pos. cbn [fold_res]. change (2 ^ N.of_nat 0) with 1. rewrite N.mod_1_r. do 2 f_equal. lia.
  - destruct Hok as [Hl Hrest].
    destruct (layer_facts c l (N.of_nat m) xs (Hl c) Hlen) as [Hn [Hz [Ha [Hr1 [Hr0 _]]]]].
    set (mm := N.of_nat m) in *.
    replace (N.of_nat (Datatypes.S m)) with (mm + 1) in * by lia.
    assert (Hv2 : val * 2 ^ 1 < W).
    { change (2 ^ 1) with 2. assert (2 ^ d <= 2 ^ 63) by (apply N.pow_le_mono_r; lia).
      assert (2 ^ 63 * 2 = W) by reflexivity. lia. }
    assert (Hd1 : 2 * val + 1 < 2 ^ (d + 1)).
    { rewrite N.pow_add_r. change (2 ^ 1) with 2. lia. }
    cbn [fold_res]. unfold acc_step at 1.
    rewrite shl_ok_small by (try exact Hv2; lia). cbn [bind].
    rewrite Ha by exact Hpos. cbn [bind unwrap].
    set (x := nthN xs pos 0).
    rewrite (mod_pow2_succ x mm). fold (tb mm x).
    pose proof (lenN_part mm xs) as Hlp.
    pose proof (nz_le mm xs) as Hnz.
    destruct (tb mm x) eqn:Eb.
    + rewrite Hr1 by lia. cbn [bind unwrap]. rewrite Hz. cbn [bind].
      destruct (part_nth1 mm xs pos Hpos Eb) as [Hnth Hr].
      pose proof (r1_le_no mm xs (pos + 1)) as H1. pose proof (cnt_tb_ntb mm xs) as H2. fold (nz mm xs) in H2.
      rewrite add_ok by lia. cbn [bind].
      change (2 ^ 1) with 2. rewrite (N.mul_comm val 2), lor_double_1.
      destruct (IH (part mm xs) ls Hrest) with (d := d + 1) (val := 2 * val + 1)
        (pos := r1 mm xs pos + nz mm xs) as [p' Ep]; try lia.
      exists p'. rewrite Ep. rewrite (N.add_comm (r1 mm xs pos)). rewrite Hnth. fold x.
      do 2 f_equal. rewrite N.pow_add_r. change (2 ^ 1) with 2. lia.
    + rewrite Hr0 by lia. cbn [bind unwrap].
      assert (Eb' : ntb mm (nthN xs pos 0) = true).
      { change (negb (tb mm x) = true). rewrite Eb. reflexivity. }
      destruct (part_nth0 mm xs pos Hpos Eb') as [Hnth Hr].
      pose proof (r0_le_nz mm xs (pos + 1)) as H1.
      change (2 ^ 1) with 2.
      destruct (IH (part mm xs) ls Hrest) with (d := d + 1) (val := val * 2)
        (pos := r0 mm xs pos) as [p' Ep]; try lia.
      exists p'. rewrite Ep, Hnth. fold x.
      do 2 f_equal. rewrite N.pow_add_r. change (2 ^ 1) with 2. lia.
Qed.

(* ---------- rank_range ---------- *)
Definition rr_step (c : cfg) (width val : N) := fun (st : N * N * N) layer =>
  let '(depth, sp, ep) := st in
  bit <- get_msb c val depth width ;;
  if bit : bool then
    z <- b_num_zeros c layer ;;
    a <- b_rank1 c layer sp ;; a <- unwrap a ;; sp <- add c a z ;;
    b <- b_rank1 c layer ep ;; b <- unwrap b ;; ep <- add c b z ;;
    Ok (depth + 1, sp, ep)
  else
    a <- b_rank0 c layer sp ;; a <- unwrap a ;;
    b <- b_rank0 c layer ep ;; b <- unwrap b ;;
    Ok (depth + 1, a, b).

Lemma matchn_filter_tb m v l : tb m v = true ->
  cntf (matchn m v) (filter (tb m) l) = cntf (matchn (m + 1) v) l.
Proof.
  intro Hv. rewrite cntf_filter. apply cntf_ext. intros x _. rewrite matchn_succ, Hv.
  destruct (tb m x); reflexivity.
Qed.
Lemma matchn_filter_ntb m v l : tb m v = false ->
  cntf (matchn m v) (filter (ntb m) l) = cntf (matchn (m + 1) v) l.
Proof.
  intro Hv. rewrite cntf_filter. apply cntf_ext. intros x _. rewrite matchn_succ, Hv.
  unfold ntb. fold (tb m x). destruct (tb m x); reflexivity.
Qed.

Lemma rank_layers c width v n : forall xs ls, layers_ok n xs ls -> lenN xs < 2 ^ 50 ->
  forall d a b, d + N.of_nat n = width -> width <= 64 -> a <= b -> b <= lenN xs ->
  exists a' b', fold_res (rr_step c width v) ls (d, a, b) = Ok (d + N.of_nat n, a', b') /\
    a' <= b' /\ b' - a' = cntf (matchn (N.of_nat n) v) (sub_seq xs a b).
Proof.
  pose proof pow50_W as HW.
  induction n as [|m IH]; intros xs ls Hok Hlen d a b Hd Hw Hab Hb;
    destruct ls as [|l ls]; cbn [layers_ok] in Hok; try contradiction.
  - exists a, b. cbn [fold_res]. split; [do 3 f_equal; lia|]. split; [exact Hab|].
    rewrite cntf_true by (intros; apply matchn_0). rewrite sub_seq_len by assumption. reflexivity.
  - destruct Hok as [Hl Hrest].
    destruct (layer_facts c l (N.of_nat m) xs (Hl c) Hlen) as [Hn [Hz [Ha [Hr1 [Hr0 _]]]]].
    set (mm := N.of_nat m) in *.
    replace (N.of_nat (Datatypes.S m)) with (mm + 1) in * by lia.
    pose proof (lenN_part mm xs) as Hlp.
    pose proof (cnt_tb_ntb mm xs) as H2. fold (nz mm xs) in H2.
    cbn [fold_res]. unfold rr_step at 1.
    rewrite (get_msb_ok c v d mm width) by assumption. cbn [bind].
    destruct (N.testbit v mm) eqn:Ev.
    + rewrite Hz. cbn [bind]. rewrite !Hr1 by lia. cbn [bind unwrap].
      pose proof (r1_le_no mm xs b Hb) as H1.
      pose proof (r1_split mm xs a b Hab Hb) as H3.
      rewrite !add_ok by lia. cbn [bind].
      destruct (IH (part mm xs) ls Hrest) with (d := d + 1) (a := r1 mm xs a + nz mm xs) (b := r1 mm xs b + nz mm xs)
        as [a' [b' [E [Hle Hcnt]]]]; try lia.
      exists a', b'. rewrite E. split; [do 3 f_equal; lia|]. split; [exact Hle|].
      rewrite Hcnt. rewrite !(N.add_comm _ (nz mm xs)), part_range1 by assumption.
      apply matchn_filter_tb. exact Ev.
    + rewrite !Hr0 by lia. cbn [bind unwrap].
      pose proof (r0_le_nz mm xs b Hb) as H1. pose proof (nz_le mm xs) as H4.
      pose proof (r0_split mm xs a b Hab Hb) as H3.
      destruct (IH (part mm xs) ls Hrest) with (d := d + 1) (a := r0 mm xs a) (b := r0 mm xs b)
        as [a' [b' [E [Hle Hcnt]]]]; try lia.
      exists a', b'. rewrite E. split; [do 3 f_equal; lia|]. split; [exact Hle|].
      rewrite Hcnt. rewrite part_range0 by assumption.
      apply matchn_filter_ntb. exact Ev.
Qed.

(* ---------- select ---------- *)
Definition sel_post (n : nat) (f : N -> bool) (xs : list N) (p k : N) (res : option N) : Prop :=
  (forall r, is_sel f xs p k r -> res = Some r) /\
  (cntf f (sub_seq xs p (lenN xs)) <= k ->
     res = None \/ (n = 0%nat /\ exists r, res = Some r /\ lenN xs <= r)) /\
  (forall r, res = Some r -> r < W).

Lemma sel_post_ge n f xs p k r : p <= lenN xs -> sel_post n f xs p k (Some r) -> p <= r.
Proof.
  intros Hp [HA [HB _]]. destruct (sel_dichotomy f xs p k Hp) as [H|[r' H]].
  - destruct (HB H) as [E|[_ [r2 [E Hr2]]]]; [discriminate|]. injection E as ->. lia.
  - pose proof (HA r' H) as E. injection E as ->. destruct H as [H _]. exact H.
Qed.

Lemma is_sel_ext f g xs p k r : (forall x, In x xs -> f x = g x) -> is_sel f xs p k r -> is_sel g xs p k r.
Proof.
  intros He [H1 [H2 [H3 H4]]]. unfold is_sel. repeat split; try assumption.
  - rewrite <- He; [exact H3|]. unfold nthN. apply nth_In. unfold lenN in H2. lia.
  - rewrite <- H4. symmetry. apply cntf_ext. intros x Hx. apply He. apply (sub_seq_In xs p r), Hx.
Qed.

Lemma is_sel_down1 m v xs p k r : tb m v = true ->
  is_sel (matchn (m + 1) v) xs p k r ->
  is_sel (matchn m v) (part m xs) (r1 m xs p + nz m xs) k (nz m xs + r1 m xs r) /\ tb m (nthN xs r 0) = true.
Proof.
  intros Hv [H1 [H2 [H3 H4]]]. rewrite matchn_succ, Hv in H3.
  assert (Hb : tb m (nthN xs r 0) = true) by (destruct (tb m (nthN xs r 0)); [reflexivity | discriminate]).
  rewrite Hb in H3. cbn [Bool.eqb andb] in H3.
  destruct (part_nth1 m xs r H2 Hb) as [Hnth Hr].
  pose proof (r1_le_no m xs (r + 1)) as H5. pose proof (cnt_tb_ntb m xs) as H6. fold (nz m xs) in H6.
  pose proof (r1_split m xs p r) as H7.
  split; [|exact Hb]. unfold is_sel. rewrite lenN_part, Hnth.
  split; [lia|]. split; [lia|]. split; [exact H3|].
  rewrite (N.add_comm (r1 m xs p)), part_range1 by lia. rewrite matchn_filter_tb by exact Hv. exact H4.
Qed.
Lemma is_sel_down0 m v xs p k r : tb m v = false ->
  is_sel (matchn (m + 1) v) xs p k r ->
  is_sel (matchn m v) (part m xs) (r0 m xs p) k (r0 m xs r) /\ ntb m (nthN xs r 0) = true.
Proof.
  intros Hv [H1 [H2 [H3 H4]]]. rewrite matchn_succ, Hv in H3.
  assert (Hb : ntb m (nthN xs r 0) = true).
  { unfold ntb. fold (tb m (nthN xs r 0)). destruct (tb m (nthN xs r 0)); [discriminate | reflexivity]. }
  assert (Hb' : tb m (nthN xs r 0) = false).
  { unfold ntb in Hb. fold (tb m (nthN xs r 0)) in Hb. destruct (tb m (nthN xs r 0)); [discriminate | reflexivity]. }
  rewrite Hb' in H3. cbn [Bool.eqb andb] in H3.
  destruct (part_nth0 m xs r H2 Hb) as [Hnth Hr].
  pose proof (r0_le_nz m xs (r + 1)) as H5. pose proof (nz_le m xs) as H6.
  pose proof (r0_split m xs p r) as H7.
  split; [|exact Hb]. unfold is_sel. rewrite lenN_part, Hnth.
  split; [lia|]. split; [lia|]. split; [exact H3|].
  rewrite part_range0 by lia. rewrite matchn_filter_ntb by exact Hv. exact H4.
Qed.

Lemma select_layers c width v k : k < W ->
  forall n xs ls, layers_ok n xs ls -> lenN xs < 2 ^ 50 ->
  forall d p, d + N.of_nat n = width -> width <= 64 -> p <= lenN xs ->
  exists res, select_helper c width ls k v p d = Ok res /\
              sel_post n (matchn (N.of_nat n) v) xs p k res.
Proof.
  intro Hk. pose proof pow50_W as HW.
  induction n as [|m IH]; intros xs ls Hok Hlen d p Hd Hw Hp;
    destruct ls as [|l ls]; cbn [layers_ok] in Hok; try contradiction.
  - eexists. split; [reflexivity|]. cbv zeta. split; [|split].
    + intros r [H1 [H2 [_ H4]]].
      rewrite cntf_true in H4 by (intros; apply matchn_0). rewrite sub_seq_len in H4 by lia.
      destruct (N.ltb_spec (p + k) W) as [_|H5]; [f_equal; lia | lia].
    + intro H. rewrite cntf_true in H by (intros; apply matchn_0). rewrite sub_seq_len in H by lia.
      destruct (N.ltb_spec (p + k) W) as [H5|H5]; [right | left; reflexivity].
      split; [reflexivity|]. exists (p + k). split; [reflexivity | lia].
    + intros r. destruct (N.ltb_spec (p + k) W) as [H5|H5]; [|discriminate].
      intro E. injection E as <-. exact H5.
  - destruct Hok as [Hl Hrest].
    destruct (layer_facts c l (N.of_nat m) xs (Hl c) Hlen) as [Hn [Hz [Ha [Hr1 [Hr0 [Hs1 Hs0]]]]]].
    set (mm := N.of_nat m) in *.
    replace (N.of_nat (Datatypes.S m)) with (mm + 1) in * by lia.
    pose proof (lenN_part mm xs) as Hlp.
    pose proof (cnt_tb_ntb mm xs) as H2. fold (nz mm xs) in H2.
    cbn [select_helper].
    rewrite (get_msb_ok c v d mm width) by assumption. cbn [bind].
    destruct (N.testbit v mm) eqn:Ev.
    + rewrite Hz. cbn [bind]. rewrite Hr1 by lia. cbn [bind unwrap].
      pose proof (r1_le_no mm xs p Hp) as H1.
      rewrite add_ok by lia. cbn [bind].
      destruct (IH (part mm xs) ls Hrest) with (d := d + 1) (p := r1 mm xs p + nz mm xs)
        as [res' [E Hpost]]; try lia.
      rewrite E. cbn [bind].
      exists (match res' with None => None | Some k' => BitSpec.select true (map (tb mm) xs) (k' - nz mm xs) end).
      split.
      * destruct res' as [k'|]; [|reflexivity].
        assert (Hge : r1 mm xs p + nz mm xs <= k') by (eapply sel_post_ge; [|exact Hpost]; lia).
        rewrite sub_ok by lia. cbn [bind]. apply Hs1.
        destruct Hpost as [_ [_ HC]]. pose proof (HC k' eq_refl). lia.
      * destruct Hpost as [HA [HB HC]]. split; [|split].
        -- intros r Hsel. destruct (is_sel_down1 mm v xs p k r Ev Hsel) as [Hs' Hb].
           rewrite (HA _ Hs'). replace (nz mm xs + r1 mm xs r - nz mm xs) with (r1 mm xs r) by lia.
           apply select_true_bits; [apply Hsel | exact Hb].
        -- intro Hc. left.
           assert (Hc' : cntf (matchn mm v) (sub_seq (part mm xs) (r1 mm xs p + nz mm xs) (lenN (part mm xs))) <= k).
           { rewrite Hlp. replace (lenN xs) with (nz mm xs + r1 mm xs (lenN xs)) at 1 by (rewrite r1_full; lia).
             rewrite (N.add_comm (r1 mm xs p)), part_range1 by lia.
             rewrite matchn_filter_tb by exact Ev. exact Hc. }
           destruct (HB Hc') as [->|[_ [r' [-> Hr']]]]; [reflexivity|].
           apply select_true_none. lia.
        -- intros r Er. destruct res' as [k'|]; [|discriminate]. apply select_true_lt in Er. lia.
    + rewrite Hr0 by lia. cbn [bind unwrap].
      pose proof (r0_le_nz mm xs p Hp) as H1. pose proof (nz_le mm xs) as H3.
      destruct (IH (part mm xs) ls Hrest) with (d := d + 1) (p := r0 mm xs p)
        as [res' [E Hpost]]; try lia.
      rewrite E. cbn [bind].
      exists (match res' with None => None | Some k' => BitSpec.select false (map (tb mm) xs) k' end).
      split.
      * destruct res' as [k'|]; [|reflexivity]. apply Hs0.
        destruct Hpost as [_ [_ HC]]. apply (HC k' eq_refl).
      * pose proof Hpost as [HA [HB HC]]. split; [|split].
        -- intros r Hsel. destruct (is_sel_down0 mm v xs p k r Ev Hsel) as [Hs' Hb].
           rewrite (HA _ Hs'). apply select_false_bits; [apply Hsel | exact Hb].
        -- intro Hc. left. destruct res' as [k'|]; [|reflexivity].
           apply select_false_none.
           assert (Hc' : cntf (matchn mm v) (sub_seq (part mm xs) (r0 mm xs p) (nz mm xs)) <= k).
           { rewrite <- (r0_full mm xs). rewrite part_range0 by lia.
             rewrite matchn_filter_ntb by exact Ev. exact Hc. }
           destruct (sel_dichotomy (matchn mm v) (part mm xs) (r0 mm xs p) k ltac:(lia)) as [H|[r' H]].
           ++ destruct (HB H) as [E'|[_ [r2 [E' Hr2]]]]; [discriminate|]. injection E' as ->. lia.
           ++ pose proof (HA r' H) as E'. injection E' as E'. subst r'.
              destruct (N.lt_ge_cases k' (nz mm xs)) as [Hlt|Hge]; [|exact Hge].
              pose proof (is_sel_count _ _ _ _ _ (nz mm xs) H Hlt ltac:(lia)). lia.
        -- intros r Er. destruct res' as [k'|]; [|discriminate]. apply select_false_lt in Er. lia.
Qed.

Section Queries.
Variables (wm : wavelet) (s : list N).
Hypothesis Hok : wm_ok wm s.
Hypothesis Hmax : max_list s + 1 < W.
Hypothesis Hlen : lenN s < 2 ^ 50.
Let w := bitlen (max_list s + 1).

Lemma w_bounds : 1 <= w /\ w <= 64 /\ max_list s + 1 < 2 ^ w.
Proof. apply bitlen_bounds; [lia | exact Hmax]. Qed.
Lemma elem_lt x : In x s -> x < 2 ^ w.
Proof. intro H. pose proof (max_list_ge s x H). pose proof w_bounds. lia. Qed.
Lemma elem_le_max x : In x s -> x < wm_alph_size wm.
Proof. intro H. pose proof (max_list_ge s x H). destruct Hok as [E _]. rewrite E. lia. Qed.
Lemma nthN_In (l : list N) i : i < lenN l -> In (nthN l i 0) l.
Proof. intro H. unfold nthN. apply nth_In. unfold lenN in H. lia. Qed.

Theorem wm_access_ok c i : i < W -> wm_access c wm i = Ok (nth_opt s i).
Proof.
  intro Hi. unfold wm_access. rewrite (wm_ok_len wm s Hmax Hok).
  destruct (N.leb_spec (lenN s) i) as [H|H].
  - rewrite nth_opt_oob by exact H. reflexivity.
  - destruct Hok as [_ HL]. fold w in HL. destruct w_bounds as [H1 [H2 _]].
    destruct (access_layers c (N.to_nat w) s (wm_layers wm) HL Hlen 0 0 i) as [p' E]; [lia | lia | exact H |].
    change (fold_res _ (wm_layers wm) (0, i)) with (fold_res (acc_step c) (wm_layers wm) (0, i)).
    rewrite E. cbn [bind fst]. rewrite nth_opt_nthN by exact H.
    rewrite N2Nat.id, N.mul_0_l, N.add_0_l. rewrite N.mod_small by (apply elem_lt, nthN_In, H). reflexivity.
Qed.
Lemma val_lt v : v < wm_alph_size wm -> v < 2 ^ w.
Proof. intro H. destruct Hok as [E _]. rewrite E in H. pose proof w_bounds. lia. Qed.
Lemma count_val_big v l : (forall x, In x l -> In x s) -> wm_alph_size wm <= v -> count_val v l = 0.
Proof.
  intros Hin Hv. unfold count_val. induction l as [|x l IH]; [reflexivity|].
  cbn [filter]. pose proof (elem_le_max x (Hin x (or_introl eq_refl))).
  destruct (N.eqb_spec x v) as [E|E]; [lia|]. apply IH. intros y Hy. apply Hin. right. exact Hy.
Qed.

Theorem wm_rank_range_ok c a b v : a < W -> b < W -> v < W ->
  wm_rank_range c wm a b v = Ok (SeqSpec.wm_rank_range s a b v).
Proof.
  intros Ha Hb Hv. unfold wm_rank_range, SeqSpec.wm_rank_range. rewrite (wm_ok_len wm s Hmax Hok).
  destruct (N.ltb_spec (lenN s) b) as [H|H]; [reflexivity|].
  destruct (N.leb_spec b a) as [H1|H1].
  { rewrite sub_seq_nil by exact H1. reflexivity. }
  destruct (N.leb_spec (wm_alph_size wm) v) as [H2|H2].
  { rewrite count_val_big; [reflexivity | apply sub_seq_In | exact H2]. }
  pose proof Hok as [_ HL]. fold w in HL. destruct w_bounds as [Hw1 [Hw2 _]].
  rewrite (wm_ok_width wm s Hok). fold w.
  destruct (rank_layers c w v (N.to_nat w) s (wm_layers wm) HL Hlen 0 a b) as [a' [b' [E [Hle Hcnt]]]]; try lia.
  change (fold_res _ (wm_layers wm) (0, a, b)) with (fold_res (rr_step c w v) (wm_layers wm) (0, a, b)).
  rewrite E. cbn [bind]. destruct (N.leb_spec a' b') as [_|H3]; [|lia].
  rewrite Hcnt, N2Nat.id. do 2 f_equal. unfold count_val. apply cntf_ext.
  intros x Hx. apply matchn_full; [apply elem_lt, (sub_seq_In s a b), Hx | apply val_lt, H2].
Qed.
Theorem wm_rank_ok c i v : i < W -> v < W -> wm_rank c wm i v = Ok (SeqSpec.wm_rank_range s 0 i v).
Proof. intros Hi Hv. apply wm_rank_range_ok; [unfold W; lia | exact Hi | exact Hv]. Qed.
Theorem wm_select_ok c k v : k < W -> v < W -> wm_select c wm k v = Ok (SeqSpec.wm_select s k v).
Proof.
  intros Hk Hv. unfold wm_select.
  destruct (N.leb_spec (wm_alph_size wm) v) as [H2|H2].
  { rewrite wm_select_none; [reflexivity|].
    change (cntf (fun x => x =? v) s) with (count_val v s). rewrite count_val_big; [lia | auto | exact H2]. }
  pose proof Hok as [_ HL]. fold w in HL. destruct w_bounds as [Hw1 [Hw2 _]].
  rewrite (wm_ok_width wm s Hok). fold w.
  destruct (select_layers c w v k Hk (N.to_nat w) s (wm_layers wm) HL Hlen 0 0) as [res [E [HA [HB _]]]]; try lia.
  rewrite E. f_equal. rewrite N2Nat.id in HA, HB.
  assert (Hext : forall x, In x s -> matchn w v x = (x =? v)).
  { intros x Hx. apply matchn_full; [apply elem_lt, Hx | apply val_lt, H2]. }
  destruct (sel_dichotomy (fun x => x =? v) s 0 k ltac:(lia)) as [H|[r H]].
  - rewrite sub_seq_all in H. rewrite (wm_select_none v s k H).
    destruct HB as [->|[Hz _]]; [|reflexivity | lia].
    rewrite sub_seq_all. rewrite (cntf_ext _ (fun x => x =? v)) by exact Hext. exact H.
  - rewrite (wm_select_some v s k r H). apply HA.
    apply (is_sel_ext (fun x => x =? v)); [|exact H]. intros x Hx. symmetry. apply Hext, Hx.
Qed.
End Queries.

(* ---------- the statements for a matrix returned by WaveletMatrix::new ---------- *)
Section Top.
Hypothesis b_build_ok : forall k bv, wf bv -> cap_ok bv ->
  exists b, (forall c, b_build c k bv = Ok b) /\ (forall c, backing_correct c b (bits_of bv)).

Definition seq_ok (s : list N) : Prop := s <> [] /\ max_list s + 1 < W /\ lenN s < 2 ^ 50.

Lemma built_ok c0 k s wm : seq_ok s -> wm_new c0 k s = Ok (Some wm) -> wm_ok wm s.
Proof.
  intros [H1 [H2 H3]] E. destruct (wm_new_ok k b_build_ok s H1 H2 H3) as [wm' [E' Hok]].
  rewrite E' in E. injection E as <-. exact Hok.
Qed.

Theorem wm_new_spec k s : seq_ok s ->
  exists wm, (forall c, wm_new c k s = Ok (Some wm)) /\ wm_len wm = lenN s /\
             wm_alph_size wm = max_list s + 1 /\ wm_alph_width wm = bitlen (max_list s + 1).
Proof.
  intros [H1 [H2 H3]]. destruct (wm_new_ok k b_build_ok s H1 H2 H3) as [wm [E Hok]].
  exists wm. split; [exact E|]. split; [apply wm_ok_len; assumption|].
  split; [apply Hok | apply wm_ok_width, Hok].
Qed.
Theorem wm_new_empty c k : wm_new c k [] = Ok None.
Proof. reflexivity. Qed.

Theorem wm_access_spec c0 k s wm : seq_ok s -> wm_new c0 k s = Ok (Some wm) ->
  forall c i, i < W -> wm_access c wm i = Ok (nth_opt s i).
Proof. intros Hs E c i. apply wm_access_ok; [eapply built_ok; eassumption | apply Hs | apply Hs]. Qed.
Theorem wm_rank_range_spec c0 k s wm : seq_ok s -> wm_new c0 k s = Ok (Some wm) ->
  forall c a b v, a < W -> b < W -> v < W -> wm_rank_range c wm a b v = Ok (SeqSpec.wm_rank_range s a b v).
Proof. intros Hs E c a b v. apply wm_rank_range_ok; [eapply built_ok; eassumption | apply Hs | apply Hs]. Qed.
Theorem wm_rank_spec c0 k s wm : seq_ok s -> wm_new c0 k s = Ok (Some wm) ->
  forall c i v, i < W -> v < W -> wm_rank c wm i v = Ok (SeqSpec.wm_rank_range s 0 i v).
Proof. intros Hs E c i v. apply wm_rank_ok; [eapply built_ok; eassumption | apply Hs | apply Hs]. Qed.
Theorem wm_select_spec c0 k s wm : seq_ok s -> wm_new c0 k s = Ok (Some wm) ->
  forall c j v, j < W -> v < W -> wm_select c wm j v = Ok (SeqSpec.wm_select s j v).
Proof. intros Hs E c j v. apply wm_select_ok; [eapply built_ok; eassumption | apply Hs | apply Hs]. Qed.
End Top.

Print Assumptions wm_new_spec.
Print Assumptions wm_access_spec.
Print Assumptions wm_rank_range_spec.
Print Assumptions wm_select_spec.
