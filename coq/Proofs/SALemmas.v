(* Proofs/SALemmas.v — property C03, foundations: the popcount fold of SArray::from_bits, the
   bridges between the sorted-sequence oracles (Spec/SeqSpec.v) on the list of set positions and
   the plain bit sequence (Spec/BitSpec.v), the capacity of the Elias-Fano layer, and the
   `push_ones` loop (unary iterator feeding the Elias-Fano builder). *)
From Sucds Require Import Base.Res Spec.WordSpec Spec.BitSpec Spec.SeqSpec
  Model.BitVector Model.Unary Model.DArray Model.EliasFano Model.SArray
  Proofs.ResLemmas Proofs.BVAbs Proofs.WordLemmas Proofs.BVReads Proofs.BVReads2
  Proofs.IndexSpecs Proofs.EFRep Proofs.EFQueries Proofs.EFBuilder Proofs.UnaryIter.
From Coq Require Import ZArith ZifyN ZifyBool ZifyNat Lia.
Ltac Zify.zify_post_hook ::= Z.div_mod_to_equations.
Open Scope N_scope.

(* ---------- the number of ones: the popcount fold over all words ---------- *)

Lemma count_all_false l : (forall i, nth i l false = false) -> count true l = 0.
Proof.
  induction l as [|x l IH]; intro H; [reflexivity|].
  pose proof (H 0%nat) as H0. cbn [nth] in H0. subst x. cbn [count Bool.eqb].
  rewrite IH; [reflexivity|]. intro i. exact (H (S i)).
Qed.

Lemma count_bits_of bv : wf bv -> count true (bits_of bv) = popsum (bv_words bv).
Proof.
  intro Hwf. pose proof Hwf as [_ [Hall Hhigh]].
  rewrite <- count_flat_bits by exact Hall.
  rewrite <- (firstn_skipn (N.to_nat (bv_len bv)) (flat_bits (bv_words bv))) at 1.
  rewrite count_app. fold (bits_of bv).
  rewrite (count_all_false (skipn _ _)); [lia|].
  intro i. rewrite nth_skipn_add.
  destruct (Nat.lt_ge_cases (N.to_nat (bv_len bv) + i) (length (flat_bits (bv_words bv)))) as [Hi|Hi].
  - rewrite <- (Nat2N.id (N.to_nat (bv_len bv) + i)).
    rewrite flat_bits_nth by (rewrite flat_bits_length in Hi; unfold lenN; lia).
    apply Hhigh. lia.
  - apply nth_overflow. exact Hi.
Qed.

Lemma sa_popcount_ok c bv : wf bv -> cap_ok bv ->
  fold_res (fun acc w => add c acc (popcN w)) (bv_words bv) 0 = Ok (count true (bits_of bv)).
Proof.
  intros Hwf Hcap. pose proof Hwf as [_ [Hall _]].
  pose proof (wf_nwords bv Hwf) as Hn. pose proof (cap_W bv Hcap) as Hc.
  rewrite fold_popc_ok; [| exact Hall | unfold W; lia].
  rewrite N.add_0_l, count_bits_of by exact Hwf. reflexivity.
Qed.

(* ---------- bridges: SeqSpec on the set positions = BitSpec on the bits ---------- *)

Lemma bridge_select b k : SeqSpec.ef_select (positions true b) k = BitSpec.select true b k.
Proof. reflexivity. Qed.

Lemma bridge_rank b p : SeqSpec.ef_rank (positions true b) (lenN b) p = BitSpec.rank true b p.
Proof.
  unfold SeqSpec.ef_rank, BitSpec.rank. destruct (N.leb_spec p (lenN b)) as [H|H]; [|reflexivity].
  rewrite count_firstn_positions by exact H. reflexivity.
Qed.

Lemma bridge_pred b p : SeqSpec.ef_pred (positions true b) (lenN b) p = BitSpec.pred true b p.
Proof. reflexivity. Qed.

Lemma bridge_succ b p : SeqSpec.ef_succ (positions true b) (lenN b) p = BitSpec.succ true b p.
Proof. reflexivity. Qed.

Lemma rank_false_true b p r : BitSpec.rank true b p = Some r ->
  r <= p /\ BitSpec.rank false b p = Some (p - r).
Proof.
  unfold BitSpec.rank. destruct (N.leb_spec p (lenN b)) as [H|H]; [|discriminate].
  intro E. injection E as <-.
  pose proof (count_true_false (firstn (N.to_nat p) b)) as Htf. rewrite lenN_firstn in Htf.
  split; [lia|]. f_equal. lia.
Qed.

Lemma rank_true_None b p : BitSpec.rank true b p = None -> BitSpec.rank false b p = None.
Proof. unfold BitSpec.rank. destruct (p <=? lenN b); [discriminate | reflexivity]. Qed.

(* membership search on the positions = access *)
Lemma binsearch_access b p r : p < lenN b ->
  binsearch_ok (positions true b) 0 (lenN (positions true b)) p r = true ->
  BitSpec.access b p = Some (match r with Some _ => true | None => false end).
Proof.
  intros Hp Hok. unfold BitSpec.access. destruct (N.ltb_spec p (lenN b)) as [_|?]; [|lia].
  destruct r as [i|]; cbn [binsearch_ok] in Hok.
  - apply andb_true_iff in Hok. destruct Hok as [_ Hok].
    destruct (nth_opt (positions true b) i) as [y|] eqn:E; [|discriminate].
    apply N.eqb_eq in Hok. subst y. apply In_positions.
    unfold nth_opt in E. destruct (i <? lenN (positions true b)); [|discriminate].
    apply nth_error_In in E. exact E.
  - destruct (nth_error b (N.to_nat p)) as [x|] eqn:E.
    2:{ apply nth_error_None in E. unfold lenN in Hp. lia. }
    destruct x; [|reflexivity]. exfalso.
    apply In_positions in E. apply negb_true_iff in Hok. unfold occurs_in in Hok.
    assert (Hlen : 0 < lenN (positions true b)).
    { destruct (positions true b); [destruct E|]. rewrite lenN_cons. lia. }
    rewrite N.leb_refl, N.sub_0_r in Hok. change (N.to_nat 0) with 0%nat in Hok. cbn [skipn] in Hok.
    unfold lenN in Hok at 2. rewrite Nat2N.id, firstn_all in Hok.
    destruct (N.ltb_spec 0 (lenN (positions true b))) as [_|?]; [|lia]. cbn [andb] in Hok.
    assert (X : existsb (fun x => x =? p) (positions true b) = true).
    { apply existsb_exists. exists p. split; [exact E | apply N.eqb_refl]. }
    rewrite X in Hok. discriminate.
Qed.

(* a vector without ones *)
Lemma positions_nil_of_count b : count true b = 0 -> positions true b = [].
Proof.
  intro H. pose proof (positions_from_len true b 0) as HL. fold (positions true b) in HL.
  destruct (positions true b); [reflexivity|]. rewrite lenN_cons in HL. lia.
Qed.

Lemma access_of_count0 b p : count true b = 0 -> p < lenN b -> BitSpec.access b p = Some false.
Proof.
  intros H Hp. unfold BitSpec.access. destruct (N.ltb_spec p (lenN b)) as [_|?]; [|lia].
  destruct (nth_error b (N.to_nat p)) as [x|] eqn:E.
  2:{ apply nth_error_None in E. unfold lenN in Hp. lia. }
  destruct x; [|reflexivity]. exfalso. apply In_positions in E.
  rewrite (positions_nil_of_count b H) in E. destruct E.
Qed.

Lemma rank_of_count0 b p : count true b = 0 ->
  BitSpec.rank true b p = if p <=? lenN b then Some 0 else None.
Proof.
  intro H. rewrite <- bridge_rank. unfold SeqSpec.ef_rank.
  rewrite (positions_nil_of_count b H). reflexivity.
Qed.

(* ---------- the set positions as a sequence ---------- *)

Lemma positions_lt v b p : In p (positions v b) -> p < lenN b.
Proof. intro H. apply positions_from_range in H. lia. Qed.

Lemma positions_len v b : lenN (positions v b) = count v b.
Proof. apply positions_from_len. Qed.

(* ---------- capacity of the Elias-Fano layer ---------- *)

(* the two inequalities required by the Elias-Fano builder (Proofs/EFBuilder.v), for a universe u
   with m >= 1 values *)
Definition ef_cap (u m : N) : Prop :=
  m + 2 + u / 2 ^ low_len_of u m < 2 ^ 56 /\ m * low_len_of u m < 2 ^ 56.

(* they hold whenever m <= u and 2u + 2 < 2^56 *)
Lemma ef_cap_small u m : 1 <= m -> m <= u -> u + 1 < 2 ^ 55 -> ef_cap u m.
Proof.
  intros Hm Hmu Hu. unfold ef_cap. set (l := low_len_of u m).
  pose proof (low_len_bounds u m Hm Hmu) as [Hlo _]. fold l in Hlo.
  assert (H1 : u / 2 ^ l <= u).
  { apply N.div_le_upper_bound; [apply N.pow_nonzero; discriminate|].
    pose proof (pow2_pos l). nia. }
  assert (H2 : m * l <= u).
  { pose proof (N.pow_gt_lin_r 2 l ltac:(lia)) as Hl.
    pose proof (N.mul_div_le u m ltac:(lia)) as Hd.
    assert (m * l <= m * (u / m)) by (apply N.mul_le_mono_l; lia). lia. }
  change (2 ^ 55) with 36028797018963968 in Hu. change (2 ^ 56) with 72057594037927936.
  split; lia.
Qed.

(* ---------- push_ones: the unary iterator feeds the builder ---------- *)

Lemma last_or_le lo acc q : lo <= q -> Forall (fun x => x <= q) acc -> last_or lo acc <= q.
Proof.
  revert lo. induction acc as [|x r IH]; intros lo Hlo H; [exact Hlo|].
  rewrite last_or_cons. inversion H; subst. apply IH; assumption.
Qed.

Section PushOnes.
Variables (bv : bitvec) (u m : N).
Hypothesis Hwf : wf bv.
Hypothesis Hcap : cap_ok bv.
Hypothesis Eu : u = bv_len bv.
Hypothesis Em : m = count true (bits_of bv).
Hypothesis Hu : u < W.
Hypothesis Hm : 1 <= m.
Hypothesis Hcap1 : m + 2 + u / 2 ^ low_len_of u m < 2 ^ 56.
Hypothesis Hcap2 : m * low_len_of u m < 2 ^ 56.
Notation B := (bits_of bv).

Lemma push_ones_ok c : forall fuel it cur b acc,
  nrep bv it cur -> efb_inv b acc u m ->
  acc ++ pos_from true B cur = positions true B ->
  Forall (fun x => x < cur) acc ->
  (length (pos_from true B cur) < fuel)%nat ->
  exists b', push_ones c fuel bv it b = Ok b' /\ efb_inv b' (positions true B) u m.
Proof.
  induction fuel as [|fuel IH]; intros it cur b acc Hr I Happ Hlt Hfuel; [lia|].
  cbn [push_ones].
  destruct (unary_next_spec c bv it cur Hwf Hcap Hr)
    as [[q [it' [E [El [_ Hr']]]]] | [it' [E [El _]]]]; rewrite E; cbn [bind snd fst].
  - assert (Hq : cur <= q < lenN B).
    { apply (pos_from_ge true B cur q). rewrite El. left. reflexivity. }
    rewrite bits_of_length in Hq by exact Hwf.
    assert (Hacc : efb_accepts u m acc q = true).
    { apply accepts_iff. split; [|split].
      - apply last_or_le; [lia|]. eapply Forall_impl; [|exact Hlt]. cbv beta. intros a Ha. lia.
      - lia.
      - pose proof (positions_len true B) as HL. rewrite <- Happ, El, lenN_app, lenN_cons in HL. lia. }
    destruct (efb_push_accept u m Hu Hm Hcap1 Hcap2 c b acc q I Hacc) as [b1 [E1 I1]].
    rewrite E1. cbn [bind snd fst assert_].
    apply (IH it' (q + 1) b1 (acc ++ [q])).
    + exact Hr'.
    + exact I1.
    + rewrite <- app_assoc. cbn [app]. rewrite <- El. exact Happ.
    + apply Forall_app. split.
      * eapply Forall_impl; [|exact Hlt]. cbv beta. intros a Ha. lia.
      * constructor; [lia | constructor].
    + rewrite El in Hfuel. cbn [length] in Hfuel. lia.
  - exists b. split; [reflexivity|]. rewrite El, app_nil_r in Happ. rewrite <- Happ. exact I.
Qed.

(* from a fresh builder and the iterator at position 0 *)
Lemma push_ones_all c b0 : efb_inv b0 [] u m ->
  exists b, push_ones c (S (S (N.to_nat m))) bv (unary_new bv 0) b0 = Ok b /\
            efb_inv b (positions true B) u m.
Proof.
  intro I0.
  assert (Hall : pos_from true B 0 = positions true B).
  { unfold pos_from. apply EFRep.filter_all_true. intros x _. apply N.leb_le. lia. }
  apply (push_ones_ok c _ (unary_new bv 0) 0 b0 []).
  - apply unary_new_nrep; [exact Hwf | lia].
  - exact I0.
  - cbn [app]. exact Hall.
  - constructor.
  - rewrite Hall. pose proof (positions_len true B) as HL. unfold lenN in HL. lia.
Qed.

End PushOnes.

Print Assumptions sa_popcount_ok.
Print Assumptions binsearch_access.
Print Assumptions ef_cap_small.
Print Assumptions push_ones_all.
