(* Proofs/UnarySkip.v — property C17, the unary iterator of BitVector, part 2:
   skip1 / skip0 (Model/Unary.v) and arbitrary mixed sequences of them.
   The state reached by unary_new and by successful skips is always `unary_new bv cur` for the
   abstract cursor `cur`; skipX(k) returns the k-th v-position at or after the cursor and moves
   the cursor onto it, or returns None and leaves the iterator unchanged. *)
From Sucds Require Import Base.Res Spec.WordSpec Spec.BitSpec Spec.SeqSpec Model.BitVector Model.Unary
  Proofs.ResLemmas Proofs.BVAbs Proofs.WordLemmas Proofs.BVReads Proofs.BVReads2 Proofs.UnaryIter.
From Coq Require Import ZArith ZifyN ZifyBool ZifyNat Lia.
Ltac Zify.zify_post_hook ::= Z.div_mod_to_equations.
Open Scope N_scope.

(* ---------- the scan loop over a plain list of words ---------- *)

Lemma lenN_word_bits w : lenN (word_bits w) = 64.
Proof. unfold lenN. rewrite word_bits_length. reflexivity. Qed.

Lemma selF_word_found buf o kk : buf < W -> kk < popcN buf ->
  exists piw, piw < 64 /\ select_in_word_spec buf kk = Some piw /\
              selF true (word_bits buf) o kk = Some (o + piw).
Proof.
  intros Hb Hk. destruct (selF_some true (word_bits buf) 0 kk) as [t Ht].
  { rewrite count_word_bits by exact Hb. exact Hk. }
  pose proof (selF_range _ _ _ _ _ Ht) as Hr. rewrite lenN_word_bits in Hr.
  exists t. split; [lia|]. split.
  - rewrite select_in_word_select by exact Hb. rewrite select_selF. exact Ht.
  - rewrite selF_shift, Ht. reflexivity.
Qed.

Lemma selF_nil v o k : selF v [] o k = None.
Proof. unfold selF. cbn [positions_from]. apply nth_error_nil_N. Qed.

Lemma skip_scan_found c inv after k skipped buf pos :
  skipped + popcN buf < W -> k < skipped + popcN buf ->
  skip_scan c inv after k skipped buf pos = Ok (Some (skipped, buf, pos)).
Proof.
  intros Hb Hk. destruct after as [|x r]; cbn [skip_scan]; rewrite add_ok by exact Hb; cbn [bind];
    (destruct (N.ltb_spec k (skipped + popcN buf)) as [_|Hx]; [reflexivity | lia]).
Qed.
Lemma skip_scan_nil c inv k skipped buf pos :
  skipped + popcN buf < W -> skipped + popcN buf <= k -> pos + 64 < W ->
  skip_scan c inv [] k skipped buf pos = Ok None.
Proof.
  intros Hb Hk Hp. cbn [skip_scan]. rewrite add_ok by exact Hb. cbn [bind].
  destruct (N.ltb_spec k (skipped + popcN buf)) as [Hx|_]; [lia|].
  unfold WORD_LEN. rewrite add_ok by exact Hp. reflexivity.
Qed.
Lemma skip_scan_cons c inv x r k skipped buf pos :
  skipped + popcN buf < W -> skipped + popcN buf <= k -> pos + 64 < W ->
  skip_scan c inv (x :: r) k skipped buf pos
  = skip_scan c inv r k (skipped + popcN buf) (adj inv x) (pos + 64).
Proof.
  intros Hb Hk Hp. cbn [skip_scan]. rewrite add_ok by exact Hb. cbn [bind].
  destruct (N.ltb_spec k (skipped + popcN buf)) as [Hx|_]; [lia|].
  unfold WORD_LEN. rewrite add_ok by exact Hp. reflexivity.
Qed.

Lemma nthN_cons_succ {A} (x : A) l i d : nthN (x :: l) (i + 1) d = nthN l i d.
Proof. unfold nthN. replace (N.to_nat (i + 1)) with (S (N.to_nat i)) by lia. reflexivity. Qed.

(* the loop finds the word holding the k-th set bit of  buf :: map (adj inv) after *)
Lemma skip_scan_spec c inv k : forall after, Forall (fun w => w < W) after ->
  forall skipped buf pos, buf < W -> skipped <= k ->
  skipped + 64 * (lenN after + 1) < W -> pos + 64 * (lenN after + 1) < W ->
  (forall t,
     selF true (word_bits buf ++ flat_bits (map (adj inv) after)) (64 * (pos / 64)) (k - skipped) = Some t ->
     exists sk bf ps i piw,
       skip_scan c inv after k skipped buf pos = Ok (Some (sk, bf, ps)) /\
       sk <= k /\ i <= lenN after /\ ps = pos + 64 * i /\
       bf = nthN (buf :: map (adj inv) after) i 0 /\
       piw < 64 /\ select_in_word_spec bf (k - sk) = Some piw /\ t = 64 * (pos / 64 + i) + piw) /\
  (selF true (word_bits buf ++ flat_bits (map (adj inv) after)) (64 * (pos / 64)) (k - skipped) = None ->
   skip_scan c inv after k skipped buf pos = Ok None).
Proof.
  intros after Hall. induction Hall as [|w r Hw Hr IH]; intros skipped buf pos Hbuf Hsk Hb1 Hb2;
    pose proof (popcN_le_64 buf Hbuf) as Hpc;
    rewrite selF_app, count_word_bits, lenN_word_bits by exact Hbuf;
    (destruct (N.ltb_spec k (skipped + popcN buf)) as [Hlt|Hge];
     [ (* found in the current word *)
       destruct (N.ltb_spec (k - skipped) (popcN buf)) as [_|Hx]; [|lia];
       destruct (selF_word_found buf (64 * (pos / 64)) (k - skipped) Hbuf) as [piw [H1 [H2 H3]]]; [lia|];
       rewrite H3; split; [|discriminate]; intros t Ht; injection Ht as <-;
       exists skipped, buf, pos, 0, piw;
       rewrite skip_scan_found by lia;
       split; [reflexivity|]; split; [exact Hsk|]; split; [lia|]; split; [lia|];
       split; [reflexivity|]; split; [exact H1|]; split; [exact H2 | lia]
     | destruct (N.ltb_spec (k - skipped) (popcN buf)) as [Hx|_]; [lia|] ]).
  - (* no more words *)
    change (lenN (@nil N)) with 0 in Hb1, Hb2.
    cbn [map]. change (flat_bits []) with (@nil bool). rewrite selF_nil.
    split; [discriminate|]. intros _. apply skip_scan_nil; lia.
  - rewrite lenN_cons in Hb1, Hb2.
    rewrite skip_scan_cons by lia.
    cbn [map]. rewrite flat_bits_cons.
    replace (64 * (pos / 64) + 64) with (64 * ((pos + 64) / 64)) by lia.
    replace (k - skipped - popcN buf) with (k - (skipped + popcN buf)) by lia.
    destruct (IH (skipped + popcN buf) (adj inv w) (pos + 64)) as [IH1 IH2];
      [apply adj_lt, Hw | lia | lia | lia |].
    split; [|exact IH2].
    intros t Ht. destruct (IH1 t Ht) as [sk [bf [ps [i [piw [E [G1 [G2 [G3 [G4 [G5 [G6 G7]]]]]]]]]]]].
    exists sk, bf, ps, (i + 1), piw. rewrite lenN_cons.
    split; [exact E|]. split; [exact G1|]. split; [lia|]. split; [lia|].
    split; [rewrite nthN_cons_succ; exact G4|]. split; [exact G5|]. split; [exact G6 | lia].
Qed.

(* ---------- masked buffers and complemented words as bit lists ---------- *)

Lemma word_bits_masked buf a s : s <= 64 ->
  (forall j, j < 64 -> N.testbit buf j = (s <=? j) && N.testbit a j) ->
  word_bits buf = repeat false (N.to_nat s) ++ skipn (N.to_nat s) (word_bits a).
Proof.
  intros Hs H. apply nth_ext with (d := false) (d' := false).
  - rewrite app_length, repeat_length, skipn_length, !word_bits_length. lia.
  - intros i Hi. rewrite word_bits_length in Hi. rewrite word_bits_nth by exact Hi.
    rewrite H by lia.
    destruct (N.leb_spec s (N.of_nat i)) as [H1|H1]; cbn [andb].
    + rewrite app_nth2 by (rewrite repeat_length; lia). rewrite repeat_length, nth_skipn_add.
      replace (N.to_nat s + (i - N.to_nat s))%nat with i by lia.
      rewrite word_bits_nth by exact Hi. reflexivity.
    + rewrite app_nth1 by (rewrite repeat_length; lia). rewrite nth_repeat. reflexivity.
Qed.

Lemma positions_from_repeat_false n l o :
  positions_from true (repeat false n ++ l) o = positions_from true l (o + N.of_nat n).
Proof.
  rewrite positions_from_app, lenN_repeat. rewrite positions_from_none; [reflexivity|].
  intros x Hx. apply repeat_spec in Hx. subst x. discriminate.
Qed.

Lemma pos_adj_word inv w s o :
  positions_from true (skipn s (word_bits (adj inv w))) o
  = positions_from (negb inv) (skipn s (word_bits w)) o.
Proof.
  destruct inv; cbn [adj negb]; [|reflexivity].
  rewrite word_bits_not64, skipn_map, <- positions_from_false_map_negb. reflexivity.
Qed.

Lemma pos_adj_flat inv l : forall o,
  positions_from true (flat_bits (map (adj inv) l)) o = positions_from (negb inv) (flat_bits l) o.
Proof.
  induction l as [|w l IH]; intro o; [reflexivity|].
  cbn [map]. rewrite !flat_bits_cons, !positions_from_app, IH, !lenN_word_bits.
  f_equal. apply (pos_adj_word inv w 0).
Qed.

Lemma skipn_flat_bits_word q : forall ws r, (q < length ws)%nat -> (r <= 64)%nat ->
  skipn (64 * q + r) (flat_bits ws) = skipn r (word_bits (nth q ws 0)) ++ flat_bits (skipn (S q) ws).
Proof.
  induction q as [|q IH]; intros ws r Hq Hr; (destruct ws as [|w ws]; [cbn [length] in Hq; lia|]).
  - rewrite flat_bits_cons. cbn [nth skipn]. replace (64 * 0 + r)%nat with r by lia.
    rewrite skipn_app, word_bits_length. replace (r - 64)%nat with 0%nat by lia. reflexivity.
  - rewrite flat_bits_cons. cbn [length] in Hq.
    rewrite skipn_app, word_bits_length.
    rewrite skipn_all2 by (rewrite word_bits_length; lia).
    replace (64 * S q + r - 64)%nat with (64 * q + r)%nat by lia.
    cbn [app nth]. rewrite IH by lia. reflexivity.
Qed.

Lemma nth_opt_nth_error l k : nth_opt l k = nth_error l (N.to_nat k).
Proof.
  unfold nth_opt. destruct (N.ltb_spec k (lenN l)) as [H|H]; [reflexivity|].
  symmetry. apply nth_error_None. unfold lenN in H. lia.
Qed.

(* ---------- what the loop computes (with padding) against the specification ---------- *)

(* the k-th set bit at or after cur of the (complemented) words, padding included *)
Definition Traw (inv : bool) (bv : bitvec) (cur k : N) : option N :=
  selF true (skipn (N.to_nat (cur mod 64)) (word_bits (adj inv (nthN (bv_words bv) (cur / 64) 0)))
             ++ flat_bits (map (adj inv) (words_after bv cur))) cur k.

Lemma raw_vs_spec inv bv cur k : wf bv -> cap_ok bv -> cur <= bv_len bv ->
  (forall q, nth_opt (pos_from (negb inv) (bits_of bv) cur) k = Some q ->
     Traw inv bv cur k = Some q /\ q < bv_len bv) /\
  (nth_opt (pos_from (negb inv) (bits_of bv) cur) k = None ->
     Traw inv bv cur k = None \/ exists t, Traw inv bv cur k = Some t /\ bv_len bv <= t) /\
  (inv = false -> nth_opt (pos_from (negb inv) (bits_of bv) cur) k = None -> Traw inv bv cur k = None).
Proof.
  intros Hwf Hcap Hcur.
  pose proof (wf_nwords bv Hwf) as Hn. pose proof (cap_W bv Hcap) as Hc.
  pose proof (bits_of_length bv Hwf) as Hbl.
  rewrite nth_opt_nth_error, pos_from_skipn by lia.
  fold (selF (negb inv) (skipn (N.to_nat cur) (bits_of bv)) cur k).
  assert (Hls : lenN (skipn (N.to_nat cur) (bits_of bv)) = bv_len bv - cur).
  { rewrite lenN_skipn, Hbl. lia. }
  destruct (N.ltb_spec (cur / 64) (lenN (bv_words bv))) as [Hblk|Hblk].
  - (* the cursor lies in a word *)
    assert (ET : Traw inv bv cur k =
       if k <? count (negb inv) (skipn (N.to_nat cur) (bits_of bv))
       then selF (negb inv) (skipn (N.to_nat cur) (bits_of bv)) cur k
       else selF (negb inv) (skipn (N.to_nat (bv_len bv)) (flat_bits (bv_words bv))) (bv_len bv)
              (k - count (negb inv) (skipn (N.to_nat cur) (bits_of bv)))).
    { unfold Traw, selF at 1. rewrite positions_from_app, pos_adj_word, pos_adj_flat.
      rewrite lenN_skipn, lenN_word_bits.
      replace (64 - N.of_nat (N.to_nat (cur mod 64)))
        with (lenN (skipn (N.to_nat (cur mod 64)) (word_bits (nthN (bv_words bv) (cur / 64) 0))))
        by (rewrite lenN_skipn, lenN_word_bits; reflexivity).
      rewrite <- positions_from_app. rewrite words_after_eq. unfold nthN.
      rewrite <- skipn_flat_bits_word by (unfold lenN in Hblk; lia).
      replace (64 * N.to_nat (cur / 64) + N.to_nat (cur mod 64))%nat with (N.to_nat cur) by lia.
      fold (selF (negb inv) (skipn (N.to_nat cur) (flat_bits (bv_words bv))) cur k).
      rewrite (flat_bits_split bv) at 1.
      rewrite skipn_app, bits_of_length_nat by exact Hwf.
      replace (N.to_nat cur - N.to_nat (bv_len bv))%nat with 0%nat by lia. cbn [skipn].
      rewrite selF_app, Hls. replace (cur + (bv_len bv - cur)) with (bv_len bv) by lia. reflexivity. }
    rewrite ET.
    pose proof (positions_from_len (negb inv) (skipn (N.to_nat cur) (bits_of bv)) cur) as Hpl.
    destruct (N.ltb_spec k (count (negb inv) (skipn (N.to_nat cur) (bits_of bv)))) as [Hk|Hk].
    + destruct (selF_some (negb inv) (skipn (N.to_nat cur) (bits_of bv)) cur k Hk) as [t Ht].
      rewrite Ht. pose proof (selF_range _ _ _ _ _ Ht) as Hr. rewrite Hls in Hr.
      split; [|split]; [| discriminate | discriminate].
      intros q Hq. injection Hq as <-. split; [reflexivity | lia].
    + assert (EN : selF (negb inv) (skipn (N.to_nat cur) (bits_of bv)) cur k = None).
      { unfold selF. apply nth_error_None. unfold lenN in Hpl. lia. }
      rewrite EN. split; [discriminate|]. split.
      * intros _.
        destruct (selF (negb inv) (skipn (N.to_nat (bv_len bv)) (flat_bits (bv_words bv))) (bv_len bv)
                    (k - count (negb inv) (skipn (N.to_nat cur) (bits_of bv)))) as [t|] eqn:Et;
          [right | left; reflexivity].
        exists t. split; [reflexivity|]. apply selF_range in Et. lia.
      * intros -> _. cbn [negb]. unfold selF. rewrite positions_from_none; [apply nth_error_nil_N|].
        intros x Hx. rewrite (flat_tail_false bv x Hwf Hx). discriminate.
  - (* the cursor is just past the last word: cur = len = 64 * #words *)
    assert (Hcl : cur = bv_len bv) by lia.
    assert (EN : selF (negb inv) (skipn (N.to_nat cur) (bits_of bv)) cur k = None).
    { rewrite skipn_all2 by (rewrite bits_of_length_nat by exact Hwf; lia). apply selF_nil. }
    rewrite EN. split; [discriminate|]. split.
    + intros _. destruct (Traw inv bv cur k) as [t|] eqn:Et; [right | left; reflexivity].
      exists t. split; [reflexivity|]. unfold Traw in Et. apply selF_range in Et. lia.
    + intros -> _. unfold Traw. rewrite words_after_eq.
      rewrite (@skipn_all2 N (S (N.to_nat (cur / 64)))) by (unfold lenN in Hblk; lia).
      unfold nthN. rewrite nth_overflow by (unfold lenN in Hblk; lia).
      cbn [adj map]. change (flat_bits []) with (@nil bool). rewrite app_nil_r.
      unfold selF. rewrite positions_from_none; [apply nth_error_nil_N|].
      intros x Hx. apply In_nth with (d := false) in Hx. destruct Hx as [n [Hn' Hx]].
      rewrite nth_skipn_add in Hx. rewrite <- Hx.
      destruct (Nat.lt_ge_cases (N.to_nat (cur mod 64) + n) 64) as [H1|H1].
      * rewrite word_bits_nth by exact H1. rewrite N.bits_0. discriminate.
      * rewrite nth_overflow by (rewrite word_bits_length; lia). discriminate.
Qed.

(* ---------- the common part of skip1 / skip0 ---------- *)

Lemma skip_common c inv bv cur k buf0 :
  wf bv -> cap_ok bv -> cur <= bv_len bv -> k < W -> buf0 < W ->
  (forall j, j < 64 -> N.testbit buf0 j
     = (cur mod 64 <=? j) && N.testbit (adj inv (nthN (bv_words bv) (cur / 64) 0)) j) ->
  (forall t, Traw inv bv cur k = Some t ->
     exists sk bf ps piw,
       skip_scan c inv (words_after bv cur) k 0 buf0 cur = Ok (Some (sk, bf, ps)) /\
       dassert c (negb (bf =? 0)) = Ok tt /\ sub c k sk = Ok (k - sk) /\
       select_in_word_spec bf (k - sk) = Some piw /\
       add c (N.land ps (not64 (WORD_LEN - 1))) piw = Ok t /\
       cur <= t /\ piw = t mod 64 /\ bf < W /\
       (forall j, j < 64 -> piw <= j ->
          N.testbit bf j = N.testbit (adj inv (nthN (bv_words bv) (t / 64) 0)) j)) /\
  (Traw inv bv cur k = None -> skip_scan c inv (words_after bv cur) k 0 buf0 cur = Ok None).
Proof.
  intros Hwf Hcap Hcur Hk Hbuf Hbits.
  pose proof (wf_nwords bv Hwf) as Hn. pose proof (cap_W bv Hcap) as Hc.
  assert (Hall : Forall (fun w => w < W) (bv_words bv)) by (destruct Hwf as [_ [H _]]; exact H).
  assert (Hla : lenN (words_after bv cur) <= lenN (bv_words bv)).
  { rewrite words_after_eq, lenN_skipn. lia. }
  assert (Hall' : Forall (fun w => w < W) (words_after bv cur)).
  { rewrite words_after_eq. apply Forall_forall. intros x Hx.
    rewrite Forall_forall in Hall. apply Hall.
    rewrite <- (firstn_skipn (S (N.to_nat (cur / 64))) (bv_words bv)). apply in_or_app. right. exact Hx. }
  destruct (skip_scan_spec c inv k (words_after bv cur) Hall' 0 buf0 cur Hbuf) as [S1 S2];
    [lia | unfold W; lia | unfold W; lia |].
  rewrite N.sub_0_r in S1, S2.
  assert (ET : selF true (word_bits buf0 ++ flat_bits (map (adj inv) (words_after bv cur))) (64 * (cur / 64)) k
               = Traw inv bv cur k).
  { unfold Traw, selF.
    rewrite (word_bits_masked buf0 (adj inv (nthN (bv_words bv) (cur / 64) 0)) (cur mod 64)) by (try assumption; lia).
    rewrite <- app_assoc, positions_from_repeat_false. rewrite N2Nat.id.
    replace (64 * (cur / 64) + cur mod 64) with cur by lia. reflexivity. }
  rewrite ET in S1, S2. split; [|exact S2].
  intros t Ht. destruct (S1 t Ht) as [sk [bf [ps [i [piw [E [G1 [G2 [G3 [G4 [G5 [G6 G7]]]]]]]]]]]].
  assert (Hct : cur <= t) by (unfold Traw in Ht; apply selF_range in Ht; lia).
  assert (Hbf : bf < W /\ forall j, j < 64 -> piw <= j ->
            N.testbit bf j = N.testbit (adj inv (nthN (bv_words bv) (t / 64) 0)) j).
  { assert (Ht64 : t / 64 = cur / 64 + i) by lia. rewrite Ht64.
    destruct (N.eq_dec i 0) as [->|Hi].
    - rewrite G4. change (nthN (buf0 :: map (adj inv) (words_after bv cur)) 0 0) with buf0.
      split; [exact Hbuf|]. intros j Hj Hpj. rewrite Hbits by exact Hj. rewrite N.add_0_r.
      destruct (N.leb_spec (cur mod 64) j) as [_|Hx]; [reflexivity | lia].
    - assert (Ew : bf = adj inv (nthN (bv_words bv) (cur / 64 + i) 0)).
      { rewrite G4. replace i with (i - 1 + 1) at 1 by lia. rewrite nthN_cons_succ.
        unfold nthN. rewrite (nth_indep _ 0 (adj inv 0)) by (rewrite map_length; unfold lenN in G2; lia).
        rewrite map_nth. f_equal. rewrite words_after_eq, nth_skipn_add. f_equal. lia. }
      rewrite Ew. split; [|reflexivity]. apply adj_lt, wf_word_lt, Hwf. }
  destruct Hbf as [Hbf1 Hbf2].
  exists sk, bf, ps, piw. split; [exact E|]. split.
  { apply dassert_ok. destruct bf as [|p]; [discriminate G6 | reflexivity]. }
  split; [apply sub_ok, G1|]. split; [exact G6|]. split.
  { rewrite land_not63 by (unfold W; lia). rewrite add_ok by (unfold W; lia). f_equal. lia. }
  split; [exact Hct|]. split; [lia|]. split; [exact Hbf1 | exact Hbf2].
Qed.

(* ---------- skip1 ---------- *)

Lemma unary_new_eq bv q b : wf bv -> b < W ->
  (forall j, j < 64 -> N.testbit b j = (q mod 64 <=? j) && N.testbit (nthN (bv_words bv) (q / 64) 0) j) ->
  {| u_pos := q; u_buf := b |} = unary_new bv q.
Proof.
  intros Hwf Hb H.
  transitivity {| u_pos := q; u_buf := u_buf (unary_new bv q) |}; [|reflexivity].
  apply uiter_ext; [exact Hb | apply unary_new_buf_lt, Hwf |].
  intros j Hj. rewrite H, unary_new_buf_bit by exact Hj. reflexivity.
Qed.

Theorem skip1_spec c bv cur k : wf bv -> cap_ok bv -> cur <= bv_len bv -> k < W ->
  skip1 c bv (unary_new bv cur) k =
  Ok (match nth_opt (filter (fun p => cur <=? p) (positions true (bits_of bv))) k with
      | Some q => (unary_new bv q, Some q)
      | None => (unary_new bv cur, None)
      end).
Proof.
  intros Hwf Hcap Hcur Hk. fold (pos_from true (bits_of bv) cur).
  destruct (raw_vs_spec false bv cur k Hwf Hcap Hcur) as [R1 [_ R3]]. cbn [negb] in R1, R3.
  destruct (skip_common c false bv cur k (u_buf (unary_new bv cur)) Hwf Hcap Hcur Hk) as [C1 C2].
  { apply unary_new_buf_lt, Hwf. }
  { intros j Hj. cbn [adj]. apply unary_new_buf_bit, Hj. }
  unfold skip1. rewrite !unary_new_pos.
  destruct (nth_opt (pos_from true (bits_of bv) cur) k) as [q|].
  - destruct (R1 q eq_refl) as [ET Hq].
    destruct (C1 q ET) as [sk [bf [ps [piw [E [D1 [D2 [D3 [D4 [D5 [D6 [D7 D8]]]]]]]]]]]].
    rewrite E. cbn [bind]. rewrite D1. cbn [bind]. rewrite D2. cbn [bind].
    rewrite D3. cbn [unwrap bind]. rewrite D4. cbn [bind]. f_equal. f_equal.
    apply unary_new_eq; [exact Hwf | apply land_lt_W, D7 |].
    intros j Hj. rewrite testbit_land_wshl_mask by lia. rewrite <- D6.
    destruct (N.leb_spec piw j) as [H1|H1]; [|reflexivity]. cbn [andb].
    rewrite D8 by assumption. reflexivity.
  - rewrite (C2 (R3 eq_refl eq_refl)). reflexivity.
Qed.

(* ---------- skip0 ---------- *)

Theorem skip0_spec c bv cur k : wf bv -> cap_ok bv -> cur <= bv_len bv -> k < W ->
  skip0 c bv (unary_new bv cur) k =
  Ok (match nth_opt (filter (fun p => cur <=? p) (positions false (bits_of bv))) k with
      | Some q => (unary_new bv q, Some q)
      | None => (unary_new bv cur, None)
      end).
Proof.
  intros Hwf Hcap Hcur Hk. fold (pos_from false (bits_of bv) cur).
  destruct (raw_vs_spec true bv cur k Hwf Hcap Hcur) as [R1 [R2 _]]. cbn [negb] in R1, R2.
  destruct (skip_common c true bv cur k
              (N.land (not64 (u_buf (unary_new bv cur))) (wshl MASK64 (cur mod 64))) Hwf Hcap Hcur Hk)
    as [C1 C2].
  { apply land_lt_W, not64_lt, unary_new_buf_lt, Hwf. }
  { intros j Hj. cbn [adj]. rewrite testbit_land_wshl_mask by lia.
    rewrite !testbit_not64 by exact Hj. rewrite unary_new_buf_bit by exact Hj.
    destruct (cur mod 64 <=? j); cbn [andb negb]; reflexivity. }
  unfold skip0. cbv zeta. rewrite !unary_new_pos. unfold WORD_LEN at 1.
  destruct (nth_opt (pos_from false (bits_of bv) cur) k) as [q|].
  - destruct (R1 q eq_refl) as [ET Hq].
    destruct (C1 q ET) as [sk [bf [ps [piw [E [D1 [D2 [D3 [D4 [D5 [D6 [D7 D8]]]]]]]]]]]].
    rewrite E. cbn [bind]. rewrite D1. cbn [bind]. rewrite D2. cbn [bind].
    rewrite D3. cbn [unwrap bind]. rewrite D4. cbn [bind].
    destruct (N.ltb_spec q (bv_len bv)) as [_|Hx]; [|lia]. f_equal. f_equal.
    apply unary_new_eq; [exact Hwf | apply land_lt_W, not64_lt, D7 |].
    intros j Hj. rewrite testbit_land_wshl_mask by lia. rewrite <- D6.
    destruct (N.leb_spec piw j) as [H1|H1]; [|reflexivity]. cbn [andb].
    rewrite testbit_not64 by exact Hj. rewrite D8 by assumption. cbn [adj].
    rewrite testbit_not64 by exact Hj. apply negb_involutive.
  - destruct (R2 eq_refl) as [ET | [t [ET Ht]]].
    + rewrite (C2 ET). reflexivity.
    + destruct (C1 t ET) as [sk [bf [ps [piw [E [D1 [D2 [D3 [D4 _]]]]]]]]].
      rewrite E. cbn [bind]. rewrite D1. cbn [bind]. rewrite D2. cbn [bind].
      rewrite D3. cbn [unwrap bind]. rewrite D4. cbn [bind].
      destruct (N.ltb_spec t (bv_len bv)) as [Hx|_]; [lia | reflexivity].
Qed.

(* a successful skip lands on a position of the vector *)
Lemma nth_opt_pos_from_lt v b cur k q :
  nth_opt (filter (fun p => cur <=? p) (positions v b)) k = Some q -> cur <= q < lenN b.
Proof.
  rewrite nth_opt_nth_error. intro H. apply nth_error_In in H. apply (pos_from_ge v b cur q H).
Qed.

(* ---------- arbitrary sequences of skip1 / skip0 ---------- *)

Inductive sop := S1 (k : N) | S0 (k : N).
Definition sop_arg (o : sop) : N := match o with S1 k => k | S0 k => k end.

(* specification: the k-th v-position at or after the cursor; the cursor moves onto it *)
Definition sop_spec (b : list bool) (cur : N) (o : sop) : option N :=
  match o with
  | S1 k => nth_opt (filter (fun p => cur <=? p) (positions true b)) k
  | S0 k => nth_opt (filter (fun p => cur <=? p) (positions false b)) k
  end.
Fixpoint skip_run_spec (b : list bool) (cur : N) (ops : list sop) : N * list (option N) :=
  match ops with
  | [] => (cur, [])
  | o :: r =>
      let x := sop_spec b cur o in
      let s := skip_run_spec b (match x with Some q => q | None => cur end) r in
      (fst s, x :: snd s)
  end.

Definition sop_model (c : cfg) (bv : bitvec) (it : uiter) (o : sop) : res (uiter * option N) :=
  match o with S1 k => skip1 c bv it k | S0 k => skip0 c bv it k end.
Fixpoint skip_run (c : cfg) (bv : bitvec) (it : uiter) (ops : list sop) : res (uiter * list (option N)) :=
  match ops with
  | [] => Ok (it, [])
  | o :: r =>
      s <- sop_model c bv it o ;;
      s' <- skip_run c bv (fst s) r ;;
      Ok (fst s', snd s :: snd s')
  end.

Lemma sop_model_spec c bv cur o : wf bv -> cap_ok bv -> cur <= bv_len bv -> sop_arg o < W ->
  sop_model c bv (unary_new bv cur) o =
  Ok (unary_new bv (match sop_spec (bits_of bv) cur o with Some q => q | None => cur end),
      sop_spec (bits_of bv) cur o).
Proof.
  intros Hwf Hcap Hcur Hk. destruct o as [k|k]; cbn [sop_model sop_spec sop_arg] in *.
  - rewrite skip1_spec by assumption.
    destruct (nth_opt (filter (fun p => cur <=? p) (positions true (bits_of bv))) k); reflexivity.
  - rewrite skip0_spec by assumption.
    destruct (nth_opt (filter (fun p => cur <=? p) (positions false (bits_of bv))) k); reflexivity.
Qed.

Theorem skip_run_ok c bv : wf bv -> cap_ok bv -> forall ops p, p <= bv_len bv ->
  Forall (fun o => sop_arg o < W) ops ->
  skip_run c bv (unary_new bv p) ops
  = Ok (unary_new bv (fst (skip_run_spec (bits_of bv) p ops)), snd (skip_run_spec (bits_of bv) p ops)).
Proof.
  intros Hwf Hcap. pose proof (bits_of_length bv Hwf) as Hbl.
  induction ops as [|o r IH]; intros p Hp Hall; [reflexivity|].
  inversion Hall as [|o' r' Ho Hr]; subst o' r'.
  cbn [skip_run skip_run_spec]. cbv zeta. rewrite sop_model_spec by assumption. cbn [bind fst snd].
  rewrite IH; [reflexivity | | exact Hr].
  destruct (sop_spec (bits_of bv) p o) as [q|] eqn:E; [|exact Hp].
  destruct o as [k|k]; cbn [sop_spec] in E; apply nth_opt_pos_from_lt in E; lia.
Qed.

(* the position reported by position() is the abstract cursor *)
Corollary skip_run_position c bv ops p it xs : wf bv -> cap_ok bv -> p <= bv_len bv ->
  Forall (fun o => sop_arg o < W) ops ->
  skip_run c bv (unary_new bv p) ops = Ok (it, xs) ->
  position it = fst (skip_run_spec (bits_of bv) p ops) /\ xs = snd (skip_run_spec (bits_of bv) p ops).
Proof.
  intros Hwf Hcap Hp Hall E. rewrite skip_run_ok in E by assumption. injection E as <- <-.
  split; reflexivity.
Qed.
