(* Proofs/BVReads.v — property C07 (a), first half: get_bit, rank1/rank0/num_ones, get_bits,
   get_word64, iter_next and the derived equality of the BitVector model equal the plain
   bit-sequence specification, for every argument of usize. (select/successor/predecessor are
   in BVReads2.v.) *)
From Sucds Require Import Base.Res Spec.WordSpec Spec.BitSpec Model.BitVector
  Proofs.ResLemmas Proofs.BVAbs Proofs.WordLemmas.
From Coq Require Import ZArith ZifyN ZifyBool ZifyNat Lia.
Ltac Zify.zify_post_hook ::= Z.div_mod_to_equations.
Open Scope N_scope.

(* ---------- abstraction lemmas (additional to BVAbs) ---------- *)

Lemma Forall_nthN (P : N -> Prop) ws i d : Forall P ws -> P d -> P (nthN ws i d).
Proof.
  unfold nthN. generalize (N.to_nat i) as n. intros n H Hd. revert n.
  induction H as [|x l Hx Hl IH]; intro n; destruct n; cbn [nth]; auto.
Qed.

Lemma Forall_firstn' {A} (P : A -> Prop) n l : Forall P l -> Forall P (firstn n l).
Proof.
  intro H. revert n. induction H as [|x l Hx Hl IH]; intro n; destruct n; cbn [firstn]; auto.
Qed.

Lemma W_pos : 0 < W. Proof. reflexivity. Qed.

Lemma wf_word_lt bv i : wf bv -> nthN (bv_words bv) i 0 < W.
Proof. intros [_ [H _]]. apply Forall_nthN; [exact H | apply W_pos]. Qed.

Lemma wf_nwords bv : wf bv -> lenN (bv_words bv) = (bv_len bv + 63) / 64.
Proof. intros [H _]. exact H. Qed.

Lemma wbit_oob ws i : 64 * lenN ws <= i -> wbit ws i = false.
Proof.
  intro H. unfold wbit, nthN. rewrite nth_overflow by (unfold lenN in H; lia). apply N.bits_0.
Qed.

Lemma wf_wbit_high bv i : wf bv -> bv_len bv <= i -> wbit (bv_words bv) i = false.
Proof. intros [_ [_ H]]. apply H. Qed.

Lemma bits_of_length_nat bv : wf bv -> length (bits_of bv) = N.to_nat (bv_len bv).
Proof. intro H. pose proof (bits_of_length bv H) as E. unfold lenN in E. lia. Qed.

Lemma bits_of_nth_all bv j : wf bv -> nth (N.to_nat j) (bits_of bv) false = wbit (bv_words bv) j.
Proof.
  intro H. destruct (N.lt_ge_cases j (bv_len bv)) as [Hj|Hj].
  - apply bits_of_nth; assumption.
  - rewrite nth_overflow by (rewrite bits_of_length_nat by exact H; lia).
    symmetry. apply wf_wbit_high; assumption.
Qed.

Lemma bits_of_nth_error bv j : wf bv -> j < bv_len bv ->
  nth_error (bits_of bv) (N.to_nat j) = Some (wbit (bv_words bv) j).
Proof.
  intros H Hj. rewrite (nth_error_nth' _ false) by (rewrite bits_of_length_nat by exact H; lia).
  rewrite bits_of_nth_all by exact H. reflexivity.
Qed.

(* ---------- list algebra for count / firstn over flat_bits ---------- *)

Lemma count_app v l1 l2 : count v (l1 ++ l2) = count v l1 + count v l2.
Proof. induction l1 as [|x l1 IH]; cbn [app count]; [lia | rewrite IH; lia]. Qed.

Lemma count_le_len v l : count v l <= lenN l.
Proof.
  induction l as [|x l IH]; [cbn [count]; unfold lenN; cbn [length]; lia|].
  cbn [count]. rewrite lenN_cons. destruct (Bool.eqb x v); lia.
Qed.

Lemma count_true_false l : count true l + count false l = lenN l.
Proof.
  induction l as [|x l IH]; [reflexivity|].
  cbn [count]. rewrite lenN_cons. destruct x; cbn [Bool.eqb]; lia.
Qed.

Definition popsum (ws : list N) : N := fold_right (fun w a => popcN w + a) 0 ws.

Lemma flat_bits_cons w ws : flat_bits (w :: ws) = word_bits w ++ flat_bits ws.
Proof. reflexivity. Qed.

Lemma count_flat_bits ws : Forall (fun w => w < W) ws -> count true (flat_bits ws) = popsum ws.
Proof.
  induction 1 as [|w ws Hw Hws IH]; [reflexivity|].
  rewrite flat_bits_cons, count_app, count_word_bits by exact Hw. cbn [popsum fold_right].
  fold (popsum ws). rewrite IH. reflexivity.
Qed.

Lemma popsum_le ws : Forall (fun w => w < W) ws -> popsum ws <= 64 * lenN ws.
Proof.
  induction 1 as [|w ws Hw Hws IH]; [cbn; unfold lenN; cbn; lia|].
  cbn [popsum fold_right]. fold (popsum ws). rewrite lenN_cons.
  pose proof (popcN_le_64 w Hw). lia.
Qed.

Lemma fold_popc_ok c ws : Forall (fun w => w < W) ws -> forall r, r + 64 * lenN ws < W ->
  fold_res (fun r w => add c r (popcN w)) ws r = Ok (r + popsum ws).
Proof.
  induction 1 as [|w ws Hw Hws IH]; intros r Hr.
  - cbn [fold_res popsum fold_right]. rewrite N.add_0_r. reflexivity.
  - cbn [fold_res]. rewrite lenN_cons in Hr. pose proof (popcN_le_64 w Hw).
    rewrite add_ok by lia. cbn [bind]. rewrite IH by lia.
    cbn [popsum fold_right]. fold (popsum ws). f_equal. lia.
Qed.

Lemma firstn_flat_bits_word q : forall ws r, (q < length ws)%nat -> (r <= 64)%nat ->
  firstn (64 * q + r) (flat_bits ws) = flat_bits (firstn q ws) ++ firstn r (word_bits (nth q ws 0)).
Proof.
  induction q as [|q IH]; intros ws r Hq Hr; (destruct ws as [|w ws]; [cbn [length] in Hq; lia|]).
  - rewrite flat_bits_cons. cbn [firstn nth]. change (flat_bits []) with (@nil bool). cbn [app].
    replace (64 * 0 + r)%nat with r by lia.
    rewrite firstn_app, word_bits_length.
    replace (r - 64)%nat with 0%nat by lia. cbn [firstn]. apply app_nil_r.
  - rewrite flat_bits_cons. cbn [firstn nth]. rewrite flat_bits_cons.
    replace (64 * S q + r)%nat with (length (word_bits w) + (64 * q + r))%nat
      by (rewrite word_bits_length; lia).
    rewrite firstn_app_2. cbn [length] in Hq. rewrite IH by lia. apply app_assoc.
Qed.

Lemma firstn_flat_bits_full q ws : (q <= length ws)%nat ->
  firstn (64 * q) (flat_bits ws) = flat_bits (firstn q ws).
Proof.
  intro H. destruct (Nat.eq_dec q (length ws)) as [->|Hne].
  - rewrite firstn_all. rewrite <- flat_bits_length. apply firstn_all.
  - replace (64 * q)%nat with (64 * q + 0)%nat by lia.
    rewrite firstn_flat_bits_word by lia. cbn [firstn]. apply app_nil_r.
Qed.

(* ---------- get_bit ---------- *)

Theorem get_bit_spec c bv pos : wf bv -> cap_ok bv -> pos < W ->
  BitVector.get_bit c bv pos = Ok (BitSpec.access (bits_of bv) pos).
Proof.
  intros Hwf Hcap Hpos. unfold BitVector.get_bit, BitSpec.access, WORD_LEN.
  rewrite bits_of_length by exact Hwf.
  destruct (N.ltb_spec pos (bv_len bv)) as [H|H]; [|reflexivity].
  pose proof (wf_nwords bv Hwf) as Hn.
  rewrite idx_ok by lia. cbn [bind].
  rewrite shr_ok by lia. cbn [bind].
  rewrite land1_testbit, testbit_div_pow2, N.add_0_l.
  rewrite bits_of_nth_error by assumption. reflexivity.
Qed.

(* ---------- rank1 / rank0 / num_ones ---------- *)

Lemma firstn_bits_of bv pos : pos <= bv_len bv ->
  firstn (N.to_nat pos) (bits_of bv) = firstn (N.to_nat pos) (flat_bits (bv_words bv)).
Proof.
  intro H. unfold bits_of. rewrite firstn_firstn. f_equal. lia.
Qed.

Theorem rank1_spec c bv pos : wf bv -> cap_ok bv -> pos < W ->
  BitVector.rank1 c bv pos = Ok (BitSpec.rank true (bits_of bv) pos).
Proof.
  intros Hwf Hcap Hpos. unfold BitVector.rank1, BitSpec.rank, WORD_LEN.
  rewrite bits_of_length by exact Hwf.
  destruct (N.ltb_spec (bv_len bv) pos) as [H|H];
    destruct (N.leb_spec pos (bv_len bv)) as [H'|H']; try lia; [reflexivity|].
  clear H'. pose proof (wf_nwords bv Hwf) as Hn. unfold cap_ok in Hcap.
  destruct Hwf as [_ [Hall Hhigh]].
  rewrite assert_ok by (apply N.leb_le; lia). cbn [bind].
  assert (Hlen : lenN (bv_words bv) < 2 ^ 51).
  { change (2 ^ 51) with 2251799813685248. change (2 ^ 56) with 72057594037927936 in Hcap. lia. }
  change (2 ^ 51) with 2251799813685248 in Hlen.
  rewrite fold_popc_ok.
  2:{ apply Forall_firstn', Hall. }
  2:{ rewrite lenN_firstn. unfold W. lia. }
  cbn [bind]. rewrite N.add_0_l.
  rewrite firstn_bits_of by exact H.
  pose proof (popsum_le _ (Forall_firstn' _ (N.to_nat (pos / 64)) _ Hall)) as Hps.
  rewrite lenN_firstn in Hps.
  rewrite <- count_flat_bits by (apply Forall_firstn', Hall).
  rewrite <- count_flat_bits in Hps by (apply Forall_firstn', Hall).
  destruct (N.eqb_spec (pos mod 64) 0) as [Hz|Hnz]; cbn [negb].
  - do 3 f_equal.
    replace (N.to_nat pos) with (64 * N.to_nat (pos / 64))%nat by lia.
    symmetry. apply firstn_flat_bits_full. unfold lenN in Hn. lia.
  - rewrite idx_ok by lia. cbn [bind].
    rewrite sub_ok by lia. cbn [bind].
    rewrite shl_ok by lia. cbn [bind].
    rewrite popcN_shl_low by lia.
    assert (Hw : nthN (bv_words bv) (pos / 64) 0 < W) by (apply Forall_nthN; [exact Hall | apply W_pos]).
    assert (Hp : popcN (nthN (bv_words bv) (pos / 64) 0 mod 2 ^ (pos mod 64)) <= 64).
    { apply popcN_le_64. eapply N.le_lt_trans; [apply N.mod_le; apply N.pow_nonzero; lia | exact Hw]. }
    rewrite add_ok by (unfold W; lia). cbn [bind].
    do 3 f_equal.
    replace (N.to_nat pos) with (64 * N.to_nat (pos / 64) + N.to_nat (pos mod 64))%nat by lia.
    rewrite firstn_flat_bits_word by (unfold lenN in Hn; lia).
    rewrite count_app. f_equal.
    fold (nthN (bv_words bv) (pos / 64) 0).
    rewrite count_firstn_word_bits by lia. reflexivity.
Qed.

Lemma count_firstn_le v l n : count v (firstn n l) <= N.of_nat n.
Proof.
  pose proof (count_le_len v (firstn n l)) as H. rewrite lenN_firstn in H. lia.
Qed.

Theorem rank0_spec c bv pos : wf bv -> cap_ok bv -> pos < W ->
  BitVector.rank0 c bv pos = Ok (BitSpec.rank false (bits_of bv) pos).
Proof.
  intros Hwf Hcap Hpos. unfold BitVector.rank0. rewrite rank1_spec by assumption. cbn [bind].
  unfold BitSpec.rank. rewrite bits_of_length by exact Hwf.
  destruct (N.leb_spec pos (bv_len bv)) as [H|H]; [|reflexivity].
  pose proof (count_firstn_le true (bits_of bv) (N.to_nat pos)) as Hle.
  rewrite sub_ok by lia. cbn [bind]. do 2 f_equal.
  pose proof (count_true_false (firstn (N.to_nat pos) (bits_of bv))) as Htf.
  rewrite lenN_firstn, bits_of_length in Htf by exact Hwf. lia.
Qed.

Theorem num_ones_spec c bv : wf bv -> cap_ok bv ->
  BitVector.num_ones c bv = Ok (BitSpec.count true (bits_of bv)).
Proof.
  intros Hwf Hcap. unfold BitVector.num_ones.
  assert (bv_len bv < W).
  { unfold cap_ok in Hcap. change (2 ^ 56) with 72057594037927936 in Hcap. unfold W. lia. }
  rewrite rank1_spec by assumption. cbn [bind]. unfold BitSpec.rank.
  rewrite bits_of_length by exact Hwf. rewrite N.leb_refl. cbn [unwrap].
  rewrite <- bits_of_length_nat by exact Hwf. rewrite firstn_all. reflexivity.
Qed.

(* ---------- get_bits / get_word64 ---------- *)

Lemma testbit_bits_val l : forall i, N.testbit (bits_val l) i = nth (N.to_nat i) l false.
Proof.
  induction l as [|x l IH]; intro i.
  - cbn [bits_val]. rewrite N.bits_0. destruct (N.to_nat i); reflexivity.
  - cbn [bits_val]. destruct (N.eq_dec i 0) as [->|Hi].
    + change (N.to_nat 0) with 0%nat. cbn [nth]. destruct x; cbn [b2n].
      * replace (1 + 2 * bits_val l) with (2 * bits_val l + 1) by lia. apply N.testbit_odd_0.
      * rewrite N.add_0_l. apply N.testbit_even_0.
    + replace i with (N.succ (N.pred i)) at 1 by lia.
      replace (N.to_nat i) with (S (N.to_nat (N.pred i))) by lia. cbn [nth]. rewrite <- IH.
      destruct x; cbn [b2n].
      * replace (1 + 2 * bits_val l) with (2 * bits_val l + 1) by lia. apply N.testbit_odd_succ. lia.
      * rewrite N.add_0_l. apply N.testbit_even_succ. lia.
Qed.

Lemma nth_firstn_if {A} (l : list A) d : forall n i,
  nth i (firstn n l) d = if (i <? n)%nat then nth i l d else d.
Proof.
  induction l as [|x l IH]; intros n i.
  - rewrite firstn_nil. destruct i; destruct (_ <? _)%nat; reflexivity.
  - destruct n as [|n]; [cbn [firstn]; destruct i; reflexivity|].
    destruct i as [|i]; [reflexivity|]. cbn [firstn nth]. rewrite IH.
    change (S i <? S n)%nat with (i <? n)%nat. reflexivity.
Qed.

Lemma nth_skipn_add {A} (l : list A) d : forall n i, nth i (skipn n l) d = nth (n + i) l d.
Proof.
  induction l as [|x l IH]; intros n i.
  - rewrite skipn_nil. destruct i; destruct (n + _)%nat; reflexivity.
  - destruct n as [|n]; [reflexivity|]. cbn [skipn]. rewrite IH. reflexivity.
Qed.

Lemma spec_bits_testbit bv pos n i : wf bv ->
  N.testbit (bits_val (firstn n (skipn (N.to_nat pos) (bits_of bv)))) i
  = (i <? N.of_nat n) && wbit (bv_words bv) (pos + i).
Proof.
  intro Hwf. rewrite testbit_bits_val, nth_firstn_if, nth_skipn_add.
  replace (N.to_nat pos + N.to_nat i)%nat with (N.to_nat (pos + i)) by lia.
  rewrite bits_of_nth_all by exact Hwf.
  destruct (Nat.ltb_spec (N.to_nat i) n) as [H|H]; destruct (N.ltb_spec i (N.of_nat n)) as [H'|H'];
    try lia; reflexivity.
Qed.

Lemma wbit_split ws b j : j < 64 -> wbit ws (64 * b + j) = N.testbit (nthN ws b 0) j.
Proof.
  intro H. unfold wbit.
  replace ((64 * b + j) / 64) with b by lia. replace ((64 * b + j) mod 64) with j by lia.
  reflexivity.
Qed.

Lemma pow2_lt_W s : s < 64 -> 2 ^ s < W.
Proof. intro H. rewrite W_eq. apply N.pow_lt_mono_r; lia. Qed.

Lemma len_mask_ok c len : len <= 64 -> len_mask c len = Ok (2 ^ len - 1).
Proof.
  intro H. unfold len_mask, WORD_LEN. destruct (N.ltb_spec len 64) as [Hl|Hl].
  - rewrite shl_ok_small by (try rewrite N.mul_1_l; try apply pow2_lt_W; lia). cbn [bind].
    rewrite N.mul_1_l. apply sub_ok.
    pose proof (N.pow_nonzero 2 len). lia.
  - replace len with 64 by lia. reflexivity.
Qed.

Theorem get_bits_spec c bv pos len : wf bv -> cap_ok bv -> pos < W -> len < W ->
  BitVector.get_bits c bv pos len = Ok (BitSpec.get_bits (bits_of bv) pos len).
Proof.
  intros Hwf Hcap Hpos Hlen. unfold BitVector.get_bits, BitSpec.get_bits, WORD_LEN.
  rewrite bits_of_length by exact Hwf.
  destruct (N.ltb_spec 64 len) as [H1|H1]; destruct (N.leb_spec len 64) as [H1'|H1']; try lia;
    cbn [orb andb]; [reflexivity|].
  destruct (N.ltb_spec (bv_len bv) (pos + len)) as [H2|H2];
    destruct (N.leb_spec (pos + len) (bv_len bv)) as [H2'|H2']; try lia; [reflexivity|].
  clear H1' H2'.
  destruct (N.eqb_spec len 0) as [->|Hl0]; [reflexivity|].
  pose proof (wf_nwords bv Hwf) as Hn. unfold cap_ok in Hcap.
  change (2 ^ 56) with 72057594037927936 in Hcap.
  rewrite len_mask_ok by lia. cbn [bind].
  rewrite add_ok by (unfold W; lia). cbn [bind].
  destruct (N.leb_spec (pos mod 64 + len) 64) as [Hs|Hs].
  - rewrite idx_ok by lia. cbn [bind]. rewrite shr_ok by lia. cbn [bind].
    do 2 f_equal. apply N.bits_inj. intro i.
    rewrite spec_bits_testbit by exact Hwf. rewrite N2Nat.id.
    rewrite N.land_spec, testbit_div_pow2, testbit_pow2_pred.
    destruct (N.ltb_spec i len) as [Hi|Hi]; [|apply andb_false_r].
    rewrite andb_true_r. cbn [andb].
    replace (pos + i) with (64 * (pos / 64) + (pos mod 64 + i)) by lia.
    rewrite wbit_split by lia. f_equal. lia.
  - rewrite idx_ok by lia. cbn [bind]. rewrite shr_ok by lia. cbn [bind].
    rewrite add_ok by (unfold W; lia). cbn [bind].
    rewrite idx_ok by lia. cbn [bind].
    rewrite sub_ok by lia. cbn [bind].
    rewrite shl_ok by lia. cbn [bind].
    do 2 f_equal. apply N.bits_inj. intro i.
    rewrite spec_bits_testbit by exact Hwf. rewrite N2Nat.id.
    rewrite N.lor_spec, N.land_spec, testbit_div_pow2, testbit_shl64, testbit_pow2_pred.
    pose proof (wf_word_lt bv (pos / 64) Hwf) as Hw0.
    destruct (N.ltb_spec i len) as [Hi|Hi].
    + rewrite andb_true_r. cbn [andb].
      destruct (N.ltb_spec i 64) as [Hi64|Hi64]; [|lia]. cbn [andb].
      destruct (N.leb_spec (64 - pos mod 64) i) as [Hc|Hc]; cbn [andb].
      * rewrite (testbit_W_high _ (i + pos mod 64) Hw0) by lia. cbn [orb].
        replace (pos + i) with (64 * (pos / 64 + 1) + (i - (64 - pos mod 64))) by lia.
        rewrite wbit_split by lia. reflexivity.
      * rewrite orb_false_r.
        replace (pos + i) with (64 * (pos / 64) + (i + pos mod 64)) by lia.
        rewrite wbit_split by lia. reflexivity.
    + rewrite andb_false_r, orb_false_r. cbn [andb].
      apply (testbit_W_high _ _ Hw0). lia.
Qed.

Theorem get_word64_spec c bv pos : wf bv -> cap_ok bv -> pos < W ->
  BitVector.get_word64 c bv pos = Ok (BitSpec.get_word64 (bits_of bv) pos).
Proof.
  intros Hwf Hcap Hpos. unfold BitVector.get_word64, BitSpec.get_word64, WORD_LEN.
  rewrite bits_of_length by exact Hwf.
  destruct (N.leb_spec (bv_len bv) pos) as [H|H]; destruct (N.ltb_spec pos (bv_len bv)) as [H'|H'];
    try lia; [reflexivity|]. clear H'.
  pose proof (wf_nwords bv Hwf) as Hn. unfold cap_ok in Hcap.
  change (2 ^ 56) with 72057594037927936 in Hcap.
  pose proof (wf_word_lt bv (pos / 64) Hwf) as Hw0.
  rewrite idx_ok by lia. cbn [bind]. rewrite shr_ok by lia. cbn [bind].
  rewrite add_ok by (unfold W; lia). cbn [bind].
  assert (Hspec : forall i, N.testbit (bits_val (firstn 64 (skipn (N.to_nat pos) (bits_of bv)))) i
                       = (i <? 64) && wbit (bv_words bv) (pos + i)).
  { intro i. rewrite spec_bits_testbit by exact Hwf. reflexivity. }
  destruct (N.eqb_spec (pos mod 64) 0) as [Hz|Hnz]; cbn [negb andb].
  - do 2 f_equal. apply N.bits_inj. intro i. rewrite Hspec, testbit_div_pow2.
    destruct (N.ltb_spec i 64) as [Hi|Hi]; cbn [andb].
    + replace (pos + i) with (64 * (pos / 64) + (i + pos mod 64)) by lia.
      rewrite wbit_split by lia. reflexivity.
    + apply (testbit_W_high _ _ Hw0). lia.
  - destruct (N.ltb_spec (pos / 64 + 1) (lenN (bv_words bv))) as [Hb|Hb].
    + rewrite idx_ok by lia. cbn [bind]. rewrite sub_ok by lia. cbn [bind].
      rewrite shl_ok by lia. cbn [bind].
      do 2 f_equal. apply N.bits_inj. intro i.
      rewrite Hspec, N.lor_spec, testbit_div_pow2, testbit_shl64.
      destruct (N.ltb_spec i 64) as [Hi|Hi]; cbn [andb].
      * destruct (N.leb_spec (64 - pos mod 64) i) as [Hc|Hc]; cbn [andb].
        -- rewrite (testbit_W_high _ (i + pos mod 64) Hw0) by lia. cbn [orb].
           replace (pos + i) with (64 * (pos / 64 + 1) + (i - (64 - pos mod 64))) by lia.
           rewrite wbit_split by lia. reflexivity.
        -- rewrite orb_false_r.
           replace (pos + i) with (64 * (pos / 64) + (i + pos mod 64)) by lia.
           rewrite wbit_split by lia. reflexivity.
      * rewrite orb_false_r. apply (testbit_W_high _ _ Hw0). lia.
    + do 2 f_equal. apply N.bits_inj. intro i. rewrite Hspec, testbit_div_pow2.
      destruct (N.ltb_spec i 64) as [Hi|Hi]; cbn [andb].
      * destruct (N.lt_ge_cases (i + pos mod 64) 64) as [Hc|Hc].
        -- replace (pos + i) with (64 * (pos / 64) + (i + pos mod 64)) by lia.
           rewrite wbit_split by lia. reflexivity.
        -- rewrite (testbit_W_high _ (i + pos mod 64) Hw0) by lia.
           symmetry. apply wbit_oob. lia.
      * apply (testbit_W_high _ _ Hw0). lia.
Qed.

(* ---------- iter_next ---------- *)

Theorem iter_next_spec c bv pos : wf bv -> cap_ok bv -> pos < W ->
  BitVector.iter_next c bv pos
  = Ok (if pos <? bv_len bv then (pos + 1, BitSpec.access (bits_of bv) pos) else (pos, None)).
Proof.
  intros Hwf Hcap Hpos. unfold BitVector.iter_next.
  rewrite get_bit_spec by assumption. cbn [bind].
  destruct (N.ltb_spec pos (bv_len bv)) as [H|H]; [|reflexivity].
  unfold BitSpec.access. rewrite bits_of_length by exact Hwf.
  destruct (N.ltb_spec pos (bv_len bv)) as [H'|H']; [|lia].
  rewrite bits_of_nth_error by assumption. cbn [unwrap bind].
  unfold cap_ok in Hcap. change (2 ^ 56) with 72057594037927936 in Hcap.
  rewrite add_ok by (unfold W; lia). reflexivity.
Qed.

(* in range the returned item is Some bit *)
Corollary iter_next_in_range c bv pos : wf bv -> cap_ok bv -> pos < bv_len bv ->
  BitVector.iter_next c bv pos = Ok (pos + 1, Some (wbit (bv_words bv) pos)).
Proof.
  intros Hwf Hcap H.
  assert (pos < W).
  { unfold cap_ok in Hcap. change (2 ^ 56) with 72057594037927936 in Hcap. unfold W. lia. }
  rewrite iter_next_spec by assumption.
  destruct (N.ltb_spec pos (bv_len bv)) as [H'|H']; [|lia].
  unfold BitSpec.access. rewrite bits_of_length by exact Hwf.
  destruct (N.ltb_spec pos (bv_len bv)) as [H''|H'']; [|lia].
  rewrite bits_of_nth_error by assumption. reflexivity.
Qed.

(* ---------- derived PartialEq ---------- *)

Lemma forallb_combine_eq (l1 : list N) : forall l2, length l1 = length l2 ->
  forallb (fun p => fst p =? snd p) (combine l1 l2) = true -> l1 = l2.
Proof.
  induction l1 as [|x l1 IH]; intros l2 Hlen H; destruct l2 as [|y l2]; try discriminate; [reflexivity|].
  cbn [combine forallb fst snd] in H. apply andb_true_iff in H. destruct H as [Hxy Hr].
  apply N.eqb_eq in Hxy. subst y. f_equal. apply IH; [cbn [length] in Hlen; lia | exact Hr].
Qed.

Lemma forallb_combine_refl (l : list N) : forallb (fun p => fst p =? snd p) (combine l l) = true.
Proof.
  induction l as [|x l IH]; [reflexivity|]. cbn [combine forallb fst snd]. rewrite N.eqb_refl. exact IH.
Qed.

(* holds for all model values, in particular for well-formed ones *)
Theorem bv_eqb_spec a b : bv_eqb a b = true <-> a = b.
Proof.
  split.
  - unfold bv_eqb. intro H. apply andb_true_iff in H. destruct H as [H H3].
    apply andb_true_iff in H. destruct H as [H1 H2].
    apply N.eqb_eq in H1. apply N.eqb_eq in H2.
    destruct a as [wa la], b as [wb lb]. cbn [bv_words bv_len] in *. subst lb. f_equal.
    apply forallb_combine_eq; [unfold lenN in H2; lia | exact H3].
  - intros <-. unfold bv_eqb. rewrite !N.eqb_refl, forallb_combine_refl. reflexivity.
Qed.
