(* Proofs/DacsLevels.v — the pure level decomposition of directly addressable codes, shared by
   DacsByte (C11) and DacsOpt (C10).

   For level widths ws = [w_0; w_1; ...] and the values xs that reach the current level (already
   shifted right by the widths of the levels below):
     lv_chunks ws xs = the stored chunks  (x mod 2^w_0 for every x), level by level,
     lv_flags  ws xs = the continuation flags (x / 2^w_0 <> 0), one list per level but the last,
     lv_next w xs    = the values that reach the next level: the non-zero x / 2^w, in order.
   The position of a continuing value on the next level is the rank of its flag (lv_step), and a
   value is the OR of its chunks shifted to their offsets (lor_step).
   Also: the relation between the model's flag vectors (BitVector, then Rank9Sel) and these lists. *)
From Sucds Require Import Base.Res Spec.BitSpec Spec.SeqSpec Spec.DacSpec
  Model.BitVector Model.Rank9
  Proofs.ResLemmas Proofs.BVAbs Proofs.BVMutLemmas Proofs.BVMut Proofs.BVHistory
  Proofs.IndexSpecs Proofs.R9Main Proofs.DP_Hist.
From Coq Require Import ZArith ZifyN ZifyBool ZifyNat Lia.
Ltac Zify.zify_post_hook ::= Z.div_mod_to_equations.
Open Scope N_scope.

(* ------------------------------------------------------------------ *)
(* the decomposition                                                    *)

Definition nz (x : N) : bool := negb (x =? 0).
Definition lo (w x : N) : N := x mod 2 ^ w.
Definition hi (w x : N) : N := x / 2 ^ w.
Definition lv_next (w : N) (xs : list N) : list N := filter nz (map (hi w) xs).
Definition lv_flag (w : N) (xs : list N) : list bool := map (fun x => nz (hi w x)) xs.

Fixpoint lv_chunks (ws xs : list N) : list (list N) :=
  match ws with
  | [] => []
  | w :: r => map (lo w) xs :: lv_chunks r (lv_next w xs)
  end.
Fixpoint lv_flags (ws xs : list N) : list (list bool) :=
  match ws with
  | [] => []
  | w :: r => match r with
              | [] => []
              | _ :: _ => lv_flag w xs :: lv_flags r (lv_next w xs)
              end
  end.

Lemma lv_chunks_cons w r xs : lv_chunks (w :: r) xs = map (lo w) xs :: lv_chunks r (lv_next w xs).
Proof. reflexivity. Qed.
Lemma lv_flags_one w xs : lv_flags [w] xs = [].
Proof. reflexivity. Qed.
Lemma lv_flags_cons w w' r xs :
  lv_flags (w :: w' :: r) xs = lv_flag w xs :: lv_flags (w' :: r) (lv_next w xs).
Proof. reflexivity. Qed.

Lemma lv_chunks_length ws : forall xs, length (lv_chunks ws xs) = length ws.
Proof. induction ws as [|w r IH]; intro xs; cbn [lv_chunks length]; [reflexivity | rewrite IH; reflexivity]. Qed.
Lemma lv_flags_length ws : forall xs, length (lv_flags ws xs) = (length ws - 1)%nat.
Proof.
  induction ws as [|w r IH]; intro xs; [reflexivity|].
  destruct r as [|w' r]; [reflexivity|]. rewrite lv_flags_cons. cbn [length]. rewrite IH. cbn [length]. lia.
Qed.
Lemma lenN_lv_chunks ws xs : lenN (lv_chunks ws xs) = lenN ws.
Proof. unfold lenN. rewrite lv_chunks_length. reflexivity. Qed.

Lemma lv_next_nil w : lv_next w [] = [].
Proof. reflexivity. Qed.
Lemma lv_chunks_nil ws : lv_chunks ws [] = repeat [] (length ws).
Proof. induction ws as [|w r IH]; [reflexivity|]. cbn [lv_chunks length repeat map]. rewrite lv_next_nil, IH. reflexivity. Qed.
Lemma lv_flags_nil ws : lv_flags ws [] = repeat [] (length ws - 1).
Proof.
  induction ws as [|w r IH]; [reflexivity|]. destruct r as [|w' r]; [reflexivity|].
  rewrite lv_flags_cons, lv_next_nil, IH. cbn [length lv_flag map].
  replace (S (S (length r)) - 1)%nat with (S (S (length r) - 1)) by lia. reflexivity.
Qed.

Lemma lv_next_snoc w xs x :
  lv_next w (xs ++ [x]) = if hi w x =? 0 then lv_next w xs else lv_next w xs ++ [hi w x].
Proof.
  unfold lv_next. rewrite map_app, filter_app. cbn [map filter]. unfold nz.
  destruct (hi w x =? 0); cbn [negb]; [apply app_nil_r | reflexivity].
Qed.
Lemma lv_flag_snoc w xs x : lv_flag w (xs ++ [x]) = lv_flag w xs ++ [nz (hi w x)].
Proof. unfold lv_flag. rewrite map_app. reflexivity. Qed.
Lemma lenN_lv_flag w xs : lenN (lv_flag w xs) = lenN xs.
Proof. unfold lv_flag. apply lenN_map. Qed.

Lemma filter_length_le {A} (p : A -> bool) l : (length (filter p l) <= length l)%nat.
Proof. induction l as [|a l IH]; cbn [filter length]; [lia|]. destruct (p a); cbn [length]; lia. Qed.
Lemma lenN_lv_next w xs : lenN (lv_next w xs) <= lenN xs.
Proof.
  unfold lv_next, lenN. pose proof (filter_length_le nz (map (hi w) xs)) as H.
  rewrite map_length in H. lia.
Qed.

Lemma hi_lt w s x : x < 2 ^ (w + s) -> hi w x < 2 ^ s.
Proof.
  intro H. unfold hi. rewrite N.pow_add_r in H.
  apply N.div_lt_upper_bound; [apply N.pow_nonzero; discriminate | exact H].
Qed.
Lemma lo_lt w x : lo w x < 2 ^ w.
Proof. unfold lo. apply N.mod_lt. apply N.pow_nonzero. discriminate. Qed.
Lemma lo_small w x : x < 2 ^ w -> lo w x = x.
Proof. intro H. unfold lo. apply N.mod_small, H. Qed.
Lemma hi_small w x : x < 2 ^ w -> hi w x = 0.
Proof. intro H. unfold hi. apply N.div_small, H. Qed.
Lemma hi_zero_lo w x : hi w x = 0 -> lo w x = x.
Proof.
  unfold hi, lo. intro H. pose proof (N.pow_nonzero 2 w ltac:(discriminate)) as Hp.
  pose proof (N.div_mod x (2 ^ w) Hp) as E. rewrite H in E. lia.
Qed.
Lemma hi_0 w : hi w 0 = 0.
Proof. unfold hi. apply N.div_0_l. apply N.pow_nonzero. discriminate. Qed.

Lemma lv_next_bound w s xs :
  Forall (fun x => x < 2 ^ (w + s)) xs -> Forall (fun x => x < 2 ^ s) (lv_next w xs).
Proof.
  intro H. unfold lv_next. rewrite Forall_forall in *. intros y Hy.
  apply filter_In in Hy. destruct Hy as [Hy _]. apply in_map_iff in Hy. destruct Hy as [x [<- Hx]].
  apply hi_lt, H, Hx.
Qed.

(* ------------------------------------------------------------------ *)
(* the position on the next level is the rank of the flag               *)

Lemma filter_rank_nth {A} (p : A -> bool) (d : A) : forall l i,
  (i < length l)%nat -> p (nth i l d) = true ->
  (length (filter p (firstn i l)) < length (filter p l))%nat /\
  nth (length (filter p (firstn i l))) (filter p l) d = nth i l d.
Proof.
  induction l as [|a l IH]; intros i Hi Hp; cbn [length] in Hi; [lia|].
  destruct i as [|i].
  - cbn [nth] in Hp. cbn [firstn filter length nth]. rewrite Hp. cbn [length nth]. split; [lia | reflexivity].
  - cbn [nth] in Hp. destruct (IH i ltac:(lia) Hp) as [H1 H2].
    cbn [firstn filter nth]. destruct (p a); cbn [length nth]; split; try lia; exact H2.
Qed.

Lemma count_true_map {A} (p : A -> bool) l : BitSpec.count true (map p l) = lenN (filter p l).
Proof.
  induction l as [|a l IH]; [reflexivity|]. cbn [map BitSpec.count filter]. rewrite IH.
  destruct (p a); cbn [Bool.eqb]; [rewrite lenN_cons|]; lia.
Qed.

Lemma nthN_map0 (f : N -> N) l i : f 0 = 0 -> nthN (map f l) i 0 = f (nthN l i 0).
Proof. intro H. unfold nthN. rewrite <- H at 1. apply map_nth. Qed.

Lemma lv_step w xs pos :
  pos < lenN xs -> nz (hi w (nthN xs pos 0)) = true ->
  let p' := BitSpec.count true (firstn (N.to_nat pos) (lv_flag w xs)) in
  p' < lenN (lv_next w xs) /\ nthN (lv_next w xs) p' 0 = hi w (nthN xs pos 0).
Proof.
  intros Hpos Hnz. cbv zeta. unfold lv_flag, lv_next.
  replace (map (fun x => nz (hi w x)) xs) with (map nz (map (hi w) xs)) by (rewrite map_map; reflexivity).
  rewrite firstn_map, count_true_map.
  rewrite <- (nthN_map0 (hi w) xs pos (hi_0 w)) in *.
  set (ys := map (hi w) xs) in *.
  assert (Hl : (N.to_nat pos < length ys)%nat) by (unfold ys; rewrite map_length; unfold lenN in Hpos; lia).
  destruct (filter_rank_nth nz 0 ys (N.to_nat pos) Hl Hnz) as [H1 H2].
  unfold lenN, nthN in *. rewrite Nat2N.id. split; [lia | exact H2].
Qed.

(* ------------------------------------------------------------------ *)
(* a value is the OR of its chunks                                      *)

Lemma split_lor w x : N.lor (lo w x) (N.shiftl (hi w x) w) = x.
Proof.
  unfold lo, hi. apply N.bits_inj. intro i. rewrite N.lor_spec.
  destruct (N.ltb_spec i w) as [H|H].
  - rewrite N.mod_pow2_bits_low by exact H. rewrite N.shiftl_spec_low by exact H. apply orb_false_r.
  - rewrite N.mod_pow2_bits_high by exact H. rewrite N.shiftl_spec_high' by exact H.
    rewrite <- N.shiftr_div_pow2, N.shiftr_spec'. cbn [orb]. f_equal. lia.
Qed.

Lemma lor_step x0 x w off :
  N.lor (N.lor x0 (N.shiftl (lo w x) off)) (N.shiftl (hi w x) (off + w)) = N.lor x0 (N.shiftl x off).
Proof.
  rewrite <- N.lor_assoc. f_equal.
  replace (off + w) with (w + off) by lia. rewrite <- N.shiftl_shiftl, <- N.shiftl_lor.
  rewrite split_lor. reflexivity.
Qed.

Lemma land_ones_lo x w : N.land x (N.ones w) = lo w x.
Proof. apply N.land_ones. Qed.
Lemma land_255 x : N.land x 255 = lo 8 x.
Proof. change 255 with (N.ones 8). apply N.land_ones. Qed.

(* a chunk shifted to its offset stays below 2^64 *)
Lemma chunk_shift_lt b w off : b < 2 ^ w -> off + w <= 64 -> b * 2 ^ off < W.
Proof.
  intros Hb Ho. rewrite W_eq.
  apply N.lt_le_trans with (2 ^ w * 2 ^ off).
  - apply N.mul_lt_mono_pos_r; [|exact Hb]. pose proof (N.pow_nonzero 2 off ltac:(discriminate)). lia.
  - rewrite <- N.pow_add_r. apply N.pow_le_mono_r; [discriminate | lia].
Qed.
Lemma shl_chunk c b w off : b < 2 ^ w -> 1 <= w -> off + w <= 64 -> shl c b off = Ok (N.shiftl b off).
Proof.
  intros Hb Hw Ho. rewrite shl_ok_small; [| lia | eapply chunk_shift_lt; eassumption].
  rewrite N.shiftl_mul_pow2. reflexivity.
Qed.

(* ------------------------------------------------------------------ *)
(* reading the flag lists                                               *)

Lemma access_lv_flag w xs pos : pos < lenN xs ->
  BitSpec.access (lv_flag w xs) pos = Some (nz (hi w (nthN xs pos 0))).
Proof.
  intro H. unfold BitSpec.access. rewrite lenN_lv_flag.
  destruct (N.ltb_spec pos (lenN xs)) as [_|H']; [|lia].
  unfold lv_flag, nthN. rewrite nth_error_map.
  rewrite (nth_error_nth' xs 0) by (unfold lenN in H; lia). reflexivity.
Qed.
Lemma rank_lv_flag w xs pos : pos < lenN xs ->
  BitSpec.rank true (lv_flag w xs) pos = Some (BitSpec.count true (firstn (N.to_nat pos) (lv_flag w xs))).
Proof.
  intro H. unfold BitSpec.rank. rewrite lenN_lv_flag.
  destruct (N.leb_spec pos (lenN xs)) as [_|H']; [reflexivity | lia].
Qed.

(* ------------------------------------------------------------------ *)
(* list positions                                                       *)

Lemma nthN_app_mid {A} (pre : list A) y rest j d : lenN pre = j -> nthN (pre ++ y :: rest) j d = y.
Proof. intro H. rewrite nthN_app_r by lia. replace (j - lenN pre) with 0 by lia. reflexivity. Qed.

Lemma lenN_app_cons_gt {A} (pre : list A) y rest j : lenN pre = j -> j < lenN (pre ++ y :: rest).
Proof. intro H. rewrite lenN_app, lenN_cons. lia. Qed.

(* ------------------------------------------------------------------ *)
(* flag vectors: BitVector while building, Rank9Sel afterwards          *)

Definition bv_rel (bv : bitvec) (l : list bool) : Prop := wf bv /\ bits_of bv = l.
Definition r9s (bv : bitvec) : r9sel := r9_spec bv false false.
Definition fl_rel (r : r9sel) (l : list bool) : Prop :=
  r = r9s (r9_bv r) /\ wf (r9_bv r) /\ bits_of (r9_bv r) = l.

Lemma bv_rel_empty : bv_rel bv_empty [].
Proof. split; [exact wf_empty | exact bits_of_empty]. Qed.
Lemma bv_rel_len bv l : bv_rel bv l -> bv_len bv = lenN l.
Proof. intros [Hwf <-]. symmetry. apply bits_of_length, Hwf. Qed.

Lemma Forall2_repeat {A B} (R : A -> B -> Prop) a b n : R a b -> Forall2 R (repeat a n) (repeat b n).
Proof. intro H. induction n as [|n IH]; cbn [repeat]; constructor; assumption. Qed.

Lemma push_flag_step c (fpre : list bitvec) bv brest l b j :
  lenN fpre = j -> bv_rel bv l -> lenN l + 1 < 2 ^ 56 ->
  exists bv', push_bit c (nthN (fpre ++ bv :: brest) j bv_empty) b = Ok bv' /\
              bv_rel bv' (l ++ [b]) /\
              setN (fpre ++ bv :: brest) j bv' = fpre ++ bv' :: brest.
Proof.
  intros Hj Hr Hl. rewrite (nthN_app_mid fpre bv brest j bv_empty Hj).
  pose proof (bv_rel_len bv l Hr) as Hlen. destruct Hr as [Hwf Hb].
  destruct (push_bit_spec c bv b Hwf ltac:(rewrite Hlen; exact Hl)) as [bv' [E [Hwf' Hb']]].
  exists bv'. split; [exact E|]. split; [split; [exact Hwf' | rewrite Hb', Hb; reflexivity]|].
  apply setN_app_cons, Hj.
Qed.

Lemma r9_new_ok' c bv : wf bv -> cap_ok bv -> r9_new c bv = Ok (r9s bv).
Proof.
  intros Hwf Hcap. pose proof (r9_build_ok c bv false false Hwf Hcap) as H.
  unfold r9_build in H. destruct (r9_new c bv) as [x|]; cbn [bind] in H; [exact H | discriminate].
Qed.

Lemma r9_new_all c : forall bvs ls acc,
  Forall2 bv_rel bvs ls -> Forall (fun l => lenN l < 2 ^ 56) ls ->
  fold_res (fun acc bv => r <- r9_new c bv ;; Ok (acc ++ [r])) bvs acc = Ok (acc ++ map r9s bvs) /\
  Forall2 fl_rel (map r9s bvs) ls.
Proof.
  induction bvs as [|bv bvs IH]; intros ls acc HR HL.
  - inversion HR; subst. cbn [fold_res map]. rewrite app_nil_r. split; [reflexivity | constructor].
  - inversion HR as [|? l ? ls' Hr HR']; subst. inversion HL as [|? ? Hl HL']; subst.
    cbn [fold_res map]. pose proof (bv_rel_len bv l Hr) as Hlen. destruct Hr as [Hwf Hb].
    rewrite r9_new_ok' by (first [exact Hwf | unfold cap_ok; rewrite Hlen; exact Hl]). cbn [bind].
    destruct (IH ls' (acc ++ [r9s bv]) HR' HL') as [E F]. rewrite E. rewrite <- app_assoc.
    split; [reflexivity|]. constructor; [|exact F].
    split; [reflexivity|]. split; [exact Hwf | exact Hb].
Qed.

Lemma fl_rel_unique : forall a b ls, Forall2 fl_rel a ls -> Forall2 fl_rel b ls -> a = b.
Proof.
  induction a as [|x a IH]; intros b ls Ha Hb.
  - inversion Ha; subst. inversion Hb; subst. reflexivity.
  - inversion Ha as [|? l ? ls' Hx Ha']; subst. inversion Hb as [|y ? b' ? Hy Hb']; subst.
    f_equal; [|eapply IH; eassumption].
    destruct Hx as [Ex [Wx Bx]]. destruct Hy as [Ey [Wy By]].
    rewrite Ex, Ey. f_equal. apply canonical; [exact Wx | exact Wy | rewrite Bx, By; reflexivity].
Qed.

Lemma bv_rel_unique : forall a b ls, Forall2 bv_rel a ls -> Forall2 bv_rel b ls -> a = b.
Proof.
  induction a as [|x a IH]; intros b ls Ha Hb.
  - inversion Ha; subst. inversion Hb; subst. reflexivity.
  - inversion Ha as [|? l ? ls' Hx Ha']; subst. inversion Hb as [|y ? b' ? Hy Hb']; subst.
    f_equal; [|eapply IH; eassumption].
    destruct Hx as [Wx Bx]. destruct Hy as [Wy By].
    apply canonical; [exact Wx | exact Wy | rewrite Bx, By; reflexivity].
Qed.

Lemma fl_rel_read c r l pos : fl_rel r l -> lenN l < 2 ^ 56 -> pos < W ->
  r9_access c r pos = Ok (BitSpec.access l pos) /\ r9_rank1 c r pos = Ok (BitSpec.rank true l pos).
Proof.
  intros [E [Hwf Hb]] Hl Hpos.
  assert (Hcap : cap_ok (r9_bv r)).
  { unfold cap_ok. rewrite <- (bits_of_length _ Hwf), Hb. exact Hl. }
  pose proof (r9_spec_correct c (r9_bv r) false false Hwf Hcap) as HC.
  fold (r9s (r9_bv r)) in HC. rewrite <- E in HC.
  destruct HC as [_ [_ [_ [HQ _]]]]. destruct (HQ pos Hpos) as [A [R _]].
  rewrite Hb in A, R. split; assumption.
Qed.

(* the flag of a value in range, through the Rank9Sel *)
Lemma fl_read_level c r w xs pos : fl_rel r (lv_flag w xs) -> lenN xs < 2 ^ 56 -> pos < lenN xs ->
  r9_access c r pos = Ok (Some (nz (hi w (nthN xs pos 0)))) /\
  r9_rank1 c r pos = Ok (Some (BitSpec.count true (firstn (N.to_nat pos) (lv_flag w xs)))).
Proof.
  intros Hr Hl Hpos.
  destruct (fl_rel_read c r _ pos Hr) as [A R].
  - rewrite lenN_lv_flag. exact Hl.
  - change (2 ^ 56) with 72057594037927936 in Hl. unfold W. lia.
  - rewrite A, R, access_lv_flag, rank_lv_flag by exact Hpos. split; reflexivity.
Qed.

(* ------------------------------------------------------------------ *)
(* nth_opt in terms of nthN                                             *)

Lemma nth_opt_nthN xs i : i < lenN xs -> nth_opt xs i = Some (nthN xs i 0).
Proof.
  intro H. unfold nth_opt, nthN. destruct (N.ltb_spec i (lenN xs)) as [_|H']; [|lia].
  apply nth_error_nth'. unfold lenN in H. lia.
Qed.
Lemma nth_opt_oob xs i : lenN xs <= i -> nth_opt xs i = None.
Proof. intro H. unfold nth_opt. destruct (N.ltb_spec i (lenN xs)); [lia | reflexivity]. Qed.

(* ------------------------------------------------------------------ *)
(* further shared facts                                                 *)

Lemma app_snoc_cons {A} (l : list A) a r : l ++ a :: r = (l ++ [a]) ++ r.
Proof. rewrite <- app_assoc. reflexivity. Qed.

Lemma lv_flags_lens ws : forall xs, Forall (fun l => lenN l <= lenN xs) (lv_flags ws xs).
Proof.
  induction ws as [|w r IH]; intro xs; [constructor|].
  destruct r as [|w' r]; [constructor|]. rewrite lv_flags_cons. constructor.
  - rewrite lenN_lv_flag. lia.
  - eapply Forall_impl; [|apply IH]. cbn beta. intros l Hl. pose proof (lenN_lv_next w xs). lia.
Qed.

Lemma map_lo_small w l : Forall (fun x => x < 2 ^ w) l -> map (lo w) l = l.
Proof.
  induction l as [|x l IH]; intro H; [reflexivity|]. inversion H; subst.
  cbn [map]. rewrite lo_small by assumption. rewrite IH by assumption. reflexivity.
Qed.

Lemma bitlen_lt_pow2 x : x < 2 ^ bitlen x.
Proof.
  unfold bitlen. destruct (N.eqb_spec x 0) as [->|H]; [reflexivity|].
  rewrite N.add_1_r. apply N.log2_spec. lia.
Qed.

Lemma vals_lt_pow vals b : bitlen (max_list vals) <= b -> Forall (fun x => x < 2 ^ b) vals.
Proof.
  intro H. apply Forall_forall. intros x Hx. pose proof (max_list_ge vals x Hx) as Hm.
  pose proof (bitlen_lt_pow2 (max_list vals)) as Hp.
  assert (2 ^ bitlen (max_list vals) <= 2 ^ b) by (apply N.pow_le_mono_r; [discriminate | exact H]).
  lia.
Qed.

Lemma lo_0 w : lo w 0 = 0.
Proof. unfold lo. apply N.mod_0_l. apply N.pow_nonzero. discriminate. Qed.
